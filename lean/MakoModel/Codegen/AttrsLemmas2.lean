import MakoModel.Codegen.AttrsLemmas
/-!
Helper lemmas, second part: `pyUnquote ∘ pyReprA`, evaluation of the generated concatenation, the keyword
arguments of `<%ns:def …>`, and `get_argument_expressions` on what `ParseFunc` stores.
-/
namespace MakoModel.Codegen.Attrs

/-! ### reading a `repr` back -/

theorem hexVal_hexDigit : ∀ d : Nat, d < 16 → hexVal (hexDigit d) = some d := by decide

theorem chooseQuote_cases (s : Str) : chooseQuote s = '\'' ∨ chooseQuote s = '"' := by
  unfold chooseQuote
  split <;> simp

theorem isAscii_cons (c : Char) (s : Str) : isAscii (c :: s) = true ↔ c.toNat < 128 ∧ isAscii s = true := by
  simp [isAscii]

theorem unqBody_escChar (q c : Char) (t v : Str) (hq : q = '\'' ∨ q = '"') (hc : c.toNat < 128)
    (ht : unqBody q t = some v) : unqBody q (escChar q c ++ t) = some (c :: v) := by
  have hbq : '\\' ≠ q := by rcases hq with rfl | rfl <;> decide
  have hxq : 'x' ≠ q := by rcases hq with rfl | rfl <;> decide
  unfold escChar
  by_cases h1 : c = q ∨ c = '\\'
  · have hcx : c ≠ 'x' := by
      rcases h1 with rfl | rfl
      · exact fun e => hxq e.symm
      · decide
    have hc3 : c = '\\' ∨ c = '\'' ∨ c = '"' := by
      rcases h1 with h | h
      · rcases hq with hq | hq
        · exact Or.inr (Or.inl (h.trans hq))
        · exact Or.inr (Or.inr (h.trans hq))
      · exact Or.inl h
    simp only [h1, if_true, List.cons_append, List.nil_append]
    rw [unqBody.eq_def]
    simp [hbq, hcx, ht, hc3]
  · have hcq : c ≠ q := fun e => h1 (Or.inl e)
    have hcb : c ≠ '\\' := fun e => h1 (Or.inr e)
    simp only [h1, if_false]
    by_cases h2 : c = '\t'
    · subst h2
      simp only [if_true, List.cons_append, List.nil_append]
      rw [unqBody.eq_def]
      simp [hbq, ht]
    by_cases h3 : c = '\n'
    · subst h3
      simp only [if_true]
      rw [unqBody.eq_def]
      simp [hbq, ht]
    by_cases h4 : c = '\r'
    · subst h4
      simp only [if_true]
      rw [unqBody.eq_def]
      simp [hbq, ht]
    simp only [h2, h3, h4, if_false]
    by_cases h5 : c.toNat < 32 ∨ c.toNat = 127
    · have hd1 : c.toNat / 16 < 16 := by omega
      have hd2 : c.toNat % 16 < 16 := by omega
      have e : Char.ofNat (16 * (c.toNat / 16) + c.toNat % 16) = c := by
        rw [Nat.div_add_mod]
        exact Char.ofNat_toNat c
      simp only [h5, if_true, List.cons_append, List.nil_append]
      rw [unqBody.eq_def]
      simp [hbq, hexVal_hexDigit _ hd1, hexVal_hexDigit _ hd2, ht, e]
    · simp only [h5, if_false, List.cons_append, List.nil_append]
      rw [unqBody.eq_def]
      simp [hcq, hcb, ht]

theorem unqBody_escBody (q : Char) (s : Str) (hq : q = '\'' ∨ q = '"') (hs : isAscii s = true) :
    unqBody q (escBody q s ++ [q]) = some s := by
  induction s with
  | nil =>
    simp only [escBody, List.nil_append]
    rw [unqBody.eq_def]
    simp
  | cons c s ih =>
    obtain ⟨hc, hs'⟩ := (isAscii_cons c s).1 hs
    simp only [escBody, List.append_assoc]
    exact unqBody_escChar q c _ s hq hc (ih hs')

theorem pyUnquote_pyReprA (s : Str) (hs : isAscii s = true) : pyUnquote (pyReprA s) = some s := by
  have hq := chooseQuote_cases s
  unfold pyReprA pyUnquote
  simp only [hq, if_true]
  exact unqBody_escBody _ s hq hs

/-! ### value of the concatenation -/

def litsAscii : List Piece → Bool
  | [] => true
  | .lit s :: ps => isAscii s && litsAscii ps
  | .ex _ :: ps => litsAscii ps

theorem litsAscii_of_wf (ps : List Piece) (h : wf ps = true) : litsAscii ps = true := by
  induction ps with
  | nil => rfl
  | cons p ps ih =>
    have ht := ih (wf_tail p ps h)
    cases p with
    | ex c => simpa [litsAscii] using ht
    | lit s =>
      have h1 : okLit s = true := by
        simp [wf] at h
        exact h.1.1
      simp [litsAscii, ((okLit_iff s).1 h1).2.2, ht]

theorem evalTerms_pieces (ρ : Str → Str) (ps : List Piece) (h : litsAscii ps = true) :
    evalTerms ρ (ps.map Piece.term) = some (concat (ps.map (Piece.value ρ))) := by
  induction ps with
  | nil => rfl
  | cons p ps ih =>
    cases p with
    | ex c =>
      have ht := ih (by simpa [litsAscii] using h)
      simp [evalTerms, Piece.term, Term.eval, ht, Piece.value, concat]
    | lit s =>
      simp [litsAscii] at h
      have ht := ih h.2
      simp [evalTerms, Piece.term, Term.eval, pyUnquote_pyReprA s h.1, ht, Piece.value, concat]

/-! ### keyword arguments -/

theorem parseAll_render (kvs : List (Str × List Piece)) (h : ∀ kv ∈ kvs, wf kv.2 = true) :
    parseAll (kvs.map fun kv => (kv.1, render kv.2)) = some (kvs.map fun kv => (kv.1, Spec.attrText kv.2)) := by
  induction kvs with
  | nil => rfl
  | cons kv kvs ih =>
    have h1 := h kv (by simp)
    have h2 := ih (fun x hx => h x (by simp [hx]))
    simp [parseAll, parseAttr_render kv.2 h1, h2]

theorem filter_map_key {β γ : Type} (l : List (Str × β)) (f : β → γ) :
    (l.map fun kv => (kv.1, f kv.2)).filter (fun kv => kv.1 ≠ argsKey)
      = (l.filter fun kv => kv.1 ≠ argsKey).map fun kv => (kv.1, f kv.2) := by
  rw [List.filter_map]
  rfl

/-! ### signatures -/

theorem posLoop_call (ns ds : List Str) : posLoop true ns ds = ns := by
  induction ns with
  | nil => rfl
  | cons n ns ih => simp [posLoop, ih]

theorem kwLoop_call (ns : List Str) (kd : List (Option Str)) :
    kwLoop true ns kd = ns.map fun n => eqText n n := by
  induction ns with
  | nil => rfl
  | cons n ns ih => simp [kwLoop, ih]

/-- the loop over (reversed) keyword-only names consumes one stored default per name -/
theorem kwLoop_append (xs ys : List Str) (ds es : List (Option Str)) (h : xs.length = ds.length) :
    kwLoop false (xs ++ ys) (ds ++ es) = kwLoop false xs ds ++ kwLoop false ys es := by
  induction xs generalizing ds with
  | nil =>
    cases ds with
    | nil => rfl
    | cons _ _ => simp at h
  | cons x xs ih =>
    cases ds with
    | nil => simp at h
    | cons d ds =>
      have h' : xs.length = ds.length := by simpa using h
      cases d <;> simp [kwLoop, ih ds h']

theorem kwLoop_params (ps : List Param) :
    kwLoop false (ps.map (·.name)).reverse (ps.map (·.default)).reverse = (ps.map Spec.paramText).reverse := by
  induction ps with
  | nil => rfl
  | cons p ps ih =>
    simp only [List.map_cons, List.reverse_cons]
    rw [kwLoop_append _ _ _ _ (by simp), ih]
    cases hd : p.default <;> simp [kwLoop, Spec.paramText, hd]

/-- the loop over (reversed) positional names: a name past the stored defaults is written bare -/
theorem posLoop_append (xs ys ds : List Str) :
    posLoop false (xs ++ ys) ds = posLoop false xs ds ++ posLoop false ys (ds.drop xs.length) := by
  induction xs generalizing ds with
  | nil => rfl
  | cons x xs ih =>
    cases ds with
    | nil =>
      have := ih []
      simp [posLoop, this]
    | cons d ds => simp [posLoop, ih ds]

theorem posLoop_nil (xs : List Str) : posLoop false xs [] = xs := by
  induction xs with
  | nil => rfl
  | cons x xs ih => simp [posLoop, ih]

theorem posLoop_extra (xs ds es : List Str) (h : xs.length ≤ ds.length) :
    posLoop false xs (ds ++ es) = posLoop false xs ds := by
  induction xs generalizing ds with
  | nil => rfl
  | cons x xs ih =>
    cases ds with
    | nil => simp at h
    | cons d ds =>
      have h' : xs.length ≤ ds.length := by simpa using h
      simp [posLoop, ih ds h']

theorem posLoop_all_defaults (ps : List Param) (h : ps.all (fun q => q.default.isSome) = true) :
    posLoop false (ps.map (·.name)).reverse (ps.filterMap (·.default)).reverse
      = (ps.map Spec.paramText).reverse ∧ (ps.filterMap (·.default)).length = ps.length := by
  induction ps with
  | nil => exact ⟨rfl, rfl⟩
  | cons p ps ih =>
    simp only [List.all_cons, Bool.and_eq_true] at h
    obtain ⟨ih1, ih2⟩ := ih h.2
    cases hd : p.default with
    | none => simp [hd] at h
    | some d =>
      constructor
      · simp only [List.map_cons, List.reverse_cons, List.filterMap_cons, hd]
        rw [posLoop_append, posLoop_extra _ _ _ (by simp [ih2]), ih1]
        simp [ih2, posLoop, Spec.paramText, hd]
      · simp [hd, ih2]

theorem filterMap_length_le (ps : List Param) : (ps.filterMap (·.default)).length ≤ ps.length := by
  induction ps with
  | nil => simp
  | cons p ps ih =>
    cases hd : p.default <;> simp [hd] <;> omega

theorem posLoop_params (ps : List Param) (h : defaultsTrailing ps = true) :
    posLoop false (ps.map (·.name)).reverse (ps.filterMap (·.default)).reverse
      = (ps.map Spec.paramText).reverse := by
  induction ps with
  | nil => rfl
  | cons p ps ih =>
    cases hd : p.default with
    | some d =>
      have hall : (p :: ps).all (fun q => q.default.isSome) = true := by
        simp only [defaultsTrailing, hd, Option.isSome_some, if_true] at h
        simp [hd, h]
      exact (posLoop_all_defaults (p :: ps) hall).1
    | none =>
      have h' : defaultsTrailing ps = true := by
        simpa [defaultsTrailing, hd] using h
      simp only [List.map_cons, List.reverse_cons, List.filterMap_cons, hd]
      rw [posLoop_append, ih h']
      have hl : ((ps.filterMap (·.default)).reverse).drop ps.length = [] := by
        apply List.drop_eq_nil_of_le
        simpa using filterMap_length_le ps
      simp [hl, posLoop, Spec.paramText, hd]

theorem popIf_names (flag : Option Str) (pre : Str) (names : List Str) :
    popIf flag.isSome pre (names ++ optList flag).reverse
      = some ((optList flag).map (pre ++ ·), names.reverse) := by
  cases flag <;> simp [popIf, optList]

theorem getArgExprs_parseFunc (s : PySig) (asCall : Bool) :
    getArgExprs (parseFunc s) asCall = some
      ((optList s.kwarg).map (['*', '*'] ++ ·) ++
        kwLoop asCall (s.kwonly.map (·.name)).reverse (s.kwonly.map (·.default)).reverse ++
        (optList s.vararg).map (['*'] ++ ·) ++
        posLoop asCall (s.pos.map (·.name)).reverse (s.pos.filterMap (·.default)).reverse).reverse := by
  simp only [getArgExprs, parseFunc, popIf_names]

end MakoModel.Codegen.Attrs
