import MakoModel.Codegen.CallsStmt
/-!
# C05 refinement – the whole render, and what the specification says about one call

* `body_refines`, `render_refines`: `Template.render()` of the generated module of a guarded template set and
  `Spec.render` agree (output, kind of result; every crash point, every `error_handler` / `format_exceptions`).
* `sinvoke_val_inv`: what a normally returning call is made of, on the specification side – argument binding,
  the content of the callable rendered in its own environment, the `filter=` functions applied to the whole
  content, value vs. text written – and `filterContent_val`: each filter exactly once.
* `invoke_def_refines`: the same seen from the generated code of a top-level def.
-/
namespace MakoModel.Codegen.Calls
open MakoModel.Target MakoModel.Codegen

theorem sameKind_convV (r : VRes) : SameKind r (convV r) := by cases r <;> simp [SameKind, convV]

theorem relw_init : RelW (Loc.init 0) St.init Spec.Env.init :=
  ⟨fun _ => rfl, rfl, rfl, fun _ _ => by simp [Loc.init, Spec.Env.init, lookup, OptRel]⟩

theorem main_funrel (t : Tmpl) (hg : GoodTop t = true) :
    FunRel ⟨[], ⟨refsLoop t, false, false⟩, codegen t⟩ ⟨[], noFlags, t, .main, 0⟩ := body_funrel t 0 hg

/-- `render_body` of template 0, from the initial state -/
theorem body_refines (ts : List (Tmpl × Option Bool)) (k : Nat) (t : Tmpl) (ieh : Option Bool)
    (hG : GoodAll ((t, ieh) :: ts)) (fuel : Nat) (r : VRes) (σ' : St)
    (he : runBody (progOf ((t, ieh) :: ts) k) fuel St.init = (r, σ')) (hr : r ≠ .timeout) :
    ∃ out, σ'.bufs = [(0, out)] ∧ σ'.frames = [] ∧ σ'.next = [] ∧ σ'.loops = [] ∧
      Ev (fun m => Spec.renderBody ⟨(t, ieh) :: ts, k⟩ m) ⟨convV r, out, σ'.cnt⟩ := by
  have he' : invoke (progOf ((t, ieh) :: ts) k) fuel ⟨⟨[], ⟨refsLoop t, false, false⟩, codegen t⟩, [], 0⟩ []
      (Loc.init 0) St.init = (r, σ') := by
    simpa [runBody, progOf, codegenModule] using he
  obtain ⟨out, hb, p, ev⟩ := (rc_all ((t, ieh) :: ts) k hG fuel).invoke _ ⟨[], noFlags, t, .main, 0⟩ [] [] (Loc.init 0)
    St.init Spec.Env.init [] 0 [] [] r σ' (main_funrel t (hG (t, ieh) List.mem_cons_self)) rfl (fun h => by cases h)
    (fun h => by cases h) relw_init NSRel.nil (loc_init_ok 0) NSOK_nil init_ok rfl he' hr
  refine ⟨out, by simpa using hb, p.1, p.2.2, p.2.1, ?_⟩
  obtain ⟨m0, e0⟩ := ev
  exact ⟨m0, fun m hm => by simpa [Spec.renderBody, St.init] using e0 m hm⟩

/-- `Template.render()` of a guarded template set agrees with `Spec.render` -/
theorem render_refines (ts : List (Tmpl × Option Bool)) (k : Nat) (t : Tmpl) (ieh : Option Bool)
    (hG : GoodAll ((t, ieh) :: ts)) (o : Opts) (fuel : Nat)
    (hr : (render (progOf ((t, ieh) :: ts) k) o fuel).1 ≠ .timeout) :
    ∃ m0, ∀ m, m0 ≤ m →
      (Spec.render ⟨(t, ieh) :: ts, k⟩ o m).2 = (render (progOf ((t, ieh) :: ts) k) o fuel).2.1 ∧
      SameKind (render (progOf ((t, ieh) :: ts) k) o fuel).1 (Spec.render ⟨(t, ieh) :: ts, k⟩ o m).1 := by
  generalize hb : runBody (progOf ((t, ieh) :: ts) k) fuel St.init = b at hr
  obtain ⟨rb, σb⟩ := b
  obtain ⟨eh, fe⟩ := o
  have hrb : rb ≠ .timeout := by
    rintro rfl
    apply hr
    simp only [render, execTemplate, hb]
    split <;> rfl
  obtain ⟨out, hbufs, _, _, _, m0, hspec⟩ := body_refines ts k t ieh hG fuel rb σb hb hrb
  refine ⟨m0, fun m hm => ?_⟩
  have hsv := hspec m hm
  simp only at hsv
  simp only [render, execTemplate, hb, Spec.render, hsv]
  cases rb with
  | timeout => exact absurd rfl hrb
  | val v => rcases eh with _ | b <;> cases fe <;> simp [hbufs, SameKind, convV]
  | exc e =>
    rcases eh with _ | b
    · cases fe <;> simp [hbufs, SameKind, convV]
    · cases b <;> cases fe <;> simp [hbufs, SameKind, convV]

/-! ## one call, on the specification side -/

/-- `filter="f1, f2"`: every function is applied exactly once, to the whole content, in order -/
theorem filterContent_val (k : Nat) : ∀ (fs : List Nat) (s : Str) (c : Nat) (v : Str) (c' : Nat),
    Spec.filterContent k fs s c = (.val v, c') → v = fs.foldl (fun acc f => wrap f acc) s ∧ c' = c + fs.length := by
  intro fs
  induction fs with
  | nil => intro s c v c' h; simp only [Spec.filterContent, Prod.mk.injEq, Spec.SV.val.injEq] at h; simp [h.1, h.2]
  | cons f fs ih =>
    intro s c v c' h
    simp only [Spec.filterContent, Spec.tickS] at h
    split at h
    · rename_i hb
      simp only [Prod.mk.injEq] at hb
      cases hb1 : (c == k) <;> simp [hb1] at hb h
    · rename_i c1 hb
      simp only [Prod.mk.injEq] at hb
      obtain ⟨_, rfl⟩ := hb
      obtain ⟨h1, h2⟩ := ih _ _ _ _ h
      exact ⟨by simpa using h1, by simp [h2]; omega⟩

/-- a call that returns normally: arguments bound, the content rendered in the callable's own environment, the
    filters applied to all of it, and either returned (buffered) or written (not buffered) -/
theorem sinvoke_val_inv (C : Spec.Cfg) (n : Nat) (fn : Spec.SFun) (lexc : Spec.SNS) (vs : List Str) (env : Spec.Env)
    (pend : Spec.SNS) (cnt : Nat) (v side : Str) (c : Nat)
    (h : Spec.sinvoke C (n + 1) fn lexc vs env pend cnt = ⟨.val v, side, c⟩) :
    ∃ bound c0 content c2, zipArgs fn.params vs = some bound ∧
      c0 = (if fn.fl.deco then cnt + 1 else cnt) ∧
      ((Spec.snodes C n fn.body (innerEnv fn lexc bound env pend) c0).o = .normal ∨
        (Spec.snodes C n fn.body (innerEnv fn lexc bound env pend) c0).o = .ret) ∧
      Spec.filterContent C.k fn.fl.filters (Spec.snodes C n fn.body (innerEnv fn lexc bound env pend) c0).out
        (Spec.snodes C n fn.body (innerEnv fn lexc bound env pend) c0).cnt = (.val content, c2) ∧
      v = (if fn.fl.buffered then content else []) ∧ side = (if fn.fl.buffered then [] else content) ∧
      c = (if fn.fl.deco then c2 + 1 else c2) := by
  rw [sinvoke_succ] at h
  cases hz : zipArgs fn.params vs with
  | none => simp [hz] at h
  | some bound =>
    simp only [hz] at h
    have hpre : ∃ c0, c0 = (if fn.fl.deco then cnt + 1 else cnt) ∧
        decoS C.k fn.fl (coreRes C.k fn.fl (Spec.snodes C n fn.body (innerEnv fn lexc bound env pend) c0)) = ⟨.val v, side, c⟩ := by
      by_cases hd : fn.fl.deco = true
      · simp only [hd, if_true, Spec.tickS] at h ⊢
        cases hb : (cnt == C.k) <;> simp only [hb] at h
        · exact ⟨_, rfl, h⟩
        · cases h
      · simp only [hd, Bool.false_eq_true, if_false] at h ⊢
        exact ⟨_, rfl, h⟩
    obtain ⟨c0, hc0, hdec⟩ := hpre
    refine ⟨bound, c0, ?_⟩
    generalize Spec.snodes C n fn.body (innerEnv fn lexc bound env pend) c0 = R at hdec ⊢
    obtain ⟨o, out, c1, vv⟩ := R
    have key : ∀ (ho : o = .normal ∨ o = .ret),
        ∃ content c2, Spec.filterContent C.k fn.fl.filters out c1 = (.val content, c2) ∧
          v = (if fn.fl.buffered then content else []) ∧ side = (if fn.fl.buffered then [] else content) ∧
          c = (if fn.fl.deco then c2 + 1 else c2) := by
      intro ho
      have hcr : coreRes C.k fn.fl ⟨o, out, c1, vv⟩ =
          (match Spec.filterContent C.k fn.fl.filters out c1 with
            | (.exc e, c2) => ⟨.exc e, [], c2⟩
            | (.timeout, c2) => ⟨.timeout, [], c2⟩
            | (.val content, c2) => ⟨.val (if fn.fl.buffered then content else []), if fn.fl.buffered then [] else content, c2⟩) := by
        rcases ho with rfl | rfl <;> rfl
      rw [hcr] at hdec
      generalize Spec.filterContent C.k fn.fl.filters out c1 = fc at hdec ⊢
      obtain ⟨fr, c2⟩ := fc
      cases fr with
      | exc e => simp [decoS] at hdec
      | timeout => simp [decoS] at hdec
      | val content =>
        refine ⟨content, c2, rfl, ?_⟩
        simp only [decoS] at hdec
        by_cases hd : fn.fl.deco = true
        · simp only [hd, if_true, Spec.tickS] at hdec ⊢
          cases hb : (c2 == C.k) <;> simp only [hb] at hdec
          · simp only [Spec.SE.mk.injEq, Spec.SV.val.injEq] at hdec
            exact ⟨hdec.1.symm, hdec.2.1.symm, hdec.2.2.symm⟩
          · simp at hdec
        · simp only [hd, Bool.false_eq_true, if_false, Spec.SE.mk.injEq, Spec.SV.val.injEq] at hdec ⊢
          exact ⟨hdec.1.symm, hdec.2.1.symm, hdec.2.2.symm⟩
    cases o with
    | normal => obtain ⟨content, c2, h1, h2, h3, h4⟩ := key (.inl rfl); exact ⟨content, c2, rfl, hc0, .inl rfl, h1, h2, h3, h4⟩
    | ret => obtain ⟨content, c2, h1, h2, h3, h4⟩ := key (.inr rfl); exact ⟨content, c2, rfl, hc0, .inr rfl, h1, h2, h3, h4⟩
    | timeout => simp [coreRes, decoS] at hdec
    | exc e => simp [coreRes, decoS] at hdec
    | brk => simp [coreRes, decoS] at hdec
    | cont => simp [coreRes, decoS] at hdec

/-- the specification's callable of a top-level def -/
def defSF (ps : List Name) (fl : DefFlags) (body : Tmpl) (mod : Nat) : Spec.SFun := ⟨ps, fl, body, .def_, mod⟩

/-- calling the render callable generated for a top-level def: what the specification says about the def -/
theorem invoke_def_refines (ts : List (Tmpl × Option Bool)) (k : Nat) (hG : GoodAll ts) (ps : List Name) (fl : DefFlags)
    (body : Tmpl) (hc : fl.cached = false) (hnd : nodupB (declNames body) = true)
    (hg : Good (defScope body) false (Spec.isBuffering fl) true false body = true)
    (own : Bool) (mod : Nat) (clex : NS) (vs : List Str) (l : Loc) (σ : St) (E : Spec.Env) (pend : Spec.SNS) (i : Nat)
    (top : Str) (rest : List (Nat × Str)) (hR : RelW l σ E) (hN : NSRel σ.next pend) (hl : LocOK l) (hlex : NSOK clex)
    (hσ : StOK σ) (hb : σ.bufs = (i, top) :: rest) (n : Nat) (r : VRes) (σ' : St)
    (he : invoke (progOf ts k) n ⟨⟨ps, ⟨own, fl.deco, false⟩, renderCallable false fl body⟩, clex, mod⟩ vs l σ = (r, σ'))
    (hr : r ≠ .timeout) :
    ∃ out, σ'.bufs = (i, top ++ out) :: rest ∧ Post σ σ' ∧
      Ev (fun m => Spec.sinvoke ⟨ts, k⟩ m (defSF ps fl body mod) [] vs E pend σ.cnt) ⟨convV r, out, σ'.cnt⟩ := by
  have hfr : FunRel ⟨ps, ⟨own, fl.deco, false⟩, renderCallable false fl body⟩ (defSF ps fl body mod) := by
    have := FunRel.def_ (defScope body) ps fl body own false mod .def_ (.inl ⟨rfl, rfl⟩) hc hnd hg
    simpa [renderCallable, defScope, defSF] using this
  exact (rc_all ts k hG n).invoke _ (defSF ps fl body mod) [] vs l σ E pend i top rest r σ' hfr rfl
    (fun h => by simp [defSF] at h) (fun h => by simp [defSF] at h) hR hN hl hlex hσ hb he hr

end MakoModel.Codegen.Calls
