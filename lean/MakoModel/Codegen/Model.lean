import MakoModel.Target.Model
/-!
# L3 core – structured templates and the code generator's output shape

`Tmpl` is the structured template (L2 shape) for the constructs whose generated code touches the runtime
stacks; `codegen*` reproduces the *structure* `mako/codegen.py` emits for them: where every `try/finally`
sits, the order of the pops, where closure defs are hoisted to, which callables get their own `LoopStack`.

Grammar restrictions (the generator `harness/gen_template.py` stays inside them; `codegen` is total anyway):
nested `<%def>`s sit directly in a def/body/`<%call>` or under control lines, not inside `<%block>`s; named
blocks sit at the top scope of the template; `<%text>` contains text only (as the lexer guarantees).
-/
namespace MakoModel.Codegen
open MakoModel.Target

structure DefFlags where
  buffered : Bool
  filters : List Nat     -- `filter="f1, f2"`
  cached : Bool          -- cache modelled as pass-through (`cache_enabled=False`)
  deco : Bool            -- `decorator=` present
  deriving DecidableEq, Repr, Inhabited

inductive Tmpl
  | nil
  | seq (a b : Tmpl)
  | text (s : Str)
  | expr (e : Expr) (fs : List Nat)                       -- `${e | f1, f2}`
  | ite (c : Expr) (t e : Tmpl)                           -- `% if c:` … `% else:` … `% endif`
  | for_ (x : Name) (items : List Expr) (body : Tmpl)     -- `% for x in [items]:`
  | while_ (n : Nat) (body : Tmpl)                        -- `% while below(n):`
  | try_ (b h : Tmpl)                                     -- `% try:` … `% except:` … `% endtry`
  | def_ (name : Name) (params : List Name) (fl : DefFlags) (body : Tmpl)
  | block (name : Name) (anon : Bool) (fl : DefFlags) (body : Tmpl)
  | call (e : Expr) (bodyArgs : List Name) (body : Tmpl)  -- `<%call expr=e args=…>` / `<%ns:def>`
  | textTag (fs : List Nat) (s : Str)                     -- `<%text filter=…>`
  | include_ (i : Nat)                                    -- `<%include file=…/>` of template `i` of the set
  | ret                                                   -- `<% return '' %>`
  | brk                                                   -- `<% break %>`
  | cont                                                  -- `<% continue %>`
  deriving Repr, Inhabited

/-- offset of the name of the undecorated inner callable of a cached def (`__M_<name>`) -/
def innerName (n : Name) : Name := n + 1000000

mutual
def exprMentionsLoop : Expr → Bool
  | .loopIndex => true
  | .cat a b => exprMentionsLoop a || exprMentionsLoop b
  | .filt _ e => exprMentionsLoop e
  | .call _ args => argsMentionLoop args
  | .callerCall _ args => argsMentionLoop args
  | .capture _ args => argsMentionLoop args
  | _ => false
def argsMentionLoop : List Expr → Bool
  | [] => false
  | e :: es => exprMentionsLoop e || argsMentionLoop es
end

/-- `LoopVariable` (`mangle_mako_loop`): any reference anywhere below, through every tag -/
def mentionsLoopDeep : Tmpl → Bool
  | .seq a b => mentionsLoopDeep a || mentionsLoopDeep b
  | .expr e _ => exprMentionsLoop e
  | .ite c t e => exprMentionsLoop c || mentionsLoopDeep t || mentionsLoopDeep e
  | .for_ _ items body => argsMentionLoop items || mentionsLoopDeep body
  | .while_ _ body => mentionsLoopDeep body
  | .try_ b h => mentionsLoopDeep b || mentionsLoopDeep h
  | .def_ _ _ _ body => mentionsLoopDeep body
  | .block _ _ _ body => mentionsLoopDeep body
  | .call _ _ body => mentionsLoopDeep body   -- `LoopVariable` has no visitCallTag: the tag's `expr` is not looked at
  | _ => false

/-- `'loop' in undeclared` as `_Identifiers` computes it for one scope: the scope's own expressions and
    control lines and the content of its blocks; not the content of nested defs or `<%call>` bodies – except that
    a `% for` which `mangle_mako_loop` will rewrite (a mention of `loop` anywhere below it, `mentionsLoopDeep`)
    counts as a reference itself, so that the callable holding it creates its `__M_loop` -/
def refsLoop : Tmpl → Bool
  | .seq a b => refsLoop a || refsLoop b
  | .expr e _ => exprMentionsLoop e
  | .ite c t e => exprMentionsLoop c || refsLoop t || refsLoop e
  | .for_ _ items body => argsMentionLoop items || mentionsLoopDeep body
  | .while_ _ body => refsLoop body
  | .try_ b h => refsLoop b || refsLoop h
  | .block _ _ _ body => refsLoop body
  | .call e _ _ => exprMentionsLoop e
  | _ => false

mutual
def exprUsesCaller : Expr → Bool
  | .callerCall _ _ => true
  | .cat a b => exprUsesCaller a || exprUsesCaller b
  | .filt _ e => exprUsesCaller e
  | .call _ args => argsUseCaller args
  | .capture _ args => argsUseCaller args
  | _ => false
def argsUseCaller : List Expr → Bool
  | [] => false
  | e :: es => exprUsesCaller e || argsUseCaller es
end

/-- `'caller' in undeclared` of one scope (same reach as `refsLoop`) -/
def usesCaller : Tmpl → Bool
  | .seq a b => usesCaller a || usesCaller b
  | .expr e _ => exprUsesCaller e
  | .ite c t e => exprUsesCaller c || usesCaller t || usesCaller e
  | .for_ _ items body => argsUseCaller items || usesCaller body
  | .while_ _ body => usesCaller body
  | .try_ b h => usesCaller b || usesCaller h
  | .block _ _ _ body => usesCaller body
  | .call e _ _ => exprUsesCaller e
  | _ => false

/-- what a scope knows statically -/
structure Scope where
  top : Bool     -- the body of the template itself (`<%def>`s and named blocks here are top-level callables)
  cd : Bool      -- `caller` is in `declared ∪ undeclared` of the scope's `_Identifiers` (closures written in this
                 -- scope do not fetch it from the context again)
  bind : Bool    -- the nearest Python binding of the name `caller`, from this scope outwards, is the parameter
                 -- of a `ccall(caller)` (otherwise it is a `caller = context.get('caller')`, i.e. the caller stack)
  loops : Bool   -- an `__M_loop` is in scope
  deriving DecidableEq, Repr, Inhabited

/-- does a callable written with inherited `cd0` fetch `caller` from the context itself? -/
def ownCaller (cd0 : Bool) (body : Tmpl) : Bool := usesCaller body && !cd0

def applyFilters : List Nat → Expr → Expr
  | [], e => e
  | f :: fs, e => applyFilters fs (.filt f e)

def emptyStr : Expr := .lit []

/-- `write_def_finish` around a callable's prologue `pre` and body -/
def defShape (fl : DefFlags) (pre body : Stmt) : Stmt :=
  if fl.buffered || fl.cached then
    .seq (.prim .pushFrame)
      (.seq (.tryFinally (.seq (.prim .pushBuffer) (.seq pre body))
                         (.seq (.prim .popBuffer) (.prim .popFrame)))
            (.ret (applyFilters fl.filters .mbuf)))
  else if fl.filters.isEmpty then
    .seq (.prim .pushFrame)
      (.tryFinally (.seq pre (.seq body (.ret emptyStr))) (.prim .popFrame))
  else
    .seq (.prim .pushFrame)
      (.seq (.tryFinally (.seq (.prim .pushBuffer) (.seq pre body))
                         (.seq (.prim .popBufferAndWriter) (.prim .popFrame)))
            (.seq (.write (applyFilters fl.filters .mbuf)) (.ret emptyStr)))

/-- `write_cache_decorator`: the replacement callable -/
def cacheWrapper (name : Name) (params : List Name) (buffered : Bool) : Stmt :=
  let inner := Expr.call (innerName name) (params.map .var)
  if buffered then .seq (.seq .skip (.prim .getWriter)) (.ret inner)
  else .seq (.seq .skip (.prim .getWriter)) (.seq (.write inner) (.ret emptyStr))

/-- the statement(s) defining an inline def -/
def inlineDef (lex : Bool) (name : Name) (params : List Name) (fl : DefFlags) (own : Bool)
    (pre body : Stmt) : Stmt :=
  let flags : FunFlags := { ownLoops := own, deco := fl.deco, lex := lex }
  if fl.cached then
    .seq (.defn (innerName name) params flags (defShape fl pre body))
         -- the replacement callable repeats the `LoopStack` declaration of the original
         (.defn name params { ownLoops := own, deco := false, lex := lex } (cacheWrapper name params fl.buffered))
  else .defn name params flags (defShape fl pre body)

/-- the scope of the content of a closure written in scope `sc`, whose nearest outer binding of `caller` is
    `bindIn` -/
def subScope (sc : Scope) (bindIn : Bool) (body : Tmpl) : Scope :=
  { top := false, cd := sc.cd || usesCaller body,
    bind := if ownCaller sc.cd body then false else bindIn,
    loops := sc.loops || refsLoop body }
/-- which `caller` the closure itself sees -/
def effLex (sc : Scope) (bindIn : Bool) (body : Tmpl) : Bool :=
  if ownCaller sc.cd body then false else bindIn
def ownsLoops (sc : Scope) (body : Tmpl) : Bool := refsLoop body && !sc.loops

mutual

/-- the visitor: statements for the nodes of a scope, in order -/
def stmts (sc : Scope) : Tmpl → Stmt
  | .nil => .skip
  | .seq a b => .seq (stmts sc a) (stmts sc b)
  | .text s => .write (.lit s)
  | .expr e fs => .write (applyFilters fs e)
  | .ite c t e => .ite c (stmts sc t) (stmts sc e)
  | .for_ x items body =>
    if argsMentionLoop items || mentionsLoopDeep body then
      -- when no `__M_loop` is in scope (`loop` is only mentioned inside a nested def / `<%call>` body) the
      -- same code is emitted and fails with a NameError at run time
      .seq (.loopEnter sc.loops items) (.tryFinally (.forLoop x (stmts sc body)) (.prim .loopExit))
    else .forIn x items (stmts sc body)
  | .while_ n body => .whileLt n (stmts sc body)
  | .try_ b h => .tryExcept (stmts sc b) (stmts sc h)
  | .def_ _ _ _ _ => .skip
  | .block name _ _ _ => .write (.call name [])   -- `__M_writer(name() or '')`: a buffered block returns its content
  | .call e bodyArgs body =>
    let bsc : Scope := { top := false, cd := true, bind := true, loops := sc.loops || refsLoop body }
    .seq (.prim .saveNextCaller)
      (.seq (.setNextCaller
              (.seq (callDefs { sc with top := false, cd := false } body)
                    (.defn 0 bodyArgs { ownLoops := ownsLoops sc body, deco := false, lex := true }
                       (.seq (.seq (bodyHoist bsc body) (.prim .getWriter))
                             (.seq (stmts bsc body) (.ret emptyStr))))))
           (.tryFinally (.write e) (.prim .restoreNextCaller)))
  | .textTag fs s =>
    if fs.isEmpty then .write (.lit s)
    else .seq (.prim .pushWriter)
           (.tryFinally (.write (.lit s))
              (.seq (.prim .popBufferAndWriter) (.write (applyFilters fs .mbuf))))
  | .include_ i => .exprStmt (.includeFile i)
  | .ret => .ret emptyStr
  | .brk => .brk
  | .cont => .cont

/-- closure defs written at the start of a scope (`write_variable_declares`): nested defs and anonymous
    blocks, one level deep -/
def hoist (sc : Scope) : Tmpl → Stmt
  | .seq a b => .seq (hoist sc a) (hoist sc b)
  | .ite _ t e => .seq (hoist sc t) (hoist sc e)
  | .for_ _ _ body => hoist sc body
  | .while_ _ body => hoist sc body
  | .try_ b h => .seq (hoist sc b) (hoist sc h)
  | .def_ name params fl body =>
    if sc.top then .skip else
    let s := subScope sc sc.bind body
    inlineDef (effLex sc sc.bind body) name params fl (ownsLoops sc body)
      (.seq (hoist s body) (.prim .getWriter)) (stmts s body)
  | .block name anon fl body =>
    -- `_Identifiers.visitBlockTag` descends into the block: closures inside it are *also* closures of the
    -- enclosing scope (they are written twice)
    let s := subScope sc sc.bind body
    .seq (if sc.top && !anon then .skip else
            inlineDef (effLex sc sc.bind body) name [] fl (ownsLoops sc body)
              (.seq (hoist s body) (.prim .getWriter)) (stmts s body))
         (hoist { sc with top := false } body)
  | _ => .skip

/-- the defs written into `ccall` (`DefVisitor`): the defs and blocks among the children of the `<%call>` (the
    tag's node list is flat, so also those under its control lines); not the content of nested `<%call>`s, whose
    defs belong to their own `ccall` -/
def callDefs (sc : Scope) : Tmpl → Stmt
  | .seq a b => .seq (callDefs sc a) (callDefs sc b)
  | .ite _ t e => .seq (callDefs sc t) (callDefs sc e)
  | .for_ _ _ body => callDefs sc body
  | .while_ _ body => callDefs sc body
  | .try_ b h => .seq (callDefs sc b) (callDefs sc h)
  | .def_ name params fl body =>
    let s := subScope sc true body
    inlineDef (effLex sc true body) name params fl (ownsLoops sc body)
      (.seq (hoist s body) (.prim .getWriter)) (stmts s body)
  | .block name _ fl body =>
    let s := subScope sc true body
    inlineDef (effLex sc true body) name [] fl (ownsLoops sc body)
      (.seq (hoist s body) (.prim .getWriter)) (stmts s body)
  | _ => .skip

/-- closures written at the start of `body()`: those of the body's `_Identifiers` that `DefVisitor` did not
    write into `ccall` - the ones inside blocks that sit directly in the `<%call>` -/
def bodyHoist (sc : Scope) : Tmpl → Stmt
  | .seq a b => .seq (bodyHoist sc a) (bodyHoist sc b)
  | .ite _ t e => .seq (bodyHoist sc t) (bodyHoist sc e)
  | .for_ _ _ body => bodyHoist sc body
  | .while_ _ body => bodyHoist sc body
  | .try_ b h => .seq (bodyHoist sc b) (bodyHoist sc h)
  | .block _ _ _ body => hoist sc body
  | _ => .skip

/-- history: before 4a9e6c6 the `DefVisitor` also wrote into `ccall` every def and block textually inside a
    control line or a nested `<%call>` of the call; this was that collection.  `callDefs` no longer uses it and
    nothing in the generated code depends on it (it stays only because `Codegen/Calls.lean` records that it is
    empty on its fragment). -/
def deepDefs (sc : Scope) : Tmpl → Stmt
  | .seq a b => .seq (deepDefs sc a) (deepDefs sc b)
  | .ite _ t e => .seq (deepDefs sc t) (deepDefs sc e)
  | .for_ _ _ body => deepDefs sc body
  | .while_ _ body => deepDefs sc body
  | .try_ b h => .seq (deepDefs sc b) (deepDefs sc h)
  | .call _ _ body => deepDefs sc body
  | .def_ name params fl body =>
    let s := subScope sc true body
    .seq (inlineDef (effLex sc true body) name params fl (ownsLoops sc body)
            (.seq (hoist s body) (.prim .getWriter)) (stmts s body))
         (deepDefs sc body)
  | .block name _ fl body =>
    let s := subScope sc true body
    .seq (inlineDef (effLex sc true body) name [] fl (ownsLoops sc body)
            (.seq (hoist s body) (.prim .getWriter)) (stmts s body))
         (deepDefs sc body)
  | _ => .skip

end

/-- body of a top-level render callable (`top`: `render_body` itself) -/
def renderCallable (top : Bool) (fl : DefFlags) (body : Tmpl) : Stmt :=
  let s : Scope := { top := top, cd := usesCaller body, bind := false, loops := refsLoop body }
  defShape fl (.seq (hoist s body) (.prim .getWriter)) (stmts s body)

def noFlags : DefFlags := { buffered := false, filters := [], cached := false, deco := false }

/-- the statements of `render_body` -/
def codegen (t : Tmpl) : Stmt := renderCallable true noFlags t

def topFun (name : Name) (params : List Name) (fl : DefFlags) (body : Tmpl) : List (Name × Fun) :=
  let flags : FunFlags := { ownLoops := refsLoop body, deco := fl.deco, lex := false }
  if fl.cached then
    [ (innerName name, ⟨params, flags, renderCallable false fl body⟩),
      (name, ⟨params, { ownLoops := refsLoop body, deco := false, lex := false }, cacheWrapper name params fl.buffered⟩) ]
  else [ (name, ⟨params, flags, renderCallable false fl body⟩) ]

/-- the top-level render callables of a template: its root `<%def>`s and named blocks -/
def topDefs : Tmpl → List (Name × Fun)
  | .seq a b => topDefs a ++ topDefs b
  | .ite _ t e => topDefs t ++ topDefs e
  | .for_ _ _ body => topDefs body
  | .while_ _ body => topDefs body
  | .try_ b h => topDefs b ++ topDefs h
  | .def_ name params fl body => topFun name params fl body
  | .block name anon fl body => if anon then [] else topFun name [] fl body
  | _ => []

/-- the generated module of one template -/
def codegenModule (t : Tmpl) (ieh : Option Bool) : Module :=
  { body := ⟨[], { ownLoops := refsLoop t, deco := false, lex := false }, codegen t⟩,
    defs := topDefs t, ieh := ieh }

end MakoModel.Codegen
