import MakoModel.Codegen.Attrs
/-!
Helper lemmas for the attribute-splitting part of `MakoModel/Codegen/Attrs.lean`:
the split of a rendered well-formed piece list gives the pieces back.
-/
namespace MakoModel.Codegen.Attrs

/-! ### membership form of the guards -/

theorem okLit_iff (s : Str) :
    okLit s = true ↔ s ≠ [] ∧ '{' ∉ s ∧ isAscii s = true := by
  cases s <;> simp [okLit]

theorem okCode_iff (c : Str) :
    okCode c = true ↔ c ≠ [] ∧ '{' ∉ c ∧ '}' ∉ c := by
  cases c <;> simp [okCode]

/-! ### the scanners -/

theorem splitFirst_append (c : Char) (a b : Str) (ha : c ∉ a) :
    splitFirst c (a ++ c :: b) = some (a ++ [c], b) := by
  induction a with
  | nil => simp [splitFirst]
  | cons x a ih =>
    have hx : x ≠ c := fun h => ha (by simp [h])
    have ha' : c ∉ a := fun h => ha (by simp [h])
    simp [splitFirst, hx, ih ha']

theorem scanBrace_append_none (a b : Str) (ha : '{' ∉ a) (hb : scanBrace b = none) :
    scanBrace (a ++ b) = none := by
  induction a with
  | nil => simpa using hb
  | cons x a ih =>
    have hx : x ≠ '{' := fun h => ha (by simp [h])
    have ha' : '{' ∉ a := fun h => ha (by simp [h])
    by_cases h : x = '$'
    · simp [scanBrace, h]
    · simp [scanBrace, h, hx, ih ha']

theorem scanBrace_cons_none (x : Char) (b : Str) (hx : x ≠ '{') (hb : scanBrace b = none) :
    scanBrace (x :: b) = none := by
  have := scanBrace_append_none [x] b (by simp [Ne.symm hx]) hb
  simpa using this

/-! ### `matchHere` -/

theorem matchHere_single (x : Char) : matchHere [x] = none := rfl

theorem matchHere_second (x y : Char) (t : Str) (h : y ≠ '{') : matchHere (x :: y :: t) = none := by
  simp [matchHere, h]

theorem matchHere_first (x : Char) (t : Str) (h : x ≠ '$') : matchHere (x :: t) = none := by
  cases t with
  | nil => rfl
  | cons y t => simp [matchHere, h]

/-- a well-formed expression piece in front of a text on which alternative 1 finds no `{` is matched exactly -/
theorem matchHere_ex (c rest : Str) (hc : okCode c = true) (hr : scanBrace rest = none) :
    matchHere ('$' :: '{' :: (c ++ '}' :: rest)) = some (c ++ ['}'], rest) := by
  obtain ⟨hne, hob, hcb⟩ := (okCode_iff c).1 hc
  have h1 : alt1 (c ++ '}' :: rest) = none := by
    have : scanBrace (c ++ '}' :: rest) = none :=
      scanBrace_append_none c _ hob (scanBrace_cons_none '}' rest (by decide) hr)
    simp [alt1, this]
  cases c with
  | nil => exact absurd rfl hne
  | cons c0 c' =>
    have hcb' : '}' ∉ c' := fun h => hcb (by simp [h])
    have h2 : alt2 (c0 :: c' ++ '}' :: rest) = some (c0 :: c' ++ ['}'], rest) := by
      simp [alt2, splitFirst_append '}' c' rest hcb']
    simp only [List.cons_append] at h1 h2 ⊢
    simp [matchHere, h1, h2]

/-! ### `splitGo` -/

theorem splitGo_skip (a rest : Str) : splitGo (a ++ rest) a.length = splitGo rest 0 := by
  induction a with
  | nil => rfl
  | cons x a ih => simpa [splitGo] using ih

/-- put a text in front of the first piece -/
def prependHead (s : Str) (l : List Str) : List Str := s.foldr consHead l

theorem prependHead_cons (s h : Str) (t : List Str) : prependHead s (h :: t) = (s ++ h) :: t := by
  induction s with
  | nil => rfl
  | cons x s ih => simp [prependHead, consHead] at ih ⊢; rw [ih]

/-- literal text without `{`, in front of a text that does not begin with `{`, is never the start of a match -/
theorem splitGo_lit (s r : Str) (hs : '{' ∉ s) (hr : r.head? ≠ some '{') :
    splitGo (s ++ r) 0 = prependHead s (splitGo r 0) := by
  induction s with
  | nil => rfl
  | cons x s ih =>
    have hs' : '{' ∉ s := fun h => hs (by simp [h])
    have hm : matchHere (x :: (s ++ r)) = none := by
      cases hsr : s ++ r with
      | nil => rfl
      | cons y t =>
        apply matchHere_second
        intro hy
        subst hy
        cases s with
        | nil =>
          simp at hsr
          rw [hsr] at hr
          simp at hr
        | cons z s =>
          simp at hsr
          exact hs' (by simp [hsr.1])
    simp only [List.cons_append, splitGo, hm, prependHead, List.foldr_cons]
    rw [ih hs']
    rfl

/-! ### the rendered value of a well-formed piece list -/

theorem render_head (ps : List Piece) (h : wf ps = true) : (render ps).head? ≠ some '{' := by
  cases ps with
  | nil => simp [render]
  | cons p ps =>
    cases p with
    | ex c => simp [render, Piece.render]
    | lit s =>
      have h1 : okLit s = true := by
        simp [wf] at h
        exact h.1.1
      obtain ⟨hne, hb, _⟩ := (okLit_iff s).1 h1
      cases s with
      | nil => exact absurd rfl hne
      | cons x s =>
        have : x ≠ '{' := fun e => hb (by simp [e])
        simp [render, Piece.render, this]

theorem wf_tail (p : Piece) (ps : List Piece) (h : wf (p :: ps) = true) : wf ps = true := by
  cases p <;> simp [wf] at h <;> simp [h]

theorem render_scan (ps : List Piece) (h : wf ps = true) : scanBrace (render ps) = none := by
  induction ps with
  | nil => rfl
  | cons p ps ih =>
    have ht := ih (wf_tail p ps h)
    cases p with
    | ex c => simp [render, Piece.render, scanBrace]
    | lit s =>
      have h1 : okLit s = true := by
        simp [wf] at h
        exact h.1.1
      obtain ⟨_, hb, _⟩ := (okLit_iff s).1 h1
      exact scanBrace_append_none s _ hb ht

/-- the list `re.split` returns for a well-formed piece list -/
def expected : List Piece → List Str
  | [] => [[]]
  | .lit s :: ps => prependHead s (expected ps)
  | .ex c :: ps => [] :: ('$' :: '{' :: (c ++ ['}'])) :: expected ps

theorem split_render (ps : List Piece) (h : wf ps = true) : splitAttr (render ps) = expected ps := by
  unfold splitAttr
  induction ps with
  | nil => rfl
  | cons p ps ih =>
    have hw := wf_tail p ps h
    have ht := ih hw
    cases p with
    | lit s =>
      have h1 : okLit s = true := by
        simp [wf] at h
        exact h.1.1
      obtain ⟨_, hb, _⟩ := (okLit_iff s).1 h1
      simp only [render, Piece.render, expected]
      rw [splitGo_lit s _ hb (render_head ps hw), ht]
    | ex c =>
      have hc : okCode c = true := by
        simp [wf] at h
        exact h.1
      have hm := matchHere_ex c (render ps) hc (render_scan ps hw)
      have e1 : render (Piece.ex c :: ps) = '$' :: '{' :: (c ++ '}' :: render ps) := by
        simp [render, Piece.render]
      have e2 : c ++ '}' :: render ps = (c ++ ['}']) ++ render ps := by simp
      rw [e1]
      simp only [splitGo, hm, expected]
      rw [e2, splitGo_skip (c ++ ['}']) (render ps), ht]

/-! ### the piece test on the pieces of a well-formed list -/

theorem pieceEnd_code (c : Str) (h : '}' ∉ c) : pieceEnd (c ++ ['}']) = some c := by
  induction c with
  | nil => simp [pieceEnd]
  | cons x c ih =>
    have hx : x ≠ '}' := fun e => h (by simp [e])
    have h' : '}' ∉ c := fun e => h (by simp [e])
    simp [pieceEnd, hx, ih h']

theorem pieceCode_ex (c : Str) (hc : okCode c = true) : pieceCode ('$' :: '{' :: (c ++ ['}'])) = some c := by
  obtain ⟨hne, _, hcb⟩ := (okCode_iff c).1 hc
  cases c with
  | nil => exact absurd rfl hne
  | cons c0 c' =>
    have hcb' : '}' ∉ c' := fun h => hcb (by simp [h])
    simp [pieceCode, pieceEnd_code c' hcb']

theorem pieceCode_lit (s : Str) (h : '{' ∉ s) : pieceCode s = none := by
  match s with
  | [] => rfl
  | [_] => rfl
  | [_, _] => rfl
  | x :: y :: c :: t =>
    have hy : y ≠ '{' := fun e => h (by simp [e])
    simp [pieceCode, hy]

theorem pieceTerms_nil_cons (l : List Str) : pieceTerms ([] :: l) = pieceTerms l := by
  simp [pieceTerms, pieceCode]

theorem pieceTerms_expected (ps : List Piece) (h : wf ps = true) :
    pieceTerms (expected ps) = some (ps.map Piece.term) := by
  induction ps with
  | nil => simp [expected, pieceTerms, pieceCode]
  | cons p ps ih =>
    have hw := wf_tail p ps h
    have ht := ih hw
    cases p with
    | ex c =>
      have hc : okCode c = true := by
        simp [wf] at h
        exact h.1
      simp only [expected, pieceTerms_nil_cons]
      simp [pieceTerms, pieceCode_ex c hc, ht, Piece.term]
    | lit s =>
      have h1 : okLit s = true := by
        simp [wf] at h
        exact h.1.1
      obtain ⟨hne, hb, hasc⟩ := (okLit_iff s).1 h1
      -- the next piece is an expression or there is none: the first piece of the rest is empty
      have hshape : ∃ t, expected ps = [] :: t := by
        cases ps with
        | nil => exact ⟨[], rfl⟩
        | cons q qs =>
          cases q with
          | ex c => exact ⟨_, rfl⟩
          | lit s' => simp [wf] at h
      obtain ⟨t, et⟩ := hshape
      have ht' : pieceTerms t = some (ps.map Piece.term) := by
        rw [et, pieceTerms_nil_cons] at ht
        exact ht
      have hse : s.isEmpty = false := by
        cases s with
        | nil => exact absurd rfl hne
        | cons _ _ => rfl
      simp only [expected, et, prependHead_cons, List.append_nil]
      simp [pieceTerms, pieceCode_lit s hb, hse, pyRepr, hasc, ht', Piece.term]

theorem codes_expected (ps : List Piece) (h : wf ps = true) :
    (expected ps).filterMap (fun x => match pieceCode x with
      | some g => some (rstrip g)
      | none => none) = (ps.filterMap Piece.code?).map rstrip := by
  induction ps with
  | nil => simp [expected, pieceCode]
  | cons p ps ih =>
    have hw := wf_tail p ps h
    have ht := ih hw
    cases p with
    | ex c =>
      have hc : okCode c = true := by
        simp [wf] at h
        exact h.1
      simp only [expected, List.filterMap_cons, pieceCode_ex c hc, Piece.code?, List.map_cons, ht]
      simp [pieceCode]
    | lit s =>
      have h1 : okLit s = true := by
        simp [wf] at h
        exact h.1.1
      obtain ⟨_, hb, _⟩ := (okLit_iff s).1 h1
      have hshape : ∃ t, expected ps = [] :: t := by
        cases ps with
        | nil => exact ⟨[], rfl⟩
        | cons q qs =>
          cases q with
          | ex c => exact ⟨_, rfl⟩
          | lit s' => simp [wf] at h
      obtain ⟨t, et⟩ := hshape
      rw [et] at ht
      simp only [expected, et, prependHead_cons, List.append_nil, List.filterMap_cons, pieceCode_lit s hb,
        Piece.code?]
      simpa [pieceCode] using ht

theorem attrCodes_render (ps : List Piece) (h : wf ps = true) :
    attrCodes (render ps) = (ps.filterMap Piece.code?).map rstrip := by
  unfold attrCodes
  rw [split_render ps h]
  exact codes_expected ps h

theorem attrTerms_render (ps : List Piece) (h : wf ps = true) :
    attrTerms (render ps) = some (ps.map Piece.term) := by
  unfold attrTerms
  rw [split_render ps h, pieceTerms_expected ps h]

/-! ### joining -/

theorem join_ne_nil (sep x : Str) (xs : List Str) (hx : x ≠ []) : join sep (x :: xs) ≠ [] := by
  cases xs with
  | nil => simpa [join] using hx
  | cons y ys =>
    cases x with
    | nil => exact absurd rfl hx
    | cons a x => simp [join]

theorem Term.text_ne_nil_of_piece (p : Piece) : p.term.text ≠ [] := by
  cases p <;> simp [Piece.term, Term.text, pyReprA]

theorem joinTerms_pieces (ps : List Piece) (hne : ps ≠ []) :
    joinTerms (ps.map Piece.term) = join plus (ps.map Piece.show) := by
  cases ps with
  | nil => exact absurd rfl hne
  | cons p ps =>
    have h := join_ne_nil plus p.term.text ((ps.map Piece.term).map Term.text) (Term.text_ne_nil_of_piece p)
    have e : (List.map Piece.term (p :: ps)).map Term.text = List.map Piece.show (p :: ps) := by
      simp [Piece.show]
    unfold joinTerms
    simp only [List.map_cons] at h e ⊢
    cases hj : join plus (p.term.text :: List.map Term.text (List.map Piece.term ps)) with
    | nil => exact absurd hj h
    | cons a b =>
      simp only [List.isEmpty_cons, Bool.false_eq_true, if_false]
      rw [← hj, e]

theorem parseAttr_render (ps : List Piece) (h : wf ps = true) :
    parseAttr (render ps) = some (Spec.attrText ps) := by
  unfold parseAttr
  rw [attrTerms_render ps h]
  cases ps with
  | nil => rfl
  | cons p ps =>
    simp only [Spec.attrText, List.isEmpty_cons, Bool.false_eq_true, if_false]
    rw [joinTerms_pieces (p :: ps) (by simp)]

/-! ### no match at all -/

theorem splitGo_noMatch (s : Str) (h : noMatch s = true) : splitGo s 0 = [s] := by
  induction s with
  | nil => rfl
  | cons c s ih =>
    simp [noMatch] at h
    have hm : matchHere (c :: s) = none := by
      cases hh : matchHere (c :: s) with
      | none => rfl
      | some v => simp [hh] at h
    simp [splitGo, hm, ih h.2, consHead]

theorem pieceEnd_splitFirst (t g : Str) (h : pieceEnd t = some g) : ∃ r, splitFirst '}' t = some r := by
  induction t generalizing g with
  | nil => simp [pieceEnd] at h
  | cons x t ih =>
    by_cases hx : x = '}'
    · exact ⟨(['}'], t), by simp [splitFirst, hx]⟩
    · simp only [pieceEnd, hx, false_and, if_false] at h
      cases hp : pieceEnd t with
      | none => simp [hp] at h
      | some g' =>
        obtain ⟨r, hr⟩ := ih g' hp
        exact ⟨(x :: r.1, r.2), by simp [splitFirst, hx, hr]⟩

/-- whatever passes the piece test contains a match of the split expression at its head -/
theorem pieceCode_matchHere (s g : Str) (h : pieceCode s = some g) : matchHere s ≠ none := by
  match s with
  | [] => simp [pieceCode] at h
  | [_] => simp [pieceCode] at h
  | [_, _] => simp [pieceCode] at h
  | x :: y :: c :: t =>
    by_cases hxy : x = '$' ∧ y = '{'
    · simp only [pieceCode, hxy, and_self, if_true] at h
      cases hp : pieceEnd t with
      | none => simp [hp] at h
      | some g' =>
        obtain ⟨r, hr⟩ := pieceEnd_splitFirst t g' hp
        have h2 : alt2 (c :: t) = some (c :: r.1, r.2) := by simp [alt2, hr]
        simp only [matchHere, hxy, and_self, if_true]
        cases alt1 (c :: t) with
        | none => simp [h2]
        | some v => simp
    · simp [pieceCode, hxy] at h

theorem parseAttr_noMatch (s : Str) (hne : s ≠ []) (hasc : isAscii s = true) (h : noMatch s = true) :
    parseAttr s = some (pyReprA s) := by
  have hpc : pieceCode s = none := by
    cases hp : pieceCode s with
    | none => rfl
    | some g =>
      exfalso
      apply pieceCode_matchHere s g hp
      cases s with
      | nil => exact absurd rfl hne
      | cons c s =>
        simp [noMatch] at h
        cases hh : matchHere (c :: s) with
        | none => rfl
        | some v => simp [hh] at h
  have hse : s.isEmpty = false := by
    cases s with
    | nil => exact absurd rfl hne
    | cons _ _ => rfl
  simp [parseAttr, attrTerms, splitAttr, splitGo_noMatch s h, pieceTerms, hpc, hse, pyRepr, hasc, joinTerms,
    join, Term.text, pyReprA]

/-- a value without `$` has no match -/
theorem noMatch_of_no_dollar (s : Str) (h : '$' ∉ s) : noMatch s = true := by
  induction s with
  | nil => rfl
  | cons c s ih =>
    have hc : c ≠ '$' := fun e => h (by simp [e])
    have hs : '$' ∉ s := fun e => h (by simp [e])
    simp [noMatch, matchHere_first c s hc, ih hs]

end MakoModel.Codegen.Attrs
