import MakoModel.Codegen.Calls
/-!
# C05 refinement – facts about the closure relation

* the module-level callables of a guarded template (`topDefs`) are, name by name, the code generated for the
  specification's `topLevel` callables;
* `resolve` and `Spec.resolveS` agree;
* how `RelC` is carried across a statement / an expression;
* the statement of the refinement, for one fuel (`RC`).
-/
namespace MakoModel.Codegen.Calls
open MakoModel.Target MakoModel.Codegen

theorem funrel_ok {f : Fun} {sf : Spec.SFun} (h : FunRel f sf) : FunOK f := by
  cases h with
  | def_ s ps fl body own lex mod kind _ _ _ _ =>
    exact defShape_wf fl ((emits body).hoist s).1 ((emits body).hoist s).2 ((emits body).stmts s)
  | body sc args body mod _ _ =>
    exact WF.bare ((emits body).bodyHoist _).1 ((emits body).bodyHoist _).2 (WS.seq ((emits body).stmts _) (WS.ret _))

/-- the relation between the entries of `topDefs` and `Spec.topLevel` -/
def TopRel (mod : Nat) (x : Name) (fn : Fun) (sf : Spec.SFun) : Prop :=
  FunRel fn sf ∧ sf.mod = mod ∧ sf.kind ≠ .body ∧ (sf.kind = .block → blockBase ≤ x)

theorem optrel_append {α β} {R : α → β → Prop} (x : Name) {a b : List (Name × α)} {a' b' : List (Name × β)}
    (h1 : OptRel R (lookup x a) (lookup x a')) (h2 : OptRel R (lookup x b) (lookup x b')) :
    OptRel R (lookup x (a ++ b)) (lookup x (a' ++ b')) := by
  rw [lookup_append, lookup_append]
  cases ha : lookup x a <;> cases ha' : lookup x a' <;> simp only [ha, ha', OptRel] at h1 ⊢
  · exact h2
  · exact h1

theorem topdefs_rel (mod : Nat) (f : Name) : ∀ (t : Tmpl) (sc : Scope) (il bf cv : Bool), sc.top = true →
    Good sc il bf cv false t = true → OptRel (TopRel mod f) (lookup f (topDefs t)) (lookup f (Spec.topLevel mod t)) := by
  intro t
  induction t with
  | seq a b iha ihb =>
    intro sc il bf cv ht h
    simp only [Good, Bool.and_eq_true] at h
    simp only [topDefs, Spec.topLevel]
    exact optrel_append f (iha sc il bf cv ht h.1) (ihb sc il bf cv ht h.2)
  | ite c a b iha ihb =>
    intro sc il bf cv ht h
    simp only [Good, Bool.and_eq_true] at h
    simp only [topDefs, Spec.topLevel]
    exact optrel_append f (iha sc il bf cv ht h.1.2) (ihb sc il bf cv ht h.2)
  | try_ a b iha ihb =>
    intro sc il bf cv ht h
    simp only [Good, Bool.and_eq_true] at h
    simp only [topDefs, Spec.topLevel]
    exact optrel_append f (iha sc il bf cv ht h.1) (ihb sc il bf cv ht h.2)
  | for_ x items b ih =>
    intro sc il bf cv ht h
    simp only [Good, Bool.and_eq_true] at h
    simp only [topDefs, Spec.topLevel]
    exact ih sc _ bf cv ht h.2
  | while_ m b ih =>
    intro sc il bf cv ht h
    simp only [Good] at h
    simp only [topDefs, Spec.topLevel]
    exact ih sc il bf cv ht h
  | def_ name ps fl b _ =>
    intro sc il bf cv ht h
    simp only [Good, Bool.false_eq_true, false_or, Bool.or_eq_true, Bool.and_eq_true, Bool.not_eq_true', bne_iff_ne,
      ne_eq, ht, if_true] at h
    obtain ⟨⟨⟨_, hc⟩, hnd⟩, hg⟩ := h
    simp only [topDefs, topFun, hc, Bool.false_eq_true, if_false, Spec.topLevel, lookup]
    split
    · simp only [OptRel]
      refine ⟨?_, rfl, by simp, by simp⟩
      have := FunRel.def_ (defScope b) ps fl b (refsLoop b) false mod .def_ (.inl ⟨rfl, rfl⟩) hc hnd hg
      simpa [renderCallable, defScope] using this
    · simp only [OptRel]
  | block name anon fl b _ =>
    intro sc il bf cv ht h
    simp only [Good, Bool.not_false, Bool.true_and, Bool.and_eq_true, Bool.not_eq_true', decide_eq_true_eq,
      Bool.or_eq_true, ht] at h
    obtain ⟨⟨⟨⟨hbn, hc⟩, hnd⟩, hlp⟩, hg⟩ := h
    cases anon with
    | true => simp [topDefs, Spec.topLevel, lookup, OptRel]
    | false =>
      simp only [Bool.not_false, Bool.and_true, if_true] at hg
      have hrl : refsLoop b = false := by
        rcases hlp with h1 | h1
        · exact h1
        · simp at h1
      simp only [topDefs, topFun, hc, Bool.false_eq_true, if_false, Spec.topLevel, lookup]
      split
      · rename_i hfn
        subst hfn
        simp only [OptRel]
        refine ⟨?_, rfl, by simp, fun _ => hbn⟩
        have hdn : nodupB (declNames b) = true := by
          have := (nodefs_facts b hnd).declared false 0
          simp [declNames, this, nodupB]
        have := FunRel.def_ (defScope b) [] fl b false false mod .block (.inr (.inr ⟨rfl, rfl, rfl⟩)) hc hdn hg
        simpa [renderCallable, defScope, hrl] using this
      · simp only [OptRel]
  | _ => intro _ _ _ _ _ _; simp [topDefs, Spec.topLevel, lookup, OptRel]

/-- `render_body` of a guarded template, as module `mod` of the set -/
theorem body_funrel (t : Tmpl) (mod : Nat) (hg : GoodTop t = true) :
    FunRel ⟨[], ⟨refsLoop t, false, false⟩, codegen t⟩ ⟨[], noFlags, t, .main, mod⟩ := by
  simp only [GoodTop, Bool.and_eq_true] at hg
  have := FunRel.def_ (mainScope t) [] noFlags t (refsLoop t) false mod .main (.inr (.inl ⟨rfl, rfl, rfl⟩)) rfl hg.2 hg.1.1
  simpa [codegen, renderCallable, mainScope, noFlags] using this

variable (ts : List (Tmpl × Option Bool)) (k : Nat)

/-- every template of the set is in the guarded fragment -/
def GoodAll : Prop := ∀ p ∈ ts, GoodTop p.1 = true

theorem resolve_rel (hG : GoodAll ts) {l : Loc} {E : Spec.Env} {f : Name} (hf : f ≠ 0)
    (hfuns : ClosRel l.funs E.defs) (hmod : l.mod = E.mod) :
    OptRel (fun clo sf => CloRel clo sf ∧ (sf.kind = .block → blockBase ≤ f)) (resolve (progOf ts k) l f)
      (Spec.resolveS ⟨ts, k⟩ E f) := by
  have h1 := hfuns f hf
  simp only [resolve, Spec.resolveS]
  cases ha : lookup f l.funs <;> cases hb : lookup f E.defs <;> simp only [ha, hb, OptRel] at h1 ⊢
  · -- module level
    simp only [progOf, List.getElem?_map, hmod]
    cases hm : ts[E.mod]? with
    | none => simp [OptRel]
    | some p =>
      simp only [Option.map_some, codegenModule]
      have hp : p ∈ ts := List.mem_of_getElem? hm
      have hgt := hG p hp
      simp only [GoodTop, Bool.and_eq_true] at hgt
      have g := topdefs_rel E.mod f p.1 (mainScope p.1) false false true rfl hgt.1.1
      cases hc : lookup f (topDefs p.1) <;> cases hd : lookup f (Spec.topLevel E.mod p.1) <;>
        simp only [hc, hd, OptRel, Option.map_none, Option.map_some] at g ⊢
      exact ⟨⟨g.1, g.2.1.symm, g.2.2.1⟩, g.2.2.2⟩
  · exact h1

/-! ## carrying `RelC` along -/

theorem RelC.of_bal {cv : Bool} {l l1 : Loc} {σ σ1 : St} {E : Spec.Env} {i top rest v1} (hR : RelC cv l σ E)
    (hb : σ.bufs = (i, top) :: rest) (b : Bal i top rest σ σ1) (hk : Keep l l1) (hv : VarsAgree l1 v1) :
    RelC cv l1 σ1 { E with vars := v1 } := by
  obtain ⟨w, hw⟩ := b.bufs
  refine ⟨hv, by rw [b.loops]; exact hR.loops, by rw [hw, ← hR.nb, hb]; simp, by rw [b.frames]; exact hR.nf,
    by rw [hk.1]; exact hR.funs, by rw [hk.2.2.2.2]; exact hR.mod, fun hcv => ?_, by rw [hk.2.1]; exact hR.lcaller⟩
  obtain ⟨ns, hns, hrel⟩ := hR.cview hcv
  refine ⟨ns, ?_, hrel⟩
  simp only [callerView, hk.2.2.2.1, hk.2.2.1, b.frames] at hns ⊢
  exact hns

/-- an expression was evaluated: same locals, the top buffer grew, stacks as before -/
theorem RelC.of_post {cv : Bool} {l : Loc} {σ σ1 : St} {E : Spec.Env} {i top rest out} (hR : RelC cv l σ E)
    (hb : σ.bufs = (i, top) :: rest) (hb1 : σ1.bufs = (i, top ++ out) :: rest) (p : Post σ σ1) : RelC cv l σ1 E := by
  refine ⟨hR.vars, by rw [p.2.1]; exact hR.loops, by rw [hb1, ← hR.nb, hb]; simp, by rw [p.1]; exact hR.nf,
    hR.funs, hR.mod, fun hcv => ?_, hR.lcaller⟩
  obtain ⟨ns, hns, hrel⟩ := hR.cview hcv
  refine ⟨ns, ?_, hrel⟩
  simp only [callerView, p.1] at hns ⊢
  exact hns

/-- only the counter moved -/
theorem RelC.of_cnt {cv : Bool} {l : Loc} {σ : St} {E : Spec.Env} (hR : RelC cv l σ E) (n : Nat) :
    RelC cv l { σ with cnt := n } E :=
  ⟨hR.vars, hR.loops, hR.nb, hR.nf, hR.funs, hR.mod, hR.cview, hR.lcaller⟩

theorem bal_post {i top rest σ σ'} (b : Bal i top rest σ σ') (_hn : σ.next = []) : Post σ σ' := by
  exact ⟨b.frames, b.loops, b.next⟩

/-! ## the refinement, for one fuel -/

/-- the only `return` the statements of a scope contain is `return ''` -/
def RetE (o : Outcome) : Prop := ∀ v, o = .ret v → v = []

def EvalRef (n : Nat) : Prop := ∀ (e : Expr) (il ce cv : Bool) (l : Loc) (σ : St) (E : Spec.Env) (pend : Spec.SNS)
    (i : Nat) (top : Str) (rest : List (Nat × Str)) (r : VRes) (σ' : St),
    GoodE il ce cv e = true → RelC cv l σ E → NSRel σ.next pend → (ce = false → σ.next = []) →
    (il = true → E.loops ≠ []) → LocOK l → StOK σ → σ.bufs = (i, top) :: rest →
    eval (progOf ts k) n e l σ = (r, σ') → r ≠ .timeout →
    ∃ out, σ'.bufs = (i, top ++ out) :: rest ∧ Post σ σ' ∧
      Ev (fun m => Spec.seval ⟨ts, k⟩ m e E pend σ.cnt) ⟨convV r, out, σ'.cnt⟩

def ArgsRef (n : Nat) : Prop := ∀ (es : List Expr) (il ce cv : Bool) (l : Loc) (σ : St) (E : Spec.Env) (pend : Spec.SNS)
    (i : Nat) (top : Str) (rest : List (Nat × Str)) (r : ARes) (σ' : St),
    GoodArgs il ce cv es = true → RelC cv l σ E → NSRel σ.next pend → (ce = false → σ.next = []) →
    (il = true → E.loops ≠ []) → LocOK l → StOK σ → σ.bufs = (i, top) :: rest →
    evalArgs (progOf ts k) n es l σ = (r, σ') → r ≠ .timeout →
    ∃ out, σ'.bufs = (i, top ++ out) :: rest ∧ Post σ σ' ∧
      Ev (fun m => Spec.sargs ⟨ts, k⟩ m es E pend σ.cnt) ⟨convA r, out, σ'.cnt⟩

def InvokeRef (n : Nat) : Prop := ∀ (clo : Clo) (sf : Spec.SFun) (lexS : Spec.SNS) (vs : List Str) (l : Loc) (σ : St)
    (E : Spec.Env) (pend : Spec.SNS) (i : Nat) (top : Str) (rest : List (Nat × Str)) (r : VRes) (σ' : St),
    FunRel clo.fn sf → clo.mod = sf.mod →
    (sf.kind = .body → NSRel clo.lex lexS ∧ σ.next = [] ∧
      ∃ restD, E.defs = ((0, sf) :: Spec.callDefsOf sf.mod sf.body) ++ restD) →
    (sf.kind = .block → σ.next = [] ∧ ∃ base, σ.loops.map (·.index) = E.loops ++ base) →
    RelW l σ E → NSRel σ.next pend → LocOK l → NSOK clo.lex → StOK σ → σ.bufs = (i, top) :: rest →
    invoke (progOf ts k) n clo vs l σ = (r, σ') → r ≠ .timeout →
    ∃ out, σ'.bufs = (i, top ++ out) :: rest ∧ Post σ σ' ∧
      Ev (fun m => Spec.sinvoke ⟨ts, k⟩ m sf lexS vs E pend σ.cnt) ⟨convV r, out, σ'.cnt⟩

def StmtRef (n : Nat) : Prop := ∀ (t : Tmpl) (sc : Scope) (il bf cv cb : Bool) (l : Loc) (σ : St) (E : Spec.Env)
    (i : Nat) (top : Str) (rest : List (Nat × Str)) (o : Outcome) (l' : Loc) (σ' : St),
    Good sc il bf cv cb t = true → RelC cv l σ E → σ.next = [] → (il = true → E.loops ≠ []) → LocOK l → StOK σ →
    σ.bufs = (i, top) :: rest → l.writer = i →
    exec (progOf ts k) n (stmts sc t) l σ = (o, l', σ') → o ≠ .timeout →
    ∃ out vars', σ'.bufs = (i, top ++ out) :: rest ∧
      Ev (fun m => Spec.snodes ⟨ts, k⟩ m t E σ.cnt) ⟨conv o, out, σ'.cnt, vars'⟩ ∧ VarsAgree l' vars' ∧ Keep l l' ∧
      RetE o

def IterRef (n : Nat) : Prop := ∀ (x : Name) (vs : List Str) (body : Tmpl) (sc : Scope) (il bf cv cb ctx : Bool)
    (idx : Nat)
    (l : Loc) (σ : St) (E : Spec.Env) (i : Nat) (top : Str) (rest : List (Nat × Str)) (o : Outcome) (l' : Loc) (σ' : St),
    Good sc il bf cv cb body = true → RelC cv l σ { E with loops := if ctx then idx :: E.loops else E.loops } →
    σ.next = [] →
    (il = true → ctx = true ∨ E.loops ≠ []) → LocOK l → StOK σ → σ.bufs = (i, top) :: rest → l.writer = i →
    forIter (progOf ts k) n x vs (stmts sc body) ctx l σ = (o, l', σ') → o ≠ .timeout →
    ∃ out vars', σ'.bufs = (i, top ++ out) :: rest ∧
      Ev (fun m => Spec.siter ⟨ts, k⟩ m x vs body ctx idx E σ.cnt) ⟨conv o, out, σ'.cnt, vars'⟩ ∧
      VarsAgree l' vars' ∧ Keep l l' ∧ RetE o

structure RC (n : Nat) : Prop where
  eval : EvalRef ts k n
  args : ArgsRef ts k n
  invoke : InvokeRef ts k n
  stmt : StmtRef ts k n
  iter : IterRef ts k n

theorem rc_zero : RC ts k 0 := by
  refine ⟨?_, ?_, ?_, ?_, ?_⟩
  · intro e il ce cv l σ E pend i top rest r σ' _ _ _ _ _ _ _ _ he hr
    simp only [eval, Prod.mk.injEq] at he; exact absurd he.1.symm hr
  · intro es il ce cv l σ E pend i top rest r σ' _ _ _ _ _ _ _ _ he hr
    simp only [evalArgs, Prod.mk.injEq] at he; exact absurd he.1.symm hr
  · intro clo sf lexS vs l σ E pend i top rest r σ' _ _ _ _ _ _ _ _ _ _ he hr
    simp only [invoke, Prod.mk.injEq] at he; exact absurd he.1.symm hr
  · intro t sc il bf cv cb l σ E i top rest o l' σ' _ _ _ _ _ _ _ _ he ho
    simp only [exec, Prod.mk.injEq] at he; exact absurd he.1.symm ho
  · intro x vs body sc il bf cv cb ctx idx l σ E i top rest o l' σ' _ _ _ _ _ _ _ _ he ho
    simp only [forIter, Prod.mk.injEq] at he; exact absurd he.1.symm ho

end MakoModel.Codegen.Calls
