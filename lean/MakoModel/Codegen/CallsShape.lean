import MakoModel.Codegen.Calls
/-!
# C05 refinement – what the four `write_def_finish` shapes do

Pure facts about `exec` (no specification involved): executing one of the shapes the generator wraps around a
callable's statements `S` – plain, buffered, filtered, bare (`body()` of a `<%call>`) – is: the pushes, `S` from
the state they produce (with *less fuel*, so that an induction hypothesis applies), the pops of the `finally`,
and the tail (`return ''`, `return filter(__M_buf.getvalue())`, `__M_writer(filter(…)); return ''`).
-/
namespace MakoModel.Codegen.Calls
open MakoModel.Target MakoModel.Codegen

variable (c : Cfg)

/-- a prologue: it ends normally, touches nothing but the locals, and changes those by `P` (`P` adds the closures
    of the scope; it is the identity for a scope without nested defs) -/
def ProEff (H : Stmt) (P : Loc → Loc) : Prop :=
  ∀ (n : Nat) (l : Loc) (σ : St) (o : Outcome) (l' : Loc) (σ' : St), exec c n H l σ = (o, l', σ') → o ≠ .timeout →
    o = .normal ∧ l' = P l ∧ σ' = σ

theorem proeff_skips {H : Stmt} (hH : isSkips H = true) : ProEff c H id :=
  fun n l σ o l' σ' he ho => exec_skips c H hH n l σ o l' σ' he ho

/-- a prologue, `__M_writer = context.writer()`, then `R` -/
theorem exec_inner_b {H R : Stmt} {P : Loc → Loc} (hH : ProEff c H P) {n : Nat} {l : Loc} {σ : St} {i top rest}
    (hb : σ.bufs = (i, top) :: rest) {o l' σ'}
    (he : exec c (n + 1) (.seq (.seq H (.prim .getWriter)) R) l σ = (o, l', σ')) (ho : o ≠ .timeout) :
    exec c n R { P l with writer := i } σ = (o, l', σ') := by
  obtain ⟨o1, l1, σ1, h1, hcase⟩ := exec_seq_inv c he
  have hpro : o1 ≠ .timeout → o1 = .normal ∧ l1 = { P l with writer := i } ∧ σ1 = σ := by
    intro hto
    obtain ⟨n2, rfl⟩ := exec_pos c h1 hto
    obtain ⟨oh, lh, σh, h2, hc2⟩ := exec_seq_inv c h1
    rcases hc2 with ⟨rfl, h3⟩ | ⟨hne, rfl, rfl, rfl⟩
    · obtain ⟨_, rfl, rfl⟩ := hH n2 l σ _ lh σh h2 (by simp)
      obtain ⟨n3, rfl⟩ := exec_pos c h3 hto
      rw [exec_prim] at h3
      simp only [execPrim, hb, Prod.mk.injEq] at h3
      obtain ⟨rfl, rfl, rfl⟩ := h3
      exact ⟨rfl, rfl, rfl⟩
    · exact absurd (hH n2 l σ _ _ _ h2 hto).1 hne
  rcases hcase with ⟨rfl, h3⟩ | ⟨hne, rfl, rfl, rfl⟩
  · obtain ⟨_, rfl, rfl⟩ := hpro (by simp)
    exact h3
  · exact absurd (hpro ho).1 hne

/-- `S`, then `return ''` -/
theorem exec_then_ret {S : Stmt} {n : Nat} {l : Loc} {σ : St} {o l' σ'}
    (he : exec c (n + 1) (.seq S (.ret emptyStr)) l σ = (o, l', σ')) (ho : o ≠ .timeout) :
    ∃ o1, exec c n S l σ = (o1, l', σ') ∧ o1 ≠ .timeout ∧ o = (match o1 with | .normal => .ret [] | x => x) := by
  obtain ⟨o1, l1, σ1, h1, hcase⟩ := exec_seq_inv c he
  rcases hcase with ⟨rfl, h3⟩ | ⟨hne, rfl, rfl, rfl⟩
  · obtain ⟨n2, rfl⟩ := exec_pos c h3 ho
    simp only [exec, emptyStr] at h3
    rcases n2 with _ | n3
    · simp only [eval, Prod.mk.injEq] at h3; exact absurd h3.1.symm ho
    simp only [eval, Prod.mk.injEq] at h3
    obtain ⟨rfl, rfl, rfl⟩ := h3
    exact ⟨.normal, h1, by simp, rfl⟩
  · refine ⟨o, h1, ho, ?_⟩
    cases o <;> first | rfl | exact absurd rfl hne

theorem exec_pushFrame_seq {B : Stmt} {n : Nat} {l : Loc} {σ : St} {o l' σ'}
    (he : exec c (n + 1) (.seq (.prim .pushFrame) B) l σ = (o, l', σ')) (ho : o ≠ .timeout) :
    exec c n B { l with caller := σ.next } { σ with frames := σ.next :: σ.frames, next := [] } = (o, l', σ') := by
  obtain ⟨o0, l0, σ0, h0, hcase⟩ := exec_seq_inv c he
  have hpush : o0 ≠ .timeout → o0 = .normal ∧ l0 = { l with caller := σ.next } ∧
      σ0 = { σ with frames := σ.next :: σ.frames, next := [] } := by
    intro hto
    obtain ⟨n2, rfl⟩ := exec_pos c h0 hto
    rw [exec_prim] at h0
    simp only [execPrim, Prod.mk.injEq] at h0
    obtain ⟨rfl, rfl, rfl⟩ := h0
    exact ⟨rfl, rfl, rfl⟩
  rcases hcase with ⟨rfl, h1⟩ | ⟨hne, rfl, rfl, rfl⟩
  · obtain ⟨_, rfl, rfl⟩ := hpush (by simp)
    exact h1
  · exact absurd (hpush ho).1 hne

theorem exec_pushBuffer_seq {B : Stmt} {n : Nat} {l : Loc} {σ : St} {o l' σ'}
    (he : exec c (n + 1) (.seq (.prim .pushBuffer) B) l σ = (o, l', σ')) (ho : o ≠ .timeout) :
    exec c n B l { σ with bufs := (σ.nextId, []) :: σ.bufs, nextId := σ.nextId + 1 } = (o, l', σ') := by
  obtain ⟨o0, l0, σ0, h0, hcase⟩ := exec_seq_inv c he
  have hpush : o0 ≠ .timeout → o0 = .normal ∧ l0 = l ∧
      σ0 = { σ with bufs := (σ.nextId, []) :: σ.bufs, nextId := σ.nextId + 1 } := by
    intro hto
    obtain ⟨n2, rfl⟩ := exec_pos c h0 hto
    rw [exec_prim] at h0
    simp only [execPrim, Prod.mk.injEq] at h0
    obtain ⟨rfl, rfl, rfl⟩ := h0
    exact ⟨rfl, rfl, rfl⟩
  rcases hcase with ⟨rfl, h1⟩ | ⟨hne, rfl, rfl, rfl⟩
  · obtain ⟨_, rfl, rfl⟩ := hpush (by simp)
    exact h1
  · exact absurd (hpush ho).1 hne

/-- not buffered, not filtered: `push_frame; try: prologue; S; return '' finally: pop_frame` -/
theorem core_plain {H S : Stmt} {P : Loc → Loc} (hH : ProEff c H P) {n : Nat} {l : Loc} {σ : St} {i top rest}
    (hb : σ.bufs = (i, top) :: rest) {o l' σ'}
    (he : exec c n (.seq (.prim .pushFrame)
            (.tryFinally (.seq (.seq H (.prim .getWriter)) (.seq S (.ret emptyStr))) (.prim .popFrame))) l σ = (o, l', σ'))
    (ho : o ≠ .timeout) :
    ∃ m o1 l1 σ1, m < n ∧
      exec c m S { P { l with caller := σ.next } with writer := i }
        { σ with frames := σ.next :: σ.frames, next := [] } = (o1, l1, σ1) ∧ o1 ≠ .timeout ∧
      (∀ f fr, σ1.frames = f :: fr → σ' = { σ1 with frames := fr, next := f } ∧
        o = (match o1 with | .normal => .ret [] | x => x)) := by
  obtain ⟨n1, rfl⟩ := exec_pos c he ho
  have h1 := exec_pushFrame_seq c he ho
  obtain ⟨n2, rfl⟩ := exec_pos c h1 ho
  obtain ⟨ob, lb, σb, o2, hbd, htob, hfin, hc⟩ := exec_tryFinally_inv c h1 ho
  obtain ⟨n3, rfl⟩ := exec_pos c hbd htob
  have h2 := exec_inner_b c hH (i := i) (top := top) (rest := rest) (by simpa using hb) hbd htob
  obtain ⟨n4, rfl⟩ := exec_pos c h2 htob
  obtain ⟨o1, hS, hto1, hob⟩ := exec_then_ret c h2 htob
  refine ⟨n4, o1, lb, σb, by omega, hS, hto1, fun f fr hf => ?_⟩
  rw [exec_prim] at hfin
  simp only [execPrim, hf, Prod.mk.injEq] at hfin
  obtain ⟨rfl, rfl, rfl⟩ := hfin
  rcases hc with ⟨_, rfl⟩ | ⟨h, _⟩
  · exact ⟨rfl, hob⟩
  · exact absurd rfl h

/-- `body()` of a `<%call>`: `prologue; S; return ''` -/
theorem core_bare {H S : Stmt} {P : Loc → Loc} (hH : ProEff c H P) {n : Nat} {l : Loc} {σ : St} {i top rest}
    (hb : σ.bufs = (i, top) :: rest) {o l' σ'}
    (he : exec c n (.seq (.seq H (.prim .getWriter)) (.seq S (.ret emptyStr))) l σ = (o, l', σ'))
    (ho : o ≠ .timeout) :
    ∃ m o1, m < n ∧ exec c m S { P l with writer := i } σ = (o1, l', σ') ∧ o1 ≠ .timeout ∧
      o = (match o1 with | .normal => .ret [] | x => x) := by
  obtain ⟨n1, rfl⟩ := exec_pos c he ho
  have h2 := exec_inner_b c hH hb he ho
  obtain ⟨n2, rfl⟩ := exec_pos c h2 ho
  obtain ⟨o1, hS, hto1, hob⟩ := exec_then_ret c h2 ho
  exact ⟨n2, o1, by omega, hS, hto1, hob⟩

/-- the buffered core shared by buffered and filtered callables:
    `try: push_buffer; prologue; S  finally: <pop>; pop_frame`, after the frame was pushed -/
theorem core_try {H S : Stmt} {P : Loc → Loc} (p : Prim) (hH : ProEff c H P) {n : Nat} {l : Loc} {σ : St}
    {o l' σ'}
    (he : exec c n (.tryFinally (.seq (.prim .pushBuffer) (.seq (.seq H (.prim .getWriter)) S))
                      (.seq (.prim p) (.prim .popFrame))) l σ = (o, l', σ')) (ho : o ≠ .timeout) :
    ∃ m o1 l1 σ1 o2, m < n ∧
      exec c m S { P l with writer := σ.nextId } { σ with bufs := (σ.nextId, []) :: σ.bufs, nextId := σ.nextId + 1 }
        = (o1, l1, σ1) ∧ o1 ≠ .timeout ∧
      exec c (m + 2) (.seq (.prim p) (.prim .popFrame)) l1 σ1 = (o2, l', σ') ∧
      ((o2 = .normal ∧ o = o1) ∨ (o2 ≠ .normal ∧ o = o2)) := by
  obtain ⟨n1, rfl⟩ := exec_pos c he ho
  obtain ⟨ob, lb, σb, o2, hbd, htob, hfin, hc⟩ := exec_tryFinally_inv c he ho
  obtain ⟨n2, rfl⟩ := exec_pos c hbd htob
  have h1 := exec_pushBuffer_seq c hbd htob
  obtain ⟨n3, rfl⟩ := exec_pos c h1 htob
  have h2 := exec_inner_b c hH (i := σ.nextId) (top := []) (rest := σ.bufs) rfl h1 htob
  exact ⟨n3, ob, lb, σb, o2, by omega, h2, htob, hfin, hc⟩

/-- the two pops of the `finally` of a buffered callable -/
theorem exec_pops_buffer {n : Nat} {l : Loc} {σ : St} {x w b2 f fr}
    (hb : σ.bufs = (x, w) :: b2) (hf : σ.frames = f :: fr) :
    exec c (n + 2) (.seq (.prim .popBuffer) (.prim .popFrame)) l σ =
      (.normal, { l with mbuf := w }, { σ with bufs := b2, frames := fr, next := f }) := by
  simp [exec, execPrim, hb, hf]

/-- the two pops of the `finally` of a filtered callable -/
theorem exec_pops_writer {n : Nat} {l : Loc} {σ : St} {x w j c2 r2 f fr}
    (hb : σ.bufs = (x, w) :: (j, c2) :: r2) (hf : σ.frames = f :: fr) :
    exec c (n + 2) (.seq (.prim .popBufferAndWriter) (.prim .popFrame)) l σ =
      (.normal, { l with mbuf := w, writer := j }, { σ with bufs := (j, c2) :: r2, frames := fr, next := f }) := by
  simp [exec, execPrim, hb, hf]

/-- buffered: `push_frame; try: push_buffer … finally: pop_buffer; pop_frame`, then `return filter(buf)` -/
theorem core_buffered {H S : Stmt} {P : Loc → Loc} (e : Expr) (hH : ProEff c H P) {n : Nat} {l : Loc} {σ : St} {o l' σ'}
    (he : exec c n (.seq (.prim .pushFrame)
            (.seq (.tryFinally (.seq (.prim .pushBuffer) (.seq (.seq H (.prim .getWriter)) S))
                               (.seq (.prim .popBuffer) (.prim .popFrame)))
                  (.ret e))) l σ = (o, l', σ')) (ho : o ≠ .timeout) :
    ∃ m o1 l1 σ1, m < n ∧
      exec c m S { P { l with caller := σ.next } with writer := σ.nextId }
        { σ with frames := σ.next :: σ.frames, next := [], bufs := (σ.nextId, []) :: σ.bufs, nextId := σ.nextId + 1 }
        = (o1, l1, σ1) ∧ o1 ≠ .timeout ∧
      (∀ x w b2 f fr, σ1.bufs = (x, w) :: b2 → σ1.frames = f :: fr →
        (o1 ≠ .normal → o = o1 ∧ σ' = { σ1 with bufs := b2, frames := fr, next := f }) ∧
        (o1 = .normal → ∃ m2 r, m2 < n ∧
          eval c m2 e { l1 with mbuf := w } { σ1 with bufs := b2, frames := fr, next := f } = (r, σ') ∧
          o = (match r with | .val v => .ret v | .exc x => .exc x | .timeout => .timeout))) := by
  obtain ⟨n1, rfl⟩ := exec_pos c he ho
  have h1 := exec_pushFrame_seq c he ho
  obtain ⟨n2, rfl⟩ := exec_pos c h1 ho
  obtain ⟨oa, la, σa, ha, hcase⟩ := exec_seq_inv c h1
  have htoa : oa ≠ .timeout := by
    rcases hcase with ⟨rfl, _⟩ | ⟨_, rfl, _, _⟩
    · simp
    · exact ho
  obtain ⟨m, o1, l1, σ1, o2, hm, hS, hto1, hfin, hc⟩ := core_try c .popBuffer hH ha htoa
  refine ⟨m, o1, l1, σ1, by omega, hS, hto1, fun x w b2 f fr hbx hfx => ?_⟩
  rw [exec_pops_buffer c hbx hfx] at hfin
  simp only [Prod.mk.injEq] at hfin
  obtain ⟨rfl, rfl, rfl⟩ := hfin
  have hoa : oa = o1 := by
    rcases hc with ⟨_, h⟩ | ⟨h, _⟩
    · exact h
    · exact absurd rfl h
  subst hoa
  refine ⟨fun hne => ?_, fun hn => ?_⟩
  · rcases hcase with ⟨rfl, _⟩ | ⟨_, rfl, rfl, rfl⟩
    · exact absurd rfl hne
    · exact ⟨rfl, rfl⟩
  · subst hn
    rcases hcase with ⟨_, h3⟩ | ⟨hne, _⟩
    · obtain ⟨n3, rfl⟩ := exec_pos c h3 ho
      simp only [exec] at h3
      refine ⟨n3, ?_⟩
      generalize hx : eval c n3 e _ _ = y at h3
      obtain ⟨r, σ3⟩ := y
      refine ⟨r, by omega, ?_, ?_⟩
      · cases r <;> simp only [Prod.mk.injEq] at h3 <;> obtain ⟨_, _, rfl⟩ := h3 <;> rfl
      · cases r <;> simp only [Prod.mk.injEq] at h3 <;> exact h3.1.symm
    · exact absurd rfl hne

/-- filtered: `… finally: pop_buffer_and_writer; pop_frame`, then `__M_writer(filter(buf)); return ''` -/
theorem core_filtered {H S : Stmt} {P : Loc → Loc} (e : Expr) (hH : ProEff c H P) {n : Nat} {l : Loc} {σ : St} {o l' σ'}
    (he : exec c n (.seq (.prim .pushFrame)
            (.seq (.tryFinally (.seq (.prim .pushBuffer) (.seq (.seq H (.prim .getWriter)) S))
                               (.seq (.prim .popBufferAndWriter) (.prim .popFrame)))
                  (.seq (.write e) (.ret emptyStr)))) l σ = (o, l', σ')) (ho : o ≠ .timeout) :
    ∃ m o1 l1 σ1, m < n ∧
      exec c m S { P { l with caller := σ.next } with writer := σ.nextId }
        { σ with frames := σ.next :: σ.frames, next := [], bufs := (σ.nextId, []) :: σ.bufs, nextId := σ.nextId + 1 }
        = (o1, l1, σ1) ∧ o1 ≠ .timeout ∧
      (∀ x w j c2 r2 f fr, σ1.bufs = (x, w) :: (j, c2) :: r2 → σ1.frames = f :: fr →
        (o1 ≠ .normal → o = o1 ∧ σ' = { σ1 with bufs := (j, c2) :: r2, frames := fr, next := f }) ∧
        (o1 = .normal → ∃ m2 r σ3, m2 < n ∧
          eval c m2 e { l1 with mbuf := w, writer := j } { σ1 with bufs := (j, c2) :: r2, frames := fr, next := f }
            = (r, σ3) ∧
          (match r with
            | .val v => o = .ret [] ∧ σ' = { σ3 with bufs := writeTo j v σ3.bufs }
            | .exc x => o = .exc x ∧ σ' = σ3
            | .timeout => False))) := by
  obtain ⟨n1, rfl⟩ := exec_pos c he ho
  have h1 := exec_pushFrame_seq c he ho
  obtain ⟨n2, rfl⟩ := exec_pos c h1 ho
  obtain ⟨oa, la, σa, ha, hcase⟩ := exec_seq_inv c h1
  have htoa : oa ≠ .timeout := by
    rcases hcase with ⟨rfl, _⟩ | ⟨_, rfl, _, _⟩
    · simp
    · exact ho
  obtain ⟨m, o1, l1, σ1, o2, hm, hS, hto1, hfin, hc⟩ := core_try c .popBufferAndWriter hH ha htoa
  refine ⟨m, o1, l1, σ1, by omega, hS, hto1, fun x w j c2 r2 f fr hbx hfx => ?_⟩
  rw [exec_pops_writer c hbx hfx] at hfin
  simp only [Prod.mk.injEq] at hfin
  obtain ⟨rfl, rfl, rfl⟩ := hfin
  have hoa : oa = o1 := by
    rcases hc with ⟨_, h⟩ | ⟨h, _⟩
    · exact h
    · exact absurd rfl h
  subst hoa
  refine ⟨fun hne => ?_, fun hn => ?_⟩
  · rcases hcase with ⟨rfl, _⟩ | ⟨_, rfl, rfl, rfl⟩
    · exact absurd rfl hne
    · exact ⟨rfl, rfl⟩
  · subst hn
    rcases hcase with ⟨_, h3⟩ | ⟨hne, _⟩
    · obtain ⟨n3, rfl⟩ := exec_pos c h3 ho
      obtain ⟨ow, hw, htow, how⟩ := exec_then_ret c h3 ho
      obtain ⟨n4, rfl⟩ := exec_pos c hw htow
      simp only [exec] at hw
      generalize hx : eval c n4 e _ _ = y at hw
      obtain ⟨r, σ3⟩ := y
      refine ⟨n4, r, σ3, by omega, hx, ?_⟩
      cases r with
      | val v =>
        simp only [Prod.mk.injEq] at hw
        obtain ⟨rfl, rfl, rfl⟩ := hw
        exact ⟨how, rfl⟩
      | exc x =>
        simp only [Prod.mk.injEq] at hw
        obtain ⟨rfl, rfl, rfl⟩ := hw
        exact ⟨how, rfl⟩
      | timeout =>
        simp only [Prod.mk.injEq] at hw
        exact htow hw.1.symm
    · exact absurd rfl hne

end MakoModel.Codegen.Calls
