import MakoModel.Basic.Wire
import MakoModel.Codegen.Attrs
import MakoModel.Codegen.Deco
import MakoModel.Codegen.AttrsDefaults
import MakoModel.PyExpr.Drv
/-!
Driver handler of op `c05` (attribute parsing / signature re-emission model).

* `attr <value>` → `<result | unsupported> <n> <code>*` (the codes handed to `ast.PythonCode`, rstripped)
* `split <value>` → `<n> <piece>*` (the raw `re.split` list) – diagnostic
* `repr <s>` → `<literal | unsupported> <unquoted-again | none>`
* `nsexpr <ns> <defname> <n> (<key> <value>)*` → `<expression | unsupported>`
* `sig <npos> (<name> <default|none>)* <vararg|none> <bare 0|1> <nkw> (<name> <default|none>)* <kwarg|none>` →
  `<valid> | argnames | kwargnames | defaults | kwdefaults | <varargs> <kwargs> | decl | ascall | spec.decl | spec.asCall`
  (a list is `<n> <item>*`, an emitted list `err` for IndexError)
* `psig <asCall> <n> <argname>* <n> <kwargname>* <n> <default>* <n> <kwdefault|none>* <varargs> <kwargs>` →
  `err | <n> <item>*`
* `dsig <pos|kwonly|vararg> <expression in the wire syntax of PyExpr/Drv.lean>` → `decl | ascall` of the signature
  `a, x=<e>` / `a, *, x=<e>` / `a, *r, x=<e>, **kw` whose default is the expression tree (`ASig.decl`)
-/
namespace MakoModel.Codegen.AttrsDrv
open MakoModel.Wire MakoModel.Codegen.Attrs

def encL (xs : List Str) : String :=
  " ".intercalate (toString xs.length :: xs.map encStr)

def encOL : Option (List Str) → String
  | some xs => encL xs
  | none => "err"

def decOpt (f : String) : Option (Option Str) :=
  if f == "none" then some none else (decStr f).map some

/-- take `n` decoded items from the field list -/
def takeN {α : Type} (dec : String → Option α) : Nat → List String → Option (List α × List String)
  | 0, fs => some ([], fs)
  | n + 1, f :: fs => do
    let a ← dec f
    let (as, rest) ← takeN dec n fs
    pure (a :: as, rest)
  | _ + 1, [] => none

def takeCounted {α : Type} (dec : String → Option α) : List String → Option (List α × List String)
  | n :: fs => do let n ← n.toNat?; takeN dec n fs
  | [] => none

def takePairs {α β : Type} (d1 : String → Option α) (d2 : String → Option β) :
    Nat → List String → Option (List (α × β) × List String)
  | 0, fs => some ([], fs)
  | n + 1, f :: g :: fs => do
    let a ← d1 f
    let b ← d2 g
    let (as, rest) ← takePairs d1 d2 n fs
    pure ((a, b) :: as, rest)
  | _ + 1, _ => none

def mkParams (l : List (Str × Option Str)) : List Param := l.map fun p => { name := p.1, default := p.2 }

def decSig (fs : List String) : Option PySig :=
  match fs with
  | npos :: fs => do
    let npos ← npos.toNat?
    let (pos, fs) ← takePairs decStr decOpt npos fs
    match fs with
    | va :: bare :: nkw :: fs => do
      let va ← decOpt va
      let bare ← decBool bare
      let nkw ← nkw.toNat?
      let (kw, fs) ← takePairs decStr decOpt nkw fs
      match fs with
      | [kwa] => do
        let kwa ← decOpt kwa
        pure { pos := mkParams pos, vararg := va, bareStar := bare, kwonly := mkParams kw, kwarg := kwa }
      | _ => none
    | _ => none
  | [] => none

def encOS : Option Str → String
  | some s => encStr s
  | none => "none"

def encArgs (a : Deco.Args) : String :=
  " ".intercalate ([encL a.pos, toString a.kw.length] ++ a.kw.map fun p => encStr p.1 ++ " " ++ encStr p.2)

/-- `deco <top|inl> <family> <context> <npos> <p>* <nkw> (<k> <v>)*` → `<ncalls> (<context> <npos> <p>* <nkw> (<k> <v>)*)*`:
    with which arguments the render callable is entered -/
def handleDeco : List String → Option String
  | kind :: fam :: cid :: fs => do
    let cid ← cid.toNat?
    let (pos, fs) ← takeCounted decStr fs
    let (kw, rest) ← match fs with
      | n :: fs => do let n ← n.toNat?; takePairs decStr decStr n fs
      | [] => none
    if !rest.isEmpty then none else
    let args : Deco.Args := ⟨pos, kw⟩
    let d := Deco.wrapper (Deco.family fam)
    let tr ← match kind with
      | "top" => some (Deco.decorateToplevel d (fun c a => [(c, a)]) cid args)
      | "inl" => some (Deco.decorateInline cid d (fun a => [(cid, a)]) args)
      | _ => none
    pure (" ".intercalate (toString tr.length :: tr.map fun t => toString t.1 ++ " " ++ encArgs t.2))
  | _ => none

def handle : Handler
  | "deco" :: fs => handleDeco fs
  | ["attr", v] => do
    let v ← decStr v
    let r := match parseAttr v with
      | some r => encStr r
      | none => "unsupported"
    pure (r ++ " " ++ encL (attrCodes v))
  | ["split", v] => do let v ← decStr v; pure (encL (splitAttr v))
  | ["repr", s] => do
    let s ← decStr s
    match pyRepr s with
    | some r => pure (encStr r ++ " " ++ encOS (pyUnquote r))
    | none => pure "unsupported none"
  | "nsexpr" :: ns :: d :: n :: fs => do
    let ns ← decStr ns
    let d ← decStr d
    let n ← n.toNat?
    let (kvs, rest) ← takePairs decStr decStr n fs
    if !rest.isEmpty then none else
    pure (match nsExpr ns d kvs with
      | some r => encStr r
      | none => "unsupported")
  | "sig" :: fs => do
    let s ← decSig fs
    let p := parseFunc s
    pure (" | ".intercalate
      [ encBool s.valid, encL p.argnames, encL p.kwargnames, encL p.defaults,
        " ".intercalate (toString p.kwdefaults.length :: p.kwdefaults.map encOS),
        encBool p.varargs ++ " " ++ encBool p.kwargs,
        encOL (getArgExprs p false), encOL (getArgExprs p true),
        encL (Spec.decl s), encL (Spec.asCall s) ])
  | "psig" :: asCall :: fs => do
    let asCall ← decBool asCall
    let (an, fs) ← takeCounted decStr fs
    let (kn, fs) ← takeCounted decStr fs
    let (ds, fs) ← takeCounted decStr fs
    let (kds, fs) ← takeCounted decOpt fs
    match fs with
    | [va, kw] => do
      let va ← decBool va
      let kw ← decBool kw
      pure (encOL (getArgExprs
        { argnames := an, kwargnames := kn, defaults := ds, kwdefaults := kds, varargs := va, kwargs := kw } asCall))
    | _ => none
  | "dsig" :: shape :: ts => do
    let e ← MakoModel.PyExpr.Drv.full MakoModel.PyExpr.Drv.pExpr ts
    let a : AParam := ⟨['a'], none⟩
    let x : AParam := ⟨['x'], some e⟩
    let s : Option ASig := match shape with
      | "pos" => some ⟨[a, x], none, false, [], none⟩
      | "kwonly" => some ⟨[a], none, true, [x], none⟩
      | "vararg" => some ⟨[a], some ['r'], false, [x], some ['k', 'w']⟩
      | _ => none
    let s ← s
    pure (encOL (s.decl false) ++ " | " ++ encOL (s.decl true))
  | _ => none

end MakoModel.Codegen.AttrsDrv
