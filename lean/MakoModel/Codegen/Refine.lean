import MakoModel.Codegen.Lemmas
import MakoModel.Codegen.Spec
/-!
# Refinement of the generated code to the specification renderer – control fragment

For templates made of text, `${expr | filters}` (expressions without calls), `% if / for / while / try`,
`loop`, `<%text filter>`, `return / break / continue` – at any nesting – executing the generated statements
appends to the top buffer exactly what `Spec.snodes` returns, with the same outcome and the same evaluation
counter, **for every crash point**.  Proved by induction on the fuel of `exec`; the specification side is
"eventually constant in its fuel" (`Ev`), which composes without a separate monotonicity lemma.

Constructs that involve a callable (defs, blocks, `<%call>`, `capture`, `caller.x()`, includes) are not covered
here; for them `Target/Lemmas.lean` proves the frame property, and the harness compares `Spec.render` with the
real renderer on every run.
-/
namespace MakoModel.Codegen
open MakoModel.Target

/-- expressions without calls: literals, variables, concatenation, evaluation points, filters, `loop.index`,
    probes -/
def PureE : Expr → Bool
  | .lit _ => true
  | .var _ => true
  | .boom => true
  | .loopIndex => true
  | .probe => true
  | .cat a b => PureE a && PureE b
  | .filt _ e => PureE e
  | _ => false

def pureArgs : List Expr → Bool
  | [] => true
  | e :: es => PureE e && pureArgs es

/-- the control fragment of the template grammar: everything except callables (defs, blocks, `<%call>`,
    `capture`, `caller.x()`, includes) -/
def Ctl : Tmpl → Bool
  | .nil => true
  | .text _ => true
  | .ret => true
  | .brk => true
  | .cont => true
  | .textTag _ _ => true
  | .seq a b => Ctl a && Ctl b
  | .expr e _ => PureE e
  | .ite c t e => PureE c && Ctl t && Ctl e
  | .for_ _ items body => pureArgs items && Ctl body
  | .while_ _ b => Ctl b
  | .try_ b h => Ctl b && Ctl h
  | _ => false

def conv : Outcome → Spec.SOut
  | .normal => .normal
  | .ret _ => .ret
  | .brk => .brk
  | .cont => .cont
  | .exc e => .exc e
  | .timeout => .timeout

def convV : VRes → Spec.SV
  | .val v => .val v
  | .exc e => .exc e
  | .timeout => .timeout

def convA : ARes → Spec.SA
  | .vals vs => .vals vs
  | .exc e => .exc e
  | .timeout => .timeout

/-- `f m = r` for all large enough fuel -/
def Ev {α : Type} (f : Nat → α) (r : α) : Prop := ∃ m0, ∀ m, m0 ≤ m → f m = r

/-- the runtime state and the arguments of the specification renderer describe the same situation -/
structure Rel (l : Loc) (σ : St) (E : Spec.Env) : Prop where
  vars : ∀ x, lookup x l.vars = lookup x E.vars
  loops : σ.loops.map (·.index) = E.loops
  nb : σ.bufs.length = E.nb
  nf : σ.frames.length = E.nf
  next : σ.next = []

/-- only the counter moved -/
def OnlyCnt (σ σ' : St) : Prop := σ' = { σ with cnt := σ'.cnt }

theorem OnlyCnt.refl (σ : St) : OnlyCnt σ σ := rfl
theorem OnlyCnt.trans {a b d : St} (h1 : OnlyCnt a b) (h2 : OnlyCnt b d) : OnlyCnt a d := by
  unfold OnlyCnt at *; rw [h2, h1]

theorem Rel.of_onlyCnt {l σ σ' E} (h : Rel l σ E) (ho : OnlyCnt σ σ') : Rel l σ' E := by
  unfold OnlyCnt at ho
  rw [ho]
  exact ⟨h.vars, h.loops, h.nb, h.nf, h.next⟩

theorem tick_tickS (k : Nat) (σ : St) :
    (tick k σ).1 = (Spec.tickS k σ.cnt).1 ∧ (tick k σ).2 = { σ with cnt := (Spec.tickS k σ.cnt).2 } := by
  simp [tick, Spec.tickS]

variable (c : Cfg) (C : Spec.Cfg)

/-- a pure expression changes nothing but the counter, writes nothing, and the specification computes the same -/
theorem eval_pure (hk : C.k = c.k) : ∀ (n : Nat) (e : Expr) (l : Loc) (σ : St) (E : Spec.Env) (r : VRes) (σ' : St),
    PureE e = true → Rel l σ E → eval c n e l σ = (r, σ') → r ≠ .timeout →
    OnlyCnt σ σ' ∧ Ev (fun m => Spec.seval C m e E [] σ.cnt) ⟨convV r, [], σ'.cnt⟩ := by
  intro n
  induction n with
  | zero => intro e l σ E r σ' _ _ he hr; simp only [eval, Prod.mk.injEq] at he; exact absurd he.1.symm hr
  | succ n ih =>
    intro e l σ E r σ' hp hR he hr
    cases e with
    | lit s =>
      simp only [eval, Prod.mk.injEq] at he; obtain ⟨rfl, rfl⟩ := he
      exact ⟨rfl, 1, fun m hm => by obtain ⟨m, rfl⟩ := Nat.exists_eq_add_of_le' hm; simp [Spec.seval, convV]⟩
    | var x =>
      simp only [eval] at he
      refine ⟨?_, 1, fun m hm => ?_⟩
      · split at he <;> (simp only [Prod.mk.injEq] at he; obtain ⟨_, rfl⟩ := he; rfl)
      · obtain ⟨m, rfl⟩ := Nat.exists_eq_add_of_le' hm
        simp only [Spec.seval, ← hR.vars x]
        split at he <;> (rename_i hlk; simp only [Prod.mk.injEq] at he; obtain ⟨rfl, rfl⟩ := he; simp [hlk, convV])
    | boom =>
      simp only [eval] at he
      have ht := tick_tickS c.k σ
      generalize hx : tick c.k σ = x at he ht
      obtain ⟨b, σ1⟩ := x
      simp only at ht
      refine ⟨?_, 1, fun m hm => ?_⟩
      · cases b <;> simp only [Prod.mk.injEq] at he <;> obtain ⟨_, rfl⟩ := he <;> (rw [ht.2]; rfl)
      · obtain ⟨m, rfl⟩ := Nat.exists_eq_add_of_le' hm
        simp only [Spec.seval, hk]
        generalize hy : Spec.tickS c.k σ.cnt = y at ht
        obtain ⟨b', c1⟩ := y
        simp only at ht
        obtain ⟨rfl, rfl⟩ := ht
        cases b <;> simp only [Prod.mk.injEq] at he <;> obtain ⟨rfl, rfl⟩ := he <;> simp [convV]
    | loopIndex =>
      simp only [eval] at he
      refine ⟨?_, 1, fun m hm => ?_⟩
      · split at he <;> (simp only [Prod.mk.injEq] at he; obtain ⟨_, rfl⟩ := he; rfl)
      · obtain ⟨m, rfl⟩ := Nat.exists_eq_add_of_le' hm
        simp only [Spec.seval, ← hR.loops]
        split at he <;> (rename_i hlk; simp only [Prod.mk.injEq] at he; obtain ⟨rfl, rfl⟩ := he; simp [hlk, convV])
    | probe =>
      simp only [eval, Prod.mk.injEq] at he; obtain ⟨rfl, rfl⟩ := he
      refine ⟨rfl, 1, fun m hm => ?_⟩
      obtain ⟨m, rfl⟩ := Nat.exists_eq_add_of_le' hm
      simp [Spec.seval, convV, probeStr, hR.nb, hR.nf, hR.next]
    | cat a b =>
      simp only [PureE, Bool.and_eq_true] at hp
      simp only [eval] at he
      generalize hx : eval c n a l σ = x at he
      obtain ⟨ra, σ1⟩ := x
      have ga := ih a l σ E ra σ1 hp.1 hR hx
      cases ra with
      | val va =>
        simp only at he
        obtain ⟨o1, m1, h1⟩ := ga (by simp)
        generalize hy : eval c n b l σ1 = y at he
        obtain ⟨rb, σ2⟩ := y
        have gb := ih b l σ1 E rb σ2 hp.2 (hR.of_onlyCnt o1) hy
        have fin : rb ≠ .timeout → OnlyCnt σ σ2 ∧
            Ev (fun m => Spec.seval C m (.cat a b) E [] σ.cnt)
              ⟨(match rb with | .val vb => .val (va ++ vb) | .exc e => .exc e | .timeout => .timeout), [], σ2.cnt⟩ := by
          intro hrb
          obtain ⟨o2, m2, h2⟩ := gb hrb
          refine ⟨o1.trans o2, max m1 m2 + 1, fun m hm => ?_⟩
          obtain ⟨m, rfl⟩ := Nat.exists_eq_add_of_le' (Nat.le_of_succ_le hm |> fun _ => (by omega : 1 ≤ m))
          have e1 := h1 m (by omega)
          have e2 := h2 m (by omega)
          simp only at e1 e2
          simp only [Spec.seval, e1, e2, convV]
          cases rb <;> simp [convV] at hrb ⊢
        cases rb <;> simp only [Prod.mk.injEq] at he <;> obtain ⟨rfl, rfl⟩ := he
        · exact fin (by simp)
        · exact fin (by simp)
        · exact absurd rfl hr
      | exc e =>
        simp only [Prod.mk.injEq] at he; obtain ⟨rfl, rfl⟩ := he
        obtain ⟨o1, m1, h1⟩ := ga (by simp)
        refine ⟨o1, m1 + 1, fun m hm => ?_⟩
        obtain ⟨m, rfl⟩ := Nat.exists_eq_add_of_le' (by omega : 1 ≤ m)
        have e1 := h1 m (by omega)
        simp only at e1
        simp [Spec.seval, e1, convV]
      | timeout => simp only [Prod.mk.injEq] at he; obtain ⟨rfl, rfl⟩ := he; exact absurd rfl hr
    | filt f e =>
      simp only [PureE] at hp
      simp only [eval] at he
      generalize hx : eval c n e l σ = x at he
      obtain ⟨ra, σ1⟩ := x
      have ga := ih e l σ E ra σ1 hp hR hx
      cases ra with
      | val v =>
        simp only at he
        obtain ⟨o1, m1, h1⟩ := ga (by simp)
        have ht := tick_tickS c.k σ1
        generalize hy : tick c.k σ1 = y at he ht
        obtain ⟨b, σ2⟩ := y
        simp only at ht
        refine ⟨?_, m1 + 1, fun m hm => ?_⟩
        · have : OnlyCnt σ1 σ2 := by rw [ht.2]; rfl
          cases b <;> simp only [Prod.mk.injEq] at he <;> obtain ⟨_, rfl⟩ := he <;> exact o1.trans this
        · obtain ⟨m, rfl⟩ := Nat.exists_eq_add_of_le' (by omega : 1 ≤ m)
          have e1 := h1 m (by omega)
          simp only at e1
          simp only [Spec.seval, e1, convV, hk]
          generalize hz : Spec.tickS c.k σ1.cnt = z at ht
          obtain ⟨b', c1⟩ := z
          simp only at ht
          obtain ⟨rfl, rfl⟩ := ht
          cases b <;> simp only [Prod.mk.injEq] at he <;> obtain ⟨rfl, rfl⟩ := he <;> simp [convV]
      | exc e' =>
        simp only [Prod.mk.injEq] at he; obtain ⟨rfl, rfl⟩ := he
        obtain ⟨o1, m1, h1⟩ := ga (by simp)
        refine ⟨o1, m1 + 1, fun m hm => ?_⟩
        obtain ⟨m, rfl⟩ := Nat.exists_eq_add_of_le' (by omega : 1 ≤ m)
        have e1 := h1 m (by omega)
        simp only at e1
        simp [Spec.seval, e1, convV]
      | timeout => simp only [Prod.mk.injEq] at he; obtain ⟨rfl, rfl⟩ := he; exact absurd rfl hr
    | _ => simp [PureE] at hp

theorem args_pure (hk : C.k = c.k) : ∀ (n : Nat) (es : List Expr) (l : Loc) (σ : St) (E : Spec.Env) (r : ARes) (σ' : St),
    pureArgs es = true → Rel l σ E → evalArgs c n es l σ = (r, σ') → r ≠ .timeout →
    OnlyCnt σ σ' ∧ Ev (fun m => Spec.sargs C m es E [] σ.cnt) ⟨convA r, [], σ'.cnt⟩ := by
  intro n
  induction n with
  | zero => intro es l σ E r σ' _ _ he hr; simp only [evalArgs, Prod.mk.injEq] at he; exact absurd he.1.symm hr
  | succ n ih =>
    intro es l σ E r σ' hp hR he hr
    cases es with
    | nil =>
      simp only [evalArgs, Prod.mk.injEq] at he; obtain ⟨rfl, rfl⟩ := he
      exact ⟨rfl, 1, fun m hm => by obtain ⟨m, rfl⟩ := Nat.exists_eq_add_of_le' hm; simp [Spec.sargs, convA]⟩
    | cons e es =>
      simp only [pureArgs, Bool.and_eq_true] at hp
      simp only [evalArgs] at he
      generalize hx : eval c n e l σ = x at he
      obtain ⟨ra, σ1⟩ := x
      have ga := eval_pure c C hk n e l σ E ra σ1 hp.1 hR hx
      cases ra with
      | val v =>
        simp only at he
        obtain ⟨o1, m1, h1⟩ := ga (by simp)
        generalize hy : evalArgs c n es l σ1 = y at he
        obtain ⟨rb, σ2⟩ := y
        have gb := ih es l σ1 E rb σ2 hp.2 (hR.of_onlyCnt o1) hy
        have fin : rb ≠ .timeout → OnlyCnt σ σ2 ∧
            Ev (fun m => Spec.sargs C m (e :: es) E [] σ.cnt)
              ⟨(match rb with | .vals vs => .vals (v :: vs) | .exc e => .exc e | .timeout => .timeout), [], σ2.cnt⟩ := by
          intro hrb
          obtain ⟨o2, m2, h2⟩ := gb hrb
          refine ⟨o1.trans o2, max m1 m2 + 1, fun m hm => ?_⟩
          obtain ⟨m, rfl⟩ := Nat.exists_eq_add_of_le' (by omega : 1 ≤ m)
          have e1 := h1 m (by omega)
          have e2 := h2 m (by omega)
          simp only at e1 e2
          simp only [Spec.sargs, e1, e2, convV]
          cases rb <;> simp [convA] at hrb ⊢
        cases rb <;> simp only [Prod.mk.injEq] at he <;> obtain ⟨rfl, rfl⟩ := he
        · exact fin (by simp)
        · exact fin (by simp)
        · exact absurd rfl hr
      | exc e' =>
        simp only [Prod.mk.injEq] at he; obtain ⟨rfl, rfl⟩ := he
        obtain ⟨o1, m1, h1⟩ := ga (by simp)
        refine ⟨o1, m1 + 1, fun m hm => ?_⟩
        obtain ⟨m, rfl⟩ := Nat.exists_eq_add_of_le' (by omega : 1 ≤ m)
        have e1 := h1 m (by omega)
        simp only at e1
        simp [Spec.sargs, e1, convV, convA]
      | timeout => simp only [Prod.mk.injEq] at he; obtain ⟨rfl, rfl⟩ := he; exact absurd rfl hr

theorem pure_applyFilters (fs : List Nat) (e : Expr) (h : PureE e = true) : PureE (applyFilters fs e) = true := by
  induction fs generalizing e with
  | nil => exact h
  | cons f fs ih => exact ih (.filt f e) (by simpa [PureE] using h)

/-- what evaluating `e` does, whatever the fuel: result `res`, counter `cn`, nothing else -/
def Sem (l : Loc) (σ : St) (e : Expr) (res : Spec.SV) (cn : Nat) : Prop :=
  ∀ n r σ', eval c n e l σ = (r, σ') → r ≠ .timeout → OnlyCnt σ σ' ∧ convV r = res ∧ σ'.cnt = cn

theorem sem_mbuf (l : Loc) (σ : St) : Sem c l σ .mbuf (.val l.mbuf) σ.cnt := by
  intro n r σ' he hr
  cases n with
  | zero => simp only [eval, Prod.mk.injEq] at he; exact absurd he.1.symm hr
  | succ n => simp only [eval, Prod.mk.injEq] at he; obtain ⟨rfl, rfl⟩ := he; exact ⟨rfl, rfl, rfl⟩

theorem sem_filt {l σ e f s cn} (h : Sem c l σ e (.val s) cn) :
    Sem c l σ (.filt f e) (if cn = c.k then .exc excBoom else .val (wrap f s)) (cn + 1) := by
  intro n r σ' he hr
  cases n with
  | zero => simp only [eval, Prod.mk.injEq] at he; exact absurd he.1.symm hr
  | succ n =>
    simp only [eval] at he
    generalize hx : eval c n e l σ = x at he
    obtain ⟨ra, σ1⟩ := x
    cases ra with
    | timeout => simp only [Prod.mk.injEq] at he; exact absurd he.1.symm hr
    | exc e' => have := (h n _ _ hx (by simp)).2.1; simp [convV] at this
    | val v =>
      obtain ⟨o1, hv, hc⟩ := h n _ _ hx (by simp)
      simp only [convV, Spec.SV.val.injEq] at hv
      subst hv
      simp only [tick] at he
      have o2 : OnlyCnt σ { σ1 with cnt := σ1.cnt + 1 } := by unfold OnlyCnt at *; rw [o1]
      by_cases hk : σ1.cnt = c.k
      · simp only [hk, beq_self_eq_true, Prod.mk.injEq] at he
        obtain ⟨rfl, rfl⟩ := he
        refine ⟨by simpa [hk] using o2, ?_, by simp [← hc, hk]⟩
        simp [convV, ← hc, hk]
      · have : (σ1.cnt == c.k) = false := by simpa using hk
        simp only [this, Prod.mk.injEq] at he
        obtain ⟨rfl, rfl⟩ := he
        refine ⟨o2, ?_, by simp [← hc]⟩
        simp [convV, ← hc, hk]

theorem sem_filt_exc {l σ e f x cn} (h : Sem c l σ e (.exc x) cn) : Sem c l σ (.filt f e) (.exc x) cn := by
  intro n r σ' he hr
  cases n with
  | zero => simp only [eval, Prod.mk.injEq] at he; exact absurd he.1.symm hr
  | succ n =>
    simp only [eval] at he
    generalize hx : eval c n e l σ = y at he
    obtain ⟨ra, σ1⟩ := y
    cases ra with
    | timeout => simp only [Prod.mk.injEq] at he; exact absurd he.1.symm hr
    | val v => have := (h n _ _ hx (by simp)).2.1; simp [convV] at this
    | exc e' =>
      simp only [Prod.mk.injEq] at he; obtain ⟨rfl, rfl⟩ := he
      exact h n _ _ hx (by simp)

theorem sem_filters_exc {l σ x cn} : ∀ (fs : List Nat) (e : Expr), Sem c l σ e (.exc x) cn →
    Sem c l σ (applyFilters fs e) (.exc x) cn := by
  intro fs
  induction fs with
  | nil => intro e h; exact h
  | cons f fs ih => intro e h; exact ih _ (sem_filt_exc c h)

/-- a chain of filter functions applied to a finished content is `filterContent` -/
theorem sem_filters {l σ} : ∀ (fs : List Nat) (e : Expr) (s : Str) (cn : Nat), Sem c l σ e (.val s) cn →
    Sem c l σ (applyFilters fs e) (Spec.filterContent c.k fs s cn).1 (Spec.filterContent c.k fs s cn).2 := by
  intro fs
  induction fs with
  | nil => intro e s cn h; simpa [applyFilters, Spec.filterContent] using h
  | cons f fs ih =>
    intro e s cn h
    have h1 := sem_filt c (f := f) h
    simp only [applyFilters, Spec.filterContent, Spec.tickS]
    by_cases hk : cn = c.k
    · simp only [hk, if_true, beq_self_eq_true] at h1 ⊢
      exact sem_filters_exc c fs _ h1
    · have : (cn == c.k) = false := by simpa using hk
      simp only [hk, if_false, this] at h1 ⊢
      exact ih _ _ _ h1

/-- loops with a loop context need an `__M_loop` in scope -/
def LoopOK (sc : Scope) (t : Tmpl) : Prop := sc.loops = true ∨ mentionsLoopDeep t = false

def VarsAgree (l : Loc) (vs : List (Name × Str)) : Prop := ∀ x, lookup x l.vars = lookup x vs

/-- the statements generated for `t`, run from `σ`, did what the specification says for `t` -/
def Refines (i : Nat) (top : Str) (rest : List (Nat × Str)) (t : Tmpl) (E : Spec.Env) (σ : St) (o : Outcome)
    (l' : Loc) (σ' : St) : Prop :=
  ∃ out vars', σ'.bufs = (i, top ++ out) :: rest ∧
    Ev (fun m => Spec.snodes C m t E σ.cnt) ⟨conv o, out, σ'.cnt, vars'⟩ ∧ VarsAgree l' vars'

def RefinesIter (i : Nat) (top : Str) (rest : List (Nat × Str)) (x : Name) (vs : List Str) (body : Tmpl) (ctx : Bool)
    (idx : Nat) (E : Spec.Env) (σ : St) (o : Outcome) (l' : Loc) (σ' : St) : Prop :=
  ∃ out vars', σ'.bufs = (i, top ++ out) :: rest ∧
    Ev (fun m => Spec.siter C m x vs body ctx idx E σ.cnt) ⟨conv o, out, σ'.cnt, vars'⟩ ∧ VarsAgree l' vars'

theorem rel_next {l σ E i top rest σ1 l1 v1} (hR : Rel l σ E) (hb : σ.bufs = (i, top) :: rest)
    (b : Bal i top rest σ σ1) (hv : VarsAgree l1 v1) : Rel l1 σ1 { E with vars := v1 } := by
  obtain ⟨w, hw⟩ := b.bufs
  exact ⟨hv, by rw [b.loops]; exact hR.loops, by rw [hw, ← hR.nb, hb]; simp, by rw [b.frames]; exact hR.nf,
    by rw [b.next]; exact hR.next⟩

theorem LoopOK.seq_l {sc a b} (h : LoopOK sc (.seq a b)) : LoopOK sc a := by
  rcases h with h | h
  · exact .inl h
  · simp only [mentionsLoopDeep, Bool.or_eq_false_iff] at h; exact .inr h.1
theorem LoopOK.seq_r {sc a b} (h : LoopOK sc (.seq a b)) : LoopOK sc b := by
  rcases h with h | h
  · exact .inl h
  · simp only [mentionsLoopDeep, Bool.or_eq_false_iff] at h; exact .inr h.2

theorem ev_const {α : Type} (f : Nat → α) (r : α) (m0 : Nat) (h : ∀ m, m0 ≤ m → f m = r) : Ev f r := ⟨m0, h⟩

theorem bump_index (L : List LoopCtx) (i : Nat) (r : List Nat) (h : L.map (·.index) = i :: r) :
    (bumpTop L).map (·.index) = (i + 1) :: r := by
  cases L with
  | nil => simp at h
  | cons lc t => simp only [List.map_cons, List.cons.injEq] at h; simp [bumpTop, h.1, h.2]

/-- the statement part and the loop part of the refinement, for one fuel -/
structure RefAll (hc : CfgOK c) (n : Nat) : Prop where
  stmt : ∀ t sc l σ E i top rest o l' σ', Ctl t = true → LoopOK sc t → Rel l σ E → LocOK l → StOK σ →
    σ.bufs = (i, top) :: rest → l.writer = i → exec c n (stmts sc t) l σ = (o, l', σ') → o ≠ .timeout →
    Refines C i top rest t E σ o l' σ'
  iter : ∀ x vs body sc ctx idx l σ E i top rest o l' σ', Ctl body = true → LoopOK sc body →
    Rel l σ { E with loops := if ctx then idx :: E.loops else E.loops } → LocOK l → StOK σ →
    σ.bufs = (i, top) :: rest → l.writer = i →
    forIter c n x vs (stmts sc body) ctx l σ = (o, l', σ') → o ≠ .timeout →
    RefinesIter C i top rest x vs body ctx idx E σ o l' σ'

theorem ref_zero (hc : CfgOK c) : RefAll c C hc 0 := by
  refine ⟨?_, ?_⟩
  · intro t sc l σ E i top rest o l' σ' _ _ _ _ _ _ _ he ho
    simp only [exec, Prod.mk.injEq] at he; exact absurd he.1.symm ho
  · intro x vs body sc ctx idx l σ E i top rest o l' σ' _ _ _ _ _ _ _ he ho
    simp only [forIter, Prod.mk.injEq] at he; exact absurd he.1.symm ho

theorem ref_iter (hc : CfgOK c) (n : Nat) (ih : ∀ m, m < n + 1 → RefAll c C hc m) :
    ∀ x vs body sc ctx idx l σ E i top rest o l' σ', Ctl body = true → LoopOK sc body →
    Rel l σ { E with loops := if ctx then idx :: E.loops else E.loops } → LocOK l → StOK σ →
    σ.bufs = (i, top) :: rest → l.writer = i →
    forIter c (n + 1) x vs (stmts sc body) ctx l σ = (o, l', σ') → o ≠ .timeout →
    RefinesIter C i top rest x vs body ctx idx E σ o l' σ' := by
  intro x vs body sc ctx idx l σ E i top rest o l' σ' hctl hlo hR hl hσ hb hw he ho
  have A := ih n (Nat.lt_succ_self n)
  have G := all_good c hc n
  cases vs with
  | nil =>
    simp only [forIter, Prod.mk.injEq] at he; obtain ⟨rfl, rfl, rfl⟩ := he
    refine ⟨[], E.vars, by simp [hb], ⟨1, fun m hm => ?_⟩, hR.vars⟩
    obtain ⟨m, rfl⟩ := Nat.exists_eq_add_of_le' hm
    simp [Spec.siter, conv]
  | cons v vs =>
    simp only [forIter] at he
    generalize hx : exec c n (stmts sc body) { l with vars := (x, v) :: l.vars } σ = y at he
    obtain ⟨o1, l1, σ1⟩ := y
    have hl0 : LocOK { l with vars := (x, v) :: l.vars } := ⟨hl.funs, hl.caller, hl.lexc⟩
    have hR0 : Rel { l with vars := (x, v) :: l.vars } σ
        { E with vars := (x, v) :: E.vars, loops := if ctx then idx :: E.loops else E.loops } :=
      ⟨fun y => (by simp only [lookup]; split; rfl; exact hR.vars y), hR.loops, hR.nb, hR.nf, hR.next⟩
    have g1 : o1 ≠ .timeout → Refines C i top rest body
        { E with vars := (x, v) :: E.vars, loops := if ctx then idx :: E.loops else E.loops } σ o1 l1 σ1 :=
      fun h1 => A.stmt body sc _ σ _ i top rest o1 l1 σ1 hctl hlo hR0 hl0 hσ hb hw hx h1
    have b1 : o1 ≠ .timeout → Bal i top rest σ σ1 ∧ LocOK l1 ∧ l1.writer = i :=
      fun h1 => G.exec _ _ σ i top rest ((emits body).stmts sc) hl0 hσ hb hw o1 l1 σ1 hx h1
    -- the loop ends here (break / return / exception)
    have stop : ∀ (o2 : Spec.SOut), o1 ≠ .timeout → o1 ≠ .normal → o1 ≠ .cont →
        o2 = (match o1 with | .brk => Spec.SOut.normal | x => conv x) → l' = l1 → σ' = σ1 →
        ∃ out vars', σ'.bufs = (i, top ++ out) :: rest ∧
          Ev (fun m => Spec.siter C m x (v :: vs) body ctx idx E σ.cnt) ⟨o2, out, σ'.cnt, vars'⟩ ∧ VarsAgree l' vars' := by
      rintro o2 h1 hn hcn rfl rfl rfl
      obtain ⟨out, v1, hb1, ⟨m1, e1⟩, hv1⟩ := g1 h1
      refine ⟨out, v1, hb1, ⟨m1 + 1, fun m hm => ?_⟩, hv1⟩
      obtain ⟨m, rfl⟩ := Nat.exists_eq_add_of_le' (by omega : 1 ≤ m)
      have := e1 m (by omega)
      simp only at this
      simp only [Spec.siter, this]
      cases o1 <;> simp [conv] at hn hcn h1 ⊢
    -- another iteration
    have again : o1 = .normal ∨ o1 = .cont →
        forIter c n x vs (stmts sc body) ctx l1 (if ctx = true then { σ1 with loops := bumpTop σ1.loops } else σ1)
          = (o, l', σ') → RefinesIter C i top rest x (v :: vs) body ctx idx E σ o l' σ' := by
      intro h1 he2
      have hto : o1 ≠ .timeout := by rcases h1 with rfl | rfl <;> simp
      obtain ⟨out, v1, hb1, ⟨m1, e1⟩, hv1⟩ := g1 hto
      obtain ⟨bb, hl1, hw1⟩ := b1 hto
      have hσ1' : StOK (if ctx = true then { σ1 with loops := bumpTop σ1.loops } else σ1) := by
        split
        · exact bb.ok.of_eq rfl rfl
        · exact bb.ok
      have hR1 : Rel l1 (if ctx = true then { σ1 with loops := bumpTop σ1.loops } else σ1)
          { ({ E with vars := v1 } : Spec.Env) with loops := if ctx then (idx + 1) :: E.loops else E.loops } := by
        have r0 := rel_next hR0 hb bb hv1
        cases ctx with
        | false => exact ⟨r0.vars, r0.loops, r0.nb, r0.nf, r0.next⟩
        | true =>
          simp only [if_true] at r0 ⊢
          exact ⟨r0.vars, bump_index _ _ _ r0.loops, r0.nb, r0.nf, r0.next⟩
      have hb1' : (if ctx = true then { σ1 with loops := bumpTop σ1.loops } else σ1).bufs = (i, top ++ out) :: rest := by
        split <;> exact hb1
      have hc1 : (if ctx = true then { σ1 with loops := bumpTop σ1.loops } else σ1).cnt = σ1.cnt := by
        split <;> rfl
      obtain ⟨out2, v2, hb2, ⟨m2, e2⟩, hv2⟩ := A.iter x vs body sc ctx (idx + 1) l1 _ { E with vars := v1 } i _ rest
        o l' σ' hctl hlo hR1 hl1 hσ1' hb1' hw1 he2 ho
      refine ⟨out ++ out2, v2, by simp [hb2], ⟨max m1 m2 + 1, fun m hm => ?_⟩, hv2⟩
      obtain ⟨m, rfl⟩ := Nat.exists_eq_add_of_le' (by omega : 1 ≤ m)
      have a1 := e1 m (by omega)
      have a2 := e2 m (by omega)
      simp only [hc1] at a1 a2
      simp only [Spec.siter, a1]
      rcases h1 with rfl | rfl <;> simp [conv, a2]
    cases o1 with
    | normal => exact again (.inl rfl) he
    | cont => exact again (.inr rfl) he
    | timeout => simp only [Prod.mk.injEq] at he; exact absurd he.1.symm ho
    | brk =>
      simp only [Prod.mk.injEq] at he; obtain ⟨rfl, h2, h3⟩ := he
      exact stop _ (by simp) (by simp) (by simp) rfl h2.symm h3.symm
    | ret rv =>
      simp only [Prod.mk.injEq] at he; obtain ⟨rfl, h2, h3⟩ := he
      exact stop _ (by simp) (by simp) (by simp) rfl h2.symm h3.symm
    | exc e =>
      simp only [Prod.mk.injEq] at he; obtain ⟨rfl, h2, h3⟩ := he
      exact stop _ (by simp) (by simp) (by simp) rfl h2.symm h3.symm

theorem ref_stmt (hc : CfgOK c) (hk : C.k = c.k) (n : Nat) (ih : ∀ m, m < n + 1 → RefAll c C hc m) :
    ∀ t sc l σ E i top rest o l' σ', Ctl t = true → LoopOK sc t → Rel l σ E → LocOK l → StOK σ →
    σ.bufs = (i, top) :: rest → l.writer = i → exec c (n + 1) (stmts sc t) l σ = (o, l', σ') → o ≠ .timeout →
    Refines C i top rest t E σ o l' σ' := by
  intro t sc l σ E i top rest o l' σ' hctl hlo hR hl hσ hb hw he ho
  have A := ih n (Nat.lt_succ_self n)
  have G := all_good c hc
  -- a leaf whose only effect is appending `w`
  have leaf : ∀ (w : Str) (so : Spec.SOut), σ'.bufs = (i, top ++ w) :: rest → σ'.cnt = σ.cnt → l'.vars = l.vars →
      conv o = so → (∀ m, Spec.snodes C (m + 1) t E σ.cnt = ⟨so, w, σ.cnt, E.vars⟩) → Refines C i top rest t E σ o l' σ' := by
    intro w so h1 h2 h3 h4 h5
    refine ⟨w, E.vars, h1, ⟨1, fun m hm => ?_⟩, fun x => by rw [h3]; exact hR.vars x⟩
    obtain ⟨m, rfl⟩ := Nat.exists_eq_add_of_le' hm
    show Spec.snodes C (m + 1) t E σ.cnt = _
    rw [h5 m, h4, h2]
  cases t with
  | nil =>
    simp only [stmts, exec, Prod.mk.injEq] at he; obtain ⟨rfl, rfl, rfl⟩ := he
    exact leaf [] .normal (by simp [hb]) rfl rfl rfl (fun m => by simp [Spec.snodes])
  | brk =>
    simp only [stmts, exec, Prod.mk.injEq] at he; obtain ⟨rfl, rfl, rfl⟩ := he
    exact leaf [] .brk (by simp [hb]) rfl rfl rfl (fun m => by simp [Spec.snodes])
  | cont =>
    simp only [stmts, exec, Prod.mk.injEq] at he; obtain ⟨rfl, rfl, rfl⟩ := he
    exact leaf [] .cont (by simp [hb]) rfl rfl rfl (fun m => by simp [Spec.snodes])
  | ret =>
    simp only [stmts, exec] at he
    rcases n with _ | n1
    · simp only [eval, Prod.mk.injEq] at he; exact absurd he.1.symm ho
    simp only [eval, emptyStr, Prod.mk.injEq] at he; obtain ⟨rfl, rfl, rfl⟩ := he
    exact leaf [] .ret (by simp [hb]) rfl rfl rfl (fun m => by simp [Spec.snodes])
  | text s =>
    simp only [stmts, exec] at he
    rcases n with _ | n1
    · simp only [eval, Prod.mk.injEq] at he; exact absurd he.1.symm ho
    simp only [eval, Prod.mk.injEq] at he; obtain ⟨rfl, rfl, rfl⟩ := he
    exact leaf s .normal (by simp [hb, hw, writeTo]) rfl rfl rfl (fun m => by simp [Spec.snodes])
  | expr e fs =>
    simp only [Ctl] at hctl
    simp only [stmts, exec] at he
    generalize hx : eval c n (applyFilters fs e) l σ = y at he
    obtain ⟨r, σ1⟩ := y
    have g := eval_pure c C hk n _ l σ E r σ1 (pure_applyFilters fs e hctl) hR hx
    cases r with
    | timeout => simp only [Prod.mk.injEq] at he; exact absurd he.1.symm ho
    | val v =>
      simp only [Prod.mk.injEq] at he; obtain ⟨rfl, rfl, rfl⟩ := he
      obtain ⟨o1, m1, e1⟩ := g (by simp)
      have hb1 : σ1.bufs = (i, top) :: rest := by rw [o1]; exact hb
      refine ⟨v, E.vars, by simp [hb1, hw, writeTo], ⟨m1 + 1, fun m hm => ?_⟩, hR.vars⟩
      obtain ⟨m, rfl⟩ := Nat.exists_eq_add_of_le' (by omega : 1 ≤ m)
      have := e1 m (by omega)
      simp only at this
      simp [Spec.snodes, this, convV, conv]
    | exc x =>
      simp only [Prod.mk.injEq] at he; obtain ⟨rfl, rfl, rfl⟩ := he
      obtain ⟨o1, m1, e1⟩ := g (by simp)
      have hb1 : σ1.bufs = (i, top) :: rest := by rw [o1]; exact hb
      refine ⟨[], E.vars, by simp [hb1], ⟨m1 + 1, fun m hm => ?_⟩, hR.vars⟩
      obtain ⟨m, rfl⟩ := Nat.exists_eq_add_of_le' (by omega : 1 ≤ m)
      have := e1 m (by omega)
      simp only at this
      simp [Spec.snodes, this, convV, conv]
  | seq a b =>
    simp only [Ctl, Bool.and_eq_true] at hctl
    simp only [stmts, exec] at he
    generalize hx : exec c n (stmts sc a) l σ = y at he
    obtain ⟨o1, l1, σ1⟩ := y
    have g1 := A.stmt a sc l σ E i top rest o1 l1 σ1 hctl.1 hlo.seq_l hR hl hσ hb hw hx
    have b1 := (G n).exec _ l σ i top rest ((emits a).stmts sc) hl hσ hb hw o1 l1 σ1 hx
    have stop : o1 ≠ .timeout → o1 ≠ .normal → o = o1 → l' = l1 → σ' = σ1 → Refines C i top rest (.seq a b) E σ o l' σ' := by
      rintro h1 hn rfl rfl rfl
      obtain ⟨out, v1, hb1, ⟨m1, e1⟩, hv1⟩ := g1 h1
      refine ⟨out, v1, hb1, ⟨m1 + 1, fun m hm => ?_⟩, hv1⟩
      obtain ⟨m, rfl⟩ := Nat.exists_eq_add_of_le' (by omega : 1 ≤ m)
      have := e1 m (by omega)
      simp only at this
      simp only [Spec.snodes, this]
      cases o <;> simp [conv] at hn h1 ⊢
    cases o1 with
    | normal =>
      simp only at he
      obtain ⟨out, v1, hb1, ⟨m1, e1⟩, hv1⟩ := g1 (by simp)
      obtain ⟨bb, hl1, hw1⟩ := b1 (by simp)
      obtain ⟨out2, v2, hb2, ⟨m2, e2⟩, hv2⟩ := A.stmt b sc l1 σ1 { E with vars := v1 } i _ rest o l' σ' hctl.2 hlo.seq_r
        (rel_next hR hb bb hv1) hl1 bb.ok hb1 hw1 he ho
      refine ⟨out ++ out2, v2, by simp [hb2], ⟨max m1 m2 + 1, fun m hm => ?_⟩, hv2⟩
      obtain ⟨m, rfl⟩ := Nat.exists_eq_add_of_le' (by omega : 1 ≤ m)
      have a1 := e1 m (by omega)
      have a2 := e2 m (by omega)
      simp only at a1 a2
      simp [Spec.snodes, a1, a2, conv]
    | timeout => simp only [Prod.mk.injEq] at he; exact absurd he.1.symm ho
    | ret rv => simp only [Prod.mk.injEq] at he; exact stop (by simp) (by simp) he.1.symm he.2.1.symm he.2.2.symm
    | brk => simp only [Prod.mk.injEq] at he; exact stop (by simp) (by simp) he.1.symm he.2.1.symm he.2.2.symm
    | cont => simp only [Prod.mk.injEq] at he; exact stop (by simp) (by simp) he.1.symm he.2.1.symm he.2.2.symm
    | exc x => simp only [Prod.mk.injEq] at he; exact stop (by simp) (by simp) he.1.symm he.2.1.symm he.2.2.symm
  | ite cnd ta tb =>
    simp only [Ctl, Bool.and_eq_true] at hctl
    have hloa : LoopOK sc ta := by
      rcases hlo with h | h
      · exact .inl h
      · simp only [mentionsLoopDeep, Bool.or_eq_false_iff] at h; exact .inr h.1.2
    have hlob : LoopOK sc tb := by
      rcases hlo with h | h
      · exact .inl h
      · simp only [mentionsLoopDeep, Bool.or_eq_false_iff] at h; exact .inr h.2
    simp only [stmts, exec] at he
    generalize hx : eval c n cnd l σ = y at he
    obtain ⟨r, σ1⟩ := y
    have g := eval_pure c C hk n _ l σ E r σ1 hctl.1.1 hR hx
    cases r with
    | timeout => simp only [Prod.mk.injEq] at he; exact absurd he.1.symm ho
    | exc x =>
      simp only [Prod.mk.injEq] at he; obtain ⟨rfl, rfl, rfl⟩ := he
      obtain ⟨o1, m1, e1⟩ := g (by simp)
      have hb1 : σ1.bufs = (i, top) :: rest := by rw [o1]; exact hb
      refine ⟨[], E.vars, by simp [hb1], ⟨m1 + 1, fun m hm => ?_⟩, hR.vars⟩
      obtain ⟨m, rfl⟩ := Nat.exists_eq_add_of_le' (by omega : 1 ≤ m)
      have := e1 m (by omega)
      simp only at this
      simp [Spec.snodes, this, convV, conv]
    | val v =>
      simp only at he
      obtain ⟨o1, m1, e1⟩ := g (by simp)
      have hb1 : σ1.bufs = (i, top) :: rest := by rw [o1]; exact hb
      have hσ1 : StOK σ1 := by rw [o1]; exact hσ.of_eq rfl rfl
      have branch : ∀ tx, Ctl tx = true → LoopOK sc tx → exec c n (stmts sc tx) l σ1 = (o, l', σ') →
          (if v.isEmpty then tb else ta) = tx → Refines C i top rest (.ite cnd ta tb) E σ o l' σ' := by
        intro tx hcx hlx hex htx
        obtain ⟨out2, v2, hb2, ⟨m2, e2⟩, hv2⟩ := A.stmt tx sc l σ1 E i top rest o l' σ' hcx hlx (hR.of_onlyCnt o1) hl hσ1
          hb1 hw hex ho
        refine ⟨out2, v2, hb2, ⟨max m1 m2 + 1, fun m hm => ?_⟩, hv2⟩
        obtain ⟨m, rfl⟩ := Nat.exists_eq_add_of_le' (by omega : 1 ≤ m)
        have a1 := e1 m (by omega)
        have a2 := e2 m (by omega)
        simp only at a1 a2
        subst htx
        simp only [Spec.snodes, a1, convV, a2]
        simp
      split at he
      · rename_i hv; exact branch tb hctl.2 hlob he (by simp [hv])
      · rename_i hv; exact branch ta hctl.1.2 hloa he (by simp [hv])
  | try_ ta tb =>
    simp only [Ctl, Bool.and_eq_true] at hctl
    have hloa : LoopOK sc ta := by
      rcases hlo with h | h
      · exact .inl h
      · simp only [mentionsLoopDeep, Bool.or_eq_false_iff] at h; exact .inr h.1
    have hlob : LoopOK sc tb := by
      rcases hlo with h | h
      · exact .inl h
      · simp only [mentionsLoopDeep, Bool.or_eq_false_iff] at h; exact .inr h.2
    simp only [stmts, exec] at he
    generalize hx : exec c n (stmts sc ta) l σ = y at he
    obtain ⟨o1, l1, σ1⟩ := y
    have g1 := A.stmt ta sc l σ E i top rest o1 l1 σ1 hctl.1 hloa hR hl hσ hb hw hx
    have b1 := (G n).exec _ l σ i top rest ((emits ta).stmts sc) hl hσ hb hw o1 l1 σ1 hx
    have stop : o1 ≠ .timeout → (∀ x, o1 ≠ .exc x) → o = o1 → l' = l1 → σ' = σ1 →
        Refines C i top rest (.try_ ta tb) E σ o l' σ' := by
      rintro h1 hn rfl rfl rfl
      obtain ⟨out, v1, hb1, ⟨m1, e1⟩, hv1⟩ := g1 h1
      refine ⟨out, v1, hb1, ⟨m1 + 1, fun m hm => ?_⟩, hv1⟩
      obtain ⟨m, rfl⟩ := Nat.exists_eq_add_of_le' (by omega : 1 ≤ m)
      have := e1 m (by omega)
      simp only at this
      simp only [Spec.snodes, this]
      cases o <;> simp [conv] at hn h1 ⊢
    cases o1 with
    | exc x =>
      simp only at he
      obtain ⟨out, v1, hb1, ⟨m1, e1⟩, hv1⟩ := g1 (by simp)
      obtain ⟨bb, hl1, hw1⟩ := b1 (by simp)
      obtain ⟨out2, v2, hb2, ⟨m2, e2⟩, hv2⟩ := A.stmt tb sc l1 σ1 { E with vars := v1 } i _ rest o l' σ' hctl.2 hlob
        (rel_next hR hb bb hv1) hl1 bb.ok hb1 hw1 he ho
      refine ⟨out ++ out2, v2, by simp [hb2], ⟨max m1 m2 + 1, fun m hm => ?_⟩, hv2⟩
      obtain ⟨m, rfl⟩ := Nat.exists_eq_add_of_le' (by omega : 1 ≤ m)
      have a1 := e1 m (by omega)
      have a2 := e2 m (by omega)
      simp only at a1 a2
      simp [Spec.snodes, a1, a2, conv]
    | timeout => simp only [Prod.mk.injEq] at he; exact absurd he.1.symm ho
    | ret rv => simp only [Prod.mk.injEq] at he; exact stop (by simp) (by simp) he.1.symm he.2.1.symm he.2.2.symm
    | brk => simp only [Prod.mk.injEq] at he; exact stop (by simp) (by simp) he.1.symm he.2.1.symm he.2.2.symm
    | cont => simp only [Prod.mk.injEq] at he; exact stop (by simp) (by simp) he.1.symm he.2.1.symm he.2.2.symm
    | normal => simp only [Prod.mk.injEq] at he; exact stop (by simp) (by simp) he.1.symm he.2.1.symm he.2.2.symm
  | while_ wm body =>
    simp only [Ctl] at hctl
    have hlob : LoopOK sc body := by
      rcases hlo with h | h
      · exact .inl h
      · simp only [mentionsLoopDeep] at h; exact .inr h
    simp only [stmts, exec] at he
    have ht := tick_tickS c.k σ
    generalize hx : tick c.k σ = y at he ht
    obtain ⟨tb, σ1⟩ := y
    simp only at ht
    have o1 : OnlyCnt σ σ1 := by rw [ht.2]; rfl
    have hb1 : σ1.bufs = (i, top) :: rest := by rw [o1]; exact hb
    have hσ1 : StOK σ1 := by rw [o1]; exact hσ.of_eq rfl rfl
    have hts : Spec.tickS C.k σ.cnt = (tb, σ1.cnt) := by
      rw [hk, ht.1, ht.2]
    cases tb with
    | true =>
      simp only [Prod.mk.injEq] at he; obtain ⟨rfl, rfl, rfl⟩ := he
      refine ⟨[], E.vars, by simp [hb1], ⟨1, fun m hm => ?_⟩, hR.vars⟩
      obtain ⟨m, rfl⟩ := Nat.exists_eq_add_of_le' hm
      simp [Spec.snodes, hts, conv, excBoom]
    | false =>
      simp only at he
      split at he
      · rename_i hlt
        generalize hy : exec c n (stmts sc body) l σ1 = z at he
        obtain ⟨o2, l2, σ2⟩ := z
        have g2 := A.stmt body sc l σ1 E i top rest o2 l2 σ2 hctl hlob (hR.of_onlyCnt o1) hl hσ1 hb1 hw hy
        have b2 := (G n).exec _ l σ1 i top rest ((emits body).stmts sc) hl hσ1 hb1 hw o2 l2 σ2 hy
        have stop : ∀ so, o2 ≠ .timeout → o2 ≠ .normal → o2 ≠ .cont →
            so = (match o2 with | .brk => Spec.SOut.normal | x => conv x) → l' = l2 → σ' = σ2 →
            ∃ out vars', σ'.bufs = (i, top ++ out) :: rest ∧
              Ev (fun m => Spec.snodes C m (.while_ wm body) E σ.cnt) ⟨so, out, σ'.cnt, vars'⟩ ∧ VarsAgree l' vars' := by
          rintro so h1 hn hcn rfl rfl rfl
          obtain ⟨out, v1, hb2, ⟨m1, e1⟩, hv1⟩ := g2 h1
          refine ⟨out, v1, hb2, ⟨m1 + 1, fun m hm => ?_⟩, hv1⟩
          obtain ⟨m, rfl⟩ := Nat.exists_eq_add_of_le' (by omega : 1 ≤ m)
          have := e1 m (by omega)
          simp only at this
          simp only [Spec.snodes, hts, hlt, if_true, this]
          cases o2 <;> simp [conv] at hn hcn h1 ⊢
        have again : o2 = .normal ∨ o2 = .cont → exec c n (stmts sc (.while_ wm body)) l2 σ2 = (o, l', σ') →
            Refines C i top rest (.while_ wm body) E σ o l' σ' := by
          intro h1 he2
          have hto : o2 ≠ .timeout := by rcases h1 with rfl | rfl <;> simp
          obtain ⟨out, v1, hb2, ⟨m1, e1⟩, hv1⟩ := g2 hto
          obtain ⟨bb, hl2, hw2⟩ := b2 hto
          obtain ⟨out2, v2, hb3, ⟨m2, e2⟩, hv2⟩ := A.stmt (.while_ wm body) sc l2 σ2 { E with vars := v1 } i _ rest o l' σ'
            (by simpa [Ctl] using hctl) hlo (rel_next (hR.of_onlyCnt o1) hb1 bb hv1) hl2 bb.ok hb2 hw2 he2 ho
          refine ⟨out ++ out2, v2, by simp [hb3], ⟨max m1 m2 + 1, fun m hm => ?_⟩, hv2⟩
          obtain ⟨m, rfl⟩ := Nat.exists_eq_add_of_le' (by omega : 1 ≤ m)
          have a1 := e1 m (by omega)
          have a2 := e2 m (by omega)
          simp only at a1 a2
          simp only [Spec.snodes, hts, hlt, if_true, a1]
          rcases h1 with rfl | rfl <;> simp [conv, a2]
        cases o2 with
        | normal => exact again (.inl rfl) (by simpa [stmts] using he)
        | cont => exact again (.inr rfl) (by simpa [stmts] using he)
        | timeout => simp only [Prod.mk.injEq] at he; exact absurd he.1.symm ho
        | brk =>
          simp only [Prod.mk.injEq] at he; obtain ⟨rfl, h2, h3⟩ := he
          exact stop _ (by simp) (by simp) (by simp) rfl h2.symm h3.symm
        | ret rv =>
          simp only [Prod.mk.injEq] at he; obtain ⟨rfl, h2, h3⟩ := he
          exact stop _ (by simp) (by simp) (by simp) rfl h2.symm h3.symm
        | exc x =>
          simp only [Prod.mk.injEq] at he; obtain ⟨rfl, h2, h3⟩ := he
          exact stop _ (by simp) (by simp) (by simp) rfl h2.symm h3.symm
      · rename_i hlt
        simp only [Prod.mk.injEq] at he; obtain ⟨rfl, rfl, rfl⟩ := he
        refine ⟨[], E.vars, by simp [hb1], ⟨1, fun m hm => ?_⟩, hR.vars⟩
        obtain ⟨m, rfl⟩ := Nat.exists_eq_add_of_le' hm
        simp [Spec.snodes, hts, hlt, conv]
  | for_ x items body =>
    simp only [Ctl, Bool.and_eq_true] at hctl
    by_cases hcond : (argsMentionLoop items || mentionsLoopDeep body) = true
    · -- with a loop context
      have hscl : sc.loops = true := by
        rcases hlo with h | h
        · exact h
        · simp only [mentionsLoopDeep] at h; rw [h] at hcond; cases hcond
      have hlob : LoopOK sc body := .inl hscl
      simp only [stmts, hcond, if_true, hscl] at he
      rcases n with _ | n1
      · simp only [exec, Prod.mk.injEq] at he; exact absurd he.1.symm ho
      simp only [exec] at he
      generalize hx : evalArgs c n1 items l σ = y at he
      obtain ⟨r, σ1⟩ := y
      have ga := args_pure c C hk n1 items l σ E r σ1 hctl.1 hR hx
      cases r with
      | timeout => simp only [Prod.mk.injEq] at he; exact absurd he.1.symm ho
      | exc ex =>
        simp only [Prod.mk.injEq] at he; obtain ⟨rfl, rfl, rfl⟩ := he
        obtain ⟨o1, m1, e1⟩ := ga (by simp)
        have hb1 : σ1.bufs = (i, top) :: rest := by rw [o1]; exact hb
        refine ⟨[], E.vars, by simp [hb1], ⟨m1 + 1, fun m hm => ?_⟩, hR.vars⟩
        obtain ⟨m, rfl⟩ := Nat.exists_eq_add_of_le' (by omega : 1 ≤ m)
        have := e1 m (by omega)
        simp only at this
        simp [Spec.snodes, this, convA, conv]
      | vals vs =>
        simp only at he
        obtain ⟨o1, m1, e1⟩ := ga (by simp)
        have hb1 : σ1.bufs = (i, top) :: rest := by rw [o1]; exact hb
        have hσ1 : StOK σ1 := by rw [o1]; exact hσ.of_eq rfl rfl
        have hR1 := hR.of_onlyCnt o1
        rcases n1 with _ | n2
        · simp only [exec, Prod.mk.injEq] at he; exact absurd he.1.symm ho
        simp only [exec] at he
        generalize hy : forIter c n2 x vs (stmts sc body) true l _ = z at he
        obtain ⟨o2, l2, σ2⟩ := z
        have hto : o2 ≠ .timeout := by
          rintro rfl
          simp only [Prod.mk.injEq] at he
          exact ho he.1.symm
        have hR2 : Rel l { σ1 with loops := ⟨vs, 0⟩ :: σ1.loops }
            { E with loops := if true then 0 :: E.loops else E.loops } :=
          ⟨hR1.vars, by simp [hR1.loops], hR1.nb, hR1.nf, hR1.next⟩
        obtain ⟨out2, v2, hb2, ⟨m2, e2⟩, hv2⟩ := (ih n2 (by omega)).iter x vs body sc true 0 l _ E i top rest o2 l2 σ2
          hctl.2 hlob hR2 hl (hσ1.of_eq rfl rfl) hb1 hw hy hto
        obtain ⟨bt, hl2, hw2⟩ := (G n2).iter x vs (stmts sc body) true l { σ1 with loops := ⟨vs, 0⟩ :: σ1.loops } i top rest
          ((emits body).stmts sc) hl (hσ1.of_eq rfl rfl) hb1 hw o2 l2 σ2 hy hto
        simp only [if_true] at bt
        have hloops : ∃ lc, σ2.loops = lc :: σ1.loops := by
          have h1 := bt.loops.1
          have h2 := bt.loops.2
          simp only [List.tail_cons] at h1
          cases hls : σ2.loops with
          | nil => simp [hls] at h2
          | cons lc r => simp only [hls, List.tail_cons] at h1; exact ⟨lc, by rw [h1]⟩
        obtain ⟨lc, hlc⟩ := hloops
        have hfin : execPrim .loopExit l2 σ2 = (.normal, l2, { σ2 with loops := σ1.loops }) := by
          simp [execPrim, hlc]
        have res : Refines C i top rest (.for_ x items body) E σ o2 l2 { σ2 with loops := σ1.loops } := by
          refine ⟨out2, v2, hb2, ⟨max m1 m2 + 1, fun m hm => ?_⟩, hv2⟩
          obtain ⟨m, rfl⟩ := Nat.exists_eq_add_of_le' (by omega : 1 ≤ m)
          have a1 := e1 m (by omega)
          have a2 := e2 m (by omega)
          simp only at a1 a2
          simp [Spec.snodes, a1, a2, convA, hcond]
        cases o2 <;> simp only [hfin, Prod.mk.injEq] at he <;>
          first
          | exact absurd rfl hto
          | (obtain ⟨rfl, rfl, rfl⟩ := he; exact res)
    · -- a plain `for`
      have hcond' : (argsMentionLoop items || mentionsLoopDeep body) = false := by simpa using hcond
      have hlob : LoopOK sc body := by
        simp only [Bool.or_eq_false_iff] at hcond'
        exact .inr hcond'.2
      simp only [stmts, hcond', Bool.false_eq_true, if_false] at he
      simp only [exec] at he
      generalize hx : evalArgs c n items l σ = y at he
      obtain ⟨r, σ1⟩ := y
      have ga := args_pure c C hk n items l σ E r σ1 hctl.1 hR hx
      cases r with
      | timeout => simp only [Prod.mk.injEq] at he; exact absurd he.1.symm ho
      | exc ex =>
        simp only [Prod.mk.injEq] at he; obtain ⟨rfl, rfl, rfl⟩ := he
        obtain ⟨o1, m1, e1⟩ := ga (by simp)
        have hb1 : σ1.bufs = (i, top) :: rest := by rw [o1]; exact hb
        refine ⟨[], E.vars, by simp [hb1], ⟨m1 + 1, fun m hm => ?_⟩, hR.vars⟩
        obtain ⟨m, rfl⟩ := Nat.exists_eq_add_of_le' (by omega : 1 ≤ m)
        have := e1 m (by omega)
        simp only at this
        simp [Spec.snodes, this, convA, conv]
      | vals vs =>
        simp only at he
        obtain ⟨o1, m1, e1⟩ := ga (by simp)
        have hb1 : σ1.bufs = (i, top) :: rest := by rw [o1]; exact hb
        have hσ1 : StOK σ1 := by rw [o1]; exact hσ.of_eq rfl rfl
        have hR1 := hR.of_onlyCnt o1
        have hR2 : Rel l σ1 { E with loops := if false then 0 :: E.loops else E.loops } :=
          ⟨hR1.vars, hR1.loops, hR1.nb, hR1.nf, hR1.next⟩
        obtain ⟨out2, v2, hb2, ⟨m2, e2⟩, hv2⟩ := A.iter x vs body sc false 0 l σ1 E i top rest o l' σ'
          hctl.2 hlob hR2 hl hσ1 hb1 hw he ho
        refine ⟨out2, v2, hb2, ⟨max m1 m2 + 1, fun m hm => ?_⟩, hv2⟩
        obtain ⟨m, rfl⟩ := Nat.exists_eq_add_of_le' (by omega : 1 ≤ m)
        have a1 := e1 m (by omega)
        have a2 := e2 m (by omega)
        simp only at a1 a2
        simp [Spec.snodes, a1, a2, convA, hcond']
  | textTag fs s =>
    by_cases hfs : fs.isEmpty = true
    · simp only [stmts, hfs, if_true, exec] at he
      have hnil : fs = [] := by simpa using hfs
      rcases n with _ | n1
      · simp only [eval, Prod.mk.injEq] at he; exact absurd he.1.symm ho
      simp only [eval, Prod.mk.injEq] at he; obtain ⟨rfl, rfl, rfl⟩ := he
      exact leaf s .normal (by simp [hb, hw, writeTo]) rfl rfl rfl
        (fun m => by simp [Spec.snodes, hnil, Spec.filterContent])
    · simp only [stmts, hfs, Bool.false_eq_true, if_false] at he
      rcases n with _ | n1
      · simp only [exec, Prod.mk.injEq] at he; exact absurd he.1.symm ho
      simp only [exec, execPrim] at he
      rcases n1 with _ | n2
      · simp only [exec, Prod.mk.injEq] at he; exact absurd he.1.symm ho
      simp only [exec] at he
      rcases n2 with _ | n3
      · simp only [eval, exec, Prod.mk.injEq] at he; exact absurd he.1.symm ho
      simp only [eval, exec, execPrim, hb, writeTo, if_true, List.nil_append] at he
      -- now: the filters applied to `__M_buf.getvalue()`, written through the restored writer
      generalize hx : eval c n3 (applyFilters fs .mbuf) _ _ = y at he
      obtain ⟨r, σ1⟩ := y
      have sem := sem_filters c (l := { l with writer := i, mbuf := s })
        (σ := { σ with bufs := (i, top) :: rest, nextId := σ.nextId + 1 }) fs .mbuf s σ.cnt (sem_mbuf c _ _)
      have g := sem n3 r σ1 hx
      cases r with
      | timeout => simp only [Prod.mk.injEq] at he; exact absurd he.1.symm ho
      | val v =>
        obtain ⟨o1, hv, hc1⟩ := g (by simp)
        simp only [Prod.mk.injEq] at he; obtain ⟨rfl, rfl, rfl⟩ := he
        have hb1 : σ1.bufs = (i, top) :: rest := by rw [o1]
        refine ⟨v, E.vars, by simp [hb1, writeTo], ⟨1, fun m hm => ?_⟩, hR.vars⟩
        obtain ⟨m, rfl⟩ := Nat.exists_eq_add_of_le' hm
        simp only [Spec.snodes, hk]
        generalize hz : Spec.filterContent c.k fs s σ.cnt = z at hv hc1
        obtain ⟨zr, zc⟩ := z
        simp only at hv hc1
        subst hv hc1
        simp [convV, conv]
      | exc x =>
        obtain ⟨o1, hv, hc1⟩ := g (by simp)
        simp only [Prod.mk.injEq] at he; obtain ⟨rfl, rfl, rfl⟩ := he
        have hb1 : σ1.bufs = (i, top) :: rest := by rw [o1]
        refine ⟨[], E.vars, by simp [hb1], ⟨1, fun m hm => ?_⟩, hR.vars⟩
        obtain ⟨m, rfl⟩ := Nat.exists_eq_add_of_le' hm
        simp only [Spec.snodes, hk]
        generalize hz : Spec.filterContent c.k fs s σ.cnt = z at hv hc1
        obtain ⟨zr, zc⟩ := z
        simp only at hv hc1
        subst hv hc1
        simp [convV, conv]
  | def_ _ _ _ _ => simp [Ctl] at hctl
  | block _ _ _ _ => simp [Ctl] at hctl
  | call _ _ _ => simp [Ctl] at hctl
  | include_ _ => simp [Ctl] at hctl

theorem ref_all (hc : CfgOK c) (hk : C.k = c.k) : ∀ n, RefAll c C hc n := by
  intro n
  induction n using Nat.strongRecOn with
  | _ n ih =>
    rcases n with _ | n
    · exact ref_zero c C hc
    · exact ⟨ref_stmt c C hc hk n ih, ref_iter c C hc n ih⟩

/-! ## the whole render -/

theorem ctl_mentions : ∀ t : Tmpl, Ctl t = true → mentionsLoopDeep t = refsLoop t := by
  intro t
  induction t with
  | seq a b iha ihb => intro h; simp only [Ctl, Bool.and_eq_true] at h; simp [mentionsLoopDeep, refsLoop, iha h.1, ihb h.2]
  | ite c a b iha ihb =>
    intro h; simp only [Ctl, Bool.and_eq_true] at h; simp [mentionsLoopDeep, refsLoop, iha h.1.2, ihb h.2]
  | for_ x items b ih => intro h; simp only [Ctl, Bool.and_eq_true] at h; simp [mentionsLoopDeep, refsLoop, ih h.2]
  | while_ m b ih => intro h; simp only [Ctl] at h; simp [mentionsLoopDeep, refsLoop, ih h]
  | try_ a b iha ihb => intro h; simp only [Ctl, Bool.and_eq_true] at h; simp [mentionsLoopDeep, refsLoop, iha h.1, ihb h.2]
  | _ => intro h; first | rfl | simp [Ctl] at h

theorem ctl_declared (top : Bool) (mod : Nat) : ∀ t : Tmpl, Ctl t = true → Spec.declared top mod t = [] := by
  intro t
  induction t with
  | seq a b iha ihb => intro h; simp only [Ctl, Bool.and_eq_true] at h; simp [Spec.declared, iha h.1, ihb h.2]
  | ite c a b iha ihb => intro h; simp only [Ctl, Bool.and_eq_true] at h; simp [Spec.declared, iha h.1.2, ihb h.2]
  | for_ x items b ih => intro h; simp only [Ctl, Bool.and_eq_true] at h; simp [Spec.declared, ih h.2]
  | while_ m b ih => intro h; simp only [Ctl] at h; simp [Spec.declared, ih h]
  | try_ a b iha ihb => intro h; simp only [Ctl, Bool.and_eq_true] at h; simp [Spec.declared, iha h.1, ihb h.2]
  | _ => intro h; first | rfl | simp [Ctl] at h

/-- the prologue of a callable without closures does nothing -/
theorem ctl_hoist (c : Cfg) (sc : Scope) : ∀ (t : Tmpl), Ctl t = true → ∀ (n : Nat) (l : Loc) (σ : St) (o : Outcome)
    (l' : Loc) (σ' : St), exec c n (hoist sc t) l σ = (o, l', σ') → o ≠ .timeout → o = .normal ∧ l' = l ∧ σ' = σ := by
  have skip : ∀ (n : Nat) (l : Loc) (σ : St) (o : Outcome) (l' : Loc) (σ' : St),
      exec c n .skip l σ = (o, l', σ') → o ≠ .timeout → o = .normal ∧ l' = l ∧ σ' = σ := by
    intro n l σ o l' σ' he ho
    rcases n with _ | n
    · simp only [exec, Prod.mk.injEq] at he; exact absurd he.1.symm ho
    · simp only [exec, Prod.mk.injEq] at he; obtain ⟨rfl, rfl, rfl⟩ := he; exact ⟨rfl, rfl, rfl⟩
  have seq : ∀ (a b : Stmt),
      (∀ n l σ o l' σ', exec c n a l σ = (o, l', σ') → o ≠ .timeout → o = .normal ∧ l' = l ∧ σ' = σ) →
      (∀ n l σ o l' σ', exec c n b l σ = (o, l', σ') → o ≠ .timeout → o = .normal ∧ l' = l ∧ σ' = σ) →
      ∀ n l σ o l' σ', exec c n (.seq a b) l σ = (o, l', σ') → o ≠ .timeout → o = .normal ∧ l' = l ∧ σ' = σ := by
    intro a b ha hb n l σ o l' σ' he ho
    rcases n with _ | n
    · simp only [exec, Prod.mk.injEq] at he; exact absurd he.1.symm ho
    simp only [exec] at he
    generalize hx : exec c n a l σ = y at he
    obtain ⟨o1, l1, σ1⟩ := y
    have g := ha n l σ o1 l1 σ1 hx
    cases o1 with
    | normal => obtain ⟨_, rfl, rfl⟩ := g (by simp); exact hb n _ _ o l' σ' he ho
    | timeout => simp only [Prod.mk.injEq] at he; exact absurd he.1.symm ho
    | ret v => exact absurd (g (by simp)).1 (by simp)
    | brk => exact absurd (g (by simp)).1 (by simp)
    | cont => exact absurd (g (by simp)).1 (by simp)
    | exc e => exact absurd (g (by simp)).1 (by simp)
  intro t
  induction t with
  | seq a b iha ihb =>
    intro h; simp only [Ctl, Bool.and_eq_true] at h; simp only [hoist]; exact seq _ _ (iha h.1) (ihb h.2)
  | ite cnd a b iha ihb =>
    intro h; simp only [Ctl, Bool.and_eq_true] at h; simp only [hoist]; exact seq _ _ (iha h.1.2) (ihb h.2)
  | for_ x items b ih => intro h; simp only [Ctl, Bool.and_eq_true] at h; simp only [hoist]; exact ih h.2
  | while_ m b ih => intro h; simp only [Ctl] at h; simp only [hoist]; exact ih h
  | try_ a b iha ihb =>
    intro h; simp only [Ctl, Bool.and_eq_true] at h; simp only [hoist]; exact seq _ _ (iha h.1) (ihb h.2)
  | def_ _ _ _ _ => intro h; simp [Ctl] at h
  | block _ _ _ _ => intro h; simp [Ctl] at h
  | call _ _ _ => intro h; simp [Ctl] at h
  | include_ _ => intro h; simp [Ctl] at h
  | _ => intro _; simp only [hoist]; exact skip

theorem exec_zero (c : Cfg) (s : Stmt) (l : Loc) (σ : St) : exec c 0 s l σ = (.timeout, l, σ) := by rw [exec]

theorem exec_pos (c : Cfg) {n : Nat} {s : Stmt} {l : Loc} {σ : St} {o l' σ'} (he : exec c n s l σ = (o, l', σ'))
    (ho : o ≠ .timeout) : ∃ m, n = m + 1 := by
  rcases n with _ | m
  · rw [exec_zero] at he; simp only [Prod.mk.injEq] at he; exact absurd he.1.symm ho
  · exact ⟨m, rfl⟩

theorem exec_prim (c : Cfg) (n : Nat) (p : Prim) (l : Loc) (σ : St) :
    exec c (n + 1) (.prim p) l σ = execPrim p l σ := by simp only [exec]

theorem exec_seq_inv (c : Cfg) {n : Nat} {a b : Stmt} {l : Loc} {σ : St} {o l' σ'}
    (he : exec c (n + 1) (.seq a b) l σ = (o, l', σ')) :
    ∃ o1 l1 σ1, exec c n a l σ = (o1, l1, σ1) ∧
      ((o1 = .normal ∧ exec c n b l1 σ1 = (o, l', σ')) ∨ (o1 ≠ .normal ∧ o = o1 ∧ l' = l1 ∧ σ' = σ1)) := by
  simp only [exec] at he
  generalize hx : exec c n a l σ = y at he
  obtain ⟨o1, l1, σ1⟩ := y
  refine ⟨o1, l1, σ1, rfl, ?_⟩
  cases o1 <;> simp only [Prod.mk.injEq] at he <;>
    first
    | exact .inl ⟨rfl, he⟩
    | (obtain ⟨rfl, rfl, rfl⟩ := he; exact .inr ⟨by simp, rfl, rfl, rfl⟩)

theorem exec_tryFinally_inv (c : Cfg) {n : Nat} {b f : Stmt} {l : Loc} {σ : St} {o l' σ'}
    (he : exec c (n + 1) (.tryFinally b f) l σ = (o, l', σ')) (ho : o ≠ .timeout) :
    ∃ o1 l1 σ1 o2, exec c n b l σ = (o1, l1, σ1) ∧ o1 ≠ .timeout ∧ exec c n f l1 σ1 = (o2, l', σ') ∧
      ((o2 = .normal ∧ o = o1) ∨ (o2 ≠ .normal ∧ o = o2)) := by
  simp only [exec] at he
  generalize hx : exec c n b l σ = y at he
  obtain ⟨o1, l1, σ1⟩ := y
  have hto : o1 ≠ .timeout := by
    rintro rfl
    simp only [Prod.mk.injEq] at he
    exact ho he.1.symm
  cases o1 <;> simp only at he <;> (try exact absurd rfl hto) <;>
  ( generalize hy : exec c n f l1 σ1 = z at he
    obtain ⟨o2, l2, σ2⟩ := z
    cases o2 <;> simp only [Prod.mk.injEq] at he <;> obtain ⟨rfl, rfl, rfl⟩ := he <;>
      first
      | exact ⟨_, _, _, _, rfl, hto, hy, .inl ⟨rfl, rfl⟩⟩
      | exact ⟨_, _, _, _, rfl, hto, hy, .inr ⟨Outcome.noConfusion, rfl⟩⟩ )

/-- a prologue that does nothing, `__M_writer = context.writer()`, then `r` -/
theorem exec_inner_eq (c : Cfg) {H R : Stmt}
    (hH : ∀ n l σ o l' σ', exec c n H l σ = (o, l', σ') → o ≠ .timeout → o = .normal ∧ l' = l ∧ σ' = σ)
    {n : Nat} {l : Loc} {σ : St} {i top rest} (hb : σ.bufs = (i, top) :: rest) {o l' σ'}
    (he : exec c n (.seq (.seq H (.prim .getWriter)) R) l σ = (o, l', σ')) (ho : o ≠ .timeout) :
    ∃ m, exec c m R { l with writer := i } σ = (o, l', σ') := by
  obtain ⟨n1, rfl⟩ := exec_pos c he ho
  obtain ⟨o1, l1, σ1, h1, hcase⟩ := exec_seq_inv c he
  have hpro : o1 ≠ .timeout → o1 = .normal ∧ l1 = { l with writer := i } ∧ σ1 = σ := by
    intro hto
    obtain ⟨n2, rfl⟩ := exec_pos c h1 hto
    obtain ⟨oh, lh, σh, h2, hc2⟩ := exec_seq_inv c h1
    rcases hc2 with ⟨rfl, h3⟩ | ⟨hne, rfl, rfl, rfl⟩
    · obtain ⟨_, rfl, rfl⟩ := hH n2 l σ _ lh σh h2 (by simp)
      obtain ⟨n3, rfl⟩ := exec_pos c h3 hto
      rw [exec_prim] at h3
      simp only [execPrim, hb, Prod.mk.injEq] at h3
      obtain ⟨rfl, rfl, rfl⟩ := h3
      exact ⟨rfl, rfl, rfl⟩
    · exact absurd (hH n2 l σ _ _ _ h2 hto).1 hne
  rcases hcase with ⟨rfl, h3⟩ | ⟨hne, rfl, rfl, rfl⟩
  · obtain ⟨_, rfl, rfl⟩ := hpro (by simp)
    exact ⟨n1, h3⟩
  · exact absurd (hpro ho).1 hne

/-- `push_frame; try: b finally: pop_frame` -/
theorem exec_plain_eq (c : Cfg) {B : Stmt} {n : Nat} {l : Loc} {σ : St} {o l' σ'}
    (he : exec c n (.seq (.prim .pushFrame) (.tryFinally B (.prim .popFrame))) l σ = (o, l', σ')) (ho : o ≠ .timeout) :
    ∃ m o1 l1 σ1, exec c m B { l with caller := σ.next } { σ with frames := σ.next :: σ.frames, next := [] } = (o1, l1, σ1) ∧
      o1 ≠ .timeout ∧
      (∀ f fr, σ1.frames = f :: fr → o = o1 ∧ l' = l1 ∧ σ' = { σ1 with frames := fr, next := f }) := by
  obtain ⟨n1, rfl⟩ := exec_pos c he ho
  obtain ⟨o0, l0, σ0, h0, hcase⟩ := exec_seq_inv c he
  have hpush : o0 ≠ .timeout → o0 = .normal ∧ l0 = { l with caller := σ.next } ∧
      σ0 = { σ with frames := σ.next :: σ.frames, next := [] } := by
    intro hto
    obtain ⟨n2, rfl⟩ := exec_pos c h0 hto
    rw [exec_prim] at h0
    simp only [execPrim, Prod.mk.injEq] at h0
    obtain ⟨rfl, rfl, rfl⟩ := h0
    exact ⟨rfl, rfl, rfl⟩
  rcases hcase with ⟨rfl, h1⟩ | ⟨hne, rfl, rfl, rfl⟩
  · obtain ⟨_, rfl, rfl⟩ := hpush (by simp)
    obtain ⟨n2, rfl⟩ := exec_pos c h1 ho
    obtain ⟨o1, l1, σ1, o2, hb1, hto1, hf1, hc⟩ := exec_tryFinally_inv c h1 ho
    refine ⟨n2, o1, l1, σ1, hb1, hto1, fun f fr hf => ?_⟩
    have hpos : ∃ m, n2 = m + 1 := by
      rcases n2 with _ | m
      · rw [exec_zero] at hb1; simp only [Prod.mk.injEq] at hb1; exact absurd hb1.1.symm hto1
      · exact ⟨m, rfl⟩
    obtain ⟨n3, rfl⟩ := hpos
    rw [exec_prim] at hf1
    simp only [execPrim, hf, Prod.mk.injEq] at hf1
    obtain ⟨rfl, rfl, rfl⟩ := hf1
    rcases hc with ⟨_, rfl⟩ | ⟨h, _⟩
    · exact ⟨rfl, rfl, rfl⟩
    · exact absurd rfl h
  · exact absurd (hpush ho).1 hne

/-- the environment `Spec.sinvoke` builds for the body of template 0 -/
def mainEnv : Spec.Env := { vars := [], defs := [], caller := [], loops := [], nb := 1, nf := 1, mod := 0 }

/-- `render_body` of a control-fragment template, from the initial state -/
theorem main_exec (c : Cfg) (C : Spec.Cfg) (hc : CfgOK c) (hk : C.k = c.k) (t : Tmpl) (hctl : Ctl t = true) (n : Nat)
    (l : Loc) (hl : LocOK l) (hv : l.vars = []) (o : Outcome) (l' : Loc) (σ' : St)
    (he : exec c n (codegen t) l St.init = (o, l', σ')) (ho : o ≠ .timeout) :
    ∃ out vars' oS, σ'.bufs = [(0, out)] ∧ σ'.loops = [] ∧ σ'.frames = [] ∧ σ'.next = [] ∧
      Ev (fun m => Spec.snodes C m t mainEnv 0) ⟨oS, out, σ'.cnt, vars'⟩ ∧
      ((oS = .normal ∨ oS = .ret) ∧ (∃ v, o = .ret v) ∨ (∃ e, oS = .exc e ∧ o = .exc e) ∨ (oS = .brk ∧ o = .brk) ∨
        (oS = .cont ∧ o = .cont)) := by
  have hshape : codegen t = .seq (.prim .pushFrame)
      (.tryFinally (.seq (.seq (hoist ⟨true, usesCaller t, false, refsLoop t⟩ t) (.prim .getWriter))
                         (.seq (stmts ⟨true, usesCaller t, false, refsLoop t⟩ t) (.ret emptyStr))) (.prim .popFrame)) := by
    simp [codegen, renderCallable, defShape, noFlags]
  rw [hshape] at he
  generalize hsc : (⟨true, usesCaller t, false, refsLoop t⟩ : Scope) = sc at he
  have hlo : LoopOK sc t := by
    subst hsc
    unfold LoopOK
    rw [ctl_mentions t hctl]
    cases refsLoop t <;> simp
  obtain ⟨m1, o1, l1, σ1, hB, hto1, hpop⟩ := exec_plain_eq c he ho
  have hσ0 : StOK { St.init with frames := St.init.next :: St.init.frames, next := [] } :=
    ⟨fun f hf => by simp only [St.init, List.mem_singleton] at hf; subst hf; exact NSOK_nil, NSOK_nil⟩
  obtain ⟨m2, hR2⟩ := exec_inner_eq c (ctl_hoist c sc t hctl) (i := 0) (top := []) (rest := []) rfl hB hto1
  -- the statements of the template, then `return ''`
  obtain ⟨m3, rfl⟩ := exec_pos c hR2 hto1
  obtain ⟨o2, l2, σ2, hS, hcase⟩ := exec_seq_inv c hR2
  have hl2 : LocOK { ({ l with caller := St.init.next } : Loc) with writer := 0 } := ⟨hl.funs, NSOK_nil, hl.lexc⟩
  have hR : Rel { ({ l with caller := St.init.next } : Loc) with writer := 0 }
      { St.init with frames := St.init.next :: St.init.frames, next := [] } mainEnv :=
    ⟨fun x => by simp [hv, mainEnv, lookup], rfl, rfl, rfl, rfl⟩
  have h2 : o2 ≠ .timeout := by
    rcases hcase with ⟨rfl, _⟩ | ⟨_, rfl, _, _⟩
    · simp
    · exact hto1
  obtain ⟨out, v2, hb2, ev2, _⟩ := (ref_all c C hc hk m3).stmt t sc _ _ mainEnv 0 [] [] o2 l2 σ2 hctl hlo hR hl2 hσ0
    rfl rfl hS h2
  obtain ⟨bb, _, _⟩ := (all_good c hc m3).exec _ _ _ 0 [] [] ((emits t).stmts sc) hl2 hσ0 rfl rfl o2 l2 σ2 hS h2
  simp only [List.nil_append] at hb2
  have ev2' : Ev (fun m => Spec.snodes C m t mainEnv 0) ⟨conv o2, out, σ2.cnt, v2⟩ := ev2
  -- after the statements: frames = [[]]; the `finally` pops it
  have fin : ∀ (σ3 : St) (o3 : Outcome), σ3.bufs = [(0, out)] → σ3.loops = [] → σ3.frames = [[]] → σ3.cnt = σ2.cnt →
      o1 = o3 → σ1 = σ3 →
      ((conv o2 = .normal ∨ conv o2 = .ret) ∧ (∃ v, o3 = .ret v) ∨ (∃ e, conv o2 = .exc e ∧ o3 = .exc e) ∨
        (conv o2 = .brk ∧ o3 = .brk) ∨ (conv o2 = .cont ∧ o3 = .cont)) →
      ∃ out vars' oS, σ'.bufs = [(0, out)] ∧ σ'.loops = [] ∧ σ'.frames = [] ∧ σ'.next = [] ∧
        Ev (fun m => Spec.snodes C m t mainEnv 0) ⟨oS, out, σ'.cnt, vars'⟩ ∧
        ((oS = .normal ∨ oS = .ret) ∧ (∃ v, o = .ret v) ∨ (∃ e, oS = .exc e ∧ o = .exc e) ∨ (oS = .brk ∧ o = .brk) ∨
          (oS = .cont ∧ o = .cont)) := by
    rintro σ3 o3 hb3 hl3 hf3 hc3 rfl rfl hcs
    obtain ⟨rfl, _, rfl⟩ := hpop [] [] hf3
    exact ⟨out, v2, conv o2, hb3, hl3, rfl, rfl, by rw [show ({ σ1 with frames := [], next := [] } : St).cnt = σ2.cnt from hc3]; exact ev2', hcs⟩
  rcases hcase with ⟨rfl, hret⟩ | ⟨hne, rfl, rfl, rfl⟩
  · -- the statements ended normally: `return ''`
    obtain ⟨m4, rfl⟩ := exec_pos c hret hto1
    simp only [exec, emptyStr] at hret
    rcases m4 with _ | m5
    · simp only [eval, Prod.mk.injEq] at hret; exact absurd hret.1.symm hto1
    simp only [eval, Prod.mk.injEq] at hret
    obtain ⟨rfl, rfl, rfl⟩ := hret
    exact fin _ _ hb2 bb.loops bb.frames rfl rfl rfl (.inl ⟨.inl rfl, _, rfl⟩)
  · refine fin _ _ hb2 bb.loops bb.frames rfl rfl rfl ?_
    cases o1 with
    | normal => exact absurd rfl hne
    | timeout => exact absurd rfl hto1
    | ret v => exact .inl ⟨.inr rfl, v, rfl⟩
    | brk => exact .inr (.inr (.inl ⟨rfl, rfl⟩))
    | cont => exact .inr (.inr (.inr ⟨rfl, rfl⟩))
    | exc e => exact .inr (.inl ⟨e, rfl, rfl⟩)

/-- same kind of result (the value a render callable returns is discarded by `_exec_template`) -/
def SameKind : VRes → Spec.SV → Prop
  | .val _, .val _ => True
  | .exc e, .exc e' => e = e'
  | .timeout, .timeout => True
  | _, _ => False

/-- what `Spec.sinvoke` makes of the outcome of a plain callable's nodes -/
def mainRes : Spec.SOut → Spec.SV
  | .normal => .val []
  | .ret => .val []
  | .exc e => .exc e
  | .brk => .exc excSyntax
  | .cont => .exc excSyntax
  | .timeout => .timeout

theorem sinvoke_main (C : Spec.Cfg) (t : Tmpl) (hctl : Ctl t = true) (m : Nat) (oS : Spec.SOut) (out : Str) (cn : Nat)
    (v : List (Name × Str)) (h : Spec.snodes C m t mainEnv 0 = ⟨oS, out, cn, v⟩) :
    Spec.sinvoke C (m + 1) ⟨[], noFlags, t, .main, 0⟩ [] [] Spec.Env.init [] 0 = ⟨mainRes oS, out, cn⟩ := by
  have henv : ∀ E : Spec.Env, E = mainEnv → Spec.snodes C m t E 0 = ⟨oS, out, cn, v⟩ := by rintro E rfl; exact h
  simp only [Spec.sinvoke, zipArgs, noFlags, Spec.isBuffering, Bool.false_eq_true, if_false, Bool.or_false,
    List.isEmpty_nil, Bool.not_true]
  rw [henv _ (by simp [ctl_declared true 0 t hctl, Spec.Env.init, mainEnv])]
  cases oS <;> simp [mainRes, Spec.filterContent]

theorem body_refines_ctl (c : Cfg) (C : Spec.Cfg) (hc : CfgOK c) (hk : C.k = c.k) (t : Tmpl) (ieh : Option Bool)
    (own : Bool) (rest : List (Tmpl × Option Bool)) (hC : C.ts = (t, ieh) :: rest) (hctl : Ctl t = true) (fuel : Nat)
    (r : VRes) (σ' : St)
    (he : invoke c fuel ⟨⟨[], ⟨own, false, false⟩, codegen t⟩, [], 0⟩ [] (Loc.init 0) St.init = (r, σ')) (hr : r ≠ .timeout) :
    ∃ out, σ'.bufs = [(0, out)] ∧ σ'.frames = [] ∧ σ'.next = [] ∧ σ'.loops = [] ∧
      ∃ m0, ∀ m, m0 ≤ m → ∃ sv, Spec.renderBody C m = ⟨sv, out, σ'.cnt⟩ ∧ SameKind r sv := by
  rcases fuel with _ | f
  · simp only [invoke, Prod.mk.injEq] at he; exact absurd he.1.symm hr
  have hinit : (if own = true then { St.init with loops := [] } else St.init) = St.init := by cases own <;> rfl
  simp only [invoke, zipArgs, Bool.false_eq_true, if_false, hinit] at he
  generalize hx : exec c f (codegen t) _ St.init = y at he
  obtain ⟨o, l1, σ2⟩ := y
  have hto : o ≠ .timeout := by
    rintro rfl
    simp only [Prod.mk.injEq] at he
    exact hr he.1.symm
  obtain ⟨out, v2, oS, hb, hlp, hfr, hnx, ⟨m1, ev⟩, hcase⟩ := main_exec c C hc hk t hctl f _
    ⟨fun p hp => (by cases hp), NSOK_nil, NSOK_nil⟩ rfl o l1 σ2 hx hto
  have hσ3 : (if own = true then { σ2 with loops := St.init.loops } else σ2) = σ2 := by
    cases own
    · rfl
    · cases σ2; simp only [St.init] at hlp ⊢; simp_all
  rw [hσ3] at he
  have spec : ∀ m, m1 + 1 ≤ m → Spec.renderBody C m = ⟨mainRes oS, out, σ2.cnt⟩ := by
    intro m hm
    obtain ⟨m, rfl⟩ := Nat.exists_eq_add_of_le' (by omega : 1 ≤ m)
    simp only [Spec.renderBody, hC, List.getElem?_cons_zero]
    exact sinvoke_main C t hctl m oS out σ2.cnt v2 (ev m (by omega))
  have done : ∀ sv, mainRes oS = sv → σ' = σ2 → SameKind r sv →
      ∃ out, σ'.bufs = [(0, out)] ∧ σ'.frames = [] ∧ σ'.next = [] ∧ σ'.loops = [] ∧
        ∃ m0, ∀ m, m0 ≤ m → ∃ sv, Spec.renderBody C m = ⟨sv, out, σ'.cnt⟩ ∧ SameKind r sv := by
    rintro sv rfl rfl hs
    exact ⟨out, hb, hfr, hnx, hlp, m1 + 1, fun m hm => ⟨_, spec m hm, hs⟩⟩
  rcases hcase with ⟨hos, v, rfl⟩ | ⟨e, rfl, rfl⟩ | ⟨rfl, rfl⟩ | ⟨rfl, rfl⟩
  · simp only [decoPost, Bool.false_eq_true, if_false, Prod.mk.injEq] at he
    obtain ⟨rfl, rfl⟩ := he
    rcases hos with rfl | rfl <;> exact done _ rfl rfl trivial
  · simp only [Prod.mk.injEq] at he; obtain ⟨rfl, rfl⟩ := he; exact done _ rfl rfl rfl
  · simp only [Prod.mk.injEq] at he; obtain ⟨rfl, rfl⟩ := he; exact done _ rfl rfl rfl
  · simp only [Prod.mk.injEq] at he; obtain ⟨rfl, rfl⟩ := he; exact done _ rfl rfl rfl

/-- `Template.render()` of a control-fragment template agrees with `Spec.render`, for every crash point and every
    combination of `error_handler` / `format_exceptions` -/
theorem render_refines_ctl (ts : List (Tmpl × Option Bool)) (k : Nat) (t : Tmpl) (ieh : Option Bool)
    (hctl : Ctl t = true) (o : Opts) (fuel : Nat)
    (hr : (render (progOf ((t, ieh) :: ts) k) o fuel).1 ≠ .timeout) :
    ∃ m0, ∀ m, m0 ≤ m →
      (Spec.render ⟨(t, ieh) :: ts, k⟩ o m).2 = (render (progOf ((t, ieh) :: ts) k) o fuel).2.1 ∧
      SameKind (render (progOf ((t, ieh) :: ts) k) o fuel).1 (Spec.render ⟨(t, ieh) :: ts, k⟩ o m).1 := by
  have hc := codegen_cfg_ok ((t, ieh) :: ts) k
  generalize hb : runBody (progOf ((t, ieh) :: ts) k) fuel St.init = b at hr
  obtain ⟨rb, σb⟩ := b
  have hb' : invoke (progOf ((t, ieh) :: ts) k) fuel ⟨⟨[], ⟨refsLoop t, false, false⟩, codegen t⟩, [], 0⟩ []
      (Loc.init 0) St.init = (rb, σb) := by
    simpa [runBody, progOf, codegenModule] using hb
  have key : rb ≠ .timeout → ∃ out, σb.bufs = [(0, out)] ∧
      ∃ m0, ∀ m, m0 ≤ m → ∃ sv, Spec.renderBody ⟨(t, ieh) :: ts, k⟩ m = ⟨sv, out, σb.cnt⟩ ∧ SameKind rb sv := by
    intro h
    obtain ⟨out, h1, _, _, _, h5⟩ := body_refines_ctl (progOf ((t, ieh) :: ts) k) ⟨(t, ieh) :: ts, k⟩ hc rfl t ieh _ ts rfl
      hctl fuel rb σb hb' h
    exact ⟨out, h1, h5⟩
  obtain ⟨eh, fe⟩ := o
  have hrb : rb ≠ .timeout := by
    rintro rfl
    apply hr
    simp only [render, execTemplate, hb]
    split <;> rfl
  obtain ⟨out, hbufs, m0, hspec⟩ := key hrb
  refine ⟨m0, fun m hm => ?_⟩
  obtain ⟨sv, hsv, hkind⟩ := hspec m hm
  simp only [render, execTemplate, hb, Spec.render, hsv]
  cases rb with
  | timeout => exact absurd rfl hrb
  | val v =>
    cases sv with
    | val x => rcases eh with _ | b <;> cases fe <;> simp [hbufs, SameKind]
    | exc e => exact absurd hkind (by simp [SameKind])
    | timeout => exact absurd hkind (by simp [SameKind])
  | exc e =>
    cases sv with
    | exc e' =>
      have : e = e' := hkind
      subst this
      rcases eh with _ | b
      · cases fe <;> simp [hbufs, SameKind]
      · cases b <;> cases fe <;> simp [hbufs, SameKind]
    | val x => exact absurd hkind (by simp [SameKind])
    | timeout => exact absurd hkind (by simp [SameKind])

end MakoModel.Codegen
