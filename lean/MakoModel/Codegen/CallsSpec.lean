import MakoModel.Codegen.CallsRel
/-!
# C05 refinement – the specification side of a call

`Spec.sinvoke` cut into the pieces the proof of `invoke` follows: argument binding, the decorator's first
evaluation point, the environment of the callable's content (`innerEnv`), what becomes of the content's result
(`coreRes`: an exception drops a buffering callable's text; `filter=` is applied to the whole content, once;
a buffered callable returns the content, any other writes it), the decorator's second evaluation point (`decoS`).
-/
namespace MakoModel.Codegen.Calls
open MakoModel.Target MakoModel.Codegen

/-- what `invoke` makes of the outcome of a callable's statements -/
def convO : Outcome → Spec.SV
  | .ret v => .val v
  | .normal => .val ['N', 'o', 'n', 'e']
  | .exc e => .exc e
  | .brk => .exc excSyntax
  | .cont => .exc excSyntax
  | .timeout => .timeout

/-- the environment `Spec.sinvoke` renders the content of a callable in -/
def innerEnv (fn : Spec.SFun) (lexc : Spec.SNS) (bound : List (Name × Str)) (env : Spec.Env) (pend : Spec.SNS) : Spec.Env :=
  { vars := bound ++ env.vars,
    defs := Spec.declared (fn.kind == .main) fn.mod fn.body ++ env.defs,
    caller := match fn.kind with
      | .main => pend
      | .def_ => pend
      | .block => []
      | .body => lexc,
    loops := match fn.kind with
      | .block => env.loops
      | _ => [],
    nb := env.nb + (if Spec.isBuffering fn.fl then 1 else 0),
    nf := env.nf + (if fn.kind == .body then 0 else 1),
    mod := fn.mod }

/-- the result of the content, before the decorator's second evaluation point -/
def coreRes (k : Nat) (fl : DefFlags) (R : Spec.SR) : Spec.SE :=
  match R.o with
  | .timeout => ⟨.timeout, R.out, R.cnt⟩
  | .exc e => ⟨.exc e, if Spec.isBuffering fl then [] else R.out, R.cnt⟩
  | .brk => ⟨.exc excSyntax, if Spec.isBuffering fl then [] else R.out, R.cnt⟩
  | .cont => ⟨.exc excSyntax, if Spec.isBuffering fl then [] else R.out, R.cnt⟩
  | _ =>
    match Spec.filterContent k fl.filters R.out R.cnt with
    | (.exc e, c2) => ⟨.exc e, [], c2⟩
    | (.timeout, c2) => ⟨.timeout, [], c2⟩
    | (.val content, c2) => ⟨.val (if fl.buffered then content else []), if fl.buffered then [] else content, c2⟩

/-- the decorator's second evaluation point -/
def decoS (k : Nat) (fl : DefFlags) (x : Spec.SE) : Spec.SE :=
  match x with
  | ⟨.val value, side, c2⟩ =>
    if fl.deco then
      match Spec.tickS k c2 with
      | (true, c3) => ⟨.exc excBoom, if fl.cached then [] else side, c3⟩
      | (false, c3) => ⟨.val value, side, c3⟩
    else ⟨.val value, side, c2⟩
  | x => x

theorem sinvoke_succ (C : Spec.Cfg) (n : Nat) (fn : Spec.SFun) (lexc : Spec.SNS) (vs : List Str) (env : Spec.Env)
    (pend : Spec.SNS) (cnt : Nat) :
    Spec.sinvoke C (n + 1) fn lexc vs env pend cnt =
      match zipArgs fn.params vs with
      | none => ⟨.exc excArity, [], cnt⟩
      | some bound =>
        match (if fn.fl.deco then Spec.tickS C.k cnt else (false, cnt)) with
        | (true, c0) => ⟨.exc excBoom, [], c0⟩
        | (false, c0) =>
          decoS C.k fn.fl (coreRes C.k fn.fl (Spec.snodes C n fn.body (innerEnv fn lexc bound env pend) c0)) := by
  cases hz : zipArgs fn.params vs with
  | none => simp [Spec.sinvoke, hz]
  | some bound =>
    simp only [Spec.sinvoke, hz]
    generalize (if fn.fl.deco = true then Spec.tickS C.k cnt else (false, cnt)) = pre
    obtain ⟨pb, c0⟩ := pre
    cases pb with
    | true => rfl
    | false =>
      simp only [innerEnv]
      generalize Spec.snodes C n fn.body _ c0 = R
      obtain ⟨o, out, c1, v⟩ := R
      cases o <;> simp only [coreRes] <;> (try rfl) <;>
        ( generalize Spec.filterContent C.k fn.fl.filters out c1 = fc
          obtain ⟨fr, c2⟩ := fc
          cases fr <;> first | rfl | simp [decoS] )

/-- the decorator's second evaluation point: target and specification agree -/
theorem decoPost_decoS {k : Nat} {fl : DefFlags} {σ3 σ' : St} {v side : Str} {r : VRes} (hc : fl.cached = false)
    (h : decoPost k fl.deco σ3 v = (r, σ')) :
    σ' = { σ3 with cnt := σ'.cnt } ∧ decoS k fl ⟨.val v, side, σ3.cnt⟩ = ⟨convV r, side, σ'.cnt⟩ := by
  simp only [decoPost] at h
  by_cases hd : fl.deco = true
  · simp only [hd, if_true, tick] at h
    by_cases hk : σ3.cnt = k
    · simp only [hk, beq_self_eq_true, Prod.mk.injEq] at h
      obtain ⟨rfl, rfl⟩ := h
      exact ⟨rfl, by simp [decoS, hd, Spec.tickS, hk, hc, convV]⟩
    · have hk' : (σ3.cnt == k) = false := by simpa using hk
      simp only [hk', Prod.mk.injEq] at h
      obtain ⟨rfl, rfl⟩ := h
      exact ⟨rfl, by simp [decoS, hd, Spec.tickS, hk', convV]⟩
  · simp only [hd, Bool.false_eq_true, if_false, Prod.mk.injEq] at h
    obtain ⟨rfl, rfl⟩ := h
    exact ⟨rfl, by simp [decoS, hd, convV]⟩

theorem decoS_exc (k : Nat) (fl : DefFlags) (e : Nat) (o : Str) (c : Nat) : decoS k fl ⟨.exc e, o, c⟩ = ⟨.exc e, o, c⟩ := rfl

/-! ## a scope without `<% return %>` never ends with outcome `ret` -/

theorem snodes_noret (C : Spec.Cfg) : ∀ (m : Nat),
    (∀ (t : Tmpl) (E : Spec.Env) (cnt : Nat), NoRet t = true → (Spec.snodes C m t E cnt).o ≠ .ret) ∧
    (∀ (x : Name) (vs : List Str) (body : Tmpl) (ctx : Bool) (i : Nat) (E : Spec.Env) (cnt : Nat), NoRet body = true →
      (Spec.siter C m x vs body ctx i E cnt).o ≠ .ret) := by
  intro m
  induction m with
  | zero => exact ⟨fun t E cnt _ => by simp [Spec.snodes], fun x vs body ctx i E cnt _ => by simp [Spec.siter]⟩
  | succ m ih =>
    obtain ⟨ihn, ihi⟩ := ih
    refine ⟨?_, ?_⟩
    · intro t E cnt h
      cases t with
      | nil => simp [Spec.snodes]
      | text s => simp [Spec.snodes]
      | brk => simp [Spec.snodes]
      | cont => simp [Spec.snodes]
      | ret => simp [NoRet] at h
      | def_ _ _ _ _ => simp [Spec.snodes]
      | seq a b =>
        simp only [NoRet, Bool.and_eq_true] at h
        simp only [Spec.snodes]
        have ga := ihn a E cnt h.1
        generalize Spec.snodes C m a E cnt = ra at ga
        obtain ⟨oa, o1, c1, v1⟩ := ra
        cases oa <;> simp only [] at ga ⊢ <;> first | exact ga | exact ihn b _ c1 h.2 | simp
      | expr e fs =>
        simp only [Spec.snodes]
        generalize Spec.seval C m _ E [] cnt = re
        obtain ⟨r, o, c1⟩ := re
        cases r <;> simp
      | ite cnd a b =>
        simp only [NoRet, Bool.and_eq_true] at h
        simp only [Spec.snodes]
        generalize Spec.seval C m cnd E [] cnt = re
        obtain ⟨r, o, c1⟩ := re
        cases r with
        | val v =>
          simp only []
          split
          · exact ihn b E c1 h.2
          · exact ihn a E c1 h.1
        | exc x => simp
        | timeout => simp
      | for_ x items body =>
        simp only [NoRet] at h
        simp only [Spec.snodes]
        generalize Spec.sargs C m items E [] cnt = ra
        obtain ⟨r, o, c1⟩ := ra
        cases r with
        | vals vs => simp only []; exact ihi x vs body _ 0 E c1 h
        | exc x => simp
        | timeout => simp
      | while_ wm body =>
        simp only [NoRet] at h
        simp only [Spec.snodes]
        generalize Spec.tickS C.k cnt = tk
        obtain ⟨tb, c1⟩ := tk
        cases tb with
        | true => simp
        | false =>
          simp only []
          split
          · have gb := ihn body E c1 h
            generalize Spec.snodes C m body E c1 = rb at gb
            obtain ⟨ob, o1, c2, v2⟩ := rb
            cases ob <;> simp only [] at gb ⊢ <;>
              first
              | exact gb
              | exact ihn (.while_ wm body) _ c2 (by simpa [NoRet] using h)
              | simp
          · simp
      | try_ a b =>
        simp only [NoRet, Bool.and_eq_true] at h
        simp only [Spec.snodes]
        have ga := ihn a E cnt h.1
        generalize Spec.snodes C m a E cnt = ra at ga
        obtain ⟨oa, o1, c1, v1⟩ := ra
        cases oa <;> simp only [] at ga ⊢ <;> first | exact ga | exact ihn b _ c1 h.2 | simp
      | block name anon fl body =>
        simp only [Spec.snodes]
        split
        · simp
        · generalize Spec.sinvoke C m _ [] [] E [] cnt = re
          obtain ⟨r, o, c1⟩ := re
          cases r <;> simp
      | call e args body =>
        simp only [Spec.snodes]
        generalize Spec.seval C m e E _ cnt = re
        obtain ⟨r, o, c1⟩ := re
        cases r <;> simp
      | textTag fs s =>
        simp only [Spec.snodes]
        generalize Spec.filterContent C.k fs s cnt = fc
        obtain ⟨r, c1⟩ := fc
        cases r <;> simp
      | include_ j =>
        simp only [Spec.snodes]
        generalize Spec.sinclude C m j E cnt = re
        obtain ⟨r, o, c1⟩ := re
        cases r <;> simp
    · intro x vs body ctx i E cnt h
      cases vs with
      | nil => simp [Spec.siter]
      | cons v vs =>
        simp only [Spec.siter]
        have gb := ihn body { E with vars := (x, v) :: E.vars, loops := if ctx then i :: E.loops else E.loops } cnt h
        generalize Spec.snodes C m body _ cnt = rb at gb
        obtain ⟨ob, o1, c1, v1⟩ := rb
        cases ob <;> simp only [] at gb ⊢ <;>
          first
          | exact gb
          | exact ihi x vs body ctx (i + 1) _ c1 h
          | simp

end MakoModel.Codegen.Calls
