import MakoModel.Codegen.CallsSpec
import MakoModel.Codegen.CallsShape
import MakoModel.Codegen.CallsEval
import MakoModel.Codegen.CallsHoist
/-!
# C05 refinement – calling a callable

`invoke` of the code generated for a callable (`render_body`, a def with any of the flags
buffered / `filter=` / `decorator=`, the `body()` of a `<%call>`) does what `Spec.sinvoke` says for the callable
it was generated for:

* a plain def appends its content to the buffer that is on top **at the call** and returns `''`;
* a buffered def leaves that buffer alone and returns the content, after the `filter=` functions;
* a filtered def appends `filter(content)`, once, and returns `''`;
* an exception inside a buffering callable drops its content, inside a plain one keeps what was written;
* the caller stack, the loop stack and `nextcaller` are as before, whatever the exit path.
-/
namespace MakoModel.Codegen.Calls
open MakoModel.Target MakoModel.Codegen

variable (ts : List (Tmpl × Option Bool)) (k : Nat)

/-- the bookkeeping of `invoke` around the statements of a callable: argument binding, the decorator's two
    evaluation points, the callable's own `LoopStack` -/
theorem invoke_fin {params : List Name} {fl : DefFlags} {own lex : Bool} {B : Stmt} {clex : NS} {cmod : Nat}
    {sf : Spec.SFun} (hps : sf.params = params) (hfl : sf.fl = fl) (hc : fl.cached = false)
    {lexS : Spec.SNS} {vs : List Str} {l : Loc} {σ : St} {E : Spec.Env} {pend : Spec.SNS} {i : Nat} {top : Str}
    {rest : List (Nat × Str)} {r : VRes} {σ' : St} {n : Nat} (hb : σ.bufs = (i, top) :: rest)
    (he : invoke (progOf ts k) (n + 1) ⟨⟨params, ⟨own, fl.deco, lex⟩, B⟩, clex, cmod⟩ vs l σ = (r, σ'))
    (hr : r ≠ .timeout)
    (core : ∀ bound σ1 o l3 σ2, zipArgs params vs = some bound → σ1.bufs = σ.bufs → σ1.frames = σ.frames →
       σ1.next = σ.next → σ1.nextId = σ.nextId → (own = false → σ1.loops = σ.loops) →
       exec (progOf ts k) n B ⟨bound ++ l.vars, l.funs, l.writer, [], clex, clex, [], lex, cmod⟩ σ1 = (o, l3, σ2) →
       o ≠ .timeout →
       ∃ R, Ev (fun m => Spec.snodes ⟨ts, k⟩ m sf.body (innerEnv sf lexS bound E pend) σ1.cnt) R ∧
         σ2.bufs = (i, top ++ (coreRes k fl R).out) :: rest ∧ σ2.cnt = (coreRes k fl R).cnt ∧
         σ2.frames = σ1.frames ∧ σ2.loops = σ1.loops ∧ σ2.next = σ1.next ∧ convO o = (coreRes k fl R).r) :
    ∃ out, σ'.bufs = (i, top ++ out) :: rest ∧ Post σ σ' ∧
      Ev (fun m => Spec.sinvoke ⟨ts, k⟩ m sf lexS vs E pend σ.cnt) ⟨convV r, out, σ'.cnt⟩ := by
  subst hps; subst hfl
  simp only [invoke] at he
  cases hz : zipArgs sf.params vs with
  | none =>
    simp only [hz, Prod.mk.injEq] at he
    obtain ⟨rfl, rfl⟩ := he
    refine ⟨[], by simp [hb], Post.refl _, 1, fun m hm => ?_⟩
    obtain ⟨m, rfl⟩ := Nat.exists_eq_add_of_le' hm
    simp [sinvoke_succ, hz, convV]
  | some bound =>
    simp only [hz] at he
    generalize hpre : (if sf.fl.deco = true then tick (progOf ts k).k σ else (false, σ)) = pre at he
    obtain ⟨pb, σ0⟩ := pre
    have hp : σ0 = { σ with cnt := σ0.cnt } ∧
        (if sf.fl.deco = true then Spec.tickS k σ.cnt else (false, σ.cnt)) = (pb, σ0.cnt) := by
      by_cases hd : sf.fl.deco = true
      · simp only [hd, if_true, tick, pc_k, Prod.mk.injEq] at hpre
        obtain ⟨rfl, rfl⟩ := hpre
        simp [hd, Spec.tickS]
      · simp only [hd, Bool.false_eq_true, if_false, Prod.mk.injEq] at hpre
        obtain ⟨rfl, rfl⟩ := hpre
        simp [hd]
    obtain ⟨hσ0, hpS⟩ := hp
    cases pb with
    | true =>
      simp only [Prod.mk.injEq] at he
      obtain ⟨rfl, rfl⟩ := he
      refine ⟨[], by rw [hσ0]; simp [hb], by rw [hσ0]; exact ⟨rfl, rfl, rfl⟩, 1, fun m hm => ?_⟩
      obtain ⟨m, rfl⟩ := Nat.exists_eq_add_of_le' hm
      simp [sinvoke_succ, hz, hpS, convV]
    | false =>
      simp only at he
      generalize hσ1 : (if own = true then ({ σ0 with loops := [] } : St) else σ0) = σ1 at he
      have h1 : σ1.bufs = σ.bufs ∧ σ1.frames = σ.frames ∧ σ1.next = σ.next ∧ σ1.nextId = σ.nextId ∧
          σ1.cnt = σ0.cnt ∧ (own = false → σ1.loops = σ.loops) := by
        subst hσ1; rw [hσ0]; cases own <;> simp
      generalize hex : exec (progOf ts k) n B _ σ1 = x at he
      obtain ⟨o, l3, σ2⟩ := x
      simp only at he
      have hto : o ≠ .timeout := by
        rintro rfl
        simp only [Prod.mk.injEq] at he
        exact hr he.1.symm
      obtain ⟨R, ⟨m0, eR⟩, hb2, hc2, hf2, hl2, hn2, hconv⟩ :=
        core bound σ1 o l3 σ2 hz h1.1 h1.2.1 h1.2.2.1 h1.2.2.2.1 h1.2.2.2.2.2 hex hto
      generalize hσ3 : (if own = true then ({ σ2 with loops := σ0.loops } : St) else σ2) = σ3 at he
      have h3 : σ3.bufs = σ2.bufs ∧ σ3.frames = σ.frames ∧ σ3.next = σ.next ∧ σ3.cnt = σ2.cnt ∧ σ3.loops = σ.loops := by
        subst hσ3
        have hl0 : σ0.loops = σ.loops := by rw [hσ0]
        cases own with
        | true => exact ⟨rfl, hf2.trans h1.2.1, hn2.trans h1.2.2.1, rfl, hl0⟩
        | false => exact ⟨rfl, hf2.trans h1.2.1, hn2.trans h1.2.2.1, rfl, hl2.trans (h1.2.2.2.2.2 rfl)⟩
      have spec : ∀ m, m0 + 1 ≤ m →
          Spec.sinvoke ⟨ts, k⟩ m sf lexS vs E pend σ.cnt = decoS k sf.fl (coreRes k sf.fl R) := by
        intro m hm
        obtain ⟨m, rfl⟩ := Nat.exists_eq_add_of_le' (by omega : 1 ≤ m)
        have := eR m (by omega)
        simp only [h1.2.2.2.2.1] at this
        simp only [sinvoke_succ, hz, hpS, this]
      generalize hx : coreRes k sf.fl R = x at hb2 hc2 hconv spec
      obtain ⟨xr, xo, xc⟩ := x
      simp only at hb2 hc2 hconv
      have hb3 : σ3.bufs = (i, top ++ xo) :: rest := h3.1.trans hb2
      have fin_exc : ∀ e, xr = .exc e → (r, σ') = (VRes.exc e, σ3) →
          ∃ out, σ'.bufs = (i, top ++ out) :: rest ∧ Post σ σ' ∧
            Ev (fun m => Spec.sinvoke ⟨ts, k⟩ m sf lexS vs E pend σ.cnt) ⟨convV r, out, σ'.cnt⟩ := by
        intro e hxe heq
        simp only [Prod.mk.injEq] at heq
        obtain ⟨rfl, rfl⟩ := heq
        subst hxe
        refine ⟨xo, hb3, ⟨h3.2.1, h3.2.2.2.2, h3.2.2.1⟩, m0 + 1, fun m hm => ?_⟩
        show Spec.sinvoke ⟨ts, k⟩ m sf lexS vs E pend σ.cnt = _
        rw [spec m hm, decoS_exc, h3.2.2.2.1, hc2]
        rfl
      have fin_val : ∀ v, xr = .val v → decoPost k sf.fl.deco σ3 v = (r, σ') →
          ∃ out, σ'.bufs = (i, top ++ out) :: rest ∧ Post σ σ' ∧
            Ev (fun m => Spec.sinvoke ⟨ts, k⟩ m sf lexS vs E pend σ.cnt) ⟨convV r, out, σ'.cnt⟩ := by
        intro v hxv hd
        subst hxv
        obtain ⟨hs', hdec⟩ := decoPost_decoS (side := xo) hc hd
        refine ⟨xo, by rw [hs']; exact hb3, by rw [hs']; exact ⟨h3.2.1, h3.2.2.2.2, h3.2.2.1⟩, m0 + 1, fun m hm => ?_⟩
        show Spec.sinvoke ⟨ts, k⟩ m sf lexS vs E pend σ.cnt = _
        rw [spec m hm, ← hdec, h3.2.2.2.1, hc2]
      cases o with
      | timeout => exact absurd rfl hto
      | exc e => exact fin_exc e (by simpa [convO] using hconv.symm) he.symm
      | brk => exact fin_exc excSyntax (by simpa [convO] using hconv.symm) he.symm
      | cont => exact fin_exc excSyntax (by simpa [convO] using hconv.symm) he.symm
      | normal => exact fin_val _ (by simpa [convO] using hconv.symm) he
      | ret v => exact fin_val v (by simpa [convO] using hconv.symm) he

theorem lookup_bound {α} (x : Name) (bound a b : List (Name × α)) (h : lookup x a = lookup x b) :
    lookup x (bound ++ a) = lookup x (bound ++ b) := by
  rw [lookup_append, lookup_append, h]

/-- the state in which the statements of a def start, after `push_frame` (and `push_buffer`) and the prologue -/
theorem relc_def_start {l : Loc} {σ σS : St} {E : Spec.Env} {pend : Spec.SNS} (bound : List (Name × Str)) (clex : NS)
    (lex : Bool) (mod W extra : Nat) (iloops : List Nat) {newF : List (Name × Clo)} {newD : List (Name × Spec.SFun)}
    (hF : ClosRel newF newD) (hR : RelW l σ E) (hN : NSRel σ.next pend) (hfr : σS.frames = σ.next :: σ.frames)
    (hbl : σS.bufs.length = E.nb + extra) (hlo : ∃ base, σS.loops.map (·.index) = iloops ++ base) :
    RelC (!lex) ⟨bound ++ l.vars, newF ++ l.funs, W, [], σ.next, clex, [], lex, mod⟩ σS
      ⟨bound ++ E.vars, newD ++ E.defs, pend, iloops, E.nb + extra, E.nf + 1, mod⟩ := by
  refine ⟨fun x => lookup_bound x bound _ _ (hR.vars x), hlo, hbl, by simp [hfr, hR.nf],
    hF.append hR.funs, rfl, fun hcv => ?_, hN⟩
  have hlex : lex = false := by simpa using hcv
  subst hlex
  exact ⟨σ.next, by simp [callerView, hfr], hN⟩

/-- the state in which the statements of the `body()` of a `<%call>` start -/
theorem relc_body_start {l : Loc} {σ σS : St} {E : Spec.Env} {lexS : Spec.SNS} (bound : List (Name × Str)) (clex : NS)
    (mod W : Nat) {defs' : List (Name × Spec.SFun)} (hF : ClosRel l.funs defs') (hR : RelW l σ E)
    (hL : NSRel clex lexS) (hfr : σS.frames = σ.frames) (hbl : σS.bufs.length = E.nb) :
    RelC true ⟨bound ++ l.vars, l.funs, W, [], clex, clex, [], true, mod⟩ σS
      ⟨bound ++ E.vars, defs', lexS, [], E.nb, E.nf, mod⟩ :=
  ⟨fun x => lookup_bound x bound _ _ (hR.vars x), ⟨σS.loops.map (·.index), by simp⟩, hbl, by simp [hfr, hR.nf],
    hF, rfl, fun _ => ⟨clex, by simp [callerView], hL⟩, hL⟩

theorem rc_invoke (n : Nat) (ih : ∀ m, m < n + 1 → RC ts k m) : InvokeRef ts k (n + 1) := by
  intro clo sf lexS vs l σ E pend i top rest r σ' hfr hmod hbody hblockH hR hN hl hlex hσ hb he hr
  obtain ⟨fn, clex, cmod⟩ := clo
  simp only at hfr hmod hbody hblockH hlex
  -- running the statements of the callable, with less fuel
  have runS : ∀ (m : Nat), m < n → ∀ (s : Scope) (body : Tmpl) (bf cv cb : Bool) (lS : Loc) (σS : St) (iS : Nat)
      (topS : Str) (restS : List (Nat × Str)) (inner : Spec.Env) (oS : Outcome) (lS' : Loc) (σS' : St),
      Good s false bf cv cb body = true → RelC cv lS σS inner → σS.next = [] → LocOK lS → StOK σS →
      σS.bufs = (iS, topS) :: restS → lS.writer = iS →
      exec (progOf ts k) m (stmts s body) lS σS = (oS, lS', σS') → oS ≠ .timeout →
      ∃ out vars', σS'.bufs = (iS, topS ++ out) :: restS ∧
        Ev (fun m' => Spec.snodes ⟨ts, k⟩ m' body inner σS.cnt) ⟨conv oS, out, σS'.cnt, vars'⟩ ∧ RetE oS ∧
        σS'.frames = σS.frames ∧ σS'.loops = σS.loops ∧ σS'.next = [] := by
    intro m hm s body bf cv cb lS σS iS topS restS inner oS lS' σS' hg hRS hnS hlS hσS hbS hwS hS htoS
    obtain ⟨out, vars', h1, h2, _, _, h5⟩ := (ih m (by omega)).stmt body s false bf cv cb lS σS inner iS topS restS oS lS' σS'
      hg hRS hnS (fun h => by cases h) hlS hσS hbS hwS hS htoS
    obtain ⟨b, _, _⟩ := (all_good (progOf ts k) (codegen_cfg_ok ts k) m).exec _ lS σS iS topS restS
      ((emits body).stmts s) hlS hσS hbS hwS oS lS' σS' hS htoS
    exact ⟨out, vars', h1, h2, h5, b.frames, b.loops, by rw [b.next, hnS]⟩
  cases hfr with
  | def_ s ps fl body own lex mod kind hk hc hnd hg =>
    simp only at hmod hbody hblockH
    subst hmod
    refine invoke_fin ts k (sf := ⟨ps, fl, body, kind, cmod⟩) rfl rfl hc hb he hr ?_
    intro bound σ1 o l3 σ2 hz hb1 hf1 hn1 hid1 hlo1 hex hto
    have hσ1 : StOK σ1 := ⟨by rw [hf1]; exact hσ.frames, by rw [hn1]; exact hσ.next⟩
    -- the prologue: the closures of the scope
    have hlv : NSOK (cond lex clex []) := by cases lex <;> first | exact NSOK_nil | exact hlex
    have hkt : (kind == Spec.Kind.main) = s.top := by
      rcases hk with ⟨rfl, ht⟩ | ⟨rfl, ht, _⟩ | ⟨rfl, ht, _⟩ <;> rw [ht] <;> rfl
    have hndm : nodupB ((Spec.declared s.top cmod body).map (·.1)) = true := by
      rw [declared_names_mod]; exact hnd
    have hH := exec_hoist (progOf ts k) body s _ _ _ hg
    have hPeq : ∀ lx : Loc, lx.useLex = lex → lx.lexc = clex → lx.mod = cmod →
        hoistEff s body lx = { lx with funs := hoistClos (cond lex clex []) cmod s body ++ lx.funs } := by
      intro lx h1 h2 h3
      simp [hoistEff, lexOf, h1, h2, h3]
    have hFD : ClosRel (hoistClos (cond lex clex []) cmod s body) (Spec.declared s.top cmod body) :=
      closrel_of_x (hoist_closrel _ cmod body s _ _ _ hg hndm)
    have hFok := hoistClos_ok hlv cmod s body
    generalize hnF : hoistClos (cond lex clex []) cmod s body = newF at hPeq hFD hFok
    generalize hnD : Spec.declared s.top cmod body = newD at hFD
    -- the environment of the content: a block is entered without content and keeps the loop contexts
    have hI : ∃ iloops, innerEnv ⟨ps, fl, body, kind, cmod⟩ lexS bound E pend =
        ⟨bound ++ E.vars, newD ++ E.defs, pend, iloops, E.nb + (if Spec.isBuffering fl then 1 else 0), E.nf + 1, cmod⟩ ∧
        ∃ base, σ1.loops.map (·.index) = iloops ++ base := by
      rcases hk with ⟨rfl, ht⟩ | ⟨rfl, ht, _⟩ | ⟨rfl, ht, hown⟩
      · exact ⟨[], by rw [← hkt] at hnD; simp [innerEnv, ← hnD], _, rfl⟩
      · exact ⟨[], by rw [← hkt] at hnD; simp [innerEnv, ← hnD], _, rfl⟩
      · obtain ⟨hn0, base, hbase⟩ := hblockH rfl
        have hp : pend = [] := by rw [hn0] at hN; exact hN.nil_left
        refine ⟨E.loops, by rw [← hkt] at hnD; simp [innerEnv, ← hnD, hp], base, ?_⟩
        rw [hlo1 hown]; exact hbase
    obtain ⟨iloops, hinner, hlo⟩ := hI
    rw [hinner]
    have hσS : StOK { σ1 with frames := σ1.next :: σ1.frames, next := [] } :=
      ⟨by intro f hf
          rcases List.mem_cons.mp hf with rfl | h
          · exact hσ1.next
          · exact hσ1.frames f h, NSOK_nil⟩
    have hN1 : NSRel σ1.next pend := by rw [hn1]; exact hN
    have hlS : ∀ W, LocOK ⟨bound ++ l.vars, newF ++ l.funs, W, [], σ1.next, clex, [], lex, cmod⟩ := by
      intro W
      refine ⟨?_, hσ1.next, hlex⟩
      intro p hp
      rcases List.mem_append.mp hp with h | h
      · exact hFok p h
      · exact hl.funs p h
    have hfrS : ({ σ1 with frames := σ1.next :: σ1.frames, next := [] } : St).frames = σ.next :: σ.frames := by
      simp [hn1, hf1]
    by_cases hbuf : fl.buffered = true
    · -- buffered
      have hB : defShape fl (.seq (hoist s body) (.prim .getWriter)) (stmts s body) =
          .seq (.prim .pushFrame)
            (.seq (.tryFinally (.seq (.prim .pushBuffer) (.seq (.seq (hoist s body) (.prim .getWriter)) (stmts s body)))
                               (.seq (.prim .popBuffer) (.prim .popFrame)))
                  (.ret (applyFilters fl.filters .mbuf))) := by simp [defShape, hbuf]
      have hib : Spec.isBuffering fl = true := by simp [Spec.isBuffering, hbuf]
      rw [hB] at hex
      obtain ⟨m, o1, l1, σb, hm, hS, hto1, hfin⟩ := core_buffered (progOf ts k) _ hH hex hto
      rw [hPeq _ rfl rfl rfl] at hS
      have hRS := relc_def_start (σS := { σ1 with frames := σ1.next :: σ1.frames, next := [], bufs := (σ1.nextId, []) :: σ1.bufs, nextId := σ1.nextId + 1 })
            bound clex lex cmod σ1.nextId 1 iloops hFD hR hN
          (by simp [hn1, hf1]) (by simp [hb1, hR.nb]) hlo
      rw [← hn1] at hRS
      obtain ⟨out, vars', hbS, evS, hret, hfS, hlS', hnS⟩ := runS m hm s body _ (!lex) false _ _ σ1.nextId [] (σ1.bufs)
        _ o1 l1 σb (by rw [hib] at hg; exact hg) hRS rfl (hlS _) (hσS.of_eq rfl rfl) rfl rfl hS hto1
      simp only [hib, if_true]
      obtain ⟨hne, hnorm⟩ := hfin σ1.nextId ([] ++ out) σ1.bufs σ1.next σ1.frames hbS (by rw [hfS])
      have hnoret : conv o1 ≠ .ret := by
        intro hcr
        obtain ⟨m0, e0⟩ := evS
        have e := congrArg Spec.SR.o (e0 m0 (Nat.le_refl _))
        simp only at e
        exact (snodes_noret ⟨ts, k⟩ m0).1 body _ _ (good_noret body s false _ _ (by rw [hib] at hg; exact hg)) (e.trans hcr)
      refine ⟨⟨conv o1, out, σb.cnt, vars'⟩, evS, ?_⟩
      cases o1 with
      | timeout => exact absurd rfl hto1
      | ret v => exact absurd rfl hnoret
      | exc e =>
        obtain ⟨rfl, rfl⟩ := hne (by simp)
        simp [coreRes, conv, hib, hb1, hb, hlS', convO]
      | brk =>
        obtain ⟨rfl, rfl⟩ := hne (by simp)
        simp [coreRes, conv, hib, hb1, hb, hlS', convO]
      | cont =>
        obtain ⟨rfl, rfl⟩ := hne (by simp)
        simp [coreRes, conv, hib, hb1, hb, hlS', convO]
      | normal =>
        obtain ⟨m2, r2, _, hev, ho⟩ := hnorm rfl
        have hr2 : r2 ≠ .timeout := by
          rintro rfl
          exact hto ho
        have sem := sem_filters (progOf ts k) (l := { l1 with mbuf := [] ++ out })
          (σ := { σb with bufs := σ1.bufs, frames := σ1.frames, next := σ1.next }) fl.filters .mbuf ([] ++ out) σb.cnt
          (sem_mbuf _ _ _)
        obtain ⟨oc, hv, hcn⟩ := sem m2 r2 σ2 hev hr2
        simp only [pc_k, List.nil_append] at hv hcn
        have hb2 : σ2.bufs = σ1.bufs := by rw [oc]
        have hf2 : σ2.frames = σ1.frames := by rw [oc]
        have hl2 : σ2.loops = σ1.loops := by rw [oc]; exact hlS'
        have hn2 : σ2.next = σ1.next := by rw [oc]
        generalize hfc : Spec.filterContent k fl.filters out σb.cnt = fc at hv hcn
        obtain ⟨fr, c2⟩ := fc
        simp only at hv hcn
        subst hcn
        cases r2 with
        | timeout => exact absurd rfl hr2
        | val v =>
          simp only [convV] at hv
          subst hv
          subst ho
          simp [coreRes, conv, hfc, hbuf, hb2, hb1, hb, hf2, hl2, hn2, convO]
        | exc x =>
          simp only [convV] at hv
          subst hv
          subst ho
          simp [coreRes, conv, hfc, hb2, hb1, hb, hf2, hl2, hn2, convO]
    · have hbuf' : fl.buffered = false := by simpa using hbuf
      by_cases hfil : fl.filters.isEmpty = true
      · -- plain
        have hfnil : fl.filters = [] := by simpa using hfil
        have hB : defShape fl (.seq (hoist s body) (.prim .getWriter)) (stmts s body) =
            .seq (.prim .pushFrame)
              (.tryFinally (.seq (.seq (hoist s body) (.prim .getWriter)) (.seq (stmts s body) (.ret emptyStr)))
                (.prim .popFrame)) := by simp [defShape, hbuf', hc, hfil]
        have hib : Spec.isBuffering fl = false := by simp [Spec.isBuffering, hbuf', hc, hfnil]
        rw [hB] at hex
        obtain ⟨m, o1, l1, σb, hm, hS, hto1, hpop⟩ := core_plain (progOf ts k) hH (hb1.trans hb) hex hto
        rw [hPeq _ rfl rfl rfl] at hS
        have hRS := relc_def_start (σS := { σ1 with frames := σ1.next :: σ1.frames, next := [] }) bound clex lex cmod i 0 iloops hFD hR hN
            (by simp [hn1, hf1]) (by simp [hb1, hR.nb]) hlo
        rw [← hn1] at hRS
        obtain ⟨out, vars', hbS, evS, hret, hfS, hlS', hnS⟩ := runS m hm s body _ (!lex) false _ _ i top rest
          _ o1 l1 σb (by rw [hib] at hg; exact hg) hRS rfl (hlS _) hσS (hb1.trans hb) rfl hS hto1
        simp only [hib, Bool.false_eq_true, if_false, Nat.add_zero]
        obtain ⟨rfl, ho⟩ := hpop σ1.next σ1.frames (by rw [hfS])
        refine ⟨⟨conv o1, out, σb.cnt, vars'⟩, evS, ?_⟩
        cases o1 with
        | timeout => exact absurd rfl hto1
        | ret v =>
          have := hret v rfl
          subst this
          subst ho
          simp [coreRes, conv, hib, hfnil, Spec.filterContent, hbuf', hbS, hlS', convO]
        | normal =>
          subst ho
          simp [coreRes, conv, hib, hfnil, Spec.filterContent, hbuf', hbS, hlS', convO]
        | exc e =>
          subst ho
          simp [coreRes, conv, hib, hbS, hlS', convO]
        | brk =>
          subst ho
          simp [coreRes, conv, hib, hbS, hlS', convO]
        | cont =>
          subst ho
          simp [coreRes, conv, hib, hbS, hlS', convO]
      · -- filtered
        have hfne : fl.filters.isEmpty = false := by simpa using hfil
        have hB : defShape fl (.seq (hoist s body) (.prim .getWriter)) (stmts s body) =
            .seq (.prim .pushFrame)
              (.seq (.tryFinally (.seq (.prim .pushBuffer) (.seq (.seq (hoist s body) (.prim .getWriter)) (stmts s body)))
                                 (.seq (.prim .popBufferAndWriter) (.prim .popFrame)))
                    (.seq (.write (applyFilters fl.filters .mbuf)) (.ret emptyStr))) := by
          simp [defShape, hbuf', hc, hfne]
        have hib : Spec.isBuffering fl = true := by simp [Spec.isBuffering, hfne]
        rw [hB] at hex
        obtain ⟨m, o1, l1, σb, hm, hS, hto1, hfin⟩ := core_filtered (progOf ts k) _ hH hex hto
        rw [hPeq _ rfl rfl rfl] at hS
        have hRS := relc_def_start (σS := { σ1 with frames := σ1.next :: σ1.frames, next := [], bufs := (σ1.nextId, []) :: σ1.bufs, nextId := σ1.nextId + 1 })
            bound clex lex cmod σ1.nextId 1 iloops hFD hR hN
            (by simp [hn1, hf1]) (by simp [hb1, hR.nb]) hlo
        rw [← hn1] at hRS
        obtain ⟨out, vars', hbS, evS, hret, hfS, hlS', hnS⟩ := runS m hm s body _ (!lex) false _ _ σ1.nextId [] (σ1.bufs)
          _ o1 l1 σb (by rw [hib] at hg; exact hg) hRS rfl (hlS _) (hσS.of_eq rfl rfl) rfl rfl hS hto1
        simp only [hib, if_true]
        rw [hb1, hb] at hbS
        obtain ⟨hne, hnorm⟩ := hfin σ1.nextId ([] ++ out) i top rest σ1.next σ1.frames hbS (by rw [hfS])
        have hnoret : conv o1 ≠ .ret := by
          intro hcr
          obtain ⟨m0, e0⟩ := evS
          have e := congrArg Spec.SR.o (e0 m0 (Nat.le_refl _))
          simp only at e
          exact (snodes_noret ⟨ts, k⟩ m0).1 body _ _ (good_noret body s false _ _ (by rw [hib] at hg; exact hg)) (e.trans hcr)
        refine ⟨⟨conv o1, out, σb.cnt, vars'⟩, evS, ?_⟩
        cases o1 with
        | timeout => exact absurd rfl hto1
        | ret v => exact absurd rfl hnoret
        | exc e =>
          obtain ⟨rfl, rfl⟩ := hne (by simp)
          simp [coreRes, conv, hib, hlS', convO]
        | brk =>
          obtain ⟨rfl, rfl⟩ := hne (by simp)
          simp [coreRes, conv, hib, hlS', convO]
        | cont =>
          obtain ⟨rfl, rfl⟩ := hne (by simp)
          simp [coreRes, conv, hib, hlS', convO]
        | normal =>
          obtain ⟨m2, r2, σ3, _, hev, hmatch⟩ := hnorm rfl
          have hr2 : r2 ≠ .timeout := by
            rintro rfl
            exact hmatch
          have sem := sem_filters (progOf ts k) (l := { l1 with mbuf := [] ++ out, writer := i })
            (σ := { σb with bufs := (i, top) :: rest, frames := σ1.frames, next := σ1.next }) fl.filters .mbuf ([] ++ out)
            σb.cnt (sem_mbuf _ _ _)
          obtain ⟨oc, hv, hcn⟩ := sem m2 r2 σ3 hev hr2
          simp only [pc_k, List.nil_append] at hv hcn
          have hb3 : σ3.bufs = (i, top) :: rest := by rw [oc]
          have hf3 : σ3.frames = σ1.frames := by rw [oc]
          have hl3 : σ3.loops = σ1.loops := by rw [oc]; exact hlS'
          have hn3 : σ3.next = σ1.next := by rw [oc]
          generalize hfc : Spec.filterContent k fl.filters out σb.cnt = fc at hv hcn
          obtain ⟨fr, c2⟩ := fc
          simp only at hv hcn
          subst hcn
          cases r2 with
          | timeout => exact absurd rfl hr2
          | val v =>
            simp only [convV] at hv
            subst hv
            obtain ⟨rfl, rfl⟩ := hmatch
            simp [coreRes, conv, hfc, hbuf', hb3, writeTo, hf3, hl3, hn3, convO]
          | exc x =>
            simp only [convV] at hv
            subst hv
            obtain ⟨rfl, rfl⟩ := hmatch
            simp [coreRes, conv, hfc, hb3, hf3, hl3, hn3, convO]
  | body sc args body mod hg hcb =>
    simp only at hmod hbody
    subst hmod
    obtain ⟨hL, hn0, restD, hED⟩ := hbody trivial
    -- (hED is already in normal form)
    unfold bodyFun at he
    refine invoke_fin ts k (sf := ⟨args, noFlags, body, .body, cmod⟩) (fl := noFlags) rfl rfl rfl hb he hr ?_
    intro bound σ1 o l3 σ2 hz hb1 hf1 hn1 hid1 _ hex hto
    have hσ1 : StOK σ1 := ⟨by rw [hf1]; exact hσ.frames, by rw [hn1]; exact hσ.next⟩
    have F := cb_facts cmod body _ hcb
    have hinner : innerEnv ⟨args, noFlags, body, .body, cmod⟩ lexS bound E pend =
        ⟨bound ++ E.vars, Spec.callDefsOf cmod body ++ E.defs, lexS, [], E.nb, E.nf, cmod⟩ := by
      have hk : (Spec.Kind.body == Spec.Kind.main) = false := rfl
      simp [innerEnv, hk, F.decl, Spec.isBuffering, noFlags]
    rw [hinner]
    -- the defs of the `<%call>` are already in scope (they came with the layer)
    have hFD : ClosRel l.funs (Spec.callDefsOf cmod body ++ E.defs) := by
      intro x hx
      rw [hED, lookup_dup_prefix x hx, ← hED]
      exact hR.funs x hx
    obtain ⟨m, o1, hm, hS, hto1, ho⟩ := core_bare (progOf ts k) (proeff_skips _ (bodyHoist_skips body _ _ _ _ _ hg))
      (hb1.trans hb) hex hto
    have hRS := relc_body_start (σS := σ1) bound clex cmod i hFD hR hL hf1 (by rw [hb1]; exact hR.nb)
    obtain ⟨out, vars', hbS, evS, hret, hfS, hlS', hnS⟩ := runS m hm _ body false true true _ σ1 i top rest _ o1 l3 σ2 hg
      hRS (hn1.trans hn0) ⟨hl.funs, hlex, hlex⟩ hσ1 (hb1.trans hb) rfl hS hto1
    have hn2 : σ2.next = σ1.next := by rw [hnS, hn1, hn0]
    have hib : Spec.isBuffering noFlags = false := rfl
    refine ⟨⟨conv o1, out, σ2.cnt, vars'⟩, evS, ?_⟩
    cases o1 with
    | timeout => exact absurd rfl hto1
    | ret v =>
      have := hret v rfl
      subst this
      subst ho
      simp [coreRes, conv, hib, noFlags, Spec.filterContent, hbS, hfS, hlS', hn2, convO]
    | normal =>
      subst ho
      simp [coreRes, conv, hib, noFlags, Spec.filterContent, hbS, hfS, hlS', hn2, convO]
    | exc e =>
      subst ho
      simp [coreRes, conv, hib, hbS, hfS, hlS', hn2, convO]
    | brk =>
      subst ho
      simp [coreRes, conv, hib, hbS, hfS, hlS', hn2, convO]
    | cont =>
      subst ho
      simp [coreRes, conv, hib, hbS, hfS, hlS', hn2, convO]

end MakoModel.Codegen.Calls
