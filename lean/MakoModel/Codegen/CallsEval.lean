import MakoModel.Codegen.CallsLayer
/-!
# C05 refinement – expressions and argument lists

`eval` of any guarded expression – literals, variables, concatenations, filters, evaluation points, `loop.index`,
probes, **def calls by name, `capture(f, …)`, `caller.x(…)`** – appends to the buffer on top what `Spec.seval`
returns as "text written", yields the same value / exception and counter, and leaves the caller stack, the loop
stack and `nextcaller` exactly as they were.
-/
namespace MakoModel.Codegen.Calls
open MakoModel.Target MakoModel.Codegen

variable (ts : List (Tmpl × Option Bool)) (k : Nat)

theorem pc_k : (progOf ts k).k = k := rfl

theorem ns_ok_of_view {l : Loc} {σ : St} {ns : NS} (hl : LocOK l) (hσ : StOK σ) (h : callerView l σ = some ns) :
    NSOK ns := by
  simp only [callerView] at h
  split at h
  · rw [← Option.some.inj h]; exact hl.lexc
  · cases hfr : σ.frames with
    | nil => simp [hfr] at h
    | cons f fr =>
      simp only [hfr, List.head?_cons, Option.some.injEq] at h
      rw [← h]
      exact hσ.frames _ (by simp [hfr])

/-- a leaf: only the counter may have moved, nothing was written -/
theorem leaf_eval {σ σ' : St} {i top rest} (hb : σ.bufs = (i, top) :: rest) (h : σ' = { σ with cnt := σ'.cnt }) :
    σ'.bufs = (i, top ++ []) :: rest ∧ Post σ σ' := by
  rw [h]
  exact ⟨by simp [hb], rfl, rfl, rfl⟩

theorem rc_eval (hG : GoodAll ts) (n : Nat) (ih : ∀ m, m < n + 1 → RC ts k m) : EvalRef ts k (n + 1) := by
  intro e il ce cv l σ E pend i top rest r σ' hg hR hN hce hil hl hσ hb he hr
  have A := ih n (Nat.lt_succ_self n)
  have G := all_good (progOf ts k) (codegen_cfg_ok ts k) n
  cases e with
  | lit s =>
    simp only [eval, Prod.mk.injEq] at he; obtain ⟨rfl, rfl⟩ := he
    exact ⟨[], by simp [hb], Post.refl _, 1, fun m hm => by
      obtain ⟨m, rfl⟩ := Nat.exists_eq_add_of_le' hm; simp [Spec.seval, convV]⟩
  | var x =>
    simp only [eval] at he
    refine ⟨[], ?_, ?_, 1, fun m hm => ?_⟩
    · split at he <;> (simp only [Prod.mk.injEq] at he; obtain ⟨_, rfl⟩ := he; simp [hb])
    · split at he <;> (simp only [Prod.mk.injEq] at he; obtain ⟨_, rfl⟩ := he; exact Post.refl _)
    · obtain ⟨m, rfl⟩ := Nat.exists_eq_add_of_le' hm
      simp only [Spec.seval, ← hR.vars x]
      split at he <;> (rename_i hlk; simp only [Prod.mk.injEq] at he; obtain ⟨rfl, rfl⟩ := he; simp [hlk, convV])
  | boom =>
    simp only [eval, tick, pc_k] at he
    by_cases hk : σ.cnt = k
    · simp only [hk, beq_self_eq_true, Prod.mk.injEq] at he
      obtain ⟨rfl, rfl⟩ := he
      refine ⟨[], by simp [hb], ⟨rfl, rfl, rfl⟩, 1, fun m hm => ?_⟩
      obtain ⟨m, rfl⟩ := Nat.exists_eq_add_of_le' hm
      simp [Spec.seval, Spec.tickS, hk, convV]
    · have hk' : (σ.cnt == k) = false := by simpa using hk
      simp only [hk', Prod.mk.injEq] at he
      obtain ⟨rfl, rfl⟩ := he
      refine ⟨[], by simp [hb], ⟨rfl, rfl, rfl⟩, 1, fun m hm => ?_⟩
      obtain ⟨m, rfl⟩ := Nat.exists_eq_add_of_le' hm
      simp [Spec.seval, Spec.tickS, hk', convV]
  | probe =>
    simp only [eval, Prod.mk.injEq] at he; obtain ⟨rfl, rfl⟩ := he
    refine ⟨[], by simp [hb], Post.refl _, 1, fun m hm => ?_⟩
    obtain ⟨m, rfl⟩ := Nat.exists_eq_add_of_le' hm
    simp [Spec.seval, convV, probeStr, hR.nb, hR.nf, hN.isEmpty]
  | loopIndex =>
    simp only [GoodE] at hg
    have hne := hil hg
    obtain ⟨base, hbase⟩ := hR.loops
    cases hE : E.loops with
    | nil => exact absurd hE hne
    | cons i0 r0 =>
      rw [hE] at hbase
      cases hL : σ.loops with
      | nil => simp [hL] at hbase
      | cons lc lr =>
        simp only [hL, List.map_cons, List.cons_append, List.cons.injEq] at hbase
        simp only [eval, hL, Prod.mk.injEq] at he
        obtain ⟨rfl, rfl⟩ := he
        refine ⟨[], by simp [hb], Post.refl _, 1, fun m hm => ?_⟩
        obtain ⟨m, rfl⟩ := Nat.exists_eq_add_of_le' hm
        simp [Spec.seval, hE, convV, hbase.1]
  | mbuf => simp [GoodE] at hg
  | includeFile _ => simp [GoodE] at hg
  | cat a b =>
    simp only [GoodE, Bool.and_eq_true] at hg
    simp only [eval] at he
    generalize hx : eval (progOf ts k) n a l σ = x at he
    obtain ⟨ra, σ1⟩ := x
    have ga := A.eval a il ce cv l σ E pend i top rest ra σ1 hg.1 hR hN hce hil hl hσ hb hx
    have ba := G.eval a l σ i top rest hl hσ hb ra σ1 hx
    cases ra with
    | val va =>
      simp only at he
      obtain ⟨o1, hb1, p1, m1, e1⟩ := ga (by simp)
      have hσ1 := (ba (by simp)).ok
      generalize hy : eval (progOf ts k) n b l σ1 = y at he
      obtain ⟨rb, σ2⟩ := y
      have gb := A.eval b il ce cv l σ1 E pend i (top ++ o1) rest rb σ2 hg.2 (hR.of_post hb hb1 p1) (by rw [p1.2.2]; exact hN)
        (fun h => by rw [p1.2.2]; exact hce h) hil hl hσ1 hb1 hy
      have fin : rb ≠ .timeout → ∃ out, σ2.bufs = (i, top ++ out) :: rest ∧ Post σ σ2 ∧
          Ev (fun m => Spec.seval ⟨ts, k⟩ m (.cat a b) E pend σ.cnt)
            ⟨(match rb with | .val vb => .val (va ++ vb) | .exc e => .exc e | .timeout => .timeout), out, σ2.cnt⟩ := by
        intro hrb
        obtain ⟨o2, hb2, p2, m2, e2⟩ := gb hrb
        refine ⟨o1 ++ o2, by simp [hb2], p1.trans p2, max m1 m2 + 1, fun m hm => ?_⟩
        obtain ⟨m, rfl⟩ := Nat.exists_eq_add_of_le' (by omega : 1 ≤ m)
        have a1 := e1 m (by omega)
        have a2 := e2 m (by omega)
        simp only at a1 a2
        simp only [Spec.seval, a1, a2, convV]
        cases rb <;> simp [convV] at hrb ⊢
      cases rb <;> simp only [Prod.mk.injEq] at he <;> obtain ⟨rfl, rfl⟩ := he
      · exact fin (by simp)
      · exact fin (by simp)
      · exact absurd rfl hr
    | exc x =>
      simp only [Prod.mk.injEq] at he; obtain ⟨rfl, rfl⟩ := he
      obtain ⟨o1, hb1, p1, m1, e1⟩ := ga (by simp)
      refine ⟨o1, hb1, p1, m1 + 1, fun m hm => ?_⟩
      obtain ⟨m, rfl⟩ := Nat.exists_eq_add_of_le' (by omega : 1 ≤ m)
      have a1 := e1 m (by omega)
      simp only at a1
      simp [Spec.seval, a1, convV]
    | timeout => simp only [Prod.mk.injEq] at he; obtain ⟨rfl, rfl⟩ := he; exact absurd rfl hr
  | filt f e =>
    simp only [GoodE] at hg
    simp only [eval] at he
    generalize hx : eval (progOf ts k) n e l σ = x at he
    obtain ⟨ra, σ1⟩ := x
    have ga := A.eval e il ce cv l σ E pend i top rest ra σ1 hg hR hN hce hil hl hσ hb hx
    cases ra with
    | val v =>
      simp only [tick, pc_k] at he
      obtain ⟨o1, hb1, p1, m1, e1⟩ := ga (by simp)
      have post : Post σ { σ1 with cnt := σ1.cnt + 1 } := p1
      by_cases hk : σ1.cnt = k
      · simp only [hk, beq_self_eq_true, Prod.mk.injEq] at he
        obtain ⟨rfl, rfl⟩ := he
        refine ⟨o1, by simpa using hb1, by simpa [hk] using post, m1 + 1, fun m hm => ?_⟩
        obtain ⟨m, rfl⟩ := Nat.exists_eq_add_of_le' (by omega : 1 ≤ m)
        have a1 := e1 m (by omega)
        simp only at a1
        simp [Spec.seval, a1, convV, Spec.tickS, hk]
      · have hk' : (σ1.cnt == k) = false := by simpa using hk
        simp only [hk', Prod.mk.injEq] at he
        obtain ⟨rfl, rfl⟩ := he
        refine ⟨o1, by simpa using hb1, post, m1 + 1, fun m hm => ?_⟩
        obtain ⟨m, rfl⟩ := Nat.exists_eq_add_of_le' (by omega : 1 ≤ m)
        have a1 := e1 m (by omega)
        simp only at a1
        simp [Spec.seval, a1, convV, Spec.tickS, hk']
    | exc x =>
      simp only [Prod.mk.injEq] at he; obtain ⟨rfl, rfl⟩ := he
      obtain ⟨o1, hb1, p1, m1, e1⟩ := ga (by simp)
      refine ⟨o1, hb1, p1, m1 + 1, fun m hm => ?_⟩
      obtain ⟨m, rfl⟩ := Nat.exists_eq_add_of_le' (by omega : 1 ≤ m)
      have a1 := e1 m (by omega)
      simp only at a1
      simp [Spec.seval, a1, convV]
    | timeout => simp only [Prod.mk.injEq] at he; obtain ⟨rfl, rfl⟩ := he; exact absurd rfl hr
  | call f args =>
    simp only [GoodE, Bool.and_eq_true, bne_iff_ne, ne_eq] at hg
    simp only [Bool.or_eq_true, Bool.not_eq_true', decide_eq_true_eq] at hg
    have hres := resolve_rel ts k hG hg.1.1 hR.funs hR.mod
    simp only [eval] at he
    cases hr1 : resolve (progOf ts k) l f with
    | none =>
      cases hr2 : Spec.resolveS ⟨ts, k⟩ E f with
      | some _ => simp [hr1, hr2, OptRel] at hres
      | none =>
        simp only [hr1, Prod.mk.injEq] at he; obtain ⟨rfl, rfl⟩ := he
        refine ⟨[], by simp [hb], Post.refl _, 1, fun m hm => ?_⟩
        obtain ⟨m, rfl⟩ := Nat.exists_eq_add_of_le' hm
        simp [Spec.seval, hr2, convV]
    | some clo =>
      cases hr2 : Spec.resolveS ⟨ts, k⟩ E f with
      | none => simp [hr1, hr2, OptRel] at hres
      | some sf =>
        simp only [hr1, hr2, OptRel] at hres
        obtain ⟨⟨hfr, hmod, hkind⟩, hblk⟩ := hres
        obtain ⟨hfok, hlexok⟩ := resolve_ok (codegen_cfg_ok ts k) hl hr1
        simp only [hr1] at he
        generalize hx : evalArgs (progOf ts k) n args l σ = x at he
        obtain ⟨ra, σ1⟩ := x
        have ga := A.args args il ce cv l σ E pend i top rest ra σ1 hg.2 hR hN hce hil hl hσ hb hx
        have ba := G.args args l σ i top rest hl hσ hb ra σ1 hx
        cases ra with
        | vals vs =>
          simp only at he
          obtain ⟨o1, hb1, p1, m1, e1⟩ := ga (by simp)
          have hσ1 := (ba (by simp)).ok
          have hblock : sf.kind = .block → σ1.next = [] ∧ ∃ base, σ1.loops.map (·.index) = E.loops ++ base := by
            intro hk
            have hcef : ce = false := by
              rcases hg.1.2 with h | h
              · exact h
              · exact absurd h (Nat.not_lt.mpr (hblk hk))
            exact ⟨by rw [p1.2.2]; exact hce hcef, by rw [p1.2.1]; exact hR.loops⟩
          obtain ⟨o2, hb2, p2, m2, e2⟩ := A.invoke clo sf [] vs l σ1 E pend i (top ++ o1) rest r σ' hfr hmod
            (fun h => absurd h hkind) hblock (hR.of_post hb hb1 p1).toW (by rw [p1.2.2]; exact hN) hl hlexok hσ1 hb1 he hr
          refine ⟨o1 ++ o2, by simp [hb2], p1.trans p2, max m1 m2 + 1, fun m hm => ?_⟩
          obtain ⟨m, rfl⟩ := Nat.exists_eq_add_of_le' (by omega : 1 ≤ m)
          have a1 := e1 m (by omega)
          have a2 := e2 m (by omega)
          simp only at a1 a2
          simp [Spec.seval, hr2, a1, a2, convA]
        | exc x =>
          simp only [Prod.mk.injEq] at he; obtain ⟨rfl, rfl⟩ := he
          obtain ⟨o1, hb1, p1, m1, e1⟩ := ga (by simp)
          refine ⟨o1, hb1, p1, m1 + 1, fun m hm => ?_⟩
          obtain ⟨m, rfl⟩ := Nat.exists_eq_add_of_le' (by omega : 1 ≤ m)
          have a1 := e1 m (by omega)
          simp only at a1
          simp [Spec.seval, hr2, a1, convA, convV]
        | timeout => simp only [Prod.mk.injEq] at he; obtain ⟨rfl, rfl⟩ := he; exact absurd rfl hr
  | capture f args =>
    simp only [GoodE, Bool.and_eq_true, bne_iff_ne, ne_eq] at hg
    simp only [Bool.or_eq_true, Bool.not_eq_true', decide_eq_true_eq] at hg
    have hres := resolve_rel ts k hG hg.1.1 hR.funs hR.mod
    simp only [eval] at he
    cases hr1 : resolve (progOf ts k) l f with
    | none =>
      cases hr2 : Spec.resolveS ⟨ts, k⟩ E f with
      | some _ => simp [hr1, hr2, OptRel] at hres
      | none =>
        simp only [hr1, Prod.mk.injEq] at he; obtain ⟨rfl, rfl⟩ := he
        refine ⟨[], by simp [hb], Post.refl _, 1, fun m hm => ?_⟩
        obtain ⟨m, rfl⟩ := Nat.exists_eq_add_of_le' hm
        simp [Spec.seval, hr2, convV]
    | some clo =>
      cases hr2 : Spec.resolveS ⟨ts, k⟩ E f with
      | none => simp [hr1, hr2, OptRel] at hres
      | some sf =>
        simp only [hr1, hr2, OptRel] at hres
        obtain ⟨⟨hfr, hmod, hkind⟩, hblk⟩ := hres
        obtain ⟨hfok, hlexok⟩ := resolve_ok (codegen_cfg_ok ts k) hl hr1
        simp only [hr1] at he
        generalize hx : evalArgs (progOf ts k) n args l σ = x at he
        obtain ⟨ra, σ1⟩ := x
        have ga := A.args args il ce cv l σ E pend i top rest ra σ1 hg.2 hR hN hce hil hl hσ hb hx
        have ba := G.args args l σ i top rest hl hσ hb ra σ1 hx
        cases ra with
        | vals vs =>
          simp only at he
          obtain ⟨o1, hb1, p1, m1, e1⟩ := ga (by simp)
          have hσ1 := (ba (by simp)).ok
          generalize hy : invoke (progOf ts k) n clo vs l _ = y at he
          obtain ⟨r3, σ3⟩ := y
          dsimp only at he
          have hto : r3 ≠ .timeout := by
            rintro rfl
            split at he <;> (simp only [Prod.mk.injEq] at he; exact hr he.1.symm)
          have hR1 := hR.of_post hb hb1 p1
          have hR2 : RelW l { σ1 with bufs := (σ1.nextId, []) :: σ1.bufs, nextId := σ1.nextId + 1 }
              { E with nb := E.nb + 1 } := ⟨hR1.vars, by simp [hR1.nb], hR1.nf, hR1.funs⟩
          have hblock : sf.kind = .block → σ1.next = [] ∧ ∃ base, σ1.loops.map (·.index) = E.loops ++ base := by
            intro hk
            have hcef : ce = false := by
              rcases hg.1.2 with h | h
              · exact h
              · exact absurd h (Nat.not_lt.mpr (hblk hk))
            exact ⟨by rw [p1.2.2]; exact hce hcef, by rw [p1.2.1]; exact hR.loops⟩
          obtain ⟨o2, hb2, p2, m2, e2⟩ := A.invoke clo sf [] vs l
            { σ1 with bufs := (σ1.nextId, []) :: σ1.bufs, nextId := σ1.nextId + 1 } { E with nb := E.nb + 1 } pend σ1.nextId []
            ((i, top ++ o1) :: rest) r3 σ3 hfr hmod (fun h => absurd h hkind) hblock hR2 (by rw [p1.2.2]; exact hN) hl hlexok
            (hσ1.of_eq rfl rfl) (by simp [hb1]) hy hto
          simp only [hb2] at he
          have post : Post σ { σ3 with bufs := (i, top ++ o1) :: rest } := p1.trans p2
          have spec : ∀ m, max m1 m2 + 1 ≤ m → Spec.seval ⟨ts, k⟩ m (.capture f args) E pend σ.cnt =
              (match convV r3 with | .val _ => ⟨.val o2, o1, σ3.cnt⟩ | x => ⟨x, o1, σ3.cnt⟩) := by
            intro m hm
            obtain ⟨m, rfl⟩ := Nat.exists_eq_add_of_le' (by omega : 1 ≤ m)
            have a1 := e1 m (by omega)
            have a2 := e2 m (by omega)
            simp only at a1 a2
            simp only [Spec.seval, hr2, a1, convA, a2]
            cases r3 <;> simp [convV]
          cases r3 with
          | timeout => exact absurd rfl hto
          | val v =>
            simp only [Prod.mk.injEq] at he; obtain ⟨rfl, rfl⟩ := he
            exact ⟨o1, rfl, post, _, fun m hm => (spec m hm).trans (by simp [convV])⟩
          | exc x =>
            simp only [Prod.mk.injEq] at he; obtain ⟨rfl, rfl⟩ := he
            exact ⟨o1, rfl, post, _, fun m hm => (spec m hm).trans (by simp [convV])⟩
        | exc x =>
          simp only [Prod.mk.injEq] at he; obtain ⟨rfl, rfl⟩ := he
          obtain ⟨o1, hb1, p1, m1, e1⟩ := ga (by simp)
          refine ⟨o1, hb1, p1, m1 + 1, fun m hm => ?_⟩
          obtain ⟨m, rfl⟩ := Nat.exists_eq_add_of_le' (by omega : 1 ≤ m)
          have a1 := e1 m (by omega)
          simp only at a1
          simp [Spec.seval, hr2, a1, convA, convV]
        | timeout => simp only [Prod.mk.injEq] at he; obtain ⟨rfl, rfl⟩ := he; exact absurd rfl hr
  | callerCall name args =>
    simp only [GoodE, Bool.and_eq_true, Bool.not_eq_true'] at hg
    obtain ⟨⟨hcv, hce0⟩, hga⟩ := hg
    have hnext : σ.next = [] := hce hce0
    have hpend : pend = [] := by rw [hnext] at hN; exact hN.nil_left
    subst hpend
    obtain ⟨ns, hns, hrel⟩ := hR.cview hcv
    have hnsok := ns_ok_of_view hl hσ hns
    simp only [callerView] at hns
    simp only [eval, hns] at he
    generalize hEc : E.caller = ecal at hrel
    cases hrel with
    | nil =>
      simp only [Prod.mk.injEq] at he; obtain ⟨rfl, rfl⟩ := he
      refine ⟨[], by simp [hb], Post.refl _, 1, fun m hm => ?_⟩
      obtain ⟨m, rfl⟩ := Nat.exists_eq_add_of_le' hm
      simp [Spec.seval, hEc, convV]
    | @cons layer sl tl stl hL hT =>
      have hlay : FunsOK layer.funs := hnsok layer List.mem_cons_self
      have htl : NSOK tl := fun x hx => hnsok x (List.mem_cons_of_mem _ hx)
      -- the callable `name` of the layer, on both sides
      have hlk : (lookup name layer.funs = none ∧ lookup name sl = none) ∨
          ∃ fn sf, lookup name layer.funs = some fn ∧ lookup name sl = some sf ∧ FunRel fn sf ∧ sf.mod = layer.mod ∧
            (sf.kind = .body → sl = (0, sf) :: Spec.callDefsOf sf.mod sf.body) ∧ sf.kind ≠ .block := by
        by_cases hname : name = 0
        · subst hname
          obtain ⟨sc0, bargs, body, h1, h2, h3, h4⟩ := layer_zero hL
          exact .inr ⟨_, _, h1, h2, h3, rfl, fun _ => h4, by simp⟩
        · have g := layer_ne hL name hname
          cases h1 : lookup name layer.funs <;> cases h2 : lookup name sl <;> simp only [h1, h2, OptRel] at g
          · exact .inl ⟨rfl, rfl⟩
          · exact .inr ⟨_, _, rfl, rfl, g.1, g.2.1, fun hk => (by rw [g.2.2] at hk; cases hk), (by rw [g.2.2]; simp)⟩
      rcases hlk with ⟨hl1, hl2⟩ | ⟨fn, sf, hl1, hl2, hfr, hmod, hsl, hnb⟩
      · simp only [hl1, Prod.mk.injEq] at he; obtain ⟨rfl, rfl⟩ := he
        refine ⟨[], by simp [hb], Post.refl _, 1, fun m hm => ?_⟩
        obtain ⟨m, rfl⟩ := Nat.exists_eq_add_of_le' hm
        simp [Spec.seval, hEc, hl2, convV]
      · simp only [hl1] at he
        generalize hx : evalArgs (progOf ts k) n args l σ = x at he
        obtain ⟨ra, σ1⟩ := x
        have ga := A.args args il ce cv l σ E [] i top rest ra σ1 hga hR hN hce hil hl hσ hb hx
        have ba := G.args args l σ i top rest hl hσ hb ra σ1 hx
        cases ra with
        | vals vs =>
          simp only at he
          obtain ⟨o1, hb1, p1, m1, e1⟩ := ga (by simp)
          have hσ1 := (ba (by simp)).ok
          have hR1 := hR.of_post hb hb1 p1
          have hl2' : LocOK { l with funs := layerClos layer tl ++ l.funs } := by
            refine ⟨?_, hl.caller, hl.lexc⟩
            intro p hp
            rcases List.mem_append.mp hp with h | h
            · exact layerClos_ok hlay htl p h
            · exact hl.funs p h
          have hR2 : RelW { l with funs := layerClos layer tl ++ l.funs } σ1 { E with defs := sl ++ E.defs } :=
            ⟨hR1.vars, hR1.nb, hR1.nf, (layer_clos_rel hL).append hR1.funs⟩
          have hn1 : σ1.next = [] := by rw [p1.2.2]; exact hnext
          obtain ⟨o2, hb2, p2, m2, e2⟩ := A.invoke ⟨fn, tl, layer.mod⟩ sf stl vs _ σ1 { E with defs := sl ++ E.defs } []
            i (top ++ o1) rest r σ' hfr hmod.symm (fun hk => ⟨hT, hn1, E.defs, by rw [← hsl hk]⟩) (fun hk => absurd hk hnb) hR2
            (by rw [hn1]; exact NSRel.nil) hl2' htl hσ1 hb1 he hr
          refine ⟨o1 ++ o2, by simp [hb2], p1.trans p2, max m1 m2 + 1, fun m hm => ?_⟩
          obtain ⟨m, rfl⟩ := Nat.exists_eq_add_of_le' (by omega : 1 ≤ m)
          have a1 := e1 m (by omega)
          have a2 := e2 m (by omega)
          simp only at a1
          simp only [hEc] at a2
          simp [Spec.seval, hEc, hl2, a1, a2, convA]
        | exc x =>
          simp only [Prod.mk.injEq] at he; obtain ⟨rfl, rfl⟩ := he
          obtain ⟨o1, hb1, p1, m1, e1⟩ := ga (by simp)
          refine ⟨o1, hb1, p1, m1 + 1, fun m hm => ?_⟩
          obtain ⟨m, rfl⟩ := Nat.exists_eq_add_of_le' (by omega : 1 ≤ m)
          have a1 := e1 m (by omega)
          simp only at a1
          simp [Spec.seval, hEc, hl2, a1, convA, convV]
        | timeout => simp only [Prod.mk.injEq] at he; obtain ⟨rfl, rfl⟩ := he; exact absurd rfl hr

theorem rc_args (n : Nat) (ih : ∀ m, m < n + 1 → RC ts k m) : ArgsRef ts k (n + 1) := by
  intro es il ce cv l σ E pend i top rest r σ' hg hR hN hce hil hl hσ hb he hr
  have A := ih n (Nat.lt_succ_self n)
  have G := all_good (progOf ts k) (codegen_cfg_ok ts k) n
  cases es with
  | nil =>
    simp only [evalArgs, Prod.mk.injEq] at he; obtain ⟨rfl, rfl⟩ := he
    exact ⟨[], by simp [hb], Post.refl _, 1, fun m hm => by
      obtain ⟨m, rfl⟩ := Nat.exists_eq_add_of_le' hm; simp [Spec.sargs, convA]⟩
  | cons e es =>
    simp only [GoodArgs, Bool.and_eq_true] at hg
    simp only [evalArgs] at he
    generalize hx : eval (progOf ts k) n e l σ = x at he
    obtain ⟨ra, σ1⟩ := x
    have ga := A.eval e il ce cv l σ E pend i top rest ra σ1 hg.1 hR hN hce hil hl hσ hb hx
    have ba := G.eval e l σ i top rest hl hσ hb ra σ1 hx
    cases ra with
    | val v =>
      simp only at he
      obtain ⟨o1, hb1, p1, m1, e1⟩ := ga (by simp)
      have hσ1 := (ba (by simp)).ok
      generalize hy : evalArgs (progOf ts k) n es l σ1 = y at he
      obtain ⟨rb, σ2⟩ := y
      have gb := A.args es il ce cv l σ1 E pend i (top ++ o1) rest rb σ2 hg.2 (hR.of_post hb hb1 p1) (by rw [p1.2.2]; exact hN)
        (fun h => by rw [p1.2.2]; exact hce h) hil hl hσ1 hb1 hy
      have fin : rb ≠ .timeout → ∃ out, σ2.bufs = (i, top ++ out) :: rest ∧ Post σ σ2 ∧
          Ev (fun m => Spec.sargs ⟨ts, k⟩ m (e :: es) E pend σ.cnt)
            ⟨(match rb with | .vals vs => .vals (v :: vs) | .exc e => .exc e | .timeout => .timeout), out, σ2.cnt⟩ := by
        intro hrb
        obtain ⟨o2, hb2, p2, m2, e2⟩ := gb hrb
        refine ⟨o1 ++ o2, by simp [hb2], p1.trans p2, max m1 m2 + 1, fun m hm => ?_⟩
        obtain ⟨m, rfl⟩ := Nat.exists_eq_add_of_le' (by omega : 1 ≤ m)
        have a1 := e1 m (by omega)
        have a2 := e2 m (by omega)
        simp only at a1 a2
        simp only [Spec.sargs, a1, a2, convV]
        cases rb <;> simp [convA] at hrb ⊢
      cases rb <;> simp only [Prod.mk.injEq] at he <;> obtain ⟨rfl, rfl⟩ := he
      · exact fin (by simp)
      · exact fin (by simp)
      · exact absurd rfl hr
    | exc x =>
      simp only [Prod.mk.injEq] at he; obtain ⟨rfl, rfl⟩ := he
      obtain ⟨o1, hb1, p1, m1, e1⟩ := ga (by simp)
      refine ⟨o1, hb1, p1, m1 + 1, fun m hm => ?_⟩
      obtain ⟨m, rfl⟩ := Nat.exists_eq_add_of_le' (by omega : 1 ≤ m)
      have a1 := e1 m (by omega)
      simp only at a1
      simp [Spec.sargs, a1, convV, convA]
    | timeout => simp only [Prod.mk.injEq] at he; obtain ⟨rfl, rfl⟩ := he; exact absurd rfl hr

end MakoModel.Codegen.Calls
