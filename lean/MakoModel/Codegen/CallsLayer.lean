import MakoModel.Codegen.CallsRel
/-!
# C05 refinement – the `caller` namespace a `<%call>` builds

`visitCallTag` writes the `<%def>`s that are direct children of the `<%call>` into `ccall(caller)` (`callDefs`),
then `body`.  For a guarded `<%call>` these are, name by name, the code generated for what `Spec.callDefsOf` and
the specification's `body` callable list; the names are never 0 (= `body`); and what the content of the `<%call>`
declares for its own activation (`Spec.declared`) is the same list again.
-/
namespace MakoModel.Codegen.Calls
open MakoModel.Target MakoModel.Codegen

/-- the relation between the defs of a `ccall` and `Spec.callDefsOf` -/
def LayRel (mod : Nat) (fn : Fun) (sf : Spec.SFun) : Prop := FunRel fn sf ∧ sf.mod = mod ∧ sf.kind = .def_

structure CBFacts (mod : Nat) (sc : Scope) (t : Tmpl) : Prop where
  rel : ∀ x, OptRel (LayRel mod) (lookup x (collectDefs (callDefs sc t))) (lookup x (Spec.callDefsOf mod t))
  zeroT : lookup 0 (collectDefs (callDefs sc t)) = none
  zeroS : lookup 0 (Spec.callDefsOf mod t) = none
  decl : Spec.declared false mod t = Spec.callDefsOf mod t

theorem cbfacts_empty (mod : Nat) (sc : Scope) (t : Tmpl) (h1 : collectDefs (callDefs sc t) = [])
    (h2 : Spec.callDefsOf mod t = []) (h3 : Spec.declared false mod t = []) : CBFacts mod sc t :=
  ⟨fun x => by simp [h1, h2, lookup, OptRel], by simp [h1, lookup], by simp [h2, lookup], by rw [h2, h3]⟩

theorem cb_facts (mod : Nat) : ∀ (t : Tmpl) (sc : Scope), GoodCB sc t = true → CBFacts mod sc t := by
  intro t
  induction t with
  | seq a b iha ihb =>
    intro sc h
    simp only [GoodCB, Bool.and_eq_true] at h
    have A := iha sc h.1
    have B := ihb sc h.2
    refine ⟨fun x => ?_, ?_, ?_, ?_⟩
    · simp only [callDefs, collectDefs, Spec.callDefsOf]
      exact optrel_append x (A.rel x) (B.rel x)
    · simp [callDefs, collectDefs, lookup_append, A.zeroT, B.zeroT]
    · simp [Spec.callDefsOf, lookup_append, A.zeroS, B.zeroS]
    · simp [Spec.declared, Spec.callDefsOf, A.decl, B.decl]
  | def_ name ps fl body _ =>
    intro sc h
    simp only [GoodCB, Bool.and_eq_true, Bool.not_eq_true', bne_iff_ne, ne_eq] at h
    obtain ⟨⟨⟨hn, hc⟩, hnd⟩, hg⟩ := h
    refine ⟨fun x => ?_, ?_, ?_, ?_⟩
    · simp only [callDefs, inlineDef, hc, Bool.false_eq_true, if_false, collectDefs, Spec.callDefsOf, lookup]
      split
      · simp only [OptRel]
        exact ⟨FunRel.def_ (subScope sc true body) ps fl body (ownsLoops sc body) (effLex sc true body) mod .def_
          (.inl ⟨rfl, rfl⟩) hc hnd hg, rfl, rfl⟩
      · simp [OptRel]
    · simp only [callDefs, inlineDef, hc, Bool.false_eq_true, if_false, collectDefs, lookup]
      simp [Ne.symm hn]
    · simp only [Spec.callDefsOf, lookup]
      simp [Ne.symm hn]
    · simp [Spec.declared, Spec.callDefsOf]
  | ite cnd a b _ _ =>
    intro sc h
    simp only [GoodCB, Bool.and_eq_true] at h
    have A := nodefs_facts a h.1
    have B := nodefs_facts b h.2
    exact cbfacts_empty mod sc _
      (by simp [callDefs, collectDefs, isSkips_collect _ (A.deepDefs sc), isSkips_collect _ (B.deepDefs sc)])
      (by simp [Spec.callDefsOf, A.callDefsOf, B.callDefsOf]) (by simp [Spec.declared, A.declared, B.declared])
  | try_ a b _ _ =>
    intro sc h
    simp only [GoodCB, Bool.and_eq_true] at h
    have A := nodefs_facts a h.1
    have B := nodefs_facts b h.2
    exact cbfacts_empty mod sc _
      (by simp [callDefs, collectDefs, isSkips_collect _ (A.deepDefs sc), isSkips_collect _ (B.deepDefs sc)])
      (by simp [Spec.callDefsOf, A.callDefsOf, B.callDefsOf]) (by simp [Spec.declared, A.declared, B.declared])
  | for_ x items b _ =>
    intro sc h
    simp only [GoodCB] at h
    have B := nodefs_facts b h
    exact cbfacts_empty mod sc _ (by simp [callDefs, isSkips_collect _ (B.deepDefs sc)])
      (by simp [Spec.callDefsOf, B.callDefsOf]) (by simp [Spec.declared, B.declared])
  | while_ m b _ =>
    intro sc h
    simp only [GoodCB] at h
    have B := nodefs_facts b h
    exact cbfacts_empty mod sc _ (by simp [callDefs, isSkips_collect _ (B.deepDefs sc)])
      (by simp [Spec.callDefsOf, B.callDefsOf]) (by simp [Spec.declared, B.declared])
  | call e args b _ =>
    intro sc h
    simp only [GoodCB] at h
    have B := nodefs_facts b h
    exact cbfacts_empty mod sc _ (by simp [callDefs, isSkips_collect _ (B.callDefs sc)])
      (by simp [Spec.callDefsOf, B.callDefsOf]) (by simp [Spec.declared])
  | block _ _ _ _ _ => intro sc h; simp [GoodCB] at h
  | _ =>
    intro sc _
    exact cbfacts_empty mod sc _ (by simp [callDefs, collectDefs]) (by simp [Spec.callDefsOf]) (by simp [Spec.declared])

/-- the prologue of `body()` of a guarded `<%call>` is empty (closures of its `<%def>`s live in `ccall`) -/
theorem bodyHoist_skips : ∀ (t : Tmpl) (sc sc' : Scope) (il bf cv : Bool), Good sc il bf cv true t = true →
    isSkips (bodyHoist sc' t) = true := by
  intro t
  induction t with
  | seq a b iha ihb =>
    intro sc sc' il bf cv h
    simp only [Good, Bool.and_eq_true] at h
    simp [bodyHoist, isSkips, iha sc sc' il bf cv h.1, ihb sc sc' il bf cv h.2]
  | block _ _ _ _ _ => intro sc sc' il bf cv h; simp [Good] at h
  | _ => intro _ _ _ _ _ _; simp [bodyHoist, isSkips]

/-! ## looking a name up in a layer -/

theorem layer_zero {layer : Layer} {sl : Spec.SLayer} (hL : LayerRel layer sl) :
    ∃ sc bargs body, lookup 0 layer.funs = some (bodyFun sc bargs body) ∧
      lookup 0 sl = some ⟨bargs, noFlags, body, .body, layer.mod⟩ ∧
      FunRel (bodyFun sc bargs body) ⟨bargs, noFlags, body, .body, layer.mod⟩ ∧
      sl = (0, ⟨bargs, noFlags, body, .body, layer.mod⟩) :: Spec.callDefsOf layer.mod body := by
  obtain ⟨sc, bargs, body, hf, hs, hg, hcb⟩ := hL
  have F := cb_facts layer.mod body _ hcb
  refine ⟨sc, bargs, body, ?_, ?_, FunRel.body sc bargs body layer.mod hg hcb, hs⟩
  · rw [hf, lookup_append, F.zeroT]; simp [lookup]
  · rw [hs]; simp [lookup]

theorem layer_ne {layer : Layer} {sl : Spec.SLayer} (hL : LayerRel layer sl) (x : Name) (hx : x ≠ 0) :
    OptRel (LayRel layer.mod) (lookup x layer.funs) (lookup x sl) := by
  obtain ⟨sc, bargs, body, hf, hs, hg, hcb⟩ := hL
  have F := cb_facts layer.mod body _ hcb
  have g := F.rel x
  rw [hf, hs, lookup_append]
  simp only [lookup, hx, if_false]
  cases ha : lookup x (collectDefs (callDefs { sc with top := false, cd := false } body)) <;>
    cases hb : lookup x (Spec.callDefsOf layer.mod body) <;> simp only [ha, hb, OptRel] at g ⊢
  exact g

/-- the callables of a layer, as closures, against the layer of the specification -/
theorem layer_clos_rel {layer : Layer} {sl : Spec.SLayer} {tl : NS} (hL : LayerRel layer sl) :
    ClosRel (layerClos layer tl) sl := by
  intro x hx
  have g := layer_ne hL x hx
  simp only [layerClos]
  rw [lookup_map_snd (fun fn => (⟨fn, tl, layer.mod⟩ : Clo))]
  cases ha : lookup x layer.funs <;> cases hb : lookup x sl <;>
    simp only [ha, hb, OptRel, Option.map_none, Option.map_some] at g ⊢
  exact ⟨g.1, g.2.1.symm, by rw [g.2.2]; simp⟩

/-- the content of a `<%call>` declares its own defs once more: nothing new for the names other than `body` -/
theorem lookup_dup_prefix {α} (x : Name) (hx : x ≠ 0) (v : α) (D rest : List (Name × α)) :
    lookup x (D ++ (((0, v) :: D) ++ rest)) = lookup x (((0, v) :: D) ++ rest) := by
  simp only [lookup_append, List.cons_append, lookup, hx, if_false]
  cases lookup x D <;> rfl

end MakoModel.Codegen.Calls
