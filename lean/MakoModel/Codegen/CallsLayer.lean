import MakoModel.Codegen.CallsRel
/-!
# C05 refinement – the `caller` namespace a `<%call>` builds

`visitCallTag` writes the `<%def>`s among the children of the `<%call>` (also below its control lines; not those of
nested `<%call>`s) into `ccall(caller)` (`callDefs`),
then `body`.  For a guarded `<%call>` these are, name by name, the code generated for what `Spec.callDefsOf` and
the specification's `body` callable list; the names are never 0 (= `body`); and what the content of the `<%call>`
declares for its own activation (`Spec.declared`) is the same list again.
-/
namespace MakoModel.Codegen.Calls
open MakoModel.Target MakoModel.Codegen

/-- the relation between the defs of a `ccall` and `Spec.callDefsOf` -/
def LayRel (mod : Nat) (fn : Fun) (sf : Spec.SFun) : Prop := FunRel fn sf ∧ sf.mod = mod ∧ sf.kind = .def_

/-- what the defs of a `ccall` (`funs`) have to do with `Spec.callDefsOf`; what the content of the `<%call>` declares
    for its own activation (`Spec.declared`) is the same list again -/
structure LFacts (mod : Nat) (funs : List (Name × Fun)) (t : Tmpl) : Prop where
  rel : ∀ x, OptRel (LayRel mod) (lookup x funs) (lookup x (Spec.callDefsOf mod t))
  zeroT : lookup 0 funs = none
  zeroS : lookup 0 (Spec.callDefsOf mod t) = none
  decl : Spec.declared false mod t = Spec.callDefsOf mod t

abbrev CBFacts (mod : Nat) (sc : Scope) (t : Tmpl) : Prop := LFacts mod (collectDefs (callDefs sc t)) t

theorem lfacts_empty (mod : Nat) (t : Tmpl)
    (h2 : Spec.callDefsOf mod t = []) (h3 : Spec.declared false mod t = []) : LFacts mod [] t :=
  ⟨fun x => by simp [h2, lookup, OptRel], by simp [lookup], by simp [h2, lookup], by rw [h2, h3]⟩

theorem LFacts.append {mod : Nat} {f1 f2 : List (Name × Fun)} {a b T : Tmpl} (A : LFacts mod f1 a) (B : LFacts mod f2 b)
    (hc : Spec.callDefsOf mod T = Spec.callDefsOf mod a ++ Spec.callDefsOf mod b)
    (hd : Spec.declared false mod T = Spec.declared false mod a ++ Spec.declared false mod b) :
    LFacts mod (f1 ++ f2) T := by
  refine ⟨fun x => ?_, ?_, ?_, ?_⟩
  · rw [hc]; exact optrel_append x (A.rel x) (B.rel x)
  · simp [lookup_append, A.zeroT, B.zeroT]
  · simp [hc, lookup_append, A.zeroS, B.zeroS]
  · rw [hc, hd, A.decl, B.decl]

theorem LFacts.congr {mod : Nat} {f : List (Name × Fun)} {b T : Tmpl} (B : LFacts mod f b)
    (hc : Spec.callDefsOf mod T = Spec.callDefsOf mod b)
    (hd : Spec.declared false mod T = Spec.declared false mod b) : LFacts mod f T :=
  ⟨fun x => by rw [hc]; exact B.rel x, B.zeroT, by rw [hc]; exact B.zeroS, by rw [hc, hd, B.decl]⟩

/-- one `<%def>` written into a `ccall` -/
theorem lfacts_def (mod : Nat) (name : Name) (ps : List Name) (fl : DefFlags) (body : Tmpl) (fn : Fun)
    (hn : name ≠ 0) (hfr : FunRel fn ⟨ps, fl, body, .def_, mod⟩) : LFacts mod [(name, fn)] (.def_ name ps fl body) := by
  refine ⟨fun x => ?_, ?_, ?_, ?_⟩
  · simp only [Spec.callDefsOf, lookup]
    split
    · simp only [OptRel]; exact ⟨hfr, rfl, rfl⟩
    · simp [OptRel]
  · simp [lookup, Ne.symm hn]
  · simp [Spec.callDefsOf, lookup, Ne.symm hn]
  · simp [Spec.declared, Spec.callDefsOf]

theorem cb_facts (mod : Nat) : ∀ (t : Tmpl) (sc : Scope), GoodCB sc t = true → CBFacts mod sc t := by
  intro t
  induction t with
  | seq a b iha ihb =>
    intro sc h
    simp only [GoodCB, Bool.and_eq_true] at h
    simp only [CBFacts, callDefs, collectDefs]
    exact (iha sc h.1).append (ihb sc h.2) (by simp [Spec.callDefsOf]) (by simp [Spec.declared])
  | def_ name ps fl body _ =>
    intro sc h
    simp only [GoodCB, Bool.and_eq_true, Bool.not_eq_true', bne_iff_ne, ne_eq] at h
    obtain ⟨⟨⟨hn, hc⟩, hnd⟩, hg⟩ := h
    have hfr := FunRel.def_ (subScope sc true body) ps fl body (ownsLoops sc body) (effLex sc true body) mod .def_
      (.inl ⟨rfl, rfl⟩) hc hnd hg
    have := lfacts_def mod name ps fl body _ hn hfr
    simpa [CBFacts, callDefs, inlineDef, hc, collectDefs] using this
  | ite cnd a b iha ihb =>
    intro sc h
    simp only [GoodCB, Bool.and_eq_true] at h
    simp only [CBFacts, callDefs, collectDefs]
    exact (iha sc h.1).append (ihb sc h.2) (by simp [Spec.callDefsOf]) (by simp [Spec.declared])
  | try_ a b iha ihb =>
    intro sc h
    simp only [GoodCB, Bool.and_eq_true] at h
    simp only [CBFacts, callDefs, collectDefs]
    exact (iha sc h.1).append (ihb sc h.2) (by simp [Spec.callDefsOf]) (by simp [Spec.declared])
  | for_ x items b ih =>
    intro sc h
    simp only [GoodCB] at h
    simp only [CBFacts, callDefs]
    exact (ih sc h).congr (by simp [Spec.callDefsOf]) (by simp [Spec.declared])
  | while_ m b ih =>
    intro sc h
    simp only [GoodCB] at h
    simp only [CBFacts, callDefs]
    exact (ih sc h).congr (by simp [Spec.callDefsOf]) (by simp [Spec.declared])
  | block _ _ _ _ _ => intro sc h; simp [GoodCB] at h
  | _ =>
    intro sc _
    simp only [CBFacts, callDefs, collectDefs]
    exact lfacts_empty mod _ (by simp [Spec.callDefsOf]) (by simp [Spec.declared])

/-- the prologue of `body()` of a guarded `<%call>` is empty (closures of its `<%def>`s live in `ccall`) -/
theorem bodyHoist_skips : ∀ (t : Tmpl) (sc sc' : Scope) (il bf cv : Bool), Good sc il bf cv true t = true →
    isSkips (bodyHoist sc' t) = true := by
  intro t
  induction t with
  | seq a b iha ihb =>
    intro sc sc' il bf cv h
    simp only [Good, Bool.and_eq_true] at h
    simp [bodyHoist, isSkips, iha sc sc' il bf cv h.1, ihb sc sc' il bf cv h.2]
  | ite c a b iha ihb =>
    intro sc sc' il bf cv h
    simp only [Good, Bool.and_eq_true] at h
    simp [bodyHoist, isSkips, iha sc sc' il bf cv h.1.2, ihb sc sc' il bf cv h.2]
  | try_ a b iha ihb =>
    intro sc sc' il bf cv h
    simp only [Good, Bool.and_eq_true] at h
    simp [bodyHoist, isSkips, iha sc sc' il bf cv h.1, ihb sc sc' il bf cv h.2]
  | for_ x items b ih =>
    intro sc sc' il bf cv h
    simp only [Good, Bool.and_eq_true] at h
    simp [bodyHoist, ih sc sc' _ bf cv h.2]
  | while_ m b ih =>
    intro sc sc' il bf cv h
    simp only [Good] at h
    simp [bodyHoist, ih sc sc' il bf cv h]
  | block _ _ _ _ _ => intro sc sc' il bf cv h; simp [Good] at h
  | _ => intro _ _ _ _ _ _; simp [bodyHoist, isSkips]

/-! ## looking a name up in a layer -/

theorem layer_zero {layer : Layer} {sl : Spec.SLayer} (hL : LayerRel layer sl) :
    ∃ sc bargs body, lookup 0 layer.funs = some (bodyFun sc bargs body) ∧
      lookup 0 sl = some ⟨bargs, noFlags, body, .body, layer.mod⟩ ∧
      FunRel (bodyFun sc bargs body) ⟨bargs, noFlags, body, .body, layer.mod⟩ ∧
      sl = (0, ⟨bargs, noFlags, body, .body, layer.mod⟩) :: Spec.callDefsOf layer.mod body := by
  obtain ⟨sc, bargs, body, hf, hs, hg, hcb⟩ := hL
  have F := cb_facts layer.mod body _ hcb
  refine ⟨sc, bargs, body, ?_, ?_, FunRel.body sc bargs body layer.mod hg hcb, hs⟩
  · rw [hf, lookup_append, F.zeroT]; simp [lookup]
  · rw [hs]; simp [lookup]

theorem layer_ne {layer : Layer} {sl : Spec.SLayer} (hL : LayerRel layer sl) (x : Name) (hx : x ≠ 0) :
    OptRel (LayRel layer.mod) (lookup x layer.funs) (lookup x sl) := by
  obtain ⟨sc, bargs, body, hf, hs, hg, hcb⟩ := hL
  have F := cb_facts layer.mod body _ hcb
  have g := F.rel x
  rw [hf, hs, lookup_append]
  simp only [lookup, hx, if_false]
  cases ha : lookup x (collectDefs (callDefs { sc with top := false, cd := false } body)) <;>
    cases hb : lookup x (Spec.callDefsOf layer.mod body) <;> simp only [ha, hb, OptRel] at g ⊢
  exact g

/-- the callables of a layer, as closures, against the layer of the specification -/
theorem layer_clos_rel {layer : Layer} {sl : Spec.SLayer} {tl : NS} (hL : LayerRel layer sl) :
    ClosRel (layerClos layer tl) sl := by
  intro x hx
  have g := layer_ne hL x hx
  simp only [layerClos]
  rw [lookup_map_snd (fun fn => (⟨fn, tl, layer.mod⟩ : Clo))]
  cases ha : lookup x layer.funs <;> cases hb : lookup x sl <;>
    simp only [ha, hb, OptRel, Option.map_none, Option.map_some] at g ⊢
  exact ⟨⟨g.1, g.2.1.symm, by rw [g.2.2]; simp⟩, fun h => by rw [g.2.2] at h; cases h⟩

/-- the content of a `<%call>` declares its own defs once more: nothing new for the names other than `body` -/
theorem lookup_dup_prefix {α} (x : Name) (hx : x ≠ 0) (v : α) (D rest : List (Name × α)) :
    lookup x (D ++ (((0, v) :: D) ++ rest)) = lookup x (((0, v) :: D) ++ rest) := by
  simp only [lookup_append, List.cons_append, lookup, hx, if_false]
  cases lookup x D <;> rfl

end MakoModel.Codegen.Calls
