import MakoModel.Codegen.CallsRel
import MakoModel.Codegen.CallsShape
/-!
# C05 refinement – closures: defs nested in defs

`write_variable_declares` writes the nested `<%def>`s of a scope as closures at the start of the enclosing
callable (`hoist`).  Executing that prologue extends the local closures by `hoistClos` (the last definition of a
name first, as Python rebinds), and – when the names declared in the scope are distinct – these closures are,
name by name, the code generated for the callables `Spec.declared` lists for the same scope.
-/
namespace MakoModel.Codegen.Calls
open MakoModel.Target MakoModel.Codegen

/-- the closure variable `caller` a `def` statement captures -/
def lexOf (l : Loc) : NS := cond l.useLex l.lexc []

theorem lexOf_eq (l : Loc) : (if l.useLex then l.lexc else []) = lexOf l := by
  cases h : l.useLex <;> simp [lexOf, h]

/-- the closures the prologue of a scope defines, most recent first -/
def hoistClos (lexv : NS) (mod : Nat) (sc : Scope) : Tmpl → List (Name × Clo)
  | .seq a b => hoistClos lexv mod sc b ++ hoistClos lexv mod sc a
  | .ite _ t e => hoistClos lexv mod sc e ++ hoistClos lexv mod sc t
  | .for_ _ _ b => hoistClos lexv mod sc b
  | .while_ _ b => hoistClos lexv mod sc b
  | .try_ b h => hoistClos lexv mod sc h ++ hoistClos lexv mod sc b
  | .def_ name ps fl body =>
    [(name, ⟨⟨ps, ⟨ownsLoops sc body, fl.deco, effLex sc sc.bind body⟩,
              defShape fl (.seq (hoist (subScope sc sc.bind body) body) (.prim .getWriter))
                (stmts (subScope sc sc.bind body) body)⟩, lexv, mod⟩)]
  | _ => []

/-- what the prologue of scope `sc` does to the locals -/
def hoistEff (sc : Scope) (t : Tmpl) (l : Loc) : Loc :=
  { l with funs := hoistClos (lexOf l) l.mod sc t ++ l.funs }

variable (c : Cfg)

theorem ProEff.congr {H : Stmt} {P Q : Loc → Loc} (h : ProEff c H P) (hpq : ∀ l, P l = Q l) : ProEff c H Q :=
  fun n l σ o l' σ' he ho => by
    obtain ⟨h1, h2, h3⟩ := h n l σ o l' σ' he ho
    exact ⟨h1, by rw [h2, hpq], h3⟩

theorem ProEff.seq {H1 H2 : Stmt} {P1 P2 : Loc → Loc} (h1 : ProEff c H1 P1) (h2 : ProEff c H2 P2) :
    ProEff c (.seq H1 H2) (fun l => P2 (P1 l)) := by
  intro n l σ o l' σ' he ho
  obtain ⟨n1, rfl⟩ := exec_pos c he ho
  obtain ⟨oa, la, σa, ha, hcase⟩ := exec_seq_inv c he
  rcases hcase with ⟨rfl, hb⟩ | ⟨hne, rfl, rfl, rfl⟩
  · obtain ⟨_, rfl, rfl⟩ := h1 n1 l σ _ la σa ha (by simp)
    exact h2 n1 _ _ o l' σ' hb ho
  · exact absurd (h1 n1 l σ _ _ _ ha ho).1 hne

theorem proeff_skip : ProEff c .skip id := proeff_skips c rfl

theorem hoistEff_comp (sc : Scope) (a b : Tmpl) (l : Loc) :
    hoistEff sc b (hoistEff sc a l) =
      { l with funs := (hoistClos (lexOf l) l.mod sc b ++ hoistClos (lexOf l) l.mod sc a) ++ l.funs } := by
  cases l
  simp [hoistEff, lexOf, List.append_assoc]

/-- executing the prologue of a guarded scope that is not the template body -/
theorem exec_hoist : ∀ (t : Tmpl) (sc : Scope) (il bf cv : Bool), sc.top = false →
    Good sc il bf cv false t = true → ProEff c (hoist sc t) (hoistEff sc t) := by
  intro t
  induction t with
  | seq a b iha ihb =>
    intro sc il bf cv ht h
    simp only [Good, Bool.and_eq_true] at h
    simp only [hoist]
    exact ((iha sc il bf cv ht h.1).seq c (ihb sc il bf cv ht h.2)).congr c
      (fun l => by rw [hoistEff_comp]; simp [hoistEff, hoistClos])
  | ite cnd a b iha ihb =>
    intro sc il bf cv ht h
    simp only [Good, Bool.and_eq_true] at h
    simp only [hoist]
    exact ((iha sc il bf cv ht h.1.2).seq c (ihb sc il bf cv ht h.2)).congr c
      (fun l => by rw [hoistEff_comp]; simp [hoistEff, hoistClos])
  | try_ a b iha ihb =>
    intro sc il bf cv ht h
    simp only [Good, Bool.and_eq_true] at h
    simp only [hoist]
    exact ((iha sc il bf cv ht h.1).seq c (ihb sc il bf cv ht h.2)).congr c
      (fun l => by rw [hoistEff_comp]; simp [hoistEff, hoistClos])
  | for_ x items b ih =>
    intro sc il bf cv ht h
    simp only [Good, Bool.and_eq_true] at h
    simp only [hoist]
    exact (ih sc _ bf cv ht h.2).congr c (fun l => by simp [hoistEff, hoistClos])
  | while_ m b ih =>
    intro sc il bf cv ht h
    simp only [Good] at h
    simp only [hoist]
    exact (ih sc il bf cv ht h).congr c (fun l => by simp [hoistEff, hoistClos])
  | def_ name ps fl body _ =>
    intro sc il bf cv ht h
    simp only [Good, Bool.false_eq_true, false_or, Bool.or_eq_true, Bool.and_eq_true, Bool.not_eq_true', bne_iff_ne,
      ne_eq] at h
    obtain ⟨⟨⟨_, hc⟩, _⟩, _⟩ := h
    simp only [hoist, ht, Bool.false_eq_true, if_false, inlineDef, hc]
    intro n l σ o l' σ' he ho
    obtain ⟨n1, rfl⟩ := exec_pos c he ho
    simp only [exec, Prod.mk.injEq] at he
    obtain ⟨rfl, rfl, rfl⟩ := he
    exact ⟨rfl, by simp [hoistEff, hoistClos, lexOf_eq], rfl⟩
  | block _ _ _ _ _ => intro sc il bf cv _ h; simp [Good] at h
  | _ =>
    intro sc il bf cv _ _
    simp only [hoist]
    exact (proeff_skip c).congr c (fun l => by simp [hoistEff, hoistClos])

/-! ## names -/

theorem declared_names (mod : Nat) : ∀ t : Tmpl, (Spec.declared false mod t).map (·.1) = declNames t := by
  have key : ∀ (top : Bool) (t : Tmpl), (Spec.declared top mod t).map (·.1) = (Spec.declared top 0 t).map (·.1) := by
    intro top t
    induction t generalizing top with
    | seq a b iha ihb => simp [Spec.declared, iha, ihb]
    | ite c a b iha ihb => simp [Spec.declared, iha, ihb]
    | try_ a b iha ihb => simp [Spec.declared, iha, ihb]
    | for_ x items b ih => simp [Spec.declared, ih]
    | while_ m b ih => simp [Spec.declared, ih]
    | def_ name ps fl b _ => simp only [Spec.declared]; split <;> simp
    | block name anon fl b ih =>
      simp only [Spec.declared, List.map_append, ih]
      split <;> simp
    | _ => simp [Spec.declared]
  exact fun t => key false t

theorem lookup_none_of_not_mem {α} {x : Name} : ∀ {l : List (Name × α)}, x ∉ l.map (·.1) → lookup x l = none := by
  intro l
  induction l with
  | nil => intro _; rfl
  | cons p r ih =>
    intro h
    obtain ⟨y, v⟩ := p
    simp only [List.map_cons, List.mem_cons, not_or] at h
    simp only [lookup, h.1, if_false]
    exact ih h.2

theorem lookup_mem_names {α} {x : Name} {l : List (Name × α)} {v : α} (h : lookup x l = some v) : x ∈ l.map (·.1) := by
  have := lookup_mem h
  exact List.mem_map.mpr ⟨(x, v), this, rfl⟩

theorem nodupB_append : ∀ (a b : List Name), nodupB (a ++ b) = true →
    nodupB a = true ∧ nodupB b = true ∧ ∀ x, x ∈ a → x ∉ b := by
  intro a
  induction a with
  | nil => intro b h; exact ⟨rfl, h, fun x hx => by cases hx⟩
  | cons y r ih =>
    intro b h
    simp only [List.cons_append, nodupB, Bool.and_eq_true, Bool.not_eq_true', List.contains_eq_mem, List.mem_append,
      decide_eq_false_iff_not, not_or] at h
    obtain ⟨h1, h2, h3⟩ := ih b h.2
    refine ⟨by simp [nodupB, h.1.1, h1], h2, ?_⟩
    intro x hx
    rcases List.mem_cons.mp hx with rfl | hx
    · exact h.1.2
    · exact h3 x hx

/-- two scopes with disjoint names, defined one after the other: the later closures come first in the target's
    locals, the earlier ones first in the specification's list – looking a name up gives related answers -/
theorem optrel_swap {ca cb : List (Name × Clo)} {da db : List (Name × Spec.SFun)} (x : Name)
    (ha : OptRel CloRel (lookup x ca) (lookup x da)) (hb : OptRel CloRel (lookup x cb) (lookup x db))
    (hdisj : x ∈ da.map (·.1) → x ∉ db.map (·.1)) :
    OptRel CloRel (lookup x (cb ++ ca)) (lookup x (da ++ db)) := by
  rw [lookup_append, lookup_append]
  cases hda : lookup x da with
  | some sfa =>
    have hxb := lookup_none_of_not_mem (hdisj (lookup_mem_names hda))
    rw [hxb] at hb
    cases hcb : lookup x cb with
    | some _ => simp [hcb, OptRel] at hb
    | none => simpa [hda] using ha
  | none =>
    rw [hda] at ha
    cases hca : lookup x ca with
    | some _ => simp [hca, OptRel] at ha
    | none =>
      cases hcb : lookup x cb <;> simp only [hcb] at hb ⊢
      · simpa using hb
      · simpa using hb

theorem effLex_unbound (sc : Scope) (body : Tmpl) (h : sc.bind = false) : effLex sc sc.bind body = false := by
  simp only [effLex, h]
  split <;> rfl

theorem subScope_unbound (sc : Scope) (body : Tmpl) (h : sc.bind = false) :
    subScope sc sc.bind body = subScope sc false body := by rw [h]

/-- the closures of a guarded scope with distinct names, against `Spec.declared` -/
theorem hoist_closrel (lexv : NS) (mod : Nat) : ∀ (t : Tmpl) (sc : Scope) (il bf cv : Bool), sc.top = false →
    Good sc il bf cv false t = true → nodupB (declNames t) = true →
    ∀ x, x ≠ 0 → OptRel CloRel (lookup x (hoistClos lexv mod sc t)) (lookup x (Spec.declared false mod t)) := by
  intro t
  induction t with
  | seq a b iha ihb =>
    intro sc il bf cv ht h hnd x hx
    simp only [Good, Bool.and_eq_true] at h
    simp only [declNames, Spec.declared, List.map_append] at hnd
    obtain ⟨na, nb, hdisj⟩ := nodupB_append _ _ hnd
    simp only [hoistClos, Spec.declared]
    refine optrel_swap x (iha sc il bf cv ht h.1 na x hx) (ihb sc il bf cv ht h.2 nb x hx) ?_
    rw [declared_names, declared_names]
    exact hdisj x
  | ite cnd a b iha ihb =>
    intro sc il bf cv ht h hnd x hx
    simp only [Good, Bool.and_eq_true] at h
    simp only [declNames, Spec.declared, List.map_append] at hnd
    obtain ⟨na, nb, hdisj⟩ := nodupB_append _ _ hnd
    simp only [hoistClos, Spec.declared]
    refine optrel_swap x (iha sc il bf cv ht h.1.2 na x hx) (ihb sc il bf cv ht h.2 nb x hx) ?_
    rw [declared_names, declared_names]
    exact hdisj x
  | try_ a b iha ihb =>
    intro sc il bf cv ht h hnd x hx
    simp only [Good, Bool.and_eq_true] at h
    simp only [declNames, Spec.declared, List.map_append] at hnd
    obtain ⟨na, nb, hdisj⟩ := nodupB_append _ _ hnd
    simp only [hoistClos, Spec.declared]
    refine optrel_swap x (iha sc il bf cv ht h.1 na x hx) (ihb sc il bf cv ht h.2 nb x hx) ?_
    rw [declared_names, declared_names]
    exact hdisj x
  | for_ y items b ih =>
    intro sc il bf cv ht h hnd x hx
    simp only [Good, Bool.and_eq_true] at h
    simp only [hoistClos, Spec.declared]
    exact ih sc _ bf cv ht h.2 (by simpa [declNames, Spec.declared] using hnd) x hx
  | while_ m b ih =>
    intro sc il bf cv ht h hnd x hx
    simp only [Good] at h
    simp only [hoistClos, Spec.declared]
    exact ih sc il bf cv ht h (by simpa [declNames, Spec.declared] using hnd) x hx
  | def_ name ps fl body _ =>
    intro sc il bf cv ht h hnd x hx
    simp only [Good, Bool.false_eq_true, false_or, Bool.or_eq_true, Bool.and_eq_true, Bool.not_eq_true', bne_iff_ne,
      ne_eq, ht, if_false] at h
    obtain ⟨⟨⟨_, hc⟩, hndb⟩, hg⟩ := h
    simp only [hoistClos, Spec.declared, Bool.false_eq_true, if_false, lookup]
    split
    · simp only [OptRel]
      refine ⟨?_, rfl, by simp⟩
      exact FunRel.def_ (subScope sc sc.bind body) ps fl body (ownsLoops sc body) (effLex sc sc.bind body) mod .def_
        (.inl ⟨rfl, rfl⟩) hc hndb hg
    · simp [OptRel]
  | block _ _ _ _ _ => intro sc il bf cv _ h; simp [Good] at h
  | _ => intro sc il bf cv _ _ _ x _; simp [hoistClos, Spec.declared, lookup, OptRel]

theorem hoistClos_ok {lexv : NS} (hlex : NSOK lexv) (mod : Nat) (sc : Scope) : ∀ (t : Tmpl),
    ∀ p ∈ hoistClos lexv mod sc t, FunOK p.2.fn ∧ NSOK p.2.lex := by
  intro t
  induction t with
  | seq a b iha ihb =>
    intro p hp
    simp only [hoistClos, List.mem_append] at hp
    rcases hp with h | h
    · exact ihb p h
    · exact iha p h
  | ite cnd a b iha ihb =>
    intro p hp
    simp only [hoistClos, List.mem_append] at hp
    rcases hp with h | h
    · exact ihb p h
    · exact iha p h
  | try_ a b iha ihb =>
    intro p hp
    simp only [hoistClos, List.mem_append] at hp
    rcases hp with h | h
    · exact ihb p h
    · exact iha p h
  | for_ x items b ih => intro p hp; exact ih p (by simpa [hoistClos] using hp)
  | while_ m b ih => intro p hp; exact ih p (by simpa [hoistClos] using hp)
  | def_ name ps fl body _ =>
    intro p hp
    simp only [hoistClos, List.mem_singleton] at hp
    subst hp
    exact ⟨defShape_wf fl ((emits body).hoist _).1 ((emits body).hoist _).2 ((emits body).stmts _), hlex⟩
  | _ => intro p hp; simp [hoistClos] at hp

end MakoModel.Codegen.Calls
