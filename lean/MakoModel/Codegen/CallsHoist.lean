import MakoModel.Codegen.CallsRel
import MakoModel.Codegen.CallsShape
/-!
# C05 refinement – closures: defs nested in defs

`write_variable_declares` writes the nested `<%def>`s of a scope as closures at the start of the enclosing
callable (`hoist`).  Executing that prologue extends the local closures by `hoistClos` (the last definition of a
name first, as Python rebinds), and – when the names declared in the scope are distinct – these closures are,
name by name, the code generated for the callables `Spec.declared` lists for the same scope.
-/
namespace MakoModel.Codegen.Calls
open MakoModel.Target MakoModel.Codegen

/-- the closure variable `caller` a `def` statement captures -/
def lexOf (l : Loc) : NS := cond l.useLex l.lexc []

theorem lexOf_eq (l : Loc) : (if l.useLex then l.lexc else []) = lexOf l := by
  cases h : l.useLex <;> simp [lexOf, h]

/-- the closures the prologue of a scope defines, most recent first -/
def hoistClos (lexv : NS) (mod : Nat) (sc : Scope) : Tmpl → List (Name × Clo)
  | .seq a b => hoistClos lexv mod sc b ++ hoistClos lexv mod sc a
  | .ite _ t e => hoistClos lexv mod sc e ++ hoistClos lexv mod sc t
  | .for_ _ _ b => hoistClos lexv mod sc b
  | .while_ _ b => hoistClos lexv mod sc b
  | .try_ b h => hoistClos lexv mod sc h ++ hoistClos lexv mod sc b
  | .def_ name ps fl body =>
    if sc.top then [] else
    [(name, ⟨⟨ps, ⟨ownsLoops sc body, fl.deco, effLex sc sc.bind body⟩,
              defShape fl (.seq (hoist (subScope sc sc.bind body) body) (.prim .getWriter))
                (stmts (subScope sc sc.bind body) body)⟩, lexv, mod⟩)]
  | .block name anon fl body =>
    if sc.top && !anon then [] else
    [(name, ⟨⟨[], ⟨ownsLoops sc body, fl.deco, effLex sc sc.bind body⟩,
              defShape fl (.seq (hoist (subScope sc sc.bind body) body) (.prim .getWriter))
                (stmts (subScope sc sc.bind body) body)⟩, lexv, mod⟩)]
  | _ => []

/-- what the prologue of scope `sc` does to the locals -/
def hoistEff (sc : Scope) (t : Tmpl) (l : Loc) : Loc :=
  { l with funs := hoistClos (lexOf l) l.mod sc t ++ l.funs }

variable (c : Cfg)

theorem ProEff.congr {H : Stmt} {P Q : Loc → Loc} (h : ProEff c H P) (hpq : ∀ l, P l = Q l) : ProEff c H Q :=
  fun n l σ o l' σ' he ho => by
    obtain ⟨h1, h2, h3⟩ := h n l σ o l' σ' he ho
    exact ⟨h1, by rw [h2, hpq], h3⟩

theorem ProEff.seq {H1 H2 : Stmt} {P1 P2 : Loc → Loc} (h1 : ProEff c H1 P1) (h2 : ProEff c H2 P2) :
    ProEff c (.seq H1 H2) (fun l => P2 (P1 l)) := by
  intro n l σ o l' σ' he ho
  obtain ⟨n1, rfl⟩ := exec_pos c he ho
  obtain ⟨oa, la, σa, ha, hcase⟩ := exec_seq_inv c he
  rcases hcase with ⟨rfl, hb⟩ | ⟨hne, rfl, rfl, rfl⟩
  · obtain ⟨_, rfl, rfl⟩ := h1 n1 l σ _ la σa ha (by simp)
    exact h2 n1 _ _ o l' σ' hb ho
  · exact absurd (h1 n1 l σ _ _ _ ha ho).1 hne

theorem proeff_skip : ProEff c .skip id := proeff_skips c rfl

theorem hoistEff_comp (sc : Scope) (a b : Tmpl) (l : Loc) :
    hoistEff sc b (hoistEff sc a l) =
      { l with funs := (hoistClos (lexOf l) l.mod sc b ++ hoistClos (lexOf l) l.mod sc a) ++ l.funs } := by
  cases l
  simp [hoistEff, lexOf, List.append_assoc]

/-- executing the prologue of a guarded scope -/
theorem exec_hoist : ∀ (t : Tmpl) (sc : Scope) (il bf cv : Bool),
    Good sc il bf cv false t = true → ProEff c (hoist sc t) (hoistEff sc t) := by
  intro t
  induction t with
  | seq a b iha ihb =>
    intro sc il bf cv h
    simp only [Good, Bool.and_eq_true] at h
    simp only [hoist]
    exact ((iha sc il bf cv h.1).seq c (ihb sc il bf cv h.2)).congr c
      (fun l => by rw [hoistEff_comp]; simp [hoistEff, hoistClos])
  | ite cnd a b iha ihb =>
    intro sc il bf cv h
    simp only [Good, Bool.and_eq_true] at h
    simp only [hoist]
    exact ((iha sc il bf cv h.1.2).seq c (ihb sc il bf cv h.2)).congr c
      (fun l => by rw [hoistEff_comp]; simp [hoistEff, hoistClos])
  | try_ a b iha ihb =>
    intro sc il bf cv h
    simp only [Good, Bool.and_eq_true] at h
    simp only [hoist]
    exact ((iha sc il bf cv h.1).seq c (ihb sc il bf cv h.2)).congr c
      (fun l => by rw [hoistEff_comp]; simp [hoistEff, hoistClos])
  | for_ x items b ih =>
    intro sc il bf cv h
    simp only [Good, Bool.and_eq_true] at h
    simp only [hoist]
    exact (ih sc _ bf cv h.2).congr c (fun l => by simp [hoistEff, hoistClos])
  | while_ m b ih =>
    intro sc il bf cv h
    simp only [Good] at h
    simp only [hoist]
    exact (ih sc il bf cv h).congr c (fun l => by simp [hoistEff, hoistClos])
  | def_ name ps fl body _ =>
    intro sc il bf cv h
    simp only [Good, Bool.false_eq_true, false_or, Bool.or_eq_true, Bool.and_eq_true, Bool.not_eq_true', bne_iff_ne,
      ne_eq] at h
    obtain ⟨⟨⟨_, hc⟩, _⟩, _⟩ := h
    cases ht : sc.top with
    | true =>
      simp only [hoist, ht, if_true]
      exact (proeff_skip c).congr c (fun l => by simp [hoistEff, hoistClos, ht])
    | false =>
      simp only [hoist, ht, Bool.false_eq_true, if_false, inlineDef, hc]
      intro n l σ o l' σ' he ho
      obtain ⟨n1, rfl⟩ := exec_pos c he ho
      simp only [exec, Prod.mk.injEq] at he
      obtain ⟨rfl, rfl, rfl⟩ := he
      exact ⟨rfl, by simp [hoistEff, hoistClos, lexOf_eq, ht], rfl⟩
  | block name anon fl body _ =>
    intro sc il bf cv h
    simp only [Good, Bool.not_false, Bool.true_and, Bool.and_eq_true, Bool.not_eq_true', decide_eq_true_eq] at h
    obtain ⟨⟨⟨⟨_, hc⟩, hnd⟩, _⟩, _⟩ := h
    have hin := proeff_skips c ((nodefs_facts body hnd).hoist { sc with top := false })
    simp only [hoist]
    cases hta : (sc.top && !anon) with
    | true =>
      simp only [if_true]
      exact ((proeff_skip c).seq c hin).congr c (fun l => by simp [hoistEff, hoistClos, hta])
    | false =>
      simp only [Bool.false_eq_true, if_false, inlineDef, hc]
      have hdef : ProEff c (.defn name [] { ownLoops := ownsLoops sc body, deco := fl.deco, lex := effLex sc sc.bind body }
          (defShape fl (.seq (hoist (subScope sc sc.bind body) body) (.prim .getWriter)) (stmts (subScope sc sc.bind body) body)))
          (hoistEff sc (.block name anon fl body)) := by
        intro n l σ o l' σ' he ho
        obtain ⟨n1, rfl⟩ := exec_pos c he ho
        simp only [exec, Prod.mk.injEq] at he
        obtain ⟨rfl, rfl, rfl⟩ := he
        exact ⟨rfl, by simp [hoistEff, hoistClos, lexOf_eq, hta], rfl⟩
      exact (hdef.seq c hin).congr c (fun l => rfl)
  | _ =>
    intro sc il bf cv _
    simp only [hoist]
    exact (proeff_skip c).congr c (fun l => by simp [hoistEff, hoistClos])

/-! ## names -/

theorem declared_names_mod (mod : Nat) : ∀ (top : Bool) (t : Tmpl),
    (Spec.declared top mod t).map (·.1) = (Spec.declared top 0 t).map (·.1) := by
    intro top t
    induction t generalizing top with
    | seq a b iha ihb => simp [Spec.declared, iha, ihb]
    | ite c a b iha ihb => simp [Spec.declared, iha, ihb]
    | try_ a b iha ihb => simp [Spec.declared, iha, ihb]
    | for_ x items b ih => simp [Spec.declared, ih]
    | while_ m b ih => simp [Spec.declared, ih]
    | def_ name ps fl b _ => simp only [Spec.declared]; split <;> simp
    | block name anon fl b ih =>
      simp only [Spec.declared, List.map_append, ih]
      split <;> simp
    | _ => simp [Spec.declared]

theorem declared_names (mod : Nat) (t : Tmpl) : (Spec.declared false mod t).map (·.1) = declNames t :=
  declared_names_mod mod false t

theorem lookup_none_of_not_mem {α} {x : Name} : ∀ {l : List (Name × α)}, x ∉ l.map (·.1) → lookup x l = none := by
  intro l
  induction l with
  | nil => intro _; rfl
  | cons p r ih =>
    intro h
    obtain ⟨y, v⟩ := p
    simp only [List.map_cons, List.mem_cons, not_or] at h
    simp only [lookup, h.1, if_false]
    exact ih h.2

theorem lookup_mem_names {α} {x : Name} {l : List (Name × α)} {v : α} (h : lookup x l = some v) : x ∈ l.map (·.1) := by
  have := lookup_mem h
  exact List.mem_map.mpr ⟨(x, v), this, rfl⟩

theorem nodupB_append : ∀ (a b : List Name), nodupB (a ++ b) = true →
    nodupB a = true ∧ nodupB b = true ∧ ∀ x, x ∈ a → x ∉ b := by
  intro a
  induction a with
  | nil => intro b h; exact ⟨rfl, h, fun x hx => by cases hx⟩
  | cons y r ih =>
    intro b h
    simp only [List.cons_append, nodupB, Bool.and_eq_true, Bool.not_eq_true', List.contains_eq_mem, List.mem_append,
      decide_eq_false_iff_not, not_or] at h
    obtain ⟨h1, h2, h3⟩ := ih b h.2
    refine ⟨by simp [nodupB, h.1.1, h1], h2, ?_⟩
    intro x hx
    rcases List.mem_cons.mp hx with rfl | hx
    · exact h.1.2
    · exact h3 x hx

/-- two scopes with disjoint names, defined one after the other: the later closures come first in the target's
    locals, the earlier ones first in the specification's list – looking a name up gives related answers -/
theorem optrel_swap {R : Clo → Spec.SFun → Prop} {ca cb : List (Name × Clo)} {da db : List (Name × Spec.SFun)} (x : Name)
    (ha : OptRel R (lookup x ca) (lookup x da)) (hb : OptRel R (lookup x cb) (lookup x db))
    (hdisj : x ∈ da.map (·.1) → x ∉ db.map (·.1)) :
    OptRel R (lookup x (cb ++ ca)) (lookup x (da ++ db)) := by
  rw [lookup_append, lookup_append]
  cases hda : lookup x da with
  | some sfa =>
    have hxb := lookup_none_of_not_mem (hdisj (lookup_mem_names hda))
    rw [hxb] at hb
    cases hcb : lookup x cb with
    | some _ => simp [hcb, OptRel] at hb
    | none => simpa [hda] using ha
  | none =>
    rw [hda] at ha
    cases hca : lookup x ca with
    | some _ => simp [hca, OptRel] at ha
    | none =>
      cases hcb : lookup x cb <;> simp only [hcb] at hb ⊢
      · simpa using hb
      · simpa using hb

/-- closures reachable by name `x`, with the condition on block names -/
def CloRelX (x : Name) (clo : Clo) (sf : Spec.SFun) : Prop := CloRel clo sf ∧ (sf.kind = .block → blockBase ≤ x)

theorem closrel_of_x {funs : List (Name × Clo)} {defs : List (Name × Spec.SFun)}
    (h : ∀ x, x ≠ 0 → OptRel (CloRelX x) (lookup x funs) (lookup x defs)) : ClosRel funs defs := h

/-- the closures of a guarded scope with distinct names, against `Spec.declared` -/
theorem hoist_closrel (lexv : NS) (mod : Nat) : ∀ (t : Tmpl) (sc : Scope) (il bf cv : Bool),
    Good sc il bf cv false t = true → nodupB ((Spec.declared sc.top mod t).map (·.1)) = true →
    ∀ x, x ≠ 0 → OptRel (CloRelX x) (lookup x (hoistClos lexv mod sc t)) (lookup x (Spec.declared sc.top mod t)) := by
  intro t
  induction t with
  | seq a b iha ihb =>
    intro sc il bf cv h hnd x hx
    simp only [Good, Bool.and_eq_true] at h
    simp only [Spec.declared, List.map_append] at hnd
    obtain ⟨na, nb, hdisj⟩ := nodupB_append _ _ hnd
    simp only [hoistClos, Spec.declared]
    exact optrel_swap x (iha sc il bf cv h.1 na x hx) (ihb sc il bf cv h.2 nb x hx) (hdisj x)
  | ite cnd a b iha ihb =>
    intro sc il bf cv h hnd x hx
    simp only [Good, Bool.and_eq_true] at h
    simp only [Spec.declared, List.map_append] at hnd
    obtain ⟨na, nb, hdisj⟩ := nodupB_append _ _ hnd
    simp only [hoistClos, Spec.declared]
    exact optrel_swap x (iha sc il bf cv h.1.2 na x hx) (ihb sc il bf cv h.2 nb x hx) (hdisj x)
  | try_ a b iha ihb =>
    intro sc il bf cv h hnd x hx
    simp only [Good, Bool.and_eq_true] at h
    simp only [Spec.declared, List.map_append] at hnd
    obtain ⟨na, nb, hdisj⟩ := nodupB_append _ _ hnd
    simp only [hoistClos, Spec.declared]
    exact optrel_swap x (iha sc il bf cv h.1 na x hx) (ihb sc il bf cv h.2 nb x hx) (hdisj x)
  | for_ y items b ih =>
    intro sc il bf cv h hnd x hx
    simp only [Good, Bool.and_eq_true] at h
    simp only [hoistClos, Spec.declared]
    exact ih sc _ bf cv h.2 (by simpa [Spec.declared] using hnd) x hx
  | while_ m b ih =>
    intro sc il bf cv h hnd x hx
    simp only [Good] at h
    simp only [hoistClos, Spec.declared]
    exact ih sc il bf cv h (by simpa [Spec.declared] using hnd) x hx
  | def_ name ps fl body _ =>
    intro sc il bf cv h hnd x hx
    simp only [Good, Bool.false_eq_true, false_or, Bool.or_eq_true, Bool.and_eq_true, Bool.not_eq_true', bne_iff_ne,
      ne_eq] at h
    obtain ⟨⟨⟨_, hc⟩, hndb⟩, hg⟩ := h
    cases ht : sc.top with
    | true => simp [hoistClos, Spec.declared, ht, lookup, OptRel]
    | false =>
      simp only [ht, Bool.false_eq_true, if_false] at hg
      simp only [hoistClos, Spec.declared, ht, Bool.false_eq_true, if_false, lookup]
      split
      · simp only [OptRel, CloRelX]
        refine ⟨⟨?_, rfl, by simp⟩, by simp⟩
        exact FunRel.def_ (subScope sc sc.bind body) ps fl body (ownsLoops sc body) (effLex sc sc.bind body) mod .def_
          (.inl ⟨rfl, rfl⟩) hc hndb hg
      · simp [OptRel]
  | block name anon fl body _ =>
    intro sc il bf cv h hnd x hx
    cases hta : (sc.top && !anon) with
    | true =>
      simp only [Good, Bool.not_false, Bool.true_and, Bool.and_eq_true] at h
      have F := nodefs_facts body h.1.1.2
      simp [hoistClos, Spec.declared, F.declared, hta, lookup, OptRel]
    | false =>
      simp only [Good, hta, Bool.false_eq_true, if_false, Bool.not_false, Bool.true_and, Bool.and_eq_true,
        Bool.not_eq_true', decide_eq_true_eq, Bool.or_eq_true] at h
      obtain ⟨⟨⟨⟨hbn, hc⟩, hndf⟩, hlp⟩, hg⟩ := h
      have F := nodefs_facts body hndf
      simp only [hoistClos, Spec.declared, F.declared, List.append_nil, hta]
      have hown : ownsLoops sc body = false := by
        simp only [ownsLoops]
        rcases hlp with h1 | h1
        · simp [h1]
        · simp [h1.1]
      simp only [Bool.false_eq_true, if_false, lookup]
      split
      · rename_i hxn
        subst hxn
        simp only [OptRel, CloRelX]
        refine ⟨⟨?_, rfl, by simp⟩, fun _ => hbn⟩
        have := FunRel.def_ (subScope sc sc.bind body) [] fl body false (effLex sc sc.bind body) mod .block
          (.inr (.inr ⟨rfl, rfl, rfl⟩)) hc (by simp [subScope, F.declared, nodupB]) hg
        simpa [hown] using this
      · simp [OptRel]
  | _ => intro sc il bf cv _ _ x _; simp [hoistClos, Spec.declared, lookup, OptRel]

theorem hoistClos_ok {lexv : NS} (hlex : NSOK lexv) (mod : Nat) (sc : Scope) : ∀ (t : Tmpl),
    ∀ p ∈ hoistClos lexv mod sc t, FunOK p.2.fn ∧ NSOK p.2.lex := by
  intro t
  induction t with
  | seq a b iha ihb =>
    intro p hp
    simp only [hoistClos, List.mem_append] at hp
    rcases hp with h | h
    · exact ihb p h
    · exact iha p h
  | ite cnd a b iha ihb =>
    intro p hp
    simp only [hoistClos, List.mem_append] at hp
    rcases hp with h | h
    · exact ihb p h
    · exact iha p h
  | try_ a b iha ihb =>
    intro p hp
    simp only [hoistClos, List.mem_append] at hp
    rcases hp with h | h
    · exact ihb p h
    · exact iha p h
  | for_ x items b ih => intro p hp; exact ih p (by simpa [hoistClos] using hp)
  | while_ m b ih => intro p hp; exact ih p (by simpa [hoistClos] using hp)
  | def_ name ps fl body _ =>
    intro p hp
    simp only [hoistClos] at hp
    split at hp
    · cases hp
    · simp only [List.mem_singleton] at hp
      subst hp
      exact ⟨defShape_wf fl ((emits body).hoist _).1 ((emits body).hoist _).2 ((emits body).stmts _), hlex⟩
  | block name anon fl body _ =>
    intro p hp
    simp only [hoistClos] at hp
    split at hp
    · cases hp
    · simp only [List.mem_singleton] at hp
      subst hp
      exact ⟨defShape_wf fl ((emits body).hoist _).1 ((emits body).hoist _).2 ((emits body).stmts _), hlex⟩
  | _ => intro p hp; simp [hoistClos] at hp

end MakoModel.Codegen.Calls
