import MakoModel.Codegen.CallsInvoke
/-!
# C05 refinement – the statements of a scope

The statements generated for any guarded template – control structures, expressions with calls, `<%call>` with a
body, `<%text filter>`, `return/break/continue` – append to the buffer on top what `Spec.snodes` returns, with the
same outcome, counter and variables, and leave the locals that denote `caller`, the closures and the module alone.
-/
namespace MakoModel.Codegen.Calls
open MakoModel.Target MakoModel.Codegen

variable (ts : List (Tmpl × Option Bool)) (k : Nat)

theorem good_applyFilters (il ce cv : Bool) (fs : List Nat) (e : Expr) (h : GoodE il ce cv e = true) :
    GoodE il ce cv (applyFilters fs e) = true := by
  induction fs generalizing e with
  | nil => exact h
  | cons f fs ih => exact ih (.filt f e) (by simpa [GoodE] using h)

theorem bal_next_nil {i top rest σ σ'} (b : Bal i top rest σ σ') (hn : σ.next = []) : σ'.next = [] := by
  rw [b.next, hn]

theorem RetE.of_ne {o : Outcome} (h : ∀ v, o ≠ .ret v) : RetE o := fun v hv => absurd hv (h v)

/-- the layer a guarded `<%call>` hands to its callee -/
theorem call_layer_rel (sc : Scope) (bodyArgs : List Name) (body : Tmpl) (mod : Nat)
    (hg : Good (bodyScope sc body) false false true true body = true)
    (hcb : GoodCB { sc with top := false, cd := false } body = true) :
    LayerRel ⟨collectDefs (.seq (callDefs { sc with top := false, cd := false } body)
                (.defn 0 bodyArgs { ownLoops := ownsLoops sc body, deco := false, lex := true }
                   (.seq (.seq (bodyHoist (bodyScope sc body) body) (.prim .getWriter))
                         (.seq (stmts (bodyScope sc body) body) (.ret emptyStr))))), mod⟩
      ((0, ⟨bodyArgs, noFlags, body, .body, mod⟩) :: Spec.callDefsOf mod body) :=
  ⟨sc, bodyArgs, body, by simp [collectDefs, bodyFun], rfl, hg, hcb⟩

/-- a `<%block>` is rendered in place: `__M_writer(block() or '')` - what its callable writes, then what it returns
    (the content of a buffered block; /repo 248d875) -/
theorem snodes_block (C : Spec.Cfg) (m : Nat) (name : Name) (anon : Bool) (fl : DefFlags) (body : Tmpl)
    (E : Spec.Env) (cnt : Nat) :
    Spec.snodes C (m + 2) (.block name anon fl body) E cnt =
      (match Spec.seval C (m + 2) (.call name []) E [] cnt with
       | ⟨.val v, o, c1⟩ => ⟨.normal, o ++ v, c1, E.vars⟩
       | ⟨.exc e, o, c1⟩ => ⟨.exc e, o, c1, E.vars⟩
       | ⟨.timeout, o, c1⟩ => ⟨.timeout, o, c1, E.vars⟩) := by
  simp only [Spec.snodes, Spec.seval, Spec.sargs]
  cases Spec.resolveS C E name with
  | none => rfl
  | some fn =>
    simp only
    generalize Spec.sinvoke C (m + 1) fn [] [] E [] cnt = x
    obtain ⟨r, o, c1⟩ := x
    cases r <;> simp

theorem rc_stmt (hG : GoodAll ts) (n : Nat) (ih : ∀ m, m < n + 1 → RC ts k m) : StmtRef ts k (n + 1) := by
  intro t sc il bf cv cb l σ E i top rest o l' σ' hg hR hn hil hl hσ hb hw he ho
  have A := ih n (Nat.lt_succ_self n)
  have G := all_good (progOf ts k) (codegen_cfg_ok ts k)
  have hN : NSRel σ.next [] := by rw [hn]; exact NSRel.nil
  -- a leaf whose only effect is appending `w`
  have leaf : ∀ (w : Str) (so : Spec.SOut), σ'.bufs = (i, top ++ w) :: rest → σ'.cnt = σ.cnt → l'.vars = l.vars →
      Keep l l' → conv o = so → RetE o → (∀ m, Spec.snodes ⟨ts, k⟩ (m + 1) t E σ.cnt = ⟨so, w, σ.cnt, E.vars⟩) →
      ∃ out vars', σ'.bufs = (i, top ++ out) :: rest ∧
        Ev (fun m => Spec.snodes ⟨ts, k⟩ m t E σ.cnt) ⟨conv o, out, σ'.cnt, vars'⟩ ∧ VarsAgree l' vars' ∧ Keep l l' ∧
        RetE o := by
    intro w so h1 h2 h3 hk h4 hre h5
    refine ⟨w, E.vars, h1, ⟨1, fun m hm => ?_⟩, fun x => by rw [h3]; exact hR.vars x, hk, hre⟩
    obtain ⟨m, rfl⟩ := Nat.exists_eq_add_of_le' hm
    show Spec.snodes ⟨ts, k⟩ (m + 1) t E σ.cnt = _
    rw [h5 m, h4, h2]
  cases t with
  | nil =>
    simp only [stmts, exec, Prod.mk.injEq] at he; obtain ⟨rfl, rfl, rfl⟩ := he
    exact leaf [] .normal (by simp [hb]) rfl rfl (Keep.refl _) rfl (RetE.of_ne (by simp)) (fun m => by simp [Spec.snodes])
  | brk =>
    simp only [stmts, exec, Prod.mk.injEq] at he; obtain ⟨rfl, rfl, rfl⟩ := he
    exact leaf [] .brk (by simp [hb]) rfl rfl (Keep.refl _) rfl (RetE.of_ne (by simp)) (fun m => by simp [Spec.snodes])
  | cont =>
    simp only [stmts, exec, Prod.mk.injEq] at he; obtain ⟨rfl, rfl, rfl⟩ := he
    exact leaf [] .cont (by simp [hb]) rfl rfl (Keep.refl _) rfl (RetE.of_ne (by simp)) (fun m => by simp [Spec.snodes])
  | def_ name ps fl body =>
    simp only [stmts, exec, Prod.mk.injEq] at he; obtain ⟨rfl, rfl, rfl⟩ := he
    exact leaf [] .normal (by simp [hb]) rfl rfl (Keep.refl _) rfl (RetE.of_ne (by simp)) (fun m => by simp [Spec.snodes])
  | block name anon fl body =>
    simp only [Good, Bool.and_eq_true, Bool.not_eq_true', decide_eq_true_eq] at hg
    have hge : GoodE il false cv (.call name []) = true := by
      have : name ≠ 0 := by
        intro h0; have h2 := hg.1.1.1.1.2; rw [h0] at h2; exact absurd h2 (by decide)
      simp [GoodE, GoodArgs, this]
    simp only [stmts, exec] at he
    generalize hx : eval (progOf ts k) n (.call name []) l σ = y at he
    obtain ⟨r, σ1⟩ := y
    have g := A.eval _ il false cv l σ E [] i top rest r σ1 hge hR hN (fun _ => hn) hil hl hσ hb hx
    cases r with
    | timeout => simp only [Prod.mk.injEq] at he; exact absurd he.1.symm ho
    | val v =>
      simp only [Prod.mk.injEq] at he; obtain ⟨rfl, rfl, rfl⟩ := he
      obtain ⟨o1, hb1, p1, m1, e1⟩ := g (by simp)
      refine ⟨o1 ++ v, E.vars, by simp [hb1, hw, writeTo], ⟨m1 + 2, fun m hm => ?_⟩, hR.vars, Keep.refl _,
        RetE.of_ne (by simp)⟩
      obtain ⟨m, rfl⟩ := Nat.exists_eq_add_of_le' (by omega : 2 ≤ m)
      have := e1 (m + 2) (by omega)
      simp only at this
      show Spec.snodes ⟨ts, k⟩ (m + 2) _ E σ.cnt = _
      rw [snodes_block, this]; simp [convV, conv]
    | exc x =>
      simp only [Prod.mk.injEq] at he; obtain ⟨rfl, rfl, rfl⟩ := he
      obtain ⟨o1, hb1, p1, m1, e1⟩ := g (by simp)
      refine ⟨o1, E.vars, hb1, ⟨m1 + 2, fun m hm => ?_⟩, hR.vars, Keep.refl _, RetE.of_ne (by simp)⟩
      obtain ⟨m, rfl⟩ := Nat.exists_eq_add_of_le' (by omega : 2 ≤ m)
      have := e1 (m + 2) (by omega)
      simp only at this
      show Spec.snodes ⟨ts, k⟩ (m + 2) _ E σ.cnt = _
      rw [snodes_block, this]; simp [convV, conv]
  | include_ j =>
    -- `runtime._include_file(context, <template j>, …)`: the body of template `j` as a callable of its own module
    simp only [stmts, exec] at he
    rcases n with _ | n1
    · simp only [eval, Prod.mk.injEq] at he; exact absurd he.1.symm ho
    simp only [eval, progOf, List.getElem?_map] at he
    cases hts : ts[j]? with
    | none =>
      simp only [hts, Option.map_none, Prod.mk.injEq] at he
      obtain ⟨rfl, rfl, rfl⟩ := he
      refine ⟨[], E.vars, by simp [hb], ⟨2, fun m hm => ?_⟩, hR.vars, Keep.refl _, RetE.of_ne (by simp)⟩
      obtain ⟨m, rfl⟩ := Nat.exists_eq_add_of_le' (by omega : 2 ≤ m)
      simp [Spec.snodes, Spec.sinclude, hts, conv]
    | some p =>
      obtain ⟨t, ieh⟩ := p
      simp only [hts, Option.map_some, codegenModule] at he
      have hgt : GoodTop t = true := hG (t, ieh) (List.mem_of_getElem? hts)
      generalize hx : invoke _ n1 _ [] _ σ = y at he
      obtain ⟨r, σ1⟩ := y
      have hx' : invoke (progOf ts k) n1 ⟨⟨[], ⟨refsLoop t, false, false⟩, codegen t⟩, [], j⟩ [] { l with funs := [] } σ
          = (r, σ1) := hx
      have hto : r ≠ .timeout := by
        rintro rfl
        cases ieh <;> simp only [Prod.mk.injEq] at he <;> exact ho he.1.symm
      obtain ⟨o1, hb1, p1, m1, e1⟩ := (ih n1 (by omega)).invoke _ ⟨[], noFlags, t, .main, j⟩ [] [] { l with funs := [] } σ
        { E with defs := [] } [] i top rest r σ1 (body_funrel t j hgt) rfl (fun h => by cases h) (fun h => by cases h)
        ⟨hR.vars, hR.nb, hR.nf, fun x _ => by simp [lookup, OptRel]⟩ hN ⟨fun p hp => (by cases hp), hl.caller, hl.lexc⟩
        NSOK_nil hσ hb hx' hto
      -- the specification side, for large fuel
      have spec : ∀ m, m1 + 2 ≤ m → Spec.snodes ⟨ts, k⟩ m (.include_ j) E σ.cnt =
          (match ieh, convV r with
            | some b, .exc e => (match (if b then Spec.SV.val [] else Spec.SV.exc e) with
                | .val _ => ⟨.normal, o1 ++ ['[', 'H', ']'], σ1.cnt, E.vars⟩
                | .exc e' => ⟨.exc e', o1 ++ ['[', 'H', ']'], σ1.cnt, E.vars⟩
                | .timeout => ⟨.timeout, o1 ++ ['[', 'H', ']'], σ1.cnt, E.vars⟩)
            | _, .val _ => ⟨.normal, o1, σ1.cnt, E.vars⟩
            | _, .exc e => ⟨.exc e, o1, σ1.cnt, E.vars⟩
            | _, .timeout => ⟨.timeout, o1, σ1.cnt, E.vars⟩) := by
        intro m hm
        obtain ⟨m, rfl⟩ := Nat.exists_eq_add_of_le' (by omega : 2 ≤ m)
        have a1 := e1 m (by omega)
        simp only at a1
        simp only [Spec.snodes, Spec.sinclude, hts, a1]
        cases ieh <;> cases r <;> simp [convV] <;> (try (rename_i b _; cases b <;> simp))
      cases r with
      | timeout => exact absurd rfl hto
      | val v =>
        have he2 : (o, l', σ') = (.normal, l, σ1) := by cases ieh <;> exact he.symm
        simp only [Prod.mk.injEq] at he2
        obtain ⟨rfl, rfl, rfl⟩ := he2
        refine ⟨o1, E.vars, hb1, ⟨m1 + 2, fun m hm => ?_⟩, hR.vars, Keep.refl _, RetE.of_ne (by simp)⟩
        show Spec.snodes ⟨ts, k⟩ m (.include_ j) E σ.cnt = _
        rw [spec m hm]
        cases ieh <;> simp [convV, conv]
      | exc e =>
        cases ieh with
        | none =>
          simp only [Prod.mk.injEq] at he
          obtain ⟨rfl, rfl, rfl⟩ := he
          refine ⟨o1, E.vars, hb1, ⟨m1 + 2, fun m hm => ?_⟩, hR.vars, Keep.refl _, RetE.of_ne (by simp)⟩
          show Spec.snodes ⟨ts, k⟩ m (.include_ j) E σ.cnt = _
          rw [spec m hm]
          simp [convV, conv]
        | some b =>
          simp only at he
          cases b with
          | true =>
            simp only [if_true, Prod.mk.injEq] at he
            obtain ⟨rfl, rfl, rfl⟩ := he
            refine ⟨o1 ++ ['[', 'H', ']'], E.vars, by simp [hb1, writeTop], ⟨m1 + 2, fun m hm => ?_⟩, hR.vars, Keep.refl _,
              RetE.of_ne (by simp)⟩
            show Spec.snodes ⟨ts, k⟩ m (.include_ j) E σ.cnt = _
            rw [spec m hm]
            simp [convV, conv]
          | false =>
            simp only [Bool.false_eq_true, if_false, Prod.mk.injEq] at he
            obtain ⟨rfl, rfl, rfl⟩ := he
            refine ⟨o1 ++ ['[', 'H', ']'], E.vars, by simp [hb1, writeTop], ⟨m1 + 2, fun m hm => ?_⟩, hR.vars, Keep.refl _,
              RetE.of_ne (by simp)⟩
            show Spec.snodes ⟨ts, k⟩ m (.include_ j) E σ.cnt = _
            rw [spec m hm]
            simp [convV, conv]
  | ret =>
    simp only [stmts, exec] at he
    rcases n with _ | n1
    · simp only [eval, Prod.mk.injEq] at he; exact absurd he.1.symm ho
    simp only [eval, emptyStr, Prod.mk.injEq] at he; obtain ⟨rfl, rfl, rfl⟩ := he
    exact leaf [] .ret (by simp [hb]) rfl rfl (Keep.refl _) rfl (fun v hv => by cases hv; rfl)
      (fun m => by simp [Spec.snodes])
  | text s =>
    simp only [stmts, exec] at he
    rcases n with _ | n1
    · simp only [eval, Prod.mk.injEq] at he; exact absurd he.1.symm ho
    simp only [eval, Prod.mk.injEq] at he; obtain ⟨rfl, rfl, rfl⟩ := he
    exact leaf s .normal (by simp [hb, hw, writeTo]) rfl rfl (Keep.refl _) rfl (RetE.of_ne (by simp))
      (fun m => by simp [Spec.snodes])
  | expr e fs =>
    simp only [Good] at hg
    simp only [stmts, exec] at he
    generalize hx : eval (progOf ts k) n (applyFilters fs e) l σ = y at he
    obtain ⟨r, σ1⟩ := y
    have g := A.eval _ il false cv l σ E [] i top rest r σ1 (good_applyFilters il false cv fs e hg) hR hN (fun _ => hn) hil hl hσ
      hb hx
    cases r with
    | timeout => simp only [Prod.mk.injEq] at he; exact absurd he.1.symm ho
    | val v =>
      simp only [Prod.mk.injEq] at he; obtain ⟨rfl, rfl, rfl⟩ := he
      obtain ⟨o1, hb1, p1, m1, e1⟩ := g (by simp)
      refine ⟨o1 ++ v, E.vars, by simp [hb1, hw, writeTo], ⟨m1 + 1, fun m hm => ?_⟩, hR.vars, Keep.refl _,
        RetE.of_ne (by simp)⟩
      obtain ⟨m, rfl⟩ := Nat.exists_eq_add_of_le' (by omega : 1 ≤ m)
      have := e1 m (by omega)
      simp only at this
      simp [Spec.snodes, this, convV, conv]
    | exc x =>
      simp only [Prod.mk.injEq] at he; obtain ⟨rfl, rfl, rfl⟩ := he
      obtain ⟨o1, hb1, p1, m1, e1⟩ := g (by simp)
      refine ⟨o1, E.vars, hb1, ⟨m1 + 1, fun m hm => ?_⟩, hR.vars, Keep.refl _, RetE.of_ne (by simp)⟩
      obtain ⟨m, rfl⟩ := Nat.exists_eq_add_of_le' (by omega : 1 ≤ m)
      have := e1 m (by omega)
      simp only at this
      simp [Spec.snodes, this, convV, conv]
  | call e bodyArgs body =>
    simp only [Good, Bool.and_eq_true] at hg
    simp only [stmts] at he
    -- `__M_nextcaller = context.caller_stack.nextcaller`
    obtain ⟨os, ls, σs, hs0, hcase0⟩ := exec_seq_inv (progOf ts k) he
    have hsave : os ≠ .timeout → os = .normal ∧ { l with savedNext := σ.next } = ls ∧ σ = σs := by
      intro hto
      obtain ⟨n2, rfl⟩ := exec_pos (progOf ts k) hs0 hto
      rw [exec_prim] at hs0
      simp only [execPrim, Prod.mk.injEq] at hs0
      obtain ⟨rfl, rfl, rfl⟩ := hs0
      exact ⟨rfl, rfl, rfl⟩
    rcases hcase0 with ⟨rfl, he1⟩ | ⟨hne, rfl, rfl, rfl⟩
    · obtain ⟨_, rfl, rfl⟩ := hsave (by simp)
      obtain ⟨n1, rfl⟩ := exec_pos (progOf ts k) he1 ho
      have hl' : LocOK { l with savedNext := σ.next } := ⟨hl.funs, hl.caller, hl.lexc⟩
      have hR' : RelC cv { l with savedNext := σ.next } σ E :=
        ⟨hR.vars, hR.loops, hR.nb, hR.nf, hR.funs, hR.mod, hR.cview, hR.lcaller⟩
      obtain ⟨o0, l0, σ0, h0, hcase⟩ := exec_seq_inv (progOf ts k) he1
      have hset : o0 ≠ .timeout → o0 = .normal ∧ { l with savedNext := σ.next } = l0 ∧
          { σ with next := ⟨collectDefs
        (.seq (callDefs { sc with top := false, cd := false } body)
          (.defn 0 bodyArgs { ownLoops := ownsLoops sc body, deco := false, lex := true }
            (.seq (.seq (bodyHoist (bodyScope sc body) body) (.prim .getWriter))
              (.seq (stmts (bodyScope sc body) body) (.ret emptyStr))))), l.mod⟩ :: l.caller } = σ0 := by
        intro hto
        obtain ⟨n2, rfl⟩ := exec_pos (progOf ts k) h0 hto
        simp only [exec, Prod.mk.injEq] at h0
        obtain ⟨rfl, rfl, rfl⟩ := h0
        exact ⟨rfl, rfl, rfl⟩
      rcases hcase with ⟨rfl, h1⟩ | ⟨hne, rfl, rfl, rfl⟩
      · obtain ⟨_, rfl, rfl⟩ := hset (by simp)
        obtain ⟨n2, rfl⟩ := exec_pos (progOf ts k) h1 ho
        obtain ⟨ow, lw, σw, o2, hwr, htow, hfin, hc⟩ := exec_tryFinally_inv (progOf ts k) h1 ho
        obtain ⟨n3, rfl⟩ := exec_pos (progOf ts k) hwr htow
        rw [exec_prim] at hfin
        simp only [execPrim, Prod.mk.injEq] at hfin
        obtain ⟨rfl, rfl, rfl⟩ := hfin
        have ho' : o = ow := by
          rcases hc with ⟨_, h⟩ | ⟨h, _⟩
          · exact h
          · exact absurd rfl h
        subst ho'
        -- the state with the pending caller
        have hlay := call_layer_rel sc bodyArgs body l.mod hg.2 hg.1.2
        have hσ1 : StOK { σ with next := ⟨collectDefs
        (.seq (callDefs { sc with top := false, cd := false } body)
          (.defn 0 bodyArgs { ownLoops := ownsLoops sc body, deco := false, lex := true }
            (.seq (.seq (bodyHoist (bodyScope sc body) body) (.prim .getWriter))
              (.seq (stmts (bodyScope sc body) body) (.ret emptyStr))))), l.mod⟩ :: l.caller } := by
          refine ⟨hσ.frames, ?_⟩
          intro layer hlayer
          rcases List.mem_cons.mp hlayer with rfl | h
          · have hws := (emits (.call e bodyArgs body)).stmts sc
            simp only [stmts] at hws
            cases hws with
            | seq ha _ => cases ha
            | callTag _ hd => exact collectDefs_ok hd
          · exact hl.caller layer h
        have hR1 : RelC cv { l with savedNext := σ.next } { σ with next := ⟨collectDefs
        (.seq (callDefs { sc with top := false, cd := false } body)
          (.defn 0 bodyArgs { ownLoops := ownsLoops sc body, deco := false, lex := true }
            (.seq (.seq (bodyHoist (bodyScope sc body) body) (.prim .getWriter))
              (.seq (stmts (bodyScope sc body) body) (.ret emptyStr))))), l.mod⟩ :: l.caller } E :=
          ⟨hR.vars, hR.loops, hR.nb, hR.nf, hR.funs, hR.mod, hR.cview, hR.lcaller⟩
        simp only [exec] at hwr
        generalize hx : eval (progOf ts k) n3 e _ _ = y at hwr
        obtain ⟨r, σ1⟩ := y
        have g := (ih n3 (by omega)).eval e il true cv _ _ E
          (((0, ⟨bodyArgs, noFlags, body, .body, E.mod⟩) :: Spec.callDefsOf E.mod body) :: E.caller) i top rest r σ1 hg.1.1 hR1
          (NSRel.cons (by rw [← hR.mod]; exact hlay) hR.lcaller) (fun h => by cases h) hil hl' hσ1 hb hx
        cases r with
        | timeout => simp only [Prod.mk.injEq] at hwr; exact absurd hwr.1.symm htow
        | val v =>
          simp only [Prod.mk.injEq] at hwr; obtain ⟨rfl, rfl, rfl⟩ := hwr
          obtain ⟨o1, hb1, p1, m1, e1⟩ := g (by simp)
          refine ⟨o1 ++ v, E.vars, by simp [hb1, hw, writeTo], ⟨m1 + 1, fun m hm => ?_⟩, hR.vars, ⟨rfl, rfl, rfl, rfl, rfl⟩,
            RetE.of_ne (by simp)⟩
          obtain ⟨m, rfl⟩ := Nat.exists_eq_add_of_le' (by omega : 1 ≤ m)
          have := e1 m (by omega)
          simp only at this
          simp [Spec.snodes, this, convV, conv]
        | exc x =>
          simp only [Prod.mk.injEq] at hwr; obtain ⟨rfl, rfl, rfl⟩ := hwr
          obtain ⟨o1, hb1, p1, m1, e1⟩ := g (by simp)
          refine ⟨o1, E.vars, by simpa using hb1, ⟨m1 + 1, fun m hm => ?_⟩, hR.vars, ⟨rfl, rfl, rfl, rfl, rfl⟩,
            RetE.of_ne (by simp)⟩
          obtain ⟨m, rfl⟩ := Nat.exists_eq_add_of_le' (by omega : 1 ≤ m)
          have := e1 m (by omega)
          simp only at this
          simp [Spec.snodes, this, convV, conv]
      · exact absurd (hset ho).1 hne
    · exact absurd (hsave ho).1 hne
  | seq a b =>
    simp only [Good, Bool.and_eq_true] at hg
    simp only [stmts, exec] at he
    generalize hx : exec (progOf ts k) n (stmts sc a) l σ = y at he
    obtain ⟨o1, l1, σ1⟩ := y
    have g1 := A.stmt a sc il bf cv cb l σ E i top rest o1 l1 σ1 hg.1 hR hn hil hl hσ hb hw hx
    have b1 := (G n).exec _ l σ i top rest ((emits a).stmts sc) hl hσ hb hw o1 l1 σ1 hx
    have stop : o1 ≠ .timeout → o1 ≠ .normal → o = o1 → l' = l1 → σ' = σ1 →
        ∃ out vars', σ'.bufs = (i, top ++ out) :: rest ∧
          Ev (fun m => Spec.snodes ⟨ts, k⟩ m (.seq a b) E σ.cnt) ⟨conv o, out, σ'.cnt, vars'⟩ ∧ VarsAgree l' vars' ∧
          Keep l l' ∧ RetE o := by
      rintro h1 hnn rfl rfl rfl
      obtain ⟨out, v1, hb1, ⟨m1, e1⟩, hv1, hk1, hre1⟩ := g1 h1
      refine ⟨out, v1, hb1, ⟨m1 + 1, fun m hm => ?_⟩, hv1, hk1, hre1⟩
      obtain ⟨m, rfl⟩ := Nat.exists_eq_add_of_le' (by omega : 1 ≤ m)
      have := e1 m (by omega)
      simp only at this
      simp only [Spec.snodes, this]
      cases o <;> simp [conv] at hnn h1 ⊢
    cases o1 with
    | normal =>
      simp only at he
      obtain ⟨out, v1, hb1, ⟨m1, e1⟩, hv1, hk1, _⟩ := g1 (by simp)
      obtain ⟨bb, hl1, hw1⟩ := b1 (by simp)
      obtain ⟨out2, v2, hb2, ⟨m2, e2⟩, hv2, hk2, hre2⟩ := A.stmt b sc il bf cv cb l1 σ1 { E with vars := v1 } i _ rest o l' σ'
        hg.2 (hR.of_bal hb bb hk1 hv1) (bal_next_nil bb hn) hil hl1 bb.ok hb1 hw1 he ho
      refine ⟨out ++ out2, v2, by simp [hb2], ⟨max m1 m2 + 1, fun m hm => ?_⟩, hv2, hk1.trans hk2, hre2⟩
      obtain ⟨m, rfl⟩ := Nat.exists_eq_add_of_le' (by omega : 1 ≤ m)
      have a1 := e1 m (by omega)
      have a2 := e2 m (by omega)
      simp only at a1 a2
      simp [Spec.snodes, a1, a2, conv]
    | timeout => simp only [Prod.mk.injEq] at he; exact absurd he.1.symm ho
    | ret rv => simp only [Prod.mk.injEq] at he; exact stop (by simp) (by simp) he.1.symm he.2.1.symm he.2.2.symm
    | brk => simp only [Prod.mk.injEq] at he; exact stop (by simp) (by simp) he.1.symm he.2.1.symm he.2.2.symm
    | cont => simp only [Prod.mk.injEq] at he; exact stop (by simp) (by simp) he.1.symm he.2.1.symm he.2.2.symm
    | exc x => simp only [Prod.mk.injEq] at he; exact stop (by simp) (by simp) he.1.symm he.2.1.symm he.2.2.symm
  | ite cnd ta tb =>
    simp only [Good, Bool.and_eq_true] at hg
    simp only [stmts, exec] at he
    generalize hx : eval (progOf ts k) n cnd l σ = y at he
    obtain ⟨r, σ1⟩ := y
    have g := A.eval cnd il false cv l σ E [] i top rest r σ1 hg.1.1 hR hN (fun _ => hn) hil hl hσ hb hx
    have bg := (G n).eval cnd l σ i top rest hl hσ hb r σ1 hx
    cases r with
    | timeout => simp only [Prod.mk.injEq] at he; exact absurd he.1.symm ho
    | exc x =>
      simp only [Prod.mk.injEq] at he; obtain ⟨rfl, rfl, rfl⟩ := he
      obtain ⟨o1, hb1, p1, m1, e1⟩ := g (by simp)
      refine ⟨o1, E.vars, hb1, ⟨m1 + 1, fun m hm => ?_⟩, hR.vars, Keep.refl _, RetE.of_ne (by simp)⟩
      obtain ⟨m, rfl⟩ := Nat.exists_eq_add_of_le' (by omega : 1 ≤ m)
      have := e1 m (by omega)
      simp only at this
      simp [Spec.snodes, this, convV, conv]
    | val v =>
      simp only at he
      obtain ⟨o1, hb1, p1, m1, e1⟩ := g (by simp)
      have hσ1 := (bg (by simp)).ok
      have hn1 : σ1.next = [] := by rw [p1.2.2]; exact hn
      have branch : ∀ tx, Good sc il bf cv cb tx = true → exec (progOf ts k) n (stmts sc tx) l σ1 = (o, l', σ') →
          (if v.isEmpty then tb else ta) = tx →
          ∃ out vars', σ'.bufs = (i, top ++ out) :: rest ∧
            Ev (fun m => Spec.snodes ⟨ts, k⟩ m (.ite cnd ta tb) E σ.cnt) ⟨conv o, out, σ'.cnt, vars'⟩ ∧
            VarsAgree l' vars' ∧ Keep l l' ∧ RetE o := by
        intro tx hcx hex htx
        obtain ⟨out2, v2, hb2, ⟨m2, e2⟩, hv2, hk2, hre2⟩ := A.stmt tx sc il bf cv cb l σ1 E i (top ++ o1) rest o l' σ' hcx
          (hR.of_post hb hb1 p1) hn1 hil hl hσ1 hb1 hw hex ho
        refine ⟨o1 ++ out2, v2, by simp [hb2], ⟨max m1 m2 + 1, fun m hm => ?_⟩, hv2, hk2, hre2⟩
        obtain ⟨m, rfl⟩ := Nat.exists_eq_add_of_le' (by omega : 1 ≤ m)
        have a1 := e1 m (by omega)
        have a2 := e2 m (by omega)
        simp only at a1 a2
        subst htx
        simp only [Spec.snodes, a1, convV, a2]
      split at he
      · rename_i hv; exact branch tb hg.2 he (by simp [hv])
      · rename_i hv; exact branch ta hg.1.2 he (by simp [hv])
  | try_ ta tb =>
    simp only [Good, Bool.and_eq_true] at hg
    simp only [stmts, exec] at he
    generalize hx : exec (progOf ts k) n (stmts sc ta) l σ = y at he
    obtain ⟨o1, l1, σ1⟩ := y
    have g1 := A.stmt ta sc il bf cv cb l σ E i top rest o1 l1 σ1 hg.1 hR hn hil hl hσ hb hw hx
    have b1 := (G n).exec _ l σ i top rest ((emits ta).stmts sc) hl hσ hb hw o1 l1 σ1 hx
    have stop : o1 ≠ .timeout → (∀ x, o1 ≠ .exc x) → o = o1 → l' = l1 → σ' = σ1 →
        ∃ out vars', σ'.bufs = (i, top ++ out) :: rest ∧
          Ev (fun m => Spec.snodes ⟨ts, k⟩ m (.try_ ta tb) E σ.cnt) ⟨conv o, out, σ'.cnt, vars'⟩ ∧ VarsAgree l' vars' ∧
          Keep l l' ∧ RetE o := by
      rintro h1 hnn rfl rfl rfl
      obtain ⟨out, v1, hb1, ⟨m1, e1⟩, hv1, hk1, hre1⟩ := g1 h1
      refine ⟨out, v1, hb1, ⟨m1 + 1, fun m hm => ?_⟩, hv1, hk1, hre1⟩
      obtain ⟨m, rfl⟩ := Nat.exists_eq_add_of_le' (by omega : 1 ≤ m)
      have := e1 m (by omega)
      simp only at this
      simp only [Spec.snodes, this]
      cases o <;> simp [conv] at hnn h1 ⊢
    cases o1 with
    | exc x =>
      simp only at he
      obtain ⟨out, v1, hb1, ⟨m1, e1⟩, hv1, hk1, _⟩ := g1 (by simp)
      obtain ⟨bb, hl1, hw1⟩ := b1 (by simp)
      obtain ⟨out2, v2, hb2, ⟨m2, e2⟩, hv2, hk2, hre2⟩ := A.stmt tb sc il bf cv cb l1 σ1 { E with vars := v1 } i _ rest o l' σ'
        hg.2 (hR.of_bal hb bb hk1 hv1) (bal_next_nil bb hn) hil hl1 bb.ok hb1 hw1 he ho
      refine ⟨out ++ out2, v2, by simp [hb2], ⟨max m1 m2 + 1, fun m hm => ?_⟩, hv2, hk1.trans hk2, hre2⟩
      obtain ⟨m, rfl⟩ := Nat.exists_eq_add_of_le' (by omega : 1 ≤ m)
      have a1 := e1 m (by omega)
      have a2 := e2 m (by omega)
      simp only at a1 a2
      simp [Spec.snodes, a1, a2, conv]
    | timeout => simp only [Prod.mk.injEq] at he; exact absurd he.1.symm ho
    | ret rv => simp only [Prod.mk.injEq] at he; exact stop (by simp) (by simp) he.1.symm he.2.1.symm he.2.2.symm
    | brk => simp only [Prod.mk.injEq] at he; exact stop (by simp) (by simp) he.1.symm he.2.1.symm he.2.2.symm
    | cont => simp only [Prod.mk.injEq] at he; exact stop (by simp) (by simp) he.1.symm he.2.1.symm he.2.2.symm
    | normal => simp only [Prod.mk.injEq] at he; exact stop (by simp) (by simp) he.1.symm he.2.1.symm he.2.2.symm
  | while_ wm body =>
    simp only [Good] at hg
    simp only [stmts, exec, tick, pc_k] at he
    by_cases hk : σ.cnt = k
    · simp only [hk, beq_self_eq_true, Prod.mk.injEq] at he
      obtain ⟨rfl, rfl, rfl⟩ := he
      refine ⟨[], E.vars, by simp [hb], ⟨1, fun m hm => ?_⟩, hR.vars, Keep.refl _, RetE.of_ne (by simp)⟩
      obtain ⟨m, rfl⟩ := Nat.exists_eq_add_of_le' hm
      simp [Spec.snodes, Spec.tickS, hk, conv, excBoom]
    · have hk' : (σ.cnt == k) = false := by simpa using hk
      simp only [hk'] at he
      have hts : Spec.tickS k σ.cnt = (false, σ.cnt + 1) := by simp [Spec.tickS, hk']
      have hb1 : ({ σ with cnt := σ.cnt + 1 } : St).bufs = (i, top) :: rest := hb
      have hσ1 : StOK { σ with cnt := σ.cnt + 1 } := hσ.of_eq rfl rfl
      split at he
      · rename_i hlt
        generalize hy : exec (progOf ts k) n (stmts sc body) l { σ with cnt := σ.cnt + 1 } = z at he
        obtain ⟨o2, l2, σ2⟩ := z
        have g2 := A.stmt body sc il bf cv cb l { σ with cnt := σ.cnt + 1 } E i top rest o2 l2 σ2 hg (hR.of_cnt (σ.cnt + 1)) hn hil
          hl hσ1 hb1 hw hy
        have b2 := (G n).exec _ l _ i top rest ((emits body).stmts sc) hl hσ1 hb1 hw o2 l2 σ2 hy
        have stop : ∀ so, o2 ≠ .timeout → o2 ≠ .normal → o2 ≠ .cont →
            so = (match o2 with | .brk => Spec.SOut.normal | x => conv x) → l' = l2 → σ' = σ2 →
            (∀ v, o = .ret v → o2 = .ret v) →
            ∃ out vars', σ'.bufs = (i, top ++ out) :: rest ∧
              Ev (fun m => Spec.snodes ⟨ts, k⟩ m (.while_ wm body) E σ.cnt) ⟨so, out, σ'.cnt, vars'⟩ ∧
              VarsAgree l' vars' ∧ Keep l l' ∧ RetE o := by
          rintro so h1 hnn hcn rfl rfl rfl hro
          obtain ⟨out, v1, hb2, ⟨m1, e1⟩, hv1, hk1, hre1⟩ := g2 h1
          refine ⟨out, v1, hb2, ⟨m1 + 1, fun m hm => ?_⟩, hv1, hk1, fun v hv => hre1 v (hro v hv)⟩
          obtain ⟨m, rfl⟩ := Nat.exists_eq_add_of_le' (by omega : 1 ≤ m)
          have this : Spec.snodes ⟨ts, k⟩ m body E (σ.cnt + 1) = _ := e1 m (by omega)
          simp only [Spec.snodes, hts, hlt, if_true, this]
          cases o2 <;> simp [conv] at hnn hcn h1 ⊢
        have again : o2 = .normal ∨ o2 = .cont → exec (progOf ts k) n (stmts sc (.while_ wm body)) l2 σ2 = (o, l', σ') →
            ∃ out vars', σ'.bufs = (i, top ++ out) :: rest ∧
              Ev (fun m => Spec.snodes ⟨ts, k⟩ m (.while_ wm body) E σ.cnt) ⟨conv o, out, σ'.cnt, vars'⟩ ∧
              VarsAgree l' vars' ∧ Keep l l' ∧ RetE o := by
          intro h1 he2
          have hto : o2 ≠ .timeout := by rcases h1 with rfl | rfl <;> simp
          obtain ⟨out, v1, hb2, ⟨m1, e1⟩, hv1, hk1, _⟩ := g2 hto
          obtain ⟨bb, hl2, hw2⟩ := b2 hto
          obtain ⟨out2, v2, hb3, ⟨m2, e2⟩, hv2, hk2, hre2⟩ := A.stmt (.while_ wm body) sc il bf cv cb l2 σ2 { E with vars := v1 }
            i _ rest o l' σ' (by simpa [Good] using hg) ((hR.of_cnt (σ.cnt + 1)).of_bal hb1 bb hk1 hv1) (bal_next_nil bb hn) hil hl2
            bb.ok hb2 hw2 he2 ho
          refine ⟨out ++ out2, v2, by simp [hb3], ⟨max m1 m2 + 1, fun m hm => ?_⟩, hv2, hk1.trans hk2, hre2⟩
          obtain ⟨m, rfl⟩ := Nat.exists_eq_add_of_le' (by omega : 1 ≤ m)
          have a1 : Spec.snodes ⟨ts, k⟩ m body E (σ.cnt + 1) = _ := e1 m (by omega)
          have a2 := e2 m (by omega)
          simp only at a2
          simp only [Spec.snodes, hts, hlt, if_true, a1]
          rcases h1 with rfl | rfl <;> simp [conv, a2]
        cases o2 with
        | normal => exact again (.inl rfl) (by simpa [stmts] using he)
        | cont => exact again (.inr rfl) (by simpa [stmts] using he)
        | timeout => simp only [Prod.mk.injEq] at he; exact absurd he.1.symm ho
        | brk =>
          simp only [Prod.mk.injEq] at he; obtain ⟨rfl, h2, h3⟩ := he
          exact stop _ (by simp) (by simp) (by simp) rfl h2.symm h3.symm (by simp)
        | ret rv =>
          simp only [Prod.mk.injEq] at he; obtain ⟨rfl, h2, h3⟩ := he
          exact stop _ (by simp) (by simp) (by simp) rfl h2.symm h3.symm (fun v hv => hv)
        | exc x =>
          simp only [Prod.mk.injEq] at he; obtain ⟨rfl, h2, h3⟩ := he
          exact stop _ (by simp) (by simp) (by simp) rfl h2.symm h3.symm (by simp)
      · rename_i hlt
        simp only [Prod.mk.injEq] at he; obtain ⟨rfl, rfl, rfl⟩ := he
        refine ⟨[], E.vars, by simp [hb], ⟨1, fun m hm => ?_⟩, hR.vars, Keep.refl _, RetE.of_ne (by simp)⟩
        obtain ⟨m, rfl⟩ := Nat.exists_eq_add_of_le' hm
        simp [Spec.snodes, hts, hlt, conv]
  | for_ x items body =>
    simp only [Good, Bool.and_eq_true, Bool.or_eq_true, Bool.not_eq_true'] at hg
    obtain ⟨⟨hgi, hgl⟩, hgb⟩ := hg
    by_cases hcond : forCtx items body = true
    · -- with a loop context
      have hscl : sc.loops = true := by
        rcases hgl with h | h
        · rw [h] at hcond; cases hcond
        · exact h
      have hcond' : (argsMentionLoop items || mentionsLoopDeep body) = true := hcond
      simp only [stmts, hcond', if_true, hscl] at he
      rcases n with _ | n1
      · simp only [exec, Prod.mk.injEq] at he; exact absurd he.1.symm ho
      simp only [exec] at he
      generalize hx : evalArgs (progOf ts k) n1 items l σ = y at he
      obtain ⟨r, σ1⟩ := y
      have ga := (ih n1 (by omega)).args items il false cv l σ E [] i top rest r σ1 hgi hR hN (fun _ => hn) hil hl hσ hb hx
      have bga := (G n1).args items l σ i top rest hl hσ hb r σ1 hx
      cases r with
      | timeout => simp only [Prod.mk.injEq] at he; exact absurd he.1.symm ho
      | exc ex =>
        simp only [Prod.mk.injEq] at he; obtain ⟨rfl, rfl, rfl⟩ := he
        obtain ⟨o1, hb1, p1, m1, e1⟩ := ga (by simp)
        refine ⟨o1, E.vars, hb1, ⟨m1 + 1, fun m hm => ?_⟩, hR.vars, Keep.refl _, RetE.of_ne (by simp)⟩
        obtain ⟨m, rfl⟩ := Nat.exists_eq_add_of_le' (by omega : 1 ≤ m)
        have := e1 m (by omega)
        simp only at this
        simp [Spec.snodes, this, convA, conv]
      | vals vs =>
        simp only at he
        obtain ⟨o1, hb1, p1, m1, e1⟩ := ga (by simp)
        have hσ1 := (bga (by simp)).ok
        have hR1 := hR.of_post hb hb1 p1
        have hn1 : σ1.next = [] := by rw [p1.2.2]; exact hn
        rcases n1 with _ | n2
        · simp only [exec, Prod.mk.injEq] at he; exact absurd he.1.symm ho
        simp only [exec] at he
        generalize hy : forIter (progOf ts k) n2 x vs (stmts sc body) true l _ = z at he
        obtain ⟨o2, l2, σ2⟩ := z
        have hto : o2 ≠ .timeout := by
          rintro rfl
          simp only [Prod.mk.injEq] at he
          exact ho he.1.symm
        have hR2 : RelC cv l { σ1 with loops := ⟨vs, 0⟩ :: σ1.loops }
            { E with loops := if true then 0 :: E.loops else E.loops } := by
          obtain ⟨base, hbase⟩ := hR1.loops
          exact ⟨hR1.vars, ⟨base, by simp [hbase]⟩, hR1.nb, hR1.nf, hR1.funs, hR1.mod, hR1.cview, hR1.lcaller⟩
        have hgb' : Good sc true bf cv cb body = true := by simpa [hcond] using hgb
        obtain ⟨out2, v2, hb2, ⟨m2, e2⟩, hv2, hk2, hre2⟩ := (ih n2 (by omega)).iter x vs body sc true bf cv cb true 0 l _ E i
          (top ++ o1) rest o2 l2 σ2 hgb' hR2 hn1 (fun _ => .inl rfl) hl (hσ1.of_eq rfl rfl) hb1 hw hy hto
        obtain ⟨bt, hl2, hw2⟩ := (G n2).iter x vs (stmts sc body) true l { σ1 with loops := ⟨vs, 0⟩ :: σ1.loops } i
          (top ++ o1) rest ((emits body).stmts sc) hl (hσ1.of_eq rfl rfl) hb1 hw o2 l2 σ2 hy hto
        simp only [if_true] at bt
        have hloops : ∃ lc, σ2.loops = lc :: σ1.loops := by
          have h1 := bt.loops.1
          have h2 := bt.loops.2
          simp only [List.tail_cons] at h1
          cases hls : σ2.loops with
          | nil => simp [hls] at h2
          | cons lc r => simp only [hls, List.tail_cons] at h1; exact ⟨lc, by rw [h1]⟩
        obtain ⟨lc, hlc⟩ := hloops
        have hfin : execPrim .loopExit l2 σ2 = (.normal, l2, { σ2 with loops := σ1.loops }) := by
          simp [execPrim, hlc]
        have res : ∃ out vars', ({ σ2 with loops := σ1.loops } : St).bufs = (i, top ++ out) :: rest ∧
            Ev (fun m => Spec.snodes ⟨ts, k⟩ m (.for_ x items body) E σ.cnt)
              ⟨conv o2, out, ({ σ2 with loops := σ1.loops } : St).cnt, vars'⟩ ∧ VarsAgree l2 vars' ∧ Keep l l2 ∧ RetE o2 := by
          refine ⟨o1 ++ out2, v2, by simp [hb2], ⟨max m1 m2 + 1, fun m hm => ?_⟩, hv2, hk2, hre2⟩
          obtain ⟨m, rfl⟩ := Nat.exists_eq_add_of_le' (by omega : 1 ≤ m)
          have a1 := e1 m (by omega)
          have a2 := e2 m (by omega)
          simp only at a1 a2
          simp [Spec.snodes, a1, a2, convA, hcond']
        cases o2 <;> simp only [hfin, Prod.mk.injEq] at he <;>
          first
          | exact absurd rfl hto
          | (obtain ⟨rfl, rfl, rfl⟩ := he; exact res)
    · -- a plain `for`
      have hcond' : (argsMentionLoop items || mentionsLoopDeep body) = false := by simpa [forCtx] using hcond
      have hcf : forCtx items body = false := by simpa using hcond
      simp only [stmts, hcond', Bool.false_eq_true, if_false] at he
      simp only [exec] at he
      generalize hx : evalArgs (progOf ts k) n items l σ = y at he
      obtain ⟨r, σ1⟩ := y
      have ga := A.args items il false cv l σ E [] i top rest r σ1 hgi hR hN (fun _ => hn) hil hl hσ hb hx
      have bga := (G n).args items l σ i top rest hl hσ hb r σ1 hx
      cases r with
      | timeout => simp only [Prod.mk.injEq] at he; exact absurd he.1.symm ho
      | exc ex =>
        simp only [Prod.mk.injEq] at he; obtain ⟨rfl, rfl, rfl⟩ := he
        obtain ⟨o1, hb1, p1, m1, e1⟩ := ga (by simp)
        refine ⟨o1, E.vars, hb1, ⟨m1 + 1, fun m hm => ?_⟩, hR.vars, Keep.refl _, RetE.of_ne (by simp)⟩
        obtain ⟨m, rfl⟩ := Nat.exists_eq_add_of_le' (by omega : 1 ≤ m)
        have := e1 m (by omega)
        simp only at this
        simp [Spec.snodes, this, convA, conv]
      | vals vs =>
        simp only at he
        obtain ⟨o1, hb1, p1, m1, e1⟩ := ga (by simp)
        have hσ1 := (bga (by simp)).ok
        have hR1 := hR.of_post hb hb1 p1
        have hn1 : σ1.next = [] := by rw [p1.2.2]; exact hn
        have hR2 : RelC cv l σ1 { E with loops := if false then 0 :: E.loops else E.loops } :=
          ⟨hR1.vars, hR1.loops, hR1.nb, hR1.nf, hR1.funs, hR1.mod, hR1.cview, hR1.lcaller⟩
        have hgb' : Good sc il bf cv cb body = true := by simpa [hcf] using hgb
        obtain ⟨out2, v2, hb2, ⟨m2, e2⟩, hv2, hk2, hre2⟩ := A.iter x vs body sc il bf cv cb false 0 l σ1 E i (top ++ o1) rest
          o l' σ' hgb' hR2 hn1 (fun h => .inr (hil h)) hl hσ1 hb1 hw he ho
        refine ⟨o1 ++ out2, v2, by simp [hb2], ⟨max m1 m2 + 1, fun m hm => ?_⟩, hv2, hk2, hre2⟩
        obtain ⟨m, rfl⟩ := Nat.exists_eq_add_of_le' (by omega : 1 ≤ m)
        have a1 := e1 m (by omega)
        have a2 := e2 m (by omega)
        simp only at a1 a2
        simp [Spec.snodes, a1, a2, convA, hcond']
  | textTag fs s =>
    by_cases hfs : fs.isEmpty = true
    · simp only [stmts, hfs, if_true, exec] at he
      have hnil : fs = [] := by simpa using hfs
      rcases n with _ | n1
      · simp only [eval, Prod.mk.injEq] at he; exact absurd he.1.symm ho
      simp only [eval, Prod.mk.injEq] at he; obtain ⟨rfl, rfl, rfl⟩ := he
      exact leaf s .normal (by simp [hb, hw, writeTo]) rfl rfl (Keep.refl _) rfl (RetE.of_ne (by simp))
        (fun m => by simp [Spec.snodes, hnil, Spec.filterContent])
    · simp only [stmts, hfs, Bool.false_eq_true, if_false] at he
      rcases n with _ | n1
      · simp only [exec, Prod.mk.injEq] at he; exact absurd he.1.symm ho
      simp only [exec, execPrim] at he
      rcases n1 with _ | n2
      · simp only [exec, Prod.mk.injEq] at he; exact absurd he.1.symm ho
      simp only [exec] at he
      rcases n2 with _ | n3
      · simp only [eval, exec, Prod.mk.injEq] at he; exact absurd he.1.symm ho
      simp only [eval, exec, execPrim, hb, writeTo, if_true, List.nil_append] at he
      generalize hx : eval (progOf ts k) n3 (applyFilters fs .mbuf) _ _ = y at he
      obtain ⟨r, σ1⟩ := y
      have sem := sem_filters (progOf ts k) (l := { l with writer := i, mbuf := s })
        (σ := { σ with bufs := (i, top) :: rest, nextId := σ.nextId + 1 }) fs .mbuf s σ.cnt (sem_mbuf _ _ _)
      have g := sem n3 r σ1 hx
      simp only [pc_k] at g
      cases r with
      | timeout => simp only [Prod.mk.injEq] at he; exact absurd he.1.symm ho
      | val v =>
        obtain ⟨o1, hv, hc1⟩ := g (by simp)
        simp only [Prod.mk.injEq] at he; obtain ⟨rfl, rfl, rfl⟩ := he
        have hb1 : σ1.bufs = (i, top) :: rest := by rw [o1]
        refine ⟨v, E.vars, by simp [hb1, writeTo], ⟨1, fun m hm => ?_⟩, hR.vars, ⟨rfl, rfl, rfl, rfl, rfl⟩,
          RetE.of_ne (by simp)⟩
        obtain ⟨m, rfl⟩ := Nat.exists_eq_add_of_le' hm
        simp only [Spec.snodes]
        generalize hz : Spec.filterContent k fs s σ.cnt = z at hv hc1
        obtain ⟨zr, zc⟩ := z
        simp only at hv hc1
        subst hv hc1
        simp [convV, conv]
      | exc x =>
        obtain ⟨o1, hv, hc1⟩ := g (by simp)
        simp only [Prod.mk.injEq] at he; obtain ⟨rfl, rfl, rfl⟩ := he
        have hb1 : σ1.bufs = (i, top) :: rest := by rw [o1]
        refine ⟨[], E.vars, by simp [hb1], ⟨1, fun m hm => ?_⟩, hR.vars, ⟨rfl, rfl, rfl, rfl, rfl⟩, RetE.of_ne (by simp)⟩
        obtain ⟨m, rfl⟩ := Nat.exists_eq_add_of_le' hm
        simp only [Spec.snodes]
        generalize hz : Spec.filterContent k fs s σ.cnt = z at hv hc1
        obtain ⟨zr, zc⟩ := z
        simp only at hv hc1
        subst hv hc1
        simp [convV, conv]

theorem rc_iter (n : Nat) (ih : ∀ m, m < n + 1 → RC ts k m) : IterRef ts k (n + 1) := by
  intro x vs body sc il bf cv cb ctx idx l σ E i top rest o l' σ' hg hR hn hil hl hσ hb hw he ho
  have A := ih n (Nat.lt_succ_self n)
  have G := all_good (progOf ts k) (codegen_cfg_ok ts k) n
  cases vs with
  | nil =>
    simp only [forIter, Prod.mk.injEq] at he; obtain ⟨rfl, rfl, rfl⟩ := he
    refine ⟨[], E.vars, by simp [hb], ⟨1, fun m hm => ?_⟩, hR.vars, Keep.refl _, RetE.of_ne (by simp)⟩
    obtain ⟨m, rfl⟩ := Nat.exists_eq_add_of_le' hm
    simp [Spec.siter, conv]
  | cons v vs =>
    simp only [forIter] at he
    generalize hx : exec (progOf ts k) n (stmts sc body) { l with vars := (x, v) :: l.vars } σ = y at he
    obtain ⟨o1, l1, σ1⟩ := y
    have hl0 : LocOK { l with vars := (x, v) :: l.vars } := ⟨hl.funs, hl.caller, hl.lexc⟩
    have hR0 : RelC cv { l with vars := (x, v) :: l.vars } σ
        { E with vars := (x, v) :: E.vars, loops := if ctx then idx :: E.loops else E.loops } :=
      ⟨fun y => (by simp only [lookup]; split; rfl; exact hR.vars y), hR.loops, hR.nb, hR.nf, hR.funs, hR.mod,
        hR.cview, hR.lcaller⟩
    have hil0 : il = true → (if ctx then idx :: E.loops else E.loops) ≠ [] := by
      intro h
      rcases hil h with rfl | h2
      · simp
      · cases ctx <;> simp [h2]
    have g1 : o1 ≠ .timeout → ∃ out vars', σ1.bufs = (i, top ++ out) :: rest ∧
        Ev (fun m => Spec.snodes ⟨ts, k⟩ m body
              { E with vars := (x, v) :: E.vars, loops := if ctx then idx :: E.loops else E.loops } σ.cnt)
          ⟨conv o1, out, σ1.cnt, vars'⟩ ∧ VarsAgree l1 vars' ∧ Keep { l with vars := (x, v) :: l.vars } l1 ∧ RetE o1 :=
      fun h1 => A.stmt body sc il bf cv cb _ σ _ i top rest o1 l1 σ1 hg hR0 hn hil0 hl0 hσ hb hw hx h1
    have b1 : o1 ≠ .timeout → Bal i top rest σ σ1 ∧ LocOK l1 ∧ l1.writer = i :=
      fun h1 => G.exec _ _ σ i top rest ((emits body).stmts sc) hl0 hσ hb hw o1 l1 σ1 hx h1
    have stop : ∀ (o2 : Spec.SOut), o1 ≠ .timeout → o1 ≠ .normal → o1 ≠ .cont →
        o2 = (match o1 with | .brk => Spec.SOut.normal | x => conv x) → l' = l1 → σ' = σ1 →
        (∀ v, o = .ret v → o1 = .ret v) →
        ∃ out vars', σ'.bufs = (i, top ++ out) :: rest ∧
          Ev (fun m => Spec.siter ⟨ts, k⟩ m x (v :: vs) body ctx idx E σ.cnt) ⟨o2, out, σ'.cnt, vars'⟩ ∧
          VarsAgree l' vars' ∧ Keep l l' ∧ RetE o := by
      rintro o2 h1 hnn hcn rfl rfl rfl hro
      obtain ⟨out, v1, hb1, ⟨m1, e1⟩, hv1, hk1, hre1⟩ := g1 h1
      refine ⟨out, v1, hb1, ⟨m1 + 1, fun m hm => ?_⟩, hv1, hk1, fun w hw' => hre1 w (hro w hw')⟩
      obtain ⟨m, rfl⟩ := Nat.exists_eq_add_of_le' (by omega : 1 ≤ m)
      have := e1 m (by omega)
      simp only at this
      simp only [Spec.siter, this]
      cases o1 <;> simp [conv] at hnn hcn h1 ⊢
    have again : o1 = .normal ∨ o1 = .cont →
        forIter (progOf ts k) n x vs (stmts sc body) ctx l1 (if ctx = true then { σ1 with loops := bumpTop σ1.loops } else σ1)
          = (o, l', σ') →
        ∃ out vars', σ'.bufs = (i, top ++ out) :: rest ∧
          Ev (fun m => Spec.siter ⟨ts, k⟩ m x (v :: vs) body ctx idx E σ.cnt) ⟨conv o, out, σ'.cnt, vars'⟩ ∧
          VarsAgree l' vars' ∧ Keep l l' ∧ RetE o := by
      intro h1 he2
      have hto : o1 ≠ .timeout := by rcases h1 with rfl | rfl <;> simp
      obtain ⟨out, v1, hb1, ⟨m1, e1⟩, hv1, hk1, _⟩ := g1 hto
      obtain ⟨bb, hl1, hw1⟩ := b1 hto
      have hk1' : Keep l l1 := hk1
      have hσ1' : StOK (if ctx = true then { σ1 with loops := bumpTop σ1.loops } else σ1) := by
        split
        · exact bb.ok.of_eq rfl rfl
        · exact bb.ok
      have r0 := hR0.of_bal hb bb hk1 hv1
      have hR1 : RelC cv l1 (if ctx = true then { σ1 with loops := bumpTop σ1.loops } else σ1)
          { ({ E with vars := v1 } : Spec.Env) with loops := if ctx then (idx + 1) :: E.loops else E.loops } := by
        cases ctx with
        | false => exact ⟨r0.vars, r0.loops, r0.nb, r0.nf, r0.funs, r0.mod, r0.cview, r0.lcaller⟩
        | true =>
          simp only [if_true] at r0 ⊢
          obtain ⟨base, hbase⟩ := r0.loops
          refine ⟨r0.vars, ⟨base, ?_⟩, r0.nb, r0.nf, r0.funs, r0.mod, r0.cview, r0.lcaller⟩
          exact bump_index _ idx (E.loops ++ base) (by simpa using hbase)
      have hn1' : (if ctx = true then { σ1 with loops := bumpTop σ1.loops } else σ1).next = [] := by
        have := bal_next_nil bb hn
        split <;> exact this
      have hb1' : (if ctx = true then { σ1 with loops := bumpTop σ1.loops } else σ1).bufs = (i, top ++ out) :: rest := by
        split <;> exact hb1
      have hc1 : (if ctx = true then { σ1 with loops := bumpTop σ1.loops } else σ1).cnt = σ1.cnt := by
        split <;> rfl
      obtain ⟨out2, v2, hb2, ⟨m2, e2⟩, hv2, hk2, hre2⟩ := A.iter x vs body sc il bf cv cb ctx (idx + 1) l1 _ { E with vars := v1 }
        i _ rest o l' σ' hg hR1 hn1' hil hl1 hσ1' hb1' hw1 he2 ho
      refine ⟨out ++ out2, v2, by simp [hb2], ⟨max m1 m2 + 1, fun m hm => ?_⟩, hv2, hk1'.trans hk2, hre2⟩
      obtain ⟨m, rfl⟩ := Nat.exists_eq_add_of_le' (by omega : 1 ≤ m)
      have a1 := e1 m (by omega)
      have a2 := e2 m (by omega)
      simp only [hc1] at a1 a2
      simp only [Spec.siter, a1]
      rcases h1 with rfl | rfl <;> simp [conv, a2]
    cases o1 with
    | normal => exact again (.inl rfl) he
    | cont => exact again (.inr rfl) he
    | timeout => simp only [Prod.mk.injEq] at he; exact absurd he.1.symm ho
    | brk =>
      simp only [Prod.mk.injEq] at he; obtain ⟨rfl, h2, h3⟩ := he
      exact stop _ (by simp) (by simp) (by simp) rfl h2.symm h3.symm (by simp)
    | ret rv =>
      simp only [Prod.mk.injEq] at he; obtain ⟨rfl, h2, h3⟩ := he
      exact stop _ (by simp) (by simp) (by simp) rfl h2.symm h3.symm (fun v hv => hv)
    | exc e =>
      simp only [Prod.mk.injEq] at he; obtain ⟨rfl, h2, h3⟩ := he
      exact stop _ (by simp) (by simp) (by simp) rfl h2.symm h3.symm (by simp)

/-- the refinement holds for every fuel -/
theorem rc_all (hG : GoodAll ts) : ∀ n, RC ts k n := by
  intro n
  induction n using Nat.strongRecOn with
  | _ n ih =>
    rcases n with _ | n
    · exact rc_zero ts k
    · exact ⟨rc_eval ts k hG n ih, rc_args ts k n ih, rc_invoke ts k n ih, rc_stmt ts k hG n ih, rc_iter ts k n ih⟩

end MakoModel.Codegen.Calls
