import MakoModel.Codegen.CallsSamples
/-!
# C05 – consequences of the refinement, call by call

Each lemma reads one clause of the property off the refinement: what the *generated code* of a def / a `capture` /
a `caller.body()` does is what the specification renderer says, and the specification renderer is explicit about
values, text written, and which `caller` a piece of content sees.
-/
namespace MakoModel.Codegen.Calls
open MakoModel.Target MakoModel.Codegen

/-- a call of the render callable of a top-level def that returns normally -/
theorem invoke_def_val (ts : List (Tmpl × Option Bool)) (k : Nat) (hG : GoodAll ts) (ps : List Name) (fl : DefFlags)
    (body : Tmpl) (hc : fl.cached = false) (hnd : nodupB (declNames body) = true)
    (hg : Good (defScope body) false (Spec.isBuffering fl) true false body = true)
    (own : Bool) (mod : Nat) (clex : NS) (vs : List Str) (l : Loc) (σ : St) (E : Spec.Env) (pend : Spec.SNS) (i : Nat)
    (top : Str) (rest : List (Nat × Str)) (hR : RelW l σ E) (hN : NSRel σ.next pend) (hl : LocOK l) (hlex : NSOK clex)
    (hσ : StOK σ) (hb : σ.bufs = (i, top) :: rest) (n : Nat) (v : Str) (σ' : St)
    (he : invoke (progOf ts k) n ⟨⟨ps, ⟨own, fl.deco, false⟩, renderCallable false fl body⟩, clex, mod⟩ vs l σ
            = (.val v, σ')) :
    Post σ σ' ∧ ∃ bound m0, zipArgs ps vs = some bound ∧ ∀ m, m0 ≤ m →
      ((Spec.snodes ⟨ts, k⟩ m body (innerEnv (defSF ps fl body mod) [] bound E pend)
          (if fl.deco then σ.cnt + 1 else σ.cnt)).o = .normal ∨
       (Spec.snodes ⟨ts, k⟩ m body (innerEnv (defSF ps fl body mod) [] bound E pend)
          (if fl.deco then σ.cnt + 1 else σ.cnt)).o = .ret) ∧
      ∃ content c2,
        Spec.filterContent k fl.filters
          (Spec.snodes ⟨ts, k⟩ m body (innerEnv (defSF ps fl body mod) [] bound E pend)
            (if fl.deco then σ.cnt + 1 else σ.cnt)).out
          (Spec.snodes ⟨ts, k⟩ m body (innerEnv (defSF ps fl body mod) [] bound E pend)
            (if fl.deco then σ.cnt + 1 else σ.cnt)).cnt = (.val content, c2) ∧
        v = (if fl.buffered then content else []) ∧
        σ'.bufs = (i, top ++ (if fl.buffered then [] else content)) :: rest := by
  obtain ⟨out, hb', p, m0, e0⟩ := invoke_def_refines ts k hG ps fl body hc hnd hg own mod clex vs l σ E pend i top rest hR hN hl
    hlex hσ hb n (.val v) σ' he (by simp)
  refine ⟨p, ?_⟩
  have h1 := e0 (m0 + 1) (by omega)
  simp only [convV] at h1
  obtain ⟨bound, _, _, _, hz, _, _, _, _, _, _⟩ := sinvoke_val_inv _ _ _ _ _ _ _ _ _ _ _ h1
  refine ⟨bound, m0, hz, fun m hm => ?_⟩
  have h2 := e0 (m + 1) (by omega)
  simp only [convV] at h2
  obtain ⟨bound', c0, content, c2, hz', hc0, ho, hfc, hv, hside, _⟩ := sinvoke_val_inv _ _ _ _ _ _ _ _ _ _ _ h2
  simp only [defSF] at hz' hz
  rw [hz] at hz'
  cases hz'
  subst hc0
  simp only [defSF] at ho hfc hv hside
  exact ⟨ho, content, c2, hfc, hv, by rw [hb']; cases hbf : fl.buffered <;> simp [hside, hbf]⟩

/-- `capture(f, args)` that returns normally -/
theorem capture_val (ts : List (Tmpl × Option Bool)) (k : Nat) (hG : GoodAll ts) (f : Name) (args : List Expr)
    (il ce cv : Bool) (l : Loc) (σ : St) (E : Spec.Env) (pend : Spec.SNS) (i : Nat) (top : Str) (rest : List (Nat × Str))
    (hg : GoodE il ce cv (.capture f args) = true) (hR : RelC cv l σ E) (hN : NSRel σ.next pend)
    (hce : ce = false → σ.next = []) (hil : il = true → E.loops ≠ []) (hl : LocOK l) (hσ : StOK σ)
    (hb : σ.bufs = (i, top) :: rest) (n : Nat) (v : Str) (σ' : St)
    (he : eval (progOf ts k) n (.capture f args) l σ = (.val v, σ')) :
    ∃ oargs, σ'.bufs = (i, top ++ oargs) :: rest ∧ Post σ σ' ∧
      ∃ sf m0, Spec.resolveS ⟨ts, k⟩ E f = some sf ∧ ∀ m, m0 ≤ m → ∃ vs c1 v0,
        Spec.sargs ⟨ts, k⟩ m args E pend σ.cnt = ⟨.vals vs, oargs, c1⟩ ∧
        Spec.sinvoke ⟨ts, k⟩ m sf [] vs { E with nb := E.nb + 1 } pend c1 = ⟨.val v0, v, σ'.cnt⟩ := by
  obtain ⟨out, hb', p, m0, e0⟩ := (rc_all ts k hG n).eval _ il ce cv l σ E pend i top rest (.val v) σ' hg hR hN hce hil hl hσ hb
    he (by simp)
  refine ⟨out, hb', p, ?_⟩
  have h1 := e0 (m0 + 1) (by omega)
  simp only [Spec.seval, convV] at h1
  cases hres : Spec.resolveS ⟨ts, k⟩ E f with
  | none => simp [hres] at h1
  | some sf =>
    refine ⟨sf, m0, rfl, fun m hm => ?_⟩
    have h2 := e0 (m + 1) (by omega)
    simp only [Spec.seval, convV, hres] at h2
    generalize hra : Spec.sargs ⟨ts, k⟩ m args E pend σ.cnt = ra at h2
    obtain ⟨r, o1, c1⟩ := ra
    cases r with
    | exc x => simp at h2
    | timeout => simp at h2
    | vals vs =>
      simp only at h2
      generalize hri : Spec.sinvoke ⟨ts, k⟩ m sf [] vs { E with nb := E.nb + 1 } pend c1 = ri at h2
      obtain ⟨r2, o2, c2⟩ := ri
      cases r2 with
      | exc x => simp at h2
      | timeout => simp at h2
      | val v0 =>
        simp only [Spec.SE.mk.injEq, Spec.SV.val.injEq] at h2
        obtain ⟨rfl, rfl, rfl⟩ := h2
        exact ⟨vs, c1, v0, rfl, hri⟩

/-- `caller.body(args)` evaluated in a callee whose `caller` is the namespace a `<%call>` built: the content of
    the `<%call>` is rendered with `caller := outer` – the `caller` of the scope the `<%call>` is written in – and
    the stacks are afterwards as before, so it can be evaluated again -/
theorem caller_body_val (ts : List (Tmpl × Option Bool)) (k : Nat) (hG : GoodAll ts) (args : List Expr)
    (il : Bool) (l : Loc) (σ : St) (E : Spec.Env) (i : Nat) (top : Str) (rest : List (Nat × Str))
    (hg : GoodE il false true (.callerCall 0 args) = true) (hR : RelC true l σ E) (hn : σ.next = [])
    (hil : il = true → E.loops ≠ []) (hl : LocOK l) (hσ : StOK σ) (hb : σ.bufs = (i, top) :: rest)
    (bargs : List Name) (body : Tmpl) (bmod : Nat) (more : Spec.SLayer) (outer : Spec.SNS)
    (hE : E.caller = ((0, ⟨bargs, noFlags, body, .body, bmod⟩) :: more) :: outer)
    (n : Nat) (v : Str) (σ' : St)
    (he : eval (progOf ts k) n (.callerCall 0 args) l σ = (.val v, σ')) :
    ∃ out, σ'.bufs = (i, top ++ out) :: rest ∧ Post σ σ' ∧ ∃ m0, ∀ m, m0 ≤ m → ∃ vs oargs c1 obody,
      Spec.sargs ⟨ts, k⟩ m args E [] σ.cnt = ⟨.vals vs, oargs, c1⟩ ∧
      Spec.sinvoke ⟨ts, k⟩ m ⟨bargs, noFlags, body, .body, bmod⟩ outer vs
        { E with defs := ((0, ⟨bargs, noFlags, body, .body, bmod⟩) :: more) ++ E.defs } [] c1 = ⟨.val v, obody, σ'.cnt⟩ ∧
      out = oargs ++ obody := by
  obtain ⟨out, hb', p, m0, e0⟩ := (rc_all ts k hG n).eval _ il false true l σ E [] i top rest (.val v) σ' hg hR
    (by rw [hn]; exact NSRel.nil) (fun _ => hn) hil hl hσ hb he (by simp)
  refine ⟨out, hb', p, m0, fun m hm => ?_⟩
  have h2 := e0 (m + 1) (by omega)
  simp only [Spec.seval, convV, hE, lookup, if_true] at h2
  generalize hra : Spec.sargs ⟨ts, k⟩ m args E [] σ.cnt = ra at h2
  obtain ⟨r, o1, c1⟩ := ra
  cases r with
  | exc x => simp at h2
  | timeout => simp at h2
  | vals vs =>
    simp only at h2
    generalize hri : Spec.sinvoke ⟨ts, k⟩ m ⟨bargs, noFlags, body, .body, bmod⟩ outer vs _ [] c1 = ri at h2
    obtain ⟨r2, o2, c2⟩ := ri
    simp only [Spec.SE.mk.injEq] at h2
    obtain ⟨rfl, rfl, rfl⟩ := h2
    rw [← hE] at hri
    exact ⟨vs, o1, c1, o2, rfl, hri, rfl⟩

/-- the content of a `<%call>` sees the `caller` of the scope the `<%call>` is written in: that is the `lexc`
    argument of `Spec.sinvoke` for a `body` callable -/
theorem body_env_caller (bargs : List Name) (body : Tmpl) (bmod : Nat) (outer : Spec.SNS) (bound : List (Name × Str))
    (E : Spec.Env) (pend : Spec.SNS) :
    (innerEnv ⟨bargs, noFlags, body, .body, bmod⟩ outer bound E pend).caller = outer ∧
    (innerEnv ⟨bargs, noFlags, body, .body, bmod⟩ outer bound E pend).vars = bound ++ E.vars := ⟨rfl, rfl⟩

/-- … and a def sees the `caller` handed over at *its* call (the pending namespace), whatever its caller's was -/
theorem def_env_caller (ps : List Name) (fl : DefFlags) (body : Tmpl) (mod : Nat) (lexc : Spec.SNS)
    (bound : List (Name × Str)) (E : Spec.Env) (pend : Spec.SNS) :
    (innerEnv (defSF ps fl body mod) lexc bound E pend).caller = pend := rfl

/-- `withBufferFilters` only touches the filter lists of buffered, not cached defs -/
theorem withBufferFilters_def (bf : List Nat) (name : Name) (ps : List Name) (fl : DefFlags) (body : Tmpl)
    (hb : fl.buffered = true) (hc : fl.cached = false) :
    withBufferFilters bf (.def_ name ps fl body) =
      .def_ name ps { fl with filters := fl.filters ++ bf } (withBufferFilters bf body) := by
  simp [withBufferFilters, hb, hc]

end MakoModel.Codegen.Calls
