import MakoModel.Codegen.Refine
/-!
# Refinement of the generated code to the specification renderer – callables (C05)

`Codegen/Refine.lean` proves the refinement for the control fragment.  This file and `Calls*.lean` extend it
to **callables**: top-level `<%def>`s with any combination of `buffered` / `filter=` / `decorator=`, called by
name from expressions (also inside concatenations and argument lists), through `capture`, and through
`<%call>` with body arguments; `caller.body(…)` evaluated zero or more times, anywhere in the callee; calls
nested to any depth, in loops, from other defs and from other call bodies.

What is needed beyond the control fragment is a **closure relation**: which target closure (`Fun`: generated
statements) stands for which callable of the specification (`SFun`: a piece of the template), for the callables
reachable by name (`ClosRel`), through the `caller` namespaces (`NSRel`), and for the module's top-level defs.

Covered by the guard `Good` (see `Props/C05.lean` for the exact list): defs – top-level, nested in defs, written
inside a `<%call>` (directly or below a control line) – with buffered / `filter=` /
`decorator=`, calls by name, `capture`, `<%call>` with body, body arguments and nested defs, `caller.x(…)`,
`<%block>`s rendered in place (named and anonymous, with `buffered` / `filter=`), `<%include>` of another template of
the set, all control structures.
*Not* covered: `cached=`, blocks that contain defs or blocks or sit directly in the content of a `<%call>`, a block
that reads the `loop` of a `% for` around it, two callables of one name in a scope, and the places where mako's generated code deviates from the specification:
`<% return %>` inside a buffering def, `caller.x()` inside the argument list of a `<%call expr>`, `loop` used where no
`LoopStack` is in scope.
-/
namespace MakoModel.Codegen.Calls
open MakoModel.Target MakoModel.Codegen

/-! ## the guarded fragment -/

/-- `<%block>`s are not callable by a name of the template (an anonymous block is `__M_anon_<line>`): in the structured
    template their names come from a range of their own -/
def blockBase : Nat := 2000000

mutual
/-- expressions: everything the generator writes into templates, except `caller.x()` inside a `<%call expr>`
    (`inCE`), `caller.x()` where `caller` is not the callable's own (`cv = false`: a def written inside a `<%call>`
    whose enclosing scope already knows the name `caller`), and `loop` outside a loop of the same scope (`inLoop`) -/
def GoodE (inLoop inCE cv : Bool) : Expr → Bool
  | .lit _ => true
  | .var _ => true
  | .boom => true
  | .probe => true
  | .loopIndex => inLoop
  | .cat a b => GoodE inLoop inCE cv a && GoodE inLoop inCE cv b
  | .filt _ e => GoodE inLoop inCE cv e
  | .call f args => f != 0 && (!inCE || decide (f < blockBase)) && GoodArgs inLoop inCE cv args
  | .capture f args => f != 0 && (!inCE || decide (f < blockBase)) && GoodArgs inLoop inCE cv args
  | .callerCall _ args => cv && !inCE && GoodArgs inLoop inCE cv args
  | .mbuf => false
  | .includeFile _ => false
def GoodArgs (inLoop inCE cv : Bool) : List Expr → Bool
  | [] => true
  | e :: es => GoodE inLoop inCE cv e && GoodArgs inLoop inCE cv es
end

/-- the scope of the content of a top-level def (`renderCallable false`) -/
def defScope (body : Tmpl) : Scope := { top := false, cd := usesCaller body, bind := false, loops := refsLoop body }

/-- the scope of the content of a `<%call>` written in scope `sc` -/
def bodyScope (sc : Scope) (body : Tmpl) : Scope :=
  { top := false, cd := true, bind := true, loops := sc.loops || refsLoop body }

/-- the scope of the template body (`render_body`) -/
def mainScope (t : Tmpl) : Scope := { top := true, cd := usesCaller t, bind := false, loops := refsLoop t }

/-- does the `% for` get a loop context? -/
def forCtx (items : List Expr) (body : Tmpl) : Bool := argsMentionLoop items || mentionsLoopDeep body

/-- no `<%def>` / `<%block>` anywhere below (through control lines and `<%call>` bodies) -/
def NoDefs : Tmpl → Bool
  | .seq a b => NoDefs a && NoDefs b
  | .ite _ t e => NoDefs t && NoDefs e
  | .for_ _ _ b => NoDefs b
  | .while_ _ b => NoDefs b
  | .try_ b h => NoDefs b && NoDefs h
  | .call _ _ b => NoDefs b
  | .def_ _ _ _ _ => false
  | .block _ _ _ _ => false
  | _ => true

/-- no `<% return %>` in the scope itself -/
def NoRet : Tmpl → Bool
  | .ret => false
  | .seq a b => NoRet a && NoRet b
  | .ite _ t e => NoRet t && NoRet e
  | .for_ _ _ b => NoRet b
  | .while_ _ b => NoRet b
  | .try_ b h => NoRet b && NoRet h
  | _ => true

/-- names of the closures a scope declares -/
def declNames (t : Tmpl) : List Name := (Spec.declared false 0 t).map (·.1)

def nodupB : List Name → Bool
  | [] => true
  | a :: l => !l.contains a && nodupB l

mutual
/-- the guarded fragment, for the nodes of a scope `sc`.  `inLoop`: a loop context of this callable is active;
    `buf`: the callable buffers its content (then `<% return %>` would lose it); `cv`: `caller` denotes the
    callable's own caller; `cb`: the nodes are the direct content of a `<%call>` (its `<%def>`s are written into
    `ccall` and checked by `GoodCB`). -/
def Good (sc : Scope) (inLoop buf cv cb : Bool) : Tmpl → Bool
  | .nil => true
  | .text _ => true
  | .textTag _ _ => true
  | .brk => true
  | .cont => true
  | .ret => !buf
  | .seq a b => Good sc inLoop buf cv cb a && Good sc inLoop buf cv cb b
  | .expr e _ => GoodE inLoop false cv e
  | .ite c t e => GoodE inLoop false cv c && Good sc inLoop buf cv cb t && Good sc inLoop buf cv cb e
  | .for_ _ items body =>
    GoodArgs inLoop false cv items && (!forCtx items body || sc.loops) &&
      Good sc (inLoop || forCtx items body) buf cv cb body
  | .while_ _ b => Good sc inLoop buf cv cb b
  | .try_ b h => Good sc inLoop buf cv cb b && Good sc inLoop buf cv cb h
  | .def_ name _ fl body =>
    cb || (name != 0 && !fl.cached && nodupB (declNames body) &&
      (if sc.top then Good (defScope body) false (Spec.isBuffering fl) true false body
       else Good (subScope sc sc.bind body) false (Spec.isBuffering fl) (!effLex sc sc.bind body) false body))
  | .block name anon fl body =>
    -- rendered in place: a callable of its own, entered without content; its content has no nested closures; a
    -- named block of the template body is a module-level callable with its own `LoopStack`
    !cb && decide (blockBase ≤ name) && !fl.cached && NoDefs body &&
      (!refsLoop body || (sc.loops && !(sc.top && !anon))) &&
      (if sc.top && !anon then Good (defScope body) false (Spec.isBuffering fl) true false body
       else Good (subScope sc sc.bind body) false (Spec.isBuffering fl) (!effLex sc sc.bind body) false body)
  | .include_ _ => true
  | .call e _ body =>
    GoodE inLoop true cv e && GoodCB { sc with top := false, cd := false } body &&
      Good (bodyScope sc body) false false true true body
/-- the `<%def>`s written into the `ccall` of a `<%call>` that sits in scope `sc` (`callDefs`): the defs among the
    children of the tag, also below its control lines; not those of nested `<%call>`s, which belong to their own
    `ccall` (/repo 4a9e6c6) -/
def GoodCB (sc : Scope) : Tmpl → Bool
  | .seq a b => GoodCB sc a && GoodCB sc b
  | .def_ name _ fl body =>
    name != 0 && !fl.cached && nodupB (declNames body) &&
      Good (subScope sc true body) false (Spec.isBuffering fl) (!effLex sc true body) false body
  | .ite _ t e => GoodCB sc t && GoodCB sc e
  | .for_ _ _ b => GoodCB sc b
  | .while_ _ b => GoodCB sc b
  | .try_ b h => GoodCB sc b && GoodCB sc h
  | .block _ _ _ _ => false
  | _ => true
end

/-- a whole template -/
def GoodTop (t : Tmpl) : Bool :=
  Good (mainScope t) false false true false t && nodupB (declNames t) &&
    nodupB ((Spec.declared true 0 t).map (·.1))

/-- statements that do nothing -/
def isSkips : Stmt → Bool
  | .skip => true
  | .seq a b => isSkips a && isSkips b
  | _ => false

/-! ## the closure relation -/

def OptRel {α β : Type} (R : α → β → Prop) : Option α → Option β → Prop
  | none, none => True
  | some a, some b => R a b
  | _, _ => False

/-- the code of the `body()` of a `<%call>` written in scope `sc` -/
def bodyFun (sc : Scope) (bargs : List Name) (body : Tmpl) : Fun :=
  ⟨bargs, ⟨ownsLoops sc body, false, true⟩,
    .seq (.seq (bodyHoist (bodyScope sc body) body) (.prim .getWriter))
         (.seq (stmts (bodyScope sc body) body) (.ret emptyStr))⟩

/-- the target function `f` is the code generated for the specification's callable `sf` -/
inductive FunRel : Fun → Spec.SFun → Prop
  /-- `render_body` (`s.top`) or a def (top-level, nested in a def, or written into a `ccall`): one of the
      `write_def_finish` shapes.  `lex`: the def's `caller` is the parameter of an enclosing `ccall(caller)`; its
      content then does not use `caller` (`cv = !lex`). -/
  | def_ (s : Scope) (ps : List Name) (fl : DefFlags) (body : Tmpl) (own lex : Bool) (mod : Nat) (kind : Spec.Kind) :
      ((kind = .def_ ∧ s.top = false) ∨ (kind = .main ∧ s.top = true ∧ lex = false) ∨
        (kind = .block ∧ s.top = false ∧ own = false)) → fl.cached = false →
      nodupB ((Spec.declared s.top 0 body).map (·.1)) = true → Good s false (Spec.isBuffering fl) (!lex) false body = true →
      FunRel ⟨ps, ⟨own, fl.deco, lex⟩, defShape fl (.seq (hoist s body) (.prim .getWriter)) (stmts s body)⟩
             ⟨ps, fl, body, kind, mod⟩
  /-- `body()` of a `<%call>`: no frame of its own, `caller` is the closure variable of `ccall(caller)` -/
  | body (sc : Scope) (args : List Name) (body : Tmpl) (mod : Nat) :
      Good (bodyScope sc body) false false true true body = true → GoodCB { sc with top := false, cd := false } body = true →
      FunRel (bodyFun sc args body) ⟨args, noFlags, body, .body, mod⟩

/-- closures reachable by name: generated code of the same callable, same module, never a `body()` -/
def CloRel (clo : Clo) (sf : Spec.SFun) : Prop := FunRel clo.fn sf ∧ clo.mod = sf.mod ∧ sf.kind ≠ .body

/-- one `ccall`, as a guarded `<%call>` written in some scope `sc` builds it: the `<%def>`s of its content, then
    `body` (name 0); on the specification side `body` first -/
def LayerRel (layer : Layer) (sl : Spec.SLayer) : Prop :=
  ∃ (sc : Scope) (bargs : List Name) (body : Tmpl),
    layer.funs = collectDefs (callDefs { sc with top := false, cd := false } body) ++ [(0, bodyFun sc bargs body)] ∧
    sl = (0, ⟨bargs, noFlags, body, .body, layer.mod⟩) :: Spec.callDefsOf layer.mod body ∧
    Good (bodyScope sc body) false false true true body = true ∧ GoodCB { sc with top := false, cd := false } body = true

/-- `caller` namespaces: layer by layer -/
inductive NSRel : NS → Spec.SNS → Prop
  | nil : NSRel [] []
  | cons {layer sl tl stl} : LayerRel layer sl → NSRel tl stl → NSRel (layer :: tl) (sl :: stl)

def ClosRel (funs : List (Name × Clo)) (defs : List (Name × Spec.SFun)) : Prop :=
  ∀ x, x ≠ 0 → OptRel (fun clo sf => CloRel clo sf ∧ (sf.kind = .block → blockBase ≤ x)) (lookup x funs) (lookup x defs)

/-- what `caller` denotes in an activation: the closure variable, or the top of the caller stack -/
def callerView (l : Loc) (σ : St) : Option NS := if l.useLex then some l.lexc else σ.frames.head?

/-- the runtime state and the arguments of the specification renderer describe the same situation -/
structure RelC (cv : Bool) (l : Loc) (σ : St) (E : Spec.Env) : Prop where
  vars : ∀ x, lookup x l.vars = lookup x E.vars
  loops : ∃ base, σ.loops.map (·.index) = E.loops ++ base
  nb : σ.bufs.length = E.nb
  nf : σ.frames.length = E.nf
  funs : ClosRel l.funs E.defs
  mod : l.mod = E.mod
  cview : cv = true → ∃ ns, callerView l σ = some ns ∧ NSRel ns E.caller
  lcaller : NSRel l.caller E.caller

/-- the part of `RelC` a *callee* depends on (it brings its own `caller`, loop stack and module) -/
structure RelW (l : Loc) (σ : St) (E : Spec.Env) : Prop where
  vars : ∀ x, lookup x l.vars = lookup x E.vars
  nb : σ.bufs.length = E.nb
  nf : σ.frames.length = E.nf
  funs : ClosRel l.funs E.defs

theorem RelC.toW {cv : Bool} {l : Loc} {σ : St} {E : Spec.Env} (h : RelC cv l σ E) : RelW l σ E := ⟨h.vars, h.nb, h.nf, h.funs⟩

/-- what an expression leaves as it was -/
def Post (σ σ' : St) : Prop := σ'.frames = σ.frames ∧ σ'.loops = σ.loops ∧ σ'.next = σ.next

/-- the locals that the statements of a scope never touch -/
def Keep (l l' : Loc) : Prop :=
  l'.funs = l.funs ∧ l'.caller = l.caller ∧ l'.lexc = l.lexc ∧ l'.useLex = l.useLex ∧ l'.mod = l.mod

theorem Keep.refl (l : Loc) : Keep l l := ⟨rfl, rfl, rfl, rfl, rfl⟩
theorem Keep.trans {a b d : Loc} (h1 : Keep a b) (h2 : Keep b d) : Keep a d :=
  ⟨h2.1.trans h1.1, h2.2.1.trans h1.2.1, h2.2.2.1.trans h1.2.2.1, h2.2.2.2.1.trans h1.2.2.2.1,
   h2.2.2.2.2.trans h1.2.2.2.2⟩

theorem Post.refl (σ : St) : Post σ σ := ⟨rfl, rfl, rfl⟩
theorem Post.trans {a b d : St} (h1 : Post a b) (h2 : Post b d) : Post a d :=
  ⟨h2.1.trans h1.1, h2.2.1.trans h1.2.1, h2.2.2.trans h1.2.2⟩

/-! ## small facts -/

theorem lookup_append {α} (x : Name) (a b : List (Name × α)) :
    lookup x (a ++ b) = match lookup x a with | some v => some v | none => lookup x b := by
  induction a with
  | nil => simp [lookup]
  | cons p r ih =>
    obtain ⟨y, v⟩ := p
    simp only [List.cons_append, lookup]
    split
    · rfl
    · exact ih

theorem lookup_map_snd {α β} (f : α → β) (x : Name) (a : List (Name × α)) :
    lookup x (a.map fun p => (p.1, f p.2)) = (lookup x a).map f := by
  induction a with
  | nil => simp [lookup]
  | cons p r ih =>
    obtain ⟨y, v⟩ := p
    simp only [List.map_cons, lookup]
    split
    · rfl
    · exact ih

theorem OptRel.mono {α β} {R S : α → β → Prop} (h : ∀ a b, R a b → S a b) {x y} (hr : OptRel R x y) : OptRel S x y := by
  cases x <;> cases y <;> simp only [OptRel] at hr ⊢
  exact h _ _ hr

theorem NSRel.isEmpty {a : NS} {b : Spec.SNS} (h : NSRel a b) : a.isEmpty = b.isEmpty := by
  cases h <;> rfl

theorem NSRel.nil_left {b : Spec.SNS} (h : NSRel [] b) : b = [] := by cases h; rfl
theorem NSRel.nil_right {a : NS} (h : NSRel a []) : a = [] := by cases h; rfl

theorem ClosRel.append {a b : List (Name × Clo)} {a' b' : List (Name × Spec.SFun)}
    (h1 : ClosRel a a') (h2 : ClosRel b b') : ClosRel (a ++ b) (a' ++ b') := by
  intro x hx
  rw [lookup_append, lookup_append]
  have g1 := h1 x hx
  have g2 := h2 x hx
  cases ha : lookup x a <;> cases ha' : lookup x a' <;> simp only [ha, ha', OptRel] at g1 ⊢
  · exact g2
  · exact g1

theorem ClosRel.nil_left {b' : List (Name × Spec.SFun)} {b : List (Name × Clo)} (h : ClosRel b b') :
    ClosRel b ([] ++ b') := by simpa using h

/-! ## templates without nested callables: every prologue is empty -/

theorem isSkips_collect : ∀ s : Stmt, isSkips s = true → collectDefs s = [] := by
  intro s
  induction s with
  | skip => intro _; rfl
  | seq a b iha ihb =>
    intro h
    simp only [isSkips, Bool.and_eq_true] at h
    simp [collectDefs, iha h.1, ihb h.2]
  | _ => intro h; simp [isSkips] at h

theorem exec_skips (c : Cfg) : ∀ (s : Stmt), isSkips s = true → ∀ (n : Nat) (l : Loc) (σ : St) (o : Outcome)
    (l' : Loc) (σ' : St), exec c n s l σ = (o, l', σ') → o ≠ .timeout → o = .normal ∧ l' = l ∧ σ' = σ := by
  intro s
  induction s with
  | skip =>
    intro _ n l σ o l' σ' he ho
    rcases n with _ | n
    · simp only [exec, Prod.mk.injEq] at he; exact absurd he.1.symm ho
    · simp only [exec, Prod.mk.injEq] at he; obtain ⟨rfl, rfl, rfl⟩ := he; exact ⟨rfl, rfl, rfl⟩
  | seq a b iha ihb =>
    intro h n l σ o l' σ' he ho
    simp only [isSkips, Bool.and_eq_true] at h
    rcases n with _ | n
    · simp only [exec, Prod.mk.injEq] at he; exact absurd he.1.symm ho
    simp only [exec] at he
    generalize hx : exec c n a l σ = y at he
    obtain ⟨o1, l1, σ1⟩ := y
    have g := iha h.1 n l σ o1 l1 σ1 hx
    cases o1 with
    | normal => obtain ⟨_, rfl, rfl⟩ := g (by simp); exact ihb h.2 n _ _ o l' σ' he ho
    | timeout => simp only [Prod.mk.injEq] at he; exact absurd he.1.symm ho
    | ret v => exact absurd (g (by simp)).1 (by simp)
    | brk => exact absurd (g (by simp)).1 (by simp)
    | cont => exact absurd (g (by simp)).1 (by simp)
    | exc e => exact absurd (g (by simp)).1 (by simp)
  | _ => intro h; simp [isSkips] at h

/-- what the five emitters and the specification's declaration functions give for a template without defs -/
structure NoDefsFacts (t : Tmpl) : Prop where
  hoist : ∀ sc, isSkips (hoist sc t) = true
  callDefs : ∀ sc, isSkips (callDefs sc t) = true
  deepDefs : ∀ sc, isSkips (deepDefs sc t) = true
  bodyHoist : ∀ sc, isSkips (bodyHoist sc t) = true
  declared : ∀ top mod, Spec.declared top mod t = []
  callDefsOf : ∀ mod, Spec.callDefsOf mod t = []

theorem nodefs_facts : ∀ t : Tmpl, NoDefs t = true → NoDefsFacts t := by
  intro t
  induction t with
  | seq a b iha ihb =>
    intro h
    simp only [NoDefs, Bool.and_eq_true] at h
    have A := iha h.1
    have B := ihb h.2
    exact ⟨fun sc => by simp [hoist, isSkips, A.hoist, B.hoist], fun sc => by simp [callDefs, isSkips, A.callDefs, B.callDefs],
      fun sc => by simp [deepDefs, isSkips, A.deepDefs, B.deepDefs],
      fun sc => by simp [bodyHoist, isSkips, A.bodyHoist, B.bodyHoist],
      fun top mod => by simp [Spec.declared, A.declared, B.declared],
      fun mod => by simp [Spec.callDefsOf, A.callDefsOf, B.callDefsOf]⟩
  | ite c a b iha ihb =>
    intro h
    simp only [NoDefs, Bool.and_eq_true] at h
    have A := iha h.1
    have B := ihb h.2
    exact ⟨fun sc => by simp [hoist, isSkips, A.hoist, B.hoist], fun sc => by simp [callDefs, isSkips, A.callDefs, B.callDefs],
      fun sc => by simp [deepDefs, isSkips, A.deepDefs, B.deepDefs],
      fun sc => by simp [bodyHoist, isSkips, A.bodyHoist, B.bodyHoist],
      fun top mod => by simp [Spec.declared, A.declared, B.declared],
      fun mod => by simp [Spec.callDefsOf, A.callDefsOf, B.callDefsOf]⟩
  | try_ a b iha ihb =>
    intro h
    simp only [NoDefs, Bool.and_eq_true] at h
    have A := iha h.1
    have B := ihb h.2
    exact ⟨fun sc => by simp [hoist, isSkips, A.hoist, B.hoist], fun sc => by simp [callDefs, isSkips, A.callDefs, B.callDefs],
      fun sc => by simp [deepDefs, isSkips, A.deepDefs, B.deepDefs],
      fun sc => by simp [bodyHoist, isSkips, A.bodyHoist, B.bodyHoist],
      fun top mod => by simp [Spec.declared, A.declared, B.declared],
      fun mod => by simp [Spec.callDefsOf, A.callDefsOf, B.callDefsOf]⟩
  | for_ x items b ih =>
    intro h
    simp only [NoDefs] at h
    have B := ih h
    exact ⟨fun sc => by simp [hoist, B.hoist], fun sc => by simp [callDefs, B.callDefs],
      fun sc => by simp [deepDefs, B.deepDefs], fun sc => by simp [bodyHoist, B.bodyHoist],
      fun top mod => by simp [Spec.declared, B.declared], fun mod => by simp [Spec.callDefsOf, B.callDefsOf]⟩
  | while_ m b ih =>
    intro h
    simp only [NoDefs] at h
    have B := ih h
    exact ⟨fun sc => by simp [hoist, B.hoist], fun sc => by simp [callDefs, B.callDefs],
      fun sc => by simp [deepDefs, B.deepDefs], fun sc => by simp [bodyHoist, B.bodyHoist],
      fun top mod => by simp [Spec.declared, B.declared], fun mod => by simp [Spec.callDefsOf, B.callDefsOf]⟩
  | call e args b ih =>
    intro h
    simp only [NoDefs] at h
    have B := ih h
    exact ⟨fun sc => by simp [hoist, isSkips], fun sc => by simp [callDefs, isSkips],
      fun sc => by simp [deepDefs, B.deepDefs], fun sc => by simp [bodyHoist, isSkips],
      fun top mod => by simp [Spec.declared], fun mod => by simp [Spec.callDefsOf]⟩
  | def_ _ _ _ _ _ => intro h; simp [NoDefs] at h
  | block _ _ _ _ _ => intro h; simp [NoDefs] at h
  | _ =>
    intro _
    exact ⟨fun sc => by simp [hoist, isSkips], fun sc => by simp [callDefs, isSkips],
      fun sc => by simp [deepDefs, isSkips], fun sc => by simp [bodyHoist, isSkips],
      fun top mod => by simp [Spec.declared], fun mod => by simp [Spec.callDefsOf]⟩

theorem good_noret : ∀ (t : Tmpl) (sc : Scope) (il cv cb : Bool), Good sc il true cv cb t = true → NoRet t = true := by
  intro t
  induction t with
  | seq a b iha ihb =>
    intro sc il cv cb h
    simp only [Good, Bool.and_eq_true] at h
    simp [NoRet, iha sc il cv _ h.1, ihb sc il cv _ h.2]
  | ite c a b iha ihb =>
    intro sc il cv cb h
    simp only [Good, Bool.and_eq_true] at h
    simp [NoRet, iha sc il cv _ h.1.2, ihb sc il cv _ h.2]
  | try_ a b iha ihb =>
    intro sc il cv cb h
    simp only [Good, Bool.and_eq_true] at h
    simp [NoRet, iha sc il cv _ h.1, ihb sc il cv _ h.2]
  | for_ x items b ih =>
    intro sc il cv cb h
    simp only [Good, Bool.and_eq_true] at h
    simp [NoRet, ih sc _ cv _ h.2]
  | while_ m b ih =>
    intro sc il cv cb h
    simp only [Good] at h
    simp [NoRet, ih sc il cv _ h]
  | ret => intro sc il cv cb h; simp [Good] at h
  | _ => intro _ _ _ _ _; rfl

end MakoModel.Codegen.Calls
