import MakoModel.Codegen.AttrsLemmas2
/-!
# C05 (part): attribute values become concatenations in source order; signatures are re-emitted

Property theorems only; the model is `MakoModel/Codegen/Attrs.lean` (a transcription of
`Tag._parse_attributes`, `CallNamespaceTag.__init__`, `ParseFunc.visit_FunctionDef` and
`FunctionDecl.get_argument_expressions`, tied to /repo by the streams `corr.attrs`, `corr.nsexpr`, `corr.sig`),
helper lemmas are in `MakoModel/Codegen/AttrsLemmas*.lean`.

Reading of the property on the model:
* an attribute value is written by its author as a list of pieces – literal text and `${code}`; `render ps` is the
  text between the quotes; `parseAttr` is what `_parse_attributes` stores for it (the Python expression that the
  generated module evaluates), `attrCodes` the code strings it hands to `ast.PythonCode`;
* `Piece.show`: a literal piece should become the string literal `repr(text)`, an expression piece `(code)`;
* `evalTerms ρ`: the value of `t1 + t2 + …` when string literals are read back (`pyUnquote`) and every code `c`
  evaluates to the string `ρ c`;
* `parseFunc` is what `ParseFunc` stores for a Python signature, `getArgExprs … false` the parameter list written
  into `def f(…):` of the generated module, `getArgExprs … true` the argument list of the stub's call
  `render_f(context, …)`; `Spec.decl` / `Spec.asCall` are Python's own syntax for the same signature.
-/
namespace MakoModel.C05
open MakoModel.Codegen.Attrs

/-- **attr_concat_order.** For every list of pieces satisfying the guard `wf` (literal pieces non-empty, ASCII,
free of `{`, no two adjacent; expression codes non-empty, free of `{` and `}`; whitespace-only literals, `$`, `}`,
quotes, backslashes, newlines are all allowed), the stored expression is `show p1 + show p2 + …` in source
order – `a${x}b${y}` ↦ `'a' + (x) + 'b' + (y)` –, the codes handed to `ast.PythonCode` are the expression codes
(rstripped) in order, and under every assignment `ρ` of strings to the codes the concatenation evaluates to the
pieces' values concatenated in order. -/
theorem attr_concat_order (ps : List Piece) (hwf : wf ps = true) (hne : ps ≠ []) :
    parseAttr (render ps) = some (join plus (ps.map Piece.show)) ∧
    attrCodes (render ps) = (ps.filterMap Piece.code?).map rstrip ∧
    ∀ ρ : Str → Str, ∃ ts, attrTerms (render ps) = some ts ∧
      joinTerms ts = join plus (ps.map Piece.show) ∧
      evalTerms ρ ts = some (concat (ps.map (Piece.value ρ))) := by
  refine ⟨?_, attrCodes_render ps hwf, fun ρ => ⟨ps.map Piece.term, attrTerms_render ps hwf,
    joinTerms_pieces ps hne, evalTerms_pieces ρ ps (litsAscii_of_wf ps hwf)⟩⟩
  have h := parseAttr_render ps hwf
  cases ps with
  | nil => exact absurd rfl hne
  | cons p ps => simpa [Spec.attrText] using h

/-- the guard is satisfiable by a mixture with a whitespace-only literal between two expressions, a quote and a
trailing newline; and the statement then reads as the property says -/
example :
    let ps := [Piece.lit "it's ".toList, .ex "x".toList, .lit " ".toList, .ex " y ".toList, .lit "}$\n".toList]
    wf ps = true ∧ ps ≠ [] ∧ render ps = "it's ${x} ${ y }}$\n".toList ∧
    join plus (ps.map Piece.show) = "\"it's \" + (x) + ' ' + ( y ) + '}$\\n'".toList ∧
    (ps.filterMap Piece.code?).map rstrip = ["x".toList, " y".toList] := by decide

example : parseAttr "a${x}b${y}".toList = some "'a' + (x) + 'b' + (y)".toList := by decide

/-- **attr_concat_order_counterexample.** Outside the guard the statement fails on the model (and on the
implementation, oracle site `attr-value-received`): an expression containing braces followed by a later `}` –
`k="${ {1:2}[1] }-${y}"` – is ONE match of the split expression reaching the last `}`; the single code handed to
Python is ` {1:2}[1] }-${y` (a SyntaxException in the real code).  Likewise a literal `{` after an expression:
`${x}{${y}`. -/
theorem attr_concat_order_counterexample :
    let ps := [Piece.ex " {1:2}[1] ".toList, .lit "-".toList, .ex "y".toList]
    let qs := [Piece.ex "x".toList, .lit "{".toList, .ex "y".toList]
    parseAttr (render ps) = some "( {1:2}[1] }-${y)".toList ∧
    parseAttr (render ps) ≠ some (join plus (ps.map Piece.show)) ∧
    attrCodes (render ps) = [" {1:2}[1] }-${y".toList] ∧
    parseAttr (render qs) = some "(x}{${y)".toList ∧
    parseAttr (render qs) ≠ some (join plus (qs.map Piece.show)) := by decide

/-- **attr_pure_text.** A non-empty ASCII value without any `${…}` match is stored as exactly one string
literal, its `repr`. -/
theorem attr_pure_text (s : Str) (hne : s ≠ []) (hasc : isAscii s = true) (hnm : noMatch s = true) :
    parseAttr s = some (pyReprA s) ∧ attrCodes s = [] := by
  refine ⟨parseAttr_noMatch s hne hasc hnm, ?_⟩
  have hpc : pieceCode s = none := by
    cases hp : pieceCode s with
    | none => rfl
    | some g =>
      exfalso
      apply pieceCode_matchHere s g hp
      cases s with
      | nil => exact absurd rfl hne
      | cons c s =>
        simp [noMatch] at hnm
        cases hh : matchHere (c :: s) with
        | none => rfl
        | some v => simp [hh] at hnm
  simp [attrCodes, splitAttr, splitGo_noMatch s hnm, hpc]

example :
    let s := "it's $x {y} ${".toList
    s ≠ [] ∧ isAscii s = true ∧ noMatch s = true ∧ pyReprA s = "\"it's $x {y} ${\"".toList := by decide

/-- a value without `$` is pure text -/
example (s : Str) (h : '$' ∉ s) : noMatch s = true := noMatch_of_no_dollar s h

/-- **attr_empty.** `k=""` is stored as `''`. -/
theorem attr_empty : parseAttr [] = some ['\'', '\''] ∧ attrCodes [] = [] := by decide

/-- **attr_literal_roundtrip.** For every ASCII string, reading the string literal `repr` writes gives the string
back: the literal text of an attribute reaches the callee unchanged. -/
theorem attr_literal_roundtrip (s : Str) (h : isAscii s = true) :
    ∃ r, pyRepr s = some r ∧ pyUnquote r = some s :=
  ⟨pyReprA s, by simp [pyRepr, h], pyUnquote_pyReprA s h⟩

example :
    let s := "a'b\"c\\d\ne\x01\x7f".toList
    isAscii s = true ∧ pyRepr s = some "'a\\'b\"c\\\\d\\ne\\x01\\x7f'".toList := by decide

/-- **call_kwargs_from_attrs.** `<%ns:defname k1="…" k2="…" args="…">`: for all attribute lists (the lexer builds
a dict: keys are distinct) whose values are well-formed piece lists, the call expression is
`ns.defname(k1=<concatenation 1>,k2=<concatenation 2>)` – one keyword argument per attribute, in source order,
`args` left out. -/
theorem call_kwargs_from_attrs (ns defname : Str) (kvs : List (Str × List Piece))
    (h : ∀ kv ∈ kvs, wf kv.2 = true) :
    nsExpr ns defname (kvs.map fun kv => (kv.1, render kv.2)) =
      some (ns ++ '.' :: (defname ++ '(' ::
        (join [','] ((kvs.filter fun kv => kv.1 ≠ argsKey).map fun kv => kv.1 ++ '=' :: Spec.attrText kv.2)
          ++ [')']))) := by
  have e := filter_map_key kvs Spec.attrText
  simp only [nsExpr, parseAll_render kvs h, e]
  simp [kwText, List.map_map, Function.comp_def]

example :
    let kvs := [("k".toList, [Piece.lit "a".toList, .ex "x".toList]), ("args".toList, [.lit "a, b".toList]),
                ("k2".toList, [])]
    (∀ kv ∈ kvs, wf kv.2 = true) ∧
    nsExpr "self".toList "show".toList (kvs.map fun kv => (kv.1, render kv.2))
      = some "self.show(k='a' + (x),k2='')".toList := by decide

/-- **signature_reemitted_partial.** For every Python signature (`valid`: Python's own grammar rules) whose
keyword-only parameters come after a real `*name`, the parameter list written into the generated `def` is
Python's syntax for that signature: names, order, defaults, `*name`, keyword-only parameters with their defaults,
`**name`. -/
theorem signature_reemitted_partial (s : PySig) (hv : s.valid = true)
    (hk : s.kwonly ≠ [] → s.vararg.isSome = true) :
    getArgExprs (parseFunc s) false = some (Spec.decl s) := by
  rw [getArgExprs_parseFunc]
  simp only [PySig.valid, Bool.and_eq_true, Bool.or_eq_true, Bool.not_eq_true'] at hv
  obtain ⟨⟨hdt, hbare⟩, _⟩ := hv
  have hb : s.bareStar = false := by
    rcases hbare with hb | hb
    · exact hb
    · have h1 : s.kwonly ≠ [] := by
        intro e
        simp [e] at hb
      have h2 := hk h1
      cases hva : s.vararg with
      | none => simp [hva] at h2
      | some v => simp [hva] at hb
  rw [kwLoop_params, posLoop_params s.pos hdt]
  cases hva : s.vararg <;> cases hkw : s.kwarg <;> simp [Spec.decl, hva, hkw, hb, optList]

example :
    let s : PySig := { pos := [⟨"a".toList, none⟩, ⟨"b".toList, some "1".toList⟩], vararg := some "args".toList,
                       bareStar := false, kwonly := [⟨"c".toList, none⟩, ⟨"d".toList, some "2".toList⟩],
                       kwarg := some "kw".toList }
    s.valid = true ∧ (s.kwonly ≠ [] → s.vararg.isSome = true) ∧
    Spec.decl s = ["a".toList, "b=1".toList, "*args".toList, "c".toList, "d=2".toList, "**kw".toList] := by decide

/-- **signature_reemitted_counterexample.** With a BARE `*` the re-emission is not faithful: the valid signature
`def f(a, b=1, *, c)` is written as `a,b=1,c` – the `*` is lost, so the keyword-only parameter becomes positional
(and here the generated module does not even compile: "parameter without a default follows parameter with a
default").  Same witness on the implementation: oracle site `def-signature-binding`. -/
theorem signature_reemitted_counterexample :
    let s : PySig := { pos := [⟨"a".toList, none⟩, ⟨"b".toList, some "1".toList⟩], vararg := none,
                       bareStar := true, kwonly := [⟨"c".toList, none⟩], kwarg := none }
    s.valid = true ∧
    Spec.decl s = ["a".toList, "b=1".toList, "*".toList, "c".toList] ∧
    getArgExprs (parseFunc s) false = some ["a".toList, "b=1".toList, "c".toList] ∧
    getArgExprs (parseFunc s) false ≠ some (Spec.decl s) := by decide

/-- **signature_ascall.** For every signature (a bare `*` included) the `as_call=True` form passes positional
parameters positionally, then `*name`, every keyword-only parameter as `c=c`, then `**name`. -/
theorem signature_ascall (s : PySig) : getArgExprs (parseFunc s) true = some (Spec.asCall s) := by
  rw [getArgExprs_parseFunc, kwLoop_call, posLoop_call]
  cases hva : s.vararg <;> cases hkw : s.kwarg <;>
    simp [Spec.asCall, hva, hkw, optList, List.map_reverse, Function.comp_def]

example :
    let s : PySig := { pos := [⟨"a".toList, some "1".toList⟩], vararg := none, bareStar := true,
                       kwonly := [⟨"c".toList, none⟩], kwarg := some "kw".toList }
    Spec.asCall s = ["a".toList, "c=c".toList, "**kw".toList] := by decide

end MakoModel.C05
