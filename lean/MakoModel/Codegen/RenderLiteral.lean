import MakoModel.Codegen.Refine
import MakoModel.Lexer.Plain
/-!
# Literal text and the documented escapes end to end: lexer → template → generated code → execution

* `silentPayload` – the tokens for which the code generator emits nothing (bare backslash-newline, `##` / `<%doc>`
  comments, the tags of an unfiltered `<%text>`); `tmplOfTokens` maps a token list made of text tokens and silent
  tokens to the structured template (`none` for any other token kind); `textsOf` is the concatenation of the text
  contents; `EscapeOnly` the decidable predicate "only such tokens", `tmplOfTokens_of_escapeOnly` its link.
* `exec_textOnly` / `exec_hoist_textOnly` / `exec_codegen_textOnly` compute the execution of the code generated
  for a text-only template (every fuel above an explicit bound, every crash point – such a template has no
  evaluation point); `render_textOnly` and `render_text_tokens_core` do the same for the whole `render`.
* Used by `Props/C01.lean`: `render_text_tokens`, `render_literal` (with `Lexer.lex_plain`: a directive-free source
  is rendered as itself), `render_escape_tokens`, `render_documented_escapes_partial`.
-/
namespace MakoModel.Codegen
open MakoModel.Target

/-- does the code generator emit nothing for this token?  Backslash-newline (`cont`), comments (`##` lines and
    `<%doc>` sections: `parsetree.Comment` has no visitor), and the tags of an unfiltered `<%text>`
    (`visitTextTag` without `filter=` only visits the body, which is a text token of its own) -/
def silentPayload : Lexer.Payload → Bool
  | .cont => true
  | .comment _ => true
  | .tagOpen kw attrs _ => kw == Lexer.lit "text" && attrs.isEmpty
  | .tagClose kw => kw == Lexer.lit "text"
  | _ => false

/-- a token list consisting of text tokens and silent tokens (literal text and the documented escapes), as a
    template; `none` for every other token kind -/
def tmplOfTokens : List Lexer.Token → Option Tmpl
  | [] => some .nil
  | t :: ts => match t.payload with
    | .text s => (tmplOfTokens ts).map (.seq (.text s) ·)
    | p => if silentPayload p then (tmplOfTokens ts).map (.seq .nil ·) else none

/-- the contents of the text tokens, in order -/
def textsOf : List Lexer.Token → Str
  | [] => []
  | t :: ts => (match t.payload with | .text s => s | _ => []) ++ textsOf ts

/-- templates built from text only -/
def TextOnly : Tmpl → Bool
  | .nil => true
  | .text _ => true
  | .seq a b => TextOnly a && TextOnly b
  | _ => false

def textOf : Tmpl → Str
  | .text s => s
  | .seq a b => textOf a ++ textOf b
  | _ => []

/-- fuel the statements of a text-only template need -/
def textDepth : Tmpl → Nat
  | .seq a b => 1 + max (textDepth a) (textDepth b)
  | _ => 2

theorem tmplOfTokens_textOnly : ∀ (toks : List Lexer.Token) (t : Tmpl), tmplOfTokens toks = some t →
    TextOnly t = true ∧ textOf t = textsOf toks ∧ textDepth t ≤ 2 + toks.length := by
  intro toks
  induction toks with
  | nil => intro t h; simp only [tmplOfTokens, Option.some.injEq] at h; subst h; simp [TextOnly, textOf, textsOf, textDepth]
  | cons tok ts ih =>
    intro t h
    have step : ∀ (hd : Tmpl) (c : Str), TextOnly hd = true → textOf hd = c → textDepth hd = 2 →
        (match tok.payload with | .text s => s | _ => []) = c →
        (tmplOfTokens ts).map (.seq hd ·) = some t →
        TextOnly t = true ∧ textOf t = textsOf (tok :: ts) ∧ textDepth t ≤ 2 + (tok :: ts).length := by
      intro hd c h1 h2 h3 h4 h5
      cases hts : tmplOfTokens ts with
      | none => simp [hts] at h5
      | some t' =>
        simp only [hts, Option.map_some, Option.some.injEq] at h5
        subst h5
        obtain ⟨i1, i2, i3⟩ := ih t' hts
        refine ⟨by simp [TextOnly, h1, i1], by simp [textOf, textsOf, h2, h4, i2], ?_⟩
        simp only [textDepth, List.length_cons, h3]
        omega
    simp only [tmplOfTokens] at h
    cases hp : tok.payload with
    | text s => simp only [hp] at h; exact step (.text s) s rfl rfl rfl (by simp [hp]) h
    | cont => simp only [hp, silentPayload, if_true] at h; exact step .nil [] rfl rfl rfl (by simp [hp]) h
    | comment c => simp only [hp, silentPayload, if_true] at h; exact step .nil [] rfl rfl rfl (by simp [hp]) h
    | tagOpen kw attrs sc =>
      simp only [hp] at h
      split at h
      · exact step .nil [] rfl rfl rfl (by simp [hp]) h
      · cases h
    | tagClose kw =>
      simp only [hp] at h
      split at h
      · exact step .nil [] rfl rfl rfl (by simp [hp]) h
      · cases h
    | _ => simp [hp, silentPayload] at h

/-- the statements generated for a text-only template append its text to the buffer the writer denotes;
    nothing else changes (no evaluation point: the crash point is irrelevant) -/
theorem exec_textOnly (c : Cfg) (sc : Scope) : ∀ (t : Tmpl), TextOnly t = true → ∀ (n : Nat) (l : Loc) (σ : St) (i : Nat)
    (top : Str) (rest : List (Nat × Str)), textDepth t ≤ n → σ.bufs = (i, top) :: rest → l.writer = i →
    exec c n (stmts sc t) l σ = (.normal, l, { σ with bufs := (i, top ++ textOf t) :: rest }) := by
  intro t
  induction t with
  | nil =>
    intro _ n l σ i top rest hn hb _
    obtain ⟨m, rfl⟩ := Nat.exists_eq_add_of_le' (show 1 ≤ n by simp only [textDepth] at hn; omega)
    simp only [stmts, exec, textOf, List.append_nil, ← hb]
  | text s =>
    intro _ n l σ i top rest hn hb hw
    obtain ⟨m, rfl⟩ := Nat.exists_eq_add_of_le' (show 2 ≤ n by simpa [textDepth] using hn)
    simp [stmts, exec, eval, textOf, hb, hw, writeTo]
  | seq a b iha ihb =>
    intro h n l σ i top rest hn hb hw
    simp only [TextOnly, Bool.and_eq_true] at h
    simp only [textDepth] at hn
    obtain ⟨m, rfl⟩ := Nat.exists_eq_add_of_le' (show 1 ≤ n by omega)
    simp only [stmts, exec]
    rw [iha h.1 m l σ i top rest (by omega) hb hw]
    simp only
    rw [ihb h.2 m l _ i (top ++ textOf a) rest (by omega) rfl hw]
    simp [textOf]
  | _ => intro h; simp [TextOnly] at h

/-- … and its prologue defines nothing -/
theorem exec_hoist_textOnly (c : Cfg) (sc : Scope) : ∀ (t : Tmpl), TextOnly t = true → ∀ (n : Nat) (l : Loc) (σ : St),
    textDepth t ≤ n → exec c n (hoist sc t) l σ = (.normal, l, σ) := by
  intro t
  induction t with
  | seq a b iha ihb =>
    intro h n l σ hn
    simp only [TextOnly, Bool.and_eq_true] at h
    simp only [textDepth] at hn
    obtain ⟨m, rfl⟩ := Nat.exists_eq_add_of_le' (show 1 ≤ n by omega)
    simp only [hoist, exec]
    rw [iha h.1 m l σ (by omega)]
    simp only
    exact ihb h.2 m l σ (by omega)
  | nil =>
    intro _ n l σ hn
    obtain ⟨m, rfl⟩ := Nat.exists_eq_add_of_le' (show 1 ≤ n by simp only [textDepth] at hn; omega)
    simp [hoist, exec]
  | text s =>
    intro _ n l σ hn
    obtain ⟨m, rfl⟩ := Nat.exists_eq_add_of_le' (show 1 ≤ n by simp only [textDepth] at hn; omega)
    simp [hoist, exec]
  | _ => intro h; simp [TextOnly] at h

theorem textOnly_noRefs : ∀ t : Tmpl, TextOnly t = true → refsLoop t = false ∧ usesCaller t = false := by
  intro t
  induction t with
  | seq a b iha ihb =>
    intro h
    simp only [TextOnly, Bool.and_eq_true] at h
    simp [refsLoop, usesCaller, iha h.1, ihb h.2]
  | nil => intro _; simp [refsLoop, usesCaller]
  | text s => intro _; simp [refsLoop, usesCaller]
  | _ => intro h; simp [TextOnly] at h

theorem exec_seq_fwd (c : Cfg) {n : Nat} {a b : Stmt} {l l1 : Loc} {σ σ1 : St}
    (h : exec c n a l σ = (.normal, l1, σ1)) : exec c (n + 1) (.seq a b) l σ = exec c n b l1 σ1 := by
  simp only [exec, h]

theorem exec_tryFinally_fwd (c : Cfg) {n : Nat} {b f : Stmt} {l l1 l2 : Loc} {σ σ1 σ2 : St} {o : Outcome}
    (hb : exec c n b l σ = (o, l1, σ1)) (ho : o ≠ .timeout) (hf : exec c n f l1 σ1 = (.normal, l2, σ2)) :
    exec c (n + 1) (.tryFinally b f) l σ = (o, l2, σ2) := by
  simp only [exec, hb]
  cases o <;> simp_all

/-- `render_body` of a text-only template, run from the initial state -/
theorem exec_codegen_textOnly (c : Cfg) (t : Tmpl) (ht : TextOnly t = true) (n : Nat) (hn : textDepth t ≤ n) (l : Loc) :
    exec c (n + 6) (codegen t) l St.init =
      (.ret [], { l with caller := [], writer := 0 }, { St.init with bufs := [(0, textOf t)] }) := by
  obtain ⟨hr, hu⟩ := textOnly_noRefs t ht
  have hshape : codegen t = .seq (.prim .pushFrame)
      (.tryFinally (.seq (.seq (hoist ⟨true, false, false, false⟩ t) (.prim .getWriter))
                         (.seq (stmts ⟨true, false, false, false⟩ t) (.ret emptyStr))) (.prim .popFrame)) := by
    simp [codegen, renderCallable, defShape, noFlags, hr, hu]
  rw [hshape]
  -- bottom up
  have eH := exec_hoist_textOnly c ⟨true, false, false, false⟩ t ht (n + 2) { l with caller := ([] : NS) }
    { St.init with frames := [[]], next := [] } (by omega)
  have eG : exec c (n + 2) (.prim .getWriter) { l with caller := ([] : NS) } { St.init with frames := [[]], next := [] } =
      (.normal, { l with caller := [], writer := 0 }, { St.init with frames := [[]], next := [] }) := by
    rw [show n + 2 = (n + 1) + 1 from rfl, exec_prim]; rfl
  have eP := (exec_seq_fwd c (b := .prim .getWriter) eH).trans eG
  have eS := exec_textOnly c ⟨true, false, false, false⟩ t ht (n + 2) { l with caller := ([] : NS), writer := 0 }
    { St.init with frames := [[]], next := [] } 0 [] [] (by omega) rfl rfl
  have eRet : exec c (n + 2) (.ret emptyStr) { l with caller := ([] : NS), writer := 0 }
      { St.init with frames := [[]], next := [], bufs := [(0, [] ++ textOf t)] } =
      (.ret [], { l with caller := [], writer := 0 },
        { St.init with frames := [[]], next := [], bufs := [(0, [] ++ textOf t)] }) := by
    rw [show n + 2 = n + 1 + 1 from rfl]
    simp [exec, eval, emptyStr]
  have eR := (exec_seq_fwd c (b := .ret emptyStr) eS).trans eRet
  have eB := (exec_seq_fwd c (b := .seq (stmts ⟨true, false, false, false⟩ t) (.ret emptyStr)) eP).trans eR
  have ePop : exec c (n + 4) (.prim .popFrame) { l with caller := ([] : NS), writer := 0 }
      { St.init with frames := [[]], next := [], bufs := [(0, [] ++ textOf t)] } =
      (.normal, { l with caller := [], writer := 0 }, { St.init with bufs := [(0, textOf t)] }) := by
    rw [show n + 4 = (n + 3) + 1 from rfl, exec_prim]; rfl
  have eT := exec_tryFinally_fwd c eB (by simp) ePop
  have ePush : exec c (n + 5) (.prim .pushFrame) l St.init =
      (.normal, { l with caller := ([] : NS) }, { St.init with frames := [[]], next := [] }) := by
    rw [show n + 5 = (n + 4) + 1 from rfl, exec_prim]; rfl
  exact (exec_seq_fwd c ePush).trans eT

/-- **the whole render of a text-only template**: its text, for every crash point, every combination of
    `error_handler` / `format_exceptions`, every other template in the set, every fuel from `textDepth t + 7` on -/
theorem render_textOnly (ts : List (Tmpl × Option Bool)) (k : Nat) (t : Tmpl) (ieh : Option Bool) (ht : TextOnly t = true)
    (o : Opts) (fuel : Nat) (hf : textDepth t + 7 ≤ fuel) :
    (render (progOf ((t, ieh) :: ts) k) o fuel).1 = .val [] ∧
      (render (progOf ((t, ieh) :: ts) k) o fuel).2.1 = textOf t := by
  obtain ⟨n, rfl⟩ := Nat.exists_eq_add_of_le hf
  obtain ⟨hr, _⟩ := textOnly_noRefs t ht
  have hbody : runBody (progOf ((t, ieh) :: ts) k) (textDepth t + 7 + n) St.init =
      (.val [], { St.init with bufs := [(0, textOf t)] }) := by
    have hm : (progOf ((t, ieh) :: ts) k).prog[0]? = some (codegenModule t ieh) := by simp [progOf]
    generalize progOf ((t, ieh) :: ts) k = c at hm
    have e := exec_codegen_textOnly c t ht (textDepth t + n) (by omega)
      { vars := [] ++ (Loc.init 0).vars, funs := (Loc.init 0).funs, writer := (Loc.init 0).writer, mbuf := [],
        caller := [], lexc := [], savedNext := [], useLex := false, mod := 0 }
    simp only [runBody, hm, codegenModule, hr]
    rw [show textDepth t + 7 + n = (textDepth t + n + 6) + 1 by omega]
    simp only [invoke, zipArgs, Bool.false_eq_true, if_false]
    rw [e]
    simp [decoPost]
  simp only [render, execTemplate, hbody]
  cases o.formatExceptions <;> cases o.errorHandler <;> simp

/-- token lists made of text tokens render as the concatenation of their contents, in order -/
theorem render_text_tokens_core (toks : List Lexer.Token) (t : Tmpl) (h : tmplOfTokens toks = some t)
    (ts : List (Tmpl × Option Bool)) (ieh : Option Bool) (k : Nat) (o : Opts) (fuel : Nat)
    (hf : toks.length + 9 ≤ fuel) :
    (render (progOf ((t, ieh) :: ts) k) o fuel).1 = .val [] ∧
      (render (progOf ((t, ieh) :: ts) k) o fuel).2.1 = textsOf toks := by
  obtain ⟨h1, h2, h3⟩ := tmplOfTokens_textOnly toks t h
  have := render_textOnly ts k t ieh h1 o fuel (by omega)
  rw [h2] at this
  exact this

/-- every token is literal text or one of the silent tokens of the documented escapes -/
def EscapeOnly (toks : List Lexer.Token) : Bool :=
  toks.all fun t => match t.payload with
    | .text _ => true
    | p => silentPayload p

theorem tmplOfTokens_of_escapeOnly : ∀ toks : List Lexer.Token, EscapeOnly toks = true → ∃ t, tmplOfTokens toks = some t := by
  intro toks
  induction toks with
  | nil => intro _; exact ⟨.nil, rfl⟩
  | cons tok ts ih =>
    intro h
    simp only [EscapeOnly, List.all_cons, Bool.and_eq_true] at h
    obtain ⟨t', ht'⟩ := ih h.2
    have h1 := h.1
    cases hp : tok.payload with
    | text s => exact ⟨.seq (.text s) t', by simp [tmplOfTokens, hp, ht']⟩
    | cont => exact ⟨.seq .nil t', by simp [tmplOfTokens, hp, ht', silentPayload]⟩
    | comment c => exact ⟨.seq .nil t', by simp [tmplOfTokens, hp, ht', silentPayload]⟩
    | tagOpen kw attrs sc =>
      simp only [hp] at h1
      exact ⟨.seq .nil t', by simp only [tmplOfTokens, hp, h1, if_true, ht', Option.map_some]⟩
    | tagClose kw =>
      simp only [hp] at h1
      exact ⟨.seq .nil t', by simp only [tmplOfTokens, hp, h1, if_true, ht', Option.map_some]⟩
    | expr a b => simp [hp, silentPayload] at h1
    | ctl a b c => simp [hp, silentPayload] at h1
    | code a b => simp [hp, silentPayload] at h1
    | coding => simp [hp, silentPayload] at h1
    | skipped => simp [hp, silentPayload] at h1

end MakoModel.Codegen
