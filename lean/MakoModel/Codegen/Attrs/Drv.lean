import MakoModel.Codegen.AttrsDrv
/-! Registration shim: `tools/gen_drivers.py` expects a handler named `<Area>.Drv.handle` in the module
`MakoModel.<Area>.Drv`; the handler itself is `MakoModel.Codegen.AttrsDrv.handle`. -/
namespace MakoModel.Codegen.Attrs.Drv

def handle : MakoModel.Wire.Handler := MakoModel.Codegen.AttrsDrv.handle

end MakoModel.Codegen.Attrs.Drv
