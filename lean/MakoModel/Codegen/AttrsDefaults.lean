import MakoModel.Codegen.Attrs
import MakoModel.PyExpr.Model
/-!
# C05 – the default values of a re-emitted signature

`pyparser.ParseFunc` keeps the defaults of a `<%def name="f(…)">` as **AST nodes** (`node.args.defaults`,
`node.args.kw_defaults`); `FunctionDecl.get_argument_expressions` writes each of them back as
`"%s=%s" % (name, pyparser.ExpressionGenerator(default).value())`.  So the default a generated `def render_f(context, …)`
(and the `def f(…)` stub / closure of the same def) binds is not the text of the template but what
`_ast_util.SourceGenerator` prints for its AST – the printer modelled in `PyExpr/Print.lean` (property C19's model;
`printStr e` = `ExpressionGenerator(e).value()`, `none` = the generator raises).

This file connects the two models: a signature whose defaults are ASTs (`ASig`), its printed form (`ASig.printed`,
a `PySig` of `Codegen/Attrs.lean`), and the facts about the printed text that matter for *binding*: a tuple is
written back as a tuple of the same length – in particular a one-element tuple keeps its comma.
-/
namespace MakoModel.Codegen.Attrs
open MakoModel.PyExpr

/-- a parameter whose default is still an expression tree -/
structure AParam where
  name : Str
  default : Option Expr

/-- a Python signature as `ParseFunc` has it -/
structure ASig where
  pos : List AParam
  vararg : Option Str
  bareStar : Bool
  kwonly : List AParam
  kwarg : Option Str

/-- `ExpressionGenerator(default).value()`; `none` when the generator raises -/
def AParam.printed (p : AParam) : Option Param :=
  match p.default with
  | none => some ⟨p.name, none⟩
  | some e => (printStr e).map fun s => ⟨p.name, some s⟩

def printedParams : List AParam → Option (List Param)
  | [] => some []
  | p :: ps => do
    let q ← p.printed
    let qs ← printedParams ps
    pure (q :: qs)

/-- the signature with every default written back by the printer -/
def ASig.printed (s : ASig) : Option PySig := do
  let pos ← printedParams s.pos
  let kwonly ← printedParams s.kwonly
  pure ⟨pos, s.vararg, s.bareStar, kwonly, s.kwarg⟩

/-- `get_argument_expressions()` of the `FunctionDecl` parsed from the signature: `none` = an exception
    (the printer raises, or the `IndexError` of `Attrs.getArgExprs`) -/
def ASig.decl (s : ASig) (asCall : Bool) : Option (List Str) :=
  match s.printed with
  | none => none
  | some p => getArgExprs (parseFunc p) asCall

theorem printedParams_eq : ∀ (ps : List AParam) (qs : List Param), printedParams ps = some qs →
    qs = ps.map fun p => ⟨p.name, p.default.bind printStr⟩ := by
  intro ps
  induction ps with
  | nil => intro qs h; simp [printedParams] at h; simp [h]
  | cons p ps ih =>
    intro qs h
    simp only [printedParams] at h
    cases hp : p.printed with
    | none => simp [hp] at h
    | some q =>
      cases hr : printedParams ps with
      | none => simp [hp, hr] at h
      | some rs =>
        simp [hp, hr] at h
        subst h
        rw [ih rs hr]
        obtain ⟨n, d⟩ := p
        cases d with
        | none => simp [AParam.printed] at hp; simp [← hp]
        | some e =>
          simp only [AParam.printed] at hp
          cases he : printStr e with
          | none => simp [he] at hp
          | some t => simp [he] at hp; simp [← hp, he]

/-! ## what the printer does with a tuple -/

theorem printList_one (e : Expr) : printList [e] = (print e).map fun t => [t] := by
  simp only [printList]
  cases print e <;> rfl

/-- a tuple is written as `(` items separated by `, ` `)`, with a trailing comma exactly when it has one item -/
theorem printStr_tuple (es : List Expr) (te : List Toks) (h : printList es = some te) :
    printStr (.tuple es) =
      some (['('] ++ PyExpr.render (joinWith comma te) ++ (if es.length = 1 then [','] else []) ++ [')']) := by
  have hv : hasVisitor .tuple = true := by decide
  simp only [printStr, print, hv, if_true, h]
  split <;> simp [PyExpr.render, lpar, rpar, Tok.text, List.map_append, List.flatten_append]

/-- a one-element tuple keeps its comma: `(e,)` -/
theorem printStr_tuple_one (e : Expr) :
    printStr (.tuple [e]) = (printStr e).map fun s => ['('] ++ s ++ [',', ')'] := by
  cases h : print e with
  | none =>
    have hv : hasVisitor .tuple = true := by decide
    simp [printStr, print, hv, printList, h]
  | some t =>
    have hl : printList [e] = some [t] := by rw [printList_one, h]; rfl
    rw [printStr_tuple [e] [t] hl]
    simp [printStr, h, joinWith]

end MakoModel.Codegen.Attrs
