/-!
# C05 – `decorator=`: `runtime._decorate_toplevel` and `runtime._decorate_inline`

A user decorator `fn` receives a callable taking `(*args, **kw)` and returns a callable taking
`(context, *args, **kw)`.  mako wraps it in two ways:

* a top-level def: `go(context, *args, **kw)` builds `y(*args, **kw) = render_fn(context, *args, **kw)` (the PARAMETERS
  of `y`, not those of `go`) and returns `fn(y)(context, *args, **kw)`;
* a nested def: `dec = fn(render_fn)` once, `go(*args, **kw) = dec(context, *args, **kw)`.

Arguments are positionals and keywords (in call order).  The render callable is *observed*: `Trace` records with which
context, positionals and keywords it was entered.
-/
namespace MakoModel.Codegen.Deco

abbrev Str := List Char

/-- the arguments of one Python call: `*args` and `**kw` (keys distinct, call order) -/
structure Args where
  pos : List Str
  kw : List (Str × Str)
  deriving DecidableEq, Repr, Inhabited

/-- (context, args) of every entry into the render callable -/
abbrev Trace := List (Nat × Args)

/-- a user decorator -/
abbrev Decorator := (Args → Trace) → Nat → Args → Trace

/-- `@runtime._decorate_toplevel(fn)` around `render_f(context, *args, **kw)` -/
def decorateToplevel (fn : Decorator) (renderFn : Nat → Args → Trace) : Nat → Args → Trace :=
  fun context args =>
    let y : Args → Trace := fun a => renderFn context a
    fn y context args

/-- `@runtime._decorate_inline(context, fn)` around the closure `f(*args, **kw)` -/
def decorateInline (context : Nat) (fn : Decorator) (renderFn : Args → Trace) : Args → Trace :=
  let dec := fn renderFn
  fun args => dec context args

/-- a decorator that calls what it wraps once per transformation `t`, with the transformed arguments -/
def wrapper (ts : List (Args → Args)) : Decorator :=
  fun f _context a => (ts.map fun t => f (t a)).flatten

/-! the families of harness/c05_rt.py -/

def mapVals (f : Str → Str) (kw : List (Str × Str)) : List (Str × Str) := kw.map fun p => (p.1, f p.2)

def family : String → List (Args → Args)
  | "fwd" => [id]
  | "kwrepl" => [fun a => { a with kw := mapVals ('R' :: ·) a.kw }]
  | "kwadd" => [fun a => if a.kw.any (·.1 == "extra".toList) then a else { a with kw := a.kw ++ [("extra".toList, "ADD".toList)] }]
  | "kwpop" => [fun a => { a with kw := a.kw.drop 1 }]
  | "swap" => [fun a => { a with pos := a.pos.reverse }]
  | "posmark" => [fun a => { a with pos := a.pos.map ('P' :: ·) }]
  | "twice" => [id, fun a => { a with kw := mapVals (· ++ ['2']) a.kw }]
  | _ => []

theorem flatten_singletons {α β} (f : α → β) (l : List α) : (l.map fun x => [f x]).flatten = l.map f := by
  induction l with
  | nil => rfl
  | cons a r ih => simp [ih]

/-- a top-level def sees exactly what the decorator passed – positionals AND keywords – with the context of the call -/
theorem toplevel_forwards (ts : List (Args → Args)) (context : Nat) (args : Args) :
    decorateToplevel (wrapper ts) (fun c a => [(c, a)]) context args = ts.map fun t => (context, t args) := by
  simp only [decorateToplevel, wrapper]
  exact flatten_singletons _ _

theorem inline_forwards (ts : List (Args → Args)) (context : Nat) (args : Args) :
    decorateInline context (wrapper ts) (fun a => [(context, a)]) args = ts.map fun t => (context, t args) := by
  simp only [decorateInline, wrapper]
  exact flatten_singletons _ _

end MakoModel.Codegen.Deco
