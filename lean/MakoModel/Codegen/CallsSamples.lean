import MakoModel.Codegen.CallsMain
/-!
# C05 – sample templates for the non-vacuity examples and the counterexamples
-/
namespace MakoModel.Codegen.Calls
open MakoModel.Target MakoModel.Codegen

def flBuf1 : DefFlags := { buffered := true, filters := [1], cached := false, deco := false }
def flFilt2 : DefFlags := { buffered := false, filters := [2], cached := false, deco := false }
def flDeco : DefFlags := { buffered := false, filters := [], cached := false, deco := true }

/-- `<%def name="d1(v1)" buffered="True" filter="flt1">[${v1}]</%def>`
    `<%def name="d2(v2)"><%def name="d6(v6)" buffered="True">{${v6}}</%def>(${caller.body(v2)}${d3()}${d6('n')}${caller.body('z')})</%def>`
    (a nested buffered def; a filter-only def is called between two uses of `caller`)
    `<%def name="d3()" filter="flt2">f</%def>` `<%def name="d4()" decorator="deco">d${probe(context)}</%def>`
    `a${'p' + d1('q')}` `% for v3 in ['i', 'j']:`
    `<%call expr="d2(v3)" args="v4"><${v4}${capture(d3) | flt0}${d4()}></%call>` `% endfor` `e` -/
def sampleCalls : Tmpl :=
  .seq (.def_ 1 [1] flBuf1 (.seq (.text ['[']) (.seq (.expr (.var 1) []) (.text [']']))))
  (.seq (.def_ 2 [2] noFlags
          (.seq (.def_ 6 [6] { buffered := true, filters := [], cached := false, deco := false }
                  (.seq (.text ['{']) (.seq (.expr (.var 6) []) (.text ['}']))))
          (.seq (.text ['(']) (.seq (.expr (.callerCall 0 [.var 2]) []) (.seq (.expr (.call 3 []) [])
            (.seq (.expr (.call 6 [.lit ['n']]) [])
            (.seq (.expr (.callerCall 0 [.lit ['z']]) []) (.text [')']))))))))
  (.seq (.def_ 3 [] flFilt2 (.text ['f']))
  (.seq (.def_ 4 [] flDeco (.seq (.text ['d']) (.expr .probe [])))
  (.seq (.text ['a'])
  (.seq (.expr (.cat (.lit ['p']) (.call 1 [.lit ['q']])) [])
  (.seq (.for_ 3 [.lit ['i'], .lit ['j']]
          (.call (.call 2 [.var 3]) [4]
            (.seq (.text ['<']) (.seq (.expr (.var 4) []) (.seq (.expr (.capture 3 []) [0])
              (.seq (.expr (.call 4 []) []) (.text ['>'])))))))
        (.text ['e'])))))))

/-- defs written inside a `<%call>`:
    `<%def name="d1()">[${caller.d5('a')}|${caller.body()}]</%def>`
    `<%def name="d2()">{<%call expr="d1()"><%def name="d5(v5)" filter="flt2">n${v5}</%def>`
    `<%def name="d6()">i:${caller.body()}</%def>B<%call expr="d6()">OWN</%call></%call>}</%def>`
    `<%call expr="d2()">TOP</%call>` – `d5` is reached through `caller.d5(…)`, `d6` is called with content from the
    call body and uses its *own* caller (`d2` does not mention `caller`) -/
def sampleNested : Tmpl :=
  .seq (.def_ 1 [] noFlags (.seq (.text ['[']) (.seq (.expr (.callerCall 5 [.lit ['a']]) []) (.seq (.text ['|'])
          (.seq (.expr (.callerCall 0 []) []) (.text [']']))))))
  (.seq (.def_ 2 [] noFlags (.seq (.text ['{'])
          (.seq (.call (.call 1 []) []
                  (.seq (.def_ 5 [5] flFilt2 (.seq (.text ['n']) (.expr (.var 5) [])))
                  (.seq (.def_ 6 [] noFlags (.seq (.text ['i', ':']) (.expr (.callerCall 0 []) [])))
                  (.seq (.text ['B']) (.call (.call 6 []) [] (.text ['O', 'W', 'N']))))))
            (.text ['}']))))
        (.call (.call 2 []) [] (.text ['T', 'O', 'P'])))

/-- `caller.body()` inside the argument list of a `<%call expr>` whose content makes a call with content of its own
    (the witness of the repaired defect F-C05-1: since /repo 555117c the inner `<%call>` puts the pending caller back):
    `<%def name="d1(v1)">[${v1}${caller.body()}]</%def>` `<%def name="d2()">(${caller.body()})</%def>`
    `<%def name="d3()">{<%call expr="d1(caller.body())">F</%call>}</%def>`
    `<%call expr="d3()">O<%call expr="d2()">B</%call></%call>` -/
def quirkCallExpr : Tmpl :=
  .seq (.def_ 1 [1] noFlags (.seq (.text ['[']) (.seq (.expr (.var 1) []) (.seq (.expr (.callerCall 0 []) []) (.text [']'])))))
  (.seq (.def_ 2 [] noFlags (.seq (.text ['(']) (.seq (.expr (.callerCall 0 []) []) (.text [')']))))
  (.seq (.def_ 3 [] noFlags (.seq (.text ['{']) (.seq (.call (.call 1 [.callerCall 0 []]) [] (.text ['F'])) (.text ['}']))))
        (.call (.call 3 []) [] (.seq (.text ['O']) (.call (.call 2 []) [] (.text ['B']))))))

/-- what remains of F-C05-1: while the argument list of a `<%call expr>` is evaluated the caller is *pending*, and a
    def called by name in the meantime takes it for its own:
    `<%def name="d1(v1)">[${v1}${caller.body()}]</%def>` `<%def name="d2()">(${caller.body()})</%def>`
    `<%def name="d3()">{<%call expr="d1(caller.body())">F</%call>}</%def>` `<%call expr="d3()">O${d2()}</%call>`
    – `d2()` is called without content, yet prints `(F)` -/
def quirkLeak : Tmpl :=
  .seq (.def_ 1 [1] noFlags (.seq (.text ['[']) (.seq (.expr (.var 1) []) (.seq (.expr (.callerCall 0 []) []) (.text [']'])))))
  (.seq (.def_ 2 [] noFlags (.seq (.text ['(']) (.seq (.expr (.callerCall 0 []) []) (.text [')']))))
  (.seq (.def_ 3 [] noFlags (.seq (.text ['{']) (.seq (.call (.call 1 [.callerCall 0 []]) [] (.text ['F'])) (.text ['}']))))
        (.call (.call 3 []) [] (.seq (.text ['O']) (.expr (.call 2 []) [])))))

/-- a def written inside a `<%call>` whose enclosing def mentions `caller` (the witness of the repaired defect
    F-C05-3: since /repo 0522f73 such a def takes its *own* caller off the call stack):
    `<%def name="d1()">[${caller.d5()}]</%def>`
    `<%def name="d2()">{${caller.body()}|<%call expr="d1()"><%def name="d5()">i${caller.body()}</%def>B</%call>}</%def>`
    `<%call expr="d2()">T</%call>` – `d5` is called without content: no caller (exception 2) -/
def quirkNested : Tmpl :=
  .seq (.def_ 1 [] noFlags (.seq (.text ['[']) (.seq (.expr (.callerCall 5 []) []) (.text [']']))))
  (.seq (.def_ 2 [] noFlags (.seq (.text ['{']) (.seq (.expr (.callerCall 0 []) []) (.seq (.text ['|'])
          (.seq (.call (.call 1 []) [] (.seq (.def_ 5 [] noFlags (.seq (.text ['i']) (.expr (.callerCall 0 []) []))) (.text ['B'])))
            (.text ['}']))))))
        (.call (.call 2 []) [] (.text ['T'])))

/-- defs of a `<%call>` under a control line (exported by that call) and in a nested `<%call>` (exported by the nested
    call only, since /repo 4a9e6c6):
    `<%def name="d1()">[${caller.d5('a')}|${caller.body()}]</%def>` `<%def name="d2()">(${caller.d7()}:${caller.body()})</%def>`
    `<%call expr="d1()">` `% if 'c':` `<%def name="d5(v5)" filter="flt2">n${v5}</%def>X` `% endif`
    `<%call expr="d2()"><%def name="d7()">s</%def>I${d7()}</%call>B${d5('b')}</%call>`
    (real mako renders `[2(na)|X(s:Is)B2(nb)]`) -/
def sampleDeep : Tmpl :=
  .seq (.def_ 1 [] noFlags (.seq (.text ['[']) (.seq (.expr (.callerCall 5 [.lit ['a']]) []) (.seq (.text ['|'])
          (.seq (.expr (.callerCall 0 []) []) (.text [']']))))))
  (.seq (.def_ 2 [] noFlags (.seq (.text ['(']) (.seq (.expr (.callerCall 7 []) []) (.seq (.text [':'])
          (.seq (.expr (.callerCall 0 []) []) (.text [')']))))))
    (.call (.call 1 []) []
      (.seq (.ite (.lit ['c']) (.seq (.def_ 5 [5] flFilt2 (.seq (.text ['n']) (.expr (.var 5) []))) (.text ['X'])) .nil)
      (.seq (.call (.call 2 []) [] (.seq (.def_ 7 [] noFlags (.text ['s'])) (.seq (.text ['I']) (.expr (.call 7 []) []))))
      (.seq (.text ['B']) (.expr (.call 5 [.lit ['b']]) []))))))

/-- the witness of the repaired defect F-C05-5: the *outer* callee asks for a def of the nested `<%call>`:
    `<%def name="d1()">[${caller.d7()}|${caller.body()}]</%def>` `<%def name="d2()">(${caller.body()})</%def>`
    `<%call expr="d1()"><%call expr="d2()"><%def name="d7()">inner</%def>x</%call></%call>` – before /repo 4a9e6c6
    this rendered `[inner|(x)]`; now `caller` has no `d7` (exception 2 after `[`) -/
def quirkOuterExport : Tmpl :=
  .seq (.def_ 1 [] noFlags (.seq (.text ['[']) (.seq (.expr (.callerCall 7 []) []) (.seq (.text ['|'])
          (.seq (.expr (.callerCall 0 []) []) (.text [']']))))))
  (.seq (.def_ 2 [] noFlags (.seq (.text ['(']) (.seq (.expr (.callerCall 0 []) []) (.text [')']))))
    (.call (.call 1 []) []
      (.call (.call 2 []) [] (.seq (.def_ 7 [] noFlags (.text ['i', 'n', 'n', 'e', 'r'])) (.text ['x'])))))

/-- blocks and an include (block names start at `blockBase`):
    `<%def name="d1(v1)">[${v1}]</%def>a<%block name="b1" filter="flt2">x${d1('q')}</%block>`
    `% for v3 in ['i', 'j']:` `<%block filter="flt2">` `% for v4 in ['u', v3]:` `${loop.index}${v4}` `% endfor` `</%block>`
    `% endfor` `<%include file="t1"/>` `<%def name="d2()">(<%block filter="flt2">${probe(context)}</%block>)</%def>${d2()}`
    – a named block of the template body (a module-level callable, rendered in place), an anonymous block inside a loop
    with a loop of its own that reads a variable of the enclosing scope, an anonymous block inside a def -/
def sampleBlocks : Tmpl :=
  .seq (.def_ 1 [1] noFlags (.seq (.text ['[']) (.seq (.expr (.var 1) []) (.text [']']))))
  (.seq (.text ['a'])
  (.seq (.block 2000001 false flFilt2 (.seq (.text ['x']) (.expr (.call 1 [.lit ['q']]) [])))
  (.seq (.for_ 3 [.lit ['i'], .lit ['j']]
          (.block 2000002 true flFilt2
            (.for_ 4 [.lit ['u'], .var 3] (.seq (.expr .loopIndex []) (.expr (.var 4) [])))))
  (.seq (.include_ 1)
  (.seq (.def_ 2 [] noFlags (.seq (.text ['(']) (.seq (.block 2000003 true flFilt2 (.expr .probe [])) (.text [')']))))
        (.expr (.call 2 []) []))))))

/-- the included template: `I<%block name="b1">k</%block><%block buffered="True">z</%block>J` – its named block is a
    callable of *its* module (same name as the includer's); the content of the buffered block is returned to the
    place of the block, which writes it (`__M_writer(block() or '')`, /repo 248d875) -/
def sampleIncluded : Tmpl :=
  .seq (.text ['I']) (.seq (.block 2000001 false noFlags (.text ['k']))
    (.seq (.block 2000004 true { buffered := true, filters := [], cached := false, deco := false } (.text ['z'])) (.text ['J'])))

/-- `withBufferFilters bf t`: the template as the generator sees it when the `Template` was constructed with
    `buffer_filters=bf` – `write_def_finish` applies them after the def's own `filter=` functions, for buffered
    defs that are not cached -/
def withBufferFilters (bf : List Nat) : Tmpl → Tmpl
  | .seq a b => .seq (withBufferFilters bf a) (withBufferFilters bf b)
  | .ite c t e => .ite c (withBufferFilters bf t) (withBufferFilters bf e)
  | .for_ x items b => .for_ x items (withBufferFilters bf b)
  | .while_ n b => .while_ n (withBufferFilters bf b)
  | .try_ b h => .try_ (withBufferFilters bf b) (withBufferFilters bf h)
  | .def_ name ps fl b =>
    .def_ name ps (if fl.buffered && !fl.cached then { fl with filters := fl.filters ++ bf } else fl) (withBufferFilters bf b)
  | .block name anon fl b =>
    .block name anon (if fl.buffered && !fl.cached then { fl with filters := fl.filters ++ bf } else fl)
      (withBufferFilters bf b)
  | .call e args b => .call e args (withBufferFilters bf b)
  | t => t

end MakoModel.Codegen.Calls
