/-!
# L2/L3 (C05): tag attribute parsing and def signature re-emission

Transcriptions of

* `mako/parsetree.py` `Tag._parse_attributes` (the branch `key in expressions`): the split of an attribute
  value with `re.compile(r"(\${(?:[^$]*?{.+|.+?)})", re.S)`, the per-piece test
  `re.compile(r"^\${(.+?)}$", re.S).match(x)`, `repr(x)` for text pieces, `"(%s)" % m.group(1)` for
  expression pieces, `" + ".join(expr) or repr("")`;
* `CallNamespaceTag.__init__`: `"%s.%s(%s)" % (namespace, defname, ",".join("%s=%s" % (k, v) …))`;
* `mako/pyparser.py` `ParseFunc.visit_FunctionDef` and `mako/ast.py` `FunctionDecl.get_argument_expressions`.

Strings are `List Char`.  What Python itself contributes (the backtracking semantics of the two regular
expressions, `repr` of a `str`, `str.rstrip`) is modelled and compared with CPython on every case of the
correspondence streams `corr.attrs`, `corr.nsexpr`, `corr.sig` (harness/c05_attrs.py); Python's syntax check of
the expression pieces (`ast.PythonCode`) is outside the model: the model returns the code strings handed to it.
-/
namespace MakoModel.Codegen.Attrs

abbrev Str := List Char

/-! ## The split regular expression `(\${(?:[^$]*?{.+|.+?)})` with `re.S`

Reading (validated against CPython exhaustively, see `harness/c05_attrs.py: rx_reference`):
a match at a position needs `${` there.  Alternative 1, `[^$]*?{.+` then `}`: going right through characters
other than `$`, the first `{` is at `q`, and the match ends after the LAST `}` of the whole string provided that
one is at an index ≥ q+2 (greedy `.+`, `.` matches newlines).  Otherwise alternative 2, `.+?` then `}`: the match
ends after the first `}` that leaves at least one character for `.+?`. -/

/-- split after the first `c`: `(text up to and including it, rest)` -/
def splitFirst (c : Char) : Str → Option (Str × Str)
  | [] => none
  | x :: xs =>
    if x = c then some ([x], xs)
    else match splitFirst c xs with
      | some (a, b) => some (x :: a, b)
      | none => none

/-- split after the last `c` -/
def splitLast (c : Char) : Str → Option (Str × Str)
  | [] => none
  | x :: xs =>
    match splitLast c xs with
    | some (a, b) => some (x :: a, b)
    | none => if x = c then some ([x], xs) else none

/-- `[^$]*?{`: through characters other than `$` to the first `{`; `(text up to and including it, rest)` -/
def scanBrace : Str → Option (Str × Str)
  | [] => none
  | x :: xs =>
    if x = '$' then none
    else if x = '{' then some ([x], xs)
    else match scanBrace xs with
      | some (a, b) => some (x :: a, b)
      | none => none

/-- alternative 1 on the text after `${`: `(matched text incl. the closing brace, rest)` -/
def alt1 (t : Str) : Option (Str × Str) :=
  match scanBrace t with
  | some (pre, c :: u) =>
    (match splitLast '}' u with
     | some (a, b) => some (pre ++ c :: a, b)
     | none => none)
  | _ => none

/-- alternative 2 on the text after `${` -/
def alt2 : Str → Option (Str × Str)
  | [] => none
  | c :: t =>
    match splitFirst '}' t with
    | some (a, b) => some (c :: a, b)
    | none => none

/-- the regular expression anchored at the head of the string: `(match without its leading "${", rest)` -/
def matchHere : Str → Option (Str × Str)
  | x :: y :: t =>
    if x = '$' ∧ y = '{' then
      (match alt1 t with
       | some r => some r
       | none => alt2 t)
    else none
  | _ => none

/-- put a character in front of the first piece -/
def consHead (c : Char) : List Str → List Str
  | [] => [[c]]      -- unreachable: `splitGo` never returns `[]`
  | p :: ps => (c :: p) :: ps

/-- `re.split` with one capturing group: text, match, text, match, …, text.  `skip` counts the characters of a
match that are still to be passed over (structural recursion on the string). -/
def splitGo : Str → Nat → List Str
  | [], _ => [[]]
  | _ :: s, k + 1 => splitGo s k
  | c :: s, 0 =>
    match matchHere (c :: s) with
    | some (m, _) => [] :: ('$' :: '{' :: m) :: splitGo s (m.length + 1)
    | none => consHead c (splitGo s 0)

def splitAttr (s : Str) : List Str := splitGo s 0

/-! ## The piece test `^\${(.+?)}$` with `re.S` (no `re.M`: `$` also matches before a final newline) -/

/-- after the first character of the group: the shortest continuation that is followed by `}` and the end (or
`}` and a final newline) -/
def pieceEnd : Str → Option Str
  | [] => none
  | x :: xs =>
    if x = '}' ∧ (xs = [] ∨ xs = ['\n']) then some []
    else match pieceEnd xs with
      | some g => some (x :: g)
      | none => none

/-- `m.group(1)` of the piece test, `none` when it does not match -/
def pieceCode : Str → Option Str
  | x :: y :: c :: t =>
    if x = '$' ∧ y = '{' then
      (match pieceEnd t with
       | some g => some (c :: g)
       | none => none)
    else none
  | _ => none

/-! ## `repr` of a `str` (exact for code points < 128) and a reader of such literals -/

def hexDigit (n : Nat) : Char := if n < 10 then Char.ofNat (48 + n) else Char.ofNat (87 + n)

/-- CPython `unicode_repr`, one character, with `q` the chosen quote -/
def escChar (q c : Char) : Str :=
  if c = q ∨ c = '\\' then ['\\', c]
  else if c = '\t' then ['\\', 't']
  else if c = '\n' then ['\\', 'n']
  else if c = '\r' then ['\\', 'r']
  else if c.toNat < 32 ∨ c.toNat = 127 then ['\\', 'x', hexDigit (c.toNat / 16), hexDigit (c.toNat % 16)]
  else [c]

/-- `'` unless the string contains `'` and no `"` -/
def chooseQuote (s : Str) : Char := if s.contains '\'' && !s.contains '"' then '"' else '\''

def escBody (q : Char) : Str → Str
  | [] => []
  | c :: s => escChar q c ++ escBody q s

/-- `repr(s)` for a string of code points < 128 -/
def pyReprA (s : Str) : Str := chooseQuote s :: (escBody (chooseQuote s) s ++ [chooseQuote s])

def isAscii (s : Str) : Bool := s.all fun c => c.toNat < 128

/-- `repr(s)`; `none` = outside the modelled range (a code point ≥ 128: CPython then consults
`Py_UNICODE_ISPRINTABLE`) -/
def pyRepr (s : Str) : Option Str := if isAscii s then some (pyReprA s) else none

def hexVal (c : Char) : Option Nat :=
  if 48 ≤ c.toNat ∧ c.toNat ≤ 57 then some (c.toNat - 48)
  else if 97 ≤ c.toNat ∧ c.toNat ≤ 102 then some (c.toNat - 87)
  else none

/-- the body of a Python string literal delimited by `q`, up to and including the closing quote, which must be
the last character; escapes `\\ \' \" \t \n \r \xHH` -/
def unqBody (q : Char) : Str → Option Str
  | [] => none
  | c :: rest =>
    if c = q then (if rest.isEmpty then some [] else none)
    else if c = '\\' then
      match rest with
      | [] => none
      | e :: r =>
        if e = 'x' then
          match r with
          | h1 :: h2 :: r' =>
            (match hexVal h1, hexVal h2, unqBody q r' with
             | some a, some b, some v => some (Char.ofNat (16 * a + b) :: v)
             | _, _, _ => none)
          | _ => none
        else
          match unqBody q r with
          | none => none
          | some v =>
            if e = '\\' ∨ e = '\'' ∨ e = '"' then some (e :: v)
            else if e = 't' then some ('\t' :: v)
            else if e = 'n' then some ('\n' :: v)
            else if e = 'r' then some ('\r' :: v)
            else none
    else
      match unqBody q rest with
      | some v => some (c :: v)
      | none => none

/-- the value of a Python string literal `'…'` / `"…"` (what `eval` of it gives) -/
def pyUnquote : Str → Option Str
  | [] => none
  | q :: body => if q = '\'' ∨ q = '"' then unqBody q body else none

/-! ## `str.rstrip()` -/

/-- `str.isspace` of one character (CPython 3.12 `_PyUnicode_IsWhitespace`) -/
def isPySpace (c : Char) : Bool :=
  let n := c.toNat
  (9 ≤ n && n ≤ 13) || (28 ≤ n && n ≤ 32) || n == 0x85 || n == 0xa0 || n == 0x1680 ||
  (0x2000 ≤ n && n ≤ 0x200a) || n == 0x2028 || n == 0x2029 || n == 0x202f || n == 0x205f || n == 0x3000

def rstrip : Str → Str
  | [] => []
  | c :: s => match rstrip s with
    | [] => if isPySpace c then [] else [c]
    | r => c :: r

/-! ## `_parse_attributes` -/

/-- one operand of the generated concatenation -/
inductive Term where
  | str (literal : Str)      -- `repr(x)`: the text of a Python string literal
  | paren (code : Str)       -- `"(%s)" % m.group(1)`
  deriving DecidableEq, Repr

def Term.text : Term → Str
  | .str r => r
  | .paren c => '(' :: (c ++ [')'])

/-- `sep.join(xs)` -/
def join (sep : Str) : List Str → Str
  | [] => []
  | [x] => x
  | x :: y :: xs => x ++ sep ++ join sep (y :: xs)

def plus : Str := [' ', '+', ' ']

/-- the loop over the pieces: `expr`, or `none` when a text piece is outside the range of `pyRepr` -/
def pieceTerms : List Str → Option (List Term)
  | [] => some []
  | x :: xs =>
    match pieceCode x with
    | some g =>
      (match pieceTerms xs with
       | some ts => some (Term.paren g :: ts)
       | none => none)
    | none =>
      if x.isEmpty then pieceTerms xs
      else match pyRepr x, pieceTerms xs with
        | some r, some ts => some (Term.str r :: ts)
        | _, _ => none

def attrTerms (v : Str) : Option (List Term) := pieceTerms (splitAttr v)

/-- `" + ".join(expr) or repr("")` -/
def joinTerms (ts : List Term) : Str :=
  let j := join plus (ts.map Term.text)
  if j.isEmpty then ['\'', '\''] else j

/-- `parsed_attributes[key]` for a key in `expressions` -/
def parseAttr (v : Str) : Option Str :=
  match attrTerms v with
  | some ts => some (joinTerms ts)
  | none => none

/-- the strings handed to `ast.PythonCode`, in order: `m.group(1).rstrip()` -/
def attrCodes (v : Str) : List Str :=
  (splitAttr v).filterMap fun x => match pieceCode x with
    | some g => some (rstrip g)
    | none => none

/-! ## `CallNamespaceTag.expression`

`attributes` is a dict built by the lexer: the input is a list of (key, raw value) with distinct keys, in source
order.  Every key is in `expressions` (`tuple(attributes.keys()) + ("args",)`), so every value goes through
`parseAttr`, `args` included; `args` is then left out of the call. -/

def argsKey : Str := ['a', 'r', 'g', 's']

def parseAll : List (Str × Str) → Option (List (Str × Str))
  | [] => some []
  | (k, v) :: kvs =>
    match parseAttr v, parseAll kvs with
    | some p, some r => some ((k, p) :: r)
    | _, _ => none

def kwText (kv : Str × Str) : Str := kv.1 ++ '=' :: kv.2

def nsExpr (ns defname : Str) (attrs : List (Str × Str)) : Option Str :=
  match parseAll attrs with
  | some parsed =>
    some (ns ++ '.' :: (defname ++ '(' ::
      (join [','] ((parsed.filter fun kv => kv.1 ≠ argsKey).map kwText) ++ [')'])))
  | none => none

/-! ## Signatures -/

/-- one parameter as Python's grammar has it: a name and an optional default (the default is the text that
`pyparser.ExpressionGenerator` prints for it – an opaque string here, see C19) -/
structure Param where
  name : Str
  default : Option Str
  deriving DecidableEq, Repr

/-- a Python signature: `pos…, *vararg | *, kwonly…, **kwarg` -/
structure PySig where
  pos : List Param
  vararg : Option Str
  bareStar : Bool
  kwonly : List Param
  kwarg : Option Str
  deriving DecidableEq, Repr

/-- Python's rule "parameter without a default follows parameter with a default" -/
def defaultsTrailing : List Param → Bool
  | [] => true
  | p :: ps => if p.default.isSome then ps.all (fun q => q.default.isSome) else defaultsTrailing ps

/-- what Python's grammar admits: defaults of positional parameters are trailing, a bare `*` comes without
`*name` and with at least one keyword-only parameter, keyword-only parameters need `*name` or `*` -/
def PySig.valid (s : PySig) : Bool :=
  defaultsTrailing s.pos &&
  (!s.bareStar || (s.vararg.isNone && !s.kwonly.isEmpty)) &&
  (s.kwonly.isEmpty || s.vararg.isSome || s.bareStar)

/-- the fields `ParseFunc.visit_FunctionDef` stores on the `FunctionDecl` -/
structure ParsedSig where
  argnames : List Str            -- positional names, then the `*name` name
  kwargnames : List Str          -- keyword-only names, then the `**name` name
  defaults : List Str            -- `node.args.defaults` (printed)
  kwdefaults : List (Option Str) -- `node.args.kw_defaults`: one per keyword-only parameter, `None` = no default
  varargs : Bool
  kwargs : Bool
  deriving DecidableEq, Repr

def optList {α} : Option α → List α
  | some a => [a]
  | none => []

def parseFunc (s : PySig) : ParsedSig :=
  { argnames := s.pos.map (·.name) ++ optList s.vararg
    kwargnames := s.kwonly.map (·.name) ++ optList s.kwarg
    defaults := s.pos.filterMap (·.default)
    kwdefaults := s.kwonly.map (·.default)
    varargs := s.vararg.isSome
    kwargs := s.kwarg.isSome }

def eqText (n d : Str) : Str := n ++ '=' :: d

/-- `for name in kwargnames:` (reversed names; `kwdefaults.pop(0)` from the reversed defaults) -/
def kwLoop (asCall : Bool) : List Str → List (Option Str) → List Str
  | [], _ => []
  | n :: ns, kd =>
    if asCall then eqText n n :: kwLoop asCall ns kd
    else match kd with
      | [] => n :: kwLoop asCall ns []
      | none :: kd' => n :: kwLoop asCall ns kd'
      | some d :: kd' => eqText n d :: kwLoop asCall ns kd'

/-- `for name in argnames:` (reversed names; `defaults.pop(0)` from the reversed defaults) -/
def posLoop (asCall : Bool) : List Str → List Str → List Str
  | [], _ => []
  | n :: ns, ds =>
    if asCall then n :: posLoop asCall ns ds
    else match ds with
      | [] => n :: posLoop asCall ns []
      | d :: ds' => eqText n d :: posLoop asCall ns ds'

/-- `prefix + names.pop(0)` when `flag`; `none` = IndexError (pop from an empty list) -/
def popIf (flag : Bool) (pre : Str) (names : List Str) : Option (List Str × List Str) :=
  if flag then
    match names with
    | n :: r => some ([pre ++ n], r)
    | [] => none
  else some ([], names)

/-- `FunctionDecl.get_argument_expressions(as_call)`; `none` = IndexError -/
def getArgExprs (p : ParsedSig) (asCall : Bool) : Option (List Str) :=
  match popIf p.kwargs ['*', '*'] p.kwargnames.reverse with
  | none => none
  | some (d1, kwargnames) =>
    let d2 := kwLoop asCall kwargnames p.kwdefaults.reverse
    match popIf p.varargs ['*'] p.argnames.reverse with
    | none => none
    | some (d3, argnames) =>
      let d4 := posLoop asCall argnames p.defaults.reverse
      some (d1 ++ d2 ++ d3 ++ d4).reverse

/-! ## Specification side: Python's own syntax for a signature -/
namespace Spec

def paramText (p : Param) : Str :=
  match p.default with
  | some d => eqText p.name d
  | none => p.name

/-- the parameter list of `def f(<decl>)` that declares exactly `s` -/
def decl (s : PySig) : List Str :=
  s.pos.map paramText ++
  (match s.vararg with
   | some v => ['*' :: v]
   | none => if s.bareStar then [['*']] else []) ++
  s.kwonly.map paramText ++
  (match s.kwarg with
   | some k => ['*' :: '*' :: k]
   | none => [])

/-- the argument list that passes every parameter of `s` on from locals of the same names: positional
parameters positionally, `*name`, keyword-only parameters by keyword, `**name` -/
def asCall (s : PySig) : List Str :=
  s.pos.map (·.name) ++
  (match s.vararg with
   | some v => ['*' :: v]
   | none => []) ++
  s.kwonly.map (fun p => eqText p.name p.name) ++
  (match s.kwarg with
   | some k => ['*' :: '*' :: k]
   | none => [])

end Spec

/-! ## Pieces (the quantifier of `attr_concat_order`) -/

/-- a piece of an attribute value as its author means it -/
inductive Piece where
  | lit (s : Str)     -- literal text
  | ex (code : Str)   -- `${code}`
  deriving DecidableEq, Repr

def Piece.render : Piece → Str
  | .lit s => s
  | .ex c => '$' :: '{' :: (c ++ ['}'])

/-- the attribute value written for a list of pieces -/
def render : List Piece → Str
  | [] => []
  | p :: ps => p.render ++ render ps

/-- the operand a piece should become -/
def Piece.term : Piece → Term
  | .lit s => .str (pyReprA s)
  | .ex c => .paren c

/-- `show` of the property statement -/
def Piece.show (p : Piece) : Str := p.term.text

/-- the value of a piece under an assignment of strings to expression codes -/
def Piece.value (ρ : Str → Str) : Piece → Str
  | .lit s => s
  | .ex c => ρ c

/-- the code of an expression piece -/
def Piece.code? : Piece → Option Str
  | .lit _ => none
  | .ex c => some c

/-- concatenation of a list of strings -/
def concat : List Str → Str
  | [] => []
  | x :: xs => x ++ concat xs

/-- value of one operand: a string literal is read by `pyUnquote`, a parenthesised code by `ρ` -/
def Term.eval (ρ : Str → Str) : Term → Option Str
  | .str r => pyUnquote r
  | .paren c => some (ρ c)

/-- value of `t1 + t2 + …` on strings: concatenation, left to right; `none` when a literal is unreadable -/
def evalTerms (ρ : Str → Str) : List Term → Option Str
  | [] => some []
  | t :: ts =>
    match t.eval ρ, evalTerms ρ ts with
    | some a, some b => some (a ++ b)
    | _, _ => none

def okLit (s : Str) : Bool := !s.isEmpty && !s.contains '{' && isAscii s

def okCode (c : Str) : Bool := !c.isEmpty && !c.contains '{' && !c.contains '}'

/-- well-formedness guard of `attr_concat_order`: literal pieces are non-empty, ASCII (range of `pyRepr`), free of
`{`, and not adjacent to each other (two adjacent literals are one literal); expression codes are non-empty and
free of `{` and `}`.  `$`, `}`, quotes, backslashes, newlines and whitespace-only text are allowed in literals,
`$` and whitespace in codes. -/
def wf : List Piece → Bool
  | [] => true
  | .ex c :: ps => okCode c && wf ps
  | .lit s :: ps =>
    okLit s && (match ps with
      | .lit _ :: _ => false
      | _ => true) && wf ps

/-- no `${…}` match anywhere in the string -/
def noMatch : Str → Bool
  | [] => true
  | c :: s => (matchHere (c :: s)).isNone && noMatch s

/-- expected text of `parsed_attributes[key]` for a piece list -/
def Spec.attrText (ps : List Piece) : Str :=
  if ps.isEmpty then ['\'', '\''] else join plus (ps.map Piece.show)

end MakoModel.Codegen.Attrs
