import MakoModel.Codegen.Model
/-!
# L5s – the specification renderer

`Spec.render` interprets the structured template **directly**.  There is no buffer stack, no caller stack, no
`nextcaller`, no loop stack and no `try/finally`:

* output is a *returned value* (`SR.out`, `SE.out`); a buffered def, a filter, `capture` simply *use* the string
  returned by the sub-rendering; on an exception the returned string is the text written **directly** before
  it, and a buffering construct returns the empty string instead (its partial content is dropped);
* `caller` is an *argument* (`Env.caller`): a def gets the caller of its call, a `<%call>` body the caller of
  the scope it is written in;
* `loop` is the *list of enclosing loop indices* (`Env.loops`), extended while a `% for` body runs;
* the stack depths a probe may print are arguments too (`Env.nb`, `Env.nf`): the nesting depth of buffering
  constructs and of callable activations.

There is therefore nothing an exception could leave behind: the result for (template, crash point) is by
construction "as if every abandoned construct had been exited normally".  Variables and closures follow the
same dynamic chain as the target model (they coincide with lexical scoping on templates whose binders have
unique names and whose defs are not recursive).

Intended-semantics choices where mako's generated code is quirky (the generator `gen_template.py` stays away
from these; they are recorded for C05/C03): `caller.x()` evaluated inside a `<%call expr>` does not see the pending caller; `return` inside a buffered def keeps the content.
Limitation (not a choice): a `<%call>` body is rendered with no enclosing loop contexts, whereas in mako `loop` used
directly in a call body under a `% for` denotes that loop; the generator does not emit this shape.
-/
namespace MakoModel.Codegen.Spec
open MakoModel.Target MakoModel.Codegen

inductive Kind | main | def_ | block | body
  deriving DecidableEq, Repr, Inhabited

structure SFun where
  params : List Name
  fl : DefFlags
  body : Tmpl
  kind : Kind
  mod : Nat
  deriving Repr, Inhabited

/-- the callables of one `<%call>`; the caller they see is the rest of the chain -/
abbrev SLayer := List (Name × SFun)
abbrev SNS := List SLayer

structure Env where
  vars : List (Name × Str)
  defs : List (Name × SFun)         -- closures in scope
  caller : SNS
  loops : List Nat                  -- indices of the enclosing loop contexts, innermost first
  nb : Nat                          -- buffers below this point (for `probe`)
  nf : Nat                          -- callable activations below this point (for `probe`)
  mod : Nat
  deriving Repr, Inhabited

inductive SOut | normal | ret | brk | cont | exc (e : Nat) | timeout
  deriving DecidableEq, Repr, Inhabited

/-- result of rendering nodes: outcome, output, evaluation counter, and the variables of the activation as the
    nodes left them (a `% for` target stays bound after its loop, as in Python) -/
structure SR where
  o : SOut
  out : Str
  cnt : Nat
  vars : List (Name × Str)
  deriving Repr, Inhabited

inductive SV | val (v : Str) | exc (e : Nat) | timeout
  deriving DecidableEq, Repr, Inhabited

/-- result of an expression: value, text written while it was evaluated, counter -/
structure SE where
  r : SV
  out : Str
  cnt : Nat
  deriving Repr, Inhabited

inductive SA | vals (vs : List Str) | exc (e : Nat) | timeout
  deriving DecidableEq, Repr, Inhabited

structure SAR where
  r : SA
  out : Str
  cnt : Nat
  deriving Repr, Inhabited

structure Cfg where
  ts : List (Tmpl × Option Bool)   -- the template set, with include_error_handler settings
  k : Nat
  deriving Repr, Inhabited

def isBuffering (fl : DefFlags) : Bool := fl.buffered || fl.cached || !fl.filters.isEmpty

/-- closures a scope declares (`write_variable_declares`): nested defs and blocks, one level -/
def declared (top : Bool) (mod : Nat) : Tmpl → List (Name × SFun)
  | .seq a b => declared top mod a ++ declared top mod b
  | .ite _ t e => declared top mod t ++ declared top mod e
  | .for_ _ _ body => declared top mod body
  | .while_ _ body => declared top mod body
  | .try_ b h => declared top mod b ++ declared top mod h
  | .def_ name ps fl body => if top then [] else [(name, ⟨ps, fl, body, .def_, mod⟩)]
  | .block name anon fl body =>
    (if top && !anon then [] else [(name, ⟨[], fl, body, .block, mod⟩)]) ++ declared false mod body
  | _ => []

/-- top-level callables of a template -/
def topLevel (mod : Nat) : Tmpl → List (Name × SFun)
  | .seq a b => topLevel mod a ++ topLevel mod b
  | .ite _ t e => topLevel mod t ++ topLevel mod e
  | .for_ _ _ body => topLevel mod body
  | .while_ _ body => topLevel mod body
  | .try_ b h => topLevel mod b ++ topLevel mod h
  | .def_ name ps fl body => [(name, ⟨ps, fl, body, .def_, mod⟩)]
  | .block name anon fl body => if anon then [] else [(name, ⟨[], fl, body, .block, mod⟩)]
  | _ => []

/-- the other callables of a `<%call>`: its defs and blocks -/
def callDefsOf (mod : Nat) : Tmpl → List (Name × SFun)
  | .seq a b => callDefsOf mod a ++ callDefsOf mod b
  | .ite _ t e => callDefsOf mod t ++ callDefsOf mod e
  | .for_ _ _ body => callDefsOf mod body
  | .while_ _ body => callDefsOf mod body
  | .try_ b h => callDefsOf mod b ++ callDefsOf mod h
  | .def_ name ps fl body => [(name, ⟨ps, fl, body, .def_, mod⟩)]
  | .block name _ fl body => [(name, ⟨[], fl, body, .block, mod⟩)]
  | _ => []

def tickS (k cnt : Nat) : Bool × Nat := (cnt == k, cnt + 1)

def resolveS (c : Cfg) (env : Env) (f : Name) : Option SFun :=
  match lookup f env.defs with
  | some fn => some fn
  | none => match c.ts[env.mod]? with
    | none => none
    | some t => lookup f (topLevel env.mod t.1)

/-- apply the filter functions `fs` (each an evaluation point) to a finished content -/
def filterContent (k : Nat) : List Nat → Str → Nat → SV × Nat
  | [], s, cnt => (.val s, cnt)
  | f :: fs, s, cnt =>
    match tickS k cnt with
    | (true, cnt1) => (.exc excBoom, cnt1)
    | (false, cnt1) => filterContent k fs (wrap f s) cnt1

mutual

def seval (c : Cfg) : Nat → Expr → Env → SNS → Nat → SE
  | 0, _, _, _, cnt => ⟨.timeout, [], cnt⟩
  | n + 1, e, env, pend, cnt =>
    match e with
    | .lit s => ⟨.val s, [], cnt⟩
    | .var x => match lookup x env.vars with
      | some v => ⟨.val v, [], cnt⟩
      | none => ⟨.exc excName, [], cnt⟩
    | .cat a b =>
      match seval c n a env pend cnt with
      | ⟨.val va, o1, c1⟩ =>
        match seval c n b env pend c1 with
        | ⟨.val vb, o2, c2⟩ => ⟨.val (va ++ vb), o1 ++ o2, c2⟩
        | ⟨r, o2, c2⟩ => ⟨r, o1 ++ o2, c2⟩
      | r => r
    | .boom => match tickS c.k cnt with
      | (true, c1) => ⟨.exc excBoom, [], c1⟩
      | (false, c1) => ⟨.val [], [], c1⟩
    | .filt i e =>
      match seval c n e env pend cnt with
      | ⟨.val v, o1, c1⟩ => match tickS c.k c1 with
        | (true, c2) => ⟨.exc excBoom, o1, c2⟩
        | (false, c2) => ⟨.val (wrap i v), o1, c2⟩
      | r => r
    | .loopIndex => match env.loops with
      | [] => ⟨.exc excNoLoop, [], cnt⟩
      | i :: _ => ⟨.val (natStr i), [], cnt⟩
    | .mbuf => ⟨.val [], [], cnt⟩
    | .probe => ⟨.val (natStr env.nb ++ '.' :: natStr env.nf ++ ['.', if pend.isEmpty then '0' else '1']), [], cnt⟩
    | .call f args =>
      match resolveS c env f with
      | none => ⟨.exc excName, [], cnt⟩
      | some fn =>
        match sargs c n args env pend cnt with
        | ⟨.vals vs, o1, c1⟩ =>
          match sinvoke c n fn [] vs env pend c1 with
          | ⟨r, o2, c2⟩ => ⟨r, o1 ++ o2, c2⟩
        | ⟨.exc e, o1, c1⟩ => ⟨.exc e, o1, c1⟩
        | ⟨.timeout, o1, c1⟩ => ⟨.timeout, o1, c1⟩
    | .callerCall name args =>
      match env.caller with
      | [] => ⟨.exc excNoCaller, [], cnt⟩
      | layer :: tl =>
        match lookup name layer with
        | none => ⟨.exc excNoCaller, [], cnt⟩
        | some fn =>
          match sargs c n args env pend cnt with
          | ⟨.vals vs, o1, c1⟩ =>
            match sinvoke c n fn tl vs { env with defs := layer ++ env.defs } [] c1 with
            | ⟨r, o2, c2⟩ => ⟨r, o1 ++ o2, c2⟩
          | ⟨.exc e, o1, c1⟩ => ⟨.exc e, o1, c1⟩
          | ⟨.timeout, o1, c1⟩ => ⟨.timeout, o1, c1⟩
    | .capture f args =>
      match resolveS c env f with
      | none => ⟨.exc excName, [], cnt⟩
      | some fn =>
        match sargs c n args env pend cnt with
        | ⟨.vals vs, o1, c1⟩ =>
          -- what the callable writes is the value; its own return value is dropped
          match sinvoke c n fn [] vs { env with nb := env.nb + 1 } pend c1 with
          | ⟨.val _, o2, c2⟩ => ⟨.val o2, o1, c2⟩
          | ⟨r, _, c2⟩ => ⟨r, o1, c2⟩
        | ⟨.exc e, o1, c1⟩ => ⟨.exc e, o1, c1⟩
        | ⟨.timeout, o1, c1⟩ => ⟨.timeout, o1, c1⟩
    | .includeFile i => sinclude c n i env cnt

def sargs (c : Cfg) : Nat → List Expr → Env → SNS → Nat → SAR
  | 0, _, _, _, cnt => ⟨.timeout, [], cnt⟩
  | _ + 1, [], _, _, cnt => ⟨.vals [], [], cnt⟩
  | n + 1, e :: es, env, pend, cnt =>
    match seval c n e env pend cnt with
    | ⟨.val v, o1, c1⟩ =>
      match sargs c n es env pend c1 with
      | ⟨.vals vs, o2, c2⟩ => ⟨.vals (v :: vs), o1 ++ o2, c2⟩
      | ⟨r, o2, c2⟩ => ⟨r, o1 ++ o2, c2⟩
    | ⟨.exc e, o1, c1⟩ => ⟨.exc e, o1, c1⟩
    | ⟨.timeout, o1, c1⟩ => ⟨.timeout, o1, c1⟩

/-- `<%include>`: the included template's body is a callable of its own module -/
def sinclude (c : Cfg) : Nat → Nat → Env → Nat → SE
  | 0, _, _, cnt => ⟨.timeout, [], cnt⟩
  | n + 1, i, env, cnt =>
    match c.ts[i]? with
    | none => ⟨.exc excName, [], cnt⟩
    | some (t, ieh) =>
      let r := sinvoke c n ⟨[], noFlags, t, .main, i⟩ [] [] { env with defs := [] } [] cnt
      match ieh, r with
      | some b, ⟨.exc e, o, c1⟩ => ⟨if b then .val [] else .exc e, o ++ ['[', 'H', ']'], c1⟩
      | _, r => r

/-- a call: value and text written -/
def sinvoke (c : Cfg) : Nat → SFun → SNS → List Str → Env → SNS → Nat → SE
  | 0, _, _, _, _, _, cnt => ⟨.timeout, [], cnt⟩
  | n + 1, fn, lexc, vs, env, pend, cnt =>
    match zipArgs fn.params vs with
    | none => ⟨.exc excArity, [], cnt⟩
    | some bound =>
      let pre : Bool × Nat := if fn.fl.deco then tickS c.k cnt else (false, cnt)
      match pre with
      | (true, c0) => ⟨.exc excBoom, [], c0⟩
      | (false, c0) =>
        let buffering := isBuffering fn.fl
        let inner : Env :=
          { vars := bound ++ env.vars,
            defs := declared (fn.kind == .main) fn.mod fn.body ++ env.defs,
            caller := match fn.kind with
              | .main => pend
              | .def_ => pend
              | .block => []      -- a block is a callable of its own, called without content
              | .body => lexc,
            loops := match fn.kind with
              | .block => env.loops
              | _ => [],
            nb := env.nb + (if buffering then 1 else 0),
            nf := env.nf + (if fn.kind == .body then 0 else 1),
            mod := fn.mod }
        match snodes c n fn.body inner c0 with
        | ⟨.timeout, o, c1, _⟩ => ⟨.timeout, o, c1⟩
        | ⟨.exc e, o, c1, _⟩ => ⟨.exc e, if buffering then [] else o, c1⟩
        | ⟨.brk, o, c1, _⟩ => ⟨.exc excSyntax, if buffering then [] else o, c1⟩
        | ⟨.cont, o, c1, _⟩ => ⟨.exc excSyntax, if buffering then [] else o, c1⟩
        | ⟨_, o, c1, _⟩ =>
          -- the content is complete: `filter=` applies to all of it, once; a failing filter loses it
          match filterContent c.k fn.fl.filters o c1 with
          | (.exc e, c2) => ⟨.exc e, [], c2⟩
          | (.timeout, c2) => ⟨.timeout, [], c2⟩
          | (.val content, c2) =>
            let value : Str := if fn.fl.buffered then content else []
            let side : Str := if fn.fl.buffered then [] else content
            if fn.fl.deco then
              match tickS c.k c2 with
              | (true, c3) => ⟨.exc excBoom, if fn.fl.cached then [] else side, c3⟩
              | (false, c3) => ⟨.val value, side, c3⟩
            else ⟨.val value, side, c2⟩

/-- the nodes of a scope -/
def snodes (c : Cfg) : Nat → Tmpl → Env → Nat → SR
  | 0, _, env, cnt => ⟨.timeout, [], cnt, env.vars⟩
  | n + 1, t, env, cnt =>
    match t with
    | .nil => ⟨.normal, [], cnt, env.vars⟩
    | .seq a b =>
      match snodes c n a env cnt with
      | ⟨.normal, o1, c1, v1⟩ =>
        match snodes c n b { env with vars := v1 } c1 with
        | ⟨r, o2, c2, v2⟩ => ⟨r, o1 ++ o2, c2, v2⟩
      | r => r
    | .text s => ⟨.normal, s, cnt, env.vars⟩
    | .expr e fs =>
      match seval c n (applyFilters fs e) env [] cnt with
      | ⟨.val v, o, c1⟩ => ⟨.normal, o ++ v, c1, env.vars⟩
      | ⟨.exc e, o, c1⟩ => ⟨.exc e, o, c1, env.vars⟩
      | ⟨.timeout, o, c1⟩ => ⟨.timeout, o, c1, env.vars⟩
    | .ite cnd t e =>
      match seval c n cnd env [] cnt with
      | ⟨.val v, o, c1⟩ =>
        match snodes c n (if v.isEmpty then e else t) env c1 with
        | ⟨r, o2, c2, v2⟩ => ⟨r, o ++ o2, c2, v2⟩
      | ⟨.exc e, o, c1⟩ => ⟨.exc e, o, c1, env.vars⟩
      | ⟨.timeout, o, c1⟩ => ⟨.timeout, o, c1, env.vars⟩
    | .for_ x items body =>
      match sargs c n items env [] cnt with
      | ⟨.vals vs, o, c1⟩ =>
        let ctx := argsMentionLoop items || mentionsLoopDeep body
        match siter c n x vs body ctx 0 env c1 with
        | ⟨r, o2, c2, v2⟩ => ⟨r, o ++ o2, c2, v2⟩
      | ⟨.exc e, o, c1⟩ => ⟨.exc e, o, c1, env.vars⟩
      | ⟨.timeout, o, c1⟩ => ⟨.timeout, o, c1, env.vars⟩
    | .while_ m body =>
      match tickS c.k cnt with
      | (true, c1) => ⟨.exc excBoom, [], c1, env.vars⟩
      | (false, c1) =>
        if cnt < m then
          match snodes c n body env c1 with
          | ⟨.normal, o, c2, v2⟩ => match snodes c n (.while_ m body) { env with vars := v2 } c2 with
            | ⟨r, o2, c3, v3⟩ => ⟨r, o ++ o2, c3, v3⟩
          | ⟨.cont, o, c2, v2⟩ => match snodes c n (.while_ m body) { env with vars := v2 } c2 with
            | ⟨r, o2, c3, v3⟩ => ⟨r, o ++ o2, c3, v3⟩
          | ⟨.brk, o, c2, v2⟩ => ⟨.normal, o, c2, v2⟩
          | r => r
        else ⟨.normal, [], c1, env.vars⟩
    | .try_ b h =>
      match snodes c n b env cnt with
      | ⟨.exc _, o, c1, v1⟩ =>
        match snodes c n h { env with vars := v1 } c1 with
        | ⟨r, o2, c2, v2⟩ => ⟨r, o ++ o2, c2, v2⟩
      | r => r
    | .def_ _ _ _ _ => ⟨.normal, [], cnt, env.vars⟩
    | .block name _ _ _ =>
      match resolveS c env name with
      | none => ⟨.exc excName, [], cnt, env.vars⟩
      | some fn =>
        -- `__M_writer(block() or '')`: what the block wrote, then what it returned (a buffered block's content)
        match sinvoke c n fn [] [] env [] cnt with
        | ⟨.val v, o, c1⟩ => ⟨.normal, o ++ v, c1, env.vars⟩
        | ⟨.exc e, o, c1⟩ => ⟨.exc e, o, c1, env.vars⟩
        | ⟨.timeout, o, c1⟩ => ⟨.timeout, o, c1, env.vars⟩
    | .call e bodyArgs body =>
      let layer : SLayer := (0, ⟨bodyArgs, noFlags, body, .body, env.mod⟩) :: callDefsOf env.mod body
      match seval c n e env (layer :: env.caller) cnt with
      | ⟨.val v, o, c1⟩ => ⟨.normal, o ++ v, c1, env.vars⟩
      | ⟨.exc e, o, c1⟩ => ⟨.exc e, o, c1, env.vars⟩
      | ⟨.timeout, o, c1⟩ => ⟨.timeout, o, c1, env.vars⟩
    | .textTag fs s =>
      match filterContent c.k fs s cnt with
      | (.val v, c1) => ⟨.normal, v, c1, env.vars⟩
      | (.exc e, c1) => ⟨.exc e, [], c1, env.vars⟩
      | (.timeout, c1) => ⟨.timeout, [], c1, env.vars⟩
    | .include_ i =>
      match sinclude c n i env cnt with
      | ⟨.val _, o, c1⟩ => ⟨.normal, o, c1, env.vars⟩
      | ⟨.exc e, o, c1⟩ => ⟨.exc e, o, c1, env.vars⟩
      | ⟨.timeout, o, c1⟩ => ⟨.timeout, o, c1, env.vars⟩
    | .ret => ⟨.ret, [], cnt, env.vars⟩
    | .brk => ⟨.brk, [], cnt, env.vars⟩
    | .cont => ⟨.cont, [], cnt, env.vars⟩

/-- iterations of a `% for`; with a loop context the index of iteration `i` is `i` -/
def siter (c : Cfg) : Nat → Name → List Str → Tmpl → Bool → Nat → Env → Nat → SR
  | 0, _, _, _, _, _, env, cnt => ⟨.timeout, [], cnt, env.vars⟩
  | _ + 1, _, [], _, _, _, env, cnt => ⟨.normal, [], cnt, env.vars⟩
  | n + 1, x, v :: vs, body, ctx, i, env, cnt =>
    let env' : Env := { env with vars := (x, v) :: env.vars, loops := if ctx then i :: env.loops else env.loops }
    match snodes c n body env' cnt with
    | ⟨.normal, o, c1, v1⟩ => match siter c n x vs body ctx (i + 1) { env with vars := v1 } c1 with
      | ⟨r, o2, c2, v2⟩ => ⟨r, o ++ o2, c2, v2⟩
    | ⟨.cont, o, c1, v1⟩ => match siter c n x vs body ctx (i + 1) { env with vars := v1 } c1 with
      | ⟨r, o2, c2, v2⟩ => ⟨r, o ++ o2, c2, v2⟩
    | ⟨.brk, o, c1, v1⟩ => ⟨.normal, o, c1, v1⟩
    | r => r

end

def Env.init : Env := { vars := [], defs := [], caller := [], loops := [], nb := 1, nf := 0, mod := 0 }

/-- rendering template 0 of the set: outcome and the text written directly (to the output) -/
def renderBody (c : Cfg) (fuel : Nat) : SE :=
  match c.ts[0]? with
  | none => ⟨.exc excName, [], 0⟩
  | some (t, _) => sinvoke c fuel ⟨[], noFlags, t, .main, 0⟩ [] [] Env.init [] 0

/-- `Template.render()` with the template's options: (result, output) -/
def render (c : Cfg) (o : Opts) (fuel : Nat) : SV × Str :=
  match renderBody c fuel with
  | ⟨.exc e, out, _⟩ =>
    if o.formatExceptions || o.errorHandler.isSome then
      match o.errorHandler with
      | some true => (.val [], out)
      | some false => (.exc e, out)
      | none => (.val [], errorPage e)
    else (.exc e, out)
  | ⟨r, out, _⟩ => (r, out)

end MakoModel.Codegen.Spec
