import MakoModel.Codegen.Model
import MakoModel.Target.Lemmas
/-!
# The code generator only emits well-shaped code

Structural induction over the template (unbounded nesting): every statement `stmts` emits is `WS`, every
prologue (`hoist`, `callDefs`, `bodyHoist`) consists of closure definitions with `WF` bodies, every
render callable (`defShape`, `cacheWrapper`) is `WF`.
-/
namespace MakoModel.Codegen
open MakoModel.Target

theorem defShape_wf (fl : DefFlags) {pre b : Stmt} (hp : WS pre) (hd : isDefs pre = true) (hb : WS b) :
    WF (defShape fl (.seq pre (.prim .getWriter)) b) := by
  unfold defShape
  split
  · exact WF.buffered _ hp hd hb
  · split
    · exact WF.plain hp hd (WS.seq hb (WS.ret _))
    · exact WF.filtered hp hd hb (WS.seq (WS.write _) (WS.ret _))

theorem cacheWrapper_wf (name : Name) (ps : List Name) (b : Bool) : WF (cacheWrapper name ps b) := by
  unfold cacheWrapper
  split
  · exact WF.bare WS.skip rfl (WS.ret _)
  · exact WF.bare WS.skip rfl (WS.seq (WS.write _) (WS.ret _))

theorem inlineDef_ws (lex : Bool) (name : Name) (ps : List Name) (fl : DefFlags) (own : Bool) {pre b : Stmt}
    (hp : WS pre) (hd : isDefs pre = true) (hb : WS b) :
    WS (inlineDef lex name ps fl own (.seq pre (.prim .getWriter)) b) ∧
      isDefs (inlineDef lex name ps fl own (.seq pre (.prim .getWriter)) b) = true := by
  unfold inlineDef
  split
  · exact ⟨WS.seq (WS.defn _ _ _ (defShape_wf fl hp hd hb)) (WS.defn _ _ _ (cacheWrapper_wf _ _ _)), rfl⟩
  · exact ⟨WS.defn _ _ _ (defShape_wf fl hp hd hb), rfl⟩

/-- the mutually recursive emitters, together -/
structure Emits (t : Tmpl) : Prop where
  stmts : ∀ sc, WS (stmts sc t)
  hoist : ∀ sc, WS (hoist sc t) ∧ isDefs (hoist sc t) = true
  callDefs : ∀ sc, WS (callDefs sc t) ∧ isDefs (callDefs sc t) = true
  bodyHoist : ∀ sc, WS (bodyHoist sc t) ∧ isDefs (bodyHoist sc t) = true

theorem seq_defs {a b : Stmt} (ha : WS a ∧ isDefs a = true) (hb : WS b ∧ isDefs b = true) :
    WS (.seq a b) ∧ isDefs (.seq a b) = true :=
  ⟨WS.seq ha.1 hb.1, by simp [isDefs, ha.2, hb.2]⟩

theorem skip_defs : WS .skip ∧ isDefs .skip = true := ⟨WS.skip, rfl⟩

theorem emits (t : Tmpl) : Emits t := by
  induction t with
  | nil => exact ⟨fun _ => by simp only [stmts]; exact WS.skip, fun _ => by simp only [hoist]; exact skip_defs,
      fun _ => by simp only [callDefs]; exact skip_defs,
      fun _ => by simp only [bodyHoist]; exact skip_defs⟩
  | seq a b iha ihb =>
    exact ⟨fun sc => by simp only [stmts]; exact WS.seq (iha.stmts sc) (ihb.stmts sc),
      fun sc => by simp only [hoist]; exact seq_defs (iha.hoist sc) (ihb.hoist sc),
      fun sc => by simp only [callDefs]; exact seq_defs (iha.callDefs sc) (ihb.callDefs sc),
      fun sc => by simp only [bodyHoist]; exact seq_defs (iha.bodyHoist sc) (ihb.bodyHoist sc)⟩
  | text s => exact ⟨fun _ => by simp only [stmts]; exact WS.write _, fun _ => by simp only [hoist]; exact skip_defs,
      fun _ => by simp only [callDefs]; exact skip_defs,
      fun _ => by simp only [bodyHoist]; exact skip_defs⟩
  | expr e fs => exact ⟨fun _ => by simp only [stmts]; exact WS.write _, fun _ => by simp only [hoist]; exact skip_defs,
      fun _ => by simp only [callDefs]; exact skip_defs,
      fun _ => by simp only [bodyHoist]; exact skip_defs⟩
  | ite cnd a b iha ihb =>
    exact ⟨fun sc => by simp only [stmts]; exact WS.ite _ (iha.stmts sc) (ihb.stmts sc),
      fun sc => by simp only [hoist]; exact seq_defs (iha.hoist sc) (ihb.hoist sc),
      fun sc => by simp only [callDefs]; exact seq_defs (iha.callDefs sc) (ihb.callDefs sc),
      fun sc => by simp only [bodyHoist]; exact seq_defs (iha.bodyHoist sc) (ihb.bodyHoist sc)⟩
  | for_ x items body ih =>
    refine ⟨fun sc => ?_, fun sc => by simp only [hoist]; exact ih.hoist sc,
      fun sc => by simp only [callDefs]; exact ih.callDefs sc,
      fun sc => by simp only [bodyHoist]; exact ih.bodyHoist sc⟩
    simp only [stmts]
    split
    · exact WS.loopBlock _ _ _ (ih.stmts sc)
    · exact WS.forIn _ _ (ih.stmts sc)
  | while_ n body ih =>
    exact ⟨fun sc => by simp only [stmts]; exact WS.whileLt _ (ih.stmts sc),
      fun sc => by simp only [hoist]; exact ih.hoist sc,
      fun sc => by simp only [callDefs]; exact ih.callDefs sc,
      fun sc => by simp only [bodyHoist]; exact ih.bodyHoist sc⟩
  | try_ a b iha ihb =>
    exact ⟨fun sc => by simp only [stmts]; exact WS.tryExcept (iha.stmts sc) (ihb.stmts sc),
      fun sc => by simp only [hoist]; exact seq_defs (iha.hoist sc) (ihb.hoist sc),
      fun sc => by simp only [callDefs]; exact seq_defs (iha.callDefs sc) (ihb.callDefs sc),
      fun sc => by simp only [bodyHoist]; exact seq_defs (iha.bodyHoist sc) (ihb.bodyHoist sc)⟩
  | def_ name ps fl body ih =>
    have mk : ∀ (lex own : Bool) (s : Scope),
        WS (inlineDef lex name ps fl own (.seq (hoist s body) (.prim .getWriter)) (stmts s body)) ∧
          isDefs (inlineDef lex name ps fl own (.seq (hoist s body) (.prim .getWriter)) (stmts s body)) = true :=
      fun lex own s => inlineDef_ws lex name ps fl own (ih.hoist s).1 (ih.hoist s).2 (ih.stmts s)
    refine ⟨fun _ => by simp only [stmts]; exact WS.skip, fun sc => ?_, fun sc => by simp only [callDefs]; exact mk _ _ _,
      fun _ => by simp only [bodyHoist]; exact skip_defs⟩
    simp only [hoist]
    split
    · exact skip_defs
    · exact mk _ _ _
  | block name anon fl body ih =>
    have mk : ∀ (lex own : Bool) (s : Scope),
        WS (inlineDef lex name [] fl own (.seq (hoist s body) (.prim .getWriter)) (stmts s body)) ∧
          isDefs (inlineDef lex name [] fl own (.seq (hoist s body) (.prim .getWriter)) (stmts s body)) = true :=
      fun lex own s => inlineDef_ws lex name [] fl own (ih.hoist s).1 (ih.hoist s).2 (ih.stmts s)
    refine ⟨fun _ => by simp only [stmts]; exact WS.write _, fun sc => ?_,
      fun sc => by simp only [callDefs]; exact mk _ _ _,
      fun sc => by simp only [bodyHoist]; exact ih.hoist sc⟩
    simp only [hoist]
    refine seq_defs ?_ (ih.hoist _)
    split
    · exact skip_defs
    · exact mk _ _ _
  | call e args body ih =>
    refine ⟨fun sc => ?_, fun _ => by simp only [hoist]; exact skip_defs,
      fun _ => by simp only [callDefs]; exact skip_defs,
      fun _ => by simp only [bodyHoist]; exact skip_defs⟩
    simp only [stmts]
    exact WS.callTag _ (WS.seq (ih.callDefs _).1
      (WS.defn _ _ _ (WF.bare (ih.bodyHoist _).1 (ih.bodyHoist _).2 (WS.seq (ih.stmts _) (WS.ret _)))))
  | textTag fs s =>
    refine ⟨fun _ => ?_, fun _ => by simp only [hoist]; exact skip_defs,
      fun _ => by simp only [callDefs]; exact skip_defs,
      fun _ => by simp only [bodyHoist]; exact skip_defs⟩
    simp only [stmts]
    split
    · exact WS.write _
    · exact WS.textTag _ (WS.write _)
  | include_ i => exact ⟨fun _ => by simp only [stmts]; exact WS.exprStmt _,
      fun _ => by simp only [hoist]; exact skip_defs,
      fun _ => by simp only [callDefs]; exact skip_defs,
      fun _ => by simp only [bodyHoist]; exact skip_defs⟩
  | ret => exact ⟨fun _ => by simp only [stmts]; exact WS.ret _, fun _ => by simp only [hoist]; exact skip_defs,
      fun _ => by simp only [callDefs]; exact skip_defs,
      fun _ => by simp only [bodyHoist]; exact skip_defs⟩
  | brk => exact ⟨fun _ => by simp only [stmts]; exact WS.brk, fun _ => by simp only [hoist]; exact skip_defs,
      fun _ => by simp only [callDefs]; exact skip_defs,
      fun _ => by simp only [bodyHoist]; exact skip_defs⟩
  | cont => exact ⟨fun _ => by simp only [stmts]; exact WS.cont, fun _ => by simp only [hoist]; exact skip_defs,
      fun _ => by simp only [callDefs]; exact skip_defs,
      fun _ => by simp only [bodyHoist]; exact skip_defs⟩

theorem renderCallable_wf (top : Bool) (fl : DefFlags) (t : Tmpl) : WF (renderCallable top fl t) := by
  unfold renderCallable
  exact defShape_wf fl ((emits t).hoist _).1 ((emits t).hoist _).2 ((emits t).stmts _)

theorem codegen_wf (t : Tmpl) : WF (codegen t) := renderCallable_wf _ _ t

theorem topFun_ok (name : Name) (ps : List Name) (fl : DefFlags) (body : Tmpl) : FunsOK (topFun name ps fl body) := by
  unfold topFun
  intro p hp
  split at hp
  · simp only [List.mem_cons, List.not_mem_nil, or_false] at hp
    rcases hp with rfl | rfl
    · exact renderCallable_wf _ _ _
    · exact cacheWrapper_wf _ _ _
  · simp only [List.mem_singleton] at hp
    subst hp
    exact renderCallable_wf _ _ _

theorem topDefs_ok (t : Tmpl) : FunsOK (topDefs t) := by
  induction t with
  | seq a b iha ihb => simp only [topDefs]; exact FunsOK_append iha ihb
  | ite _ a b iha ihb => simp only [topDefs]; exact FunsOK_append iha ihb
  | for_ _ _ _ ih => simp only [topDefs]; exact ih
  | while_ _ _ ih => simp only [topDefs]; exact ih
  | try_ a b iha ihb => simp only [topDefs]; exact FunsOK_append iha ihb
  | def_ name ps fl body _ => simp only [topDefs]; exact topFun_ok _ _ _ _
  | block name anon fl body _ =>
    simp only [topDefs]
    split
    · intro p hp; cases hp
    · exact topFun_ok _ _ _ _
  | _ => simp only [topDefs]; intro p hp; cases hp

/-- every program made of generated modules is well-shaped -/
theorem codegen_cfg_ok (ts : List (Tmpl × Option Bool)) (k : Nat) :
    CfgOK ⟨ts.map fun p => codegenModule p.1 p.2, k⟩ := by
  refine ⟨?_, ?_⟩ <;>
  · intro m hm
    simp only [List.mem_map] at hm
    obtain ⟨p, _, rfl⟩ := hm
    first
    | exact codegen_wf p.1
    | exact topDefs_ok p.1

/-! ## vocabulary of the C13 / C05 / C03 statements -/

/-- a set of templates (each with its `include_error_handler` setting) compiled, crash point `k` -/
def progOf (ts : List (Tmpl × Option Bool)) (k : Nat) : Cfg := ⟨ts.map fun p => codegenModule p.1 p.2, k⟩

/-- shape of the runtime stacks: buffer identities, caller stack, loop stack, pending caller -/
def SameStacks (σ σ' : St) : Prop :=
  σ'.bufs.map (·.1) = σ.bufs.map (·.1) ∧ σ'.frames = σ.frames ∧ σ'.loops = σ.loops ∧ σ'.next = σ.next

theorem Bal.same {i top rest σ σ'} (hb : σ.bufs = (i, top) :: rest) (h : Bal i top rest σ σ') : SameStacks σ σ' := by
  obtain ⟨w, hw⟩ := h.bufs
  exact ⟨by simp [hw, hb], h.frames, h.loops, h.next⟩

theorem init_ok : StOK St.init := ⟨fun f hf => (by cases hf), NSOK_nil⟩
theorem loc_init_ok (m : Nat) : LocOK (Loc.init m) := ⟨fun p hp => (by cases hp), NSOK_nil, NSOK_nil⟩

/-- sample for the non-vacuity examples:
    `<%def name="d1(v1)" buffered="True" filter="flt1">ab${boom()}</%def>x` `% try:` `${d1('q')}` `% except:`
    `${probe(context)}` `% endtry` `y` -/
def sampleTmpl : Tmpl :=
  .seq (.def_ 1 [1] { buffered := true, filters := [1], cached := false, deco := false }
          (.seq (.text ['a', 'b']) (.expr .boom [])))
    (.seq (.text ['x']) (.seq (.try_ (.expr (.call 1 [.lit ['q']]) []) (.expr .probe [])) (.text ['y'])))

/-- the same without the `% try` -/
def sampleRaw : Tmpl :=
  .seq (.def_ 1 [1] { buffered := true, filters := [1], cached := false, deco := false }
          (.seq (.text ['a', 'b']) (.expr .boom [])))
    (.seq (.text ['x']) (.seq (.expr (.call 1 [.lit ['q']]) []) (.text ['y'])))

/-- `<%def name="d1()" buffered="True">x<% return '' %>y</%def>[${d1()}]`: the `return` sits inside the generated
    `try`; the `finally` pops the buffer, and the `return filter(__M_buf.getvalue())` *after* the `finally` is
    never reached - the def returns `''` and the content written before the `return` is lost -/
def quirkTmpl : Tmpl :=
  .seq (.def_ 1 [] { buffered := true, filters := [], cached := false, deco := false }
          (.seq (.text ['x']) (.seq .ret (.text ['y']))))
       (.seq (.text ['[']) (.seq (.expr (.call 1 []) []) (.text [']'])))

/-- control-fragment sample: `a` `% for v1 in ['i', 'j']:` `% try:` `${loop.index}${boom() | flt2}` `% except:`
    `!${probe(context)}` `% endtry` `% endfor` `<%text filter="flt3">z</%text>` -/
def sampleCtl : Tmpl :=
  .seq (.text ['a'])
    (.seq (.for_ 1 [.lit ['i'], .lit ['j']]
            (.try_ (.seq (.expr .loopIndex []) (.expr .boom [2])) (.seq (.text ['!']) (.expr .probe []))))
          (.textTag [3] ['z']))

end MakoModel.Codegen
