import MakoModel.Filters.LemmasEntity
/-!
# Helper lemmas for C10: `xml_escape` = table escape, shape of `quote_plus` output, `trim`
-/
namespace MakoModel.C10
open MakoModel.Filters MakoModel.Generated.Filters

/-- the regex class of `xml_escape` and the keys of `xml_escapes` are the same set -/
def xmlClassEqKeys : Bool :=
  xmlClass.all (fun c => (assoc c xmlEscapes).isSome) && xmlEscapes.all (fun p => xmlClass.contains p.1)

theorem xmlEscapeChar_eq (h : xmlClassEqKeys = true) (c : Char) : xmlEscapeChar c = escChar xmlEscapes c := by
  unfold xmlEscapeChar escChar
  by_cases hc : c ∈ xmlClass
  · simp [hc]
  · simp only [hc, if_false]
    cases ha : assoc c xmlEscapes with
    | none => rfl
    | some v =>
      simp only [xmlClassEqKeys, Bool.and_eq_true, List.all_eq_true] at h
      have := h.2 (c, v) (assoc_mem ha)
      simp at this
      exact absurd this hc

theorem xmlEscape_eq (h : xmlClassEqKeys = true) (s : List Char) : xmlEscape s = s.flatMap (escChar xmlEscapes) := by
  unfold xmlEscape
  congr 1
  funext c
  exact xmlEscapeChar_eq h c

theorem hexUpperChar_safe (c : Char) (h : Spec.isHexUpperChar c = true) : Spec.isUrlSafeChar c = true := by
  revert h; unfold Spec.isHexUpperChar Spec.isUrlSafeChar; simp; omega

theorem url_chars (bs : List Nat) (h : ∀ b ∈ bs, b < 256) :
    ∀ c ∈ bs.flatMap quoteByte, Spec.isUrlSafeChar c = true ∨ c = '%' ∨ c = '+' := by
  intro c hc
  rw [List.mem_flatMap] at hc
  obtain ⟨b, hb, hcb⟩ := hc
  rcases quoteByte_shape b (h b hb) with ⟨h1, h2, _⟩ | h1 | ⟨x1, x2, hq, hx1, hx2, _, _⟩
  · rw [h1] at hcb; simp at hcb; subst hcb; exact Or.inl h2
  · rw [h1] at hcb; simp at hcb; exact Or.inr (Or.inr hcb)
  · rw [hq] at hcb
    simp at hcb
    rcases hcb with e | e | e
    · exact Or.inr (Or.inl e)
    · subst e; exact Or.inl (hexUpperChar_safe _ hx1)
    · subst e; exact Or.inl (hexUpperChar_safe _ hx2)

theorem url_percent (bs : List Nat) (h : ∀ b ∈ bs, b < 256) (pre post : List Char)
    (hq : bs.flatMap quoteByte = pre ++ '%' :: post) :
    ∃ h1 h2 rest, post = h1 :: h2 :: rest ∧ Spec.isHexUpperChar h1 = true ∧ Spec.isHexUpperChar h2 = true := by
  -- pieces are indexed by the bytes together with their bound
  have key : ∀ (l : List {b : Nat // b < 256}) (pre post : List Char),
      l.flatMap (fun b => quoteByte b.1) = pre ++ '%' :: post →
      ∃ h1 h2 rest, post = h1 :: h2 :: rest ∧ Spec.isHexUpperChar h1 = true ∧ Spec.isHexUpperChar h2 = true := by
    refine flatMap_marker '%' _ (fun b : {b : Nat // b < 256} => quoteByte b.1) ?_
    intro b
    rcases quoteByte_shape b.1 b.2 with ⟨h1, _, h3⟩ | h1 | ⟨x1, x2, hq, hx1, hx2, n1, n2⟩
    · left; rw [h1]; simpa using Ne.symm h3
    · left; rw [h1]; decide
    · right
      refine ⟨[x1, x2], hq, ?_, fun rest => ⟨x1, x2, rest, rfl, hx1, hx2⟩⟩
      simp [Ne.symm n1, Ne.symm n2]
  have hl : bs.flatMap quoteByte = (bs.attach.map fun x => (⟨x.1, h x.1 x.2⟩ : {b : Nat // b < 256})).flatMap
      (fun b => quoteByte b.1) := by
    rw [List.flatMap_map]
    conv => lhs; rw [← List.attach_map_subtype_val bs, List.flatMap_map]
  rw [hl] at hq
  exact key _ pre post hq

/-! ### `trim` -/

theorem mem_takeWhile_pos {α} {p : α → Bool} {l : List α} {x : α} (h : x ∈ l.takeWhile p) : p x = true := by
  induction l with
  | nil => simp at h
  | cons a t ih =>
    simp only [List.takeWhile_cons] at h
    split at h
    · rcases List.mem_cons.mp h with e | e
      · subst e; assumption
      · exact ih e
    · simp at h

theorem trim_decomp (s : List Char) :
    s = s.takeWhile isSpace ++ trim s ++ (((s.dropWhile isSpace).reverse.takeWhile isSpace).reverse) := by
  unfold trim
  have h1 : s = s.takeWhile isSpace ++ s.dropWhile isSpace := List.takeWhile_append_dropWhile.symm
  have h3 : ∀ d : List Char, d = (d.reverse.dropWhile isSpace).reverse ++ (d.reverse.takeWhile isSpace).reverse := by
    intro d
    rw [← List.reverse_append, List.takeWhile_append_dropWhile, List.reverse_reverse]
  rw [List.append_assoc, ← h3 (s.dropWhile isSpace)]
  exact h1

/-! ### `Decode`: closures keep their charset -/

theorem lookupsOf_append (a b : List DecodeOp) : Spec.lookupsOf (a ++ b) = Spec.lookupsOf a ++ Spec.lookupsOf b := by
  induction a with
  | nil => rfl
  | cons op ops ih => cases op <;> simp [Spec.lookupsOf, ih]

theorem decodeRun_state (codecs : List Char → List Nat → Option (List Char)) (ops : List DecodeOp) :
    ∀ st, (decodeRun codecs st ops).1 = st ++ Spec.lookupsOf ops := by
  induction ops with
  | nil => intro st; simp [decodeRun, Spec.lookupsOf]
  | cons op ops ih =>
    intro st
    cases op with
    | lookup key => simp [decodeRun, decodeStep, Spec.lookupsOf, ih]
    | call j x =>
      simp only [decodeRun, decodeStep, Spec.lookupsOf]
      split <;> simp [ih]

theorem getElem?_append_of_some {α} {l m : List α} {j : Nat} {a : α} (h : l[j]? = some a) :
    (l ++ m)[j]? = some a := by
  have hlt : j < l.length := by
    rcases Nat.lt_or_ge j l.length with h1 | h1
    · exact h1
    · rw [List.getElem?_eq_none h1] at h; cases h
  rw [List.getElem?_append_left hlt]; exact h

end MakoModel.C10
