import MakoModel.Filters.LemmasUrl
/-!
# Helper lemmas for C10: `entity` / `html_entities_unescape`, numeric references, the reference decoder
-/
namespace MakoModel.C10
open MakoModel.Filters MakoModel.Generated.Filters

/-- an entity name as the third alternative of `__characterrefs` needs it: first character not `#`, not a
digit, in `[:\w]`; at least one more character; all further characters in `[-.:\w]` -/
def nameOk (n : List Char) : Bool :=
  match n with
  | h :: tl => h != '#' && !isDigitU h && isNameStart h && !tl.isEmpty && tl.all isNameChar
  | [] => false

/-- decidable side conditions on the regenerated entity tables and character classes -/
def entityTablesOk : Bool :=
  codepoint2name.all (fun p => nameOk p.2 && assoc p.2 name2codepoint == some p.1 && Spec.validCode p.1) &&
  (assoc 38 codepoint2name).isSome && !isNameChar ';' && !isHexRef ';' && !isDigitU ';'

theorem entityTablesOk_true : entityTablesOk = true := by decide +kernel

theorem entity_name_facts {k : Nat} {n : List Char} (h : (k, n) ∈ codepoint2name) :
    nameOk n = true ∧ assoc n name2codepoint = some k ∧ Spec.validCode k = true := by
  have := entityTablesOk_true
  simp only [entityTablesOk, Bool.and_eq_true, List.all_eq_true] at this
  have := this.1.1.1.1 (k, n) h
  have h' : (nameOk n = true ∧ assoc n name2codepoint = some k) ∧ Spec.validCode k = true := by simpa using this
  exact ⟨h'.1.1, h'.1.2, h'.2⟩

theorem amp_has_entity : ∃ n, assoc 38 codepoint2name = some n := by
  have := entityTablesOk_true
  simp only [entityTablesOk, Bool.and_eq_true] at this
  exact Option.isSome_iff_exists.mp this.1.1.1.2

theorem semi_not_nameChar : isNameChar ';' = false := by
  have := entityTablesOk_true
  simp only [entityTablesOk, Bool.and_eq_true, Bool.not_eq_true'] at this
  exact this.1.1.2

theorem runThenSemi_run (p : Char → Bool) (r rest : List Char) (hr : r ≠ []) (hall : ∀ x ∈ r, p x = true)
    (hsemi : p ';' = false) : runThenSemi p (r ++ ';' :: rest) = some r := by
  unfold runThenSemi
  have htw : (r ++ ';' :: rest).takeWhile p = r := by
    rw [List.takeWhile_append_of_pos hall]
    simp [List.takeWhile, hsemi]
  simp only [htw, List.drop_left, List.head?_cons, ne_eq, hr, not_false_eq_true, and_self, if_true]

/-- on `name;…` (after the `&`) the regex matches its third alternative with exactly `name` -/
theorem matchRef_name (n rest : List Char) (hn : nameOk n = true) :
    matchRef (n ++ ';' :: rest) = some (.name n, n.length + 1) := by
  cases n with
  | nil => simp [nameOk] at hn
  | cons h tl =>
    simp only [nameOk, Bool.and_eq_true, bne_iff_ne, ne_eq, Bool.not_eq_true',
      List.all_eq_true] at hn
    obtain ⟨⟨⟨⟨h1, h2⟩, h3⟩, h4'⟩, h5⟩ := hn
    have h4 : tl ≠ [] := by intro e; simp [e] at h4'
    have hrun := runThenSemi_run isNameChar tl rest h4 h5 semi_not_nameChar
    have a1 : alt1 (h :: tl ++ ';' :: rest) = none := by simp [alt1, h1]
    have a2 : alt2 (h :: tl ++ ';' :: rest) = none := by
      cases tl with
      | nil => exact absurd rfl h4
      | cons d t => simp [alt2, h1]
    have a3 : alt3 (h :: tl ++ ';' :: rest) = some (.name (h :: tl), (h :: tl).length + 1) := by
      simp [alt3, h2, h3, hrun]
    simp only [matchRef, a1, a2, a3]

theorem unescRefGo_skip (a rest : List Char) : unescRefGo a.length (a ++ rest) = unescRefGo 0 rest := by
  induction a with
  | nil => simp
  | cons x a ih => simpa [unescRefGo] using ih

theorem isSurrogate_toNat (c : Char) : isSurrogate c.toNat = false := by
  have := char_valid c
  simp [isSurrogate]; omega

theorem entityEscapeChar_cases (c : Char) :
    (entityEscapeChar c = [c] ∧ c ≠ '&' ∧ assoc c.toNat codepoint2name = none) ∨
    (∃ n, (c.toNat, n) ∈ codepoint2name ∧ assoc c.toNat codepoint2name = some n ∧
      entityEscapeChar c = '&' :: n ++ [';']) := by
  unfold entityEscapeChar entityOf
  cases h : assoc c.toNat codepoint2name with
  | none =>
    refine Or.inl ⟨rfl, ?_, rfl⟩
    intro hc
    subst hc
    obtain ⟨n, hn⟩ := amp_has_entity
    have : ('&' : Char).toNat = 38 := by decide
    rw [this, hn] at h
    cases h
  | some n => exact Or.inr ⟨n, assoc_mem h, rfl, rfl⟩

theorem unescape_entityEscape (s : List Char) : entityUnescape (entityEscape s) = .ok s := by
  unfold entityUnescape entityEscape
  induction s with
  | nil => simp [unescRefGo]
  | cons c cs ih =>
    rw [List.flatMap_cons]
    rcases entityEscapeChar_cases c with ⟨h1, h2, _⟩ | ⟨n, hmem, _, h3⟩
    · rw [h1]
      simp only [List.cons_append, List.nil_append, unescRefGo, h2, if_false, ih, URes.cons]
    · obtain ⟨hok, hback, _⟩ := entity_name_facts hmem
      rw [h3]
      have hshape : ('&' :: n ++ [';']) ++ cs.flatMap entityEscapeChar =
          '&' :: (n ++ ';' :: cs.flatMap entityEscapeChar) := by simp
      rw [hshape]
      simp only [unescRefGo, if_true, matchRef_name n _ hok, refCode, hback, Option.getD_some,
        isSurrogate_toNat, Bool.false_eq_true, if_false, Char.ofNat_toNat]
      have hskip : n ++ ';' :: cs.flatMap entityEscapeChar = (n ++ [';']) ++ cs.flatMap entityEscapeChar := by
        simp
      have hlen : n.length + 1 = (n ++ [';']).length := by simp
      rw [hskip, hlen, unescRefGo_skip, ih, URes.cons]

end MakoModel.C10
