import MakoModel.Filters.Lemmas
/-!
# Helper lemmas for C10: `u` (percent encoding of UTF-8 bytes) and its decoders
-/
namespace MakoModel.C10
open MakoModel.Filters MakoModel.Generated.Filters

theorem char_valid (c : Char) : c.toNat < 0xD800 ∨ (0xDFFF < c.toNat ∧ c.toNat < 0x110000) := by
  have := c.valid
  simpa [UInt32.isValidChar, Nat.isValidChar] using this

theorem toNat_ofNat_of_valid {n : Nat} (h : n < 0xD800 ∨ (0xDFFF < n ∧ n < 0x110000)) :
    (Char.ofNat n).toNat = n := by
  have hv : n.isValidChar := h
  simp [Char.ofNat, hv, Char.ofNatAux, Char.toNat]

theorem hexVal_hexUpper : ∀ d, d < 16 → Spec.hexVal (hexUpper d) = some d := by decide

theorem safe_byte_facts : ∀ b, b < 256 → isUrlSafeByte b = true →
    (Char.ofNat b ≠ '+' ∧ Char.ofNat b ≠ '%' ∧ utf8EncodeChar (Char.ofNat b) = [b]) := by decide +kernel

/-- percent/plus decoding inverts `quote_plus` byte by byte -/
theorem unquote_quoteByte (b : Nat) (hb : b < 256) (rest : List Char) :
    Spec.unquoteGo 0 (quoteByte b ++ rest) = b :: Spec.unquoteGo 0 rest := by
  by_cases hs : isUrlSafeByte b = true
  · obtain ⟨h1, h2, h3⟩ := safe_byte_facts b hb hs
    simp [quoteByte, hs, Spec.unquoteGo, h1, h2, h3]
  · by_cases h20 : b = 0x20
    · subst h20
      have hq : quoteByte 32 = ['+'] := by decide
      rw [hq]; simp [Spec.unquoteGo]
    · have hq : b / 16 < 16 := by omega
      have hr : b % 16 < 16 := by omega
      have hqb : quoteByte b = ['%', hexUpper (b / 16), hexUpper (b % 16)] := by simp [quoteByte, hs, h20]
      rw [hqb]
      simp only [List.cons_append, List.nil_append]
      simp only [Spec.unquoteGo, hexVal_hexUpper _ hq, hexVal_hexUpper _ hr]
      have : ('%' : Char) ≠ '+' := by decide
      simp only [this, if_false, if_true]
      congr 1
      omega

theorem unquote_flatMap (bs : List Nat) (h : ∀ b ∈ bs, b < 256) :
    Spec.unquotePlus (bs.flatMap quoteByte) = bs := by
  unfold Spec.unquotePlus
  induction bs with
  | nil => simp [Spec.unquoteGo]
  | cons b bs ih =>
    rw [List.flatMap_cons, unquote_quoteByte b (h b List.mem_cons_self)]
    rw [ih (fun x hx => h x (List.mem_cons_of_mem _ hx))]

theorem utf8EncodeChar_lt (c : Char) : ∀ b ∈ utf8EncodeChar c, b < 256 := by
  intro b hb
  have hv := char_valid c
  unfold utf8EncodeChar at hb
  simp only at hb
  split at hb
  · simp at hb; omega
  · split at hb
    · simp at hb; omega
    · split at hb
      · simp at hb; omega
      · simp at hb; omega

theorem utf8Encode_lt (s : List Char) : ∀ b ∈ utf8Encode s, b < 256 := by
  intro b hb
  unfold utf8Encode at hb
  rw [List.mem_flatMap] at hb
  obtain ⟨c, _, hc⟩ := hb
  exact utf8EncodeChar_lt c b hc

/-- strict UTF-8 decoding inverts the encoder character by character -/
theorem utf8Decode_encodeChar (c : Char) (rest : List Nat) :
    Spec.utf8DecodeGo 0 (utf8EncodeChar c ++ rest) = (Spec.utf8DecodeGo 0 rest).map (c :: ·) := by
  have hv := char_valid c
  unfold utf8EncodeChar
  simp only
  by_cases h1 : c.toNat < 0x80
  · simp [h1, Spec.utf8DecodeGo]
  · by_cases h2 : c.toNat < 0x800
    · simp only [h1, h2, if_false, if_true, List.cons_append, List.nil_append, Spec.utf8DecodeGo]
      have a1 : ¬ (0xC0 + c.toNat / 64 < 0x80) := by omega
      have a2 : 0xC2 ≤ 0xC0 + c.toNat / 64 ∧ 0xC0 + c.toNat / 64 < 0xE0 := by omega
      have a3 : Spec.isCont (0x80 + c.toNat % 64) = true := by simp [Spec.isCont]; omega
      have a4 : (0xC0 + c.toNat / 64 - 0xC0) * 64 + (0x80 + c.toNat % 64 - 0x80) = c.toNat := by omega
      simp only [a1, a2, a3, a4, if_false, if_true, and_self, Char.ofNat_toNat]
    · by_cases h3 : c.toNat < 0x10000
      · simp only [h1, h2, h3, if_false, if_true, List.cons_append, List.nil_append, Spec.utf8DecodeGo]
        have a1 : ¬ (0xE0 + c.toNat / 4096 < 0x80) := by omega
        have a2 : ¬ (0xC2 ≤ 0xE0 + c.toNat / 4096 ∧ 0xE0 + c.toNat / 4096 < 0xE0) := by omega
        have a3 : 0xE0 ≤ 0xE0 + c.toNat / 4096 ∧ 0xE0 + c.toNat / 4096 < 0xF0 := by omega
        have a4 : Spec.isCont (0x80 + c.toNat / 64 % 64) = true := by simp [Spec.isCont]; omega
        have a5 : Spec.isCont (0x80 + c.toNat % 64) = true := by simp [Spec.isCont]; omega
        have a6 : (0xE0 + c.toNat / 4096 - 0xE0) * 4096 + (0x80 + c.toNat / 64 % 64 - 0x80) * 64 +
            (0x80 + c.toNat % 64 - 0x80) = c.toNat := by omega
        have a7 : 0x800 ≤ c.toNat ∧ ¬ (0xD800 ≤ c.toNat ∧ c.toNat ≤ 0xDFFF) := by omega
        simp only [a1, a2, a3, a4, a5, a6, a7, if_false, if_true, and_self, not_false_eq_true,
          Char.ofNat_toNat]
      · simp only [h1, h2, h3, if_false, List.cons_append, List.nil_append, Spec.utf8DecodeGo]
        have a1 : ¬ (0xF0 + c.toNat / 262144 < 0x80) := by omega
        have a2 : ¬ (0xC2 ≤ 0xF0 + c.toNat / 262144 ∧ 0xF0 + c.toNat / 262144 < 0xE0) := by omega
        have a3 : ¬ (0xE0 ≤ 0xF0 + c.toNat / 262144 ∧ 0xF0 + c.toNat / 262144 < 0xF0) := by omega
        have a3' : 0xF0 ≤ 0xF0 + c.toNat / 262144 ∧ 0xF0 + c.toNat / 262144 < 0xF5 := by omega
        have a4 : Spec.isCont (0x80 + c.toNat / 4096 % 64) = true := by simp [Spec.isCont]; omega
        have a5 : Spec.isCont (0x80 + c.toNat / 64 % 64) = true := by simp [Spec.isCont]; omega
        have a5' : Spec.isCont (0x80 + c.toNat % 64) = true := by simp [Spec.isCont]; omega
        have a6 : (0xF0 + c.toNat / 262144 - 0xF0) * 262144 + (0x80 + c.toNat / 4096 % 64 - 0x80) * 4096 +
            (0x80 + c.toNat / 64 % 64 - 0x80) * 64 + (0x80 + c.toNat % 64 - 0x80) = c.toNat := by omega
        have a7 : 0x10000 ≤ c.toNat ∧ c.toNat ≤ 0x10FFFF := by omega
        simp only [a1, a2, a3, a3', a4, a5, a5', a6, a7, if_false, if_true, and_self, Char.ofNat_toNat]

theorem utf8Decode_encode (s : List Char) : Spec.utf8Decode (utf8Encode s) = some s := by
  unfold utf8Encode Spec.utf8Decode
  induction s with
  | nil => simp [Spec.utf8DecodeGo]
  | cons c cs ih => rw [List.flatMap_cons, utf8Decode_encodeChar, ih]; rfl

/-! ### the shape of `quote_plus` output -/

open Spec in
theorem quoteByte_shape : ∀ b, b < 256 →
    (quoteByte b = [Char.ofNat b] ∧ isUrlSafeChar (Char.ofNat b) = true ∧ Char.ofNat b ≠ '%') ∨
    quoteByte b = ['+'] ∨
    (∃ h1 h2, quoteByte b = ['%', h1, h2] ∧ isHexUpperChar h1 = true ∧ isHexUpperChar h2 = true ∧
      h1 ≠ '%' ∧ h2 ≠ '%') := by
  have key : ∀ b, b < 256 →
      (quoteByte b = [Char.ofNat b] ∧ isUrlSafeChar (Char.ofNat b) = true ∧ Char.ofNat b ≠ '%') ∨
      quoteByte b = ['+'] ∨
      (quoteByte b = ['%', hexUpper (b / 16), hexUpper (b % 16)] ∧ isHexUpperChar (hexUpper (b / 16)) = true ∧
        isHexUpperChar (hexUpper (b % 16)) = true ∧ hexUpper (b / 16) ≠ '%' ∧ hexUpper (b % 16) ≠ '%') := by
    decide +kernel
  intro b hb
  rcases key b hb with h | h | h
  · exact Or.inl h
  · exact Or.inr (Or.inl h)
  · exact Or.inr (Or.inr ⟨_, _, h⟩)

end MakoModel.C10
