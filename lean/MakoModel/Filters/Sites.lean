import MakoModel.Filters.Model
/-!
# Application sites of a filter: `filter=` on `<%def>` / `<%block>` with `buffered=` / `cached=`

Model of the decision logic of `_GenerateRenderMethod.write_def_finish` and `write_cache_decorator`
(mako/codegen.py) for one rendering callable whose body produced the text `t`, and of the expression sites
(`${e | f}`, `default_filters`, `<%page expression_filter>`, `<%text filter>`) which apply `f` to the value.
`f` is the tag's own `filter="…"`, `bufF` the template's `buffer_filters` (identity by default).
The *visible text* of a call site `${d() | n}` / of a block in place is what the callable wrote to the
enclosing writer followed by what it returned.
-/
namespace MakoModel.Filters.Sites

structure DefFlags where
  buffered : Bool
  filtered : Bool
  cached : Bool
deriving Repr, DecidableEq

/-- `write_def_finish`: what the rendering callable does with the captured body text `t`:
`(returned value, text written to the enclosing writer)` -/
def defFinish (fl : DefFlags) (f bufF : List Char → List Char) (t : List Char) : List Char × List Char :=
  if !fl.buffered && !fl.cached && !fl.filtered then ([], t)       -- no buffer pushed: the body wrote through
  else
    let s := t                                                     -- `__M_buf.getvalue()`
    let s := if fl.filtered then f s else s
    let s := if fl.buffered && !fl.cached then bufF s else s
    if fl.buffered || fl.cached then (s, []) else ([], s)          -- `return s` | `__M_writer(s); return ''`

/-- one call of the callable as generated (with the cache decorator of `write_cache_decorator` when `cached`);
`cache` is the entry under the callable's cache key (`none` = absent).
Result: `(returned value, text written, cache entry afterwards)` -/
def callOnce (fl : DefFlags) (f bufF : List Char → List Char) (cache : Option (List Char)) (t : List Char) :
    List Char × List Char × Option (List Char) :=
  if fl.cached then
    let v := match cache with
      | some v => v                                   -- `_ctx_get_or_create`: a hit does not run the callable
      | none => (defFinish fl f bufF t).1             -- a miss stores what the undecorated callable returns
    if fl.buffered then (bufF v, [], some v) else ([], v, some v)
  else
    let r := defFinish fl f bufF t
    (r.1, r.2, cache)

/-- the text that appears at the call site: written part, then the returned value -/
def visible (r : List Char × List Char × Option (List Char)) : List Char := r.2.1 ++ r.1

/-- a filter application site -/
inductive Site where
  | expr                       -- `${e | n,f}`, `default_filters=[f]`, `<%page expression_filter="f">`, `<%text filter="f">`
  | defLike (fl : DefFlags)    -- `<%def filter="f" …>` called, `<%block filter="f" …>` in place
deriving Repr, DecidableEq

/-- the text at the site for a first render (cache empty) and a second one (cache as left by the first) -/
def renderTwice (site : Site) (f bufF : List Char → List Char) (t : List Char) : List Char × List Char :=
  match site with
  | .expr => (f t, f t)
  | .defLike fl =>
    let r1 := callOnce fl f bufF none t
    let r2 := callOnce fl f bufF r1.2.2 t
    (visible r1, visible r2)

/-- does the site carry the filter (`filter=` present), and which post-processing follows it -/
def Site.filtered : Site → Bool
  | .expr => true
  | .defLike fl => fl.filtered
def Site.post (bufF : List Char → List Char) : Site → List Char → List Char
  | .expr => id
  | .defLike fl => if fl.buffered then bufF else id

/-- at every site, in every mode, on the first render and on a cache hit: the filter is applied exactly once to
the body text (then `buffer_filters` when the callable is buffered) -/
theorem renderTwice_eq (site : Site) (f bufF : List Char → List Char) (t : List Char) :
    renderTwice site f bufF t =
      (site.post bufF (if site.filtered then f t else t), site.post bufF (if site.filtered then f t else t)) := by
  cases site with
  | expr => rfl
  | defLike fl =>
    obtain ⟨b, fi, c⟩ := fl
    cases b <;> cases fi <;> cases c <;>
      simp [renderTwice, callOnce, defFinish, visible, Site.filtered, Site.post]

end MakoModel.Filters.Sites
