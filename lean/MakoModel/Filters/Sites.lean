import MakoModel.Filters.Model
/-!
# Application sites of a filter: `filter=` on `<%def>` / `<%block>` with `buffered=` / `cached=`

Model of the decision logic of `_GenerateRenderMethod.write_def_finish` and `write_cache_decorator`
(mako/codegen.py) for one rendering callable whose body produced the text `t`, and of the expression sites
(`${e | f}`, `default_filters`, `<%page expression_filter>`, `<%text filter>`) which apply `f` to the value.
`f` is the tag's own `filter="…"`, `bufF` the template's `buffer_filters` (identity by default).
The *visible text* of a call site `${d() | n}` / of a block in place is what the callable wrote to the
enclosing writer followed by what it returned.
-/
namespace MakoModel.Filters.Sites

structure DefFlags where
  buffered : Bool
  filtered : Bool
  cached : Bool
deriving Repr, DecidableEq

/-- `write_def_finish`: what the rendering callable does with the captured body text `t`:
`(returned value, text written to the enclosing writer)` -/
def defFinish (fl : DefFlags) (f bufF : List Char → List Char) (t : List Char) : List Char × List Char :=
  if !fl.buffered && !fl.cached && !fl.filtered then ([], t)       -- no buffer pushed: the body wrote through
  else
    let s := t                                                     -- `__M_buf.getvalue()`
    let s := if fl.filtered then f s else s
    let s := if fl.buffered && !fl.cached then bufF s else s
    if fl.buffered || fl.cached then (s, []) else ([], s)          -- `return s` | `__M_writer(s); return ''`

/-- one call of the callable as generated (with the cache decorator of `write_cache_decorator` when `cached`);
`cache` is the entry under the callable's cache key (`none` = absent).
Result: `(returned value, text written, cache entry afterwards)` -/
def callOnce (fl : DefFlags) (f bufF : List Char → List Char) (cache : Option (List Char)) (t : List Char) :
    List Char × List Char × Option (List Char) :=
  if fl.cached then
    let v := match cache with
      | some v => v                                   -- `_ctx_get_or_create`: a hit does not run the callable
      | none => (defFinish fl f bufF t).1             -- a miss stores what the undecorated callable returns
    if fl.buffered then (bufF v, [], some v) else ([], v, some v)
  else
    let r := defFinish fl f bufF t
    (r.1, r.2, cache)

/-- the text that appears at the call site: written part, then the returned value -/
def visible (r : List Char × List Char × Option (List Char)) : List Char := r.2.1 ++ r.1

/-- a filter application site -/
inductive Site where
  | expr                       -- `${e | n,f}`, `default_filters=[f]`, `<%page expression_filter="f">`, `<%text filter="f">`
  | defLike (fl : DefFlags)    -- `<%def filter="f" …>` called, `<%block filter="f" …>` in place
deriving Repr, DecidableEq

/-- the text at the site for a first render (cache empty) and a second one (cache as left by the first) -/
def renderTwice (site : Site) (f bufF : List Char → List Char) (t : List Char) : List Char × List Char :=
  match site with
  | .expr => (f t, f t)
  | .defLike fl =>
    let r1 := callOnce fl f bufF none t
    let r2 := callOnce fl f bufF r1.2.2 t
    (visible r1, visible r2)

/-- does the site carry the filter (`filter=` present), and which post-processing follows it -/
def Site.filtered : Site → Bool
  | .expr => true
  | .defLike fl => fl.filtered
def Site.post (bufF : List Char → List Char) : Site → List Char → List Char
  | .expr => id
  | .defLike fl => if fl.buffered then bufF else id

/-- at every site, in every mode, on the first render and on a cache hit: the filter is applied exactly once to
the body text (then `buffer_filters` when the callable is buffered) -/
theorem renderTwice_eq (site : Site) (f bufF : List Char → List Char) (t : List Char) :
    renderTwice site f bufF t =
      (site.post bufF (if site.filtered then f t else t), site.post bufF (if site.filtered then f t else t)) := by
  cases site with
  | expr => rfl
  | defLike fl =>
    obtain ⟨b, fi, c⟩ := fl
    cases b <;> cases fi <;> cases c <;>
      simp [renderTwice, callOnce, defFinish, visible, Site.filtered, Site.post]

/-! ## Entries that produce bytes, and where their output settings come from -/

/-- `(output_encoding, encoding_errors)` as `runtime._render` hands them to `FastEncodingBuffer` -/
structure OutSettings where
  encoding : Option (List Char)
  errors : List Char
deriving Repr, DecidableEq

/-- the entry through which the bytes are produced -/
inductive Entry where
  | template      -- `Template.render`, a template obtained from a `TemplateLookup`
  | defTemplate   -- `template.get_def(name).render`: a `DefTemplate`, whose `__init__` copies attributes from its parent
deriving Repr, DecidableEq

/-- the settings `_render` reads from the object it is given: a `DefTemplate` has what its `__init__` copied
(`inherited` = the regenerated list of copied attribute names); an attribute that is not copied falls back to the
`Template` class default (`None` / `"strict"`) or is missing -/
def entrySettings (inherited : List (List Char)) (parent : OutSettings) : Entry → OutSettings
  | .template => parent
  | .defTemplate =>
    { encoding := if "output_encoding".toList ∈ inherited then parent.encoding else none
      errors := if "encoding_errors".toList ∈ inherited then parent.errors else "strict".toList }

/-! ## `${expr}`: which filters reach an expression (`visitExpression` + `create_filter_callable`) -/

/-- the filter names of one expression: its own (`${e | a,b}`), the `<%page expression_filter>` ones, the
template's `default_filters` -/
structure ExprConfig where
  own : List (List Char)
  page : List (List Char)
  defaults : List (List Char)
deriving Repr, DecidableEq

def nName : List Char := ['n']

/-- `create_filter_callable(args, target, is_expression=True)`: the names applied, in order -/
def effectiveChain (c : ExprConfig) : List (List Char) :=
  if nName ∈ c.own then c.own.filter (· ≠ nName)
  else
    let a := c.page ++ c.own
    let a := if c.defaults ≠ [] ∧ nName ∉ a then c.defaults ++ a else a
    a.filter (· ≠ nName)

/-- which of the three sources the condition of `visitExpression` looks at (from the regenerated
`exprFilterSources`: membership of the three dotted names only - how the condition combines them is part of the
transcription `writeExpression` below, compared by `corr.exprconfig`) -/
structure SourceChecks where
  own : Bool
  page : Bool
  defaults : Bool
deriving Repr, DecidableEq

def sourceChecks (sources : List (List Char)) : SourceChecks :=
  { own := "node.escapes".toList ∈ sources
    page := "self.compiler.pagetag.filter_args.args".toList ∈ sources
    defaults := "self.compiler.default_filters".toList ∈ sources }

/-- `visitExpression`: the value goes through `create_filter_callable` iff one of the inspected sources is
non-empty, otherwise it is written as it is (`α`: the values filters work on, e.g. `PyText`) -/
def writeExpression {α} (chk : SourceChecks) (apply : List Char → α → α) (c : ExprConfig) (v : α) : α :=
  if (chk.own && !c.own.isEmpty) || (chk.page && !c.page.isEmpty) || (chk.defaults && !c.defaults.isEmpty) then
    (effectiveChain c).foldl (fun t name => apply name t) v
  else v

/-- a text value as the filters see it: a plain `str`, or a `markupsafe.Markup` (what `h` returns) -/
structure PyText where
  markup : Bool
  text : List Char
deriving Repr, DecidableEq

/-- the filters by name on such a value: `h` = `markupsafe.escape` returns a `Markup` and leaves a `Markup`
unchanged (it is "already safe"); `trim` (`Markup.strip`) keeps the kind; `x`, `u`, `entity`, `str` give a plain `str`;
unknown names are not generated -/
def applyFilter (name : List Char) (v : PyText) : PyText :=
  if name = ['h'] then (if v.markup then v else ⟨true, htmlEscape v.text⟩)
  else if name = ['x'] then ⟨false, xmlEscape v.text⟩
  else if name = ['u'] then ⟨false, urlEscape v.text⟩
  else if name = "entity".toList then ⟨false, entityEscape v.text⟩
  else if name = "trim".toList then ⟨v.markup, trim v.text⟩
  else if name = "str".toList then ⟨false, v.text⟩
  else v

theorem effectiveChain_nil (c : ExprConfig) (h1 : c.own = []) (h2 : c.page = []) (h3 : c.defaults = []) :
    effectiveChain c = [] := by
  simp [effectiveChain, h1, h2, h3]

end MakoModel.Filters.Sites
