import MakoModel.Filters.Model
/-!
# Helper lemmas for C10 (escaping tables, `flatMap` scanning, skip counters)

General facts used by `Props/C10.lean`; nothing here is a property statement.
-/
namespace MakoModel.C10
open MakoModel.Filters MakoModel.Generated.Filters

theorem assoc_mem {α β} [DecidableEq α] {k : α} {v : β} {l : List (α × β)} (h : assoc k l = some v) :
    (k, v) ∈ l := by
  induction l with
  | nil => simp [assoc] at h
  | cons p t ih =>
    obtain ⟨a, b⟩ := p
    simp only [assoc] at h
    split at h
    · rename_i hk; cases h; subst hk; exact List.mem_cons_self
    · exact List.mem_cons_of_mem _ (ih h)

/-- A marker character `m` in the concatenation of pieces: every piece either does not contain `m` or starts
with `m` and has no other `m`; then whatever follows an occurrence of `m` in the output starts with the rest
of the piece that produced it. -/
theorem flatMap_marker {β} (m : Char) (P : List Char → Prop) (f : β → List Char)
    (hf : ∀ b, m ∉ f b ∨ ∃ r, f b = m :: r ∧ m ∉ r ∧ ∀ rest, P (r ++ rest)) :
    ∀ (s : List β) (pre post : List Char), s.flatMap f = pre ++ m :: post → P post := by
  intro s
  induction s with
  | nil => intro pre post h; simp at h
  | cons b bs ih =>
    intro pre post h
    rw [List.flatMap_cons, List.append_eq_append_iff] at h
    rcases h with ⟨a', _, h2⟩ | ⟨c', h1, h2⟩
    · exact ih a' post h2
    · cases c' with
      | nil => exact ih [] post (by simpa using h2.symm)
      | cons x c'' =>
        simp only [List.cons_append, List.cons.injEq] at h2
        obtain ⟨hx, hpost⟩ := h2
        subst hx
        rcases hf b with hno | ⟨r, hr, hmr, hP⟩
        · exact absurd (by rw [h1]; simp) hno
        · rw [hr] at h1
          cases pre with
          | nil =>
            simp only [List.nil_append, List.cons.injEq, true_and] at h1
            subst h1; subst hpost; exact hP _
          | cons y pre' =>
            simp only [List.cons_append, List.cons.injEq] at h1
            exact absurd (by rw [h1.2]; simp) hmr

/-! ## Escaping tables -/

/-- Decidable well-formedness of an escaping table w.r.t. the property: every value is `&…` with no markup
and no further `&` after the first character, every markup-significant character is a key, and no value is a
prefix of another entry's value. -/
def goodTable (tbl : List (Char × List Char)) : Bool :=
  tbl.all (fun p => p.2.head? == some '&' && p.2.tail.all (fun x => !('&' :: Spec.markup).contains x)) &&
  ('&' :: Spec.markup).all (fun c => (assoc c tbl).isSome) &&
  tbl.all (fun p => tbl.all (fun q => !p.2.isPrefixOf q.2 || p == q))

structure GoodTable (tbl : List (Char × List Char)) : Prop where
  shape : ∀ p ∈ tbl, ∃ r, p.2 = '&' :: r ∧ ∀ x ∈ r, x ≠ '&' ∧ x ∉ Spec.markup
  keys : ∀ c, c = '&' ∨ c ∈ Spec.markup → ∃ v, assoc c tbl = some v
  prefixFree : ∀ p ∈ tbl, ∀ q ∈ tbl, p.2 <+: q.2 → p = q

theorem goodTable_iff {tbl} (h : goodTable tbl = true) : GoodTable tbl := by
  simp only [goodTable, Bool.and_eq_true, List.all_eq_true] at h
  obtain ⟨⟨h1, h2⟩, h3⟩ := h
  refine ⟨?_, ?_, ?_⟩
  · intro p hp
    have := h1 p hp
    simp only [beq_iff_eq, Bool.not_eq_true'] at this
    obtain ⟨hh, ht⟩ := this
    cases hv : p.2 with
    | nil => simp [hv] at hh
    | cons a r =>
      simp only [hv, List.head?_cons, Option.some.injEq] at hh
      subst hh
      refine ⟨r, rfl, ?_⟩
      intro x hx
      have := ht x (by simp [hv, hx])
      simp only [List.contains_eq_mem, List.mem_cons, decide_eq_false_iff_not, not_or] at this
      exact ⟨this.1, by simpa [Spec.markup] using this.2⟩
  · intro c hc
    have : c ∈ '&' :: Spec.markup := by
      rcases hc with hc | hc
      · simp [hc]
      · exact List.mem_cons_of_mem _ hc
    have := h2 c this
    exact Option.isSome_iff_exists.mp this
  · intro p hp q hq hpre
    have := h3 p hp q hq
    simp only [Bool.or_eq_true, Bool.not_eq_true', beq_iff_eq] at this
    rcases this with h | h
    · rw [← List.isPrefixOf_iff_prefix] at hpre; simp [hpre] at h
    · exact h

/-- what `escChar` produces: the character itself (not markup-significant) or a table value -/
theorem escChar_cases {tbl} (g : GoodTable tbl) (c : Char) :
    (escChar tbl c = [c] ∧ c ≠ '&' ∧ c ∉ Spec.markup ∧ assoc c tbl = none) ∨
    (∃ v, assoc c tbl = some v ∧ escChar tbl c = v ∧ (c, v) ∈ tbl) := by
  unfold escChar
  cases h : assoc c tbl with
  | some v => exact Or.inr ⟨v, rfl, rfl, assoc_mem h⟩
  | none =>
    refine Or.inl ⟨rfl, ?_, ?_, rfl⟩
    · intro hc
      obtain ⟨v, hv⟩ := g.keys c (Or.inl hc)
      simp [h] at hv
    · intro hc
      obtain ⟨v, hv⟩ := g.keys c (Or.inr hc)
      simp [h] at hv

theorem esc_no_markup {tbl} (g : GoodTable tbl) (s : List Char) :
    ∀ c ∈ s.flatMap (escChar tbl), c ∉ Spec.markup := by
  intro c hc
  rw [List.mem_flatMap] at hc
  obtain ⟨a, _, hca⟩ := hc
  rcases escChar_cases g a with ⟨h1, _, h3, _⟩ | ⟨v, _, h2, h3⟩
  · rw [h1] at hca; simp at hca; subst hca; exact h3
  · rw [h2] at hca
    obtain ⟨r, hr, hall⟩ := g.shape _ h3
    simp only at hr
    rw [hr] at hca
    rcases List.mem_cons.mp hca with h | h
    · subst h; simp [Spec.markup]
    · exact (hall c h).2

theorem esc_amp_starts_entity {tbl} (g : GoodTable tbl) (s : List Char) (pre post : List Char)
    (h : s.flatMap (escChar tbl) = pre ++ '&' :: post) :
    ∃ p ∈ tbl, p.2 <+: '&' :: post := by
  refine flatMap_marker '&' (fun post => ∃ p ∈ tbl, p.2 <+: '&' :: post) (escChar tbl) ?_ s pre post h
  intro b
  rcases escChar_cases g b with ⟨h1, h2, _, _⟩ | ⟨v, _, h2, h3⟩
  · left; rw [h1]; simpa using Ne.symm h2
  · right
    obtain ⟨r, hr, hall⟩ := g.shape _ h3
    simp only at hr
    refine ⟨r, by rw [h2, hr], fun hm => (hall _ hm).1 rfl, fun rest => ⟨(b, v), h3, ?_⟩⟩
    simp only [hr]
    exact ⟨rest, by simp⟩

/-- the skip counter runs over exactly the characters it was set for -/
theorem unescGo_skip (tbl) (a rest : List Char) : unescGo tbl a.length (a ++ rest) = unescGo tbl 0 rest := by
  induction a with
  | nil => simp
  | cons x a ih => simpa [unescGo] using ih

theorem unesc_esc {tbl} (g : GoodTable tbl) (s : List Char) :
    unescapeWith tbl (s.flatMap (escChar tbl)) = s := by
  unfold unescapeWith
  induction s with
  | nil => simp [unescGo]
  | cons c cs ih =>
    rw [List.flatMap_cons]
    rcases escChar_cases g c with ⟨h1, h2, _, h4⟩ | ⟨v, _, h2, h3⟩
    · rw [h1]
      simp only [List.cons_append, List.nil_append, unescGo]
      have : tbl.find? (fun p => p.2.isPrefixOf (c :: cs.flatMap (escChar tbl))) = none := by
        rw [List.find?_eq_none]
        intro p hp
        obtain ⟨r, hr, _⟩ := g.shape p hp
        rw [hr]
        simp [List.isPrefixOf, Ne.symm h2]
      rw [this, ih]
    · obtain ⟨r, hr, _⟩ := g.shape _ h3
      simp only at hr
      rw [h2, hr]
      simp only [List.cons_append, unescGo]
      have hpre : ((c, v) : Char × List Char).2.isPrefixOf ('&' :: (r ++ cs.flatMap (escChar tbl))) = true := by
        rw [List.isPrefixOf_iff_prefix]; simp only [hr]; exact ⟨cs.flatMap (escChar tbl), by simp⟩
      have hsome : (tbl.find? (fun p => p.2.isPrefixOf ('&' :: (r ++ cs.flatMap (escChar tbl))))).isSome := by
        rw [List.find?_isSome]; exact ⟨_, h3, hpre⟩
      obtain ⟨p, hp⟩ := Option.isSome_iff_exists.mp hsome
      have hpmem := List.mem_of_find?_eq_some hp
      have hpp := List.find?_some hp
      simp only [List.isPrefixOf_iff_prefix] at hpp hpre
      have hpeq : p = (c, v) := by
        rcases Nat.le_total p.2.length v.length with hle | hle
        · exact g.prefixFree p hpmem (c, v) h3 (List.prefix_of_prefix_length_le hpp hpre hle)
        · exact (g.prefixFree (c, v) h3 p hpmem (List.prefix_of_prefix_length_le hpre hpp hle)).symm
      rw [hp, hpeq]
      simp only [hr, List.length_cons, Nat.add_sub_cancel]
      rw [unescGo_skip, ih]

end MakoModel.C10
