import MakoModel.Filters.LemmasMisc
/-!
# Helper lemmas for C10: numeric references, `repr(bytes)`, the `htmlentityreplace` handler
-/
namespace MakoModel.C10
open MakoModel.Filters MakoModel.Generated.Filters

/-! ### `"%X" % n` -/

theorem hexGo_all (P : Char → Prop) (hd : ∀ d, d < 16 → P (hexUpper d)) :
    ∀ (f n : Nat) (acc : List Char), (∀ x ∈ acc, P x) → ∀ x ∈ hexGo f n acc, P x := by
  intro f
  induction f with
  | zero =>
    intro n acc hacc x hx
    simp only [hexGo, List.mem_cons] at hx
    rcases hx with e | e
    · subst e; exact hd _ (by omega)
    · exact hacc x e
  | succ f ih =>
    intro n acc hacc x hx
    simp only [hexGo] at hx
    split at hx
    · simp only [List.mem_cons] at hx
      rcases hx with e | e
      · subst e; exact hd _ (by assumption)
      · exact hacc x e
    · refine ih (n / 16) _ ?_ x hx
      intro y hy
      simp only [List.mem_cons] at hy
      rcases hy with e | e
      · subst e; exact hd _ (by omega)
      · exact hacc y e

theorem hexGo_ne_nil (f n : Nat) (acc : List Char) : hexGo f n acc ≠ [] := by
  induction f generalizing n acc with
  | zero => simp [hexGo]
  | succ f ih =>
    simp only [hexGo]
    split
    · simp
    · exact ih _ _

theorem hexValD_hexUpper : ∀ d, d < 16 → (Spec.hexVal (hexUpper d)).getD 0 = d := by
  intro d hd; rw [hexVal_hexUpper d hd]; rfl

theorem hexGo_foldl (f : Nat) : ∀ (n : Nat) (acc : List Char), n ≤ f →
    (hexGo f n acc).foldl (fun a h => 16 * a + (Spec.hexVal h).getD 0) 0 =
    acc.foldl (fun a h => 16 * a + (Spec.hexVal h).getD 0) n := by
  induction f with
  | zero =>
    intro n acc hn
    have : n = 0 := by omega
    subst this
    simp [hexGo, hexValD_hexUpper]
  | succ f ih =>
    intro n acc hn
    simp only [hexGo]
    split
    · rename_i h16
      simp [List.foldl_cons, hexValD_hexUpper n h16]
    · rw [ih (n / 16) _ (by omega)]
      simp only [List.foldl_cons, hexValD_hexUpper (n % 16) (by omega)]
      congr 1
      omega

/-! ### every reference `XMLEntityEscaper.escape` emits decodes back -/

/-- plain printable ASCII that `repr(bytes)` copies unchanged inside `'…'` -/
def plain (c : Char) : Bool := 32 ≤ c.toNat && c.toNat < 127 && c != '\'' && c != '\\'

def handlerTablesOk : Bool :=
  codepoint2name.all (fun p => p.2.all plain) && xeeAsciiMax == 127 &&
  xeeEscapable.all (fun c => (assoc c.toNat codepoint2name).isSome) &&
  numRefFormat == ['&', '#', 'x', '%', 'X', ';'] && entityFormat == ['&', '%', 's', ';']

theorem handlerTablesOk_true : handlerTablesOk = true := by decide +kernel

theorem xeeAsciiMax_eq : xeeAsciiMax = 127 := by
  have := handlerTablesOk_true
  simp only [handlerTablesOk, Bool.and_eq_true, beq_iff_eq] at this
  exact this.1.1.1.2

theorem name_plain {k : Nat} {n : List Char} (h : (k, n) ∈ codepoint2name) : ∀ x ∈ n, plain x = true := by
  have := handlerTablesOk_true
  simp only [handlerTablesOk, Bool.and_eq_true, List.all_eq_true] at this
  exact this.1.1.1.1 (k, n) h

theorem getLast?_snoc {α} (l : List α) (a : α) : (l ++ [a]).getLast? = some a := by simp

theorem decodeRef_entity {k : Nat} {n : List Char} (h : (k, n) ∈ codepoint2name) :
    Spec.decodeRef ('&' :: n ++ [';']) = some (Char.ofNat k) := by
  obtain ⟨hok, hback, hvalid⟩ := entity_name_facts h
  cases n with
  | nil => simp [nameOk] at hok
  | cons a tl =>
    have ha : a ≠ '#' := by
      simp only [nameOk, Bool.and_eq_true, bne_iff_ne, ne_eq] at hok
      exact hok.1.1.1.1
    have hl : (a :: tl ++ [';']).getLast? = some ';' := getLast?_snoc (a :: tl) ';'
    have hd : (a :: tl ++ [';']).dropLast = a :: tl := List.dropLast_concat
    have hshape : '&' :: (a :: tl) ++ [';'] = '&' :: (a :: tl ++ [';']) := rfl
    rw [hshape]
    unfold Spec.decodeRef
    split
    · rename_i t heq
      simp only [List.cons_append, List.cons.injEq, true_and] at heq
      exact absurd heq.1 ha
    · rename_i t heq
      simp only [List.cons.injEq, true_and] at heq
      subst heq
      simp only [hl, hd, ne_eq, not_true_eq_false, if_false, hback, hvalid, if_true]
    · rename_i _ hne2
      exact absurd rfl (hne2 _)

theorem decodeRef_numRef (c : Char) : Spec.decodeRef (numRef c.toNat) = some c := by
  have hv := char_valid c
  have hne := hexGo_ne_nil c.toNat c.toNat []
  have hall : ∀ x ∈ hexGo c.toNat c.toNat [], (Spec.hexVal x).isSome = true :=
    hexGo_all (fun x => (Spec.hexVal x).isSome = true) (fun d hd => by rw [hexVal_hexUpper d hd]; rfl)
      _ _ _ (by simp)
  have hfold := hexGo_foldl c.toNat c.toNat [] (Nat.le_refl _)
  simp only [List.foldl_nil] at hfold
  have hl : ('x' :: hexGo c.toNat c.toNat [] ++ [';']).getLast? = some ';' := getLast?_snoc _ ';'
  have hd : ('x' :: hexGo c.toNat c.toNat [] ++ [';']).dropLast = 'x' :: hexGo c.toNat c.toNat [] :=
    List.dropLast_concat
  have hvc : Spec.validCode c.toNat = true := by simp [Spec.validCode]; omega
  show Spec.decodeRef ('&' :: '#' :: ('x' :: hexGo c.toNat c.toNat [] ++ [';'])) = some c
  unfold Spec.decodeRef
  simp only [hl, hd, ne_eq, not_true_eq_false, if_false, true_or, if_true, hne, not_false_eq_true,
    List.all_eq_true, true_and]
  have hall' : ∀ x ∈ hexGo c.toNat c.toNat [], (Spec.hexVal x).isSome = true := hall
  simp only [hfold, hvc, if_true, Char.ofNat_toNat]
  rw [if_pos hall']

theorem xeeEscapeChar_cases (c : Char) (hc : isEscapable c = true) :
    (∃ n, (c.toNat, n) ∈ codepoint2name ∧ xeeEscapeChar c = '&' :: n ++ [';']) ∨
    xeeEscapeChar c = numRef c.toNat := by
  unfold xeeEscapeChar entityOf
  simp only [hc, if_true]
  cases h : assoc c.toNat codepoint2name with
  | none => right; rfl
  | some n => left; exact ⟨n, assoc_mem h, rfl⟩

theorem decodeRef_xee (c : Char) (hc : isEscapable c = true) : Spec.decodeRef (xeeEscapeChar c) = some c := by
  rcases xeeEscapeChar_cases c hc with ⟨n, hmem, h⟩ | h
  · rw [h, decodeRef_entity hmem, Char.ofNat_toNat]
  · rw [h, decodeRef_numRef]

theorem hexUpper_plain : ∀ d, d < 16 → plain (hexUpper d) = true := by decide

theorem xee_plain (c : Char) (hc : isEscapable c = true) : ∀ x ∈ xeeEscapeChar c, plain x = true := by
  intro x hx
  rcases xeeEscapeChar_cases c hc with ⟨n, hmem, h⟩ | h
  · rw [h] at hx
    simp only [List.cons_append, List.mem_cons, List.mem_append, List.mem_nil_iff, or_false] at hx
    rcases hx with e | e | e
    · subst e; decide
    · exact name_plain hmem x e
    · subst e; decide
  · rw [h] at hx
    simp only [numRef, hexDigitsUpper, List.cons_append, List.mem_cons, List.mem_append, List.mem_nil_iff,
      or_false] at hx
    rcases hx with e | e | e | e | e
    · subst e; decide
    · subst e; decide
    · subst e; decide
    · exact hexGo_all (fun x => plain x = true) hexUpper_plain _ _ _ (by simp) x e
    · subst e; decide

/-! ### the handler -/

theorem plain_ascii (c : Char) (h : plain c = true) : c.toNat < 128 := by
  simp only [plain, Bool.and_eq_true, decide_eq_true_eq] at h
  omega

theorem escapable_of_nonascii (c : Char) (h : 128 ≤ c.toNat) : isEscapable c = true := by
  simp [isEscapable, xeeAsciiMax_eq]; right; omega

theorem unencodable_nonascii (enc : Char → Bool) (hascii : ∀ c : Char, c.toNat < 128 → enc c = true)
    (c : Char) (hc : enc c = false) : 128 ≤ c.toNat := by
  rcases Nat.lt_or_ge c.toNat 128 with hlt | hge
  · rw [hascii c hlt] at hc; cases hc
  · exact hge

/-- the references of unencodable characters are ASCII, hence encodable -/
theorem refs_encodable (enc : Char → Bool) (hascii : ∀ c : Char, c.toNat < 128 → enc c = true)
    (l : List Char) (hl : ∀ c ∈ l, enc c = false) : ∀ x ∈ l.flatMap xeeEscapeChar, enc x = true := by
  intro x hx
  rw [List.mem_flatMap] at hx
  obtain ⟨c, hc, hxc⟩ := hx
  exact hascii x (plain_ascii x (xee_plain c
    (escapable_of_nonascii c (unencodable_nonascii enc hascii c (hl c hc))) x hxc))

/-- what one call of the handler contributes: the references of the run, as text the codec can encode -/
theorem flush_spec (enc : Char → Bool) (hascii : ∀ c : Char, c.toNat < 128 → enc c = true)
    (run : List Char) (hrun : ∀ c ∈ run, enc c = false) :
    flushRun enc run = some (run.reverse.flatMap xeeEscapeChar) := by
  by_cases hnil : run = []
  · subst hnil; simp [flushRun]
  · have hall := refs_encodable enc hascii run.reverse (fun c hc => hrun c (List.mem_reverse.mp hc))
    have : (handlerReplace run.reverse).all enc = true := by
      rw [List.all_eq_true]; exact hall
    simp only [flushRun, hnil, if_false, this, if_true]
    rfl

/-- the text every unencodable character of which is replaced by its reference -/
def refOut (enc : Char → Bool) (s : List Char) : List Char :=
  s.flatMap fun c => if enc c then [c] else xeeEscapeChar c

theorem refOut_cons_pos (enc : Char → Bool) (c : Char) (cs : List Char) (h : enc c = true) :
    refOut enc (c :: cs) = c :: refOut enc cs := by simp [refOut, h]

theorem refOut_cons_neg (enc : Char → Bool) (c : Char) (cs : List Char) (h : enc c = false) :
    refOut enc (c :: cs) = xeeEscapeChar c ++ refOut enc cs := by simp [refOut, h]

theorem handlerGo_spec (enc : Char → Bool) (hascii : ∀ c : Char, c.toNat < 128 → enc c = true) (g : Bool) :
    ∀ (s run : List Char), (∀ c ∈ run, enc c = false) →
      handlerGo enc g run s = some (run.reverse.flatMap xeeEscapeChar ++ refOut enc s) := by
  intro s
  induction s with
  | nil =>
    intro run hrun
    simp [handlerGo, flush_spec enc hascii run hrun, refOut]
  | cons c cs ih =>
    intro run hrun
    by_cases hc : enc c = true
    · simp [handlerGo, hc, flush_spec enc hascii run hrun, ih [] (by simp), refOut_cons_pos enc c cs hc]
    · have hc' : enc c = false := by simpa using hc
      have hrun' : ∀ x ∈ c :: run, enc x = false := by
        intro x hx
        rcases List.mem_cons.mp hx with e | e
        · subst e; exact hc'
        · exact hrun x e
      cases g with
      | true =>
        simp [handlerGo, hc', ih (c :: run) hrun', refOut_cons_neg enc c cs hc', List.flatMap_append]
      | false =>
        simp [handlerGo, hc', flush_spec enc hascii (c :: run) hrun', ih [] (by simp),
          refOut_cons_neg enc c cs hc', List.flatMap_append]

theorem refOut_encodable (enc : Char → Bool) (hascii : ∀ c : Char, c.toNat < 128 → enc c = true)
    (s : List Char) : ∀ x ∈ refOut enc s, enc x = true := by
  intro x hx
  unfold refOut at hx
  rw [List.mem_flatMap] at hx
  obtain ⟨c, _, hxc⟩ := hx
  by_cases hc : enc c = true
  · simp [hc] at hxc; subst hxc; exact hc
  · have hc' : enc c = false := by simpa using hc
    simp only [hc', Bool.false_eq_true, if_false] at hxc
    exact refs_encodable enc hascii [c] (by simpa using hc') x (by simpa using hxc)

/-- nothing to replace: the text is returned as it is -/
theorem handlerGo_all_encodable (enc : Char → Bool) (g : Bool) (s : List Char) (h : ∀ c ∈ s, enc c = true) :
    handlerGo enc g [] s = some s := by
  induction s with
  | nil => simp [handlerGo, flushRun]
  | cons c cs ih =>
    have hc := h c List.mem_cons_self
    simp [handlerGo, hc, flushRun, ih (fun x hx => h x (List.mem_cons_of_mem _ hx))]

end MakoModel.C10
