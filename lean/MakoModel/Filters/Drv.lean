import MakoModel.Basic.Wire
import MakoModel.Filters.Model
import MakoModel.Filters.Sites
/-! Driver handler for the filter models: `filt <fn> <args…>`.  Bytes travel as strings of code points < 256. -/
namespace MakoModel.Filters.Drv
open MakoModel.Wire MakoModel.Filters

def encBytes (b : List Nat) : String := encStr (b.map Char.ofNat)
def decBytes (f : String) : Option (List Nat) := (decStr f).map fun s => s.map Char.toNat

def encURes : URes → String
  | .ok s => "ok " ++ encStr s
  | .valueError => "ValueError"
  | .overflowError => "OverflowError"
  | .surrogate => "surrogate"

/-- the codecs the driver knows (correspondence only): utf8 (strict), latin1, ascii; anything else raises -/
def driverCodec (key : List Char) (b : List Nat) : Option (List Char) :=
  if key = "utf8".toList then Spec.utf8Decode b
  else if key = "latin1".toList then some (b.map Char.ofNat)
  else if key = "ascii".toList then (if b.all (· < 128) then some (b.map Char.ofNat) else none)
  else none

/-- `L <key>` | `C <j> str|other|bytes <payload>`, flat -/
def decOps : List String → Option (List DecodeOp)
  | [] => some []
  | "L" :: k :: rest => do
    let k ← decStr k; let ops ← decOps rest; pure (.lookup k :: ops)
  | "C" :: j :: kind :: x :: rest => do
    let j ← j.toNat?
    let v ← (match kind with
      | "str" => (decStr x).map PyVal.str
      | "other" => (decStr x).map PyVal.other
      | "bytes" => (decBytes x).map PyVal.bytes
      | _ => none)
    let ops ← decOps rest
    pure (.call j v :: ops)
  | _ => none

def encDecodeOut : DecodeOut → Option String
  | .none => none
  | .result r => some (encOpt encStr r)
  | .badIndex => some "badindex"

def filterByName (n : String) : Option (List Char → List Char) :=
  match n with
  | "x" => some xmlEscape | "h" => some htmlEscape | "u" => some urlEscape | "entity" => some entityEscape
  | "trim" => some trim | "id" => some id | _ => none

/-- a list of filter names: `-` for none, else names joined by `+` -/
def decNames (f : String) : List (List Char) :=
  if f == "-" then [] else (f.splitOn "+").map String.toList

def handle : Handler
  | ["exprcfg", own, page, defaults, v] => do
      let v ← decStr v
      let c : Sites.ExprConfig := ⟨decNames own, decNames page, decNames defaults⟩
      pure (encStr (Sites.writeExpression (Sites.sourceChecks Generated.Filters.exprFilterSources) Sites.applyFilter c
        (⟨false, v⟩ : Sites.PyText)).text)
  | ["site", b, fi, c, fname, bufname, body] => do
      -- `<%def/%block filter=fname buffered=b cached=c>` under buffer_filters=[bufname]: first render, cache hit
      let b ← decBool b; let fi ← decBool fi; let c ← decBool c
      let f ← filterByName fname; let bufF ← filterByName bufname; let body ← decStr body
      let r := Sites.renderTwice (.defLike ⟨b, fi, c⟩) f bufF body
      pure (encStr r.1 ++ " " ++ encStr r.2)
  | "decodeseq" :: ops => do
      let ops ← decOps ops
      let outs := (decodeRun driverCodec [] ops).2.filterMap encDecodeOut
      pure (if outs.isEmpty then "[]" else " ".intercalate outs)
  | ["x", s] => do let s ← decStr s; pure (encStr (xmlEscape s))
  | ["xun", s] => do let s ← decStr s; pure (encStr (xmlUnescape s))
  | ["h", s] => do let s ← decStr s; pure (encStr (htmlEscape s))
  | ["hun", s] => do let s ← decStr s; pure (encStr (htmlUnescape s))
  | ["u", s] => do let s ← decStr s; pure (encStr (urlEscape s))
  | ["uun", s] => do let s ← decStr s; pure (encOpt encStr (Spec.urlUnescape s))
  | ["unquote", s] => do let s ← decStr s; pure (encBytes (Spec.unquotePlus s))
  | ["utf8enc", s] => do let s ← decStr s; pure (encBytes (utf8Encode s))
  | ["utf8dec", b] => do let b ← decBytes b; pure (encOpt encStr (Spec.utf8Decode b))
  | ["entity", s] => do let s ← decStr s; pure (encStr (entityEscape s))
  | ["unescape", s] => do let s ← decStr s; pure (encURes (entityUnescape s))
  | ["xee", s] => do let s ← decStr s; pure (encStr (xeeEscape s))
  | ["decoderef", s] => do let s ← decStr s; pure (encOpt (fun c => toString c.toNat) (Spec.decodeRef s))
  | ["handler", g, bad, s] => do
      -- `bad`: the characters of `s` the target charset cannot encode (everything else is encodable)
      let g ← decBool g; let bad ← decStr bad; let s ← decStr s
      pure (encOpt encStr (handlerEncode (fun c => !bad.contains c) g s))
  | ["trim", s] => do let s ← decStr s; pure (encStr (trim s))
  | ["decode", "str", s] => do let s ← decStr s; pure (encOpt encStr (decodeFilter Spec.utf8Decode (.str s)))
  | ["decode", "other", s] => do let s ← decStr s; pure (encOpt encStr (decodeFilter Spec.utf8Decode (.other s)))
  | ["decode", "bytes", b] => do let b ← decBytes b; pure (encOpt encStr (decodeFilter Spec.utf8Decode (.bytes b)))
  | _ => none

end MakoModel.Filters.Drv
