import MakoModel.Basic.Wire
import MakoModel.Filters.Model
/-! Driver handler for the filter models: `filt <fn> <args…>`.  Bytes travel as strings of code points < 256. -/
namespace MakoModel.Filters.Drv
open MakoModel.Wire MakoModel.Filters

def encBytes (b : List Nat) : String := encStr (b.map Char.ofNat)
def decBytes (f : String) : Option (List Nat) := (decStr f).map fun s => s.map Char.toNat

def encURes : URes → String
  | .ok s => "ok " ++ encStr s
  | .valueError => "ValueError"
  | .overflowError => "OverflowError"
  | .surrogate => "surrogate"

def handle : Handler
  | ["x", s] => do let s ← decStr s; pure (encStr (xmlEscape s))
  | ["xun", s] => do let s ← decStr s; pure (encStr (xmlUnescape s))
  | ["h", s] => do let s ← decStr s; pure (encStr (htmlEscape s))
  | ["hun", s] => do let s ← decStr s; pure (encStr (htmlUnescape s))
  | ["u", s] => do let s ← decStr s; pure (encStr (urlEscape s))
  | ["uun", s] => do let s ← decStr s; pure (encOpt encStr (Spec.urlUnescape s))
  | ["unquote", s] => do let s ← decStr s; pure (encBytes (Spec.unquotePlus s))
  | ["utf8enc", s] => do let s ← decStr s; pure (encBytes (utf8Encode s))
  | ["utf8dec", b] => do let b ← decBytes b; pure (encOpt encStr (Spec.utf8Decode b))
  | ["entity", s] => do let s ← decStr s; pure (encStr (entityEscape s))
  | ["unescape", s] => do let s ← decStr s; pure (encURes (entityUnescape s))
  | ["xee", s] => do let s ← decStr s; pure (encStr (xeeEscape s))
  | ["decoderef", s] => do let s ← decStr s; pure (encOpt (fun c => toString c.toNat) (Spec.decodeRef s))
  | ["bytesrepr", s] => do let s ← decStr s; pure (encStr (bytesRepr s))
  | ["handler", g, bad, s] => do
      -- `bad`: the characters of `s` the target charset cannot encode (everything else is encodable)
      let g ← decBool g; let bad ← decStr bad; let s ← decStr s
      pure (encOpt encStr (handlerEncode (fun c => !bad.contains c) g s))
  | ["trim", s] => do let s ← decStr s; pure (encStr (trim s))
  | ["decode", "str", s] => do let s ← decStr s; pure (encOpt encStr (decodeFilter Spec.utf8Decode (.str s)))
  | ["decode", "other", s] => do let s ← decStr s; pure (encOpt encStr (decodeFilter Spec.utf8Decode (.other s)))
  | ["decode", "bytes", b] => do let b ← decBytes b; pure (encOpt encStr (decodeFilter Spec.utf8Decode (.bytes b)))
  | _ => none

end MakoModel.Filters.Drv
