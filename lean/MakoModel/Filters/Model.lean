import MakoModel.Generated.Filters
/-!
# L8 (filters): executable models of `mako/filters.py`

`xml_escape` (`x`), `markupsafe.escape` (`h`), `url_escape` (`u`), `XMLEntityEscaper.escape_entities`
(`entity`) / `unescape` / `escape`, the codec error handler `htmlentityreplace_errors`, `trim`, `Decode`.

Strings are `List Char`, bytes are `List Nat` (every element `< 256`).  Every definition is a direct
transcription of the Python code named beside it (the *tables* come from `Generated/Filters.lean`);
agreement with the running code is checked by the correspondence streams of `harness/props/C10.py`.
The definitions under `Spec` are not models of mako code: they are the reference decoders the
round-trip theorems are stated against (`html.unescape`, `urllib.parse.unquote_plus`, UTF-8 decoding).
-/
namespace MakoModel.Filters
open MakoModel.Generated.Filters

/-- `dict.get`: first entry with the key -/
def assoc {α β} [DecidableEq α] (k : α) : List (α × β) → Option β
  | [] => none
  | (a, b) :: t => if a = k then some b else assoc k t

/-! ## `x` and `h` -/

/-- one replacement step of an escaping table: `tbl[c]` if present, else `c` -/
def escChar (tbl : List (Char × List Char)) (c : Char) : List Char := (assoc c tbl).getD [c]

/-- `re.sub(r'([&<"\'>])', lambda m: xml_escapes[m.group()], string)`: the regex matches single characters of
the class, every match is replaced by its table entry (a `KeyError` for a class member that is not a key is
excluded by the side condition `C10.xml_class_eq_keys`; the model then leaves the character). -/
def xmlEscapeChar (c : Char) : List Char :=
  if c ∈ xmlClass then (assoc c xmlEscapes).getD [c] else [c]

def xmlEscape (s : List Char) : List Char := s.flatMap xmlEscapeChar

/-- `markupsafe.escape` on a plain `str`: the five replacements probed at regen time -/
def htmlEscape (s : List Char) : List Char := s.flatMap (escChar markupsafeEscapes)

/-- Spec-side inverse of an escaping table: scanning left to right, an occurrence of a table value is
decoded to its key, every other character is kept.  The counter is the number of characters of the
current entity still to be skipped. -/
def unescGo (tbl : List (Char × List Char)) : Nat → List Char → List Char
  | _, [] => []
  | n + 1, _ :: cs => unescGo tbl n cs
  | 0, c :: cs =>
    match tbl.find? (fun p => p.2.isPrefixOf (c :: cs)) with
    | some (k, v) => k :: unescGo tbl (v.length - 1) cs
    | none => c :: unescGo tbl 0 cs

def unescapeWith (tbl : List (Char × List Char)) (s : List Char) : List Char := unescGo tbl 0 s

def xmlUnescape : List Char → List Char := unescapeWith xmlEscapes
def htmlUnescape : List Char → List Char := unescapeWith markupsafeEscapes

/-! ## `u` -/

/-- UTF-8 encoding of one character (`str.encode("utf8")`) -/
def utf8EncodeChar (c : Char) : List Nat :=
  let n := c.toNat
  if n < 0x80 then [n]
  else if n < 0x800 then [0xC0 + n / 64, 0x80 + n % 64]
  else if n < 0x10000 then [0xE0 + n / 4096, 0x80 + n / 64 % 64, 0x80 + n % 64]
  else [0xF0 + n / 262144, 0x80 + n / 4096 % 64, 0x80 + n / 64 % 64, 0x80 + n % 64]

def utf8Encode (s : List Char) : List Nat := s.flatMap utf8EncodeChar

/-- `urllib.parse._ALWAYS_SAFE`: `A-Z a-z 0-9 _ . - ~` -/
def isUrlSafeByte (b : Nat) : Bool :=
  (0x41 ≤ b && b ≤ 0x5A) || (0x61 ≤ b && b ≤ 0x7A) || (0x30 ≤ b && b ≤ 0x39) ||
  b == 0x5F || b == 0x2E || b == 0x2D || b == 0x7E

/-- one upper-case hexadecimal digit (`'%02X'`, `'%X'`) -/
def hexUpper (d : Nat) : Char := if d < 10 then Char.ofNat (48 + d) else Char.ofNat (55 + d)

/-- `quote_plus` on one byte: safe bytes stay, space becomes `+`, everything else `%XX` -/
def quoteByte (b : Nat) : List Char :=
  if isUrlSafeByte b then [Char.ofNat b]
  else if b = 0x20 then ['+']
  else ['%', hexUpper (b / 16), hexUpper (b % 16)]

/-- `url_escape`: `quote_plus(string.encode("utf8"))` -/
def urlEscape (s : List Char) : List Char := (utf8Encode s).flatMap quoteByte

/-! ## `entity`, `html_entities_unescape`, `XMLEntityEscaper.escape` -/

/-- `codepoint2entity[ord(c)]` = `"&%s;" % name` -/
def entityOf (c : Char) : Option (List Char) :=
  (assoc c.toNat codepoint2name).map fun n => '&' :: n ++ [';']

/-- `str(text).translate(self.codepoint2entity)` -/
def entityEscapeChar (c : Char) : List Char := (entityOf c).getD [c]
def entityEscape (s : List Char) : List Char := s.flatMap entityEscapeChar

/-- membership in a table of inclusive ranges sorted by lower bound (as regenerated) -/
def inRanges : List (Nat × Nat) → Nat → Bool
  | [], _ => false
  | (lo, hi) :: t, n => if n < lo then false else if n ≤ hi then true else inRanges t n

/-- membership in a chunked range table: the first chunk whose largest upper bound is not below `n` decides -/
def inChunks : List (Nat × List (Nat × Nat)) → Nat → Bool
  | [], _ => false
  | (mx, rs) :: t, n => if n ≤ mx then inRanges rs n else inChunks t n

/-- regex `\d` / `\w` on a `str` pattern (tables regenerated from the interpreter) -/
def isDigitU (c : Char) : Bool := inRanges digitRanges c.toNat
def isWordU (c : Char) : Bool := inChunks wordChunks c.toNat

/-- value of a Unicode decimal digit as `int()` reads it -/
def digitVal (c : Char) : Nat :=
  match digitRanges.find? (fun r => r.1 ≤ c.toNat && c.toNat ≤ r.2) with
  | some r => (c.toNat - r.1) % 10
  | none => 0

/-- `[\da-f]` (no `re.I`: lower case only) and the value `int(…, 16)` gives the digit -/
def isHexRef (c : Char) : Bool := isDigitU c || (0x61 ≤ c.toNat && c.toNat ≤ 0x66)
def hexRefVal (c : Char) : Nat := if 0x61 ≤ c.toNat ∧ c.toNat ≤ 0x66 then c.toNat - 87 else digitVal c
/-- `[:\w]`, `[-.:\w]` -/
def isNameStart (c : Char) : Bool := c == ':' || isWordU c
def isNameChar (c : Char) : Bool := c == '-' || c == '.' || c == ':' || isWordU c

/-- which group of `__characterrefs` matched -/
inductive Ref where
  | dec (ds : List Char)
  | hex (hs : List Char)
  | name (n : List Char)
deriving Repr, DecidableEq

/-- `p+ ;` at the head of `t`: the maximal run (greedy; `;` is outside every class used, so no shorter run can
be followed by `;`), which must be non-empty and followed by `;` -/
def runThenSemi (p : Char → Bool) (t : List Char) : Option (List Char) :=
  let r := t.takeWhile p
  if r ≠ [] ∧ (t.drop r.length).head? = some ';' then some r else none

/-- the three alternatives of `__characterrefs`, tried on the text after `&`; the number is the count of
characters consumed after the `&` (including the `;`) -/
def alt1 : List Char → Option (Ref × Nat)
  | c :: t => if c = '#' then (runThenSemi isDigitU t).map fun r => (.dec r, r.length + 2) else none
  | [] => none
def alt2 : List Char → Option (Ref × Nat)
  | c :: d :: t =>
    if c = '#' ∧ d = 'x' then (runThenSemi isHexRef t).map fun r => (.hex r, r.length + 3) else none
  | _ => none
def alt3 : List Char → Option (Ref × Nat)
  | c :: t =>
    if !isDigitU c && isNameStart c then (runThenSemi isNameChar t).map fun r => (.name (c :: r), r.length + 2)
    else none
  | [] => none

def matchRef (t : List Char) : Option (Ref × Nat) :=
  match alt1 t with
  | some r => some r
  | none => match alt2 t with
    | some r => some r
    | none => alt3 t

/-- outcome of `XMLEntityEscaper.unescape` -/
inductive URes where
  | ok (s : List Char)
  | valueError       -- `chr()` arg not in range / int string conversion limit
  | overflowError    -- `chr()`: Python int too large to convert to C int
  | surrogate        -- returned a `str` containing a lone surrogate (outside `List Char`)
deriving Repr, DecidableEq

def URes.cons (c : Char) : URes → URes
  | .ok s => .ok (c :: s)
  | r => r
def URes.surr : URes → URes
  | .ok _ => .surrogate
  | r => r

/-- `__unescape`: the code point of a matched reference, or the exception `int()`/`chr()` raise -/
def refCode : Ref → Except URes Nat
  | .dec ds =>
    if ds.length > 4300 then .error .valueError
    else
      let n := ds.foldl (fun a d => 10 * a + digitVal d) 0
      if n ≥ 2147483648 then .error .overflowError
      else if n > 0x10FFFF then .error .valueError else .ok n
  | .hex hs =>
    let n := hs.foldl (fun a d => 16 * a + hexRefVal d) 0
    if n ≥ 2147483648 then .error .overflowError
    else if n > 0x10FFFF then .error .valueError else .ok n
  | .name nm => .ok ((assoc nm name2codepoint).getD 0xFFFD)

def isSurrogate (n : Nat) : Bool := 0xD800 ≤ n && n ≤ 0xDFFF

/-- `self.__characterrefs.sub(self.__unescape, text)`: leftmost non-overlapping matches, the replacement
function runs left to right (so the leftmost exception is the one raised). -/
def unescRefGo : Nat → List Char → URes
  | _, [] => .ok []
  | n + 1, _ :: cs => unescRefGo n cs
  | 0, c :: cs =>
    if c = '&' then
      match matchRef cs with
      | some (r, len) =>
        match refCode r with
        | .error e => e
        | .ok n => if isSurrogate n then (unescRefGo len cs).surr else (unescRefGo len cs).cons (Char.ofNat n)
      | none => (unescRefGo 0 cs).cons c
    else (unescRefGo 0 cs).cons c

/-- `html_entities_unescape` -/
def entityUnescape (s : List Char) : URes := unescRefGo 0 s

/-- `"%X" % n` (fuel `n` always suffices) -/
def hexGo : Nat → Nat → List Char → List Char
  | 0, n, acc => hexUpper (n % 16) :: acc
  | f + 1, n, acc => if n < 16 then hexUpper n :: acc else hexGo f (n / 16) (hexUpper (n % 16) :: acc)
def hexDigitsUpper (n : Nat) : List Char := hexGo n n []

/-- `"&#x%X;" % codepoint` -/
def numRef (n : Nat) : List Char := '&' :: '#' :: 'x' :: hexDigitsUpper n ++ [';']

/-- `XMLEntityEscaper.__escapable` = `["&<>]|[^\x00-\x7f]` -/
def isEscapable (c : Char) : Bool := decide (c ∈ xeeEscapable) || decide (c.toNat > xeeAsciiMax)

/-- `XMLEntityEscaper.__escape` applied where `__escapable` matches -/
def xeeEscapeChar (c : Char) : List Char :=
  if isEscapable c then (entityOf c).getD (numRef c.toNat) else [c]

/-- `XMLEntityEscaper.escape` (the result is ASCII text; `.encode("ascii")` makes it `bytes`) -/
def xeeEscape (s : List Char) : List Char := s.flatMap xeeEscapeChar

/-! ## `htmlentityreplace_errors` -/

/-- the replacement text the handler returns for the unencodable slice `ex.object[ex.start:ex.end]`:
`_html_entities_escaper.escape(bad_text).decode("ascii")` – the ASCII bytes of `escape`, as text. -/
def handlerReplace (bad : List Char) : List Char := xeeEscape bad

/-- the codec encodes the replacement text itself; an unencodable character in it raises the original error -/
def flushRun (enc : Char → Bool) (runRev : List Char) : Option (List Char) :=
  if runRev = [] then some []
  else
    let rep := handlerReplace runRev.reverse
    if rep.all enc then some rep else none

/-- `text.encode(charset, "htmlentityreplace")` over an abstract codec: `enc c` = the codec can encode `c`;
`grouped` = the codec reports a maximal run of unencodable characters in one error (ascii, latin-1 and the
charmap codecs do; the multibyte codecs report one character at a time).  The result is the text whose
strict encoding is the bytes produced (encodable characters stand for themselves), `none` = the encode
raises.  First argument: the pending unencodable run, reversed. -/
def handlerGo (enc : Char → Bool) (grouped : Bool) : List Char → List Char → Option (List Char)
  | run, [] => flushRun enc run
  | run, c :: cs =>
    if enc c then
      (flushRun enc run).bind fun a => (handlerGo enc grouped [] cs).map fun b => a ++ c :: b
    else if grouped then handlerGo enc grouped (c :: run) cs
    else
      (flushRun enc (c :: run)).bind fun a => (handlerGo enc grouped [] cs).map fun b => a ++ b

def handlerEncode (enc : Char → Bool) (grouped : Bool) (s : List Char) : Option (List Char) :=
  handlerGo enc grouped [] s

/-! ## `trim`, `Decode` -/

/-- `str.isspace` -/
def isSpace (c : Char) : Bool := decide (c.toNat ∈ spaceChars)

/-- `string.strip()` -/
def trim (s : List Char) : List Char := ((s.dropWhile isSpace).reverse.dropWhile isSpace).reverse

/-- the argument of `decode.<enc>(x)` -/
inductive PyVal where
  | str (s : List Char)
  | bytes (b : List Nat)
  | other (strOf : List Char)     -- any other object; `strOf` is what `str(x)` returns *at the time of this call*
                                  -- (the same object may print differently at the next call: nothing is memoised)

/-- the body of the closure `decode` that `Decode.__getattr__(key)` returns; `codec` is `bytes -> str` for the
encoding `key` the closure captured (`none` = it raises) -/
def decodeFilter (codec : List Nat → Option (List Char)) : PyVal → Option (List Char)
  | .str s => some s
  | .other r => some r          -- `decode(str(x))`, and `str(x)` is a `str`
  | .bytes b => codec b

/-- `Decode` over time.  Every attribute lookup `decode.<key>` creates a *new* closure that captured `key`;
closures are held by generated code / callers for any length of time and called in any order.  The state is the
list of closures created so far (a closure *is* its captured key); `Decode` itself has no state. -/
inductive DecodeOp where
  | lookup (key : List Char)          -- `d_j = decode.<key>` (j = number of lookups before)
  | call (j : Nat) (x : PyVal)        -- `d_j(x)`

abbrev DecodeState := List (List Char)

/-- outcome of one operation: lookups answer nothing; `call` answers the closure's result (`none` = raises),
or `badIndex` for a closure that does not exist (not generated by the harness) -/
inductive DecodeOut where
  | none
  | result (r : Option (List Char))
  | badIndex

def decodeStep (codecs : List Char → List Nat → Option (List Char)) (st : DecodeState) :
    DecodeOp → DecodeState × DecodeOut
  | .lookup key => (st ++ [key], .none)
  | .call j x =>
    match st[j]? with
    | some key => (st, .result (decodeFilter (codecs key) x))
    | none => (st, .badIndex)

/-- run a history; the outcomes in order -/
def decodeRun (codecs : List Char → List Nat → Option (List Char)) : DecodeState → List DecodeOp →
    DecodeState × List DecodeOut
  | st, [] => (st, [])
  | st, op :: ops =>
    let (st1, o) := decodeStep codecs st op
    let (st2, os) := decodeRun codecs st1 ops
    (st2, o :: os)

/-! ## Spec: reference decoders -/
namespace Spec

/-- characters the property forbids in escaped output -/
def markup : List Char := ['<', '>', '"', '\'']

def hexVal (c : Char) : Option Nat :=
  let n := c.toNat
  if 48 ≤ n ∧ n ≤ 57 then some (n - 48)
  else if 65 ≤ n ∧ n ≤ 70 then some (n - 55)
  else if 97 ≤ n ∧ n ≤ 102 then some (n - 87)
  else none

/-- percent/plus decoding (`urllib.parse.unquote_plus`, to bytes): `+` is a space, `%XX` a byte, a `%` not
followed by two hex digits stays, any other character stands for its UTF-8 bytes. -/
def unquoteGo : Nat → List Char → List Nat
  | _, [] => []
  | n + 1, _ :: cs => unquoteGo n cs
  | 0, c :: cs =>
    if c = '+' then 0x20 :: unquoteGo 0 cs
    else if c = '%' then
      match cs with
      | h1 :: h2 :: _ =>
        match hexVal h1, hexVal h2 with
        | some a, some b => (16 * a + b) :: unquoteGo 2 cs
        | _, _ => 0x25 :: unquoteGo 0 cs
      | _ => 0x25 :: unquoteGo 0 cs
    else utf8EncodeChar c ++ unquoteGo 0 cs

def unquotePlus (s : List Char) : List Nat := unquoteGo 0 s

def isCont (b : Nat) : Bool := 0x80 ≤ b && b < 0xC0

/-- strict UTF-8 decoding (no overlong forms, no surrogates, nothing above U+10FFFF); the counter is the number
of continuation bytes of the current character still to be skipped -/
def utf8DecodeGo : Nat → List Nat → Option (List Char)
  | _, [] => some []
  | n + 1, _ :: bs => utf8DecodeGo n bs
  | 0, b0 :: rest =>
    if b0 < 0x80 then (utf8DecodeGo 0 rest).map (Char.ofNat b0 :: ·)
    else if 0xC2 ≤ b0 ∧ b0 < 0xE0 then
      match rest with
      | b1 :: _ =>
        if isCont b1 then (utf8DecodeGo 1 rest).map (Char.ofNat ((b0 - 0xC0) * 64 + (b1 - 0x80)) :: ·) else none
      | _ => none
    else if 0xE0 ≤ b0 ∧ b0 < 0xF0 then
      match rest with
      | b1 :: b2 :: _ =>
        let n := (b0 - 0xE0) * 4096 + (b1 - 0x80) * 64 + (b2 - 0x80)
        if isCont b1 ∧ isCont b2 ∧ 0x800 ≤ n ∧ ¬ (0xD800 ≤ n ∧ n ≤ 0xDFFF) then
          (utf8DecodeGo 2 rest).map (Char.ofNat n :: ·) else none
      | _ => none
    else if 0xF0 ≤ b0 ∧ b0 < 0xF5 then
      match rest with
      | b1 :: b2 :: b3 :: _ =>
        let n := (b0 - 0xF0) * 262144 + (b1 - 0x80) * 4096 + (b2 - 0x80) * 64 + (b3 - 0x80)
        if isCont b1 ∧ isCont b2 ∧ isCont b3 ∧ 0x10000 ≤ n ∧ n ≤ 0x10FFFF then
          (utf8DecodeGo 3 rest).map (Char.ofNat n :: ·) else none
      | _ => none
    else none

def utf8Decode (b : List Nat) : Option (List Char) := utf8DecodeGo 0 b

/-- `%XX…` decoded as UTF-8: the inverse the property names for `u` -/
def urlUnescape (s : List Char) : Option (List Char) := utf8Decode (unquotePlus s)

def validCode (n : Nat) : Bool := n < 0xD800 || (0xDFFF < n && n < 0x110000)

/-- A standard decoder of *one* character reference (what `html.unescape` does with it): `&name;` through
`html.entities.name2codepoint`, `&#D+;` decimal, `&#xH+;` hexadecimal in either case. -/
def decodeRef (r : List Char) : Option Char :=
  match r with
  | '&' :: '#' :: t =>
    let body := t.dropLast
    if t.getLast? ≠ some ';' then none
    else match body with
      | c :: hs =>
        if c = 'x' ∨ c = 'X' then
          if hs ≠ [] ∧ hs.all (fun h => (hexVal h).isSome) then
            let n := hs.foldl (fun a h => 16 * a + (hexVal h).getD 0) 0
            if validCode n then some (Char.ofNat n) else none
          else none
        else
          if body.all (fun d => 48 ≤ d.toNat ∧ d.toNat ≤ 57) then
            let n := body.foldl (fun a d => 10 * a + (d.toNat - 48)) 0
            if validCode n then some (Char.ofNat n) else none
          else none
      | [] => none
  | '&' :: t =>
    if t.getLast? ≠ some ';' then none
    else match assoc t.dropLast name2codepoint with
      | some n => if validCode n then some (Char.ofNat n) else none
      | none => none
  | _ => none

/-- the characters `quote_plus` leaves alone: `A-Z a-z 0-9 _ . - ~` -/
def isUrlSafeChar (c : Char) : Bool :=
  let n := c.toNat
  (0x41 ≤ n && n ≤ 0x5A) || (0x61 ≤ n && n ≤ 0x7A) || (0x30 ≤ n && n ≤ 0x39) ||
  c == '_' || c == '.' || c == '-' || c == '~'

/-- `0-9 A-F` -/
def isHexUpperChar (c : Char) : Bool := (48 ≤ c.toNat && c.toNat ≤ 57) || (65 ≤ c.toNat && c.toNat ≤ 70)

/-- `Pieces R s out`: `out` is the concatenation of one piece per character of `s`, in order, each piece related
to its character by `R` -/
inductive Pieces (R : Char → List Char → Prop) : List Char → List Char → Prop where
  | nil : Pieces R [] []
  | cons {c p s o} : R c p → Pieces R s o → Pieces R (c :: s) (p ++ o)

/-- the character has a named HTML entity / `n` is its name -/
def HasEntity (c : Char) : Prop := ∃ n, (c.toNat, n) ∈ codepoint2name

/-- the reference the handler computes for an unencodable character (`XMLEntityEscaper.escape` on it) -/
abbrev charRef (c : Char) : List Char := xeeEscapeChar c

/-- FULL statement of the property for the handler: each unencodable character is replaced by its reference,
everything else is unchanged (the output is the text whose strict encoding the codec then emits). -/
def HandlerFaithful (enc : Char → Bool) (grouped : Bool) (s : List Char) : Prop :=
  handlerEncode enc grouped s = some (s.flatMap fun c => if enc c then [c] else charRef c)

/-- the charsets of the closures a history creates, in order of creation -/
def lookupsOf : List DecodeOp → List (List Char)
  | [] => []
  | .lookup key :: ops => key :: lookupsOf ops
  | .call _ _ :: ops => lookupsOf ops

end Spec

end MakoModel.Filters
