import MakoModel.Target.Model
/-!
# Well-shaped target code

`WS s`: `s` is a statement of the kind the code generator emits *inside* a render callable – any mixture of
writes, expression statements, control structures, `return/break/continue/raise`, closure definitions, and the
three composite shapes that touch the runtime stacks (loop with `LoopContext`, `<%text filter>`, `<%call>`).
`WF b`: `b` is the body of a render callable – one of the `write_def_finish` shapes around a well-shaped body.
Both are syntactic; `Codegen/Lemmas.lean` shows that `codegen` only produces such code, `Target/Lemmas.lean` that
such code is exception-balanced.
-/
namespace MakoModel.Target

/-- a prologue: closure definitions only -/
def isDefs : Stmt → Bool
  | .skip => true
  | .seq a b => isDefs a && isDefs b
  | .defn _ _ _ _ => true
  | _ => false

mutual
inductive WS : Stmt → Prop
  | skip : WS .skip
  | write (e) : WS (.write e)
  | exprStmt (e) : WS (.exprStmt e)
  | seq {a b} : WS a → WS b → WS (.seq a b)
  | ite (c) {t e} : WS t → WS e → WS (.ite c t e)
  | forIn (x items) {b} : WS b → WS (.forIn x items b)
  | whileLt (m) {b} : WS b → WS (.whileLt m b)
  | tryExcept {b h} : WS b → WS h → WS (.tryExcept b h)
  | ret (e) : WS (.ret e)
  | brk : WS .brk
  | cont : WS .cont
  | raise (k) : WS (.raise k)
  | defn (name ps fl) {b} : WF b → WS (.defn name ps fl b)
  /-- `loop = __M_loop._enter(…)`, `try: for x in loop: … finally: loop = __M_loop._exit()` -/
  | loopBlock (ok items x) {b} : WS b →
      WS (.seq (.loopEnter ok items) (.tryFinally (.forLoop x b) (.prim .loopExit)))
  /-- `__M_writer = context._push_writer()`, `try: … finally: __M_buf, __M_writer = context._pop_buffer_and_writer();
      __M_writer(filter(__M_buf.getvalue()))` -/
  | textTag {b} (e) : WS b →
      WS (.seq (.prim .pushWriter) (.tryFinally b (.seq (.prim .popBufferAndWriter) (.write e))))
  /-- `__M_nextcaller = nextcaller`, `nextcaller = Namespace(ccall(__M_caller))`,
      `try: __M_writer(expr) finally: nextcaller = __M_nextcaller` -/
  | callTag {d} (e) : WS d →
      WS (.seq (.prim .saveNextCaller)
            (.seq (.setNextCaller d) (.tryFinally (.write e) (.prim .restoreNextCaller))))

inductive WF : Stmt → Prop
  /-- not buffered, filtered or cached -/
  | plain {pre r} : WS pre → isDefs pre = true → WS r →
      WF (.seq (.prim .pushFrame)
            (.tryFinally (.seq (.seq pre (.prim .getWriter)) r) (.prim .popFrame)))
  /-- buffered or cached -/
  | buffered {pre b} (e) : WS pre → isDefs pre = true → WS b →
      WF (.seq (.prim .pushFrame)
            (.seq (.tryFinally (.seq (.prim .pushBuffer) (.seq (.seq pre (.prim .getWriter)) b))
                               (.seq (.prim .popBuffer) (.prim .popFrame)))
                  (.ret e)))
  /-- filtered -/
  | filtered {pre b r} : WS pre → isDefs pre = true → WS b → WS r →
      WF (.seq (.prim .pushFrame)
            (.seq (.tryFinally (.seq (.prim .pushBuffer) (.seq (.seq pre (.prim .getWriter)) b))
                               (.seq (.prim .popBufferAndWriter) (.prim .popFrame)))
                  r))
  /-- no frame of its own: `body()` of a `<%call>`, the replacement callable of a cached def -/
  | bare {pre r} : WS pre → isDefs pre = true → WS r →
      WF (.seq (.seq pre (.prim .getWriter)) r)
end

def FunOK (f : Fun) : Prop := WF f.body

def FunsOK (fs : List (Name × Fun)) : Prop := ∀ p ∈ fs, FunOK p.2

def NSOK (ns : NS) : Prop := ∀ layer ∈ ns, FunsOK layer.funs

structure LocOK (l : Loc) : Prop where
  funs : ∀ p ∈ l.funs, FunOK p.2.fn ∧ NSOK p.2.lex
  caller : NSOK l.caller
  lexc : NSOK l.lexc

structure StOK (σ : St) : Prop where
  frames : ∀ f ∈ σ.frames, NSOK f
  next : NSOK σ.next

structure CfgOK (c : Cfg) : Prop where
  body : ∀ m ∈ c.prog, FunOK m.body
  defs : ∀ m ∈ c.prog, FunsOK m.defs

end MakoModel.Target
