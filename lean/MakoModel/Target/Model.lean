/-!
# L5/L6 – the target language of mako's code generator and the runtime stacks

A structured mini-Python: exactly the statements `mako/codegen.py` emits for text, expressions, control
lines, defs, blocks, `<%call>`, `<%text>`, `capture`, includes – with one primitive per runtime call the
generated code makes (`context.caller_stack._push_frame()`, `context._push_buffer()`, …) – and a big-step
semantics `exec` over the runtime state of `mako/runtime.py`:

* `St.bufs`   – `Context._buffer_stack` (top first).  Every buffer has an identity (`id`); `__M_writer` is a
  *local variable holding a buffer identity* (`Loc.writer`), so a write through a stale writer goes to the
  stale buffer, as in Python.
* `St.frames`, `St.next` – `CallerStack` (a list) and `CallerStack.nextcaller`.
* `St.loops`  – the `LoopStack.stack` of the current render callable (`__M_loop`); a callable that creates its
  own `LoopStack` (`ownLoops`) gets a fresh one for its activation.
* `St.cnt`    – global counter of *evaluation points*; the exception oracle: the evaluation point whose
  number equals the crash point `k` raises (`boom`, filter functions, decorators, `while` conditions).

All functions are total: `exec`/`eval` recurse structurally on a fuel argument; `Outcome.timeout` is the
out-of-fuel result (never caught, never produced by real code).

Scoping: variables are strings; a callee sees its caller's variables and closures (dynamic chain).  For
templates in which every binder has its own name and no def is recursive this coincides with Python's
lexical scoping of the generated closures (this is the class the generator `harness/gen_template.py` emits).
-/
namespace MakoModel.Target

abbrev Str := List Char
abbrev Name := Nat

/-- expression micro-language -/
inductive Expr
  | lit (s : Str)
  | var (x : Name)
  | cat (a b : Expr)
  | call (f : Name) (args : List Expr)          -- `f(args)`: local closure, else top-level def of the module
  | callerCall (name : Name) (args : List Expr) -- `caller.<name>(args)`; name 0 is `body`
  | capture (f : Name) (args : List Expr)       -- `capture(f, args)`
  | boom                                        -- evaluation point: raises iff counter = k, else ''
  | filt (i : Nat) (e : Expr)                   -- filter function number i applied to e (an evaluation point)
  | loopIndex                                   -- `loop.index`
  | mbuf                                        -- `__M_buf.getvalue()`
  | includeFile (i : Nat)                       -- `runtime._include_file(context, <template i>, …)`
  | probe                                       -- observes the stack depths: "bufs.frames.nextcaller?"
  deriving Repr, Inhabited

/-- one primitive per runtime call of the generated code -/
inductive Prim
  | pushFrame          -- `__M_caller = context.caller_stack._push_frame()`
  | popFrame           -- `context.caller_stack._pop_frame()`
  | pushBuffer         -- `context._push_buffer()`
  | popBuffer          -- `__M_buf = context._pop_buffer()`
  | popBufferAndWriter -- `__M_buf, __M_writer = context._pop_buffer_and_writer()`
  | pushWriter         -- `__M_writer = context._push_writer()`
  | getWriter          -- `__M_writer = context.writer()`
  | saveNextCaller     -- `__M_nextcaller = context.caller_stack.nextcaller`
  | restoreNextCaller  -- `context.caller_stack.nextcaller = __M_nextcaller`
  | loopExit           -- `loop = __M_loop._exit()`
  deriving DecidableEq, Repr, Inhabited

structure FunFlags where
  ownLoops : Bool   -- the callable starts with `loop = __M_loop = runtime.LoopStack()`
  deco : Bool       -- `decorator=` present (the decorator is an evaluation point before and after the call)
  lex : Bool        -- `caller` is a closure variable of an enclosing `ccall(caller)` (not `context.get('caller')`)
  deriving DecidableEq, Repr, Inhabited

inductive Stmt
  | skip
  | write (e : Expr)                                   -- `__M_writer(e)`
  | exprStmt (e : Expr)
  | seq (a b : Stmt)
  | ite (c : Expr) (t e : Stmt)
  | forIn (x : Name) (items : List Expr) (body : Stmt) -- `for x in [items]:`
  | forLoop (x : Name) (body : Stmt)                   -- `for x in loop:` (iterates the top LoopContext)
  | whileLt (n : Nat) (body : Stmt)                    -- `while below(n):`  (the test is an evaluation point)
  | tryExcept (b h : Stmt)
  | tryFinally (b f : Stmt)
  | ret (e : Expr)
  | brk
  | cont
  | raise (code : Nat)
  | prim (p : Prim)
  | loopEnter (ok : Bool) (items : List Expr)          -- `loop = __M_loop._enter([items])`; `ok = false`: no
                                                       -- `__M_loop` is in scope (NameError before anything else)
  | defn (name : Name) (params : List Name) (fl : FunFlags) (body : Stmt)
  | setNextCaller (defs : Stmt)   -- `context.caller_stack.nextcaller = Namespace('caller', context, callables=ccall(__M_caller))`
  deriving Repr, Inhabited

structure Fun where
  params : List Name
  fl : FunFlags
  body : Stmt
  deriving Repr, Inhabited

/-- the callables of one `ccall(caller)`; the `caller` they closed over is the rest of the chain -/
structure Layer where
  funs : List (Name × Fun)
  mod : Nat
  deriving Repr, Inhabited

/-- a `caller` namespace: `[]` is `None`; `layer :: tl` is `Namespace('caller', callables=ccall(tl))` -/
abbrev NS := List Layer

structure LoopCtx where
  items : List Str
  index : Nat
  deriving Repr, Inhabited

structure St where
  bufs : List (Nat × Str)   -- buffer stack, top first: (identity, content in write order)
  nextId : Nat
  frames : List NS          -- caller stack, top first
  next : NS                 -- nextcaller
  loops : List LoopCtx      -- top first
  cnt : Nat
  deriving Repr, Inhabited

/-- a closure of the local scope: the function, the lexical `caller` it captured, its module -/
structure Clo where
  fn : Fun
  lex : NS
  mod : Nat
  deriving Repr, Inhabited

/-- locals of one activation -/
structure Loc where
  vars : List (Name × Str)
  funs : List (Name × Clo)
  writer : Nat      -- `__M_writer`: identity of the buffer it writes to
  mbuf : Str        -- `__M_buf.getvalue()`
  caller : NS       -- `__M_caller`
  lexc : NS         -- the closure variable `caller`, when the scope has one
  savedNext : NS    -- `__M_nextcaller`: the pending caller saved by a `<%call>` of this activation
  useLex : Bool
  mod : Nat
  deriving Repr, Inhabited

structure Module where
  body : Fun
  defs : List (Name × Fun)
  ieh : Option Bool         -- include_error_handler present? its return value
  deriving Repr, Inhabited

structure Cfg where
  prog : List Module
  k : Nat                   -- crash point
  deriving Repr, Inhabited

inductive Outcome
  | normal | ret (v : Str) | brk | cont | exc (e : Nat) | timeout
  deriving DecidableEq, Repr, Inhabited

inductive VRes
  | val (v : Str) | exc (e : Nat) | timeout
  deriving DecidableEq, Repr, Inhabited

inductive ARes
  | vals (vs : List Str) | exc (e : Nat) | timeout
  deriving DecidableEq, Repr, Inhabited

/-! exception codes -/
def excBoom : Nat := 0        -- raised by an evaluation point
def excName : Nat := 1        -- NameError / unknown def
def excNoCaller : Nat := 2    -- AttributeError: `None.body`, or the namespace has no such callable
def excNoLoop : Nat := 3      -- RuntimeException "No loop context is established"
def excIndex : Nat := 4       -- IndexError: pop from an empty stack
def excSyntax : Nat := 5      -- break/continue outside a loop
def excArity : Nat := 6       -- TypeError: wrong number of arguments

def natStr (n : Nat) : Str := (toString n).toList

/-- the filter function number `i` -/
def wrap (i : Nat) (v : Str) : Str := natStr i ++ '(' :: v ++ [')']

def lookup {α} (x : Name) : List (Name × α) → Option α
  | [] => none
  | (y, a) :: r => if x = y then some a else lookup x r

def zipArgs : List Name → List Str → Option (List (Name × Str))
  | [], [] => some []
  | p :: ps, v :: vs => (zipArgs ps vs).map ((p, v) :: ·)
  | _, _ => none

/-- write through a writer: appends to the buffer with that identity, wherever it is; lost if it is gone -/
def writeTo (id : Nat) (v : Str) : List (Nat × Str) → List (Nat × Str)
  | [] => []
  | (i, c) :: r => if i = id then (i, c ++ v) :: r else (i, c) :: writeTo id v r

/-- `context.write`: append to the top buffer -/
def writeTop (v : Str) : List (Nat × Str) → List (Nat × Str)
  | [] => []
  | (i, c) :: r => (i, c ++ v) :: r

/-- the `def`s of a `ccall` body -/
def collectDefs : Stmt → List (Name × Fun)
  | .seq a b => collectDefs a ++ collectDefs b
  | .defn n ps fl b => [(n, ⟨ps, fl, b⟩)]
  | _ => []

def tick (k : Nat) (σ : St) : Bool × St := (σ.cnt == k, { σ with cnt := σ.cnt + 1 })

def bumpTop : List LoopCtx → List LoopCtx
  | [] => []
  | lc :: r => { lc with index := lc.index + 1 } :: r

/-- the callables of a `ccall` as closures over its `caller` argument -/
def layerClos (layer : Layer) (tl : NS) : List (Name × Clo) :=
  layer.funs.map fun p => (p.1, ⟨p.2, tl, layer.mod⟩)

def probeStr (σ : St) : Str :=
  natStr σ.bufs.length ++ '.' :: natStr σ.frames.length ++ ['.', if σ.next.isEmpty then '0' else '1']

/-- the decorator's evaluation point after the decorated callable returned -/
def decoPost (k : Nat) (deco : Bool) (σ : St) (v : Str) : VRes × St :=
  if deco then
    match tick k σ with
    | (true, σ1) => (.exc excBoom, σ1)
    | (false, σ1) => (.val v, σ1)
  else (.val v, σ)

def resolve (c : Cfg) (l : Loc) (f : Name) : Option Clo :=
  match lookup f l.funs with
  | some clo => some clo
  | none => match c.prog[l.mod]? with
    | none => none
    | some m => (lookup f m.defs).map fun fn => ⟨fn, [], l.mod⟩

def execPrim (p : Prim) (l : Loc) (σ : St) : Outcome × Loc × St :=
  match p with
  | .pushFrame => (.normal, { l with caller := σ.next }, { σ with frames := σ.next :: σ.frames, next := [] })
  | .popFrame => match σ.frames with
    | [] => (.exc excIndex, l, σ)
    | f :: r => (.normal, l, { σ with frames := r, next := f })
  | .pushBuffer => (.normal, l, { σ with bufs := (σ.nextId, []) :: σ.bufs, nextId := σ.nextId + 1 })
  | .pushWriter => (.normal, { l with writer := σ.nextId },
      { σ with bufs := (σ.nextId, []) :: σ.bufs, nextId := σ.nextId + 1 })
  | .getWriter => match σ.bufs with
    | [] => (.exc excIndex, l, σ)
    | (i, _) :: _ => (.normal, { l with writer := i }, σ)
  | .popBuffer => match σ.bufs with
    | [] => (.exc excIndex, l, σ)
    | (_, c) :: r => (.normal, { l with mbuf := c }, { σ with bufs := r })
  | .popBufferAndWriter => match σ.bufs with
    | [] => (.exc excIndex, l, σ)
    | [_] => (.exc excIndex, l, { σ with bufs := [] })
    | (_, c) :: (j, c2) :: r => (.normal, { l with mbuf := c, writer := j }, { σ with bufs := (j, c2) :: r })
  | .saveNextCaller => (.normal, { l with savedNext := σ.next }, σ)
  | .restoreNextCaller => (.normal, l, { σ with next := l.savedNext })
  | .loopExit => match σ.loops with
    | [] => (.exc excIndex, l, σ)
    | _ :: r => (.normal, l, { σ with loops := r })

mutual

/-- expression evaluation (calls run whole render callables) -/
def eval (c : Cfg) : Nat → Expr → Loc → St → VRes × St
  | 0, _, _, σ => (.timeout, σ)
  | n + 1, e, l, σ =>
    match e with
    | .lit s => (.val s, σ)
    | .var x => match lookup x l.vars with
      | some v => (.val v, σ)
      | none => (.exc excName, σ)
    | .cat a b => match eval c n a l σ with
      | (.val va, σ1) => match eval c n b l σ1 with
        | (.val vb, σ2) => (.val (va ++ vb), σ2)
        | r => r
      | r => r
    | .boom => match tick c.k σ with
      | (true, σ1) => (.exc excBoom, σ1)
      | (false, σ1) => (.val [], σ1)
    | .filt i e => match eval c n e l σ with
      | (.val v, σ1) => match tick c.k σ1 with
        | (true, σ2) => (.exc excBoom, σ2)
        | (false, σ2) => (.val (wrap i v), σ2)
      | r => r
    | .loopIndex => match σ.loops with
      | [] => (.exc excNoLoop, σ)
      | lc :: _ => (.val (natStr lc.index), σ)
    | .mbuf => (.val l.mbuf, σ)
    | .probe => (.val (probeStr σ), σ)
    | .call f args => match resolve c l f with
      | none => (.exc excName, σ)
      | some clo => match evalArgs c n args l σ with
        | (.vals vs, σ1) => invoke c n clo vs l σ1
        | (.exc e, σ1) => (.exc e, σ1)
        | (.timeout, σ1) => (.timeout, σ1)
    | .callerCall name args =>
      -- `caller` is either the closure variable or `context['caller']` = the caller stack, whose
      -- attribute access goes to its top frame
      let ns? : Option NS := if l.useLex then some l.lexc else σ.frames.head?
      match ns? with
      | none => (.exc excIndex, σ)
      | some [] => (.exc excNoCaller, σ)
      | some (layer :: tl) => match lookup name layer.funs with
        | none => (.exc excNoCaller, σ)
        | some fn => match evalArgs c n args l σ with
          | (.vals vs, σ1) =>
            invoke c n ⟨fn, tl, layer.mod⟩ vs { l with funs := layerClos layer tl ++ l.funs } σ1
          | (.exc e, σ1) => (.exc e, σ1)
          | (.timeout, σ1) => (.timeout, σ1)
    | .capture f args => match resolve c l f with
      | none => (.exc excName, σ)
      | some clo => match evalArgs c n args l σ with
        | (.vals vs, σ1) =>
          let σ2 := { σ1 with bufs := (σ1.nextId, []) :: σ1.bufs, nextId := σ1.nextId + 1 }
          match invoke c n clo vs l σ2 with
          | (r, σ3) => match σ3.bufs with
            | [] => (match r with | .timeout => .timeout | _ => .exc excIndex, σ3)
            | (_, content) :: rest =>
              let σ4 := { σ3 with bufs := rest }
              match r with
              | .val _ => (.val content, σ4)
              | r => (r, σ4)
        | (.exc e, σ1) => (.exc e, σ1)
        | (.timeout, σ1) => (.timeout, σ1)
    | .includeFile i => match c.prog[i]? with
      | none => (.exc excName, σ)
      | some m =>
        let r := invoke c n ⟨m.body, [], i⟩ [] { l with funs := [] } σ
        match m.ieh, r with
        | some b, (.exc e, σ1) =>
          -- the handler is handed the context: it writes a marker and returns `b`
          let σ2 := { σ1 with bufs := writeTop ['[', 'H', ']'] σ1.bufs }
          if b then (.val [], σ2) else (.exc e, σ2)
        | _, r => r

def evalArgs (c : Cfg) : Nat → List Expr → Loc → St → ARes × St
  | 0, _, _, σ => (.timeout, σ)
  | _ + 1, [], _, σ => (.vals [], σ)
  | n + 1, e :: es, l, σ => match eval c n e l σ with
    | (.val v, σ1) => match evalArgs c n es l σ1 with
      | (.vals vs, σ2) => (.vals (v :: vs), σ2)
      | r => r
    | (.exc e, σ1) => (.exc e, σ1)
    | (.timeout, σ1) => (.timeout, σ1)

/-- call of a render callable: new activation; decorator evaluation points; own loop stack -/
def invoke (c : Cfg) : Nat → Clo → List Str → Loc → St → VRes × St
  | 0, _, _, _, σ => (.timeout, σ)
  | n + 1, clo, vs, l, σ =>
    match zipArgs clo.fn.params vs with
    | none => (.exc excArity, σ)
    | some bound =>
      let l' : Loc := { vars := bound ++ l.vars, funs := l.funs, writer := l.writer, mbuf := [],
                        caller := clo.lex, lexc := clo.lex, savedNext := [], useLex := clo.fn.fl.lex, mod := clo.mod }
      let pre : Bool × St := if clo.fn.fl.deco then tick c.k σ else (false, σ)
      match pre with
      | (true, σ0) => (.exc excBoom, σ0)
      | (false, σ0) =>
        let σ1 := if clo.fn.fl.ownLoops then { σ0 with loops := [] } else σ0
        match exec c n clo.fn.body l' σ1 with
        | (o, _, σ2) =>
          let σ3 := if clo.fn.fl.ownLoops then { σ2 with loops := σ0.loops } else σ2
          match o with
          | .timeout => (.timeout, σ3)
          | .exc e => (.exc e, σ3)
          | .brk => (.exc excSyntax, σ3)
          | .cont => (.exc excSyntax, σ3)
          | .normal => decoPost c.k clo.fn.fl.deco σ3 ['N', 'o', 'n', 'e']
          | .ret v => decoPost c.k clo.fn.fl.deco σ3 v

/-- statements -/
def exec (c : Cfg) : Nat → Stmt → Loc → St → Outcome × Loc × St
  | 0, _, l, σ => (.timeout, l, σ)
  | n + 1, s, l, σ =>
    match s with
    | .skip => (.normal, l, σ)
    | .write e => match eval c n e l σ with
      | (.val v, σ1) => (.normal, l, { σ1 with bufs := writeTo l.writer v σ1.bufs })
      | (.exc e, σ1) => (.exc e, l, σ1)
      | (.timeout, σ1) => (.timeout, l, σ1)
    | .exprStmt e => match eval c n e l σ with
      | (.val _, σ1) => (.normal, l, σ1)
      | (.exc e, σ1) => (.exc e, l, σ1)
      | (.timeout, σ1) => (.timeout, l, σ1)
    | .seq a b => match exec c n a l σ with
      | (.normal, l1, σ1) => exec c n b l1 σ1
      | r => r
    | .ite cnd t e => match eval c n cnd l σ with
      | (.val v, σ1) => if v.isEmpty then exec c n e l σ1 else exec c n t l σ1
      | (.exc e, σ1) => (.exc e, l, σ1)
      | (.timeout, σ1) => (.timeout, l, σ1)
    | .forIn x items body => match evalArgs c n items l σ with
      | (.vals vs, σ1) => forIter c n x vs body false l σ1
      | (.exc e, σ1) => (.exc e, l, σ1)
      | (.timeout, σ1) => (.timeout, l, σ1)
    | .forLoop x body => match σ.loops with
      | [] => (.exc excNoLoop, l, σ)
      | lc :: _ => forIter c n x lc.items body true l σ
    | .whileLt m body => match tick c.k σ with
      | (true, σ1) => (.exc excBoom, l, σ1)
      | (false, σ1) =>
        if σ.cnt < m then
          match exec c n body l σ1 with
          | (.normal, l2, σ2) => exec c n (.whileLt m body) l2 σ2
          | (.cont, l2, σ2) => exec c n (.whileLt m body) l2 σ2
          | (.brk, l2, σ2) => (.normal, l2, σ2)
          | r => r
        else (.normal, l, σ1)
    | .tryExcept b h => match exec c n b l σ with
      | (.exc _, l1, σ1) => exec c n h l1 σ1
      | r => r
    | .tryFinally b f => match exec c n b l σ with
      | (.timeout, l1, σ1) => (.timeout, l1, σ1)
      | (o, l1, σ1) => match exec c n f l1 σ1 with
        | (.normal, l2, σ2) => (o, l2, σ2)
        | r => r
    | .ret e => match eval c n e l σ with
      | (.val v, σ1) => (.ret v, l, σ1)
      | (.exc e, σ1) => (.exc e, l, σ1)
      | (.timeout, σ1) => (.timeout, l, σ1)
    | .brk => (.brk, l, σ)
    | .cont => (.cont, l, σ)
    | .raise code => (.exc code, l, σ)
    | .prim p => execPrim p l σ
    | .loopEnter false _ => (.exc excName, l, σ)
    | .loopEnter true items => match evalArgs c n items l σ with
      | (.vals vs, σ1) => (.normal, l, { σ1 with loops := ⟨vs, 0⟩ :: σ1.loops })
      | (.exc e, σ1) => (.exc e, l, σ1)
      | (.timeout, σ1) => (.timeout, l, σ1)
    | .defn name ps fl body =>
      (.normal, { l with funs := (name, ⟨⟨ps, fl, body⟩, if l.useLex then l.lexc else [], l.mod⟩) :: l.funs }, σ)
    | .setNextCaller defs =>
      (.normal, l, { σ with next := ⟨collectDefs defs, l.mod⟩ :: l.caller })

/-- the iterations of a `for`; `ctx`: the loop runs over the top `LoopContext`, whose index advances -/
def forIter (c : Cfg) : Nat → Name → List Str → Stmt → Bool → Loc → St → Outcome × Loc × St
  | 0, _, _, _, _, l, σ => (.timeout, l, σ)
  | _ + 1, _, [], _, _, l, σ => (.normal, l, σ)
  | n + 1, x, v :: vs, body, ctx, l, σ =>
    match exec c n body { l with vars := (x, v) :: l.vars } σ with
    | (.normal, l1, σ1) => forIter c n x vs body ctx l1 (if ctx then { σ1 with loops := bumpTop σ1.loops } else σ1)
    | (.cont, l1, σ1) => forIter c n x vs body ctx l1 (if ctx then { σ1 with loops := bumpTop σ1.loops } else σ1)
    | (.brk, l1, σ1) => (.normal, l1, σ1)
    | r => r

end

/-! ## Rendering a template: `_render`, `_exec_template`, `_render_error` -/

def St.init : St := { bufs := [(0, [])], nextId := 1, frames := [], next := [], loops := [], cnt := 0 }

def Loc.init (mod : Nat) : Loc :=
  { vars := [], funs := [], writer := 0, mbuf := [], caller := [], lexc := [], savedNext := [], useLex := false, mod := mod }

/-- `callable_(context, …)` of template 0, from a given state -/
def runBody (c : Cfg) (fuel : Nat) (σ : St) : VRes × St :=
  match c.prog[0]? with
  | none => (.exc excName, σ)
  | some m => invoke c fuel ⟨m.body, [], 0⟩ [] (Loc.init 0) σ

/-- options of the `Template` -/
structure Opts where
  errorHandler : Option Bool   -- error_handler present? its return value
  formatExceptions : Bool
  deriving DecidableEq, Repr, Inhabited

def errorPage (e : Nat) : Str := "ERROR-PAGE:".toList ++ natStr e

/-- `_exec_template` + `_render_error` -/
def execTemplate (c : Cfg) (o : Opts) (fuel : Nat) (σ : St) : VRes × St :=
  if o.formatExceptions || o.errorHandler.isSome then
    match runBody c fuel σ with
    | (.exc e, σ1) =>
      match o.errorHandler with
      | some true => (.val [], σ1)           -- handler returned true: swallowed
      | some false => (.exc e, σ1)           -- re-raised: the same exception
      | none =>
        -- format_exceptions: the buffer stack is *replaced* by one fresh buffer; the error template is
        -- rendered into it
        (.val [], { σ1 with bufs := [(σ1.nextId, errorPage e)], nextId := σ1.nextId + 1 })
    | r => r
  else runBody c fuel σ

/-- `Template.render()`: fresh context; the result is the content of the popped top buffer -/
def render (c : Cfg) (o : Opts) (fuel : Nat) : VRes × Str × St :=
  match execTemplate c o fuel St.init with
  | (r, σ) => (r, (σ.bufs.head?.map (·.2)).getD [], σ)

/-! ## Which exception *object* reaches the caller: `_exec_template`, `_render_error`, `_include_file`

The semantics above identifies an exception with a code.  For "the original exception object propagates
unchanged" the object matters: its identity, its class, its constructor arguments, and whether its class derives
from `Exception` (`_exec_template` has `except Exception:` and a bare `except:`; `_include_file` only the
former). -/

structure ExcObj where
  cls : Nat                 -- the class
  ident : Nat               -- identity of the object
  args : List Nat           -- constructor arguments
  isException : Bool        -- does the class derive from `Exception`?
  deriving DecidableEq, Repr, Inhabited

/-- what `error_handler` / `include_error_handler` is handed -/
inductive HandlerArg
  | inst (e : ExcObj)       -- the exception instance (`compat.exception_as()`)
  | cls (c : Nat)           -- only its class (`sys.exc_info()[0]` in the bare `except:` branch)
  deriving DecidableEq, Repr, Inhabited

/-- what the caller of `render` / `_include_file` observes -/
inductive Seen
  | returned                -- no exception
  | raised (e : ExcObj)     -- this very object is propagating
  deriving DecidableEq, Repr, Inhabited

structure ErrTrace where
  handlerArg : Option HandlerArg
  seen : Seen
  page : Bool               -- an error page was rendered
  deriving DecidableEq, Repr, Inhabited

/-- `_exec_template` + `_render_error`, given that the render callable raised the object `e` -/
def renderErrorObj (o : Opts) (e : ExcObj) : ErrTrace :=
  if o.formatExceptions || o.errorHandler.isSome then
    match o.errorHandler with
    | some b =>
      let arg : HandlerArg := if e.isException then .inst e else .cls e.cls
      -- a false result: `tp, value, tb = sys.exc_info(); raise value.with_traceback(tb)` - the object itself
      ⟨some arg, if b then .returned else .raised e, false⟩
    | none => ⟨none, .returned, true⟩       -- the bare `except:` renders the page for every BaseException
  else ⟨none, .raised e, false⟩

/-- `_include_file`, given that the included template raised `e`: only `except Exception:` -/
def includeErrorObj (ieh : Option Bool) (e : ExcObj) : ErrTrace :=
  match ieh with
  | some b =>
    if e.isException then ⟨some (.inst e), if b then .returned else .raised e, false⟩   -- bare `raise`
    else ⟨none, .raised e, false⟩
  | none => ⟨none, .raised e, false⟩

/-! ## Contexts that share one buffer stack (`Context._copy`, `_locals`, `_clean_inheritance_tokens`)

With `<%inherit>` (and includes, namespaces) the callable runs on a *copy* of the caller's `Context`; the copy
holds the **same list object** in `_buffer_stack`.  `_render_error` must therefore replace the content of that
list in place (`context._buffer_stack[:] = [fresh]`): every alias – in particular the context `_render` pops the
result from – then sees the one fresh buffer with the error page.

This heap model is separate from `exec` / `execTemplate` above, which work on a single `St` (one context, no
copies); it is tied to the implementation by the stream `corr.shared_stack` of the C13 check. -/

/-- a heap of buffer-stack objects; a context refers to one of them -/
structure CtxHeap where
  stacks : List (List (Nat × Str))
  deriving Repr, Inhabited

structure CtxRef where
  stack : Nat               -- which list object `_buffer_stack` is
  deriving DecidableEq, Repr, Inhabited

def CtxHeap.stackOf (h : CtxHeap) (c : CtxRef) : List (Nat × Str) := (h.stacks[c.stack]?).getD []

/-- `Context._copy()`: a new context object, the same `_buffer_stack` list – in this model a context *is* its
    reference to the list, so the copy is the same value; the point of the model is that `renderErrorHeap` updates
    the list object and not the reference -/
def CtxRef.copy (c : CtxRef) : CtxRef := ⟨c.stack⟩

/-- `_render_error` under `format_exceptions`: the list the failing context refers to is emptied and gets one
    fresh buffer holding the page (slice assignment – no new list object) -/
def renderErrorHeap (h : CtxHeap) (failing : CtxRef) (page : Str) : CtxHeap :=
  ⟨h.stacks.set failing.stack [(0, page)]⟩

end MakoModel.Target
