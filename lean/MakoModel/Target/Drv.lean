import MakoModel.Basic.Wire
import MakoModel.Codegen.Model
import MakoModel.Codegen.Spec
import MakoModel.Codegen.RenderLiteral
/-!
Driver handler `tgt`: templates arrive in a prefix wire syntax (one token per field, strings as code
points); answers are the S-expression of the generated module, or the result of running it.

    E ::= L <str> | V n | C E E | F f n E* | K name n E* | P f n E* | B | T i E | I | M | N i | Q
    T ::= nil | seq T T | text <str> | expr E nf f* | if E T T | for x n E* T | while n T | try T T
        | def name np p* FL T | block name anon FL T | call E na a* T | texttag nf f* <str> | inc i
        | ret | brk | cont
    FL ::= buffered nf f* cached deco
-/
namespace MakoModel.Target.Drv
open MakoModel.Wire MakoModel.Target MakoModel.Codegen

abbrev P (α : Type) := List String → Option (α × List String)

def pNat : P Nat
  | t :: r => t.toNat?.map (·, r)
  | [] => none

def pBool : P Bool
  | "1" :: r => some (true, r)
  | "0" :: r => some (false, r)
  | _ => none

def pStr : P Str
  | t :: r => (decStr t).map (·, r)
  | [] => none

def pMany {α} (p : P α) : Nat → P (List α)
  | 0, ts => some ([], ts)
  | n + 1, ts => do
    let (a, r) ← p ts
    let (as, r2) ← pMany p n r
    pure (a :: as, r2)

def pNats : P (List Nat) := fun ts => do
  let (n, r) ← pNat ts
  pMany pNat n r

def pExpr : Nat → P Expr
  | 0, _ => none
  | fuel + 1, ts =>
    match ts with
    | "L" :: r => do let (s, r) ← pStr r; pure (.lit s, r)
    | "V" :: r => do let (n, r) ← pNat r; pure (.var n, r)
    | "C" :: r => do
      let (a, r) ← pExpr fuel r
      let (b, r) ← pExpr fuel r
      pure (.cat a b, r)
    | "F" :: r => do
      let (f, r) ← pNat r
      let (n, r) ← pNat r
      let (as, r) ← pMany (pExpr fuel) n r
      pure (.call f as, r)
    | "K" :: r => do
      let (f, r) ← pNat r
      let (n, r) ← pNat r
      let (as, r) ← pMany (pExpr fuel) n r
      pure (.callerCall f as, r)
    | "P" :: r => do
      let (f, r) ← pNat r
      let (n, r) ← pNat r
      let (as, r) ← pMany (pExpr fuel) n r
      pure (.capture f as, r)
    | "B" :: r => some (.boom, r)
    | "T" :: r => do
      let (i, r) ← pNat r
      let (e, r) ← pExpr fuel r
      pure (.filt i e, r)
    | "I" :: r => some (.loopIndex, r)
    | "M" :: r => some (.mbuf, r)
    | "N" :: r => do let (i, r) ← pNat r; pure (.includeFile i, r)
    | "Q" :: r => some (.probe, r)
    | _ => none

def pFlags : P DefFlags := fun ts => do
  let (b, r) ← pBool ts
  let (fs, r) ← pNats r
  let (c, r) ← pBool r
  let (d, r) ← pBool r
  pure ({ buffered := b, filters := fs, cached := c, deco := d }, r)

def pTmpl : Nat → P Tmpl
  | 0, _ => none
  | fuel + 1, ts =>
    match ts with
    | "nil" :: r => some (.nil, r)
    | "seq" :: r => do
      let (a, r) ← pTmpl fuel r
      let (b, r) ← pTmpl fuel r
      pure (.seq a b, r)
    | "text" :: r => do let (s, r) ← pStr r; pure (.text s, r)
    | "expr" :: r => do
      let (e, r) ← pExpr fuel r
      let (fs, r) ← pNats r
      pure (.expr e fs, r)
    | "if" :: r => do
      let (c, r) ← pExpr fuel r
      let (a, r) ← pTmpl fuel r
      let (b, r) ← pTmpl fuel r
      pure (.ite c a b, r)
    | "for" :: r => do
      let (x, r) ← pNat r
      let (n, r) ← pNat r
      let (items, r) ← pMany (pExpr fuel) n r
      let (b, r) ← pTmpl fuel r
      pure (.for_ x items b, r)
    | "while" :: r => do
      let (n, r) ← pNat r
      let (b, r) ← pTmpl fuel r
      pure (.while_ n b, r)
    | "try" :: r => do
      let (a, r) ← pTmpl fuel r
      let (b, r) ← pTmpl fuel r
      pure (.try_ a b, r)
    | "def" :: r => do
      let (name, r) ← pNat r
      let (ps, r) ← pNats r
      let (fl, r) ← pFlags r
      let (b, r) ← pTmpl fuel r
      pure (.def_ name ps fl b, r)
    | "block" :: r => do
      let (name, r) ← pNat r
      let (anon, r) ← pBool r
      let (fl, r) ← pFlags r
      let (b, r) ← pTmpl fuel r
      pure (.block name anon fl b, r)
    | "call" :: r => do
      let (e, r) ← pExpr fuel r
      let (as, r) ← pNats r
      let (b, r) ← pTmpl fuel r
      pure (.call e as b, r)
    | "texttag" :: r => do
      let (fs, r) ← pNats r
      let (s, r) ← pStr r
      pure (.textTag fs s, r)
    | "inc" :: r => do let (i, r) ← pNat r; pure (.include_ i, r)
    | "ret" :: r => some (.ret, r)
    | "brk" :: r => some (.brk, r)
    | "cont" :: r => some (.cont, r)
    | _ => none

/-! S-expressions -/

def sp (xs : List String) : String := "(" ++ " ".intercalate xs ++ ")"

mutual
def showExpr : Expr → String
  | .lit s => sp ["lit", encStr s]
  | .var x => sp ["var", toString x]
  | .cat a b => sp ["cat", showExpr a, showExpr b]
  | .call f as => sp ("call" :: toString f :: showArgs as)
  | .callerCall f as => sp ("caller" :: toString f :: showArgs as)
  | .capture f as => sp ("capture" :: toString f :: showArgs as)
  | .boom => "boom"
  | .filt i e => sp ["filt", toString i, showExpr e]
  | .loopIndex => "loopindex"
  | .mbuf => "mbuf"
  | .includeFile i => sp ["include", toString i]
  | .probe => "probe"
def showArgs : List Expr → List String
  | [] => []
  | e :: es => showExpr e :: showArgs es
end

def showPrim : Prim → String
  | .pushFrame => "pushFrame" | .popFrame => "popFrame" | .pushBuffer => "pushBuffer"
  | .popBuffer => "popBuffer" | .popBufferAndWriter => "popBufferAndWriter" | .pushWriter => "pushWriter"
  | .getWriter => "getWriter" | .saveNextCaller => "saveNextCaller"
  | .restoreNextCaller => "restoreNextCaller" | .loopExit => "loopExit"

def showStmt : Stmt → String
  | .skip => "skip"
  | .write e => sp ["w", showExpr e]
  | .exprStmt e => sp ["x", showExpr e]
  | .seq a b => sp ["seq", showStmt a, showStmt b]
  | .ite c t e => sp ["if", showExpr c, showStmt t, showStmt e]
  | .forIn x items b => sp ["for", toString x, sp ("items" :: showArgs items), showStmt b]
  | .forLoop x b => sp ["forloop", toString x, showStmt b]
  | .whileLt n b => sp ["while", toString n, showStmt b]
  | .tryExcept b h => sp ["tryx", showStmt b, showStmt h]
  | .tryFinally b f => sp ["tryf", showStmt b, showStmt f]
  | .ret e => sp ["ret", showExpr e]
  | .brk => "brk"
  | .cont => "cont"
  | .raise c => sp ["raise", toString c]
  | .prim p => showPrim p
  | .loopEnter ok items => sp ((if ok then "loopenter" else "loopenter!") :: showArgs items)
  | .defn n ps fl b =>
    sp ["def", toString n, sp ("params" :: ps.map toString), encBool fl.ownLoops, encBool fl.deco,
        encBool fl.lex, showStmt b]
  | .setNextCaller d => sp ["nextcaller", showStmt d]

def showFun (nf : Name × Fun) : String :=
  showStmt (.defn nf.1 nf.2.params nf.2.fl nf.2.body)

def showModule (m : Module) : String :=
  sp ("module" :: showFun (0, m.body) :: m.defs.map showFun)

def showVRes : VRes → String
  | .val v => "val:" ++ encStr v
  | .exc e => "exc:" ++ toString e
  | .timeout => "timeout"

def pIeh : P (Option Bool)
  | "n" :: r => some (none, r)
  | "t" :: r => some (some true, r)
  | "f" :: r => some (some false, r)
  | _ => none

def pTmplIeh : P (Tmpl × Option Bool) := fun ts => do
  let (ieh, r) ← pIeh ts
  let (t, r) ← pTmpl r.length r
  pure ((t, ieh), r)

def showSV : Spec.SV → String
  | .val v => "val:" ++ encStr v
  | .exc e => "exc:" ++ toString e
  | .timeout => "timeout"

def showTrace (t : ErrTrace) : String :=
  let a := match t.handlerArg with
    | none => "none"
    | some (.inst e) => if e == ⟨1, 7, [302, 5], e.isException⟩ then "inst" else "other"
    | some (.cls _) => "cls"
  let s := match t.seen with
    | .returned => "returned"
    | .raised e => if e.ident == 7 && e.args == [302, 5] && e.cls == 1 then "same" else "other"
  a ++ " " ++ s ++ " " ++ encBool t.page

def pModule : P Module := fun ts => do
  let (ieh, r) ← pIeh ts
  let (t, r) ← pTmpl r.length r
  pure (codegenModule t ieh, r)

def handle : Handler
  | "gen" :: ts => do
    let (t, r) ← pTmpl ts.length ts
    if r.isEmpty then pure (showModule (codegenModule t none)) else none
  | "run" :: ts => do
    let (k, r) ← pNat ts
    let (fuel, r) ← pNat r
    let (eh, r) ← pIeh r
    let (fe, r) ← pBool r
    let (n, r) ← pNat r
    let (mods, r) ← pMany pModule n r
    if !r.isEmpty then none else
    let (res, out, σ) := render ⟨mods, k⟩ ⟨eh, fe⟩ fuel
    pure (" ".intercalate [showVRes res, encStr out, toString σ.bufs.length, toString σ.frames.length,
            toString σ.next.length, toString σ.loops.length, toString σ.cnt])
  | ["literal", src] => do
    -- lex → tmplOfTokens → codegen → exec: `<plain?> <lexer outcome ok?> <output | none>`
    let s ← decStr src
    let r := Lexer.lex Lexer.Cfg.current s
    let plain := Lexer.Plain s
    let ok := r.outcome == Lexer.Outcome.ok
    match tmplOfTokens r.toks with
    | none => pure (encBool plain ++ " " ++ encBool ok ++ " none")
    | some t =>
      let (res, out, _) := render ⟨[codegenModule t none], 1000000000⟩ ⟨none, false⟩ (r.toks.length + 9)
      pure (encBool plain ++ " " ++ encBool ok ++ " " ++ showVRes res ++ " " ++ encStr out)
  | ["sharedstack", depth] => do
    -- the caller's context after `_render_error` ran on a copy of it (format_exceptions): `<buffers seen by the
    -- caller> <the only buffer holds the page>`; `depth` = buffers on the shared stack when the exception arrived
    let d ← depth.toNat?
    let h : CtxHeap := ⟨[(List.range d).map fun i => (i, "partial".toList)]⟩
    let seen := (renderErrorHeap h (CtxRef.copy ⟨0⟩) "PAGE".toList).stackOf ⟨0⟩
    pure (toString seen.length ++ " " ++ encBool (seen == [(0, "PAGE".toList)]))
  | ["errobj", eh, fe, isx] => do
    -- decision logic on exception objects: `<handler arg: inst|cls|none> <seen: returned|same> <page>`
    let (eh, _) ← pIeh [eh]
    let fe ← decBool fe
    let isx ← decBool isx
    pure (showTrace (renderErrorObj ⟨eh, fe⟩ ⟨1, 7, [302, 5], isx⟩))
  | ["incobj", ieh, isx] => do
    let (ieh, _) ← pIeh [ieh]
    let isx ← decBool isx
    pure (showTrace (includeErrorObj ieh ⟨1, 7, [302, 5], isx⟩))
  | "spec" :: ts => do
    let (k, r) ← pNat ts
    let (fuel, r) ← pNat r
    let (eh, r) ← pIeh r
    let (fe, r) ← pBool r
    let (cnt, r) ← pNat r
    let (n, r) ← pMany pTmplIeh cnt r
    if !r.isEmpty then none else
    let (res, out) := Spec.render ⟨n, k⟩ ⟨eh, fe⟩ fuel
    pure (showSV res ++ " " ++ encStr out)
  | _ => none

end MakoModel.Target.Drv
