import MakoModel.Target.Shape
/-!
# Exception balance of well-shaped target code (helper lemmas for C13 / C05 / C03)

`Bal i top rest σ σ'`: from a state whose buffer stack is `(i, top) :: rest`, the state `σ'` has the buffer
stack `(i, top ++ w) :: rest` for some `w` (the top buffer only grew, lower buffers untouched, nothing left
pushed), the same caller stack, the same loop stack, and the same `nextcaller`.

`all_good`: by induction on the fuel, simultaneously for statements, expressions, argument lists, calls,
loop iterations and callable bodies: every execution that ends (outcome ≠ timeout) – normally, by `return`,
`break`, `continue` or **with an exception at any evaluation point** – is balanced.
-/
namespace MakoModel.Target

structure Bal (i : Nat) (top : Str) (rest : List (Nat × Str)) (σ σ' : St) : Prop where
  bufs : ∃ w, σ'.bufs = (i, top ++ w) :: rest
  frames : σ'.frames = σ.frames
  loops : σ'.loops = σ.loops
  next : σ'.next = σ.next
  ok : StOK σ'

/-- as `Bal`, but the top loop context may have advanced (`for x in loop`) -/
structure BalT (i : Nat) (top : Str) (rest : List (Nat × Str)) (σ σ' : St) : Prop where
  bufs : ∃ w, σ'.bufs = (i, top ++ w) :: rest
  frames : σ'.frames = σ.frames
  loops : σ'.loops.tail = σ.loops.tail ∧ (σ'.loops = [] ↔ σ.loops = [])
  next : σ'.next = σ.next
  ok : StOK σ'

theorem Bal.refl {i top rest σ} (h : σ.bufs = (i, top) :: rest) (ok : StOK σ) : Bal i top rest σ σ :=
  ⟨⟨[], by simp [h]⟩, rfl, rfl, rfl, ok⟩

theorem Bal.trans {i top rest σ σ1 σ2 w} (h1 : Bal i top rest σ σ1) (_hw : σ1.bufs = (i, top ++ w) :: rest)
    (h2 : Bal i (top ++ w) rest σ1 σ2) : Bal i top rest σ σ2 := by
  obtain ⟨w2, hw2⟩ := h2.bufs
  refine ⟨⟨w ++ w2, by simp [hw2]⟩, h2.frames.trans h1.frames, h2.loops.trans h1.loops, h2.next.trans h1.next, h2.ok⟩

theorem Bal.toT {i top rest σ σ'} (h : Bal i top rest σ σ') : BalT i top rest σ σ' :=
  ⟨h.bufs, h.frames, by simp [h.loops], h.next, h.ok⟩

/-- a `Bal` step followed by changes that touch only the counter -/
theorem Bal.of_eq {i top rest σ σ' σ''} (h : Bal i top rest σ σ') (hb : σ''.bufs = σ'.bufs)
    (hf : σ''.frames = σ'.frames) (hl : σ''.loops = σ'.loops) (hn : σ''.next = σ'.next) :
    Bal i top rest σ σ'' := by
  refine ⟨by rw [hb]; exact h.bufs, hf.trans h.frames, hl.trans h.loops, hn.trans h.next, ?_⟩
  exact ⟨by rw [hf]; exact h.ok.frames, by rw [hn]; exact h.ok.next⟩

theorem StOK.of_eq {σ σ' : St} (h : StOK σ) (hf : σ'.frames = σ.frames) (hn : σ'.next = σ.next) : StOK σ' :=
  ⟨by rw [hf]; exact h.frames, by rw [hn]; exact h.next⟩

theorem writeTo_top (i v top rest) : writeTo i v ((i, top) :: rest) = (i, top ++ v) :: rest := by
  simp [writeTo]

theorem NSOK_nil : NSOK [] := by intro l h; cases h

theorem FunsOK_append {a b} (ha : FunsOK a) (hb : FunsOK b) : FunsOK (a ++ b) := by
  intro p hp
  rcases List.mem_append.mp hp with h | h
  · exact ha p h
  · exact hb p h

theorem lookup_mem {α} {x : Name} {l : List (Name × α)} {a} (h : lookup x l = some a) : (x, a) ∈ l := by
  induction l with
  | nil => simp [lookup] at h
  | cons p r ih =>
    obtain ⟨y, b⟩ := p
    simp only [lookup] at h
    split at h
    · cases h; subst_vars; exact List.mem_cons_self
    · exact List.mem_cons_of_mem _ (ih h)

variable (c : Cfg)

def EvalGood (n : Nat) : Prop := ∀ e l σ i top rest, LocOK l → StOK σ → σ.bufs = (i, top) :: rest →
  ∀ r σ', eval c n e l σ = (r, σ') → r ≠ .timeout → Bal i top rest σ σ'

def ArgsGood (n : Nat) : Prop := ∀ es l σ i top rest, LocOK l → StOK σ → σ.bufs = (i, top) :: rest →
  ∀ r σ', evalArgs c n es l σ = (r, σ') → r ≠ .timeout → Bal i top rest σ σ'

def InvokeGood (n : Nat) : Prop := ∀ clo vs l σ i top rest, FunOK clo.fn → NSOK clo.lex → LocOK l → StOK σ →
  σ.bufs = (i, top) :: rest →
  ∀ r σ', invoke c n clo vs l σ = (r, σ') → r ≠ .timeout → Bal i top rest σ σ'

def ExecGood (n : Nat) : Prop := ∀ s l σ i top rest, WS s → LocOK l → StOK σ → σ.bufs = (i, top) :: rest →
  l.writer = i →
  ∀ o l' σ', exec c n s l σ = (o, l', σ') → o ≠ .timeout → Bal i top rest σ σ' ∧ LocOK l' ∧ l'.writer = i

def BodyGood (n : Nat) : Prop := ∀ b l σ i top rest, WF b → LocOK l → StOK σ → σ.bufs = (i, top) :: rest →
  ∀ o l' σ', exec c n b l σ = (o, l', σ') → o ≠ .timeout → Bal i top rest σ σ'

def IterGood (n : Nat) : Prop := ∀ x vs body ctx l σ i top rest, WS body → LocOK l → StOK σ →
  σ.bufs = (i, top) :: rest → l.writer = i →
  ∀ o l' σ', forIter c n x vs body ctx l σ = (o, l', σ') → o ≠ .timeout →
    (if ctx then BalT i top rest σ σ' else Bal i top rest σ σ') ∧ LocOK l' ∧ l'.writer = i

structure All (n : Nat) : Prop where
  eval : EvalGood c n
  args : ArgsGood c n
  invoke : InvokeGood c n
  exec : ExecGood c n
  body : BodyGood c n
  iter : IterGood c n

theorem tick_bal {i top rest σ k b σ1} (h : σ.bufs = (i, top) :: rest) (ok : StOK σ) (ht : tick k σ = (b, σ1)) :
    Bal i top rest σ σ1 := by
  simp only [tick, Prod.mk.injEq] at ht
  obtain ⟨_, rfl⟩ := ht
  exact (Bal.refl h ok).of_eq rfl rfl rfl rfl

theorem resolve_ok {c : Cfg} {l : Loc} {f : Name} {clo : Clo} (hc : CfgOK c) (hl : LocOK l)
    (h : resolve c l f = some clo) : FunOK clo.fn ∧ NSOK clo.lex := by
  simp only [resolve] at h
  split at h
  · rename_i clo' hlk
    cases h
    exact hl.funs _ (lookup_mem hlk)
  · split at h
    · cases h
    · rename_i m hm
      cases hd : lookup f m.defs with
      | none => simp [hd] at h
      | some fn =>
        simp only [hd, Option.map_some, Option.some.injEq] at h
        subst h
        exact ⟨hc.defs m (List.mem_of_getElem? hm) _ (lookup_mem hd), NSOK_nil⟩

/-- arguments, then the call -/
theorem args_invoke_good {c : Cfg} {n : Nat} (A : All c n) {args : List Expr} {l l2 : Loc} {σ : St} {i top rest}
    {clo : Clo} (hf : FunOK clo.fn) (hx : NSOK clo.lex) (hl : LocOK l) (hl2 : LocOK l2) (hσ : StOK σ)
    (hb : σ.bufs = (i, top) :: rest) {r σ'}
    (he : (match evalArgs c n args l σ with
            | (.vals vs, σ1) => invoke c n clo vs l2 σ1
            | (.exc e, σ1) => (.exc e, σ1)
            | (.timeout, σ1) => (.timeout, σ1)) = (r, σ')) (hr : r ≠ .timeout) : Bal i top rest σ σ' := by
  generalize hx' : evalArgs c n args l σ = x at he
  obtain ⟨ra, σ1⟩ := x
  have b1 := A.args args l σ i top rest hl hσ hb _ _ hx'
  cases ra with
  | vals vs =>
    simp only at he
    have b1 := b1 (by simp)
    obtain ⟨w, hw⟩ := b1.bufs
    exact b1.trans hw (A.invoke clo vs l2 σ1 i _ rest hf hx hl2 b1.ok hw _ _ he hr)
  | exc e => simp only [Prod.mk.injEq] at he; obtain ⟨rfl, rfl⟩ := he; exact b1 (by simp)
  | timeout => simp only [Prod.mk.injEq] at he; obtain ⟨rfl, rfl⟩ := he; exact absurd rfl hr

theorem layerClos_ok {layer : Layer} {tl : NS} (hf : FunsOK layer.funs) (ht : NSOK tl) :
    ∀ p ∈ layerClos layer tl, FunOK p.2.fn ∧ NSOK p.2.lex := by
  intro p hp
  simp only [layerClos, List.mem_map] at hp
  obtain ⟨q, hq, rfl⟩ := hp
  exact ⟨hf q hq, ht⟩

theorem eval_good (n : Nat) (ih : ∀ m, m < n + 1 → All c m) (hc : CfgOK c) : EvalGood c (n + 1) := by
  intro e l σ i top rest hl hσ hb r σ' he hr
  have A := ih n (Nat.lt_succ_self n)
  cases e with
  | lit s => simp only [eval, Prod.mk.injEq] at he; obtain ⟨_, rfl⟩ := he; exact Bal.refl hb hσ
  | var x =>
    simp only [eval] at he
    split at he <;> (simp only [Prod.mk.injEq] at he; obtain ⟨_, rfl⟩ := he; exact Bal.refl hb hσ)
  | cat a b =>
    simp only [eval] at he
    generalize hx : eval c n a l σ = x at he
    obtain ⟨ra, σ1⟩ := x
    cases ra with
    | val va =>
      simp only at he
      have b1 := A.eval a l σ i top rest hl hσ hb _ _ hx (by simp)
      obtain ⟨w, hw⟩ := b1.bufs
      generalize hy : eval c n b l σ1 = y at he
      obtain ⟨rb, σ2⟩ := y
      have b2 := A.eval b l σ1 i _ rest hl b1.ok hw _ _ hy
      cases rb <;> simp only [Prod.mk.injEq] at he <;> obtain ⟨rfl, rfl⟩ := he
      · exact b1.trans hw (b2 (by simp))
      · exact b1.trans hw (b2 (by simp))
      · exact absurd rfl hr
    | exc e => simp only [Prod.mk.injEq] at he; obtain ⟨rfl, rfl⟩ := he; exact A.eval a l σ i top rest hl hσ hb _ _ hx (by simp)
    | timeout => simp only [Prod.mk.injEq] at he; obtain ⟨rfl, rfl⟩ := he; exact absurd rfl hr
  | boom =>
    simp only [eval] at he
    generalize hx : tick c.k σ = x at he
    obtain ⟨b, σ1⟩ := x
    have := tick_bal hb hσ hx
    cases b <;> simp only [Prod.mk.injEq] at he <;> obtain ⟨_, rfl⟩ := he <;> exact this
  | filt f e =>
    simp only [eval] at he
    generalize hx : eval c n e l σ = x at he
    obtain ⟨ra, σ1⟩ := x
    have b1 := A.eval e l σ i top rest hl hσ hb _ _ hx
    cases ra with
    | val v =>
      simp only at he
      have b1 := b1 (by simp)
      obtain ⟨w, hw⟩ := b1.bufs
      generalize hy : tick c.k σ1 = y at he
      obtain ⟨b, σ2⟩ := y
      have := b1.trans hw (tick_bal hw b1.ok hy)
      cases b <;> simp only [Prod.mk.injEq] at he <;> obtain ⟨_, rfl⟩ := he <;> exact this
    | exc e => simp only [Prod.mk.injEq] at he; obtain ⟨rfl, rfl⟩ := he; exact b1 (by simp)
    | timeout => simp only [Prod.mk.injEq] at he; obtain ⟨rfl, rfl⟩ := he; exact absurd rfl hr
  | loopIndex =>
    simp only [eval] at he
    split at he <;> (simp only [Prod.mk.injEq] at he; obtain ⟨_, rfl⟩ := he; exact Bal.refl hb hσ)
  | mbuf => simp only [eval, Prod.mk.injEq] at he; obtain ⟨_, rfl⟩ := he; exact Bal.refl hb hσ
  | probe => simp only [eval, Prod.mk.injEq] at he; obtain ⟨_, rfl⟩ := he; exact Bal.refl hb hσ
  | call f args =>
    simp only [eval] at he
    split at he
    · simp only [Prod.mk.injEq] at he; obtain ⟨_, rfl⟩ := he; exact Bal.refl hb hσ
    · rename_i clo hres
      obtain ⟨hf, hx⟩ := resolve_ok hc hl hres
      exact args_invoke_good A hf hx hl hl hσ hb he hr
  | callerCall name args =>
    simp only [eval] at he
    split at he
    · simp only [Prod.mk.injEq] at he; obtain ⟨_, rfl⟩ := he; exact Bal.refl hb hσ
    · simp only [Prod.mk.injEq] at he; obtain ⟨_, rfl⟩ := he; exact Bal.refl hb hσ
    · rename_i layer tl hns
      have hNS : NSOK (layer :: tl) := by
        split at hns
        · rw [← Option.some.inj hns]; exact hl.lexc
        · cases hfr : σ.frames with
          | nil => simp [hfr] at hns
          | cons f fr =>
            simp only [hfr, List.head?_cons, Option.some.injEq] at hns
            rw [← hns]
            exact hσ.frames _ (by simp [hfr])
      have hlay : FunsOK layer.funs := hNS layer List.mem_cons_self
      have htl : NSOK tl := fun x hx => hNS x (List.mem_cons_of_mem _ hx)
      split at he
      · simp only [Prod.mk.injEq] at he; obtain ⟨_, rfl⟩ := he; exact Bal.refl hb hσ
      · rename_i fn hlk
        have hfn : FunOK fn := hlay _ (lookup_mem hlk)
        refine args_invoke_good (clo := ⟨fn, tl, layer.mod⟩) A hfn htl hl ?_ hσ hb he hr
        refine ⟨?_, hl.caller, hl.lexc⟩
        intro p hp
        rcases List.mem_append.mp hp with h | h
        · exact layerClos_ok hlay htl p h
        · exact hl.funs p h
  | capture f args =>
    simp only [eval] at he
    split at he
    · simp only [Prod.mk.injEq] at he; obtain ⟨_, rfl⟩ := he; exact Bal.refl hb hσ
    · rename_i clo hres
      obtain ⟨hf, hx⟩ := resolve_ok hc hl hres
      generalize hx' : evalArgs c n args l σ = x at he
      obtain ⟨ra, σ1⟩ := x
      have b1 := A.args args l σ i top rest hl hσ hb _ _ hx'
      cases ra with
      | vals vs =>
        simp only at he
        have b1 := b1 (by simp)
        obtain ⟨w, hw⟩ := b1.bufs
        generalize hy : invoke c n clo vs l _ = y at he
        obtain ⟨r3, σ3⟩ := y
        dsimp only at he
        have hto : r3 ≠ .timeout := by
          rintro rfl
          split at he <;> (simp only [Prod.mk.injEq] at he; exact hr he.1.symm)
        have b2 := A.invoke clo vs l
          { σ1 with bufs := (σ1.nextId, []) :: σ1.bufs, nextId := σ1.nextId + 1 }
          σ1.nextId [] ((i, top ++ w) :: rest) hf hx hl
          (b1.ok.of_eq rfl rfl) (by simp [hw]) _ _ hy hto
        obtain ⟨w2, hw2⟩ := b2.bufs
        simp only [hw2] at he
        have : Bal i top rest σ { σ3 with bufs := (i, top ++ w) :: rest } := by
          refine b1.trans hw ⟨⟨[], by simp⟩, b2.frames, b2.loops, b2.next, b2.ok.of_eq rfl rfl⟩
        cases r3 <;> simp only [Prod.mk.injEq] at he <;> obtain ⟨_, rfl⟩ := he <;> exact this
      | exc e => simp only [Prod.mk.injEq] at he; obtain ⟨rfl, rfl⟩ := he; exact b1 (by simp)
      | timeout => simp only [Prod.mk.injEq] at he; obtain ⟨rfl, rfl⟩ := he; exact absurd rfl hr
  | includeFile j =>
    simp only [eval] at he
    split at he
    · simp only [Prod.mk.injEq] at he; obtain ⟨_, rfl⟩ := he; exact Bal.refl hb hσ
    · rename_i m hm
      have hmem := List.mem_of_getElem? hm
      generalize hy : invoke c n ⟨m.body, [], j⟩ [] { l with funs := [] } σ = y at he
      obtain ⟨r1, σ1⟩ := y
      have b1 := A.invoke ⟨m.body, [], j⟩ [] { l with funs := [] } σ i top rest (hc.body m hmem) NSOK_nil
        ⟨fun p hp => (by cases hp), hl.caller, hl.lexc⟩ hσ hb _ _ hy
      cases hieh : m.ieh with
      | none => simp only [hieh, Prod.mk.injEq] at he; obtain ⟨rfl, rfl⟩ := he; exact b1 hr
      | some b =>
        cases r1 with
        | exc e =>
          simp only [hieh] at he
          have b1 := b1 (by simp)
          obtain ⟨w, hw⟩ := b1.bufs
          have : Bal i top rest σ { σ1 with bufs := writeTop ['[', 'H', ']'] σ1.bufs } :=
            b1.trans hw ⟨⟨['[', 'H', ']'], by simp [hw, writeTop]⟩, rfl, rfl, rfl, b1.ok.of_eq rfl rfl⟩
          split at he <;> (simp only [Prod.mk.injEq] at he; obtain ⟨_, rfl⟩ := he; exact this)
        | val v => simp only [hieh, Prod.mk.injEq] at he; obtain ⟨rfl, rfl⟩ := he; exact b1 hr
        | timeout => simp only [hieh, Prod.mk.injEq] at he; obtain ⟨rfl, rfl⟩ := he; exact b1 hr

theorem args_good (n : Nat) (ih : ∀ m, m < n + 1 → All c m) : ArgsGood c (n + 1) := by
  intro es l σ i top rest hl hσ hb r σ' he hr
  have A := ih n (Nat.lt_succ_self n)
  cases es with
  | nil => simp only [evalArgs, Prod.mk.injEq] at he; obtain ⟨_, rfl⟩ := he; exact Bal.refl hb hσ
  | cons e es =>
    simp only [evalArgs] at he
    generalize hx : eval c n e l σ = x at he
    obtain ⟨ra, σ1⟩ := x
    have b1 := A.eval e l σ i top rest hl hσ hb _ _ hx
    cases ra with
    | val v =>
      simp only at he
      have b1 := b1 (by simp)
      obtain ⟨w, hw⟩ := b1.bufs
      generalize hy : evalArgs c n es l σ1 = y at he
      obtain ⟨rb, σ2⟩ := y
      have b2 := A.args es l σ1 i _ rest hl b1.ok hw _ _ hy
      cases rb <;> simp only [Prod.mk.injEq] at he <;> obtain ⟨rfl, rfl⟩ := he
      · exact b1.trans hw (b2 (by simp))
      · exact b1.trans hw (b2 (by simp))
      · exact absurd rfl hr
    | exc e => simp only [Prod.mk.injEq] at he; obtain ⟨rfl, rfl⟩ := he; exact b1 (by simp)
    | timeout => simp only [Prod.mk.injEq] at he; obtain ⟨rfl, rfl⟩ := he; exact absurd rfl hr

theorem decoPost_bal {i top rest σ σ' k d v r} (h : σ.bufs = (i, top) :: rest) (ok : StOK σ)
    (hd : decoPost k d σ v = (r, σ')) : Bal i top rest σ σ' := by
  simp only [decoPost] at hd
  split at hd
  · generalize hx : tick k σ = x at hd
    obtain ⟨b, σ1⟩ := x
    have := tick_bal h ok hx
    cases b <;> simp only [Prod.mk.injEq] at hd <;> obtain ⟨_, rfl⟩ := hd <;> exact this
  · simp only [Prod.mk.injEq] at hd; obtain ⟨_, rfl⟩ := hd; exact Bal.refl h ok

theorem invoke_good (n : Nat) (ih : ∀ m, m < n + 1 → All c m) : InvokeGood c (n + 1) := by
  intro clo vs l σ i top rest hf hx hl hσ hb r σ' he hr
  have A := ih n (Nat.lt_succ_self n)
  simp only [invoke] at he
  split at he
  · simp only [Prod.mk.injEq] at he; obtain ⟨_, rfl⟩ := he; exact Bal.refl hb hσ
  · rename_i bound hz
    generalize hpre : (if clo.fn.fl.deco = true then tick c.k σ else (false, σ)) = pre at he
    obtain ⟨pb, σ0⟩ := pre
    have b0 : Bal i top rest σ σ0 := by
      split at hpre
      · exact tick_bal hb hσ hpre
      · simp only [Prod.mk.injEq] at hpre; obtain ⟨_, rfl⟩ := hpre; exact Bal.refl hb hσ
    obtain ⟨w0, hw0⟩ := b0.bufs
    cases pb with
    | true => simp only [Prod.mk.injEq] at he; obtain ⟨_, rfl⟩ := he; exact b0
    | false =>
      simp only at he
      generalize hl2 : ({ vars := bound ++ l.vars, funs := l.funs, writer := l.writer, mbuf := [],
                          caller := clo.lex, lexc := clo.lex, savedNext := [], useLex := clo.fn.fl.lex, mod := clo.mod } : Loc) = l2 at he
      have hl' : LocOK l2 := by subst hl2; exact ⟨hl.funs, hx, hx⟩
      cases hown : clo.fn.fl.ownLoops with
      | false =>
        simp only [hown, Bool.false_eq_true, if_false] at he
        generalize hex : exec c n clo.fn.body l2 σ0 = x at he
        obtain ⟨o, l3, σ2⟩ := x
        simp only at he
        have hto : o ≠ .timeout := by
          rintro rfl
          simp only [Prod.mk.injEq] at he
          exact hr he.1.symm
        have b2 := A.body _ _ σ0 i _ rest hf hl' b0.ok hw0 _ _ _ hex hto
        have b3 := b0.trans hw0 b2
        obtain ⟨w3, hw3⟩ := b3.bufs
        cases o with
        | timeout => exact absurd rfl hto
        | normal => exact b3.trans hw3 (decoPost_bal hw3 b3.ok he)
        | ret v => exact b3.trans hw3 (decoPost_bal hw3 b3.ok he)
        | exc e => simp only [Prod.mk.injEq] at he; obtain ⟨_, rfl⟩ := he; exact b3
        | brk => simp only [Prod.mk.injEq] at he; obtain ⟨_, rfl⟩ := he; exact b3
        | cont => simp only [Prod.mk.injEq] at he; obtain ⟨_, rfl⟩ := he; exact b3
      | true =>
        simp only [hown, if_true] at he
        generalize hex : exec c n clo.fn.body l2 _ = x at he
        obtain ⟨o, l3, σ2⟩ := x
        simp only at he
        have hto : o ≠ .timeout := by
          rintro rfl
          simp only [Prod.mk.injEq] at he
          exact hr he.1.symm
        have b2 := A.body _ _ { σ0 with loops := [] } i _ rest hf hl' (b0.ok.of_eq rfl rfl) hw0 _ _ _ hex hto
        have b3 : Bal i top rest σ { σ2 with loops := σ0.loops } := by
          obtain ⟨w2, hw2⟩ := b2.bufs
          refine ⟨⟨w0 ++ w2, by simp [hw2]⟩, b2.frames.trans b0.frames, b0.loops, b2.next.trans b0.next, b2.ok.of_eq rfl rfl⟩
        obtain ⟨w3, hw3⟩ := b3.bufs
        cases o with
        | timeout => exact absurd rfl hto
        | normal => exact b3.trans hw3 (decoPost_bal hw3 b3.ok he)
        | ret v => exact b3.trans hw3 (decoPost_bal hw3 b3.ok he)
        | exc e => simp only [Prod.mk.injEq] at he; obtain ⟨_, rfl⟩ := he; exact b3
        | brk => simp only [Prod.mk.injEq] at he; obtain ⟨_, rfl⟩ := he; exact b3
        | cont => simp only [Prod.mk.injEq] at he; obtain ⟨_, rfl⟩ := he; exact b3

theorem bumpTop_tail (ls : List LoopCtx) : (bumpTop ls).tail = ls.tail := by cases ls <;> rfl
theorem bumpTop_nil (ls : List LoopCtx) : bumpTop ls = [] ↔ ls = [] := by cases ls <;> simp [bumpTop]

theorem BalT.trans {i top rest σ σ1 σ2 w} (h1 : BalT i top rest σ σ1) (_hw : σ1.bufs = (i, top ++ w) :: rest)
    (h2 : BalT i (top ++ w) rest σ1 σ2) : BalT i top rest σ σ2 := by
  obtain ⟨w2, hw2⟩ := h2.bufs
  refine ⟨⟨w ++ w2, by simp [hw2]⟩, h2.frames.trans h1.frames, ⟨h2.loops.1.trans h1.loops.1, h2.loops.2.trans h1.loops.2⟩,
    h2.next.trans h1.next, h2.ok⟩

theorem bump_balT {i top rest σ} (h : σ.bufs = (i, top) :: rest) (ok : StOK σ) :
    BalT i top rest σ { σ with loops := bumpTop σ.loops } :=
  ⟨⟨[], by simp [h]⟩, rfl, ⟨bumpTop_tail _, bumpTop_nil _⟩, rfl, ok.of_eq rfl rfl⟩

theorem iter_good (n : Nat) (ih : ∀ m, m < n + 1 → All c m) : IterGood c (n + 1) := by
  intro x vs body ctx l σ i top rest hs hl hσ hb hw o l' σ' he ho
  have A := ih n (Nat.lt_succ_self n)
  -- it suffices to prove BalT when ctx, Bal otherwise; we prove the common core
  cases vs with
  | nil =>
    simp only [forIter, Prod.mk.injEq] at he; obtain ⟨_, rfl, rfl⟩ := he
    refine ⟨?_, hl, hw⟩
    split
    · exact (Bal.refl hb hσ).toT
    · exact Bal.refl hb hσ
  | cons v vs =>
    simp only [forIter] at he
    generalize hx : exec c n body _ σ = y at he
    obtain ⟨o1, l1, σ1⟩ := y
    have g1 := A.exec body { l with vars := (x, v) :: l.vars } σ i top rest hs
      ⟨hl.funs, hl.caller, hl.lexc⟩ hσ hb hw _ _ _ hx
    have stop : o1 ≠ .timeout → l' = l1 → σ' = σ1 →
        (if ctx = true then BalT i top rest σ σ' else Bal i top rest σ σ') ∧ LocOK l' ∧ l'.writer = i := by
      rintro h1 rfl rfl
      obtain ⟨b1, hl1, hw1⟩ := g1 h1
      refine ⟨?_, hl1, hw1⟩
      split
      · exact b1.toT
      · exact b1
    have again : o1 ≠ .timeout →
        forIter c n x vs body ctx l1 (if ctx = true then { σ1 with loops := bumpTop σ1.loops } else σ1) = (o, l', σ') →
        (if ctx = true then BalT i top rest σ σ' else Bal i top rest σ σ') ∧ LocOK l' ∧ l'.writer = i := by
      intro h1 he2
      obtain ⟨b1, hl1, hw1⟩ := g1 h1
      obtain ⟨w, hw'⟩ := b1.bufs
      cases ctx with
      | false =>
        simp only [Bool.false_eq_true, if_false] at he2 ⊢
        obtain ⟨b2, hl2, hw2⟩ := A.iter x vs body false l1 σ1 i _ rest hs hl1 b1.ok hw' hw1 _ _ _ he2 ho
        exact ⟨b1.trans hw' (by simpa using b2), hl2, hw2⟩
      | true =>
        simp only [if_true] at he2 ⊢
        obtain ⟨b2, hl2, hw2⟩ := A.iter x vs body true l1 { σ1 with loops := bumpTop σ1.loops } i _ rest hs hl1
          (b1.ok.of_eq rfl rfl) hw' hw1 _ _ _ he2 ho
        exact ⟨b1.toT.trans hw' ((bump_balT hw' b1.ok).trans (w := []) (by simp [hw']) (by simpa using b2)), hl2, hw2⟩
    cases o1 with
    | normal => exact again (by simp) he
    | cont => exact again (by simp) he
    | brk =>
      simp only [Prod.mk.injEq] at he
      obtain ⟨rfl, h2, h3⟩ := he
      exact stop (by simp) h2.symm h3.symm
    | ret v => simp only [Prod.mk.injEq] at he; exact stop (by simp) he.2.1.symm he.2.2.symm
    | exc e => simp only [Prod.mk.injEq] at he; exact stop (by simp) he.2.1.symm he.2.2.symm
    | timeout => simp only [Prod.mk.injEq] at he; exact absurd he.1.symm ho

theorem collectDefs_ok {d : Stmt} (h : WS d) : FunsOK (collectDefs d) := by
  induction d with
  | seq a b iha ihb =>
    cases h with
    | seq ha hb => exact FunsOK_append (iha ha) (ihb hb)
    | loopBlock => simp [collectDefs, FunsOK]
    | textTag => simp [collectDefs, FunsOK]
    | callTag => simp [collectDefs, FunsOK]
  | defn name ps fl b =>
    cases h with
    | defn _ _ _ hb =>
      intro p hp
      simp only [collectDefs, List.mem_singleton] at hp
      subst hp
      exact hb
  | _ => simp [collectDefs, FunsOK]

theorem exec_good (n : Nat) (ih : ∀ m, m < n + 1 → All c m) : ExecGood c (n + 1) := by
  intro s l σ i top rest hs hl hσ hb hw o l' σ' he ho
  have A := ih n (Nat.lt_succ_self n)
  cases hs with
  | skip => simp only [exec, Prod.mk.injEq] at he; obtain ⟨_, rfl, rfl⟩ := he; exact ⟨Bal.refl hb hσ, hl, hw⟩
  | brk => simp only [exec, Prod.mk.injEq] at he; obtain ⟨_, rfl, rfl⟩ := he; exact ⟨Bal.refl hb hσ, hl, hw⟩
  | cont => simp only [exec, Prod.mk.injEq] at he; obtain ⟨_, rfl, rfl⟩ := he; exact ⟨Bal.refl hb hσ, hl, hw⟩
  | raise k => simp only [exec, Prod.mk.injEq] at he; obtain ⟨_, rfl, rfl⟩ := he; exact ⟨Bal.refl hb hσ, hl, hw⟩
  | write e =>
    simp only [exec] at he
    generalize hx : eval c n e l σ = x at he
    obtain ⟨r, σ1⟩ := x
    have b1 := A.eval e l σ i top rest hl hσ hb _ _ hx
    cases r with
    | val v =>
      simp only [Prod.mk.injEq] at he; obtain ⟨_, rfl, rfl⟩ := he
      have b1 := b1 (by simp)
      obtain ⟨w, hw1⟩ := b1.bufs
      refine ⟨b1.trans hw1 ⟨⟨v, ?_⟩, rfl, rfl, rfl, b1.ok.of_eq rfl rfl⟩, hl, hw⟩
      simp [hw1, hw, writeTo]
    | exc e => simp only [Prod.mk.injEq] at he; obtain ⟨_, rfl, rfl⟩ := he; exact ⟨b1 (by simp), hl, hw⟩
    | timeout => simp only [Prod.mk.injEq] at he; exact absurd he.1.symm ho
  | exprStmt e =>
    simp only [exec] at he
    generalize hx : eval c n e l σ = x at he
    obtain ⟨r, σ1⟩ := x
    have b1 := A.eval e l σ i top rest hl hσ hb _ _ hx
    cases r with
    | val v => simp only [Prod.mk.injEq] at he; obtain ⟨_, rfl, rfl⟩ := he; exact ⟨b1 (by simp), hl, hw⟩
    | exc e => simp only [Prod.mk.injEq] at he; obtain ⟨_, rfl, rfl⟩ := he; exact ⟨b1 (by simp), hl, hw⟩
    | timeout => simp only [Prod.mk.injEq] at he; exact absurd he.1.symm ho
  | ret e =>
    simp only [exec] at he
    generalize hx : eval c n e l σ = x at he
    obtain ⟨r, σ1⟩ := x
    have b1 := A.eval e l σ i top rest hl hσ hb _ _ hx
    cases r with
    | val v => simp only [Prod.mk.injEq] at he; obtain ⟨_, rfl, rfl⟩ := he; exact ⟨b1 (by simp), hl, hw⟩
    | exc e => simp only [Prod.mk.injEq] at he; obtain ⟨_, rfl, rfl⟩ := he; exact ⟨b1 (by simp), hl, hw⟩
    | timeout => simp only [Prod.mk.injEq] at he; exact absurd he.1.symm ho
  | seq ha hb' =>
    rename_i a b
    simp only [exec] at he
    generalize hx : exec c n a l σ = x at he
    obtain ⟨o1, l1, σ1⟩ := x
    have g1 := A.exec a l σ i top rest ha hl hσ hb hw _ _ _ hx
    cases o1 with
    | normal =>
      simp only at he
      obtain ⟨b1, hl1, hw1⟩ := g1 (by simp)
      obtain ⟨w, hw'⟩ := b1.bufs
      obtain ⟨b2, hl2, hw2⟩ := A.exec b l1 σ1 i _ rest hb' hl1 b1.ok hw' hw1 _ _ _ he ho
      exact ⟨b1.trans hw' b2, hl2, hw2⟩
    | timeout => simp only [Prod.mk.injEq] at he; exact absurd he.1.symm ho
    | ret v => simp only [Prod.mk.injEq] at he; obtain ⟨_, rfl, rfl⟩ := he; exact g1 (by simp)
    | brk => simp only [Prod.mk.injEq] at he; obtain ⟨_, rfl, rfl⟩ := he; exact g1 (by simp)
    | cont => simp only [Prod.mk.injEq] at he; obtain ⟨_, rfl, rfl⟩ := he; exact g1 (by simp)
    | exc e => simp only [Prod.mk.injEq] at he; obtain ⟨_, rfl, rfl⟩ := he; exact g1 (by simp)
  | ite cnd ht he' =>
    rename_i t e
    simp only [exec] at he
    generalize hx : eval c n cnd l σ = x at he
    obtain ⟨r, σ1⟩ := x
    have b1 := A.eval cnd l σ i top rest hl hσ hb _ _ hx
    cases r with
    | val v =>
      simp only at he
      have b1 := b1 (by simp)
      obtain ⟨w, hw'⟩ := b1.bufs
      split at he
      · obtain ⟨b2, hl2, hw2⟩ := A.exec e l σ1 i _ rest he' hl b1.ok hw' hw _ _ _ he ho
        exact ⟨b1.trans hw' b2, hl2, hw2⟩
      · obtain ⟨b2, hl2, hw2⟩ := A.exec t l σ1 i _ rest ht hl b1.ok hw' hw _ _ _ he ho
        exact ⟨b1.trans hw' b2, hl2, hw2⟩
    | exc e => simp only [Prod.mk.injEq] at he; obtain ⟨_, rfl, rfl⟩ := he; exact ⟨b1 (by simp), hl, hw⟩
    | timeout => simp only [Prod.mk.injEq] at he; exact absurd he.1.symm ho
  | forIn x items hb' =>
    rename_i body
    simp only [exec] at he
    generalize hx : evalArgs c n items l σ = y at he
    obtain ⟨r, σ1⟩ := y
    have b1 := A.args items l σ i top rest hl hσ hb _ _ hx
    cases r with
    | vals vs =>
      simp only at he
      have b1 := b1 (by simp)
      obtain ⟨w, hw'⟩ := b1.bufs
      obtain ⟨b2, hl2, hw2⟩ := A.iter x vs body false l σ1 i _ rest hb' hl b1.ok hw' hw _ _ _ he ho
      exact ⟨b1.trans hw' (by simpa using b2), hl2, hw2⟩
    | exc e => simp only [Prod.mk.injEq] at he; obtain ⟨_, rfl, rfl⟩ := he; exact ⟨b1 (by simp), hl, hw⟩
    | timeout => simp only [Prod.mk.injEq] at he; exact absurd he.1.symm ho
  | whileLt m hb' =>
    rename_i body
    simp only [exec] at he
    generalize hx : tick c.k σ = y at he
    obtain ⟨tb, σ1⟩ := y
    have b1 := tick_bal hb hσ hx
    obtain ⟨w, hw'⟩ := b1.bufs
    cases tb with
    | true => simp only [Prod.mk.injEq] at he; obtain ⟨_, rfl, rfl⟩ := he; exact ⟨b1, hl, hw⟩
    | false =>
      simp only at he
      split at he
      · generalize hy : exec c n body l σ1 = z at he
        obtain ⟨o2, l2, σ2⟩ := z
        have g2 := A.exec body l σ1 i _ rest hb' hl b1.ok hw' hw _ _ _ hy
        have again : ∀ (h2 : o2 ≠ .timeout), exec c n (.whileLt m body) l2 σ2 = (o, l', σ') →
            Bal i top rest σ σ' ∧ LocOK l' ∧ l'.writer = i := by
          intro h2 he3
          obtain ⟨b2, hl2, hw2⟩ := g2 h2
          obtain ⟨w2, hw2'⟩ := b2.bufs
          obtain ⟨b3, hl3, hw3⟩ := A.exec _ l2 σ2 i _ rest (WS.whileLt m hb') hl2 b2.ok hw2' hw2 _ _ _ he3 ho
          exact ⟨b1.trans hw' (b2.trans hw2' b3), hl3, hw3⟩
        have stop : ∀ (h2 : o2 ≠ .timeout), l' = l2 → σ' = σ2 → Bal i top rest σ σ' ∧ LocOK l' ∧ l'.writer = i := by
          rintro h2 rfl rfl
          obtain ⟨b2, hl2, hw2⟩ := g2 h2
          exact ⟨b1.trans hw' b2, hl2, hw2⟩
        cases o2 with
        | normal => exact again (by simp) he
        | cont => exact again (by simp) he
        | brk => simp only [Prod.mk.injEq] at he; exact stop (by simp) he.2.1.symm he.2.2.symm
        | ret v => simp only [Prod.mk.injEq] at he; exact stop (by simp) he.2.1.symm he.2.2.symm
        | exc e => simp only [Prod.mk.injEq] at he; exact stop (by simp) he.2.1.symm he.2.2.symm
        | timeout => simp only [Prod.mk.injEq] at he; exact absurd he.1.symm ho
      · simp only [Prod.mk.injEq] at he; obtain ⟨_, rfl, rfl⟩ := he; exact ⟨b1, hl, hw⟩
  | tryExcept hb' hh =>
    rename_i b h
    simp only [exec] at he
    generalize hx : exec c n b l σ = x at he
    obtain ⟨o1, l1, σ1⟩ := x
    have g1 := A.exec b l σ i top rest hb' hl hσ hb hw _ _ _ hx
    cases o1 with
    | exc e =>
      simp only at he
      obtain ⟨b1, hl1, hw1⟩ := g1 (by simp)
      obtain ⟨w, hw'⟩ := b1.bufs
      obtain ⟨b2, hl2, hw2⟩ := A.exec h l1 σ1 i _ rest hh hl1 b1.ok hw' hw1 _ _ _ he ho
      exact ⟨b1.trans hw' b2, hl2, hw2⟩
    | timeout => simp only [Prod.mk.injEq] at he; exact absurd he.1.symm ho
    | ret v => simp only [Prod.mk.injEq] at he; obtain ⟨_, rfl, rfl⟩ := he; exact g1 (by simp)
    | brk => simp only [Prod.mk.injEq] at he; obtain ⟨_, rfl, rfl⟩ := he; exact g1 (by simp)
    | cont => simp only [Prod.mk.injEq] at he; obtain ⟨_, rfl, rfl⟩ := he; exact g1 (by simp)
    | normal => simp only [Prod.mk.injEq] at he; obtain ⟨_, rfl, rfl⟩ := he; exact g1 (by simp)
  | defn name ps fl hf =>
    simp only [exec, Prod.mk.injEq] at he
    obtain ⟨_, rfl, rfl⟩ := he
    refine ⟨Bal.refl hb hσ, ⟨?_, hl.caller, hl.lexc⟩, hw⟩
    intro p hp
    rcases List.mem_cons.mp hp with rfl | hp
    · refine ⟨hf, ?_⟩
      show NSOK (if l.useLex = true then l.lexc else [])
      split
      · exact hl.lexc
      · exact NSOK_nil
    · exact hl.funs p hp
  | loopBlock ok items x hb' =>
    rename_i body
    rcases n with _ | n1
    · simp only [exec, Prod.mk.injEq] at he; exact absurd he.1.symm ho
    have A1 := ih n1 (by omega)
    simp only [exec] at he
    cases ok with
    | false => simp only [Prod.mk.injEq] at he; obtain ⟨_, rfl, rfl⟩ := he; exact ⟨Bal.refl hb hσ, hl, hw⟩
    | true =>
      simp only at he
      generalize hx : evalArgs c n1 items l σ = y at he
      obtain ⟨r, σ1⟩ := y
      have b1 := A1.args items l σ i top rest hl hσ hb _ _ hx
      cases r with
      | exc e => simp only [Prod.mk.injEq] at he; obtain ⟨_, rfl, rfl⟩ := he; exact ⟨b1 (by simp), hl, hw⟩
      | timeout => simp only [Prod.mk.injEq] at he; exact absurd he.1.symm ho
      | vals vs =>
        simp only at he
        have b1 := b1 (by simp)
        obtain ⟨w, hw'⟩ := b1.bufs
        -- the `for x in loop` under try/finally
        rcases n1 with _ | n2
        · simp only [exec, Prod.mk.injEq] at he; exact absurd he.1.symm ho
        have A2 := ih n2 (by omega)
        simp only [exec] at he
        generalize hy : forIter c n2 x vs body true l _ = z at he
        obtain ⟨o2, l2, σ2⟩ := z
        have hto : o2 ≠ .timeout := by
          rintro rfl
          simp only [Prod.mk.injEq] at he
          exact ho he.1.symm
        obtain ⟨b2, hl2, hw2⟩ := A2.iter x vs body true l { σ1 with loops := ⟨vs, 0⟩ :: σ1.loops } i _ rest hb' hl
          (b1.ok.of_eq rfl rfl) hw' hw _ _ _ hy hto
        simp only [if_true] at b2
        obtain ⟨w2, hw2'⟩ := b2.bufs
        have hloops : ∃ lc, σ2.loops = lc :: σ1.loops := by
          have h1 := b2.loops.1
          have h2 := b2.loops.2
          simp only [List.tail_cons] at h1
          cases hls : σ2.loops with
          | nil => simp [hls] at h2
          | cons lc r => simp only [hls, List.tail_cons] at h1; exact ⟨lc, by rw [h1]⟩
        obtain ⟨lc, hlc⟩ := hloops
        have bfin : Bal i top rest σ { σ2 with loops := σ1.loops } := by
          refine ⟨⟨w ++ w2, by simp [hw2']⟩, b2.frames.trans b1.frames, b1.loops, b2.next.trans b1.next, b2.ok.of_eq rfl rfl⟩
        have hfin : execPrim .loopExit l2 σ2 = (.normal, l2, { σ2 with loops := σ1.loops }) := by
          simp [execPrim, hlc]
        cases o2 <;> simp only [hfin, Prod.mk.injEq] at he <;>
          first
          | exact absurd rfl hto
          | (obtain ⟨_, rfl, rfl⟩ := he; exact ⟨bfin, hl2, hw2⟩)
  | textTag e hb' =>
    rename_i body
    rcases n with _ | n1
    · simp only [exec, Prod.mk.injEq] at he; exact absurd he.1.symm ho
    have A1 := ih n1 (by omega)
    simp only [exec, execPrim] at he
    generalize hx : exec c n1 body _ _ = y at he
    obtain ⟨o1, l1, σ1⟩ := y
    have hto : o1 ≠ .timeout := by
      rintro rfl
      simp only [Prod.mk.injEq] at he
      exact ho he.1.symm
    obtain ⟨b1, hl1, hw1⟩ := A1.exec body { l with writer := σ.nextId }
      { σ with bufs := (σ.nextId, []) :: σ.bufs, nextId := σ.nextId + 1 } σ.nextId [] ((i, top) :: rest) hb'
      ⟨hl.funs, hl.caller, hl.lexc⟩ (hσ.of_eq rfl rfl) (by simp [hb]) rfl _ _ _ hx hto
    obtain ⟨w1, hw1'⟩ := b1.bufs
    -- the finally clause: pop, rebind the writer, write the filtered content
    have hfin : ∀ o2 l2 σ2, exec c n1 (.seq (.prim .popBufferAndWriter) (.write e)) l1 σ1 = (o2, l2, σ2) →
        o2 ≠ .timeout → Bal i top rest σ σ2 ∧ LocOK l2 ∧ l2.writer = i := by
      intro o2 l2 σ2 h2 ho2
      rcases n1 with _ | n2
      · simp only [exec, Prod.mk.injEq] at h2; exact absurd h2.1.symm ho2
      rcases n2 with _ | n3
      · simp only [exec, Prod.mk.injEq] at h2; exact absurd h2.1.symm ho2
      have A3 := ih (n3 + 1) (by omega)
      rw [show exec c (n3 + 1 + 1) (.seq (.prim .popBufferAndWriter) (.write e)) l1 σ1
            = exec c (n3 + 1) (.write e) { l1 with mbuf := [] ++ w1, writer := i } { σ1 with bufs := (i, top) :: rest }
          from by simp [exec, execPrim, hw1']] at h2
      obtain ⟨b2, hl2, hw2⟩ := A3.exec (.write e) { l1 with mbuf := [] ++ w1, writer := i }
        { σ1 with bufs := (i, top) :: rest } i top rest (WS.write e) ⟨hl1.funs, hl1.caller, hl1.lexc⟩
        (b1.ok.of_eq rfl rfl) rfl rfl o2 l2 σ2 h2 ho2
      refine ⟨?_, hl2, hw2⟩
      refine ⟨b2.bufs, b2.frames.trans b1.frames, b2.loops.trans b1.loops, b2.next.trans b1.next, b2.ok⟩
    cases o1 <;> simp only at he <;> (try exact absurd rfl hto) <;>
    ( generalize hz : exec c n1 (.seq (.prim .popBufferAndWriter) (.write e)) l1 σ1 = z at he
      obtain ⟨o2, l2, σ2⟩ := z
      have hf2 := hfin o2 l2 σ2 hz
      cases o2 <;> simp only [Prod.mk.injEq] at he <;>
        first
        | exact absurd he.1.symm ho
        | (obtain ⟨_, rfl, rfl⟩ := he; exact hf2 (by simp)) )
  | callTag e hd =>
    rename_i d
    rcases n with _ | n1
    · simp only [exec, Prod.mk.injEq] at he; exact absurd he.1.symm ho
    simp only [exec] at he
    rcases n1 with _ | n2
    · simp only [exec, execPrim, Prod.mk.injEq] at he; exact absurd he.1.symm ho
    simp only [exec, execPrim] at he
    rcases n2 with _ | n3
    · simp only [exec, Prod.mk.injEq] at he; exact absurd he.1.symm ho
    have A3 := ih n3 (by omega)
    simp only [exec, execPrim] at he
    -- the activation's `__M_nextcaller` now holds the pending caller; it is put back on every exit path
    have hσ1 : StOK { σ with next := ⟨collectDefs d, l.mod⟩ :: l.caller } := by
      refine ⟨hσ.frames, ?_⟩
      intro layer hlay
      rcases List.mem_cons.mp hlay with rfl | h
      · exact collectDefs_ok hd
      · exact hl.caller layer h
    generalize hx : eval c n3 e _ _ = y at he
    obtain ⟨r, σ1⟩ := y
    have b1 := A3.eval e { l with savedNext := σ.next } { σ with next := ⟨collectDefs d, l.mod⟩ :: l.caller } i top rest
      ⟨hl.funs, hl.caller, hl.lexc⟩ hσ1 hb _ _ hx
    have key : ∀ σ2 : St, (∃ w, σ2.bufs = (i, top ++ w) :: rest) → σ2.frames = σ.frames → σ2.loops = σ.loops →
        StOK σ2 → Bal i top rest σ { σ2 with next := σ.next } := by
      intro σ2 hb2 hf2 hl2 ok2
      exact ⟨hb2, hf2, hl2, rfl, ⟨ok2.frames, hσ.next⟩⟩
    cases r with
    | timeout => simp only [Prod.mk.injEq] at he; exact absurd he.1.symm ho
    | exc e' =>
      have b1 := b1 (by simp)
      simp only [Prod.mk.injEq] at he
      obtain ⟨_, rfl, rfl⟩ := he
      exact ⟨key σ1 b1.bufs b1.frames b1.loops b1.ok, ⟨hl.funs, hl.caller, hl.lexc⟩, hw⟩
    | val v =>
      have b1 := b1 (by simp)
      obtain ⟨w, hw'⟩ := b1.bufs
      simp only [Prod.mk.injEq] at he
      obtain ⟨_, rfl, rfl⟩ := he
      refine ⟨key { σ1 with bufs := writeTo l.writer v σ1.bufs } ⟨w ++ v, ?_⟩ b1.frames b1.loops (b1.ok.of_eq rfl rfl),
        ⟨hl.funs, hl.caller, hl.lexc⟩, hw⟩
      simp [hw', hw, writeTo]

/-- a prologue of closure definitions only extends the locals -/
theorem exec_defs : ∀ (d : Stmt) (n : Nat) (l : Loc) (σ : St) (o : Outcome) (l' : Loc) (σ' : St),
    WS d → isDefs d = true → LocOK l → exec c n d l σ = (o, l', σ') → o ≠ .timeout →
    o = .normal ∧ σ' = σ ∧ LocOK l' := by
  intro d
  induction d with
  | skip =>
    intro n l σ o l' σ' _ _ hl he ho
    rcases n with _ | n
    · simp only [exec, Prod.mk.injEq] at he; exact absurd he.1.symm ho
    simp only [exec, Prod.mk.injEq] at he; obtain ⟨rfl, rfl, rfl⟩ := he; exact ⟨rfl, rfl, hl⟩
  | seq a b iha ihb =>
    intro n l σ o l' σ' hs hd hl he ho
    simp only [isDefs, Bool.and_eq_true] at hd
    have hab : WS a ∧ WS b := by
      cases hs with
      | seq ha hb => exact ⟨ha, hb⟩
      | loopBlock => simp [isDefs] at hd
      | textTag => simp [isDefs] at hd
      | callTag => simp [isDefs] at hd
    rcases n with _ | n
    · simp only [exec, Prod.mk.injEq] at he; exact absurd he.1.symm ho
    simp only [exec] at he
    generalize hx : exec c n a l σ = x at he
    obtain ⟨o1, l1, σ1⟩ := x
    have g1 := iha n l σ o1 l1 σ1 hab.1 hd.1 hl hx
    cases o1 with
    | normal =>
      obtain ⟨_, rfl, hl1⟩ := g1 (by simp)
      exact ihb n l1 σ1 o l' σ' hab.2 hd.2 hl1 he ho
    | timeout => simp only [Prod.mk.injEq] at he; exact absurd he.1.symm ho
    | ret v => exact absurd (g1 (by simp)).1 (by simp)
    | brk => exact absurd (g1 (by simp)).1 (by simp)
    | cont => exact absurd (g1 (by simp)).1 (by simp)
    | exc e => exact absurd (g1 (by simp)).1 (by simp)
  | defn name ps fl b _ =>
    intro n l σ o l' σ' hs _ hl he ho
    rcases n with _ | n
    · simp only [exec, Prod.mk.injEq] at he; exact absurd he.1.symm ho
    cases hs with
    | defn _ _ _ hf =>
      simp only [exec, Prod.mk.injEq] at he
      obtain ⟨rfl, rfl, rfl⟩ := he
      refine ⟨rfl, rfl, ⟨?_, hl.caller, hl.lexc⟩⟩
      intro p hp
      rcases List.mem_cons.mp hp with rfl | hp
      · refine ⟨hf, ?_⟩
        show NSOK (if l.useLex = true then l.lexc else [])
        split
        · exact hl.lexc
        · exact NSOK_nil
      · exact hl.funs p hp
  | _ => intro n l σ o l' σ' _ hd; simp [isDefs] at hd

/-- prologue, `__M_writer = context.writer()`, then well-shaped code -/
theorem inner_good (m : Nat) (ih : ∀ k, k < m → All c k) {pre r : Stmt} (hp : WS pre) (hd : isDefs pre = true)
    (hr : WS r) {l σ i top rest} (hl : LocOK l) (hσ : StOK σ) (hb : σ.bufs = (i, top) :: rest) {o l' σ'}
    (he : exec c m (.seq (.seq pre (.prim .getWriter)) r) l σ = (o, l', σ')) (ho : o ≠ .timeout) :
    Bal i top rest σ σ' ∧ LocOK l' ∧ l'.writer = i := by
  rcases m with _ | m1
  · simp only [exec, Prod.mk.injEq] at he; exact absurd he.1.symm ho
  have A1 := ih m1 (by omega)
  simp only [exec] at he
  generalize hx : exec c m1 (.seq pre (.prim .getWriter)) l σ = x at he
  obtain ⟨o1, l1, σ1⟩ := x
  -- the prologue ends normally with the writer bound to the top buffer
  have hpro : o1 ≠ .timeout → o1 = .normal ∧ σ1 = σ ∧ LocOK l1 ∧ l1.writer = i := by
    intro h1
    rcases m1 with _ | m2
    · simp only [exec, Prod.mk.injEq] at hx; exact absurd hx.1.symm h1
    simp only [exec] at hx
    generalize hy : exec c m2 pre l σ = y at hx
    obtain ⟨o2, l2, σ2⟩ := y
    have g2 := exec_defs c pre m2 l σ o2 l2 σ2 hp hd hl hy
    cases o2 with
    | timeout => simp only [Prod.mk.injEq] at hx; exact absurd hx.1.symm h1
    | normal =>
      obtain ⟨_, rfl, hl2⟩ := g2 (by simp)
      rcases m2 with _ | m3
      · simp only [exec, Prod.mk.injEq] at hx; exact absurd hx.1.symm h1
      simp only [exec, execPrim, hb, Prod.mk.injEq] at hx
      obtain ⟨rfl, rfl, rfl⟩ := hx
      exact ⟨rfl, rfl, ⟨hl2.funs, hl2.caller, hl2.lexc⟩, rfl⟩
    | ret v => exact absurd (g2 (by simp)).1 (by simp)
    | brk => exact absurd (g2 (by simp)).1 (by simp)
    | cont => exact absurd (g2 (by simp)).1 (by simp)
    | exc e => exact absurd (g2 (by simp)).1 (by simp)
  cases o1 with
  | timeout => simp only [Prod.mk.injEq] at he; exact absurd he.1.symm ho
  | normal =>
    obtain ⟨_, rfl, hl1, hw1⟩ := hpro (by simp)
    exact A1.exec r l1 σ1 i top rest hr hl1 hσ hb hw1 _ _ _ he ho
  | ret v => exact absurd (hpro (by simp)).1 (by simp)
  | brk => exact absurd (hpro (by simp)).1 (by simp)
  | cont => exact absurd (hpro (by simp)).1 (by simp)
  | exc e => exact absurd (hpro (by simp)).1 (by simp)

/-- the buffered core of `write_def_finish`: `try: push_buffer; prologue; body  finally: pop…; pop_frame`.
    Whatever the outcome, the outer buffer is *exactly* as before (the content of the abandoned or finished
    buffer is in `__M_buf` only), the frame is popped and `nextcaller` restored. -/
theorem core_good (m : Nat) (ih : ∀ k, k < m → All c k) {pre b : Stmt} (p : Prim)
    (hpp : p = .popBuffer ∨ p = .popBufferAndWriter) (hp : WS pre) (hd : isDefs pre = true) (hb' : WS b)
    {l σ i top rest f fr} (hl : LocOK l) (hσ : StOK σ) (hb : σ.bufs = (i, top) :: rest)
    (hf : σ.frames = f :: fr) (hn : σ.next = []) {o l' σ'}
    (he : exec c m (.tryFinally (.seq (.prim .pushBuffer) (.seq (.seq pre (.prim .getWriter)) b))
                      (.seq (.prim p) (.prim .popFrame))) l σ = (o, l', σ')) (ho : o ≠ .timeout) :
    σ'.bufs = (i, top) :: rest ∧ σ'.frames = fr ∧ σ'.next = f ∧ σ'.loops = σ.loops ∧ LocOK l' ∧
      (p = .popBufferAndWriter → l'.writer = i) := by
  rcases m with _ | m1
  · simp only [exec, Prod.mk.injEq] at he; exact absurd he.1.symm ho
  simp only [exec] at he
  generalize hx : exec c m1 (.seq (.prim .pushBuffer) (.seq (.seq pre (.prim .getWriter)) b)) l σ = x at he
  obtain ⟨o1, l1, σ1⟩ := x
  have hT : o1 ≠ .timeout → ∃ w, σ1.bufs = (σ.nextId, w) :: (i, top) :: rest ∧ σ1.frames = f :: fr ∧ σ1.next = [] ∧
      σ1.loops = σ.loops ∧ LocOK l1 := by
    intro h1
    rcases m1 with _ | m2
    · simp only [exec, Prod.mk.injEq] at hx; exact absurd hx.1.symm h1
    simp only [exec] at hx
    rcases m2 with _ | m3
    · simp only [exec, Prod.mk.injEq] at hx; exact absurd hx.1.symm h1
    simp only [exec, execPrim] at hx
    obtain ⟨b1, hl1, _⟩ := inner_good c (m3 + 1) (fun k hk => ih k (by omega)) hp hd hb' hl
      (σ := { σ with bufs := (σ.nextId, []) :: σ.bufs, nextId := σ.nextId + 1 }) (hσ.of_eq rfl rfl)
      (i := σ.nextId) (top := []) (rest := (i, top) :: rest) (by simp [hb]) hx h1
    obtain ⟨w, hw⟩ := b1.bufs
    refine ⟨w, by simpa using hw, by rw [b1.frames]; exact hf, ?_, b1.loops, hl1⟩
    rw [b1.next]; exact hn
  have hF : ∀ l1 σ1 w o2 l2 σ2, σ1.bufs = (σ.nextId, w) :: (i, top) :: rest → σ1.frames = f :: fr → LocOK l1 →
      exec c m1 (.seq (.prim p) (.prim .popFrame)) l1 σ1 = (o2, l2, σ2) → o2 ≠ .timeout →
      o2 = .normal ∧ σ2.bufs = (i, top) :: rest ∧ σ2.frames = fr ∧ σ2.next = f ∧ σ2.loops = σ1.loops ∧ LocOK l2 ∧
        (p = .popBufferAndWriter → l2.writer = i) := by
    intro l1 σ1 w o2 l2 σ2 hb1 hf1 hl1 h2 ho2
    rcases m1 with _ | m2
    · simp only [exec, Prod.mk.injEq] at h2; exact absurd h2.1.symm ho2
    rcases m2 with _ | m3
    · simp only [exec, Prod.mk.injEq] at h2; exact absurd h2.1.symm ho2
    rcases hpp with rfl | rfl
    · simp only [exec, execPrim, hb1, hf1, Prod.mk.injEq] at h2
      obtain ⟨rfl, rfl, rfl⟩ := h2
      exact ⟨rfl, rfl, rfl, rfl, rfl, ⟨hl1.funs, hl1.caller, hl1.lexc⟩, by simp⟩
    · simp only [exec, execPrim, hb1, hf1, Prod.mk.injEq] at h2
      obtain ⟨rfl, rfl, rfl⟩ := h2
      exact ⟨rfl, rfl, rfl, rfl, rfl, ⟨hl1.funs, hl1.caller, hl1.lexc⟩, fun _ => rfl⟩
  have hto : o1 ≠ .timeout := by
    rintro rfl
    simp only [Prod.mk.injEq] at he
    exact ho he.1.symm
  obtain ⟨w, hb1, hf1, hn1, hlo1, hl1⟩ := hT hto
  cases o1 <;> simp only at he <;> (try exact absurd rfl hto) <;>
  ( generalize hz : exec c m1 (.seq (.prim p) (.prim .popFrame)) l1 σ1 = z at he
    obtain ⟨o2, l2, σ2⟩ := z
    have hf2 := hF l1 σ1 w o2 l2 σ2 hb1 hf1 hl1 hz
    cases o2 <;> simp only [Prod.mk.injEq] at he <;>
      first
      | exact absurd he.1.symm ho
      | (obtain ⟨_, rfl, rfl⟩ := he
         obtain ⟨_, h1, h2, h3, h4, h5, h6⟩ := hf2 (by simp)
         exact ⟨h1, h2, h3, h4.trans hlo1, h5, h6⟩) )

theorem body_good (n : Nat) (ih : ∀ m, m < n + 1 → All c m) : BodyGood c (n + 1) := by
  intro b l σ i top rest hwf hl hσ hb o l' σ' he ho
  cases hwf with
  | bare hp hd hr =>
    exact (inner_good c (n + 1) ih hp hd hr hl hσ hb he ho).1
  | plain hp hd hr =>
    rename_i pre r
    rcases n with _ | n1
    · simp only [exec, Prod.mk.injEq] at he; exact absurd he.1.symm ho
    simp only [exec, execPrim] at he
    generalize hx : exec c n1 (.seq (.seq pre (.prim .getWriter)) r) _ _ = x at he
    obtain ⟨o1, l1, σ1⟩ := x
    have hto : o1 ≠ .timeout := by
      rintro rfl
      simp only [Prod.mk.injEq] at he
      exact ho he.1.symm
    obtain ⟨b1, hl1, _⟩ := inner_good c n1 (fun k hk => ih k (by omega)) hp hd hr
      (l := { l with caller := σ.next }) ⟨hl.funs, hσ.next, hl.lexc⟩
      (σ := { σ with frames := σ.next :: σ.frames, next := [] })
      ⟨by intro f hf
          rcases List.mem_cons.mp hf with rfl | h
          · exact hσ.next
          · exact hσ.frames f h, NSOK_nil⟩ hb hx hto
    have hfr : σ1.frames = σ.next :: σ.frames := b1.frames
    have bfin : Bal i top rest σ { σ1 with frames := σ.frames, next := σ.next } :=
      ⟨b1.bufs, rfl, b1.loops, rfl, ⟨hσ.frames, hσ.next⟩⟩
    rcases n1 with _ | n2
    · simp only [exec, Prod.mk.injEq] at hx; exact absurd hx.1.symm hto
    simp only [exec, execPrim, hfr] at he
    cases o1 <;> simp only [Prod.mk.injEq] at he <;>
      first
      | exact absurd rfl hto
      | (obtain ⟨_, _, rfl⟩ := he; exact bfin)
  | buffered e hp hd hb' =>
    rename_i pre body
    rcases n with _ | n1
    · simp only [exec, Prod.mk.injEq] at he; exact absurd he.1.symm ho
    simp only [exec, execPrim] at he
    generalize hx : exec c n1 (.tryFinally _ _) _ _ = x at he
    obtain ⟨o1, l1, σ1⟩ := x
    have hσ0 : StOK { σ with frames := σ.next :: σ.frames, next := [] } :=
      ⟨by intro f hf
          rcases List.mem_cons.mp hf with rfl | h
          · exact hσ.next
          · exact hσ.frames f h, NSOK_nil⟩
    have core := core_good c n1 (fun k hk => ih k (by omega)) .popBuffer (.inl rfl) hp hd hb'
      (l := { l with caller := σ.next }) ⟨hl.funs, hσ.next, hl.lexc⟩ hσ0 (i := i) (top := top) (rest := rest) hb
      (f := σ.next) (fr := σ.frames) rfl rfl hx
    have fin : o1 ≠ .timeout → Bal i top rest σ σ1 ∧ LocOK l1 := by
      intro h1
      obtain ⟨h1, h2, h3, h4, h5, _⟩ := core h1
      exact ⟨⟨⟨[], by simp [h1]⟩, h2, h4, h3, ⟨by rw [h2]; exact hσ.frames, by rw [h3]; exact hσ.next⟩⟩, h5⟩
    cases o1 with
    | timeout => simp only [Prod.mk.injEq] at he; exact absurd he.1.symm ho
    | normal =>
      simp only at he
      obtain ⟨b1, hl1⟩ := fin (by simp)
      obtain ⟨w, hw⟩ := b1.bufs
      -- `return filter(__M_buf.getvalue())`
      rcases n1 with _ | n3
      · simp only [exec, Prod.mk.injEq] at he; exact absurd he.1.symm ho
      have A3 := ih n3 (by omega)
      simp only [exec] at he
      generalize hy : eval c n3 e l1 σ1 = y at he
      obtain ⟨r, σ2⟩ := y
      have b2 := A3.eval e l1 σ1 i _ rest hl1 b1.ok hw _ _ hy
      cases r <;> simp only [Prod.mk.injEq] at he <;>
        first
        | exact absurd he.1.symm ho
        | (obtain ⟨_, _, rfl⟩ := he; exact b1.trans hw (b2 (by simp)))
    | ret v => simp only [Prod.mk.injEq] at he; obtain ⟨_, _, rfl⟩ := he; exact (fin (by simp)).1
    | brk => simp only [Prod.mk.injEq] at he; obtain ⟨_, _, rfl⟩ := he; exact (fin (by simp)).1
    | cont => simp only [Prod.mk.injEq] at he; obtain ⟨_, _, rfl⟩ := he; exact (fin (by simp)).1
    | exc e => simp only [Prod.mk.injEq] at he; obtain ⟨_, _, rfl⟩ := he; exact (fin (by simp)).1
  | filtered hp hd hb' hr =>
    rename_i pre body r
    rcases n with _ | n1
    · simp only [exec, Prod.mk.injEq] at he; exact absurd he.1.symm ho
    simp only [exec, execPrim] at he
    have A2 := ih n1 (by omega)
    generalize hx : exec c n1 (.tryFinally _ _) _ _ = x at he
    obtain ⟨o1, l1, σ1⟩ := x
    have hσ0 : StOK { σ with frames := σ.next :: σ.frames, next := [] } :=
      ⟨by intro f hf
          rcases List.mem_cons.mp hf with rfl | h
          · exact hσ.next
          · exact hσ.frames f h, NSOK_nil⟩
    have core := core_good c n1 (fun k hk => ih k (by omega)) .popBufferAndWriter (.inr rfl) hp hd hb'
      (l := { l with caller := σ.next }) ⟨hl.funs, hσ.next, hl.lexc⟩ hσ0 (i := i) (top := top) (rest := rest) hb
      (f := σ.next) (fr := σ.frames) rfl rfl hx
    have fin : o1 ≠ .timeout → Bal i top rest σ σ1 ∧ LocOK l1 ∧ l1.writer = i := by
      intro h1
      obtain ⟨h1, h2, h3, h4, h5, h6⟩ := core h1
      exact ⟨⟨⟨[], by simp [h1]⟩, h2, h4, h3, ⟨by rw [h2]; exact hσ.frames, by rw [h3]; exact hσ.next⟩⟩, h5, h6 rfl⟩
    cases o1 with
    | timeout => simp only [Prod.mk.injEq] at he; exact absurd he.1.symm ho
    | normal =>
      simp only at he
      obtain ⟨b1, hl1, hw1⟩ := fin (by simp)
      obtain ⟨w, hw⟩ := b1.bufs
      obtain ⟨b2, _, _⟩ := A2.exec r l1 σ1 i _ rest hr hl1 b1.ok hw hw1 _ _ _ he ho
      exact b1.trans hw b2
    | ret v => simp only [Prod.mk.injEq] at he; obtain ⟨_, _, rfl⟩ := he; exact (fin (by simp)).1
    | brk => simp only [Prod.mk.injEq] at he; obtain ⟨_, _, rfl⟩ := he; exact (fin (by simp)).1
    | cont => simp only [Prod.mk.injEq] at he; obtain ⟨_, _, rfl⟩ := he; exact (fin (by simp)).1
    | exc e => simp only [Prod.mk.injEq] at he; obtain ⟨_, _, rfl⟩ := he; exact (fin (by simp)).1

theorem all_zero : All c 0 := by
  refine ⟨?_, ?_, ?_, ?_, ?_, ?_⟩
  · intro e l σ i top rest _ _ _ r σ' he hr; simp only [eval, Prod.mk.injEq] at he; exact absurd he.1.symm hr
  · intro es l σ i top rest _ _ _ r σ' he hr; simp only [evalArgs, Prod.mk.injEq] at he; exact absurd he.1.symm hr
  · intro clo vs l σ i top rest _ _ _ _ _ r σ' he hr; simp only [invoke, Prod.mk.injEq] at he; exact absurd he.1.symm hr
  · intro s l σ i top rest _ _ _ _ _ o l' σ' he ho; simp only [exec, Prod.mk.injEq] at he; exact absurd he.1.symm ho
  · intro b l σ i top rest _ _ _ _ o l' σ' he ho; simp only [exec, Prod.mk.injEq] at he; exact absurd he.1.symm ho
  · intro x vs body ctx l σ i top rest _ _ _ _ _ o l' σ' he ho
    simp only [forIter, Prod.mk.injEq] at he; exact absurd he.1.symm ho

/-- every terminating execution of well-shaped code is balanced, for every fuel -/
theorem all_good (hc : CfgOK c) : ∀ n, All c n := by
  intro n
  induction n using Nat.strongRecOn with
  | _ n ih =>
    rcases n with _ | n
    · exact all_zero c
    · exact ⟨eval_good c n ih hc, args_good c n ih, invoke_good c n ih, exec_good c n ih, body_good c n ih,
        iter_good c n ih⟩


/-! ## Locals that no statement touches -/

/-- the lexical `caller`, its mode and the module of an activation are never changed by its statements -/
def KeepLex (l l' : Loc) : Prop := l'.lexc = l.lexc ∧ l'.useLex = l.useLex ∧ l'.mod = l.mod

theorem execPrim_keeps (p : Prim) (l : Loc) (σ : St) : KeepLex l (execPrim p l σ).2.1 := by
  cases p <;> simp only [execPrim] <;> (try split) <;> exact ⟨rfl, rfl, rfl⟩

theorem KeepLex.trans {a b d : Loc} (h1 : KeepLex a b) (h2 : KeepLex b d) : KeepLex a d :=
  ⟨h2.1.trans h1.1, h2.2.1.trans h1.2.1, h2.2.2.trans h1.2.2⟩

theorem exec_keeps_lex : ∀ (n : Nat),
    (∀ s l σ o l' σ', exec c n s l σ = (o, l', σ') → KeepLex l l') ∧
    (∀ x vs body ctx l σ o l' σ', forIter c n x vs body ctx l σ = (o, l', σ') → KeepLex l l') := by
  intro n
  induction n with
  | zero =>
    refine ⟨fun s l σ o l' σ' he => ?_, fun x vs body ctx l σ o l' σ' he => ?_⟩
    · simp only [exec, Prod.mk.injEq] at he; obtain ⟨_, rfl, _⟩ := he; exact ⟨rfl, rfl, rfl⟩
    · simp only [forIter, Prod.mk.injEq] at he; obtain ⟨_, rfl, _⟩ := he; exact ⟨rfl, rfl, rfl⟩
  | succ n ih =>
    obtain ⟨ihe, ihi⟩ := ih
    have R : ∀ l : Loc, KeepLex l l := fun l => ⟨rfl, rfl, rfl⟩
    refine ⟨?_, ?_⟩
    · intro s l σ o l' σ' he
      cases s with
      | skip => simp only [exec, Prod.mk.injEq] at he; obtain ⟨_, rfl, _⟩ := he; exact R _
      | brk => simp only [exec, Prod.mk.injEq] at he; obtain ⟨_, rfl, _⟩ := he; exact R _
      | cont => simp only [exec, Prod.mk.injEq] at he; obtain ⟨_, rfl, _⟩ := he; exact R _
      | raise k => simp only [exec, Prod.mk.injEq] at he; obtain ⟨_, rfl, _⟩ := he; exact R _
      | write e =>
        simp only [exec] at he
        split at he <;> (simp only [Prod.mk.injEq] at he; obtain ⟨_, rfl, _⟩ := he; exact R _)
      | exprStmt e =>
        simp only [exec] at he
        split at he <;> (simp only [Prod.mk.injEq] at he; obtain ⟨_, rfl, _⟩ := he; exact R _)
      | ret e =>
        simp only [exec] at he
        split at he <;> (simp only [Prod.mk.injEq] at he; obtain ⟨_, rfl, _⟩ := he; exact R _)
      | prim p =>
        simp only [exec] at he
        have := execPrim_keeps p l σ
        rw [he] at this
        exact this
      | loopEnter ok items =>
        cases ok
        · simp only [exec, Prod.mk.injEq] at he; obtain ⟨_, rfl, _⟩ := he; exact R _
        · simp only [exec] at he
          split at he <;> (simp only [Prod.mk.injEq] at he; obtain ⟨_, rfl, _⟩ := he; exact R _)
      | defn name ps fl b => simp only [exec, Prod.mk.injEq] at he; obtain ⟨_, rfl, _⟩ := he; exact ⟨rfl, rfl, rfl⟩
      | setNextCaller d => simp only [exec, Prod.mk.injEq] at he; obtain ⟨_, rfl, _⟩ := he; exact R _
      | seq a b =>
        simp only [exec] at he
        generalize hx : exec c n a l σ = x at he
        obtain ⟨o1, l1, σ1⟩ := x
        have h1 := ihe a l σ o1 l1 σ1 hx
        cases o1 <;> simp only [Prod.mk.injEq] at he <;>
          first
          | (obtain ⟨_, rfl, _⟩ := he; exact h1)
          | exact h1.trans (ihe b l1 σ1 o l' σ' he)
      | ite cnd t e =>
        simp only [exec] at he
        split at he
        · split at he
          · exact ihe e l _ o l' σ' he
          · exact ihe t l _ o l' σ' he
        · simp only [Prod.mk.injEq] at he; obtain ⟨_, rfl, _⟩ := he; exact R _
        · simp only [Prod.mk.injEq] at he; obtain ⟨_, rfl, _⟩ := he; exact R _
      | forIn x items body =>
        simp only [exec] at he
        split at he
        · exact ihi x _ body false l _ o l' σ' he
        · simp only [Prod.mk.injEq] at he; obtain ⟨_, rfl, _⟩ := he; exact R _
        · simp only [Prod.mk.injEq] at he; obtain ⟨_, rfl, _⟩ := he; exact R _
      | forLoop x body =>
        simp only [exec] at he
        split at he
        · simp only [Prod.mk.injEq] at he; obtain ⟨_, rfl, _⟩ := he; exact R _
        · exact ihi x _ body true l σ o l' σ' he
      | whileLt m body =>
        simp only [exec] at he
        generalize tick c.k σ = y at he
        obtain ⟨tb, σ1⟩ := y
        cases tb with
        | true => simp only [Prod.mk.injEq] at he; obtain ⟨_, rfl, _⟩ := he; exact R _
        | false =>
          simp only at he
          split at he
          · generalize hx : exec c n body l σ1 = x at he
            obtain ⟨o1, l1, σ2⟩ := x
            have h1 := ihe body l σ1 o1 l1 σ2 hx
            cases o1 <;> simp only [Prod.mk.injEq] at he <;>
              first
              | (obtain ⟨_, rfl, _⟩ := he; exact h1)
              | exact h1.trans (ihe _ l1 σ2 o l' σ' he)
          · simp only [Prod.mk.injEq] at he; obtain ⟨_, rfl, _⟩ := he; exact R _
      | tryExcept b h =>
        simp only [exec] at he
        generalize hx : exec c n b l σ = x at he
        obtain ⟨o1, l1, σ1⟩ := x
        have h1 := ihe b l σ o1 l1 σ1 hx
        cases o1 <;> simp only [Prod.mk.injEq] at he <;>
          first
          | (obtain ⟨_, rfl, _⟩ := he; exact h1)
          | exact h1.trans (ihe h l1 σ1 o l' σ' he)
      | tryFinally b f =>
        simp only [exec] at he
        generalize hx : exec c n b l σ = x at he
        obtain ⟨o1, l1, σ1⟩ := x
        have h1 := ihe b l σ o1 l1 σ1 hx
        cases o1 <;> simp only at he <;>
          first
          | (simp only [Prod.mk.injEq] at he; obtain ⟨_, rfl, _⟩ := he; exact h1)
          | ( generalize hy : exec c n f l1 σ1 = y at he
              obtain ⟨o2, l2, σ2⟩ := y
              have h2 := ihe f l1 σ1 o2 l2 σ2 hy
              cases o2 <;> simp only [Prod.mk.injEq] at he <;> (obtain ⟨_, rfl, _⟩ := he; exact h1.trans h2) )
    · intro x vs body ctx l σ o l' σ' he
      cases vs with
      | nil => simp only [forIter, Prod.mk.injEq] at he; obtain ⟨_, rfl, _⟩ := he; exact R _
      | cons v vs =>
        simp only [forIter] at he
        generalize hx : exec c n body { l with vars := (x, v) :: l.vars } σ = y at he
        obtain ⟨o1, l1, σ1⟩ := y
        have h1 := ihe body _ σ o1 l1 σ1 hx
        have h0 : KeepLex l l1 := ⟨h1.1, h1.2.1, h1.2.2⟩
        cases o1 <;> simp only [Prod.mk.injEq] at he <;>
          first
          | (obtain ⟨_, rfl, _⟩ := he; exact h0)
          | exact h0.trans (ihi x vs body ctx l1 _ o l' σ' he)

end MakoModel.Target
