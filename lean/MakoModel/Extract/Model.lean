import MakoModel.Basic.Lines
import MakoModel.Basic.Unicode
/-!
# Message extraction (`mako/ext/extract.py`, `babelplugin.py`, `linguaplugin.py`)

The model takes the *parse tree* as input (in the correspondence it is the tree the real `Lexer` built):
every node carries its kind, `lineno`, the code string `MessageExtractor.extract_nodes` selects for that
kind, the filter list of an expression (`escapes`, handed over together with the expression), the text of a
`Comment`/`Text` node and the children (`node.nodes` of a tag).

The Python-level call finder (Babel's `extract_python`, Lingua's python extractor) is a parameter
`finder : code string → hits`; every theorem holds for every finder.

`runNodes` is `extract_nodes` as written: the loop state is `translator_comments` / `in_translator_comments`,
one `Inv` record is produced per call of `self.process_python(code, node.lineno - 1, translator_strings)`
(the generator's output is the concatenation of the `out` fields, `extract`).
-/
namespace MakoModel.Extract
open MakoModel.Basic

abbrev Str := List Char

/-- node classes as `extract_nodes` distinguishes them (`namespaceTag` = `<%namespace>`; `other` = any other tag:
    include, inherit, `<%text>`; `ctlEnd` = a `ControlLine` with `isend`) -/
inductive Kind
  | text | comment | defTag | blockTag | callTag | pageTag | nsCall | namespaceTag | ctl | ctlEnd | code | expr | other
  deriving DecidableEq, Repr

/-- `code`: `function_decl.code` (def), `body_decl.code` (block, page), `code.code` (call, `<% %>`, `${}`),
    `expression` (`<%ns:def>`), `text` (control line).  `esc`: `Expression.escapes`;
    `escOff`: `Expression.escapes_lineno_offset` (line of the first filter relative to the `${`).
    `text`: `Comment.text` / `Text.content`. -/
inductive Node where
  | mk (kind : Kind) (lineno : Nat) (code esc : Str) (escOff : Nat) (text : Str) (children : List Node)

def Node.kind : Node → Kind | .mk k _ _ _ _ _ _ => k
def Node.lineno : Node → Nat | .mk _ l _ _ _ _ _ => l
def Node.code : Node → Str | .mk _ _ c _ _ _ _ => c
def Node.esc : Node → Str | .mk _ _ _ e _ _ _ => e
def Node.escOff : Node → Nat | .mk _ _ _ _ o _ _ => o
def Node.text : Node → Str | .mk _ _ _ _ _ t _ => t
def Node.children : Node → List Node | .mk _ _ _ _ _ _ ch => ch

/-- the branches of `extract_nodes` that assign `code` -/
def Kind.pythonBearing : Kind → Bool
  | .defTag | .blockTag | .callTag | .pageTag | .nsCall | .ctl | .code | .expr => true
  | _ => false

/-- the branches that also assign `child_nodes = node.nodes` -/
def Kind.recurses : Kind → Bool
  | .defTag | .blockTag | .callTag | .nsCall => true
  | _ => false

/-! ## the string helpers of Python that the extractor uses -/

/-- `s.lstrip()` -/
def lstrip (s : Str) : Str := s.dropWhile isPySpace
/-- `s.rstrip()` -/
def rstrip (s : Str) : Str := (s.reverse.dropWhile isPySpace).reverse
/-- `s.strip()` -/
def strip (s : Str) : Str := rstrip (lstrip s)
/-- `not s.strip()` -/
def isBlankStr (s : Str) : Bool := s.all isPySpace

/-- line boundaries of `str.splitlines` (besides `\r\n`) -/
def isLineBreak (c : Char) : Bool :=
  c == '\n' || c == '\r' || c.toNat == 0x0b || c.toNat == 0x0c || c.toNat == 0x1c || c.toNat == 0x1d ||
  c.toNat == 0x1e || c.toNat == 0x85 || c.toNat == 0x2028 || c.toNat == 0x2029

/-- `s.splitlines()`; `cur` is the line being collected (reversed) -/
def splitLinesAux : Str → Str → List Str
  | [], cur => if cur.isEmpty then [] else [cur.reverse]
  | '\r' :: '\n' :: rest, cur => cur.reverse :: splitLinesAux rest []
  | c :: rest, cur => if isLineBreak c then cur.reverse :: splitLinesAux rest [] else splitLinesAux rest (c :: cur)

def splitLines (s : Str) : List Str := splitLinesAux s []

/-- `filter(None, re.split(r"\s+", s))` -/
def splitWsAux : Str → Str → List Str
  | [], cur => if cur.isEmpty then [] else [cur.reverse]
  | c :: rest, cur =>
    if isSpace c then (if cur.isEmpty then splitWsAux rest [] else cur.reverse :: splitWsAux rest [])
    else splitWsAux rest (c :: cur)

def splitWs (s : Str) : List Str := splitWsAux s []

/-- `sep.join(xs)` -/
def joinWith (sep : Str) : List Str → Str
  | [] => []
  | [x] => x
  | x :: y :: r => x ++ sep ++ joinWith sep (y :: r)

/-- `MessageExtractor._split_comment(lineno, comment)` -/
def splitComment (lineno : Nat) (comment : Str) : List (Nat × Str) :=
  (splitLines comment).zipIdx.map fun (l, i) => (lineno + i, l)

/-! ## `extract_nodes` -/

/-- loop state: `translator_comments`, `in_translator_comments` -/
structure St where
  tc : List (Nat × Str)
  inTC : Bool
  deriving DecidableEq, Repr

def St.clean : St := ⟨[], false⟩

/-- one call `self.process_python(code, node.lineno - 1, translator_strings)` and what it yielded -/
structure Inv (α : Type) where
  lineno : Nat
  code : Str
  ts : List Str
  out : List α

/-- `process_python(code, code_lineno, translator_strings)`; `code` is the text before the `"\n"` is prepended -/
abbrev Proc (α : Type) := Str → Int → List Str → List α

/-- the `Comment` branch: `value = node.text.strip()`; inside the window every comment is collected, outside
    it once **per matching tag** (the `for comment_tag in comment_tags` loop has no `break`) -/
def commentStep (tags : List Str) (st : St) (lineno : Nat) (text : Str) : St :=
  let value := strip text
  if st.inTC then { st with tc := st.tc ++ splitComment lineno value }
  else tags.foldl (fun s t => if t.isPrefixOf value then ⟨s.tc ++ splitComment lineno value, true⟩ else s) st

/-- "Comments don't apply unless they immediately precede the message":
    `if translator_comments and translator_comments[-1][0] < node.lineno - 1: translator_comments = []` -/
def pendingFor (tc : List (Nat × Str)) (lineno : Nat) : List (Nat × Str) :=
  match tc.getLast? with
  | some (l, _) => if l + 1 < lineno then [] else tc
  | none => tc

/-- the `Expression` branch: `code = node.code.code`; if there are filters
    `pad = "\n" * (node.escapes_lineno_offset - code.count("\n"))`, `code = "(%s), (%s%s,)" % (code, pad, node.escapes)` -/
def wrapExpr (code esc : Str) (off : Nat) : Str :=
  '(' :: code ++ [')', ',', ' ', '('] ++ List.replicate (off - countNL code) '\n' ++ esc ++ [',', ')']

/-- the code string `extract_nodes` selects for a node (only the expression branch looks at the filter list) -/
def selectCode (k : Kind) (code esc : Str) (off : Nat) : Str :=
  if k = .expr ∧ esc ≠ [] then wrapExpr code esc off else code

mutual
/-- one iteration of the `for node in nodes` loop: the calls made (own call first, then those of the
    recursive `extract_nodes(child_nodes)`, which starts with a fresh state) and the state afterwards -/
def runNode {α : Type} (tags : List Str) (proc : Proc α) : Node → St → List (Inv α) × St
  | .mk k ln code0 esc off text ch, st =>
    if st.inTC && k == .text && isBlankStr text then ([], st)      -- "Ignore whitespace within translator comments"
    else match k with
    | .comment => ([], commentStep tags st ln text)
    | .ctlEnd => ([], { st with inTC := false })
    | .text => ([], st)
    | .other => ([], st)
    -- `NamespaceTag`: `if node.nodes: yield from self.extract_nodes(node.nodes)`; `continue` (no code of its own,
    -- the state of this list is left alone)
    | .namespaceTag => (runNodes tags proc ch St.clean, st)
    | k =>
      let code := selectCode k code0 esc off
      let tc := pendingFor st.tc ln
      let ts := tc.map (·.2)
      let out := proc code ((ln : Int) - 1) ts
      let kids := if k.recurses then runNodes tags proc ch St.clean else []
      (⟨ln, code, ts, out⟩ :: kids, ⟨if out.isEmpty then tc else [], false⟩)
def runNodes {α : Type} (tags : List Str) (proc : Proc α) : List Node → St → List (Inv α)
  | [], _ => []
  | n :: ns, st =>
    let r := runNode tags proc n st
    r.1 ++ runNodes tags proc ns r.2
end

/-- loop state after a prefix of the node list -/
def stateAfter {α : Type} (tags : List Str) (proc : Proc α) : List Node → St → St
  | [], st => st
  | n :: ns, st => stateAfter tags proc ns (runNode tags proc n st).2

/-- what the generator yields -/
def extract {α : Type} (tags : List Str) (proc : Proc α) (nodes : List Node) : List α :=
  (runNodes tags proc nodes St.clean).flatMap (·.out)

/-- the code strings handed to `process_python`, with the line of the node they came from -/
def handed {α : Type} (tags : List Str) (proc : Proc α) (nodes : List Node) : List (Nat × Str) :=
  (runNodes tags proc nodes St.clean).map fun i => (i.lineno, i.code)

/-! ## the two plugins -/

/-- a call found by the Python-level finder: line *within the string it was given* (1-based), function name,
    message(s) (opaque), comments found in the Python code itself -/
structure Hit where
  line : Nat
  func : Str
  payload : Str
  comments : List Str
  deriving DecidableEq, Repr

structure Msg where
  line : Int
  func : Str
  payload : Str
  comments : List Str
  deriving DecidableEq, Repr

abbrev Finder := Str → List Hit

/-- `comment_tags = list(filter(None, re.split(r"\s+", self.config["comment-tags"])))` -/
def configTags (cfg : Str) : List Str := splitWs cfg

/-- `BabelMakoExtractor.__init__`: `"comment-tags": " ".join(comment_tags)` -/
def babelConfig (commentTags : List Str) : Str := joinWith [' '] commentTags

/-- the bytes handed to `extract_python`: `BytesIO(b"\n" + code)` (as text; the codec is the finder's business) -/
def babelPrep (code : Str) : Str := '\n' :: code

/-- `BabelMakoExtractor.process_python`: `code_lineno + (lineno - 1)`, `translator_strings + python_translator_comments` -/
def babelMsg (codeLineno : Int) (ts : List Str) (h : Hit) : Msg :=
  ⟨codeLineno + ((h.line : Int) - 1), h.func, h.payload, ts ++ h.comments⟩

def babelProc (finder : Finder) : Proc Msg := fun code codeLineno ts =>
  (finder (babelPrep code)).map (babelMsg codeLineno ts)

def extractBabel (finder : Finder) (commentTags : List Str) (nodes : List Node) : List Msg :=
  extract (configTags (babelConfig commentTags)) (babelProc finder) nodes

def endsWith (s suf : Str) : Bool := suf.reverse.isPrefixOf s.reverse

/-- `LinguaMakoExtractor.process_python`: the source handed to lingua's python extractor -/
def linguaPrep (code : Str) : Str :=
  let source := strip ('\n' :: code)
  if endsWith source [':'] then
    let source :=
      if source = ['t', 'r', 'y', ':'] ∨ source = ['e', 'l', 's', 'e', ':'] ∨
          ['e', 'x', 'c', 'e', 'p', 't'].isPrefixOf source then []
      else if ['e', 'l', 'i', 'f'].isPrefixOf source then source.drop 2
      else source
    source ++ ['p', 'a', 's', 's']
  else source

/-- `skipped = raw[: len(raw) - len(raw.lstrip())].count("\n")` for `raw = "\n" + code`: the lines `strip()`
    removes in front of the code (at least the newline `extract_nodes` adds) -/
def linguaSkipped (code : Str) : Nat := countNL (('\n' :: code).takeWhile isPySpace)

/-- `self.python_extractor(self.filename, self.options, code, code_lineno + skipped - 1)` reports
    `firstline + lineno`; with translator strings the comment becomes
    `" ".join(translator_strings + [msg.comment])`.
    A lingua `Message` has one comment string: `Hit.comments`/`Msg.comments` are singletons here. -/
def linguaMsg (codeLineno : Int) (skipped : Nat) (ts : List Str) (h : Hit) : Msg :=
  ⟨(codeLineno + (skipped : Int) - 1) + (h.line : Int), h.func, h.payload,
   if ts.isEmpty then h.comments else [joinWith [' '] (ts ++ h.comments)]⟩

def linguaProc (finder : Finder) : Proc Msg := fun code codeLineno ts =>
  (finder (linguaPrep code)).map (linguaMsg codeLineno (linguaSkipped code) ts)

def extractLingua (finder : Finder) (cfgTags : Str) (nodes : List Node) : List Msg :=
  extract (configTags cfgTags) (linguaProc finder) nodes

/-! ## specification side: where Python lives in a template -/

/-- a construct in which Python is written: the node's line, its code, for an expression its filter list
    (empty when there is none) and the line it starts on relative to the construct's line, whether it lies below a tag whose children `extract_nodes` never visits -/
structure Site where
  lineno : Nat
  code : Str
  filter : Str
  filterOff : Nat
  hidden : Bool
  deriving DecidableEq, Repr

/-- the Python texts of a construct -/
def Site.parts (s : Site) : List Str := if s.filter = [] then [s.code] else [s.code, s.filter]

/-- specification of the one string that carries all Python texts of a construct: the code itself, or
    `(code), (filters,)` with the filter list moved down to the line it is written on -/
def Site.text (s : Site) : Str :=
  if s.filter = [] then s.code
  else '(' :: s.code ++ [')', ',', ' ', '('] ++ List.replicate (s.filterOff - countNL s.code) '\n' ++ s.filter ++ [',', ')']

/-- specification: the tags whose body is template content of its own (`<%def>`, `<%block>`, `<%call>`,
    `<%ns:def>`, `<%namespace>` with inline defs); the children of any other node (a `<%page>`, `<%inherit>`,
    `<%include>` or `<%text>` tag written with a body) count as *hidden* – stated here independently of what the
    code descends into -/
def Kind.container : Kind → Bool
  | .defTag | .blockTag | .callTag | .nsCall | .namespaceTag => true
  | _ => false

mutual
/-- every Python-bearing construct among a node and **all** its descendants, in document order -/
def sitesNode (hidden : Bool) : Node → List Site
  | .mk k ln code esc off _ ch =>
    (if k.pythonBearing then [⟨ln, code, if k = .expr then esc else [], off, hidden⟩] else []) ++
    sitesList (hidden || !k.container) ch
def sitesList (hidden : Bool) : List Node → List Site
  | [] => []
  | n :: ns => sitesNode hidden n ++ sitesList hidden ns
end

/-- all Python-bearing places of a template -/
def sites (nodes : List Node) : List Site := sitesList false nodes

mutual
/-- all nodes of the tree, document order -/
def allNodesNode : Node → List Node
  | .mk k ln c e o t ch => .mk k ln c e o t ch :: allNodesList ch
def allNodesList : List Node → List Node
  | [] => []
  | n :: ns => allNodesNode n ++ allNodesList ns
end

/-! ### which translator comment belongs to a construct (specification) -/

/-- scan of the nodes before a construct, nearest first: the run of `Comment` nodes directly before it
    (blank text in between is tolerated, anything else ends the run) -/
def runBefore : List Node → List Node
  | [] => []
  | n :: rest =>
    if n.kind = .comment then n :: runBefore rest
    else if n.kind = .text ∧ isBlankStr n.text = true then runBefore rest
    else []

/-- the translator comment of a construct on line `lineno` preceded by the sibling nodes `pre`: the run of
    comments directly before it, from the first one that starts with a configured tag, provided its last
    line is the line immediately before the construct (or the construct's own line) -/
def commentsFor (tags : List Str) (pre : List Node) (lineno : Nat) : List Str :=
  let run := (runBefore pre.reverse).reverse
  let tagged := run.dropWhile (fun c => !(tags.any (fun t => t.isPrefixOf (strip c.text))))
  let lines := tagged.flatMap (fun c => splitComment c.lineno (strip c.text))
  match lines.getLast? with
  | some (l, _) => if lineno ≤ l + 1 then lines.map (·.2) else []
  | none => []

end MakoModel.Extract
