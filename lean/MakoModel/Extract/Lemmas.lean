import MakoModel.Extract.Model
/-!
Helper lemmas for C20: structure of `runNodes`, "handed = visible Python-bearing places",
the translator-comment window as a state machine, line arithmetic of the two plugins.
-/
namespace MakoModel.Extract
open MakoModel.Basic

/-! ## structure of the run -/

theorem runNodes_cons {α} (tags) (proc : Proc α) (n ns st) :
    runNodes tags proc (n :: ns) st =
      (runNode tags proc n st).1 ++ runNodes tags proc ns (runNode tags proc n st).2 := by
  simp [runNodes]

theorem runNodes_append {α} (tags) (proc : Proc α) (a b : List Node) (st : St) :
    runNodes tags proc (a ++ b) st =
      runNodes tags proc a st ++ runNodes tags proc b (stateAfter tags proc a st) := by
  induction a generalizing st with
  | nil => simp [runNodes, stateAfter]
  | cons n ns ih => simp [runNodes_cons, stateAfter, ih]

theorem stateAfter_append {α} (tags) (proc : Proc α) (a b : List Node) (st : St) :
    stateAfter tags proc (a ++ b) st = stateAfter tags proc b (stateAfter tags proc a st) := by
  induction a generalizing st with
  | nil => simp [stateAfter]
  | cons n ns ih => simp [stateAfter, ih]

/-- a record is a faithful log of one `process_python` call -/
def Inv.ok {α} (proc : Proc α) (i : Inv α) : Prop := i.out = proc i.code ((i.lineno : Int) - 1) i.ts

mutual
theorem ok_node {α} (tags : List Str) (proc : Proc α) (n : Node) (st : St) :
    ∀ i ∈ (runNode tags proc n st).1, Inv.ok proc i := by
  cases n with
  | mk k ln code esc off text ch =>
    have hk := ok_list tags proc ch St.clean
    cases k <;> simp [runNode, Kind.recurses, Inv.ok] <;> (try split) <;> simp_all [Inv.ok]
theorem ok_list {α} (tags : List Str) (proc : Proc α) (ns : List Node) (st : St) :
    ∀ i ∈ runNodes tags proc ns st, Inv.ok proc i := by
  cases ns with
  | nil => simp [runNodes]
  | cons n ns =>
    rw [runNodes_cons]
    intro i hi
    rcases List.mem_append.mp hi with h | h
    · exact ok_node tags proc n st i h
    · exact ok_list tags proc ns _ i h
end

/-! ## which code strings are handed over -/

/-- the guard of `every_call_once_partial`: not below a tag whose children are skipped -/
def Site.visible (s : Site) : Bool := !s.hidden
/-- line and the one string that carries the construct's Python -/
def Site.key (s : Site) : Nat × Str := (s.lineno, s.text)
def Inv.key {α} (i : Inv α) : Nat × Str := (i.lineno, i.code)

/-- both Python texts of a construct are written, contiguously, in the string specified for it -/
theorem Site.parts_in_text (s : Site) : ∀ p ∈ s.parts, p <:+: s.text := by
  intro p hp
  unfold Site.parts at hp
  unfold Site.text
  split at hp <;> rename_i h
  · simp only [List.mem_singleton] at hp
    subst hp
    simp [h]
  · simp only [h, if_false]
    simp only [List.mem_cons, List.mem_nil_iff, or_false] at hp
    rcases hp with rfl | rfl
    · exact ⟨['('], [')', ',', ' ', '('] ++ List.replicate (s.filterOff - countNL s.code) '\n' ++ s.filter ++ [',', ')'],
        by simp⟩
    · exact ⟨'(' :: s.code ++ [')', ',', ' ', '('] ++ List.replicate (s.filterOff - countNL s.code) '\n', [',', ')'],
        by simp⟩

theorem selectCode_eq_text (k : Kind) (ln : Nat) (code esc : Str) (off : Nat) (hid : Bool) :
    selectCode k code esc off = (Site.mk ln code (if k = .expr then esc else []) off hid).text := by
  unfold selectCode Site.text wrapExpr
  by_cases hk : k = .expr <;> by_cases he : esc = [] <;> simp [hk, he]

mutual
theorem hidden_node (n : Node) : (sitesNode true n).filter Site.visible = [] := by
  cases n with
  | mk k ln code esc off text ch =>
    simp only [sitesNode, Bool.true_or, List.filter_append, hidden_list ch, List.append_nil]
    split <;> simp [Site.visible]
theorem hidden_list (ns : List Node) : (sitesList true ns).filter Site.visible = [] := by
  cases ns with
  | nil => simp [sitesList]
  | cons n ns => simp [sitesList, hidden_node n, hidden_list ns]
end

mutual
theorem handed_node {α} (tags : List Str) (proc : Proc α) (n : Node) (st : St) :
    (runNode tags proc n st).1.map Inv.key = ((sitesNode false n).filter Site.visible).map Site.key := by
  cases n with
  | mk k ln code esc off text ch =>
    have hk := handed_list tags proc ch St.clean
    have hh := hidden_list ch
    have ht := selectCode_eq_text k ln code esc off false
    cases k <;>
      simp [runNode, sitesNode, Kind.pythonBearing, Kind.recurses, Kind.container, Site.visible, Site.key, Inv.key,
        hh] <;>
      (try split) <;> simp_all [Site.visible]
theorem handed_list {α} (tags : List Str) (proc : Proc α) (ns : List Node) (st : St) :
    (runNodes tags proc ns st).map Inv.key = ((sitesList false ns).filter Site.visible).map Site.key := by
  cases ns with
  | nil => simp [runNodes, sitesList]
  | cons n ns =>
    rw [runNodes_cons]
    simp only [List.map_append, sitesList, List.filter_append, handed_node tags proc n st,
      handed_list tags proc ns]
end

mutual
/-- every construct listed by `sitesNode` is a Python-bearing node of the tree; a filter list comes from an
    expression node -/
theorem sites_from_nodes_node (hid : Bool) (n : Node) :
    ∀ s ∈ sitesNode hid n, ∃ m ∈ allNodesNode n,
      m.kind.pythonBearing = true ∧ s.lineno = m.lineno ∧ s.code = m.code ∧
      (s.filter = [] ∨ (m.kind = .expr ∧ s.filter = m.esc ∧ s.filterOff = m.escOff)) := by
  cases n with
  | mk k ln code esc off text ch =>
    intro s hs
    simp only [sitesNode, List.mem_append] at hs
    rcases hs with hs | hs
    · by_cases hk : k.pythonBearing = true
      · simp only [hk, if_true, List.mem_singleton] at hs
        refine ⟨.mk k ln code esc off text ch, by simp [allNodesNode], ?_⟩
        subst hs
        by_cases he : k = .expr
        · subst he; simp [Node.kind, Node.lineno, Node.code, Node.esc, Node.escOff, Kind.pythonBearing]
        · simp [Node.kind, Node.lineno, Node.code, hk, he]
      · simp [hk] at hs
    · obtain ⟨m, hm, h⟩ := sites_from_nodes_list _ ch s hs
      exact ⟨m, by simp [allNodesNode, hm], h⟩
theorem sites_from_nodes_list (hid : Bool) (ns : List Node) :
    ∀ s ∈ sitesList hid ns, ∃ m ∈ allNodesList ns,
      m.kind.pythonBearing = true ∧ s.lineno = m.lineno ∧ s.code = m.code ∧
      (s.filter = [] ∨ (m.kind = .expr ∧ s.filter = m.esc ∧ s.filterOff = m.escOff)) := by
  cases ns with
  | nil => simp [sitesList]
  | cons n ns =>
    intro s hs
    simp only [sitesList, List.mem_append] at hs
    rcases hs with hs | hs
    · obtain ⟨m, hm, h⟩ := sites_from_nodes_node hid n s hs
      exact ⟨m, by simp [allNodesList, hm], h⟩
    · obtain ⟨m, hm, h⟩ := sites_from_nodes_list hid ns s hs
      exact ⟨m, by simp [allNodesList, hm], h⟩
end

theorem flatMap_congr_mem {α β} (l : List α) (f g : α → List β) (h : ∀ a ∈ l, f a = g a) :
    l.flatMap f = l.flatMap g := by
  induction l with
  | nil => rfl
  | cons a as ih =>
    simp only [List.flatMap_cons]
    rw [h a (by simp), ih (fun x hx => h x (by simp [hx]))]

theorem flatMap_through_map {α β γ} (l : List α) (k : α → β) (g : β → List γ) :
    l.flatMap (fun a => g (k a)) = (l.map k).flatMap g := by
  induction l with
  | nil => rfl
  | cons a as ih => simp only [List.flatMap_cons, List.map_cons, ih]

/-- the generator's output, regrouped by place: for a `process_python` whose observable part `f` of a message
    does not depend on the translator strings -/
theorem extract_by_site {α β} (tags : List Str) (proc : Proc α) (f : α → β)
    (hindep : ∀ code l ts, (proc code l ts).map f = (proc code l []).map f) (nodes : List Node) :
    (extract tags proc nodes).map f =
      ((sites nodes).filter Site.visible).flatMap
        (fun s => (proc s.text ((s.lineno : Int) - 1) []).map f) := by
  unfold extract sites
  rw [List.map_flatMap]
  have h1 : (runNodes tags proc nodes St.clean).flatMap (fun i => i.out.map f) =
      (runNodes tags proc nodes St.clean).flatMap
        (fun i => (fun p : Nat × Str => (proc p.2 ((p.1 : Int) - 1) []).map f) (Inv.key i)) := by
    apply flatMap_congr_mem
    intro i hi
    have := ok_list tags proc nodes St.clean i hi
    simp only [Inv.ok] at this
    simp only [this, Inv.key, hindep i.code _ i.ts]
  rw [h1, flatMap_through_map (runNodes tags proc nodes St.clean) Inv.key
        (fun p : Nat × Str => (proc p.2 ((p.1 : Int) - 1) []).map f),
      handed_list tags proc nodes St.clean,
      ← flatMap_through_map _ Site.key (fun p : Nat × Str => (proc p.2 ((p.1 : Int) - 1) []).map f)]
  rfl

/-! ## the translator-comment window -/

/-- line of the last collected comment line -/
def lastLine (l : List (Nat × Str)) : Nat :=
  match l.getLast? with
  | some (a, _) => a
  | none => 0

theorem pendingFor_eq (tc : List (Nat × Str)) (ln : Nat) :
    pendingFor tc ln = if tc ≠ [] ∧ lastLine tc + 1 < ln then [] else tc := by
  unfold pendingFor lastLine
  cases h : tc.getLast? with
  | none => simp [List.getLast?_eq_none_iff.mp h]
  | some p =>
    obtain ⟨a, b⟩ := p
    have hne : tc ≠ [] := by intro e; simp [e] at h
    simp [hne]

/-- what a tagged comment puts into `translator_comments` when it opens the window: its lines once per
    matching tag -/
def opened (tags : List Str) (lineno : Nat) (text : Str) : List (Nat × Str) :=
  (tags.filter (fun t => t.isPrefixOf (strip text))).flatMap (fun _ => splitComment lineno (strip text))

/-- the lines of the `Comment` nodes in a node list -/
def collect (ns : List Node) : List (Nat × Str) :=
  (ns.filter (fun n => n.kind = .comment)).flatMap (fun c => splitComment c.lineno (strip c.text))

theorem commentStep_fold (value : Str) (L : List (Nat × Str)) (tags : List Str) (tc : List (Nat × Str)) (b : Bool) :
    tags.foldl (fun s t => if t.isPrefixOf value then (⟨s.tc ++ L, true⟩ : St) else s) ⟨tc, b⟩ =
      ⟨tc ++ (tags.filter (fun t => t.isPrefixOf value)).flatMap (fun _ => L),
       b || tags.any (fun t => t.isPrefixOf value)⟩ := by
  induction tags generalizing tc b with
  | nil => simp
  | cons t ts ih =>
    rw [List.foldl_cons]
    by_cases h : t.isPrefixOf value = true
    · rw [if_pos h, ih]; simp [h, List.append_assoc]
    · rw [if_neg h, ih]; simp [h]

theorem commentStep_closed (tags : List Str) (tc : List (Nat × Str)) (ln : Nat) (text : Str) :
    commentStep tags ⟨tc, false⟩ ln text =
      ⟨tc ++ opened tags ln text, tags.any (fun t => t.isPrefixOf (strip text))⟩ := by
  unfold commentStep
  simp only [Bool.false_eq_true, if_false]
  rw [commentStep_fold]
  simp [opened]

theorem commentStep_open (tags : List Str) (tc : List (Nat × Str)) (ln : Nat) (text : Str) :
    commentStep tags ⟨tc, true⟩ ln text = ⟨tc ++ splitComment ln (strip text), true⟩ := by
  simp [commentStep]

theorem runNode_comment {α} (tags) (proc : Proc α) (n : Node) (st : St) (h : n.kind = .comment) :
    runNode tags proc n st = ([], commentStep tags st n.lineno n.text) := by
  cases n with
  | mk k ln code esc off text ch =>
    simp only [Node.kind] at h; subst h
    simp [runNode, Node.lineno, Node.text]

/-- `Text` and the tags the extractor does not know leave the state alone and yield nothing -/
theorem runNode_quiet {α} (tags) (proc : Proc α) (n : Node) (st : St)
    (h : n.kind = .text ∨ n.kind = .other) : runNode tags proc n st = ([], st) := by
  cases n with
  | mk k ln code esc off text ch =>
    simp only [Node.kind] at h
    rcases h with h | h <;> subst h <;> simp [runNode]

/-- the branch of a Python-bearing node -/
theorem runNode_python {α} (tags) (proc : Proc α) (n : Node) (st : St) (h : n.kind.pythonBearing = true) :
    ∃ kids,
      runNode tags proc n st =
        (⟨n.lineno, selectCode n.kind n.code n.esc n.escOff, (pendingFor st.tc n.lineno).map (·.2),
            proc (selectCode n.kind n.code n.esc n.escOff) ((n.lineno : Int) - 1) ((pendingFor st.tc n.lineno).map (·.2))⟩ :: kids,
         ⟨if (proc (selectCode n.kind n.code n.esc n.escOff) ((n.lineno : Int) - 1)
              ((pendingFor st.tc n.lineno).map (·.2))).isEmpty
            then pendingFor st.tc n.lineno else [], false⟩) := by
  cases n with
  | mk k ln code esc off text ch =>
    simp only [Node.kind] at h
    cases k <;> simp [Kind.pythonBearing] at h <;>
      simp [runNode, Node.lineno, Node.code, Node.esc, Node.escOff, Node.kind, Kind.recurses]

/-- inside an open window: comments are collected, text and unknown tags are passed over -/
theorem window_collects {α} (tags) (proc : Proc α) (more : List Node) (tc : List (Nat × Str))
    (hmore : ∀ m ∈ more, m.kind = .comment ∨ m.kind = .text ∨ m.kind = .other) :
    runNodes tags proc more ⟨tc, true⟩ = [] ∧
    stateAfter tags proc more ⟨tc, true⟩ = ⟨tc ++ collect more, true⟩ := by
  induction more generalizing tc with
  | nil => simp [runNodes, stateAfter, collect]
  | cons m ms ih =>
    have hm := hmore m (by simp)
    have hms : ∀ x ∈ ms, x.kind = .comment ∨ x.kind = .text ∨ x.kind = .other :=
      fun x hx => hmore x (by simp [hx])
    rcases hm with hc | hq
    · have e := runNode_comment tags proc m ⟨tc, true⟩ hc
      rw [commentStep_open] at e
      obtain ⟨i1, i2⟩ := ih (tc ++ splitComment m.lineno (strip m.text)) hms
      refine ⟨by simp [runNodes_cons, e, i1], ?_⟩
      simp [stateAfter, e, i2, collect, hc, List.append_assoc]
    · have e := runNode_quiet tags proc m ⟨tc, true⟩ hq
      obtain ⟨i1, i2⟩ := ih tc hms
      refine ⟨by simp [runNodes_cons, e, i1], ?_⟩
      have hnc : ¬ (m.kind = .comment) := by rcases hq with h | h <;> simp [h]
      simp [stateAfter, e, i2, collect, hnc]

/-- the canonical layout: (anything that leaves a clean state) – tagged comment – comments / text – construct -/
theorem window_shape {α} (tags) (proc : Proc α) (pre : List Node) (cmt : Node) (more : List Node) (n : Node)
    (post : List Node)
    (hpre : stateAfter tags proc pre St.clean = St.clean)
    (hc : cmt.kind = .comment)
    (htag : tags.any (fun t => t.isPrefixOf (strip cmt.text)) = true)
    (hmore : ∀ m ∈ more, m.kind = .comment ∨ m.kind = .text ∨ m.kind = .other) :
    runNodes tags proc (pre ++ cmt :: (more ++ n :: post)) St.clean =
      runNodes tags proc pre St.clean ++
        ((runNode tags proc n ⟨opened tags cmt.lineno cmt.text ++ collect more, true⟩).1 ++
          runNodes tags proc post
            (runNode tags proc n ⟨opened tags cmt.lineno cmt.text ++ collect more, true⟩).2) := by
  rw [runNodes_append, hpre, runNodes_cons]
  have e := runNode_comment tags proc cmt St.clean hc
  have e2 := commentStep_closed tags [] cmt.lineno cmt.text
  simp only [St.clean] at e e2 ⊢
  rw [e, e2, htag]
  simp only [List.nil_append]
  rw [runNodes_append]
  obtain ⟨i1, i2⟩ := window_collects tags proc more (opened tags cmt.lineno cmt.text) hmore
  rw [i1, i2, runNodes_cons]
  simp

/-! ## line arithmetic -/

theorem lineOf_prep (code : Str) (j : Nat) :
    lineOf (babelPrep code) (j + 1) = 2 + countNL (code.take j) := by
  simp [lineOf, babelPrep, countNL_cons]; omega

/-- `lstrip` removes a prefix: `code = lead ++ lstrip code` -/
def lead (code : Str) : Str := code.takeWhile isPySpace

theorem lead_append_lstrip (code : Str) : lead code ++ lstrip code = code := by
  simp [lead, lstrip, List.takeWhile_append_dropWhile]

theorem linguaSkipped_eq (code : Str) : linguaSkipped code = 1 + countNL (lead code) := by
  have : isPySpace '\n' = true := by decide +kernel
  simp [linguaSkipped, lead, this, countNL_cons]

theorem lstrip_prep (code : Str) : lstrip ('\n' :: code) = lstrip code := by
  have : isPySpace '\n' = true := by decide +kernel
  simp [lstrip, this]

theorem take_length_add_append {α} (a b : List α) (i : Nat) :
    (a ++ b).take (a.length + i) = a ++ b.take i := by
  induction a with
  | nil => simp
  | cons x xs ih =>
    have : (x :: xs).length + i = (xs.length + i) + 1 := by simp only [List.length_cons]; omega
    rw [this]
    simp [ih]

/-- a code string written verbatim at offset `start`: its prefixes are slices of the source -/
theorem slice_take_of_embed (src code : Str) (start k : Nat)
    (hembed : slice src start (start + code.length) = code) (hk : k ≤ code.length) :
    slice src start (start + k) = code.take k := by
  have h := congrArg (List.take k) hembed
  simp only [slice, Nat.add_sub_cancel_left, List.take_take] at h ⊢
  rw [← h]
  congr 1
  omega

/-! ### the wrapper `(code), (filters,)` keeps the line structure -/

theorem take_prefix_add {α} (a b t : List α) (k : Nat) (hk : k ≤ b.length) :
    (a ++ b ++ t).take (a.length + k) = a ++ b.take k := by
  rw [List.append_assoc, take_length_add_append, List.take_append_of_le_length hk]

/-- a call at offset `j` of the expression's code is at offset `j + 1` of the wrapper, with as many newlines before it -/
theorem wrap_take_code (c e : Str) (off j : Nat) (hj : j ≤ c.length) :
    countNL ((wrapExpr c e off).take (j + 1)) = countNL (c.take j) := by
  simp only [wrapExpr, List.cons_append, List.take_succ_cons, countNL_cons, List.append_assoc]
  rw [List.take_append, countNL_append]
  simp [Nat.sub_eq_zero_of_le hj]

theorem countNL_replicate_nl (n : Nat) : countNL (List.replicate n '\n') = n := by
  induction n with
  | zero => rfl
  | succ n ih => simp [List.replicate_succ, countNL_cons, ih]; omega

/-- a call at offset `k` of the filter list is at offset `|code| + 5 + pad + k` of the wrapper; the newlines before it
    are those of the code, the padding and those of the filter list before the call -/
theorem wrap_take_filter (c e : Str) (off k : Nat) (hk : k ≤ e.length) :
    countNL ((wrapExpr c e off).take (c.length + 5 + (off - countNL c) + k)) =
      countNL c + (off - countNL c) + countNL (e.take k) := by
  have h := take_prefix_add ('(' :: c ++ [')', ',', ' ', '('] ++ List.replicate (off - countNL c) '\n') e [',', ')'] k hk
  have hl : ('(' :: c ++ [')', ',', ' ', '('] ++ List.replicate (off - countNL c) '\n').length
      = c.length + 5 + (off - countNL c) := by simp; omega
  rw [hl] at h
  have hw : wrapExpr c e off =
      ('(' :: c ++ [')', ',', ' ', '('] ++ List.replicate (off - countNL c) '\n') ++ e ++ [',', ')'] := by
    simp [wrapExpr]
  rw [hw, h]
  simp [countNL_append, countNL_cons, countNL_replicate_nl]
  omega

end MakoModel.Extract
