import MakoModel.Basic.Wire
import MakoModel.Extract.Model
/-!
Driver handler for the extraction model: `extr <op> …`

```
extr codes babel  <nt> <tag>*  <tree>            → <n> (<lineno> <string handed to the finder>)*
extr codes lingua <cfg>        <tree>
extr run   babel  <nt> <tag>*  <tree> <finder>   → <n> (<line> <func> <payload> <nc> <comment>*)*
extr run   lingua <cfg>        <tree> <finder>
extr strip <s> | splitlines <s> | splitws <s> | linguaprep <s>       (string helpers, checked on their own)

<tree>   = <n> <node>*            <node> = <kind> <lineno> <code> <esc> <escoff> <text> <nchildren> <node>*
<finder> = <n> (<code> <nhits> (<line> <func> <payload> <nc> <comment>*)*)*
```
A negative line number is written `n<abs>`.
-/
namespace MakoModel.Extract.Drv
open MakoModel.Wire MakoModel.Extract

def decKind : String → Option Kind
  | "text" => some .text | "comment" => some .comment | "def" => some .defTag | "block" => some .blockTag
  | "call" => some .callTag | "page" => some .pageTag | "nscall" => some .nsCall | "namespace" => some .namespaceTag
  | "ctl" => some .ctl
  | "ctlend" => some .ctlEnd | "code" => some .code | "expr" => some .expr | "other" => some .other
  | _ => none

def encInt (i : Int) : String := if i < 0 then "n" ++ toString i.natAbs else toString i.toNat

/-- `n` nodes from the token list (fuel: number of tokens) -/
def pNodes : Nat → Nat → List String → Option (List Node × List String)
  | _, 0, toks => some ([], toks)
  | 0, _ + 1, _ => none
  | fuel + 1, n + 1, toks =>
    match toks with
    | k :: ln :: c :: e :: o :: t :: nc :: rest => do
      let k ← decKind k
      let ln ← ln.toNat?
      let c ← decStr c
      let e ← decStr e
      let o ← o.toNat?
      let t ← decStr t
      let nc ← nc.toNat?
      let (ch, r1) ← pNodes fuel nc rest
      let (sibs, r2) ← pNodes fuel n r1
      pure (Node.mk k ln c e o t ch :: sibs, r2)
    | _ => none

def pStrs : Nat → List String → Option (List Str × List String)
  | 0, toks => some ([], toks)
  | n + 1, t :: rest => do
    let s ← decStr t
    let (ss, r) ← pStrs n rest
    pure (s :: ss, r)
  | _ + 1, [] => none

def pCountStrs : List String → Option (List Str × List String)
  | n :: rest => do let n ← n.toNat?; pStrs n rest
  | [] => none

def pHits : Nat → List String → Option (List Hit × List String)
  | 0, toks => some ([], toks)
  | n + 1, l :: f :: p :: rest => do
    let l ← l.toNat?
    let f ← decStr f
    let p ← decStr p
    let (cs, r1) ← pCountStrs rest
    let (hs, r2) ← pHits n r1
    pure (⟨l, f, p, cs⟩ :: hs, r2)
  | _ + 1, _ => none

def pFinder : Nat → List String → Option (List (Str × List Hit) × List String)
  | 0, toks => some ([], toks)
  | n + 1, c :: nh :: rest => do
    let c ← decStr c
    let nh ← nh.toNat?
    let (hs, r1) ← pHits nh rest
    let (es, r2) ← pFinder n r1
    pure ((c, hs) :: es, r2)
  | _ + 1, _ => none

def tableFinder (tbl : List (Str × List Hit)) : Finder := fun c =>
  match tbl.find? (fun e => e.1 == c) with
  | some e => e.2
  | none => []

def pTree (toks : List String) : Option (List Node × List String) :=
  match toks with
  | n :: rest => do let n ← n.toNat?; pNodes toks.length n rest
  | [] => none

def encMsg (m : Msg) : String :=
  " ".intercalate ([encInt m.line, encStr m.func, encStr m.payload, toString m.comments.length] ++ m.comments.map encStr)

def encMsgs (ms : List Msg) : String := " ".intercalate (toString ms.length :: ms.map encMsg)

def encCodes (prep : Str → Str) (cs : List (Nat × Str)) : String :=
  " ".intercalate (toString cs.length :: cs.map fun (l, c) => toString l ++ " " ++ encStr (prep c))

def dummy : Proc Msg := fun _ _ _ => []

def handle : Handler
  | "codes" :: "babel" :: rest => do
    let (tags, r1) ← pCountStrs rest
    let (nodes, r2) ← pTree r1
    if r2.isEmpty then pure (encCodes babelPrep (handed (configTags (babelConfig tags)) dummy nodes)) else none
  | "codes" :: "lingua" :: cfg :: rest => do
    let cfg ← decStr cfg
    let (nodes, r2) ← pTree rest
    if r2.isEmpty then pure (encCodes linguaPrep (handed (configTags cfg) dummy nodes)) else none
  | "run" :: "babel" :: rest => do
    let (tags, r1) ← pCountStrs rest
    let (nodes, r2) ← pTree r1
    match r2 with
    | n :: r3 => do
      let n ← n.toNat?
      let (tbl, r4) ← pFinder n r3
      if r4.isEmpty then pure (encMsgs (extractBabel (tableFinder tbl) tags nodes)) else none
    | [] => none
  | "run" :: "lingua" :: cfg :: rest => do
    let cfg ← decStr cfg
    let (nodes, r2) ← pTree rest
    match r2 with
    | n :: r3 => do
      let n ← n.toNat?
      let (tbl, r4) ← pFinder n r3
      if r4.isEmpty then pure (encMsgs (extractLingua (tableFinder tbl) cfg nodes)) else none
    | [] => none
  | ["strip", s] => do let s ← decStr s; pure (encStr (strip s))
  | ["blank", s] => do let s ← decStr s; pure (encBool (isBlankStr s))
  | ["splitlines", s] => do let s ← decStr s; pure (encList (splitLines s))
  | ["splitws", s] => do let s ← decStr s; pure (encList (splitWs s))
  | ["linguaprep", s] => do let s ← decStr s; pure (encStr (linguaPrep s))
  | _ => none

end MakoModel.Extract.Drv
