import MakoModel.Lexer.Model
/-! Range lemmas for the scanners of the lexer model: every scanner reports a length inside its input. -/
namespace MakoModel.Lexer
open MakoModel.Basic

theorem hasPrefix_length {pat l : Str} (h : hasPrefix pat l = true) : pat.length ≤ l.length := by
  unfold hasPrefix at h
  exact (List.isPrefixOf_iff_prefix.mp h).length_le

theorem hasPrefix_take {pat l : Str} (h : hasPrefix pat l = true) : l.take pat.length = pat := by
  unfold hasPrefix at h
  obtain ⟨t, rfl⟩ := List.isPrefixOf_iff_prefix.mp h
  simp

theorem hasPrefix_iff {pat l : Str} : hasPrefix pat l = true ↔ ∃ t, l = pat ++ t := by
  unfold hasPrefix
  rw [List.isPrefixOf_iff_prefix]
  constructor
  · rintro ⟨t, h⟩; exact ⟨t, h.symm⟩
  · rintro ⟨t, h⟩; exact ⟨t, h.symm⟩

theorem spanLen_le (p : Char → Bool) (l : Str) : spanLen p l ≤ l.length := by
  induction l with
  | nil => simp [spanLen]
  | cons c cs ih => simp only [spanLen, List.length_cons]; split <;> omega

/-- the character after a maximal run does not satisfy the predicate -/
theorem spanLen_stop (p : Char → Bool) (l : Str) (c : Char) (t : Str)
    (h : l.drop (spanLen p l) = c :: t) : p c = false := by
  induction l with
  | nil => simp [spanLen] at h
  | cons d ds ih =>
    simp only [spanLen] at h
    split at h
    · simp only [List.drop_succ_cons] at h; exact ih h
    · rename_i hd
      simp only [List.drop_zero, List.cons.injEq] at h
      rw [← h.1]; simpa using hd

theorem findChar_lt {c : Char} {l : Str} {k : Nat} (h : findChar c l = some k) : k < l.length := by
  induction l generalizing k with
  | nil => simp [findChar] at h
  | cons d ds ih =>
    simp only [findChar] at h
    split at h
    · cases h; simp
    · simp only [Option.map_eq_some_iff] at h
      obtain ⟨j, hj, rfl⟩ := h
      have := ih hj
      simp only [List.length_cons]; omega

theorem findChar_get {c : Char} {l : Str} {k : Nat} (h : findChar c l = some k) : l.drop k = c :: l.drop (k + 1) := by
  induction l generalizing k with
  | nil => simp [findChar] at h
  | cons d ds ih =>
    simp only [findChar] at h
    split at h
    · rename_i hd; cases h; simp [hd]
    · simp only [Option.map_eq_some_iff] at h
      obtain ⟨j, hj, rfl⟩ := h
      simpa using ih hj

/-- no earlier occurrence -/
theorem findChar_before {c : Char} {l : Str} {k : Nat} (h : findChar c l = some k) : c ∉ l.take k := by
  induction l generalizing k with
  | nil => simp [findChar] at h
  | cons d ds ih =>
    simp only [findChar] at h
    split at h
    · cases h; simp
    · rename_i hd
      simp only [Option.map_eq_some_iff] at h
      obtain ⟨j, hj, rfl⟩ := h
      simp only [List.take_succ_cons, List.mem_cons, not_or]
      exact ⟨fun e => hd e.symm, ih hj⟩

theorem findChar_none {c : Char} {l : Str} (h : findChar c l = none) : c ∉ l := by
  induction l with
  | nil => simp
  | cons d ds ih =>
    simp only [findChar] at h
    split at h
    · cases h
    · rename_i hd
      simp only [Option.map_eq_none_iff] at h
      simp only [List.mem_cons, not_or]
      exact ⟨fun e => hd e.symm, ih h⟩

theorem findSub_le {pat l : Str} {k : Nat} (h : findSub pat l = some k) : k + pat.length ≤ l.length := by
  induction l generalizing k with
  | nil => simp [findSub] at h
  | cons d ds ih =>
    simp only [findSub] at h
    split at h
    · rename_i hp; cases h; have := hasPrefix_length hp; omega
    · simp only [Option.map_eq_some_iff] at h
      obtain ⟨j, hj, rfl⟩ := h
      have := ih hj
      simp only [List.length_cons]; omega

theorem findSub_prefix {pat l : Str} {k : Nat} (h : findSub pat l = some k) : hasPrefix pat (l.drop k) = true := by
  induction l generalizing k with
  | nil => simp [findSub] at h
  | cons d ds ih =>
    simp only [findSub] at h
    split at h
    · rename_i hp; cases h; simpa using hp
    · simp only [Option.map_eq_some_iff] at h
      obtain ⟨j, hj, rfl⟩ := h
      simpa using ih hj

theorem findSub_none_prefix {pat : Str} {d : Char} {ds : Str} (h : findSub pat (d :: ds) = none) :
    hasPrefix pat (d :: ds) = false := by
  simp only [findSub] at h
  split at h
  · cases h
  · rename_i hp; simpa using hp

theorem findSub_none_tail {pat : Str} {d : Char} {ds : Str} (h : findSub pat (d :: ds) = none) : findSub pat ds = none := by
  simp only [findSub] at h
  split at h
  · cases h
  · simpa using h

theorem rxHashComment_range {l : Str} {n : Nat} (h : rxHashComment l = some n) : 0 < n ∧ n ≤ l.length := by
  cases l with
  | nil => simp [rxHashComment] at h
  | cons c t =>
    simp only [rxHashComment] at h
    split at h
    · simp only [Option.map_eq_some_iff] at h
      obtain ⟨k, hk, rfl⟩ := h
      have := findChar_lt hk
      simp only [List.length_cons]; omega
    · cases h

theorem scanClose_range (op : Str) (hop : 0 < op.length) (l : Str) :
    ∀ (k : Nat), scanClose op l = some k → 0 < k ∧ k ≤ l.length := by
  fun_induction scanClose op l
  · intro k h; cases h
  · intro k h; cases h
  · rename_i hd cs' ih
    intro k h
    simp only [Option.map_eq_some_iff] at h
    obtain ⟨j, hj, rfl⟩ := h
    have := ih j hj
    simp only [List.length_cons]; omega
  · rename_i c cs hc hp
    intro k h
    simp only [Option.some.injEq] at h
    subst h
    exact ⟨hop, hasPrefix_length hp⟩
  · rename_i c cs hc hp ih
    intro k h
    simp only [Option.map_eq_some_iff] at h
    obtain ⟨j, hj, rfl⟩ := h
    have := ih j hj
    simp only [List.length_cons]; omega

theorem rxStringFrom_range (ops : List Str) (hops : ∀ op ∈ ops, 0 < op.length) (l : Str) (n : Nat)
    (h : rxStringFrom ops l = some n) : 0 < n ∧ n ≤ l.length := by
  induction ops with
  | nil => simp [rxStringFrom] at h
  | cons op ops ih =>
    have hop := hops op (by simp)
    have ih' := ih (fun o ho => hops o (by simp [ho]))
    simp only [rxStringFrom] at h
    split at h
    · rename_i hp
      split at h
      · rename_i k hk
        cases h
        have := scanClose_range op hop _ k hk
        have hl := hasPrefix_length hp
        simp only [List.length_drop] at this
        omega
      · exact ih' h
    · exact ih' h

theorem rxString_range {l : Str} {n : Nat} (h : rxString l = some n) : 0 < n ∧ n ≤ l.length := by
  apply rxStringFrom_range quoteOpeners _ l n h
  intro op hop
  simp only [quoteOpeners, List.mem_cons, List.not_mem_nil, or_false] at hop
  rcases hop with h | h | h | h <;> subst h <;> decide

theorem matchTerm_spec {terms : List Str} {l t : Str} (h : matchTerm terms l = some t) :
    t ∈ terms ∧ hasPrefix t l = true := by
  induction terms with
  | nil => simp [matchTerm] at h
  | cons a as ih =>
    simp only [matchTerm] at h
    split at h
    · rename_i hp; cases h; exact ⟨by simp, hp⟩
    · have := ih h; exact ⟨by simp [this.1], this.2⟩

theorem rxUntilSpecial_lt {terms : List Str} {l : Str} {n : Nat} (h : rxUntilSpecial terms l = some n) :
    n < l.length := by
  induction l generalizing n with
  | nil => simp [rxUntilSpecial] at h
  | cons c cs ih =>
    simp only [rxUntilSpecial] at h
    split at h
    · cases h; simp
    · simp only [Option.map_eq_some_iff] at h
      obtain ⟨j, hj, rfl⟩ := h
      have := ih hj
      simp only [List.length_cons]; omega

/-- `ctlScan`: text length ≤ total length ≤ what is there (given the same for the fall-back) -/
theorem ctlScan_range (l : Str) (skip off : Nat) (last : Option (Nat × Nat)) :
    ∀ (tl tot : Nat), skip ≤ l.length →
      (∀ a b, last = some (a, b) → a ≤ b ∧ b ≤ off + l.length) →
      ctlScan l skip off last = some (tl, tot) → tl ≤ tot ∧ tot ≤ off + l.length := by
  fun_induction ctlScan l skip off last
  · intro tl tot _ _ h
    simp only [Option.some.injEq, Prod.mk.injEq] at h
    omega
  · rename_i hd cs skip off last ih
    intro tl tot hs hl h
    have := ih tl tot (by simp only [List.length_cons] at hs; omega)
      (fun a b hab => by have := hl a b hab; simp only [List.length_cons] at this; omega) h
    simp only [List.length_cons]; omega
  · rename_i cs off last hnl ih
    intro tl tot _ _ h
    have hlen : 1 ≤ cs.length := by
      cases cs with
      | nil => simp at hnl
      | cons _ _ => simp
    have := ih tl tot hlen (fun a b hab => by
      simp only [Option.some.injEq, Prod.mk.injEq] at hab; omega) h
    simp only [List.length_cons]; omega
  · rename_i cs off last hnl hp ih
    intro tl tot _ _ h
    have hlen : 2 ≤ cs.length := hasPrefix_length hp
    have := ih tl tot hlen (fun a b hab => by
      simp only [Option.some.injEq, Prod.mk.injEq] at hab; omega) h
    simp only [List.length_cons]; omega
  · rename_i cs off last hnl hp ih
    intro tl tot _ hl h
    have := ih tl tot (Nat.zero_le _)
      (fun a b hab => by have := hl a b hab; simp only [List.length_cons] at this; omega) h
    simp only [List.length_cons]; omega
  · intro tl tot _ _ h
    simp only [Option.some.injEq, Prod.mk.injEq] at h
    simp only [List.length_cons]; omega
  · rename_i cs off last hnl _ _
    intro tl tot _ _ h
    have hlen : 1 ≤ cs.length := by
      cases cs with
      | nil => simp at hnl
      | cons _ _ => simp
    simp only [Option.some.injEq, Prod.mk.injEq] at h
    simp only [List.length_cons]; omega
  · rename_i cs off last hnl _ _
    intro tl tot _ hl h
    have := hl tl tot h
    simp only [List.length_cons] at this ⊢; omega
  · rename_i c cs off last _ _ _ ih
    intro tl tot _ hl h
    have := ih tl tot (Nat.zero_le _)
      (fun a b hab => by have := hl a b hab; simp only [List.length_cons] at this; omega) h
    simp only [List.length_cons]; omega

theorem rxControlLine_range {rest : Str} {m : CtlMatch} (h : rxControlLine rest = some m) :
    0 < m.len ∧ m.len ≤ rest.length := by
  unfold rxControlLine at h
  simp only at h
  split at h
  · cases h
  · rename_i k isPct hop
    split at h
    · cases h
    · rename_i tl tot hscan
      cases h
      simp only
      -- the operator really is there: k ≤ |r1|
      have hb1 := spanLen_le isBlank rest
      generalize hr1 : rest.drop (spanLen isBlank rest) = r1 at hop hscan
      have hr1len : r1.length = rest.length - spanLen isBlank rest := by rw [← hr1]; simp
      have hk : 0 < k ∧ k ≤ r1.length := by
        cases r1 with
        | nil => simp at hop
        | cons c t =>
          simp only at hop
          split at hop
          · split at hop
            · cases hop
            · simp only [Option.some.injEq, Prod.mk.injEq] at hop
              simp only [List.length_cons]; omega
          · split at hop
            · rename_i hh
              simp only [Option.some.injEq, Prod.mk.injEq] at hop
              have : 1 ≤ t.length := by
                cases t with
                | nil => simp at hh
                | cons _ _ => simp
              simp only [List.length_cons]; omega
            · cases hop
      have hb2 := spanLen_le isBlank (r1.drop k)
      have := ctlScan_range _ 0 0 none tl tot (Nat.zero_le _) (fun a b hab => by cases hab) hscan
      simp only [List.length_drop] at this hb2
      omega

theorem tagItems_range (fuel : Nat) (l : Str) (off : Nat) (prevSep : Bool) :
    ∀ it, tagItems fuel l off prevSep = some it → it.attrLen ≤ it.len ∧ off < it.len ∧ it.len ≤ off + l.length := by
  fun_induction tagItems fuel l off prevSep
  all_goals intro it h
  all_goals try (cases h; done)
  · -- word
    rename_i fuel l off prevSep w head cs' hdrop hw hw0 m ih
    have := ih it h
    have hm := spanLen_le isWord (head :: cs')
    have hwl := spanLen_le isSpace l
    have hl : (head :: cs').length = l.length - w := by rw [← hdrop]; simp
    simp only [List.length_drop] at this
    have hm1 : 0 < m := by simp only [m, spanLen, hw, if_true]; omega
    omega
  · -- = or ,
    rename_i fuel l off prevSep w head cs' hdrop _ _ ih
    have := ih it h
    have hwl := spanLen_le isSpace l
    have hl : (head :: cs').length = l.length - w := by rw [← hdrop]; simp
    simp only [List.length_cons] at hl
    omega
  · -- quoted
    rename_i fuel l off prevSep w head cs' hdrop _ _ _ _ n hn ih
    have := ih it h
    have hwl := spanLen_le isSpace l
    have hl : (head :: cs').length = l.length - w := by rw [← hdrop]; simp
    have hnl := findChar_lt hn
    simp only [List.length_cons] at hl
    simp only [List.length_drop] at this
    omega
  · -- >
    rename_i fuel l off prevSep w cs' hdrop _ _ _
    simp only [Option.some.injEq] at h
    subst h
    have hwl := spanLen_le isSpace l
    have hl : ('>' :: cs').length = l.length - w := by rw [← hdrop]; simp
    simp only [List.length_cons] at hl
    simp only; omega
  · -- />
    rename_i fuel l off prevSep w head cs' hdrop _ _ _ _ hsl
    simp only [Option.some.injEq] at h
    subst h
    have hwl := spanLen_le isSpace l
    have hl : (head :: cs').length = l.length - w := by rw [← hdrop]; simp
    have : 1 ≤ cs'.length := by
      cases cs' with
      | nil => simp at hsl
      | cons _ _ => simp
    simp only [List.length_cons] at hl
    simp only; omega

theorem rxTagStart_range {rest : Str} {m : TagStart} (h : rxTagStart rest = some m) :
    2 < m.len ∧ m.len ≤ rest.length := by
  unfold rxTagStart at h
  split at h
  · rename_i hp
    simp only at h
    split at h
    · cases h
    · rename_i hk
      split at h
      · cases h
      · rename_i it hit
        cases h
        simp only
        have := tagItems_range _ _ _ _ it hit
        have hlen : 2 ≤ rest.length := hasPrefix_length hp
        have hkl := spanLen_le isKwChar (rest.drop 2)
        simp only [List.length_drop] at this hkl
        omega
  · cases h

theorem tagEndScan_range (l : Str) : ∀ g e, tagEndScan l = some (g, e) → g < e ∧ e ≤ l.length ∧ g ≤ l.length := by
  fun_induction tagEndScan l
  · intro g e h; cases h
  · rename_i c cs b tail hd
    intro g e h
    simp only [Option.some.injEq, Prod.mk.injEq] at h
    have hb := spanLen_le isBlank (c :: cs)
    have : ('>' :: tail).length = (c :: cs).length - b := by rw [← hd]; simp
    simp only [List.length_cons] at this hb ⊢
    omega
  · intro g e h; cases h
  · rename_i c cs b c1 tail hd _ _ ih
    intro g e h
    simp only [Option.map_eq_some_iff, Prod.mk.injEq, Prod.exists] at h
    obtain ⟨g', e', hge, rfl, rfl⟩ := h
    have := ih g' e' hge
    simp only [List.length_cons]; omega
  · intro g e h; cases h
  · rename_i c cs b hd _ ih
    intro g e h
    simp only [Option.map_eq_some_iff, Prod.mk.injEq, Prod.exists] at h
    obtain ⟨g', e', hge, rfl, rfl⟩ := h
    have := ih g' e' hge
    simp only [List.length_cons]; omega

theorem rxTagEnd_range {rest kw : Str} {n : Nat} (h : rxTagEnd rest = some (kw, n)) :
    3 < n ∧ n ≤ rest.length := by
  unfold rxTagEnd at h
  split at h
  · rename_i hp
    simp only at h
    split at h
    · cases h
    · rename_i c cs hd
      split at h
      · cases h
      · rename_i g e hge
        simp only [Option.some.injEq, Prod.mk.injEq] at h
        obtain ⟨_, rfl⟩ := h
        have := tagEndScan_range cs g e hge
        have hlen : 3 ≤ rest.length := hasPrefix_length hp
        have hb := spanLen_le isBlank (rest.drop 3)
        have hl := congrArg List.length hd
        simp only [List.length_drop, List.length_cons] at hb hl
        omega
  · cases h

theorem textScan_range (prevNL : Bool) (l : Str) :
    (textScan prevNL l).1 + (textScan prevNL l).2.consumed ≤ l.length := by
  fun_induction textScan prevNL l
  · simp [TextStop.consumed]
  · rename_i prevNL c t k hk
    simp only
    -- a stop that consumes is only reported where the characters are
    unfold textStopAt at hk
    simp only at hk
    split at hk
    · cases hk; simp [TextStop.consumed]
    · split at hk
      · cases hk; simp [TextStop.consumed]
      · split at hk
        · cases hk; simp [TextStop.consumed]
        · split at hk
          · rename_i h4
            cases hk
            have : 1 ≤ t.length := by
              cases t with
              | nil => simp at h4
              | cons _ _ => simp
            simp only [TextStop.consumed, List.length_cons]; omega
          · split at hk
            · rename_i h5
              cases hk
              have : 2 ≤ t.length := hasPrefix_length h5.2
              simp only [TextStop.consumed, List.length_cons]; omega
            · cases hk
  · rename_i ih
    simp only [List.length_cons]; omega

end MakoModel.Lexer
