import MakoModel.Basic.Wire
import MakoModel.Lexer.Model
/-!
Driver handler for the lexer model: `lex <sub-op> …`

* `lex full <cfg> <s>`                         – the whole `Lexer(s).parse()`
* `lex m <matcher> <cfg> <s> <p> <tags> <ctls>` – one `match_*` method with the cursor at `p`
* `lex until <which> <s> <p>`                   – `parse_until_text` (`e1` = `\|`,`}` nested; `e2` = `}` nested; `pb` = `%>`)
* `lex string <s> <p>`                          – the string-literal regex alone
* `lex coding <s>`                              – the magic-encoding-comment regex
* `lex class <w|s|i> <code point>` / `lex classranges <w|s|i>`

`<cfg>`: `c` = the regenerated configuration of /repo, or two digits `emitSkipped textTagStepBack`.
`<tags>`/`<ctls>`: `-` or `;`-separated encoded keywords, innermost first.
Token: `<K> <start> <stop> <lineno> <pos> <payload…>`; tokens are separated by ` ; `.
-/
namespace MakoModel.Lexer.Drv
open MakoModel.Wire MakoModel.Lexer MakoModel.Basic

def decCfg (f : String) : Option Cfg :=
  if f == "c" then some Cfg.current
  else match f.toList with
    | [a, b] => do
      let x ← decBool (String.singleton a)
      let y ← decBool (String.singleton b)
      pure ⟨x, y⟩
    | _ => none

def decStack (f : String) : Option (List Str) :=
  if f == "-" then some [] else (f.splitOn ";").mapM decStr

def encStack (xs : List Str) : String :=
  if xs.isEmpty then "-" else ";".intercalate (xs.map encStr)

def encPayload : Payload → String
  | .text c => s!"T {encStr c}"
  | .expr t e => s!"E {encStr t} {encStr e}"
  | .ctl k isend t => s!"C {encStr k} {encBool isend} {encStr t}"
  | .comment t => s!"M {encStr t}"
  | .code r m => s!"P {encStr r} {encBool m}"
  | .tagOpen k attrs sc =>
    let a := attrs.foldl (fun acc kv => acc ++ s!" {encStr kv.1} {encStr kv.2}") ""
    s!"O {encStr k} {encBool sc} {attrs.length}{a}"
  | .tagClose k => s!"K {encStr k}"
  | .coding => "G"
  | .cont => "N"
  | .skipped => "S"

def encTok (t : Token) : String :=
  match (encPayload t.payload).splitOn " " with
  | k :: rest => " ".intercalate ([k, toString t.start, toString t.stop, toString t.lineno, toString t.pos] ++ rest)
  | [] => ""

def encToks (ts : List Token) : String :=
  if ts.isEmpty then "-" else " ; ".intercalate (ts.map encTok)

def encErr : ErrKind → String
  | .expected => "expected"
  | .unclosedTag => "unclosed-tag"
  | .closingWithoutOpening => "closing-without-opening"
  | .closingMismatch => "closing-mismatch"
  | .invalidControlLine => "invalid-control-line"
  | .noStartingKeyword => "no-starting-keyword"
  | .keywordMismatch => "keyword-mismatch"
  | .illegalTernary => "illegal-ternary"
  | .unterminatedControl => "unterminated-control"
  | .assertionFailed => "assertion-failed"

def encState (st : State) : String :=
  s!"{st.pos} {st.lineno} {st.matchedLineno} {st.matchedCharpos} {encStack st.tagStack} {encStack (st.ctlStack.map (·.keyword))}"

def encResult (r : Result) : String :=
  match r.outcome with
  | .ok => s!"ok {r.iters} | {encToks r.toks}"
  | .error k l c => s!"error {encErr k} {l} {c} {r.iters} | {encToks r.toks}"
  | .outOfFuel => s!"fuel {r.iters} | {encToks r.toks}"

def encMRes : MRes → String
  | .no => "no"
  | .yes st => s!"yes {encState st} | {encToks st.toks}"
  | .fell st => s!"fell {encState st} | {encToks st.toks}"
  | .err k l c st => s!"err {encErr k} {l} {c} {encState st} | {encToks st.toks}"
  | .outOfFuel => "fuel"

def runMatcher (name : String) (cfg : Cfg) (s : Str) (st : State) : Option MRes :=
  match name with
  | "end" => some (match matchEnd s st with | some st' => .yes st' | none => .no)
  | "expression" => some (matchExpression s st)
  | "control_line" => some (matchControlLine s st)
  | "comment" => some (matchComment s st)
  | "tag_start" => some (matchTagStart cfg s st)
  | "tag_end" => some (matchTagEnd s st)
  | "python_block" => some (matchPythonBlock s st)
  | "percent" => some (matchPercent s st)
  | "text" => some (matchText cfg s st)
  | _ => none

def classPred (w : String) : Option (Char → Bool) :=
  match w with
  | "w" => some isWord
  | "s" => some isSpace
  | "i" => some isPySpace
  | _ => none

/-- ranges of scalar values satisfying the predicate, recomputed from the predicate itself -/
def classRanges (p : Char → Bool) : String := Id.run do
  let mut out : Array String := #[]
  let mut start : Option Nat := none
  for cp in [0:0x110000] do
    let ok := if 0xD800 ≤ cp ∧ cp ≤ 0xDFFF then false else p (Char.ofNat cp)
    match start, ok with
    | none, true => start := some cp
    | some a, false => out := out.push s!"{a}-{cp - 1}"; start := none
    | _, _ => pure ()
  match start with
  | some a => out := out.push s!"{a}-{0x10FFFF}"
  | none => pure ()
  return ",".intercalate out.toList

def handle : Handler
  | ["full", c, s] => do
    let cfg ← decCfg c; let s ← decStr s
    pure (encResult (lex cfg s))
  | ["m", name, c, s, p, tags, ctls] => do
    let cfg ← decCfg c; let s ← decStr s; let p ← p.toNat?
    let tags ← decStack tags; let ctls ← decStack ctls
    let r ← runMatcher name cfg s (stateAt s p tags ctls)
    pure (encMRes r)
  | ["until", which, s, p] => do
    let s ← decStr s; let p ← p.toNat?
    let (watch, terms) ← (match which with
      | "e1" => some (true, [lit "|", lit "}"])
      | "e2" => some (true, [lit "}"])
      | "pb" => some (false, [lit "%>"])
      | _ => none)
    pure (match parseUntil s watch terms (stateAt s p [] []) with
      | .found st text term => s!"found {st.pos} {st.lineno} {st.matchedLineno} {st.matchedCharpos} {encStr text} {encStr term}"
      | .fail l c st => s!"fail {l} {c} {st.pos}"
      | .outOfFuel => "fuel")
  | ["string", s, p] => do
    let s ← decStr s; let p ← p.toNat?
    pure (match rxString (s.drop p) with | some n => toString (p + n) | none => "none")
  | ["coding", s] => do
    let s ← decStr s
    pure (match rxCoding s with | some n => toString n | none => "none")
  | ["class", w, cp] => do
    let p ← classPred w; let cp ← cp.toNat?
    pure (encBool (p (Char.ofNat cp)))
  | ["classranges", w] => do
    let p ← classPred w
    pure (classRanges p)
  | _ => none

end MakoModel.Lexer.Drv
