import MakoModel.Basic.Lines
import MakoModel.Basic.Unicode
import MakoModel.Generated.LexerCfg
/-!
# L1 – model of `mako.lexer.Lexer`

A deterministic, executable transcription of `Lexer.parse` and of every `match_*` method of
/repo/mako/lexer.py.  The backtracking regexes are replaced by hand-written scanners; beside each one the
argument why it computes what `re` computes is recorded, and each has its own correspondence stream
(`harness/props/C01.py`) against the real method.

* All position / line bookkeeping goes through `advance`, the model of `match_reg` (incl. the rule
  "an empty match advances `match_position` by one").
* The result is the *flat token list* in source order.  Besides the tokens that correspond to the nodes the
  real lexer creates (`text expr ctl comment code tagOpen`) there are ghost tokens that create no node but
  consume source: `tagClose` (`</%x>`), `coding` (the magic encoding comment skipped by `parse`), `cont`
  (a backslash-newline directly at the cursor) and `skipped` (the character stepped over by the empty-match
  rule – finding F1).  `start/stop` are ghost fields: the source span the token accounts for.
* Outside the model: the Python-syntax checks and tag-class validation done by the node constructors
  (`ast.PythonCode`, `PythonFragment`, `_TagMeta.__call__`, `Tag.__init__` …), and `adjust_whitespace`
  (a `code` token carries the raw text between `<%`/`<%!` and `%>`).
* `Cfg` selects between the code as found and the code after the proposed `fix:` patches
  (`Generated.LexerCfg` says which one /repo currently is).
-/
namespace MakoModel.Lexer
open MakoModel.Basic
open MakoModel.Generated

abbrev Str := List Char

/-! ## configuration (regenerated) -/

structure Cfg where
  /-- `match_text` emits the character stepped over by the empty-match `+1` rule -/
  emitSkipped : Bool
  /-- `match_tag_start` steps back onto `</%text>` after an empty `<%text>` body -/
  textTagStepBack : Bool
  deriving DecidableEq, Repr

/-- the code in /repo now (regenerated flags) -/
def Cfg.current : Cfg := ⟨LexerCfg.emitSkipped, LexerCfg.textTagStepBack⟩
/-- the code before ac8bd37 (finding F1 present) – history -/
def Cfg.asFound : Cfg := ⟨false, false⟩
/-- the code with the F1 repair (ac8bd37) -/
def Cfg.fixed : Cfg := ⟨true, true⟩

/-! ## tokens, state, results -/

inductive Payload
  | text (content : Str)
  | expr (text escapes : Str)
  | ctl (keyword : Str) (isend : Bool) (text : Str)
  | comment (text : Str)
  | code (raw : Str) (ismodule : Bool)
  | tagOpen (keyword : Str) (attrs : List (Str × Str)) (selfClose : Bool)
  | tagClose (keyword : Str)
  | coding
  | cont
  | skipped
  deriving DecidableEq, Repr

structure Token where
  start : Nat
  stop : Nat
  lineno : Nat
  pos : Nat
  payload : Payload
  deriving DecidableEq, Repr

/-- does the real lexer create a node for this token? -/
def Payload.isNode : Payload → Bool
  | .text _ | .expr _ _ | .ctl _ _ _ | .comment _ | .code _ _ | .tagOpen _ _ _ => true
  | _ => false

def Token.raw (s : Str) (t : Token) : Str := slice s t.start t.stop

structure CtlFrame where
  keyword : Str
  lineno : Nat
  pos : Nat
  deriving DecidableEq, Repr

structure State where
  pos : Nat := 0
  lineno : Nat := 1
  matchedLineno : Nat := 1
  matchedCharpos : Nat := 0
  /-- keywords of the open tags, innermost first (`Lexer.tag`) -/
  tagStack : List Str := []
  /-- open primary control lines, innermost first (`Lexer.control_line`; `ternary_stack` has the same depth) -/
  ctlStack : List CtlFrame := []
  toks : List Token := []
  deriving DecidableEq, Repr

inductive ErrKind
  | expected                -- parse_until_text: "Expected: …; unterminated tag or expression beginning"
  | unclosedTag             -- "Unclosed tag: <%…>"
  | closingWithoutOpening   -- "Closing tag without opening tag: </%…>"
  | closingMismatch         -- "Closing tag </%…> does not match tag: <%…>"
  | invalidControlLine      -- "Invalid control line: '…'"
  | noStartingKeyword       -- "No starting keyword '…' for '…'"
  | keywordMismatch         -- "Keyword '…' doesn't match keyword '…'"
  | illegalTernary          -- "Keyword '…' not a legal ternary for keyword '…'"
  | unterminatedControl     -- "Unterminated control keyword: '…'"
  | assertionFailed         -- MakoException("assertion failed")
  deriving DecidableEq, Repr

inductive Outcome
  | ok
  | error (k : ErrKind) (lineno pos : Nat)
  | outOfFuel
  deriving DecidableEq, Repr

structure Result where
  toks : List Token
  outcome : Outcome
  /-- number of iterations of the main loop that were executed -/
  iters : Nat
  deriving DecidableEq, Repr

/-- result of one `match_*` method -/
inductive MRes
  | no                                           -- returned False, nothing changed
  | yes (st : State)                             -- returned True
  | fell (st : State)                            -- consumed input, then returned False (empty `<%text>` body)
  | err (k : ErrKind) (lineno pos : Nat) (st : State)
  | outOfFuel
  deriving DecidableEq, Repr

/-! ## small string scanners -/

def hasPrefix (pat l : Str) : Bool := pat.isPrefixOf l

/-- length of the longest prefix whose characters satisfy `p` (a greedy `[class]*`) -/
def spanLen (p : Char → Bool) : Str → Nat
  | [] => 0
  | c :: cs => if p c then spanLen p cs + 1 else 0

/-- index of the first occurrence of the character -/
def findChar (c : Char) : Str → Option Nat
  | [] => none
  | d :: ds => if d = c then some 0 else (findChar c ds).map (· + 1)

/-- index of the first occurrence of the (non-empty) substring: a lazy `.*?` under `re.S` followed by a literal -/
def findSub (pat : Str) : Str → Option Nat
  | [] => none
  | c :: cs => if hasPrefix pat (c :: cs) then some 0 else (findSub pat cs).map (· + 1)

/-- `str.replace("\r\n", "\n")`: every CR that is directly followed by LF disappears -/
def replaceCRLF : Str → Str
  | [] => []
  | c :: t => if c = '\r' ∧ t.head? = some '\n' then replaceCRLF t else c :: replaceCRLF t

/-- `str.strip()` -/
def stripPy (l : Str) : Str := ((l.dropWhile isPySpace).reverse.dropWhile isPySpace).reverse

/-- a string literal as `List Char` -/
def lit (x : String) : Str := x.toList

/-! ## `match_reg` -/

/-- `match_reg` for a match spanning `[st.pos, e)`: the empty-match `+1` rule, `matched_lineno`,
    `matched_charpos`, `lineno` -/
def advance (s : Str) (st : State) (e : Nat) : State :=
  let mp := st.pos
  let np := if e = mp then e + 1 else e
  { st with
    pos := np
    matchedLineno := st.lineno
    matchedCharpos := colOf s mp
    lineno := st.lineno + countNL (slice s mp np) }

def push (st : State) (t : Token) : State := { st with toks := st.toks ++ [t] }

/-- token at the coordinates of the last match (`append_node`'s default `lineno`/`pos`) -/
def tokHere (st : State) (start stop : Nat) (p : Payload) : Token :=
  { start := start, stop := stop, lineno := st.matchedLineno, pos := st.matchedCharpos, payload := p }

/-- `(?<=^)` under `re.M`: at index 0 or directly after a `'\n'` -/
def atLineStart (s : Str) (p : Nat) : Bool := p == 0 || s[p - 1]? == some '\n'

/-! ## `parse_until_text` -/

/-- `#.*\n`: `#`, then up to and including the first newline (no `re.S`: `.` stops there). -/
def rxHashComment : Str → Option Nat
  | [] => none
  | c :: t => if c = '#' then (findChar '\n' t).map (· + 2) else none

/-- after the opening quote `op`: scan right – a backslash skips two characters (`\\.` under `re.S`), the first
    occurrence of `op` closes.  Returns the length up to and including the closer.  A backslash as the last
    character cannot be matched by `\\.` nor by `[^\\]`, so the scan fails there. -/
def scanClose (op : Str) : Str → Option Nat
  | [] => none
  | c :: cs =>
    if c = '\\' then
      match cs with
      | [] => none
      | _ :: cs' => (scanClose op cs').map (· + 2)
    else if hasPrefix op (c :: cs) then some op.length
    else (scanClose op cs).map (· + 1)

def quoteOpeners : List Str := [lit "\"\"\"", lit "'''", lit "\"", lit "'"]

/-- `(\"\"\"|\'\'\'|\"|\')[^\\]*?(\\.[^\\]*?)*\1` under `re.S`: try the openers in alternation order; the lazy
    body makes the *first* closing occurrence win; when an opener finds no closer the alternation falls through
    to the next opener (`\"\"\"abc` is the empty literal `\"\"` followed by `\"abc`).  Returns the match length. -/
def rxStringFrom : List Str → Str → Option Nat
  | [], _ => none
  | op :: ops, l =>
    if hasPrefix op l then
      match scanClose op (l.drop op.length) with
      | some k => some (op.length + k)
      | none => rxStringFrom ops l
    else rxStringFrom ops l

def rxString (l : Str) : Option Nat := rxStringFrom quoteOpeners l

/-- first terminator (alternation order) that is a prefix -/
def matchTerm : List Str → Str → Option Str
  | [], _ => none
  | t :: ts, l => if hasPrefix t l then some t else matchTerm ts l

/-- `(.*?)(?=\"|\'|#|terms)` under `re.S`: the least `n` such that a quote, `#` or a terminator starts at `n`. -/
def rxUntilSpecial (terms : List Str) : Str → Option Nat
  | [] => none
  | c :: cs =>
    if c = '"' ∨ c = '\'' ∨ c = '#' ∨ (matchTerm terms (c :: cs)).isSome then some 0
    else (rxUntilSpecial terms cs).map (· + 1)

def cnt (c : Char) (l : Str) : Int := ((l.count c : Nat) : Int)

inductive PURes
  | found (st : State) (text term : Str)
  | fail (lineno pos : Nat) (st : State)
  | outOfFuel
  deriving DecidableEq, Repr

/-- the `while True:` loop of `parse_until_text`; `startpos/startline/startchar` are read before the loop -/
def parseUntilLoop (s : Str) (watch : Bool) (terms : List Str) (startpos startline startchar : Nat) :
    Nat → State → Int → Int → Int → PURes
  | 0, _, _, _, _ => .outOfFuel
  | fuel + 1, st, br, pa, bk =>
    let rest := s.drop st.pos
    match rxHashComment rest with
    | some n => parseUntilLoop s watch terms startpos startline startchar fuel (advance s st (st.pos + n)) br pa bk
    | none =>
    match rxString rest with
    | some n => parseUntilLoop s watch terms startpos startline startchar fuel (advance s st (st.pos + n)) br pa bk
    | none =>
    match matchTerm terms rest with
    | some t =>
      let st' := advance s st (st.pos + t.length)
      if !(watch && (decide (br > 0) || decide (pa > 0) || decide (bk > 0))) then
        .found st' (slice s startpos (st'.pos - t.length)) t
      else
        parseUntilLoop s watch terms startpos startline startchar fuel st'
          (br + cnt '{' t - cnt '}' t) (pa + cnt '(' t - cnt ')' t) (bk + cnt '[' t - cnt ']' t)
    | none =>
      match rxUntilSpecial terms rest with
      | some n =>
        let g := rest.take n
        parseUntilLoop s watch terms startpos startline startchar fuel (advance s st (st.pos + n))
          (br + cnt '{' g - cnt '}' g) (pa + cnt '(' g - cnt ')' g) (bk + cnt '[' g - cnt ']' g)
      | none => .fail startline startchar st

def parseUntil (s : Str) (watch : Bool) (terms : List Str) (st : State) : PURes :=
  parseUntilLoop s watch terms st.pos st.matchedLineno st.matchedCharpos (s.length + 2) st 0 0 0

/-! ## the matchers -/

/-- `match_end`: `\Z` (with `pos` clamped to the length by `re`) -/
def matchEnd (s : Str) (st : State) : Option State :=
  if st.pos ≥ s.length then some { (advance s st st.pos) with pos := s.length + 1 } else none

/-- `match_expression` -/
def matchExpression (s : Str) (st : State) : MRes :=
  let p := st.pos
  if hasPrefix (lit "${") (s.drop p) then
    let st1 := advance s st (p + 2)
    let line := st1.matchedLineno
    let cpos := st1.matchedCharpos
    match parseUntil s true [lit "|", lit "}"] st1 with
    | .outOfFuel => .outOfFuel
    | .fail l c st' => .err .expected l c st'
    | .found st2 text term =>
      if term = lit "|" then
        match parseUntil s true [lit "}"] st2 with
        | .outOfFuel => .outOfFuel
        | .fail l c st' => .err .expected l c st'
        | .found st3 esc _ =>
          .yes (push st3 { start := p, stop := st3.pos, lineno := line, pos := cpos,
                           payload := .expr (replaceCRLF text) (stripPy esc) })
      else
        .yes (push st2 { start := p, stop := st2.pos, lineno := line, pos := cpos,
                         payload := .expr (replaceCRLF text) [] })
  else .no

/-- the body and terminator of a control line, scanned from the first character after `%`/`##` and blanks:
    `((?:(?:\\\r?\n)|[^\r\n])*)(?:\r?\n|\Z)`.  The greedy loop runs until a CR, an LF or the end (a backslash is
    also an ordinary `[^\r\n]`, so the loop never stops *at* one).  There the terminator matches unless the CR is
    a lone one; in that case backtracking un-does loop iterations, and the only earlier place where `\r?\n` can
    match is directly after the backslash of the *last* backslash-newline taken by the first alternative (that
    backslash is then matched by `[^\r\n]` instead).  `last` carries that fall-back: (text length, end).
    Returns (text length, total length). -/
def ctlScan : Str → Nat → Nat → Option (Nat × Nat) → Option (Nat × Nat)
  | [], _, off, _ => some (off, off)
  | _ :: cs, skip + 1, off, last => ctlScan cs skip (off + 1) last      -- inside a backslash-newline
  | c :: cs, 0, off, last =>
    if c = '\\' then
      if cs.head? = some '\n' then ctlScan cs 1 (off + 1) (some (off + 1, off + 2))
      else if hasPrefix (lit "\r\n") cs then ctlScan cs 2 (off + 1) (some (off + 1, off + 3))
      else ctlScan cs 0 (off + 1) last
    else if c = '\n' then some (off, off + 1)
    else if c = '\r' then (if cs.head? = some '\n' then some (off, off + 2) else last)
    else ctlScan cs 0 (off + 1) last

structure CtlMatch where
  isPercent : Bool
  text : Str
  len : Nat
  deriving DecidableEq, Repr

/-- `[\t ]*(%(?!%)|##)[\t ]*(body)(terminator)` at a line start.  Both blank runs are maximal: a shorter run
    would have to be followed by `%`/`#` resp. would only move blanks into the body without changing where the
    body stops. -/
def rxControlLine (rest : Str) : Option CtlMatch :=
  let b1 := spanLen isBlank rest
  let r1 := rest.drop b1
  let op : Option (Nat × Bool) :=
    match r1 with
    | [] => none
    | c :: t =>
      if c = '%' then (if t.head? = some '%' then none else some (1, true))
      else if c = '#' ∧ t.head? = some '#' then some (2, false)
      else none
  match op with
  | none => none
  | some (k, isPct) =>
    let r2 := r1.drop k
    let b2 := spanLen isBlank r2
    let r3 := r2.drop b2
    match ctlScan r3 0 0 none with
    | none => none
    | some (tl, tot) => some { isPercent := isPct, text := r3.take tl, len := b1 + k + b2 + tot }

/-- `re.match(r"(end)?(\w+)\s*(.*)", text)`: `(end)?` is taken iff a word character follows it (otherwise the
    optional group backtracks to empty and `\w+` reads `end` itself); the keyword is the maximal `\w+` run. -/
def splitKeyword (text : Str) : Option (Bool × Str) :=
  let t3 := text.drop 3
  if hasPrefix (lit "end") text && (match t3 with | c :: _ => isWord c | [] => false) then
    some (true, t3.take (spanLen isWord t3))
  else
    let k := spanLen isWord text
    if k = 0 then none else some (false, text.take k)

def isPrimary (kw : Str) : Bool := LexerCfg.primaryKeywords.contains kw

/-- `ControlLine.is_ternary` of a frame with keyword `top` -/
def isTernary (top kw : Str) : Bool :=
  match LexerCfg.ternaryTable.lookup top with
  | some l => l.contains kw
  | none => false

/-- `match_control_line` followed by the control-line part of `append_node` -/
def matchControlLine (s : Str) (st : State) : MRes :=
  let p := st.pos
  if atLineStart s p then
    match rxControlLine (s.drop p) with
    | none => .no
    | some m =>
      let st1 := advance s st (p + m.len)
      if m.isPercent then
        match splitKeyword m.text with
        | none => .err .invalidControlLine st1.matchedLineno st1.matchedCharpos st1
        | some (isend, kw) =>
          let tok := tokHere st1 p st1.pos (.ctl kw isend m.text)
          if isend then
            match st1.ctlStack with
            | [] => .err .noStartingKeyword st1.matchedLineno st1.matchedCharpos st1
            | top :: restStack =>
              if top.keyword ≠ kw then .err .keywordMismatch st1.matchedLineno st1.matchedCharpos st1
              else .yes { (push st1 tok) with ctlStack := restStack }
          else
            let st2 := push st1 tok
            if isPrimary kw then
              .yes { st2 with ctlStack := { keyword := kw, lineno := tok.lineno, pos := tok.pos } :: st2.ctlStack }
            else
              match st2.ctlStack with
              | [] => .yes st2
              | top :: _ =>
                if isTernary top.keyword kw then .yes st2
                else .err .illegalTernary st2.matchedLineno st2.matchedCharpos st2
      else
        .yes (push st1 (tokHere st1 p st1.pos (.comment m.text)))
  else .no

/-- `match_comment`: `<%doc>(.*?)</%doc>` under `re.S` -/
def matchComment (s : Str) (st : State) : MRes :=
  let p := st.pos
  let rest := s.drop p
  if hasPrefix (lit "<%doc>") rest then
    let body := rest.drop 6
    match findSub (lit "</%doc>") body with
    | none => .no
    | some n =>
      let st1 := advance s st (p + 6 + n + 7)
      .yes (push st1 (tokHere st1 p st1.pos (.comment (body.take n))))
  else .no

def isKwChar (c : Char) : Bool := isWord c || c == '.' || c == ':'

structure TagItems where
  attrLen : Nat      -- offset of the closer (`>` or `/>`) from the end of the keyword
  len : Nat          -- offset just after the closer
  selfClose : Bool
  deriving DecidableEq, Repr

/-- the attribute region and closer of the tag regex, scanned from the end of the keyword.  Since 836bb3b:
    `((?:\s+\w+|\s*[=,](?:\s+(?=["']))?|"[^"]*"|'[^']*')*)\s*(/)?>` (flags I|S|X); before:
    `((?:\s+\w+|\s*=\s*|"[^"]*?"|'[^']*?'|\s*,\s*)*)\s*(/)?>`.  Both accept the same strings with the same end
    (compared on all 3 257 437 strings of ≤ 6 tokens, and by the per-matcher stream on every run); the new one has
    exactly one consumer per whitespace run, which is literally the decision procedure below:
    each item is decided by the first non-`\s` character after a maximal `\s` run: a word character needs a
    non-empty run before it; `=`/`,` always fit (trailing whitespace is taken only in front of a quote, i.e. left
    to the next item otherwise); a quote must follow directly (empty run) or follow `=`/`,`, and its value ends
    at the next quote of the same kind; `>` or `/>` ends the tag; anything else fails. -/
def tagItems : Nat → Str → Nat → Bool → Option TagItems
  | 0, _, _, _ => none
  | fuel + 1, l, off, prevSep =>
    let w := spanLen isSpace l
    match l.drop w with
    | [] => none
    | c :: cs =>
      if isWord c then
        if w = 0 then none
        else
          let m := spanLen isWord (c :: cs)
          tagItems fuel ((c :: cs).drop m) (off + w + m) false
      else if c = '=' ∨ c = ',' then tagItems fuel cs (off + w + 1) true
      else if c = '"' ∨ c = '\'' then
        if w ≠ 0 ∧ !prevSep then none
        else
          match findChar c cs with
          | none => none
          | some e => tagItems fuel (cs.drop (e + 1)) (off + w + 1 + e + 1) false
      else if c = '>' then some { attrLen := off + w, len := off + w + 1, selfClose := false }
      else if c = '/' ∧ cs.head? = some '>' then some { attrLen := off + w, len := off + w + 2, selfClose := true }
      else none

/-- one attempt of `\s*(\w+)\s*=\s*(?:'([^']*)'|\"([^\"]*)\")` at the start of `l`:
    (key, value, match length).  All runs are maximal (a shorter `\s*`/`\w+` is followed by a character of the
    same class, which the next pattern element rejects). -/
def attrAt (l : Str) : Option (Str × Str × Nat) :=
  let w1 := spanLen isSpace l
  let l1 := l.drop w1
  let m := spanLen isWord l1
  if m = 0 then none
  else
    let l2 := l1.drop m
    let w2 := spanLen isSpace l2
    match l2.drop w2 with
    | [] => none
    | c :: l4 =>
      if c = '=' then
        let w3 := spanLen isSpace l4
        match l4.drop w3 with
        | [] => none
        | q :: l5 =>
          if q = '\'' ∨ q = '"' then
            match findChar q l5 with
            | none => none
            | some e => some (l1.take m, l5.take e, w1 + m + w2 + 1 + w3 + 1 + e + 1)
          else none
      else none

/-- `re.findall` of the attribute regex: leftmost, non-overlapping; after a failure retry one character on. -/
def findAllAttrs : Nat → Str → List (Str × Str)
  | 0, _ => []
  | fuel + 1, l =>
    match attrAt l with
    | some (k, v, n) => (k, replaceCRLF v) :: findAllAttrs fuel (l.drop n)
    | none =>
      match l with
      | [] => []
      | _ :: t => findAllAttrs fuel t

structure TagStart where
  keyword : Str
  attrs : List (Str × Str)
  selfClose : Bool
  len : Nat
  deriving DecidableEq, Repr

/-- the whole tag-start regex at the start of `rest`; the keyword is the maximal `[\w.:]+` run (a shorter one
    would be followed by a keyword character, which no item and no closer accepts) -/
def rxTagStart (rest : Str) : Option TagStart :=
  if hasPrefix (lit "<%") rest then
    let r := rest.drop 2
    let k := spanLen isKwChar r
    if k = 0 then none
    else
      let after := r.drop k
      match tagItems (after.length + 1) after 0 false with
      | none => none
      | some it =>
        let attr := after.take it.attrLen
        some { keyword := r.take k, attrs := findAllAttrs (attr.length + 1) attr,
               selfClose := it.selfClose, len := 2 + k + it.len }
  else none

/-- the group and end of `[^\t ]+?[\t ]*>` scanned from `l` (first group character already taken):
    least extension such that blanks and `>` follow; a blank inside the group is impossible.
    Returns (number of further group characters, offset after `>`). -/
def tagEndScan : Str → Option (Nat × Nat)
  | [] => none
  | c :: cs =>
    let b := spanLen isBlank (c :: cs)
    match (c :: cs).drop b with
    | d :: _ =>
      if d = '>' then some (0, b + 1)
      else if isBlank c then none
      else (tagEndScan cs).map fun (g, e) => (g + 1, e + 1)
    | [] => if isBlank c then none else (tagEndScan cs).map fun (g, e) => (g + 1, e + 1)

/-- `\</%[\t ]*([^\t ]+?)[\t ]*>`: (keyword, match length) -/
def rxTagEnd (rest : Str) : Option (Str × Nat) :=
  if hasPrefix (lit "</%") rest then
    let r := rest.drop 3
    let b := spanLen isBlank r
    match r.drop b with
    | [] => none
    | c :: cs =>
      -- `c` is not a blank (the run is maximal); it is the first group character
      match tagEndScan cs with
      | none => none
      | some (g, e) => some ((c :: cs).take (g + 1), 3 + b + 1 + e)
  else none

/-- `match_tag_end` -/
def matchTagEnd (s : Str) (st : State) : MRes :=
  let p := st.pos
  match rxTagEnd (s.drop p) with
  | none => .no
  | some (kw, n) =>
    let st1 := advance s st (p + n)
    match st1.tagStack with
    | [] => .err .closingWithoutOpening st1.matchedLineno st1.matchedCharpos st1
    | top :: restStack =>
      if top ≠ kw then .err .closingMismatch st1.matchedLineno st1.matchedCharpos st1
      else .yes { (push st1 (tokHere st1 p st1.pos (.tagClose kw))) with tagStack := restStack }

/-- the `<%text>` capture of `match_tag_start` (`st3`: the state after the tag has been pushed):
    `(.*?)(?=\</%text>)` under `re.S`, one Text node, then `return self.match_tag_end()` -/
def textTagBody (cfg : Cfg) (s : Str) (st3 : State) : MRes :=
  let e := st3.pos
  match findSub (lit "</%text>") (s.drop e) with
  | none => .err .unclosedTag st3.matchedLineno st3.matchedCharpos st3
  | some n =>
    let st4 := advance s st3 (e + n)
    -- an empty body is an empty match: `match_reg` has stepped over the `<` of `</%text>`
    let st5 := if n = 0 ∧ cfg.textTagStepBack then { st4 with pos := e } else st4
    let st6 := push st5 (tokHere st5 e (e + n) (.text ((s.drop e).take n)))
    let st7 := if n = 0 ∧ !cfg.textTagStepBack then push st6 (tokHere st6 e st6.pos .skipped) else st6
    match matchTagEnd s st7 with
    | .no => .fell st7
    | r => r

/-- `match_tag_start`, the tag part of `append_node`, and the `<%text>` capture -/
def matchTagStart (cfg : Cfg) (s : Str) (st : State) : MRes :=
  let p := st.pos
  match rxTagStart (s.drop p) with
  | none => .no
  | some m =>
    let st1 := advance s st (p + m.len)
    let st2 := push st1 (tokHere st1 p st1.pos (.tagOpen m.keyword m.attrs m.selfClose))
    if m.selfClose then .yes st2          -- pushed by append_node, popped at once
    else
      let st3 := { st2 with tagStack := m.keyword :: st2.tagStack }
      if m.keyword = lit "text" then textTagBody cfg s st3
      else .yes st3

/-- `match_python_block`: `<%(!)?` then `parse_until_text(False, "%>")` -/
def matchPythonBlock (s : Str) (st : State) : MRes :=
  let p := st.pos
  let rest := s.drop p
  if hasPrefix (lit "<%") rest then
    let ismod := (rest.drop 2).head? = some '!'
    let st1 := advance s st (p + (if ismod then 3 else 2))
    let line := st1.matchedLineno
    let cpos := st1.matchedCharpos
    match parseUntil s false [lit "%>"] st1 with
    | .outOfFuel => .outOfFuel
    | .fail l c st' => .err .expected l c st'
    | .found st2 text _ =>
      .yes (push st2 { start := p, stop := st2.pos, lineno := line, pos := cpos, payload := .code text ismod })
  else .no

/-- `match_percent`: `(?<=^)(\s*)%%(%*)` under `re.M`; `\s*` is maximal (it may span newlines) -/
def matchPercent (s : Str) (st : State) : MRes :=
  let p := st.pos
  if atLineStart s p then
    let rest := s.drop p
    let w := spanLen isSpace rest
    let r1 := rest.drop w
    if hasPrefix (lit "%%") r1 then
      let k := spanLen (· == '%') (r1.drop 2)
      let st1 := advance s st (p + w + 2 + k)
      .yes (push st1 (tokHere st1 p st1.pos (.text (rest.take w ++ '%' :: (r1.drop 2).take k))))
    else .no
  else .no

inductive TextStop
  | lineDirective      -- `(?<=\n)(?=[ \t]*(?=%|\#\#))`
  | expr               -- `(?=\${)`
  | tag                -- `(?=</?%)`
  | cont (n : Nat)     -- `(\\\r?\n)` – consumed
  | eof                -- `\Z`
  deriving DecidableEq, Repr

/-- `[ \t]*(?=%|\#\#)` -/
def lineDirectiveAhead (l : Str) : Bool :=
  match l.drop (spanLen isBlank l) with
  | [] => false
  | c :: t => c = '%' || (c = '#' && t.head? = some '#')

/-- is one of the five alternatives of `match_text` satisfied at the start of `l`?  (`prevNL`: the character
    before is `'\n'`).  The alternatives are tried in order, but they start with different characters
    (blank/`%`/`#`, `$`, `<`, `\`, end), so at most one applies and the order is immaterial. -/
def textStopAt (prevNL : Bool) (l : Str) : Option TextStop :=
  match l with
  | [] => some .eof
  | c :: t =>
    if prevNL && lineDirectiveAhead l then some .lineDirective
    else if c = '$' ∧ t.head? = some '{' then some .expr
    else if c = '<' ∧ (t.head? = some '%' ∨ hasPrefix (lit "/%") t) then some .tag
    else if c = '\\' ∧ t.head? = some '\n' then some (.cont 2)
    else if c = '\\' ∧ hasPrefix (lit "\r\n") t then some (.cont 3)
    else none

/-- `(.*?)(alternatives)` under `re.S`: the lazy group stops at the least offset where an alternative applies -/
def textScan : Bool → Str → Nat × TextStop
  | _, [] => (0, .eof)
  | prevNL, c :: t =>
    match textStopAt prevNL (c :: t) with
    | some k => (0, k)
    | none => ((textScan (c == '\n') t).1 + 1, (textScan (c == '\n') t).2)

def TextStop.consumed : TextStop → Nat
  | .cont n => n
  | _ => 0

/-- `match_text` -/
def matchText (cfg : Cfg) (s : Str) (st : State) : MRes :=
  let p := st.pos
  let rest := s.drop p
  let prevNL := p != 0 && s[p - 1]? == some '\n'
  let r := textScan prevNL rest
  let e := p + r.1 + r.2.consumed
  let st1 := advance s st e
  if r.1 ≠ 0 then .yes (push st1 (tokHere st1 p st1.pos (.text (rest.take r.1))))
  else if e = p then
    -- empty match: `match_reg` stepped over one character
    match rest with
    | c :: _ =>
      if cfg.emitSkipped then .yes (push st1 (tokHere st1 p st1.pos (.text [c])))
      else .yes (push st1 (tokHere st1 p st1.pos .skipped))
    | [] => .yes st1
  else .yes (push st1 (tokHere st1 p st1.pos .cont))

/-! ## the magic encoding comment -/

def isCodingNameChar (c : Char) : Bool := isWord c || c == '-' || c == '.'

/-- candidates: offsets `j` (from the start of `l`, counted from `off`) where `coding:`/`coding=` starts -/
def codingCandidates : Str → Nat → List Nat
  | [], _ => []
  | c :: t, off =>
    let here := hasPrefix (lit "coding:") (c :: t) || hasPrefix (lit "coding=") (c :: t)
    if here then off :: codingCandidates t (off + 1) else codingCandidates t (off + 1)

/-- `#.*coding[:=]\s*([-\w.]+).*\r?\n` matched at index 0 (`Lexer._coding_re`, no flags).  The first `.*` stays
    inside the first line; being greedy it prefers the *last* `coding[:=]` of that line.  After it `\s*` (which
    may cross newlines) is maximal, one name character must follow, and the match ends with the first newline at
    or after the name.  Returns the match length. -/
def rxCoding (s : Str) : Option Nat :=
  match s with
  | [] => none
  | c :: _ =>
    if c ≠ '#' then none
    else
      match findChar '\n' s with
      | none => none
      | some nl =>
        let cands := ((codingCandidates (s.drop 1) 1).filter (fun j => j + 7 ≤ nl)).reverse
        cands.findSome? fun j =>
          let a := j + 7
          let k := a + spanLen isSpace (s.drop a)
          match s.drop k with
          | [] => none
          | d :: _ =>
            if isCodingNameChar d then (findChar '\n' (s.drop k)).map (fun m => k + m + 1) else none

/-! ## the main loop -/

inductive StepRes
  | cont (st : State)
  | err (k : ErrKind) (lineno pos : Nat) (st : State)
  | assertion (st : State)
  | brk (st : State)
  | outOfFuel
  deriving DecidableEq, Repr

/-- try the matchers in order, as the `if self.match_x(): continue` cascade does -/
def runMatchers (s : Str) : List (State → MRes) → State → StepRes
  | [], st => if st.pos > s.length then .brk st else .assertion st
  | m :: ms, st =>
    match m st with
    | .no => runMatchers s ms st
    | .fell st' => runMatchers s ms st'
    | .yes st' => .cont st'
    | .err k l c st' => .err k l c st'
    | .outOfFuel => .outOfFuel

/-- the cascade of `Lexer.parse` after `match_end`, in source order
    (`Generated.LexerCfg.matcherOrder` is checked against this list in `Props/C01.lean`) -/
def matchers (cfg : Cfg) (s : Str) : List (State → MRes) :=
  [ matchExpression s, matchControlLine s, matchComment s, matchTagStart cfg s, matchTagEnd s,
    matchPythonBlock s, matchPercent s, matchText cfg s ]

def matcherNames : List String :=
  ["match_end", "match_expression", "match_control_line", "match_comment", "match_tag_start", "match_tag_end",
   "match_python_block", "match_percent", "match_text"]

/-- what `parse` does after the loop -/
def finish (st : State) (iters : Nat) : Result :=
  match st.tagStack with
  | _ :: _ => { toks := st.toks, outcome := .error .unclosedTag st.matchedLineno st.matchedCharpos, iters := iters }
  | [] =>
    match st.ctlStack with
    | top :: _ => { toks := st.toks, outcome := .error .unterminatedControl top.lineno top.pos, iters := iters }
    | [] => { toks := st.toks, outcome := .ok, iters := iters }

def lexLoop (cfg : Cfg) (s : Str) : Nat → State → Nat → Result
  | 0, st, it => { toks := st.toks, outcome := .outOfFuel, iters := it }
  | fuel + 1, st, it =>
    if st.pos > s.length then finish st it
    else
      match matchEnd s st with
      | some st' => finish st' (it + 1)
      | none =>
        match runMatchers s (matchers cfg s) st with
        | .cont st' => lexLoop cfg s fuel st' (it + 1)
        | .brk st' => finish st' (it + 1)
        | .err k l c st' => { toks := st'.toks, outcome := .error k l c, iters := it + 1 }
        | .assertion st' => { toks := st'.toks, outcome := .error .assertionFailed 0 0, iters := it + 1 }
        | .outOfFuel => { toks := st.toks, outcome := .outOfFuel, iters := it + 1 }

/-- the state after `parse` has skipped the magic encoding comment -/
def initState (s : Str) : State :=
  let st0 : State := {}
  match rxCoding s with
  | none => st0
  | some n =>
    let st1 := advance s st0 n
    push st1 (tokHere st1 0 st1.pos .coding)

/-- `Lexer(s).parse()` -/
def lex (cfg : Cfg) (s : Str) : Result := lexLoop cfg s (s.length + 2) (initState s) 0

/-- `Lexer(s, preprocessor=ps).parse()`: `parse` first rewrites `self.text` with every preprocessor in turn, *then*
    sets `textlength` to the length of what it is going to lex, and lexes that text: the source the tokens account
    for is the preprocessed text.  The model HARD-WIRES this order (`lex` measures the text it is given; it does
    not consult a flag): the regenerated fact `Generated.LexerCfg.textlengthIsLexedLength` only guards it – the
    obligation `textlength_is_lexed_length` in Props/C01 stops building when the assignment is moved in /repo, and
    the preprocessor streams of the harness then show the disagreement. -/
def parseWith (cfg : Cfg) (ps : List (Str → Str)) (s : Str) : Result := lex cfg (ps.foldl (fun t p => p t) s)

/-- the state the lexer is in when its cursor stands at `p` with the given stacks (for per-matcher probes) -/
def stateAt (s : Str) (p : Nat) (tags : List Str) (ctls : List Str) : State :=
  { pos := p, lineno := lineOf s p, matchedLineno := 1, matchedCharpos := 0,
    tagStack := tags, ctlStack := ctls.map fun k => { keyword := k, lineno := 0, pos := 0 } }

end MakoModel.Lexer
