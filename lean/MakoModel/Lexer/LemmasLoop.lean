import MakoModel.Lexer.LemmasMatch
/-! The main loop: the invariant is carried from the initial state to the result. -/
namespace MakoModel.Lexer
open MakoModel.Basic

variable {cfg : Cfg}

theorem matchers_ok (cfg : Cfg) (s : Str) :
    ∀ m ∈ matchers cfg s, ∀ st, Inv cfg s st → st.pos < s.length → MOk cfg s st (m st) := by
  intro m hm st hinv hlt
  simp only [matchers, List.mem_cons, List.not_mem_nil, or_false] at hm
  rcases hm with rfl | rfl | rfl | rfl | rfl | rfl | rfl | rfl
  · exact matchExpression_ok s st hinv
  · exact matchControlLine_ok s st hinv
  · exact matchComment_ok s st hinv
  · exact matchTagStart_ok cfg s st hinv
  · exact matchTagEnd_ok s st hinv
  · exact matchPythonBlock_ok s st hinv
  · exact matchPercent_ok s st hinv
  · exact matchText_ok cfg s st hinv hlt

/-- what one pass through the cascade guarantees -/
def StepOk (cfg : Cfg) (s : Str) (st0 : State) : StepRes → Prop
  | .cont st' => Inv cfg s st' ∧ st0.pos < st'.pos
  | .outOfFuel => False
  | .brk _ => False
  | .err _ _ _ st' => PrefixOk cfg s st'.toks
  | .assertion _ => True

theorem runMatchers_ok (s : Str) (ms : List (State → MRes))
    (hms : ∀ m ∈ ms, ∀ st, Inv cfg s st → st.pos < s.length → MOk cfg s st (m st)) :
    ∀ st st0 : State, Inv cfg s st → st.pos < s.length → st0.pos ≤ st.pos → StepOk cfg s st0 (runMatchers s ms st) := by
  induction ms with
  | nil =>
    intro st st0 hinv hlt _
    simp only [runMatchers]
    split
    · omega
    · trivial
  | cons m ms ih =>
    intro st st0 hinv hlt hle
    have hm := hms m (by simp) st hinv hlt
    have ih' := ih (fun m' hm' => hms m' (by simp [hm']))
    simp only [runMatchers]
    cases hr : m st with
    | no => exact ih' st st0 hinv hlt hle
    | fell st' =>
      rw [hr] at hm
      exact ih' st' st0 hm.1 hm.2.2 (by have := hm.2.1; omega)
    | yes st' =>
      rw [hr] at hm
      exact ⟨hm.1, by have := hm.2; omega⟩
    | err k l c st' => rw [hr] at hm; exact hm
    | outOfFuel => rw [hr] at hm; exact hm

/-- `match_text` always answers: the `raise MakoException("assertion failed")` of `parse` is dead code -/
theorem matchText_ne_no (cfg : Cfg) (s : Str) (st : State) : matchText cfg s st ≠ .no ∧
    (∀ st', matchText cfg s st ≠ .fell st') ∧ (∀ k l c st', matchText cfg s st ≠ .err k l c st') := by
  unfold matchText
  simp only
  refine ⟨?_, ?_, ?_⟩
  · split
    · simp
    · split
      · split
        · split <;> simp
        · simp
      · simp
  · intro st'
    split
    · simp
    · split
      · split
        · split <;> simp
        · simp
      · simp
  · intro k l c st'
    split
    · simp
    · split
      · split
        · split <;> simp
        · simp
      · simp

theorem runMatchers_no_assertion (cfg : Cfg) (s : Str) (st : State) :
    ∀ st', runMatchers s (matchers cfg s) st ≠ .assertion st' := by
  -- whatever the first seven matchers do, the cascade either stops earlier or reaches `match_text`
  have key : ∀ (pre : List (State → MRes)) (st : State) st',
      runMatchers s (pre ++ [matchText cfg s]) st ≠ .assertion st' := by
    intro pre
    induction pre with
    | nil =>
      intro st st'
      simp only [List.nil_append, runMatchers]
      have h := matchText_ne_no cfg s st
      cases hr : matchText cfg s st with
      | no => exact absurd hr h.1
      | fell x => exact absurd hr (h.2.1 x)
      | yes x => simp
      | err k l c x => exact absurd hr (h.2.2 k l c x)
      | outOfFuel => simp
    | cons m pre ih =>
      intro st st'
      simp only [List.cons_append, runMatchers]
      cases m st with
      | no => exact ih st st'
      | fell x => exact ih x st'
      | yes x => simp
      | err k l c x => simp
      | outOfFuel => simp
  intro st'
  exact key [matchExpression s, matchControlLine s, matchComment s, matchTagStart cfg s, matchTagEnd s,
    matchPythonBlock s, matchPercent s] st st'

theorem finish_toks (st : State) (it : Nat) : (finish st it).toks = st.toks ∧ (finish st it).iters = it ∧
    (finish st it).outcome ≠ .outOfFuel ∧ (finish st it).outcome ≠ .error .assertionFailed 0 0 := by
  unfold finish
  split
  · simp
  · split <;> simp

/-- everything the loop guarantees, for every fuel that is at least the remaining length + 2 -/
structure LoopOk (cfg : Cfg) (s : Str) (st : State) (it : Nat) (r : Result) : Prop where
  fuel : r.outcome ≠ .outOfFuel
  noAssert : r.outcome ≠ .error .assertionFailed 0 0
  iters : r.iters ≤ it + (s.length + 1 - st.pos)
  chain : r.outcome = .ok → Chain r.toks 0 s.length
  toks : r.outcome = .ok → ∀ t ∈ r.toks, TokOk cfg s t
  /-- whatever the outcome (also a syntax error): the tokens created so far tile a prefix of the source -/
  pre : PrefixOk cfg s r.toks

theorem lexLoop_ok (cfg : Cfg) (s : Str) :
    ∀ (fuel : Nat) (st : State) (it : Nat), Inv cfg s st → s.length + 2 ≤ fuel + st.pos →
      LoopOk cfg s st it (lexLoop cfg s fuel st it) := by
  intro fuel
  induction fuel with
  | zero => intro st it hinv hf; have := hinv.pos_le; omega
  | succ fuel ih =>
    intro st it hinv hf
    simp only [lexLoop]
    have hple := hinv.pos_le
    split
    · omega
    · split
      · -- match_end
        rename_i st' hend
        unfold matchEnd at hend
        split at hend
        · rename_i hge
          cases hend
          have hp : st.pos = s.length := by omega
          have ft := finish_toks ({ (advance s st st.pos) with pos := s.length + 1 }) (it + 1)
          refine ⟨ft.2.2.1, ft.2.2.2, by rw [ft.2.1]; omega, ?_, ?_, ?_⟩
          · intro _
            rw [ft.1]
            show Chain st.toks 0 s.length
            rw [← hp]; exact hinv.chain
          · intro _
            rw [ft.1]
            exact hinv.toks
          · rw [ft.1]
            exact hinv.prefixOk
        · cases hend
      · rename_i hend
        have hlt : st.pos < s.length := by
          unfold matchEnd at hend
          split at hend
          · cases hend
          · omega
        have hstep := runMatchers_ok s (matchers cfg s) (matchers_ok cfg s) st st hinv hlt (Nat.le_refl _)
        have hna := runMatchers_no_assertion cfg s st
        split
        · rename_i st' hr
          rw [hr] at hstep
          have := ih st' (it + 1) hstep.1 (by have := hstep.2; omega)
          exact ⟨this.fuel, this.noAssert, by have := this.iters; have := hstep.2; omega, this.chain, this.toks, this.pre⟩
        · rename_i st' hr
          rw [hr] at hstep; exact absurd hstep (by simp [StepOk])
        · rename_i k l c st' hr
          have hpre : PrefixOk cfg s st'.toks := by rw [hr] at hstep; exact hstep
          refine ⟨by simp, ?_, by simp only; omega, by simp, by simp, hpre⟩
          -- an error raised by a matcher is never the assertion
          intro hk
          simp only [Outcome.error.injEq] at hk
          have hk1 := hk.1
          subst hk1
          -- no matcher produces `.assertionFailed`
          exact absurd hr (by
            intro hr'
            have : ∀ (ms : List (State → MRes)) (st : State),
                (∀ m ∈ ms, ∀ st k l c st', m st = .err k l c st' → k ≠ .assertionFailed) →
                ∀ l c st', runMatchers s ms st ≠ .err .assertionFailed l c st' := by
              intro ms
              induction ms with
              | nil => intro st _ l c st'; simp only [runMatchers]; split <;> simp
              | cons m ms ihm =>
                intro st hall l c st'
                simp only [runMatchers]
                cases hm : m st with
                | no => exact ihm st (fun m' hm' => hall m' (by simp [hm'])) l c st'
                | fell x => exact ihm x (fun m' hm' => hall m' (by simp [hm'])) l c st'
                | yes x => simp
                | err k2 l2 c2 x =>
                  have := hall m (by simp) st k2 l2 c2 x hm
                  intro heq
                  simp only [StepRes.err.injEq] at heq
                  exact this heq.1
                | outOfFuel => simp
            refine this (matchers cfg s) st ?_ l c st' hr'
            intro m hm st2 k2 l2 c2 st2' hres
            simp only [matchers, List.mem_cons, List.not_mem_nil, or_false] at hm
            rcases hm with rfl | rfl | rfl | rfl | rfl | rfl | rfl | rfl
            all_goals (intro hk2; subst hk2; revert hres)
            · unfold matchExpression; simp only; split
              · split
                · simp
                · simp
                · split
                  · split <;> simp
                  · simp
              · simp
            · unfold matchControlLine; simp only; split
              · split
                · simp
                · split
                  · split
                    · simp
                    · split
                      · split
                        · simp
                        · split <;> simp
                      · split
                        · simp
                        · split
                          · simp
                          · split <;> simp
                  · simp
              · simp
            · unfold matchComment; simp only; split
              · split <;> simp
              · simp
            · unfold matchTagStart; simp only; split
              · simp
              · split
                · simp
                · split
                  · unfold textTagBody; simp only; split
                    · simp
                    · split
                      · simp
                      · rename_i r hrr
                        intro hres
                        rw [hres] at hrr
                        revert hres
                        unfold matchTagEnd; simp only; split
                        · simp
                        · split
                          · simp
                          · split <;> simp
                  · simp
            · unfold matchTagEnd; simp only; split
              · simp
              · split
                · simp
                · split <;> simp
            · unfold matchPythonBlock; simp only; split
              · split <;> simp
              · simp
            · unfold matchPercent; simp only; split
              · split <;> simp
              · simp
            · intro hres; exact (matchText_ne_no cfg s st2).2.2 _ _ _ _ hres)
        · rename_i st' hr
          exact absurd hr (hna st')
        · rename_i hr
          rw [hr] at hstep; exact absurd hstep (by simp [StepOk])

theorem rxCoding_range {s : Str} {n : Nat} (h : rxCoding s = some n) : 0 < n ∧ n ≤ s.length := by
  unfold rxCoding at h
  split at h
  · cases h
  · split at h
    · cases h
    · split at h
      · cases h
      · rename_i nl hnl
        obtain ⟨j, _, hj⟩ := List.exists_of_findSome?_eq_some h
        simp only at hj
        split at hj
        · cases hj
        · rename_i d tl hd
          split at hj
          · simp only [Option.map_eq_some_iff] at hj
            obtain ⟨m, hm, rfl⟩ := hj
            have := findChar_lt hm
            simp only [List.length_drop] at this
            omega
          · cases hj

theorem initState_inv (s : Str) : Inv cfg s (initState s) := by
  unfold initState
  simp only
  have h0 : Inv cfg s ({} : State) := ⟨Nat.zero_le _, (lineOf_zero s).symm, rfl, by intro t ht; cases ht⟩
  split
  · exact h0
  · rename_i n hn
    have hr := rxCoding_range hn
    have hs := advance_stepped s ({} : State) n (lineOf_zero s).symm (Nat.zero_le _) hr.2 (by show 0 < s.length; omega)
    exact Inv.push_here h0 hs .coding (by unfold Faithful; trivial)

/-- the result of `lex` on any string -/
theorem lex_ok (cfg : Cfg) (s : Str) : LoopOk cfg s (initState s) 0 (lex cfg s) :=
  lexLoop_ok cfg s (s.length + 2) (initState s) 0 (initState_inv s) (by omega)

end MakoModel.Lexer
