import MakoModel.Lexer.LemmasLoop
/-!
Directive-free input: the predicate `Plain` and the computation of the lexer on it.
-/
namespace MakoModel.Lexer
open MakoModel.Basic

/-- at every line start (offset 0 or directly after a `'\n'`) the text ahead is not `[ \t]*%` or `[ \t]*##` -/
def noDirectiveLines : Bool → Str → Bool
  | _, [] => true
  | bol, c :: t => !(bol && lineDirectiveAhead (c :: t)) && noDirectiveLines (c == '\n') t

/-- no `${`, no `<%`, no `</%`, no backslash-newline, no line whose first non-blank is `%` or `##`,
    no `\s*%%` at the very start, no magic encoding comment -/
def Plain (s : Str) : Bool :=
  (findSub (lit "${") s).isNone && (findSub (lit "<%") s).isNone && (findSub (lit "</%") s).isNone
  && (findSub (lit "\\\n") s).isNone && (findSub (lit "\\\r\n") s).isNone
  && noDirectiveLines true s
  && !(hasPrefix (lit "%%") (s.drop (spanLen isSpace s)))
  && (rxCoding s).isNone

theorem hasPrefix_append_left {a b l : Str} (h : hasPrefix (a ++ b) l = true) : hasPrefix a l = true := by
  obtain ⟨t, rfl⟩ := hasPrefix_iff.mp h
  exact hasPrefix_iff.mpr ⟨b ++ t, by simp⟩

theorem findSub_none_noprefix {pat l : Str} (hp : pat ≠ []) (h : findSub pat l = none) : hasPrefix pat l = false := by
  cases l with
  | nil =>
    cases pat with
    | nil => exact absurd rfl hp
    | cons a as => simp [hasPrefix]
  | cons d ds => exact findSub_none_prefix h

theorem rxControlLine_none_of {l : Str} (h : lineDirectiveAhead l = false) : rxControlLine l = none := by
  unfold rxControlLine
  unfold lineDirectiveAhead at h
  simp only
  cases hd : l.drop (spanLen isBlank l) with
  | nil => simp
  | cons c t =>
    rw [hd] at h
    simp only at h
    by_cases hc : c = '%'
    · simp [hc] at h
    · by_cases hh : c = '#' ∧ t.head? = some '#'
      · simp [hh.1, hh.2] at h
      · simp [hc, hh]

/-- on a suffix without any stop condition `match_text`'s lazy scan runs to the end -/
theorem textScan_plain (l : Str) : ∀ (b b' : Bool), (b' = true → b = true) →
    noDirectiveLines b l = true → findSub (lit "${") l = none → findSub (lit "<%") l = none →
    findSub (lit "</%") l = none → findSub (lit "\\\n") l = none → findSub (lit "\\\r\n") l = none →
    textScan b' l = (l.length, .eof) := by
  induction l with
  | nil => intro b b' _ _ _ _ _ _ _; simp [textScan]
  | cons c t ih =>
    intro b b' hb hnd h1 h2 h3 h4 h5
    simp only [noDirectiveLines, Bool.and_eq_true, Bool.not_eq_true'] at hnd
    have p1 := findSub_none_prefix h1
    have p2 := findSub_none_prefix h2
    have p3 := findSub_none_prefix h3
    have p4 := findSub_none_prefix h4
    have p5 := findSub_none_prefix h5
    have hstop : textStopAt b' (c :: t) = none := by
      unfold textStopAt
      simp only
      have hA : (b' && lineDirectiveAhead (c :: t)) = false := by
        cases hb' : b' with
        | false => simp
        | true =>
          have := hb hb'
          rw [this] at hnd
          simpa using hnd.1
      rw [hA]
      simp only [Bool.false_eq_true, if_false]
      have hB : ¬ (c = '$' ∧ t.head? = some '{') := by
        rintro ⟨rfl, ht⟩
        cases t with
        | nil => simp at ht
        | cons d t' =>
          simp only [List.head?_cons, Option.some.injEq] at ht
          subst ht
          simp [hasPrefix, lit] at p1
      have hC : ¬ (c = '<' ∧ (t.head? = some '%' ∨ hasPrefix (lit "/%") t = true)) := by
        rintro ⟨rfl, ht | ht⟩
        · cases t with
          | nil => simp at ht
          | cons d t' =>
            simp only [List.head?_cons, Option.some.injEq] at ht
            subst ht
            simp [hasPrefix, lit] at p2
        · obtain ⟨u, rfl⟩ := hasPrefix_iff.mp ht
          simp [hasPrefix, lit] at p3
      have hD : ¬ (c = '\\' ∧ t.head? = some '\n') := by
        rintro ⟨rfl, ht⟩
        cases t with
        | nil => simp at ht
        | cons d t' =>
          simp only [List.head?_cons, Option.some.injEq] at ht
          subst ht
          simp [hasPrefix, lit] at p4
      have hE : ¬ (c = '\\' ∧ hasPrefix (lit "\r\n") t = true) := by
        rintro ⟨rfl, ht⟩
        obtain ⟨u, rfl⟩ := hasPrefix_iff.mp ht
        simp [hasPrefix, lit] at p5
      simp only [hB, hC, hD, hE, if_false]
    simp only [textScan, hstop]
    have := ih (c == '\n') (c == '\n') (fun h => h) hnd.2 (findSub_none_tail h1) (findSub_none_tail h2)
      (findSub_none_tail h3) (findSub_none_tail h4) (findSub_none_tail h5)
    rw [this]
    simp

/-- the token the lexer produces for a non-empty directive-free input -/
def plainToken (s : Str) : Token := { start := 0, stop := s.length, lineno := 1, pos := 1, payload := .text s }

theorem lex_plain (cfg : Cfg) (s : Str) (hne : s ≠ []) (hpl : Plain s = true) :
    lex cfg s = { toks := [plainToken s], outcome := .ok, iters := 2 } := by
  simp only [Plain, Bool.and_eq_true, Option.isNone_iff_eq_none, Bool.not_eq_true'] at hpl
  obtain ⟨⟨⟨⟨⟨⟨⟨h1, h2⟩, h3⟩, h4⟩, h5⟩, hnd⟩, hpc⟩, hcod⟩ := hpl
  have hlen : 0 < s.length := by cases s with | nil => exact absurd rfl hne | cons _ _ => simp
  have q1 := findSub_none_noprefix (by decide) h1
  have q2 := findSub_none_noprefix (by decide) h2
  have q3 := findSub_none_noprefix (by decide) h3
  -- the initial state
  have hinit : initState s = {} := by simp [initState, hcod]
  -- the seven matchers before match_text do not match at offset 0
  have e1 : matchExpression s {} = .no := by simp [matchExpression, q1]
  have e2 : matchControlLine s {} = .no := by
    have : lineDirectiveAhead s = false := by
      cases s with
      | nil => exact absurd rfl hne
      | cons c t => have := hnd; simp only [noDirectiveLines, Bool.and_eq_true, Bool.not_eq_true', Bool.true_and] at this; exact this.1
    simp [matchControlLine, rxControlLine_none_of this]
  have e3 : matchComment s {} = .no := by
    have : hasPrefix (lit "<%doc>") s = false := by
      cases hh : hasPrefix (lit "<%doc>") s with
      | false => rfl
      | true =>
        have := hasPrefix_append_left (a := lit "<%") (b := lit "doc>") (l := s) hh
        rw [q2] at this; cases this
    simp [matchComment, this]
  have e4 : matchTagStart cfg s {} = .no := by simp [matchTagStart, rxTagStart, q2]
  have e5 : matchTagEnd s {} = .no := by simp [matchTagEnd, rxTagEnd, q3]
  have e6 : matchPythonBlock s {} = .no := by simp [matchPythonBlock, q2]
  have e7 : matchPercent s {} = .no := by simp [matchPercent, hpc]
  -- match_text takes everything
  have hscan := textScan_plain s true false (by simp) hnd h1 h2 h3 h4 h5
  have e8 : matchText cfg s {} = .yes (push (advance s {} s.length) (tokHere (advance s {} s.length) 0 s.length (.text s))) := by
    have hl0 : s.length ≠ 0 := by omega
    simp only [matchText, List.drop_zero, bne_self_eq_false, Bool.false_and, hscan, TextStop.consumed, Nat.add_zero,
      Nat.zero_add, hl0, ne_eq, not_false_eq_true, if_true, List.take_length]
    rw [advance_pos_of_lt s {} s.length (by exact hlen)]
  have hadv : (advance s ({} : State) s.length).pos = s.length := advance_pos_of_lt s {} s.length hlen
  unfold lex
  rw [hinit]
  -- first iteration
  rw [show s.length + 2 = (s.length + 1) + 1 from rfl]
  simp only [lexLoop]
  have hnotgt : ¬ (({} : State).pos > s.length) := by show ¬ (0 > s.length); omega
  have hend0 : matchEnd s {} = none := by
    simp only [matchEnd]
    have : ¬ (({} : State).pos ≥ s.length) := by show ¬ (0 ≥ s.length); omega
    simp [this]
  simp only [hnotgt, if_false, hend0, matchers, runMatchers, e1, e2, e3, e4, e5, e6, e7, e8]
  -- second iteration: match_end
  generalize hst1 : push (advance s {} s.length) (tokHere (advance s {} s.length) 0 s.length (.text s)) = st1
  have hp1 : st1.pos = s.length := by rw [← hst1]; exact hadv
  have hend1 : matchEnd s st1 = some { (advance s st1 st1.pos) with pos := s.length + 1 } := by
    simp [matchEnd, hp1]
  have hng : ¬ st1.pos > s.length := by omega
  simp only [hng, if_false, hend1]
  rw [← hst1]
  simp [finish, advance, push, tokHere, plainToken, colOf_zero]

theorem lex_empty (cfg : Cfg) : lex cfg [] = { toks := [], outcome := .ok, iters := 1 } := by
  rfl

end MakoModel.Lexer
