import MakoModel.Lexer.LemmasScan
/-!
The invariant of the lexer loop and what `match_reg` (`advance`) and `parse_until_text` do to it.
-/
namespace MakoModel.Lexer
open MakoModel.Basic

variable {cfg : Cfg}

/-- the tokens' spans are contiguous, in order, from `a` to `b` -/
def Chain : List Token → Nat → Nat → Prop
  | [], a, b => a = b
  | t :: ts, a, b => t.start = a ∧ Chain ts t.stop b

theorem Chain.append {xs ys : List Token} {a b c : Nat} (h1 : Chain xs a b) (h2 : Chain ys b c) :
    Chain (xs ++ ys) a c := by
  induction xs generalizing a with
  | nil => simp only [Chain] at h1; subst h1; simpa using h2
  | cons t ts ih => exact ⟨h1.1, ih h1.2⟩

theorem Chain.single (t : Token) : Chain [t] t.start t.stop := ⟨rfl, rfl⟩

/-- the raw pieces of a chain of well-formed tokens concatenate to the source span -/
theorem Chain.flatten (s : Str) {ts : List Token} {a b : Nat} (h : Chain ts a b)
    (hle : ∀ t ∈ ts, t.start ≤ t.stop) : a ≤ b ∧ (ts.map (Token.raw s)).flatten = slice s a b := by
  induction ts generalizing a with
  | nil => simp only [Chain] at h; subst h; simp
  | cons t ts ih =>
    obtain ⟨h1, h2⟩ := h
    have hts := ih h2 (fun x hx => hle x (by simp [hx]))
    have ht := hle t (by simp)
    subst h1
    refine ⟨by omega, ?_⟩
    simp only [List.map_cons, List.flatten_cons, hts.2, Token.raw]
    exact slice_append s _ _ _ ht hts.1

/-- where a character can be stepped over by the empty-match rule of `match_reg`: `match_text`'s regex matched
    the empty string at `p` (and the code does not emit the character), or `p` is the `<` of the `</%text>` that
    directly follows `<%text>` (and the code does not step back) -/
def SkipSite (cfg : Cfg) (s : Str) (p : Nat) : Prop :=
  (cfg.emitSkipped = false ∧
    (textScan (p != 0 && s[p - 1]? == some '\n') (s.drop p)).1 = 0 ∧
    (textScan (p != 0 && s[p - 1]? == some '\n') (s.drop p)).2.consumed = 0)
  ∨ (cfg.textTagStepBack = false ∧ hasPrefix (lit "</%text>") (s.drop p) = true)

/-- what a text token may stand for (the documented escapes), and what the ghost tokens are -/
def Faithful (cfg : Cfg) (s : Str) (t : Token) : Prop :=
  match t.payload with
  | .text c =>
      c = t.raw s
      ∨ t.raw s = c ++ lit "\\\n"
      ∨ t.raw s = c ++ lit "\\\r\n"
      ∨ (∃ ws k, t.raw s = ws ++ lit "%%" ++ List.replicate k '%' ∧ c = ws ++ '%' :: List.replicate k '%'
          ∧ atLineStart s t.start = true ∧ ∀ x ∈ ws, isSpace x = true)
  | .cont => t.raw s = lit "\\\n" ∨ t.raw s = lit "\\\r\n"
  | .skipped => t.stop = t.start + 1 ∧ SkipSite cfg s t.start
  | .comment c => t.raw s = lit "<%doc>" ++ c ++ lit "</%doc>" ∨ atLineStart s t.start = true
  | .ctl _ _ _ => atLineStart s t.start = true
  | _ => True

structure TokOk (cfg : Cfg) (s : Str) (t : Token) : Prop where
  le : t.start ≤ t.stop
  stop_le : t.stop ≤ s.length
  line : t.lineno = lineOf s t.start
  col : t.pos = colOf s t.start
  faithful : Faithful cfg s t

structure Inv (cfg : Cfg) (s : Str) (st : State) : Prop where
  pos_le : st.pos ≤ s.length
  lineno : st.lineno = lineOf s st.pos
  chain : Chain st.toks 0 st.pos
  toks : ∀ t ∈ st.toks, TokOk cfg s t

/-- the tokens tile a prefix `s[0, q)` of the source and each is well-formed (what holds of the tokens created
    before a syntax error was raised) -/
def PrefixOk (cfg : Cfg) (s : Str) (toks : List Token) : Prop :=
  ∃ q, q ≤ s.length ∧ Chain toks 0 q ∧ ∀ t ∈ toks, TokOk cfg s t

theorem Inv.prefixOk {s : Str} {st : State} (h : Inv cfg s st) : PrefixOk cfg s st.toks :=
  ⟨st.pos, h.pos_le, h.chain, h.toks⟩

theorem Inv.prefixOk_of {s : Str} {st st' : State} (h : Inv cfg s st) (e : st'.toks = st.toks) :
    PrefixOk cfg s st'.toks := by rw [e]; exact h.prefixOk

/-- `st1` is `st` after one non-degenerate `match_reg` -/
structure Stepped (s : Str) (st st1 : State) : Prop where
  pos_gt : st.pos < st1.pos
  pos_le : st1.pos ≤ s.length
  lineno : st1.lineno = lineOf s st1.pos
  mline : st1.matchedLineno = lineOf s st.pos
  mcol : st1.matchedCharpos = colOf s st.pos
  toks : st1.toks = st.toks
  tags : st1.tagStack = st.tagStack
  ctls : st1.ctlStack = st.ctlStack

theorem advance_lineno (s : Str) (st : State) (e : Nat) (hl : st.lineno = lineOf s st.pos) (he : st.pos ≤ e) :
    (advance s st e).lineno = lineOf s (advance s st e).pos := by
  simp only [advance]
  split
  · rw [hl, lineOf_add s st.pos (e + 1) (by omega)]
  · rw [hl, lineOf_add s st.pos e he]

theorem advance_stepped (s : Str) (st : State) (e : Nat) (hl : st.lineno = lineOf s st.pos)
    (h1 : st.pos ≤ e) (h2 : e ≤ s.length) (h3 : st.pos < s.length) : Stepped s st (advance s st e) where
  pos_gt := by simp only [advance]; split <;> omega
  pos_le := by simp only [advance]; split <;> omega
  lineno := advance_lineno s st e hl h1
  mline := by simp only [advance]; exact hl
  mcol := rfl
  toks := rfl
  tags := rfl
  ctls := rfl

/-- a non-empty match ends where the regex ended -/
theorem advance_pos_of_lt (s : Str) (st : State) (e : Nat) (h : st.pos < e) : (advance s st e).pos = e := by
  simp only [advance]; split <;> omega

theorem Inv.of_stacks {s : Str} {st : State} (h : Inv cfg s st) (tags : List Str) (ctls : List CtlFrame) :
    Inv cfg s { st with tagStack := tags, ctlStack := ctls } :=
  ⟨h.pos_le, h.lineno, h.chain, h.toks⟩

theorem Inv.of_tags {s : Str} {st : State} (h : Inv cfg s st) (tags : List Str) :
    Inv cfg s { st with tagStack := tags } := ⟨h.pos_le, h.lineno, h.chain, h.toks⟩

theorem Inv.of_ctls {s : Str} {st : State} (h : Inv cfg s st) (ctls : List CtlFrame) :
    Inv cfg s { st with ctlStack := ctls } := ⟨h.pos_le, h.lineno, h.chain, h.toks⟩

/-- appending a token that spans from the old cursor to the new one -/
theorem Inv.push_span {s : Str} {st st1 : State} (h : Inv cfg s st) (tok : Token)
    (hpos : st1.pos ≤ s.length) (hline : st1.lineno = lineOf s st1.pos) (htoks : st1.toks = st.toks)
    (hstart : tok.start = st.pos) (hstop : tok.stop = st1.pos) (hok : TokOk cfg s tok) :
    Inv cfg s (push st1 tok) where
  pos_le := hpos
  lineno := hline
  chain := by
    simp only [push, htoks]
    have := Chain.single tok
    rw [hstart, hstop] at this
    exact Chain.append h.chain this
  toks := by
    intro t ht
    simp only [push, htoks, List.mem_append, List.mem_singleton] at ht
    rcases ht with ht | rfl
    · exact h.toks t ht
    · exact hok

/-- the usual case: one regex match, one token at the coordinates of that match -/
theorem Inv.push_here {s : Str} {st st1 : State} (h : Inv cfg s st) (hs : Stepped s st st1) (pl : Payload)
    (hf : Faithful cfg s (tokHere st1 st.pos st1.pos pl)) :
    Inv cfg s (push st1 (tokHere st1 st.pos st1.pos pl)) :=
  Inv.push_span h _ hs.pos_le hs.lineno hs.toks rfl rfl
    ⟨Nat.le_of_lt hs.pos_gt, hs.pos_le, hs.mline, hs.mcol, hf⟩

/-! ### `parse_until_text` -/

/-- `st'` is `st` after some more `match_reg`s that created no node -/
structure Moved (s : Str) (st st' : State) : Prop where
  pos_ge : st.pos ≤ st'.pos
  pos_le : st'.pos ≤ s.length
  lineno : st'.lineno = lineOf s st'.pos
  toks : st'.toks = st.toks
  tags : st'.tagStack = st.tagStack
  ctls : st'.ctlStack = st.ctlStack

theorem Moved.of_stepped {s : Str} {st st1 st2 : State} (h1 : Stepped s st st1) (h2 : Moved s st1 st2) :
    Moved s st st2 :=
  ⟨by have := h1.pos_gt; have := h2.pos_ge; omega, h2.pos_le, h2.lineno, h2.toks.trans h1.toks,
   h2.tags.trans h1.tags, h2.ctls.trans h1.ctls⟩

theorem Moved.trans {s : Str} {st st1 st2 : State} (h1 : Moved s st st1) (h2 : Moved s st1 st2) :
    Moved s st st2 :=
  ⟨by have := h1.pos_ge; have := h2.pos_ge; omega, h2.pos_le, h2.lineno, h2.toks.trans h1.toks,
   h2.tags.trans h1.tags, h2.ctls.trans h1.ctls⟩

theorem Stepped.moved {s : Str} {st st1 : State} (h : Stepped s st st1) : Moved s st st1 :=
  ⟨Nat.le_of_lt h.pos_gt, h.pos_le, h.lineno, h.toks, h.tags, h.ctls⟩

theorem drop_length_pos {s : Str} {p n : Nat} (h : 0 < n) (hn : n ≤ (s.drop p).length) : p < s.length := by
  simp only [List.length_drop] at hn; omega

theorem parseUntilLoop_found (s : Str) (watch : Bool) (terms : List Str) (hterms : ∀ t ∈ terms, 0 < t.length)
    (sp sl sc : Nat) (fuel : Nat) (st : State) (br pa bk : Int) :
    ∀ st' text term, st.pos ≤ s.length → st.lineno = lineOf s st.pos →
      parseUntilLoop s watch terms sp sl sc fuel st br pa bk = .found st' text term →
      Moved s st st' ∧ st.pos < st'.pos := by
  fun_induction parseUntilLoop s watch terms sp sl sc fuel st br pa bk
  · intro st' text term _ _ h; cases h
  · rename_i fuel st br pa bk rest k hk ih
    intro st' text term hp hl h
    have hr := rxHashComment_range hk
    have hlt := drop_length_pos hr.1 hr.2
    have hs := advance_stepped s st (st.pos + k) hl (by omega)
      (by have := hr.2; simp only [rest, List.length_drop] at this; omega) hlt
    have := ih st' text term hs.pos_le hs.lineno h
    exact ⟨Moved.of_stepped hs this.1, by have := hs.pos_gt; omega⟩
  · rename_i fuel st br pa bk rest _ k hk ih
    intro st' text term hp hl h
    have hr := rxString_range hk
    have hlt := drop_length_pos hr.1 hr.2
    have hs := advance_stepped s st (st.pos + k) hl (by omega)
      (by have := hr.2; simp only [rest, List.length_drop] at this; omega) hlt
    have := ih st' text term hs.pos_le hs.lineno h
    exact ⟨Moved.of_stepped hs this.1, by have := hs.pos_gt; omega⟩
  · rename_i fuel st br pa bk rest _ _ t ht st1 hw
    intro st' text term hp hl h
    simp only [PURes.found.injEq] at h
    obtain ⟨rfl, _, _⟩ := h
    have hm := matchTerm_spec ht
    have htl := hterms t hm.1
    have hpl := hasPrefix_length hm.2
    have hlt := drop_length_pos htl hpl
    have hs := advance_stepped s st (st.pos + t.length) hl (by omega)
      (by simp only [rest, List.length_drop] at hpl; omega) hlt
    exact ⟨hs.moved, hs.pos_gt⟩
  · rename_i fuel st br pa bk rest _ _ t ht st1 hw ih
    intro st' text term hp hl h
    have hm := matchTerm_spec ht
    have htl := hterms t hm.1
    have hpl := hasPrefix_length hm.2
    have hlt := drop_length_pos htl hpl
    have hs : Stepped s st st1 := advance_stepped s st (st.pos + t.length) hl (by omega)
      (by simp only [rest, List.length_drop] at hpl; omega) hlt
    have := ih st' text term hs.pos_le hs.lineno h
    exact ⟨Moved.of_stepped hs this.1, by have := hs.pos_gt; omega⟩
  · rename_i fuel st br pa bk rest _ _ _ n hn g ih
    intro st' text term hp hl h
    have hr := rxUntilSpecial_lt hn
    have hlt : st.pos < s.length := by simp only [rest, List.length_drop] at hr; omega
    have hs := advance_stepped s st (st.pos + n) hl (by omega)
      (by simp only [rest, List.length_drop] at hr; omega) hlt
    have := ih st' text term hs.pos_le hs.lineno h
    exact ⟨Moved.of_stepped hs this.1, by have := hs.pos_gt; omega⟩
  · intro st' text term _ _ h; cases h

/-- `parse_until_text` creates no node, also when it gives up -/
theorem parseUntilLoop_fail_toks (s : Str) (watch : Bool) (terms : List Str) (sp sl sc : Nat) (fuel : Nat) (st : State)
    (br pa bk : Int) : ∀ l c st', parseUntilLoop s watch terms sp sl sc fuel st br pa bk = .fail l c st' →
      st'.toks = st.toks := by
  fun_induction parseUntilLoop s watch terms sp sl sc fuel st br pa bk
  · intro l c st' h; cases h
  · rename_i ih; intro l c st' h; exact ih l c st' h
  · rename_i ih; intro l c st' h; exact ih l c st' h
  · intro l c st' h; cases h
  · rename_i ih; intro l c st' h; exact ih l c st' h
  · rename_i ih; intro l c st' h; exact ih l c st' h
  · intro l c st' h; cases h; rfl

theorem parseUntil_fail_toks {s : Str} {watch : Bool} {terms : List Str} {st st' : State} {l c : Nat}
    (h : parseUntil s watch terms st = .fail l c st') : st'.toks = st.toks :=
  parseUntilLoop_fail_toks s watch terms _ _ _ _ st 0 0 0 l c st' h

theorem parseUntil_found {s : Str} {watch : Bool} {terms : List Str} (hterms : ∀ t ∈ terms, 0 < t.length)
    {st st' : State} {text term : Str} (hp : st.pos ≤ s.length) (hl : st.lineno = lineOf s st.pos)
    (h : parseUntil s watch terms st = .found st' text term) : Moved s st st' ∧ st.pos < st'.pos :=
  parseUntilLoop_found s watch terms hterms _ _ _ _ st 0 0 0 st' text term hp hl h

/-- the fuel of `parse_until_text`'s loop is never exhausted -/
theorem parseUntilLoop_fuel (s : Str) (watch : Bool) (terms : List Str) (hterms : ∀ t ∈ terms, 0 < t.length)
    (sp sl sc : Nat) (fuel : Nat) (st : State) (br pa bk : Int) :
    st.pos ≤ s.length → st.lineno = lineOf s st.pos → s.length + 1 ≤ fuel + st.pos →
      parseUntilLoop s watch terms sp sl sc fuel st br pa bk ≠ .outOfFuel := by
  fun_induction parseUntilLoop s watch terms sp sl sc fuel st br pa bk
  · intro hp _ hf; omega
  · rename_i fuel st br pa bk rest k hk ih
    intro hp hl hf
    have hr := rxHashComment_range hk
    have hlt := drop_length_pos hr.1 hr.2
    have hs := advance_stepped s st (st.pos + k) hl (by omega)
      (by have := hr.2; simp only [rest, List.length_drop] at this; omega) hlt
    exact ih hs.pos_le hs.lineno (by have := hs.pos_gt; omega)
  · rename_i fuel st br pa bk rest _ k hk ih
    intro hp hl hf
    have hr := rxString_range hk
    have hlt := drop_length_pos hr.1 hr.2
    have hs := advance_stepped s st (st.pos + k) hl (by omega)
      (by have := hr.2; simp only [rest, List.length_drop] at this; omega) hlt
    exact ih hs.pos_le hs.lineno (by have := hs.pos_gt; omega)
  · intro _ _ _ h; cases h
  · rename_i fuel st br pa bk rest _ _ t ht st1 hw ih
    intro hp hl hf
    have hm := matchTerm_spec ht
    have htl := hterms t hm.1
    have hpl := hasPrefix_length hm.2
    have hlt := drop_length_pos htl hpl
    have hs : Stepped s st st1 := advance_stepped s st (st.pos + t.length) hl (by omega)
      (by simp only [rest, List.length_drop] at hpl; omega) hlt
    exact ih hs.pos_le hs.lineno (by have := hs.pos_gt; omega)
  · rename_i fuel st br pa bk rest _ _ _ n hn g ih
    intro hp hl hf
    have hr := rxUntilSpecial_lt hn
    have hlt : st.pos < s.length := by simp only [rest, List.length_drop] at hr; omega
    have hs := advance_stepped s st (st.pos + n) hl (by omega)
      (by simp only [rest, List.length_drop] at hr; omega) hlt
    exact ih hs.pos_le hs.lineno (by have := hs.pos_gt; omega)
  · intro _ _ _ h; cases h

theorem parseUntil_fuel {s : Str} {watch : Bool} {terms : List Str} (hterms : ∀ t ∈ terms, 0 < t.length)
    {st : State} (hp : st.pos ≤ s.length) (hl : st.lineno = lineOf s st.pos) :
    parseUntil s watch terms st ≠ .outOfFuel :=
  parseUntilLoop_fuel s watch terms hterms _ _ _ _ st 0 0 0 hp hl (by omega)

end MakoModel.Lexer
