import MakoModel.Lexer.LemmasInv
/-!
One contract lemma per matcher: from a state satisfying the loop invariant, a matcher that answers (`yes`, or
`fell` = consumed-then-False) leaves a state satisfying the invariant with a strictly larger cursor, and never
runs out of fuel.
-/
namespace MakoModel.Lexer
open MakoModel.Basic

variable {cfg : Cfg}

/-- contract of one matcher application -/
def MOk (cfg : Cfg) (s : Str) (st : State) : MRes → Prop
  | .yes st' => Inv cfg s st' ∧ st.pos < st'.pos
  | .fell st' => Inv cfg s st' ∧ st.pos < st'.pos ∧ st'.pos < s.length
  | .outOfFuel => False
  | .err _ _ _ st' => PrefixOk cfg s st'.toks
  | .no => True

theorem slice_add (s : Str) (p n : Nat) : slice s p (p + n) = (s.drop p).take n := by
  simp [slice]

theorem spanLen_all (p : Char → Bool) (l : Str) : ∀ x ∈ l.take (spanLen p l), p x = true := by
  induction l with
  | nil => simp [spanLen]
  | cons c cs ih =>
    simp only [spanLen]
    split
    · rename_i hc
      intro x hx
      simp only [List.take_succ_cons, List.mem_cons] at hx
      rcases hx with rfl | hx
      · exact hc
      · exact ih x hx
    · simp

theorem spanLen_replicate (c : Char) (l : Str) :
    l.take (spanLen (· == c) l) = List.replicate (spanLen (· == c) l) c := by
  induction l with
  | nil => simp [spanLen]
  | cons d ds ih =>
    simp only [spanLen]
    split
    · rename_i hd
      simp only [beq_iff_eq] at hd
      simp only [List.take_succ_cons, List.replicate_succ, ih, hd]
    · simp

theorem take_add_drop (l : Str) (a b : Nat) : l.take (a + b) = l.take a ++ (l.drop a).take b := by
  rw [List.take_add]

/-! ### match_comment -/

theorem matchComment_ok (s : Str) (st : State) (h : Inv cfg s st) : MOk cfg s st (matchComment s st) := by
  unfold matchComment
  simp only
  split
  · rename_i hp
    split
    · trivial
    · rename_i n hn
      have hlen : 6 ≤ (s.drop st.pos).length := hasPrefix_length hp
      have hsub := findSub_le hn
      have hpre := findSub_prefix hn
      simp only [List.length_drop] at hlen hsub
      have h7 : (lit "</%doc>").length = 7 := rfl
      have hs := advance_stepped s st (st.pos + 6 + n + 7) h.lineno (by omega) (by omega) (by omega)
      have hpos := advance_pos_of_lt s st (st.pos + 6 + n + 7) (by omega)
      refine ⟨Inv.push_here h hs _ ?_, hs.pos_gt⟩
      unfold Faithful
      simp only [tokHere, Token.raw]
      left
      rw [hpos, show st.pos + 6 + n + 7 = st.pos + (6 + (n + 7)) by omega, slice_add, take_add_drop, take_add_drop]
      have e1 := hasPrefix_take hp
      have e2 := hasPrefix_take hpre
      simp only [show (lit "<%doc>").length = 6 from rfl] at e1
      simp only [h7] at e2
      rw [e1, e2, List.append_assoc]
  · trivial

/-! ### match_percent -/

theorem matchPercent_ok (s : Str) (st : State) (h : Inv cfg s st) : MOk cfg s st (matchPercent s st) := by
  unfold matchPercent
  simp only
  split
  · rename_i hbol
    split
    · rename_i hp
      generalize hrest : s.drop st.pos = rest at hp
      have hw := spanLen_le isSpace rest
      have h2 : 2 ≤ (rest.drop (spanLen isSpace rest)).length := hasPrefix_length hp
      have hk := spanLen_le (· == '%') ((rest.drop (spanLen isSpace rest)).drop 2)
      have hrl : rest.length = s.length - st.pos := by rw [← hrest]; simp
      simp only [List.length_drop] at h2 hk
      have hs := advance_stepped s st
        (st.pos + spanLen isSpace rest + 2 + spanLen (· == '%') ((rest.drop (spanLen isSpace rest)).drop 2))
        h.lineno (by omega) (by omega) (by omega)
      refine ⟨Inv.push_here h hs _ ?_, hs.pos_gt⟩
      -- fidelity: raw = ws ++ "%%" ++ "%"*k
      have hpos := advance_pos_of_lt s st
        (st.pos + spanLen isSpace rest + 2 + spanLen (· == '%') ((rest.drop (spanLen isSpace rest)).drop 2)) (by omega)
      unfold Faithful
      right; right; right
      refine ⟨rest.take (spanLen isSpace rest), spanLen (· == '%') ((rest.drop (spanLen isSpace rest)).drop 2), ?_, ?_, hbol, ?_⟩
      · simp only [Token.raw, tokHere]
        rw [hpos]
        have e1 : st.pos + spanLen isSpace rest + 2 + spanLen (· == '%') ((rest.drop (spanLen isSpace rest)).drop 2)
            = st.pos + (spanLen isSpace rest + (2 + spanLen (· == '%') ((rest.drop (spanLen isSpace rest)).drop 2))) := by omega
        rw [e1, slice_add, hrest, take_add_drop, take_add_drop, ← spanLen_replicate]
        have := hasPrefix_take hp
        simp only [show (lit "%%").length = 2 from rfl] at this
        rw [this, List.append_assoc]
      · rw [← spanLen_replicate]
      · exact spanLen_all isSpace rest
    · trivial
  · trivial

/-! ### match_tag_end -/

theorem matchTagEnd_ok (s : Str) (st : State) (h : Inv cfg s st) : MOk cfg s st (matchTagEnd s st) := by
  unfold matchTagEnd
  simp only
  split
  · trivial
  · rename_i kw n hn
    have hr := rxTagEnd_range hn
    simp only [List.length_drop] at hr
    have hs := advance_stepped s st (st.pos + n) h.lineno (by omega) (by omega) (by omega)
    split
    · exact h.prefixOk
    · rename_i top restStack hstack
      split
      · exact h.prefixOk
      · exact ⟨Inv.of_tags (Inv.push_here h hs _ (by unfold Faithful; trivial)) _, hs.pos_gt⟩

/-! ### match_control_line -/

theorem matchControlLine_ok (s : Str) (st : State) (h : Inv cfg s st) : MOk cfg s st (matchControlLine s st) := by
  unfold matchControlLine
  simp only
  split
  · rename_i hbol
    split
    · trivial
    · rename_i m hm
      have hr := rxControlLine_range hm
      simp only [List.length_drop] at hr
      have hs := advance_stepped s st (st.pos + m.len) h.lineno (by omega) (by omega) (by omega)
      split
      · split
        · exact h.prefixOk
        · rename_i isend kw hkw
          split
          · split
            · exact h.prefixOk
            · split
              · exact h.prefixOk
              · exact ⟨Inv.of_ctls (Inv.push_here h hs _ (by unfold Faithful; exact hbol)) _, hs.pos_gt⟩
          · split
            · exact ⟨Inv.of_ctls (Inv.push_here h hs _ (by unfold Faithful; exact hbol)) _, hs.pos_gt⟩
            · split
              · exact ⟨Inv.push_here h hs _ (by unfold Faithful; exact hbol), hs.pos_gt⟩
              · split
                · exact ⟨Inv.push_here h hs _ (by unfold Faithful; exact hbol), hs.pos_gt⟩
                · exact (Inv.push_here h hs _ (by unfold Faithful; exact hbol)).prefixOk
      · exact ⟨Inv.push_here h hs _ (by unfold Faithful; exact Or.inr hbol), hs.pos_gt⟩
  · trivial

/-! ### match_expression, match_python_block -/

theorem terms_e1 : ∀ t ∈ [lit "|", lit "}"], 0 < t.length := by
  intro t ht
  simp only [List.mem_cons, List.not_mem_nil, or_false] at ht
  rcases ht with rfl | rfl <;> decide

theorem terms_e2 : ∀ t ∈ [lit "}"], 0 < t.length := by
  intro t ht
  simp only [List.mem_cons, List.not_mem_nil, or_false] at ht
  subst ht; decide

theorem terms_pb : ∀ t ∈ [lit "%>"], 0 < t.length := by
  intro t ht
  simp only [List.mem_cons, List.not_mem_nil, or_false] at ht
  subst ht; decide

/-- a token for a construct that began with the match `st → st1` and ended at `st2` -/
theorem Inv.push_construct {s : Str} {st st1 st2 : State} (h : Inv cfg s st) (hs : Stepped s st st1)
    (hm : Moved s st1 st2) (pl : Payload)
    (hf : Faithful cfg s (Token.mk st.pos st2.pos st1.matchedLineno st1.matchedCharpos pl)) :
    Inv cfg s (push st2 (Token.mk st.pos st2.pos st1.matchedLineno st1.matchedCharpos pl)) :=
  Inv.push_span h _ hm.pos_le hm.lineno (hm.toks.trans hs.toks) rfl rfl
    ⟨by have := hs.pos_gt; have := hm.pos_ge; simp only; omega, hm.pos_le, hs.mline, hs.mcol, hf⟩

theorem matchExpression_ok (s : Str) (st : State) (h : Inv cfg s st) : MOk cfg s st (matchExpression s st) := by
  unfold matchExpression
  simp only
  split
  · rename_i hp
    have hlen : 2 ≤ (s.drop st.pos).length := hasPrefix_length hp
    simp only [List.length_drop] at hlen
    have hs := advance_stepped s st (st.pos + 2) h.lineno (by omega) (by omega) (by omega)
    split
    · rename_i hfu
      exact parseUntil_fuel terms_e1 hs.pos_le hs.lineno hfu
    · rename_i l c st' hf; exact h.prefixOk_of ((parseUntil_fail_toks hf).trans hs.toks)
    · rename_i st2 text term h1
      have m1 := parseUntil_found terms_e1 hs.pos_le hs.lineno h1
      split
      · split
        · rename_i hfu
          exact parseUntil_fuel terms_e2 m1.1.pos_le m1.1.lineno hfu
        · rename_i l c st' hf; exact h.prefixOk_of ((parseUntil_fail_toks hf).trans (m1.1.toks.trans hs.toks))
        · rename_i st3 esc _ h2
          have m2 := parseUntil_found terms_e2 m1.1.pos_le m1.1.lineno h2
          have mm := Moved.trans m1.1 m2.1
          exact ⟨Inv.push_construct h hs mm _ (by unfold Faithful; trivial), by have := hs.pos_gt; have := mm.pos_ge; show st.pos < st3.pos; omega⟩
      · exact ⟨Inv.push_construct h hs m1.1 _ (by unfold Faithful; trivial), by have := hs.pos_gt; have := m1.1.pos_ge; show st.pos < st2.pos; omega⟩
  · trivial

theorem matchPythonBlock_ok (s : Str) (st : State) (h : Inv cfg s st) : MOk cfg s st (matchPythonBlock s st) := by
  unfold matchPythonBlock
  simp only
  split
  · rename_i hp
    have hlen : 2 ≤ (s.drop st.pos).length := hasPrefix_length hp
    simp only [List.length_drop] at hlen
    have h3 : ((s.drop st.pos).drop 2).head? = some '!' → 3 ≤ s.length - st.pos := by
      intro hh
      cases hd : (s.drop st.pos).drop 2 with
      | nil => rw [hd] at hh; simp at hh
      | cons c t =>
        have := congrArg List.length hd
        simp only [List.length_drop, List.length_cons] at this
        omega
    have hs : Stepped s st (advance s st (st.pos + if ((s.drop st.pos).drop 2).head? = some '!' then 3 else 2)) := by
      apply advance_stepped s st _ h.lineno
      · omega
      · split
        · rename_i hh; have := h3 hh; omega
        · omega
      · omega
    split
    · rename_i hfu
      exact parseUntil_fuel terms_pb hs.pos_le hs.lineno hfu
    · rename_i l c st' hf; exact h.prefixOk_of ((parseUntil_fail_toks hf).trans hs.toks)
    · rename_i st2 text term h1
      have m1 := parseUntil_found terms_pb hs.pos_le hs.lineno h1
      exact ⟨Inv.push_construct h hs m1.1 _ (by unfold Faithful; trivial), by have := hs.pos_gt; have := m1.1.pos_ge; show st.pos < st2.pos; omega⟩
  · trivial

/-! ### match_text -/

theorem textStopAt_cont {prevNL : Bool} {l : Str} {n : Nat} (h : textStopAt prevNL l = some (.cont n)) :
    (n = 2 ∧ l.take 2 = lit "\\\n") ∨ (n = 3 ∧ l.take 3 = lit "\\\r\n") := by
  unfold textStopAt at h
  split at h
  · cases h
  · rename_i c t
    split at h
    · cases h
    · split at h
      · cases h
      · split at h
        · cases h
        · split at h
          · rename_i h4
            simp only [Option.some.injEq, TextStop.cont.injEq] at h
            subst h
            left
            refine ⟨rfl, ?_⟩
            obtain ⟨rfl, h4⟩ := h4
            cases t with
            | nil => simp at h4
            | cons d t' =>
              simp only [List.head?_cons, Option.some.injEq] at h4
              subst h4
              rfl
          · split at h
            · rename_i h5
              simp only [Option.some.injEq, TextStop.cont.injEq] at h
              subst h
              right
              refine ⟨rfl, ?_⟩
              obtain ⟨rfl, h5⟩ := h5
              obtain ⟨u, rfl⟩ := hasPrefix_iff.mp h5
              rfl
            · cases h

theorem textScan_cont (prevNL : Bool) (l : Str) : ∀ n, (textScan prevNL l).2 = .cont n →
    (n = 2 ∧ (l.drop (textScan prevNL l).1).take 2 = lit "\\\n") ∨
    (n = 3 ∧ (l.drop (textScan prevNL l).1).take 3 = lit "\\\r\n") := by
  fun_induction textScan prevNL l
  · intro n h; cases h
  · rename_i prevNL c t k hk
    intro n h
    simp only at h
    subst h
    simpa using textStopAt_cont hk
  · rename_i prevNL c t hk ih
    intro n h
    simpa using ih n h

theorem matchText_ok (cfg : Cfg) (s : Str) (st : State) (h : Inv cfg s st) (hlt : st.pos < s.length) :
    MOk cfg s st (matchText cfg s st) := by
  unfold matchText
  simp only
  generalize hrest : s.drop st.pos = rest
  generalize hpn : (st.pos != 0 && s[st.pos - 1]? == some '\n') = prevNL
  have hr := textScan_range prevNL rest
  have hc := textScan_cont prevNL rest
  generalize hrdef : textScan prevNL rest = r at hr hc
  have hrl : rest.length = s.length - st.pos := by rw [← hrest]; simp
  have hs := advance_stepped s st (st.pos + r.1 + r.2.consumed) h.lineno (by omega) (by omega) hlt
  split
  · -- non-empty text
    rename_i hne
    have hpos := advance_pos_of_lt s st (st.pos + r.1 + r.2.consumed) (by omega)
    refine ⟨Inv.push_here h hs _ ?_, hs.pos_gt⟩
    unfold Faithful
    simp only [tokHere, Token.raw]
    rw [hpos, show st.pos + r.1 + r.2.consumed = st.pos + (r.1 + r.2.consumed) by omega, slice_add, hrest,
      take_add_drop]
    cases hr2 : r.2 with
    | cont n =>
      rcases hc n hr2 with ⟨rfl, e⟩ | ⟨rfl, e⟩
      · right; left; simp only [TextStop.consumed, e]
      · right; right; left; simp only [TextStop.consumed, e]
    | lineDirective => left; simp [TextStop.consumed]
    | expr => left; simp [TextStop.consumed]
    | tag => left; simp [TextStop.consumed]
    | eof => left; simp [TextStop.consumed]
  · rename_i h0
    have h0' : r.1 = 0 := by omega
    split
    · -- empty match: one character is stepped over
      rename_i he
      have hcons : r.2.consumed = 0 := by omega
      have hpos : (advance s st (st.pos + r.1 + r.2.consumed)).pos = st.pos + 1 := by
        simp only [advance]; split <;> omega
      split
      · rename_i c tl
        split
        · refine ⟨Inv.push_here h hs _ ?_, hs.pos_gt⟩
          unfold Faithful
          simp only [tokHere, Token.raw]
          left
          rw [hpos, slice_add, hrest]
          rfl
        · rename_i hemit
          refine ⟨Inv.push_here h hs _ ?_, hs.pos_gt⟩
          unfold Faithful
          simp only [tokHere]
          refine ⟨hpos, Or.inl ⟨by simpa using hemit, ?_, ?_⟩⟩
          · rw [hpn, hrest, hrdef]; exact h0'
          · rw [hpn, hrest, hrdef]; exact hcons
      · simp only [List.length_nil] at hrl
        omega
    · -- a backslash-newline directly at the cursor
      rename_i he
      have hpos := advance_pos_of_lt s st (st.pos + r.1 + r.2.consumed) (by omega)
      refine ⟨Inv.push_here h hs _ ?_, hs.pos_gt⟩
      unfold Faithful
      simp only [tokHere, Token.raw]
      rw [hpos, show st.pos + r.1 + r.2.consumed = st.pos + r.2.consumed by omega, slice_add, hrest]
      cases hr2 : r.2 with
      | cont n =>
        rcases hc n hr2 with ⟨rfl, e⟩ | ⟨rfl, e⟩
        · left; simpa [TextStop.consumed, h0'] using e
        · right; simpa [TextStop.consumed, h0'] using e
      | lineDirective => rw [hr2] at he; simp [TextStop.consumed] at he; omega
      | expr => rw [hr2] at he; simp [TextStop.consumed] at he; omega
      | tag => rw [hr2] at he; simp [TextStop.consumed] at he; omega
      | eof => rw [hr2] at he; simp [TextStop.consumed] at he; omega

/-! ### match_tag_start -/

/-- appending several tokens that together span from the old cursor to the new one -/
theorem Inv.push_list {s : Str} {st st1 : State} (h : Inv cfg s st) (new : List Token)
    (hpos : st1.pos ≤ s.length) (hline : st1.lineno = lineOf s st1.pos) (htoks : st1.toks = st.toks ++ new)
    (hchain : Chain new st.pos st1.pos) (hok : ∀ t ∈ new, TokOk cfg s t) : Inv cfg s st1 where
  pos_le := hpos
  lineno := hline
  chain := by rw [htoks]; exact Chain.append h.chain hchain
  toks := by
    intro t ht
    rw [htoks, List.mem_append] at ht
    rcases ht with ht | ht
    · exact h.toks t ht
    · exact hok t ht

/-- what `match_tag_start` hands to `match_tag_end` after the `<%text>` body -/
theorem tagEnd_after {s : Str} {st st7 : State} (h7 : Inv cfg s st7) (hgt : st.pos < st7.pos) (hlt : st7.pos < s.length) :
    MOk cfg s st (match matchTagEnd s st7 with | .no => .fell st7 | r => r) := by
  have := matchTagEnd_ok s st7 h7
  split
  · exact ⟨h7, hgt, hlt⟩
  · rename_i r hr
    cases hm : matchTagEnd s st7 with
    | no => exact absurd hm (hr)
    | yes st' => rw [hm] at this; exact ⟨this.1, by have := this.2; omega⟩
    | fell st' => rw [hm] at this; exact ⟨this.1, by have := this.2.1; omega, this.2.2⟩
    | err k l c st' => rw [hm] at this; exact this
    | outOfFuel => rw [hm] at this; exact this

theorem MOk.mono {s : Str} {st st3 : State} {r : MRes} (h : MOk cfg s st3 r) (hle : st.pos ≤ st3.pos) : MOk cfg s st r := by
  cases r with
  | no => trivial
  | yes st' => exact ⟨h.1, by have := h.2; omega⟩
  | fell st' => exact ⟨h.1, by have := h.2.1; omega, h.2.2⟩
  | err k l c st' => exact h
  | outOfFuel => exact h

theorem textTagBody_ok (cfg : Cfg) (s : Str) (st st3 : State) (inv3 : Inv cfg s st3) (hlt3 : st.pos < st3.pos) :
    MOk cfg s st (textTagBody cfg s st3) := by
  unfold textTagBody
  simp only
  split
  · exact inv3.prefixOk
  · rename_i n hn
    have hsub := findSub_le hn
    have hpre := findSub_prefix hn
    have h8 : (lit "</%text>").length = 8 := rfl
    simp only [List.length_drop, h8] at hsub
    have hs4 := advance_stepped s st3 (st3.pos + n) inv3.lineno (by omega) (by omega) (by omega)
    by_cases hn0 : n = 0
    · subst hn0
      have hpos4 : (advance s st3 (st3.pos + 0)).pos = st3.pos + 1 := by
        simp only [advance]; split <;> omega
      -- the stepped-over character is the `<` of `</%text>`: no newline
      have hnl : (advance s st3 (st3.pos + 0)).lineno = lineOf s st3.pos := by
        simp only [advance, Nat.add_zero, if_true]
        rw [slice_add]
        obtain ⟨u, hu⟩ := hasPrefix_iff.mp hpre
        simp only [List.drop_zero] at hu
        rw [hu, inv3.lineno]
        simp [lit, countNL]
      by_cases hsb : cfg.textTagStepBack = true
      · simp only [hsb, and_self, if_true, Bool.not_true, Bool.false_eq_true, and_false, if_false]
        apply tagEnd_after
        · refine Inv.push_list inv3
            [tokHere (advance s st3 (st3.pos + 0)) st3.pos (st3.pos + 0) (.text ((s.drop st3.pos).take 0))]
            ?_ ?_ ?_ ?_ ?_
          · show st3.pos ≤ s.length; omega
          · exact hnl
          · simp only [push, tokHere]; rw [show (advance s st3 (st3.pos + 0)).toks = st3.toks from hs4.toks]; try simp
          · exact ⟨rfl, rfl⟩
          · intro t ht
            simp only [List.mem_cons, List.not_mem_nil, or_false] at ht
            subst ht
            refine ⟨Nat.le_refl _, by show st3.pos + 0 ≤ s.length; omega, hs4.mline, hs4.mcol, ?_⟩
            unfold Faithful
            simp only [tokHere, Token.raw]
            left
            rw [slice_add]
        · show st.pos < st3.pos; omega
        · show st3.pos < s.length; omega
      · simp only [Bool.not_eq_true] at hsb
        simp only [hsb, Bool.false_eq_true, and_false, if_false, Bool.not_false, and_self, if_true]
        apply tagEnd_after
        · refine Inv.push_list inv3
            [tokHere (advance s st3 (st3.pos + 0)) st3.pos (st3.pos + 0) (.text ((s.drop st3.pos).take 0)),
             tokHere (advance s st3 (st3.pos + 0)) st3.pos (advance s st3 (st3.pos + 0)).pos .skipped]
            ?_ ?_ ?_ ?_ ?_
          · exact hs4.pos_le
          · exact hs4.lineno
          · simp only [push, tokHere]; rw [show (advance s st3 (st3.pos + 0)).toks = st3.toks from hs4.toks]; try simp
          · exact ⟨rfl, rfl, rfl⟩
          · intro t ht
            simp only [List.mem_cons, List.not_mem_nil, or_false] at ht
            rcases ht with rfl | rfl
            · refine ⟨Nat.le_refl _, by show st3.pos + 0 ≤ s.length; omega, hs4.mline, hs4.mcol, ?_⟩
              unfold Faithful
              simp only [tokHere, Token.raw]
              left
              rw [slice_add]
            · refine ⟨by show st3.pos ≤ (advance s st3 (st3.pos + 0)).pos; omega, hs4.pos_le, hs4.mline, hs4.mcol, ?_⟩
              unfold Faithful
              simp only [tokHere]
              exact ⟨hpos4, Or.inr ⟨hsb, by simpa using hpre⟩⟩
        · show st.pos < (advance s st3 (st3.pos + 0)).pos; omega
        · show (advance s st3 (st3.pos + 0)).pos < s.length; omega
    · have hpos4 := advance_pos_of_lt s st3 (st3.pos + n) (by omega)
      simp only [hn0, false_and, if_false]
      apply tagEnd_after
      · have := Inv.push_here inv3 hs4 (.text ((s.drop st3.pos).take n)) (by
          unfold Faithful
          simp only [tokHere, Token.raw]
          left
          rw [hpos4, slice_add])
        rw [hpos4] at this
        exact this
      · show st.pos < (advance s st3 (st3.pos + n)).pos; omega
      · show (advance s st3 (st3.pos + n)).pos < s.length; omega

theorem matchTagStart_ok (cfg : Cfg) (s : Str) (st : State) (h : Inv cfg s st) : MOk cfg s st (matchTagStart cfg s st) := by
  unfold matchTagStart
  simp only
  split
  · trivial
  · rename_i m hm
    have hr := rxTagStart_range hm
    simp only [List.length_drop] at hr
    have hs := advance_stepped s st (st.pos + m.len) h.lineno (by omega) (by omega) (by omega)
    have inv2 := Inv.push_here h hs (.tagOpen m.keyword m.attrs m.selfClose) (by unfold Faithful; trivial)
    split
    · exact ⟨inv2, hs.pos_gt⟩
    · split
      · exact textTagBody_ok cfg s st _ (Inv.of_tags inv2 _) hs.pos_gt
      · exact ⟨Inv.of_tags inv2 _, hs.pos_gt⟩

end MakoModel.Lexer
