import MakoModel.Inherit.Spec
/-! Example chains used by the non-vacuity `example`s of `Props/C06.lean`. -/
namespace MakoModel.Inherit

/-- a three-level chain used to show that the hypotheses below are satisfiable: `T₀` inherits through an
expression and overrides block `b` (calling `parent.b()`), `T₁` passes `x=5` to `next.body`, `T₂` is the base,
declares `b`, reads `self.attr.a` and has the signature `<%page args="p, x=9"/>` -/
def ex3 : List Level :=
  [ { nodes := [.text 1, .block (some ['b']) 1 [.text 2, .call .parent ['b'] [] []], .args],
      inherit := .dynamic, sig := [(['x'], some 0)] },
    { nodes := [.text 3, .call .next bodyName [] [(['x'], 5), (['q'], 6)], .defn ['d'] [] [.text 8]],
      inherit := .static, attrs := [(['a'], 7)] },
    { nodes := [.text 4, .block (some ['b']) 2 [.text 5], .call .next bodyName [] [], .attr .self ['a'], .args],
      sig := [(['p'], none), (['x'], some 9)] } ]

/-- a plain three-level chain: `b` declared in `T₂` and `T₀`, `e` in `T₁` and `T₀` -/
def exPlain : List Level :=
  [ { nodes := [.text 1, .block (some ['b']) 1 [.text 2], .block (some ['e']) 2 [.text 3]], inherit := .static },
    { nodes := [.text 4, .block (some ['e']) 1 [.text 5], .call .next bodyName [] [], .text 6], inherit := .static },
    { nodes := [.text 7, .block (some ['b']) 1 [.text 8], .call .next bodyName [] [], .text 9] } ]

end MakoModel.Inherit
