import MakoModel.Inherit.Spec
/-!
Helper lemmas for C06 `body_args_reach_page_signature`: what `bind` (Python's argument binding for
`render_body(context, *pos, **kw)`) delivers.
-/
namespace MakoModel.Inherit

theorem fillParams_some (pos : List Val) (kw : List (Name × Val)) :
    ∀ (ps : List (Name × Option Val)) (i : Nat) (r : List (Name × Val)), fillParams pos kw i ps = some r →
      r.length = ps.length ∧
      ∀ k p, ps[k]? = some p → ∃ v, argFor pos kw (i + k) p = some v ∧ r[k]? = some (p.1, v)
  | [], i, r, h => by
    simp only [fillParams, Option.some.injEq] at h
    subst h
    simp
  | p :: rest, i, r, h => by
    simp only [fillParams] at h
    cases ha : argFor pos kw i p with
    | none => simp [ha] at h
    | some v =>
      cases hf : fillParams pos kw (i + 1) rest with
      | none => simp [ha, hf] at h
      | some r' =>
        simp only [ha, hf, Option.some.injEq] at h
        subst h
        have ih := fillParams_some pos kw rest (i + 1) r' hf
        refine ⟨by simp [ih.1], ?_⟩
        intro k q hq
        cases k with
        | zero =>
          simp only [List.getElem?_cons_zero, Option.some.injEq] at hq
          subst hq
          exact ⟨v, by simpa using ha, by simp⟩
        | succ k =>
          simp only [List.getElem?_cons_succ] at hq
          obtain ⟨v', h1, h2⟩ := ih.2 k q hq
          exact ⟨v', by rw [← h1]; congr 1; omega, by simpa using h2⟩

theorem fillParams_none (pos : List Val) (kw : List (Name × Val)) :
    ∀ (ps : List (Name × Option Val)) (i : Nat), fillParams pos kw i ps = none →
      ∃ k p, ps[k]? = some p ∧ argFor pos kw (i + k) p = none
  | [], i, h => by simp [fillParams] at h
  | p :: rest, i, h => by
    simp only [fillParams] at h
    cases ha : argFor pos kw i p with
    | none => exact ⟨0, p, by simp, by simpa using ha⟩
    | some v =>
      cases hf : fillParams pos kw (i + 1) rest with
      | some r' => simp [ha, hf] at h
      | none =>
        obtain ⟨k, q, h1, h2⟩ := fillParams_none pos kw rest (i + 1) hf
        exact ⟨k + 1, q, by simpa using h1, by rw [← h2]; congr 1; omega⟩

/-- what a successful binding delivers: every declared parameter, in order, with its positional argument, else
its keyword argument, else its default; and the keywords that name no parameter, in call order -/
theorem bind_some {params : List (Name × Option Val)} {varkw : Bool} {pos : List Val} {kw : List (Name × Val)}
    {b e : List (Name × Val)} (h : bind params varkw pos kw = some (b, e)) :
    pos.length ≤ params.length ∧
    b.length = params.length ∧
    (∀ k p, params[k]? = some p → ∃ v, argFor pos kw k p = some v ∧ b[k]? = some (p.1, v)) ∧
    e = kw.filter (fun q => !(params.map (·.1)).contains q.1) ∧
    (varkw = false → e = []) := by
  unfold bind at h
  simp only at h
  split at h
  · simp at h
  · rename_i hlen
    split at h
    · simp at h
    · split at h
      · simp at h
      · rename_i hkw
        cases hf : fillParams pos kw 0 params with
        | none => simp [hf] at h
        | some r =>
          simp only [hf, Option.some.injEq, Prod.mk.injEq] at h
          obtain ⟨hb, he⟩ := h
          subst hb
          have := fillParams_some pos kw params 0 r hf
          refine ⟨by omega, this.1, ?_, he.symm, ?_⟩
          · intro k p hp
            have := this.2 k p hp
            simpa using this
          · intro hv
            subst hv
            simp only [Bool.not_false, Bool.true_and, Bool.not_eq_true, List.any_eq_false] at hkw
            rw [← he]
            apply List.filter_eq_nil_iff.mpr
            intro q hq
            have := hkw q hq
            simpa using this

/-- when binding fails (TypeError) -/
theorem bind_none {params : List (Name × Option Val)} {pos : List Val} {kw : List (Name × Val)}
    (h : bind params true pos kw = none) :
    params.length < pos.length ∨
    (∃ q ∈ kw, q.1 ∈ (params.map (·.1)).take pos.length) ∨
    (∃ k p, params[k]? = some p ∧ argFor pos kw k p = none) := by
  unfold bind at h
  simp only at h
  split at h
  · left; assumption
  · split at h
    · rename_i hany
      right; left
      simp only [List.any_eq_true] at hany
      obtain ⟨q, hq, hc⟩ := hany
      exact ⟨q, hq, by simpa using hc⟩
    · split at h
      · rename_i hx; simp at hx
      · cases hf : fillParams pos kw 0 params with
        | some r => simp [hf] at h
        | none =>
          right; right
          obtain ⟨k, p, h1, h2⟩ := fillParams_none pos kw params 0 hf
          exact ⟨k, p, h1, by simpa using h2⟩

end MakoModel.Inherit
