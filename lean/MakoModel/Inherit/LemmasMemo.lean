import MakoModel.Inherit.LemmasBuild
/-!
Helper lemmas for C06: `setattr` memoisation in `TemplateNamespace.__getattr__` is idempotent caching on the
heap the inherit phase builds.
-/
namespace MakoModel.Inherit

def eraseMemoNS (n : NS) : NS := { n with memo := [] }

/-- the heap with every instance dictionary emptied -/
def eraseMemo (h : Heap) : Heap := { h with nss := h.nss.map eraseMemoNS }

/-- every stored attribute is what the rules give for that namespace, and never an AttributeError -/
def MemoOKL (c : List Level) (nss : List NS) : Prop :=
  ∀ j n, nss[j]? = some n → ∀ x v, n.memo.lookup x = some v → v = (ruleDispatch c).getattr j x ∧ v ≠ .missing

def MemoOK (c : List Level) (h : Heap) : Prop := MemoOKL c h.nss

theorem memoOK_of_empty (c : List Level) (h : Heap) (he : eraseMemo h = h) : MemoOK c h := by
  intro j n hn x v hv
  have : (eraseMemo h).nss[j]? = some (eraseMemoNS n) := by simp [eraseMemo, hn]
  rw [he, hn] at this
  simp only [Option.some.injEq] at this
  rw [this] at hv
  simp [eraseMemoNS] at hv

theorem erase_set (nss : List NS) (j : Nat) (n n' : NS) (hn : nss[j]? = some n)
    (he : eraseMemoNS n' = eraseMemoNS n) : (nss.set j n').map eraseMemoNS = nss.map eraseMemoNS := by
  apply List.ext_getElem?
  intro i
  simp only [List.getElem?_map, List.getElem?_set]
  by_cases e : j = i
  · subst e
    have hlt : j < nss.length := by
      rcases Nat.lt_or_ge j nss.length with h | h
      · exact h
      · rw [List.getElem?_eq_none h] at hn; simp at hn
    have hnj : nss[j] = n := by
      have := List.getElem?_eq_getElem hlt
      rw [this] at hn
      exact Option.some.inj hn
    simp [hlt, hnj, he]
  · simp [e]

theorem rule_step (c : List Level) (j : Nat) (x : Name) (hj : j < c.length) :
    (ruleDispatch c).getattr j x =
      if hasDef c j x then .member j j else (ruleDispatch c).getattr (j + 1) x := by
  simp only [ruleDispatch, firstFrom]
  have e : c.length - j = (c.length - (j + 1)) + 1 := by omega
  rw [e, firstIdx]
  by_cases hd : hasDef c j x = true
  · simp [hd]
  · simp [hd]

theorem rule_out (c : List Level) (j : Nat) (x : Name) (hj : c.length ≤ j) :
    (ruleDispatch c).getattr j x = .missing := by
  have : c.length - j = 0 := by omega
  simp [ruleDispatch, firstFrom, this, firstIdx]

theorem memoOK_set (c : List Level) (nss : List NS) (j : Nat) (n n' : NS) (x : Name) (v : Lookup)
    (hn : nss[j]? = some n) (hm : MemoOKL c nss) (hmemo : n'.memo = (x, v) :: n.memo)
    (hv : v = (ruleDispatch c).getattr j x) (hv' : v ≠ .missing) :
    MemoOKL c (nss.set j n') := by
  intro i m hi y w hw
  rw [List.getElem?_set] at hi
  by_cases e : j = i
  · subst e
    have hlt : j < nss.length := by
      rcases Nat.lt_or_ge j nss.length with h | h
      · exact h
      · rw [List.getElem?_eq_none h] at hn; simp at hn
    simp only [hlt, if_true, Option.some.injEq] at hi
    subst hi
    rw [hmemo] at hw
    simp only [List.lookup] at hw
    by_cases ey : y = x
    · subst ey
      simp only [beq_self_eq_true, Option.some.injEq] at hw
      subst hw
      exact ⟨hv, hv'⟩
    · have : (y == x) = false := by simp [ey]
      simp only [this] at hw
      exact hm j n hn y w hw
  · simp only [e, if_false] at hi
    exact hm i m hi y w hw

theorem getattrMemoF_sound (c : List Level) (x : Name) :
    ∀ f nss j, nss.map eraseMemoNS = (builtHeap c.length).nss → MemoOKL c nss → c.length - j ≤ f →
      (getattrMemoF c f nss j x).1 = (ruleDispatch c).getattr j x ∧
      (getattrMemoF c f nss j x).2.map eraseMemoNS = (builtHeap c.length).nss ∧
      MemoOKL c (getattrMemoF c f nss j x).2 := by
  intro f
  induction f with
  | zero =>
    intro nss j he hm hf
    simp only [getattrMemoF]
    exact ⟨(rule_out c j x (by omega)).symm, he, hm⟩
  | succ f ih =>
    intro nss j he hm hf
    have hlen : nss.length = c.length := by
      have := congrArg List.length he
      simpa [builtHeap] using this
    simp only [getattrMemoF]
    cases hn : nss[j]? with
    | none =>
      have : c.length ≤ j := by
        rcases Nat.lt_or_ge j nss.length with h | h
        · rw [List.getElem?_eq_getElem h] at hn; simp at hn
        · omega
      simp only
      exact ⟨(rule_out c j x this).symm, he, hm⟩
    | some n =>
      have hj : j < c.length := by
        rcases Nat.lt_or_ge j nss.length with h | h
        · omega
        · rw [List.getElem?_eq_none h] at hn; simp at hn
      have hen : eraseMemoNS n = builtNS c.length j := by
        have := congrArg (fun l => l[j]?) he
        simp only [List.getElem?_map, hn, Option.map_some, builtHeap_nss_get, hj, if_true,
          Option.some.injEq] at this
        exact this
      have ht : n.tmpl = j := by have := congrArg NS.tmpl hen; simpa [eraseMemoNS, builtNS] using this
      have hc : n.ctx = j := by have := congrArg NS.ctx hen; simpa [eraseMemoNS, builtNS] using this
      have hi : n.inherits = if j + 1 < c.length then some (j + 1) else none := by
        have := congrArg NS.inherits hen; simpa [eraseMemoNS, builtNS] using this
      simp only
      cases hl : n.memo.lookup x with
      | some v =>
        simp only
        exact ⟨(hm j n hn x v hl).1, he, hm⟩
      | none =>
        simp only [ht, hc]
        rw [rule_step c j x hj]
        by_cases hd : hasDef c j x = true
        · simp only [hd, if_true]
          refine ⟨trivial, ?_, ?_⟩
          · rw [erase_set nss j n _ hn (by simp [eraseMemoNS, ht, hc])]; exact he
          · apply memoOK_set c nss j n _ x (.member j j) hn hm rfl _ (by simp)
            rw [rule_step c j x hj]; simp [hd]
        · simp only [hd, Bool.false_eq_true, if_false, hi]
          by_cases hp : j + 1 < c.length
          · simp only [hp, if_true]
            have ⟨r1, r2, r3⟩ := ih nss (j + 1) he hm (by omega)
            generalize hr : getattrMemoF c f nss (j + 1) x = r at r1 r2 r3
            obtain ⟨v, nss'⟩ := r
            simp only at r1 r2 r3
            cases v with
            | missing => exact ⟨r1, r2, r3⟩
            | builtin =>
              -- the rules never answer `builtin`
              have : (ruleDispatch c).getattr (j + 1) x ≠ .builtin := by
                simp only [ruleDispatch]; cases firstFrom c (j + 1) x <;> simp
              exact absurd r1.symm this
            | member t cx =>
              simp only
              have hn' : ∃ n', nss'[j]? = some n' := by
                have hl' : nss'.length = c.length := by
                  have := congrArg List.length r2
                  simpa [builtHeap] using this
                exact ⟨nss'[j]'(by omega), List.getElem?_eq_getElem (by omega)⟩
              obtain ⟨n', hn'⟩ := hn'
              simp only [hn']
              refine ⟨r1, ?_, ?_⟩
              · rw [erase_set nss' j n' _ hn' (by simp [eraseMemoNS])]; exact r2
              · apply memoOK_set c nss' j n' _ x (.member t cx) hn' r3 rfl _ (by simp)
                rw [rule_step c j x hj]; simp [hd, r1]
          · simp only [hp, if_false]
            exact ⟨(rule_out c (j + 1) x (by omega)).symm, he, hm⟩

/-- `getattr` with the memo against the memo-free `getattr` on the built heap -/
theorem getattrMemo_sound (c : List Level) (h : Heap) (he : eraseMemo h = builtHeap c.length)
    (hm : MemoOK c h) (j : Nat) (x : Name) :
    (getattrMemo c h j x).1 = getattr c (builtHeap c.length) j x ∧
    eraseMemo (getattrMemo c h j x).2 = builtHeap c.length ∧
    MemoOK c (getattrMemo c h j x).2 := by
  have hg : getattr c (builtHeap c.length) j x = (specDispatch c).getattr j x := by
    rw [← heapDispatch_built]; rfl
  have hnss : h.nss.map eraseMemoNS = (builtHeap c.length).nss := by
    have := congrArg Heap.nss he; simpa [eraseMemo] using this
  have hctx : h.ctxs = (builtHeap c.length).ctxs := by
    have := congrArg Heap.ctxs he; simpa [eraseMemo] using this
  have hlen : h.nss.length = c.length := by
    have := congrArg List.length hnss
    simpa [builtHeap] using this
  unfold getattrMemo
  rw [hg]
  by_cases hx : x ∈ Generated.NsAttrs.nsAttrs
  · simp only [hx, if_true, specDispatch]
    exact ⟨trivial, he, hm⟩
  · simp only [hx, if_false, specDispatch]
    have ⟨r1, r2, r3⟩ := getattrMemoF_sound c x h.nss.length h.nss j hnss hm (by omega)
    refine ⟨r1, ?_, r3⟩
    simp only [eraseMemo, r2, hctx]

end MakoModel.Inherit
