import MakoModel.Generated.NsAttrs
/-!
# L6 (inheritance): namespace chain, `self/next/parent/local`, member dispatch, block guard, block checks

Transcribed from `/repo/mako/runtime.py` (`_render_context`, `_populate_self_namespace`, `_inherit_from`,
`TemplateNamespace.__getattr__`, `_NSAttr.__getattr__`, `Context._copy/_locals`) and `/repo/mako/codegen.py`
(`write_inherit`, `visitBlockTag`, `_Identifiers.visitBlockTag/visitDefTag/_check_name_exists` and the
places where a new `_Identifiers` is branched: `write_render_callable`, `write_inline_def`, `visitCallTag`).

A template of a chain is a `Level`: its source tree in body order (`Node`), its module attributes
(`<%! x = … %>`), its `<%inherit>` tag and its `<%page args=…>` signature.  Member names are strings
(`List Char`); attribute and argument values and literal texts are opaque numbers (the harness maps them).

The objects the real runtime allocates (namespaces and contexts, compared by identity and mutated in place)
live in a `Heap` of two arrays; a reference is an index.
-/
namespace MakoModel.Inherit

abbrev Name := List Char
abbrev Val := Nat

/-- the four inheritance names a template body can mention -/
inductive Ref | self | next | parent | loc
  deriving DecidableEq, Repr

/-- Template source tree.  `text k` is a literal text (written as is), `call r x pos kw` is `${r.x(*pos, **kw)}`
(`x = body` included), `attr r x` is `${r.attr.x}`, `args` writes the page arguments received by the enclosing
body (`[${a} ${b} ${list(pageargs.items())}]`), `defn` is `<%def name="n(a, b=3)">` (parameters with optional defaults), `block` is `<%block [name=…]>`
on source line `line`, `callTag` is `<%call expr="zcall()">…</%call>` / `<%self:zcall>…</%self:zcall>` where `zcall`
is a def consisting of `${caller.body()}` (a call with content whose callee writes the content exactly once),
`incl k` is `<%include file="…"/>` of the first template of entry `k` of the template library (see `renderLib`). -/
inductive Node where
  | text (k : Nat)
  | call (r : Ref) (x : Name) (pos : List Val) (kw : List (Name × Val))
  | attr (r : Ref) (x : Name)
  | args
  | defn (name : Name) (params : List (Name × Option Val)) (kids : List Node)
  | block (name : Option Name) (line : Nat) (kids : List Node)
  | callTag (kids : List Node)
  | incl (k : Nat)

/-- `<%inherit file=…/>`: absent, a literal, an expression evaluating to the next template of the chain, or an
expression evaluating to `None` (`_inherit_from` then returns `None`). -/
inductive Inherit | none | static | dynamic | dynamicNone
  deriving DecidableEq, Repr

def Inherit.links : Inherit → Bool
  | .static => true
  | .dynamic => true
  | _ => false

structure Level where
  nodes : List Node
  attrs : List (Name × Val) := []
  inherit : Inherit := .none
  /-- `<%page args="a, b=3"/>`: parameter names with optional defaults (`**pageargs` is always appended) -/
  sig : List (Name × Option Val) := []
  /-- the named blocks of this template written with `buffered="True"` -/
  buffered : List Name := []
  /-- the source lines of the anonymous blocks written with `buffered="True"` -/
  bufferedAnon : List Nat := []

def bodyName : Name := ['b', 'o', 'd', 'y']

/-! ## members of a template module (`render_<name>` functions) -/

mutual
/-- named block `x` inside this node, looking through blocks only (named blocks are hoisted to module level
wherever they are nested; blocks inside defs/calls are rejected by the compiler) -/
def findBlockN (x : Name) : Node → Option (List Node)
  | .block nm _ kids => if nm = some x then some kids else findBlockL x kids
  | _ => none
def findBlockL (x : Name) : List Node → Option (List Node)
  | [] => none
  | n :: rest => match findBlockN x n with
    | some k => some k
    | none => findBlockL x rest
end

/-- the last top-level `<%def name="x(…)">` (a later `def render_x` replaces an earlier one in the module):
its parameters and its nodes -/
def findTopDef (x : Name) : List Node → Option (List (Name × Option Val) × List Node)
  | [] => none
  | .defn nm ps kids :: rest =>
    match findTopDef x rest with
    | some k => some k
    | none => if nm = x then some (ps, kids) else none
  | _ :: rest => findTopDef x rest

inductive MKind | body | defn | block
  deriving DecidableEq, Repr

/-- `getattr(module, "render_" + x)`: its kind, its declared parameters (`<%page args>` for the body, the def's
own for a def, none for a block) and the nodes of the callable -/
def Level.member (l : Level) (x : Name) : Option (MKind × List (Name × Option Val) × List Node) :=
  if x = bodyName then some (.body, l.sig, l.nodes)
  else match findTopDef x l.nodes with
    | some (ps, k) => some (.defn, ps, k)
    | none => match findBlockL x l.nodes with
      | some k => some (.block, [], k)
      | none => none

/-- `template.has_def(x)` -/
def Level.declares (l : Level) (x : Name) : Bool := (l.member x).isSome

def hasDef (c : List Level) (t : Nat) (x : Name) : Bool :=
  match c[t]? with
  | some l => l.declares x
  | none => false

/-! ## the heap: namespaces and contexts -/

/-- result of attribute access on a namespace -/
inductive Lookup
  | member (tmpl ctx : Nat)   -- `functools.partial(render_x of template tmpl, context ctx)`
  | builtin                   -- an ordinary attribute of the Namespace object (not a template member)
  | missing                   -- AttributeError
  deriving DecidableEq, Repr

/-- a `TemplateNamespace` object: its template (index into the chain), its context (index into the heap),
its `inherits` link, and the attributes `__getattr__` has stored with `setattr` -/
structure NS where
  tmpl : Nat
  ctx : Nat
  inherits : Option Nat := none
  memo : List (Name × Lookup) := []
  deriving DecidableEq, Repr

/-- the four inheritance entries of a `Context._data` dictionary (absent = key not in the dictionary) -/
structure Ctx where
  self : Option Nat := none
  loc : Option Nat := none
  next : Option Nat := none
  parent : Option Nat := none
  deriving DecidableEq, Repr

structure Heap where
  nss : List NS
  ctxs : List Ctx
  deriving DecidableEq, Repr

inductive Exc
  | compile          -- CompileException
  | lookup           -- TemplateLookupException (inherit target not found)
  | attributeError
  | typeError
  | recursion        -- fuel exhausted (Python: RecursionError)
  | unsupported      -- construct outside the modelled fragment (no longer produced: calls with content run in place)
  | internal         -- a state the real code cannot be in (KeyError on 'self', dangling index)
  deriving DecidableEq, Repr

/-- `while ih.inherits is not None: ih = ih.inherits` -/
def walkEnd (nss : List NS) : Nat → Nat → Nat
  | 0, i => i
  | f + 1, i =>
    match nss[i]? with
    | some ns => match ns.inherits with
      | some j => walkEnd nss f j
      | none => i
    | none => i

/-- one `_inherit_from(context, uri, calling_uri)` where `uri` is not `None` and names `t`:
allocates the local context (`context._locals({"next": ih})`: a copy of the caller's `_data` with `next`),
the new namespace, links `ih.inherits`, sets `parent` in the caller's context and `local` in the new one -/
def linkStep (ti : Nat) (h : Heap) (cx : Nat) : Except Exc (Heap × Nat) :=
  match h.ctxs[cx]? with
  | none => .error .internal
  | some c =>
    match c.self with
    | none => .error .internal
    | some s =>
      let ih := walkEnd h.nss h.nss.length s
      match h.nss[ih]? with
      | none => .error .internal
      | some ihns =>
        let lclId := h.ctxs.length
        let nsId := h.nss.length
        let lcl : Ctx := { c with next := some ih, loc := some nsId }
        let nss := (h.nss.set ih { ihns with inherits := some nsId }) ++ [{ tmpl := ti, ctx := lclId }]
        let ctxs := (h.ctxs.set cx { c with parent := some nsId }) ++ [lcl]
        .ok (⟨nss, ctxs⟩, lclId)

/-! ## attribute access -/

/-- `TemplateNamespace.__getattr__` without the memo: callables are empty for inheritance namespaces, then
`template.has_def`, then `inherits`, else AttributeError -/
def getattrF (c : List Level) (nss : List NS) : Nat → Nat → Name → Lookup
  | 0, _, _ => .missing
  | f + 1, ns, x =>
    match nss[ns]? with
    | none => .missing
    | some n =>
      if hasDef c n.tmpl x then .member n.tmpl n.ctx
      else match n.inherits with
        | some p => getattrF c nss f p x
        | none => .missing

/-- Python attribute access `ns.x`: ordinary attributes of the object first, `__getattr__` otherwise -/
def getattr (c : List Level) (h : Heap) (ns : Nat) (x : Name) : Lookup :=
  if x ∈ Generated.NsAttrs.nsAttrs then .builtin else getattrF c h.nss h.nss.length ns x

/-- the same with the instance dictionary filled by `setattr(self, key, val)`: a stored value is found by
ordinary attribute access; `__getattr__` stores what it returns, at every namespace it passes through -/
def getattrMemoF (c : List Level) : Nat → List NS → Nat → Name → Lookup × List NS
  | 0, nss, _, _ => (.missing, nss)
  | f + 1, nss, ns, x =>
    match nss[ns]? with
    | none => (.missing, nss)
    | some n =>
      match n.memo.lookup x with
      | some v => (v, nss)
      | none =>
        if hasDef c n.tmpl x then
          (.member n.tmpl n.ctx, nss.set ns { n with memo := (x, .member n.tmpl n.ctx) :: n.memo })
        else match n.inherits with
          | some p =>
            match getattrMemoF c f nss p x with
            | (.missing, nss') => (.missing, nss')
            | (v, nss') =>
              match nss'[ns]? with
              | some n' => (v, nss'.set ns { n' with memo := (x, v) :: n'.memo })
              | none => (v, nss')
          | none => (.missing, nss)

def getattrMemo (c : List Level) (h : Heap) (ns : Nat) (x : Name) : Lookup × Heap :=
  if x ∈ Generated.NsAttrs.nsAttrs then (.builtin, h)
  else
    let r := getattrMemoF c h.nss.length h.nss ns x
    (r.1, { h with nss := r.2 })

/-- `_NSAttr.__getattr__`: the first module along `inherits` that has the attribute -/
def nsattrF (c : List Level) (nss : List NS) : Nat → Nat → Name → Option Val
  | 0, _, _ => none
  | f + 1, ns, x =>
    match nss[ns]? with
    | none => none
    | some n =>
      match (c[n.tmpl]?).bind (fun l => l.attrs.lookup x) with
      | some v => some v
      | none => match n.inherits with
        | some p => nsattrF c nss f p x
        | none => none

/-- an `_NSAttr` object: it keeps a *reference* to the namespace it was created for (`self.__parent = parent`),
not a copy of the chain -/
structure NSAttr where
  parent : Nat
  deriving DecidableEq, Repr

/-- `Namespace.attr` (a memoized property): the object is created at the first access and kept -/
def nsAttrObj (ns : Nat) : NSAttr := ⟨ns⟩

/-- `_NSAttr.__getattr__(key)`: walks `.inherits` from the parent on the heap *as it is when the attribute is
read* -/
def NSAttr.read (c : List Level) (h : Heap) (o : NSAttr) (x : Name) : Option Val :=
  nsattrF c h.nss h.nss.length o.parent x

def Ctx.get (c : Ctx) : Ref → Option Nat
  | .self => c.self
  | .next => c.next
  | .parent => c.parent
  | .loc => c.loc

inductive Out
  | text (k : Nat)
  | val (v : Val)
  | args (bound : List (Name × Val)) (extra : List (Name × Val))
  deriving DecidableEq, Repr

abbrev Res := Except Exc (List Out)

/-- how names are resolved while code runs: the namespace a context binds `self/next/parent/local` to,
attribute access on a namespace, `.attr` access on a namespace -/
structure Dispatch where
  ref : Nat → Ref → Option Nat
  getattr : Nat → Name → Lookup
  attr : Nat → Name → Option Val
  /-- what `<%include>` of library entry `k` writes (`runtime._include_file`); a lookup that holds only the chain
  itself answers TemplateLookupException -/
  inc : Nat → Res := fun _ => .error .lookup

/-- the dispatch the real runtime performs on the heap -/
def heapDispatch (c : List Level) (h : Heap) : Dispatch where
  ref cx r := (h.ctxs[cx]?).bind (·.get r)
  getattr ns x := getattr c h ns x
  attr ns x := (nsAttrObj ns).read c h x        -- `ns.attr.x`

/-! ## argument binding (what Python does for `render_x(context, *pos, **kw)`) -/

/-- the value parameter `p` (at position `i`) receives: the `i`-th positional argument, else the keyword
argument of its name, else its default; `none` = missing -/
def argFor (pos : List Val) (kw : List (Name × Val)) (i : Nat) (p : Name × Option Val) : Option Val :=
  match pos[i]? with
  | some v => some v
  | none => match kw.lookup p.1 with
    | some v => some v
    | none => p.2

/-- values for the parameters from position `i` on; `none` = a required argument is missing -/
def fillParams (pos : List Val) (kw : List (Name × Val)) : Nat → List (Name × Option Val) → Option (List (Name × Val))
  | _, [] => some []
  | i, p :: rest =>
    match argFor pos kw i p, fillParams pos kw (i + 1) rest with
    | some v, some r => some ((p.1, v) :: r)
    | _, _ => none

/-- `def f(context, <params>, **pageargs)` (if `varkw`) called with `pos` and `kw`: the bound parameters and the
extra keywords, or `none` for a TypeError (too many positionals, multiple values, unexpected keyword, missing) -/
def bind (params : List (Name × Option Val)) (varkw : Bool) (pos : List Val) (kw : List (Name × Val)) :
    Option (List (Name × Val) × List (Name × Val)) :=
  let names := params.map (·.1)
  if pos.length > params.length then none
  else if kw.any (fun p => (names.take pos.length).contains p.1) then none
  else if !varkw && kw.any (fun p => !names.contains p.1) then none
  else match fillParams pos kw 0 params with
    | none => none
    | some b => some (b, kw.filter (fun p => !names.contains p.1))

/-! ## running template code -/


/-- where code runs: the template whose code it is, the context it was handed, the page arguments in scope -/
structure Env where
  tmpl : Nat
  ctx : Nat
  bound : List (Name × Val) := []
  pageargs : Option (List (Name × Val)) := none

/-- what a call of a block leaves behind: (what it wrote to the output during the call, what it returned).
A buffered block collects its content in a buffer of its own and *returns* it; any other block writes its content
and returns `''`. -/
def callResult (buffered : Bool) (content : List Out) : List Out × List Out :=
  if buffered then ([], content) else (content, [])

/-- `__M_writer(<call> or '')` at a block's position (since 248d875; the bare call before dropped the returned
part) and `__M_writer(str(<call>))` of `${r.x()}`: the output holds what was written during the call, then what
the call returned -/
def writeCall (p : List Out × List Out) : List Out := p.1 ++ p.2

/-- a callable has run (`r`); the calling statement writes its result -/
def finishCall (buffered : Bool) (r : Res) : Res :=
  match r with
  | .ok content => .ok (writeCall (callResult buffered content))
  | .error e => .error e

theorem writeCall_callResult (buffered : Bool) (content : List Out) :
    writeCall (callResult buffered content) = content := by
  cases buffered <;> simp [writeCall, callResult]

theorem finishCall_eq (buffered : Bool) (r : Res) : finishCall buffered r = r := by
  cases r <;> simp [finishCall, writeCall_callResult]

/-- is the named block `x` of template `t` buffered? -/
def bufferedAt (c : List Level) (t : Nat) (x : Name) : Bool :=
  match c[t]? with
  | some l => l.buffered.contains x
  | none => false

/-- is the anonymous block on line `ln` of template `t` buffered? -/
def bufferedAnonAt (c : List Level) (t : Nat) (ln : Nat) : Bool :=
  match c[t]? with
  | some l => l.bufferedAnon.contains ln
  | none => false

/-- call of what attribute access returned, with `run` = execution of a node list in an environment -/
def invoke (c : List Level) (run : Env → List Node → Res) (lk : Lookup) (x : Name)
    (pos : List Val) (kw : List (Name × Val)) : Res :=
  match lk with
  | .missing => .error .attributeError
  | .builtin => .error .typeError
  | .member t cx =>
    match (c[t]?).bind (fun l => l.member x) with
    | none => .error .internal
    | some (kind, params, kids) =>
      -- a def takes exactly its parameters; body and blocks also take `**pageargs`
      match bind params (kind != .defn) pos kw with
      | none => .error .typeError
      | some (b, extra) =>
        -- the flag is that of the definition that runs (the most-derived one), not of the block at the position
        finishCall (kind == .block && bufferedAt c t x)
          (run { tmpl := t, ctx := cx, bound := b, pageargs := if kind = .defn then none else some extra } kids)

/-- sequencing of two outputs (an exception in the first discards the second) -/
def seq (a b : Res) : Res :=
  match a with
  | .error e => .error e
  | .ok x => match b with
    | .error e => .error e
    | .ok y => .ok (x ++ y)

/-- the generated code for one node, with `run` = execution of a node list in an environment -/
def step (c : List Level) (D : Dispatch) (run : Env → List Node → Res) (env : Env) : Node → Res
  | .text k => .ok [.text k]
  | .args => .ok [.args env.bound (env.pageargs.getD [])]
  | .defn _ _ _ => .ok []
  | .incl k => D.inc k                                -- not a function of `env`: see `renderIn`
  | .callTag kids => run env kids                        -- the callee writes `caller.body()` once: the content runs here,
                                                       -- as a closure of the enclosing code (same context)
  | .attr r x =>
    match D.ref env.ctx r with
    | none => .error .attributeError
    | some ns => match D.attr ns x with
      | some v => .ok [.val v]
      | none => .error .attributeError
  | .block none ln kids =>                               -- `__M_writer(__M_anon_N() or '')`: a closure called in place
    finishCall (bufferedAnonAt c env.tmpl ln) (run env kids)
  | .block (some b) _ _ =>
    -- `if 'parent' not in context._data or not hasattr(context._data['parent'], b): context['self'].b(**pageargs)`
    let go : Bool := match D.ref env.ctx .parent with
      | none => true
      | some p => D.getattr p b == .missing
    if go then
      match D.ref env.ctx .self with
      | none => .error .internal
      | some s => invoke c run (D.getattr s b) b [] (env.pageargs.getD [])
    else .ok []
  | .call r x pos kw =>
    match D.ref env.ctx r with
    | none => .error .attributeError                             -- `UNDEFINED.x` / builtin `next`
    | some ns => invoke c run (D.getattr ns x) x pos kw

/-- the generated code of a callable, node by node; `fuel` bounds the nesting of calls plus the length of the
node lists (exhaustion = `recursion`) -/
def exec (c : List Level) (D : Dispatch) : Nat → Env → List Node → Res
  | 0, _, _ => .error .recursion
  | _ + 1, _, [] => .ok []
  | f + 1, env, n :: rest =>
    -- not `seq …`: an exception must stop the execution, the rest is not evaluated
    match step c D (exec c D f) env n with
    | .error e => .error e
    | .ok a => match exec c D f env rest with
      | .error e => .error e
      | .ok b => .ok (a ++ b)

theorem exec_cons (c : List Level) (D : Dispatch) (f : Nat) (env : Env) (n : Node) (rest : List Node) :
    exec c D (f + 1) env (n :: rest) = seq (step c D (exec c D f) env n) (exec c D f env rest) := by
  simp only [exec, seq]

/-! ## compile-time checks on blocks (`_Identifiers`) -/

inductive Fault
  | dup (n : Name)          -- "%def or %block named 'n' already exists in this template."
  | dupAnon (line : Nat)    -- the same for two anonymous blocks (`__M_anon_<line>`)
  | inDef (n : Name)        -- "Named block 'n' not allowed inside of def 'd'"
  | inCall (n : Name)       -- "Named block 'n' not allowed inside of <%call> tag"
  deriving DecidableEq, Repr

mutual
/-- every named block of a node, wherever it is nested: what the `FindNamedBlocks` visitor of
`_Identifiers._reject_named_blocks` meets (it descends through every kind of node) -/
def allBlocksN : Node → List Name
  | .block (some b) _ k => b :: allBlocksL k
  | .block none _ k => allBlocksL k
  | .defn _ _ k => allBlocksL k
  | .callTag k => allBlocksL k
  | _ => []
def allBlocksL : List Node → List Name
  | [] => []
  | n :: r => allBlocksN n ++ allBlocksL r
end

/-- what one `_Identifiers` instance meets when it visits its node: it descends into blocks but not into
defs or `<%call>` tags other than its own node; a def that is not its own node is searched for named blocks
(`_reject_named_blocks`, since 14dadc4) -/
inductive Entry
  | nblock (n : Name)
  | anon (line : Nat)
  | rdef (n : Name)          -- a def whose parent is the template (`is_root()`)
  | ndef (n : Name)          -- any other def
  | defBlock (b : Name)      -- a named block found anywhere inside the def just met
  | call

mutual
def regionN (top : Bool) : Node → List Entry
  | .defn n _ k => (if top then Entry.rdef n else Entry.ndef n) :: (allBlocksL k).map Entry.defBlock
  | .block (some b) _ kids => .nblock b :: regionL false kids
  | .block none ln kids => .anon ln :: regionL false kids
  | .callTag _ => [.call]
  | _ => []
def regionL (top : Bool) : List Node → List Entry
  | [] => []
  | n :: r => regionN top n ++ regionL top r
end

/-- kind of node an `_Identifiers` instance was created for -/
inductive Root | main | defn | block | call
  deriving DecidableEq, Repr

/-- the names registered in `topleveldefs` by the main traversal, with `is_block` -/
def topRegs : List Entry → List (Name × Bool)
  | [] => []
  | .nblock n :: r => (n, true) :: topRegs r
  | .rdef n :: r => (n, false) :: topRegs r
  | _ :: r => topRegs r

/-- `_check_name_exists` along a registration sequence: fault when the name is already registered by a
different node and one of the two is a block -/
def dupFaults : List (Name × Bool) → List (Name × Bool) → List Fault
  | _, [] => []
  | seen, (n, isB) :: r =>
    (match seen.lookup n with
      | some wasB => if isB || wasB then [Fault.dup n] else []
      | none => []) ++ dupFaults ((n, isB) :: seen) r

def anonLines : List Entry → List Nat
  | [] => []
  | .anon l :: r => l :: anonLines r
  | _ :: r => anonLines r

def dupLines : List Nat → List Nat → List Fault
  | _, [] => []
  | seen, l :: r => (if seen.contains l then [Fault.dupAnon l] else []) ++ dupLines (l :: seen) r

def blockNamesOf : List Entry → List Name
  | [] => []
  | .nblock n :: r => n :: blockNamesOf r
  | _ :: r => blockNamesOf r

def defNamesOf : List Entry → List Name
  | [] => []
  | .rdef n :: r => n :: defNamesOf r
  | .ndef n :: r => n :: defNamesOf r
  | _ :: r => defNamesOf r

def topDefNames : List Node → List Name
  | [] => []
  | .defn n _ _ :: r => n :: topDefNames r
  | _ :: r => topDefNames r

/-- `_reject_named_blocks`: named blocks inside the defs met -/
def defFaults : List Entry → List Fault
  | [] => []
  | .defBlock b :: r => Fault.inDef b :: defFaults r
  | _ :: r => defFaults r

/-- faults one `_Identifiers` traversal raises on its region -/
def scan (rk : Root) (es : List Entry) : List Fault :=
  (match rk with
    | .defn => (blockNamesOf es).map Fault.inDef
    | .call => (blockNamesOf es).map Fault.inCall
    | .main => dupFaults [] (topRegs es)
    | .block => [])
  ++ defFaults es ++ dupLines [] (anonLines es)

/-- is the def `nm`, followed by the siblings `rest` in its scope, ever handed to a new `_Identifiers`?
Direct children of a `<%call>` always are (`DefVisitor`); elsewhere the dictionary `topleveldefs` (template
level) resp. `closuredefs` keeps the *last* def of a name and only that one is generated.  (Named blocks inside
a def that is not generated are still found, by `defFaults`; its anonymous-block names are not compared.) -/
def survives (rk : Root) (nm : Name) (rest : List Node) : Bool :=
  match rk with
  | .call => true
  | .main => !(topDefNames rest).contains nm
  | _ => !(defNamesOf (regionL false rest)).contains nm

mutual
/-- faults raised while the callables nested in a node are generated -/
def deepN (rk : Root) (rest : List Node) : Node → List Fault
  | .defn nm _ k => if survives rk nm rest then scan .defn (regionL false k) ++ deepL .defn k else []
  | .block _ _ k => scan .block (regionL false k) ++ deepL .block k
  | .callTag k => scan .call (regionL false k) ++ deepL .call k
  | _ => []
def deepL (rk : Root) : List Node → List Fault
  | [] => []
  | n :: rest => deepN rk rest n ++ deepL rk rest
end

/-- every CompileException the block checks can raise for a template (the real compiler stops at the first) -/
def check (nodes : List Node) : List Fault :=
  scan .main (regionL true nodes) ++ deepL .main nodes

/-! ## the inherit phase -/

/-- `_inherit_from` for the template at the head of `rest` (chain index `ti`), called with context `cx`:
the template is looked up (and compiled: templates are loaded when first needed), linked, and then its own
`_mako_inherit` runs, recursively.  Returns the heap and the callable to run first
(template index, context index). -/
def inheritFrom : List Level → Nat → Heap → Nat → Except Exc (Heap × (Nat × Nat))
  | [], _, _, _ => .error .lookup
  | t :: rest, ti, h, cx =>
    if !(check t.nodes).isEmpty then .error .compile      -- `_lookup_template` loads (compiles) the target first
    else match linkStep ti h cx with
    | .error e => .error e
    | .ok (h', lclId) =>
      if t.inherit.links then inheritFrom rest (ti + 1) h' lclId    -- `ret = callable_(template, lclcontext); if ret: return ret`
      else .ok (h', (ti, lclId))                                      -- `return (template.callable_, lclcontext)`

/-- heap after `_populate_self_namespace(context, T₀)` before `_mako_inherit` runs -/
def heap0 : Heap :=
  ⟨[{ tmpl := 0, ctx := 0 }], [{ self := some 0, loc := some 0 }]⟩

/-- `_populate_self_namespace(context, tmpl)` as called by `_render_context` -/
def populateSelf : List Level → Except Exc (Heap × (Nat × Nat))
  | [] => .error .lookup
  | t :: rest =>
    if t.inherit.links then inheritFrom rest 1 heap0 0
    else .ok (heap0, (0, 0))

/-! ## a render -/

def compiles (c : List Level) : Bool := c.all (fun l => (check l.nodes).isEmpty)

/-- `lookup.get_template(T₀).render(**data)` in a lookup that holds the chain (templates are compiled when they
are first looked up: `T₀` here, every other one by the `_inherit_from` that names it) -/
def render (c : List Level) (fuel : Nat) (data : List (Name × Val)) : Res :=
  match c with
  | [] => .error .lookup
  | t0 :: _ =>
    if !(check t0.nodes).isEmpty then .error .compile
    else match populateSelf c with
      | .error e => .error e
      | .ok (h, (t, cx)) =>
        invoke c (exec c (heapDispatch c h) fuel) (.member t cx) bodyName [] data

/-- `render` with `<%include>` answered by `inc`.  `runtime._include_file` hands the included template
`context._clean_inheritance_tokens()` - a copy of the including context without `self`, `parent`, `next` - and
`_populate_self_namespace` sets `self` and `local` afresh: the included template (and the chain it inherits from)
is rendered exactly like a top-level template, on a heap of its own, its base-most body first; nothing of the
includer's chain is visible through `self/next/parent/local`.  (Regenerated facts: `Generated.NsAttrs.cleanPops`,
`includeUsesCleanContext`, `populateSetsSelfLocal`.) -/
def renderIn (inc : Nat → Res) (c : List Level) (fuel : Nat) (data : List (Name × Val)) : Res :=
  match c with
  | [] => .error .lookup
  | t0 :: _ =>
    if !(check t0.nodes).isEmpty then .error .compile
    else match populateSelf c with
      | .error e => .error e
      | .ok (h, (t, cx)) =>
        invoke c (exec c { heapDispatch c h with inc := inc } fuel) (.member t cx) bodyName [] data

/-- `<%include>` of entry `k` of a library of chains (`depth` bounds the nesting of includes; exhaustion =
`recursion`); an included body receives no arguments -/
def renderLib (lib : List (List Level)) (fuel : Nat) : Nat → Nat → Res
  | 0, _ => .error .recursion
  | d + 1, k =>
    match lib[k]? with
    | none => .error .lookup
    | some c => renderIn (renderLib lib fuel d) c fuel []

/-- `lookup.get_template(<first template of entry 0>).render(**data)` in a lookup that holds the library -/
def renderTop (lib : List (List Level)) (depth fuel : Nat) (data : List (Name × Val)) : Res :=
  match lib[0]? with
  | none => .error .lookup
  | some c => renderIn (renderLib lib fuel depth) c fuel data

end MakoModel.Inherit
