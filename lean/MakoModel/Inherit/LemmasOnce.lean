import MakoModel.Inherit.LemmasBuild
/-!
Helper definitions and lemmas for C06 `named_block_once` (global form): the exact output of a render of a
*plain* chain - bodies made of texts, defs, named blocks holding texts and `next.body()` calls - by the rules.
-/
namespace MakoModel.Inherit

def isText : Node → Bool
  | .text _ => true
  | _ => false

def textsOut : List Node → List Out
  | [] => []
  | .text k :: r => .text k :: textsOut r
  | _ :: r => textsOut r

/-- nodes allowed in the body of a plain chain (`lvl0`: the most derived template, which has no `next`) -/
def plainNode (lvl0 : Bool) : Node → Bool
  | .text _ => true
  | .defn _ _ _ => true
  | .block (some b) _ k => k.all isText && b != bodyName
  | .call .next x [] [] => x == bodyName && !lvl0
  | _ => false

def plainLevels : Nat → List Level → Bool
  | _, [] => true
  | i, l :: r => l.nodes.all (plainNode (i == 0)) && l.sig.isEmpty && plainLevels (i + 1) r

/-- no template of the chain has a template-level def of this name -/
def noDefNamed (c : List Level) (b : Name) : Bool := c.all (fun l => !(topDefNames l.nodes).contains b)

/-- every body is plain, no `<%page args>`, and no def is named like a block of the chain -/
def plainChain (c : List Level) : Bool :=
  plainLevels 0 c && c.all (fun l => (mainBlocksL l.nodes).all (noDefNamed c))

def PlainChain (c : List Level) : Prop := plainChain c = true

theorem plainChain_of_check (c : List Level) (h : plainChain c = true) : PlainChain c := h

def nodesAt (c : List Level) (i : Nat) : List Node := ((c[i]?).map (·.nodes)).getD []

/-- the texts of the most-derived definition of block `b` -/
def contentOf (c : List Level) (b : Name) : List Out :=
  match firstFrom c 0 b with
  | none => []
  | some l => match (c[l]?).bind (fun lv => lv.member b) with
    | some (_, _, kids) => textsOut kids
    | none => []

/-- output of the nodes of template `i`, `prev` being the output of the body of template `i-1`:
texts in place; a named block is replaced by the most-derived content iff no template further toward the base
declares it; `next.body()` is replaced by the derived body's output -/
def expandNodes (c : List Level) (prev : List Out) (i : Nat) : List Node → List Out
  | [] => []
  | .text k :: r => .text k :: expandNodes c prev i r
  | .block (some b) _ _ :: r =>
    (if (firstFrom c (i + 1) b).isNone then contentOf c b else []) ++ expandNodes c prev i r
  | .call .next _ _ _ :: r => prev ++ expandNodes c prev i r
  | _ :: r => expandNodes c prev i r

def expandBody (c : List Level) : Nat → List Out
  | 0 => expandNodes c [] 0 (nodesAt c 0)
  | i + 1 => expandNodes c (expandBody c i) (i + 1) (nodesAt c (i + 1))

def prevOf (c : List Level) (i : Nat) : List Out := if i = 0 then [] else expandBody c (i - 1)

theorem expandBody_eq (c : List Level) (i : Nat) : expandBody c i = expandNodes c (prevOf c i) i (nodesAt c i) := by
  cases i with
  | zero => simp [expandBody, prevOf]
  | succ i => simp [expandBody, prevOf]

theorem seq_ok {a b : Res} {out : List Out} (h : seq a b = .ok out) :
    ∃ x y, a = .ok x ∧ b = .ok y ∧ out = x ++ y := by
  unfold seq at h
  cases a with
  | error e => simp at h
  | ok x =>
    cases b with
    | error e => simp at h
    | ok y => simp only [Except.ok.injEq] at h; exact ⟨x, y, rfl, rfl, h.symm⟩

theorem exec_texts (c : List Level) (D : Dispatch) : ∀ f env (kids : List Node) out,
    kids.all isText = true → exec c D f env kids = .ok out → out = textsOut kids := by
  intro f
  induction f with
  | zero => intro env kids out _ h; simp [exec] at h
  | succ f ih =>
    intro env kids out hk h
    cases kids with
    | nil => simp only [exec, Except.ok.injEq] at h; simp [textsOut, ← h]
    | cons n r =>
      simp only [List.all_cons, Bool.and_eq_true] at hk
      cases n with
      | text k =>
        rw [exec_cons] at h
        obtain ⟨x, y, hx, hy, ho⟩ := seq_ok h
        simp only [step, Except.ok.injEq] at hx
        subst hx
        rw [ho, ih env r y hk.2 hy]
        simp [textsOut]
      | call _ _ _ _ => simp [isText] at hk
      | attr _ _ => simp [isText] at hk
      | args => simp [isText] at hk
      | incl _ => simp [isText] at hk
      | defn _ _ _ => simp [isText] at hk
      | block _ _ _ => simp [isText] at hk
      | callTag _ => simp [isText] at hk

theorem plainLevels_get : ∀ (ls : List Level) (i k : Nat) (l : Level), plainLevels i ls = true → ls[k]? = some l →
    l.nodes.all (plainNode (i + k == 0)) = true ∧ l.sig = []
  | [], _, _, _, _, h => by simp at h
  | a :: r, i, k, l, hp, h => by
    simp only [plainLevels, Bool.and_eq_true] at hp
    cases k with
    | zero =>
      simp only [List.getElem?_cons_zero, Option.some.injEq] at h
      subst h
      exact ⟨by simpa using hp.1.1, by simpa using hp.1.2⟩
    | succ k =>
      simp only [List.getElem?_cons_succ] at h
      have := plainLevels_get r (i + 1) k l hp.2 h
      have e : i + 1 + k = i + (k + 1) := by omega
      rw [e] at this
      exact this

theorem findTopDef_mem (x : Name) : ∀ (l : List Node) (k : List (Name × Option Val) × List Node),
    findTopDef x l = some k → x ∈ topDefNames l
  | [], k, h => by simp [findTopDef] at h
  | n :: r, k, h => by
    have ih := findTopDef_mem x r
    cases n with
    | defn nm ps kids =>
      simp only [findTopDef] at h
      cases hr : findTopDef x r with
      | some k' => simp [topDefNames, ih k' hr]
      | none =>
        simp only [hr] at h
        by_cases e : nm = x
        · simp [topDefNames, e]
        · simp [e] at h
    | text _ => simp only [findTopDef] at h; simpa [topDefNames] using ih k h
    | call _ _ _ _ => simp only [findTopDef] at h; simpa [topDefNames] using ih k h
    | attr _ _ => simp only [findTopDef] at h; simpa [topDefNames] using ih k h
    | args => simp only [findTopDef] at h; simpa [topDefNames] using ih k h
    | incl _ => simp only [findTopDef] at h; simpa [topDefNames] using ih k h
    | block _ _ _ => simp only [findTopDef] at h; simpa [topDefNames] using ih k h
    | callTag _ => simp only [findTopDef] at h; simpa [topDefNames] using ih k h

theorem findBlockL_texts_none (x : Name) : ∀ k : List Node, k.all isText = true → findBlockL x k = none
  | [], _ => by simp [findBlockL]
  | n :: r, h => by
    simp only [List.all_cons, Bool.and_eq_true] at h
    cases n with
    | text _ => simp [findBlockL, findBlockN, findBlockL_texts_none x r h.2]
    | call _ _ _ _ => simp [isText] at h
    | attr _ _ => simp [isText] at h
    | args => simp [isText] at h
    | incl _ => simp [isText] at h
    | defn _ _ _ => simp [isText] at h
    | block _ _ _ => simp [isText] at h
    | callTag _ => simp [isText] at h

theorem findBlockL_plain (x : Name) (lvl0 : Bool) : ∀ (l : List Node) (k : List Node),
    l.all (plainNode lvl0) = true → findBlockL x l = some k → k.all isText = true
  | [], k, _, h => by simp [findBlockL] at h
  | n :: r, k, hp, h => by
    simp only [List.all_cons, Bool.and_eq_true] at hp
    have ih := findBlockL_plain x lvl0 r k hp.2
    cases n with
    | text _ => simp only [findBlockL, findBlockN] at h; exact ih h
    | call _ _ _ _ => simp only [findBlockL, findBlockN] at h; exact ih h
    | attr _ _ => simp only [findBlockL, findBlockN] at h; exact ih h
    | args => simp only [findBlockL, findBlockN] at h; exact ih h
    | incl _ => simp only [findBlockL, findBlockN] at h; exact ih h
    | defn _ _ _ => simp only [findBlockL, findBlockN] at h; exact ih h
    | callTag _ => simp only [findBlockL, findBlockN] at h; exact ih h
    | block nm ln kids =>
      cases nm with
      | none => simp [plainNode] at hp
      | some b =>
        have hk : kids.all isText = true := by
          have := hp.1; simp only [plainNode, Bool.and_eq_true] at this; exact this.1
        simp only [findBlockL, findBlockN] at h
        by_cases e : some b = some x
        · simp only [e, if_true, Option.some.injEq] at h
          subst h; exact hk
        · simp only [e, if_false, findBlockL_texts_none x kids hk] at h
          exact ih h

theorem mainBlocksL_append (a b : List Node) : mainBlocksL (a ++ b) = mainBlocksL a ++ mainBlocksL b := by
  induction a with
  | nil => rfl
  | cons n r ih => simp [mainBlocksL, ih]

/-- a named block position by the rules: output iff no template further toward the base declares `b` -/
theorem step_block_rule (c : List Level) (i : Nat) (hi : i < c.length) (b : Name)
    (run : Env → List Node → Res) (env : Env) (henv : env.ctx = i) (ln : Nat) (kids : List Node) :
    step c (ruleDispatch c) run env (.block (some b) ln kids) =
      if (firstFrom c (i + 1) b).isNone = true then
        match firstFrom c 0 b with
        | none => .error .attributeError
        | some l => invoke c run (.member l l) b [] (env.pageargs.getD [])
      else .ok [] := by
  simp only [step, ruleDispatch, henv, hi, if_true]
  by_cases hp : i + 1 < c.length
  · simp only [hp, if_true]
    cases hf : firstFrom c (i + 1) b with
    | some k => simp
    | none =>
      simp only [Option.isNone_none, if_true]
      cases firstFrom c 0 b <;> simp [invoke]
  · have : c.length - (i + 1) = 0 := by omega
    have hf : firstFrom c (i + 1) b = none := by simp [firstFrom, this, firstIdx]
    simp only [hp, if_false, hf, Option.isNone_none, if_true]
    cases firstFrom c 0 b <;> simp [invoke]

theorem firstFrom_body (c : List Level) (j : Nat) (hj : j < c.length) : firstFrom c j bodyName = some j := by
  have hd : hasDef c j bodyName = true := by
    simp only [hasDef]
    rw [List.getElem?_eq_getElem hj]
    simp [Level.declares, Level.member]
  exact firstIdx_eq_some (Nat.le_refl _) (by omega) hd (fun m a b => by omega)

theorem bind_empty : bind [] true [] [] = some ([], []) := by decide

/-- running the body of template `j` by the rules, as `invoke` does it, when the template has no `<%page args>` -/
theorem invoke_body (c : List Level) (run : Env → List Node → Res) (j : Nat) (lv : Level) (hj : c[j]? = some lv)
    (hs : lv.sig = []) :
    invoke c run (.member j j) bodyName [] [] = run { tmpl := j, ctx := j, bound := [], pageargs := some [] } lv.nodes := by
  have hm : lv.member bodyName = some (MKind.body, [], lv.nodes) := by simp [Level.member, hs]
  simp only [invoke, hj, Option.bind_some, hm, finishCall_eq]
  rfl

theorem step_nextbody_rule (c : List Level) (i : Nat) (hi : i < c.length) (hi0 : i ≠ 0)
    (run : Env → List Node → Res) (env : Env) (henv : env.ctx = i) :
    step c (ruleDispatch c) run env (.call .next bodyName [] []) =
      invoke c run (.member (i - 1) (i - 1)) bodyName [] [] := by
  have hj : i - 1 < c.length := by omega
  have hf := firstFrom_body c (i - 1) hj
  simp only [step, ruleDispatch, henv, hi, if_true, hi0, if_false, hf]

theorem exec_plain (c : List Level) (hp : PlainChain c) :
    ∀ f i env nodes out, i < c.length → env.ctx = i → env.pageargs.getD [] = [] →
      nodes.all (plainNode (i == 0)) = true → (∀ b ∈ mainBlocksL nodes, noDefNamed c b = true) →
      exec c (ruleDispatch c) f env nodes = .ok out →
      out = expandNodes c (prevOf c i) i nodes := by
  have hpl : plainLevels 0 c = true := by
    have := hp; simp only [PlainChain, plainChain, Bool.and_eq_true] at this; exact this.1
  have hnd : ∀ l ∈ c, ∀ b ∈ mainBlocksL l.nodes, noDefNamed c b = true := by
    have := hp; simp only [PlainChain, plainChain, Bool.and_eq_true, List.all_eq_true] at this
    exact this.2
  intro f
  induction f with
  | zero => intro i env nodes out _ _ _ _ _ h; simp [exec] at h
  | succ f ih =>
    intro i env nodes out hi hctx hpa hplain hdefs h
    cases nodes with
    | nil => simp only [exec, Except.ok.injEq] at h; simp [expandNodes, ← h]
    | cons n rest =>
      simp only [List.all_cons, Bool.and_eq_true] at hplain
      rw [exec_cons] at h
      obtain ⟨x, y, hx, hy, ho⟩ := seq_ok h
      have hdr : ∀ b ∈ mainBlocksL rest, noDefNamed c b = true :=
        fun b hb => hdefs b (by simp [mainBlocksL, hb])
      have hrest := ih i env rest y hi hctx hpa hplain.2 hdr hy
      subst ho
      rw [hrest]
      cases n with
      | text k =>
        simp only [step, Except.ok.injEq] at hx
        subst hx; simp [expandNodes]
      | defn _ _ _ =>
        simp only [step, Except.ok.injEq] at hx
        subst hx; simp [expandNodes]
      | attr _ _ => simp [plainNode] at hplain
      | args => simp [plainNode] at hplain
      | incl _ => simp [plainNode] at hplain
      | callTag _ => simp [plainNode] at hplain
      | block nm ln kids =>
        cases nm with
        | none => simp [plainNode] at hplain
        | some b =>
          have hb1 := hplain.1
          simp only [plainNode, Bool.and_eq_true, bne_iff_ne, ne_eq] at hb1
          have hnb : noDefNamed c b = true := hdefs b (by simp [mainBlocksL, mainBlocksN])
          rw [step_block_rule c i hi b _ env hctx] at hx
          simp only [expandNodes]
          by_cases hg : (firstFrom c (i + 1) b).isNone = true
          · simp only [hg, if_true, hpa] at hx ⊢
            cases hf : firstFrom c 0 b with
            | none => simp [hf] at hx
            | some l =>
              simp only [hf] at hx
              have ⟨_, hl, hdl, _⟩ := firstIdx_some hf
              have hl' : l < c.length := by omega
              have hcl : c[l]? = some c[l] := List.getElem?_eq_getElem hl'
              have hplv := plainLevels_get c 0 l c[l] hpl hcl
              have hnt : findTopDef b c[l].nodes = none := by
                cases ht : findTopDef b c[l].nodes with
                | none => rfl
                | some k =>
                  have hm := findTopDef_mem b _ k ht
                  have := hnb
                  simp only [noDefNamed, List.all_eq_true] at this
                  have := this c[l] (List.getElem_mem hl')
                  simp [hm] at this
              have hdecl : (c[l].member b).isSome = true := by
                simpa [hasDef, hcl, Level.declares] using hdl
              simp only [Level.member, hb1.2, if_false, hnt] at hdecl
              cases hfb : findBlockL b c[l].nodes with
              | none => simp [hfb] at hdecl
              | some kids' =>
                have hmem : c[l].member b = some (MKind.block, [], kids') := by
                  simp [Level.member, hb1.2, hnt, hfb]
                have htx := findBlockL_plain b _ _ _ hplv.1 hfb
                simp only [invoke, hcl, Option.bind_some, hmem, finishCall_eq] at hx
                have hbind : bind [] true [] [] = some ([], []) := bind_empty
                simp only [show (MKind.block != MKind.defn) = true from rfl, hbind] at hx
                have := exec_texts c _ f _ kids' x htx hx
                rw [this]
                simp [contentOf, hf, hcl, hmem]
          · simp only [hg] at hx ⊢
            simp only [Bool.false_eq_true, if_false, Except.ok.injEq] at hx
            subst hx; simp
      | call r nm pos kw =>
        cases r with
        | self => simp [plainNode] at hplain
        | parent => simp [plainNode] at hplain
        | loc => simp [plainNode] at hplain
        | next =>
          cases pos with
          | cons _ _ => simp [plainNode] at hplain
          | nil =>
            cases kw with
            | cons _ _ => simp [plainNode] at hplain
            | nil =>
              have hc1 := hplain.1
              simp only [plainNode, Bool.and_eq_true, beq_iff_eq, Bool.not_eq_true', beq_eq_false_iff_ne,
                ne_eq] at hc1
              obtain ⟨hnm, hi0⟩ := hc1
              subst hnm
              have hj : i - 1 < c.length := by omega
              rw [step_nextbody_rule c i hi hi0 _ env hctx] at hx
              have hcl : c[i - 1]? = some c[i - 1] := List.getElem?_eq_getElem hj
              have hplv := plainLevels_get c 0 (i - 1) c[i - 1] hpl hcl
              rw [invoke_body c _ (i - 1) c[i - 1] hcl hplv.2] at hx
              have := ih (i - 1) _ c[i - 1].nodes x hj rfl rfl (by simpa using hplv.1)
                (hnd c[i - 1] (List.getElem_mem hj)) hx
              rw [this]
              simp only [expandNodes]
              congr 1
              have e : prevOf c i = expandBody c (i - 1) := by simp [prevOf, hi0]
              rw [e, expandBody_eq]
              simp only [nodesAt, hcl, Option.map_some, Option.getD_some]

/-- the render of a plain chain by the rules is `expandBody` -/
theorem ruleRender_plain (c : List Level) (hne : c ≠ []) (hp : PlainChain c) (fuel : Nat) (out : List Out)
    (h : ruleRender c fuel [] = .ok out) : out = expandBody c (c.length - 1) := by
  have hpl : plainLevels 0 c = true := by
    have := hp; simp only [PlainChain, plainChain, Bool.and_eq_true] at this; exact this.1
  have hnd : ∀ l ∈ c, ∀ b ∈ mainBlocksL l.nodes, noDefNamed c b = true := by
    have := hp; simp only [PlainChain, plainChain, Bool.and_eq_true, List.all_eq_true] at this
    exact this.2
  have hj : c.length - 1 < c.length := by
    cases c with
    | nil => exact absurd rfl hne
    | cons _ _ => simp
  have hcl : c[c.length - 1]? = some c[c.length - 1] := List.getElem?_eq_getElem hj
  have hplv := plainLevels_get c 0 (c.length - 1) _ hpl hcl
  unfold ruleRender at h
  rw [invoke_body c _ _ _ hcl hplv.2] at h
  have := exec_plain c hp fuel (c.length - 1) _ _ out hj rfl rfl (by simpa using hplv.1)
    (hnd _ (List.getElem_mem hj)) h
  rw [this, expandBody_eq]
  simp [nodesAt, hcl]

end MakoModel.Inherit
