import MakoModel.Inherit.LemmasOnce
/-!
Helper lemmas for C06 `named_block_once_count_partial`: counting a marker text in `expandBody`.
-/
namespace MakoModel.Inherit

/-- occurrences of the text `k` in an output -/
def cnt (k : Nat) (o : List Out) : Nat := o.count (.text k)

theorem cnt_append (k : Nat) (a b : List Out) : cnt k (a ++ b) = cnt k a + cnt k b := by
  simp [cnt, List.count_append]

theorem cnt_nil (k : Nat) : cnt k [] = 0 := rfl

/-- `next.…` calls at the top of a node list -/
def nextCalls : List Node → Nat
  | [] => 0
  | .call .next _ _ _ :: r => 1 + nextCalls r
  | _ :: r => nextCalls r

/-- named blocks called `b` at the top of a node list -/
def blockOcc (b : Name) : List Node → Nat
  | [] => 0
  | .block (some b') _ _ :: r => (if b' = b then 1 else 0) + blockOcc b r
  | _ :: r => blockOcc b r

/-- the marker count of the output of one template's nodes: its own texts, the content of `b` at a position of
`b` that renders, and the derived body once per `next.body()` -/
theorem cnt_expandNodes (c : List Level) (k : Nat) (b : Name) (hb : cnt k (contentOf c b) = 1)
    (prev : List Out) (i : Nat) : ∀ nodes : List Node,
    (∀ b', b' ∈ mainBlocksL nodes → b' ≠ b → cnt k (contentOf c b') = 0) →
    cnt k (expandNodes c prev i nodes) =
      cnt k (textsOut nodes) + (if (firstFrom c (i + 1) b).isNone then blockOcc b nodes else 0)
        + nextCalls nodes * cnt k prev
  | [], _ => by simp [expandNodes, textsOut, blockOcc, nextCalls, cnt_nil]
  | n :: r, hother' => by
    have ih := cnt_expandNodes c k b hb prev i r
      (fun b' hm hne => hother' b' (by simp [mainBlocksL, hm]) hne)
    have hother : ∀ b', b' ∈ mainBlocksN n → b' ≠ b → cnt k (contentOf c b') = 0 :=
      fun b' hm hne => hother' b' (by simp [mainBlocksL, hm]) hne
    cases n with
    | text k' =>
      simp only [expandNodes, textsOut, blockOcc, nextCalls]
      have : ∀ o : List Out, cnt k (Out.text k' :: o) = (if k' = k then 1 else 0) + cnt k o := by
        intro o
        by_cases e : k' = k
        · subst e; simp [cnt]; omega
        · have : (Out.text k' == Out.text k) = false := by simp [e]
          simp [cnt, e]
      rw [this, this, ih]; omega
    | call rf x pos kw =>
      cases rf with
      | next => simp only [expandNodes, textsOut, blockOcc, nextCalls, cnt_append, ih, Nat.add_mul]; omega
      | self => simpa only [expandNodes, textsOut, blockOcc, nextCalls] using ih
      | parent => simpa only [expandNodes, textsOut, blockOcc, nextCalls] using ih
      | loc => simpa only [expandNodes, textsOut, blockOcc, nextCalls] using ih
    | attr _ _ => simpa only [expandNodes, textsOut, blockOcc, nextCalls] using ih
    | args => simpa only [expandNodes, textsOut, blockOcc, nextCalls] using ih
    | incl _ => simpa only [expandNodes, textsOut, blockOcc, nextCalls] using ih
    | defn _ _ _ => simpa only [expandNodes, textsOut, blockOcc, nextCalls] using ih
    | callTag _ => simpa only [expandNodes, textsOut, blockOcc, nextCalls] using ih
    | block nm ln kids =>
      cases nm with
      | none => simpa only [expandNodes, textsOut, blockOcc, nextCalls] using ih
      | some b' =>
        simp only [expandNodes, textsOut, blockOcc, nextCalls, cnt_append, ih]
        by_cases hp : (firstFrom c (i + 1) b).isNone = true
        · by_cases e : b' = b
          · subst e; simp [hp, hb]; omega
          · have hp' : cnt k (if (firstFrom c (i + 1) b').isNone = true then contentOf c b' else []) = 0 := by
              split
              · exact hother b' (by simp [mainBlocksN]) e
              · rfl
            rw [hp']; simp [hp, e]
        · by_cases e : b' = b
          · subst e; simp [hp, cnt_nil]
          · have hp' : cnt k (if (firstFrom c (i + 1) b').isNone = true then contentOf c b' else []) = 0 := by
              split
              · exact hother b' (by simp [mainBlocksN]) e
              · rfl
            rw [hp']; simp [hp]

theorem mainBlocksL_texts : ∀ k : List Node, k.all isText = true → mainBlocksL k = []
  | [], _ => rfl
  | n :: r, h => by
    simp only [List.all_cons, Bool.and_eq_true] at h
    cases n with
    | text _ => simp [mainBlocksL, mainBlocksN, mainBlocksL_texts r h.2]
    | call _ _ _ _ => simp [isText] at h
    | attr _ _ => simp [isText] at h
    | args => simp [isText] at h
    | incl _ => simp [isText] at h
    | defn _ _ _ => simp [isText] at h
    | block _ _ _ => simp [isText] at h
    | callTag _ => simp [isText] at h

/-- in a plain body, positions of `b` = occurrences of `b` among the template's blocks -/
theorem blockOcc_plain (b : Name) (lvl0 : Bool) : ∀ nodes : List Node, nodes.all (plainNode lvl0) = true →
    blockOcc b nodes = (mainBlocksL nodes).count b
  | [], _ => rfl
  | n :: r, h => by
    simp only [List.all_cons, Bool.and_eq_true] at h
    have ih := blockOcc_plain b lvl0 r h.2
    cases n with
    | text _ => simpa [blockOcc, mainBlocksL, mainBlocksN] using ih
    | call _ _ _ _ => simpa [blockOcc, mainBlocksL, mainBlocksN] using ih
    | attr _ _ => simpa [blockOcc, mainBlocksL, mainBlocksN] using ih
    | args => simpa [blockOcc, mainBlocksL, mainBlocksN] using ih
    | incl _ => simpa [blockOcc, mainBlocksL, mainBlocksN] using ih
    | defn _ _ _ => simpa [blockOcc, mainBlocksL, mainBlocksN] using ih
    | callTag _ => simpa [blockOcc, mainBlocksL, mainBlocksN] using ih
    | block nm ln kids =>
      cases nm with
      | none => simp [plainNode] at h
      | some b' =>
        have hk : kids.all isText = true := by
          have := h.1; simp only [plainNode, Bool.and_eq_true] at this; exact this.1
        simp only [blockOcc, mainBlocksL, mainBlocksN, mainBlocksL_texts kids hk,
          List.cons_append, List.nil_append, List.count_cons, ih]
        by_cases e : b' = b
        · subst e; simp; omega
        · have : (b' == b) = false := by simp [e]
          simp [e, this]

theorem count_nodup (b : Name) : ∀ l : List Name, l.Nodup → l.count b = if b ∈ l then 1 else 0
  | [], _ => rfl
  | a :: r, h => by
    have hn := List.nodup_cons.mp h
    have ih := count_nodup b r hn.2
    by_cases e : a = b
    · subst e
      have : List.count a r = 0 := by simp [ih, hn.1]
      simp [this]
    · have hne : (a == b) = false := by simp [e]
      have : b ≠ a := fun h => e h.symm
      simp [List.count_cons, hne, ih, this]

mutual
theorem findBlockN_isSome (x : Name) : ∀ n : Node, (findBlockN x n).isSome = true ↔ x ∈ mainBlocksN n
  | .text _ => by simp [findBlockN, mainBlocksN]
  | .call .. => by simp [findBlockN, mainBlocksN]
  | .attr .. => by simp [findBlockN, mainBlocksN]
  | .args => by simp [findBlockN, mainBlocksN]
  | .incl _ => by simp [findBlockN, mainBlocksN]
  | .defn _ _ _ => by simp [findBlockN, mainBlocksN]
  | .callTag _ => by simp [findBlockN, mainBlocksN]
  | .block none _ k => by simp [findBlockN, mainBlocksN, findBlockL_isSome x k]
  | .block (some b) _ k => by
    by_cases e : b = x
    · subst e; simp [findBlockN, mainBlocksN]
    · have : x ≠ b := fun h => e h.symm
      simp [findBlockN, mainBlocksN, e, this, findBlockL_isSome x k]
theorem findBlockL_isSome (x : Name) : ∀ l : List Node, (findBlockL x l).isSome = true ↔ x ∈ mainBlocksL l
  | [] => by simp [findBlockL, mainBlocksL]
  | n :: r => by
    have h1 := findBlockN_isSome x n
    have h2 := findBlockL_isSome x r
    simp only [findBlockL, mainBlocksL, List.mem_append]
    cases hn : findBlockN x n with
    | some k => simp [hn] at h1; simp [h1]
    | none => simp [hn] at h1; simp [h1, h2]
end

/-- in a chain without a def named `b`, a template declares `b` iff `b` is one of its blocks -/
theorem hasDef_iff_block (c : List Level) (t : Nat) (lv : Level) (ht : c[t]? = some lv) (b : Name)
    (hb0 : b ≠ bodyName) (hnd : noDefNamed c b = true) :
    hasDef c t b = true ↔ b ∈ mainBlocksL lv.nodes := by
  have hnt : findTopDef b lv.nodes = none := by
    cases h : findTopDef b lv.nodes with
    | none => rfl
    | some k =>
      have hm := findTopDef_mem b _ k h
      simp only [noDefNamed, List.all_eq_true] at hnd
      have := hnd lv (List.mem_of_getElem? ht)
      simp [hm] at this
  simp only [hasDef, ht, Level.declares, Level.member, hb0, if_false, hnt]
  rw [← findBlockL_isSome]
  cases findBlockL b lv.nodes <;> simp

/-- the marker of block `b`'s most-derived content occurs in the expansion of the bodies up to level `i` once
if the base-most template declaring `b` (level `kb`) is among them, and not at all otherwise -/
theorem cnt_expandBody (c : List Level) (hp : PlainChain c) (k : Nat) (b : Name)
    (hnodup : ∀ l ∈ c, (mainBlocksL l.nodes).Nodup)
    (hnext : ∀ t, 0 < t → t < c.length → nextCalls (nodesAt c t) = 1)
    (hb0 : b ≠ bodyName) (hnd : noDefNamed c b = true)
    (hbody : ∀ t, cnt k (textsOut (nodesAt c t)) = 0)
    (hother : ∀ l ∈ c, ∀ b' ∈ mainBlocksL l.nodes, b' ≠ b → cnt k (contentOf c b') = 0)
    (hb : cnt k (contentOf c b) = 1)
    (kb : Nat) (hkb : kb < c.length) (hdecl : hasDef c kb b = true)
    (hlast : ∀ t, kb < t → t < c.length → hasDef c t b = false) :
    ∀ i, i < c.length → cnt k (expandBody c i) = if kb ≤ i then 1 else 0 := by
  have hpl : plainLevels 0 c = true := by
    have := hp; simp only [PlainChain, plainChain, Bool.and_eq_true] at this; exact this.1
  -- contribution of level t's own block positions
  have hP : ∀ t, t < c.length →
      (if (firstFrom c (t + 1) b).isNone then blockOcc b (nodesAt c t) else 0) = if t = kb then 1 else 0 := by
    intro t ht
    have hcl : c[t]? = some c[t] := List.getElem?_eq_getElem ht
    have hplv := plainLevels_get c 0 t c[t] hpl hcl
    have hnodes : nodesAt c t = c[t].nodes := by simp [nodesAt, hcl]
    have hocc : blockOcc b (nodesAt c t) = if hasDef c t b = true then 1 else 0 := by
      rw [hnodes, blockOcc_plain b _ _ hplv.1, count_nodup b _ (hnodup c[t] (List.getElem_mem ht))]
      simp only [hasDef_iff_block c t c[t] hcl b hb0 hnd]
    by_cases h1 : t < kb
    · have : firstFrom c (t + 1) b ≠ none := by
        intro hn
        have := firstIdx_none hn kb (by omega) (by omega)
        simp [hdecl] at this
      have hne : t ≠ kb := by omega
      cases hf : firstFrom c (t + 1) b with
      | none => exact absurd hf this
      | some _ => simp [hne]
    · have hpass : firstFrom c (t + 1) b = none :=
        firstIdx_eq_none (fun m hm1 hm2 => hlast m (by omega) (by omega))
      simp only [hpass, Option.isNone_none, if_true, hocc]
      by_cases h2 : t = kb
      · subst h2; simp [hdecl]
      · have := hlast t (by omega) ht
        simp [this, h2]
  have hoth : ∀ t, ∀ b', b' ∈ mainBlocksL (nodesAt c t) → b' ≠ b → cnt k (contentOf c b') = 0 := by
    intro t b' hm hne
    cases hcl : c[t]? with
    | none => simp [nodesAt, hcl, mainBlocksL] at hm
    | some lv =>
      simp only [nodesAt, hcl, Option.map_some, Option.getD_some] at hm
      exact hother lv (List.mem_of_getElem? hcl) b' hm hne
  intro i
  induction i with
  | zero =>
    intro hi
    rw [expandBody_eq, cnt_expandNodes c k b hb _ _ _ (hoth 0), hbody, hP 0 hi]
    simp only [prevOf, if_true, cnt_nil, Nat.mul_zero, Nat.add_zero, Nat.zero_add]
    by_cases e : kb = 0
    · simp [e]
    · have : ¬ kb ≤ 0 := by omega
      have e' : ¬ 0 = kb := fun h => e h.symm
      simp [this, e']
  | succ i ih =>
    intro hi
    have ih' := ih (by omega)
    rw [expandBody_eq, cnt_expandNodes c k b hb _ _ _ (hoth (i + 1)), hbody, hP (i + 1) hi,
      hnext (i + 1) (by omega) hi]
    have hprev : prevOf c (i + 1) = expandBody c i := by simp [prevOf]
    rw [hprev, ih']
    by_cases e1 : kb ≤ i
    · have : ¬ i + 1 = kb := by omega
      have : kb ≤ i + 1 := by omega
      simp [*]
    · by_cases e2 : i + 1 = kb
      · have : kb ≤ i + 1 := by omega
        simp [*]
      · have : ¬ kb ≤ i + 1 := by omega
        simp [*]

end MakoModel.Inherit
