import MakoModel.Inherit.Spec
/-!
Helper lemmas for C06 `block_checks`: the faults found by the `_Identifiers` traversals (`check`) against the
declarative notions `allBlocksL` (all named blocks), `misplacedL` (named blocks under a def or call),
`topDefNames`.
-/
namespace MakoModel.Inherit

/-! ### entries -/

theorem blockNamesOf_append (a b : List Entry) : blockNamesOf (a ++ b) = blockNamesOf a ++ blockNamesOf b := by
  induction a with
  | nil => rfl
  | cons e r ih => cases e <;> simp [blockNamesOf, ih]

theorem anonLines_append (a b : List Entry) : anonLines (a ++ b) = anonLines a ++ anonLines b := by
  induction a with
  | nil => rfl
  | cons e r ih => cases e <;> simp [anonLines, ih]

theorem defNamesOf_append (a b : List Entry) : defNamesOf (a ++ b) = defNamesOf a ++ defNamesOf b := by
  induction a with
  | nil => rfl
  | cons e r ih => cases e <;> simp [defNamesOf, ih]

theorem topRegs_append (a b : List Entry) : topRegs (a ++ b) = topRegs a ++ topRegs b := by
  induction a with
  | nil => rfl
  | cons e r ih => cases e <;> simp [topRegs, ih]

theorem defFaults_append (a b : List Entry) : defFaults (a ++ b) = defFaults a ++ defFaults b := by
  induction a with
  | nil => rfl
  | cons e r ih => cases e <;> simp [defFaults, ih]

theorem blockNamesOf_defBlocks (l : List Name) : blockNamesOf (l.map Entry.defBlock) = [] := by
  induction l with
  | nil => rfl
  | cons a r ih => simpa [blockNamesOf] using ih

theorem anonLines_defBlocks (l : List Name) : anonLines (l.map Entry.defBlock) = [] := by
  induction l with
  | nil => rfl
  | cons a r ih => simpa [anonLines] using ih

theorem defNamesOf_defBlocks (l : List Name) : defNamesOf (l.map Entry.defBlock) = [] := by
  induction l with
  | nil => rfl
  | cons a r ih => simpa [defNamesOf] using ih

theorem topRegs_defBlocks (l : List Name) : topRegs (l.map Entry.defBlock) = [] := by
  induction l with
  | nil => rfl
  | cons a r ih => simpa [topRegs] using ih

theorem defFaults_defBlocks (l : List Name) : defFaults (l.map Entry.defBlock) = l.map Fault.inDef := by
  induction l with
  | nil => rfl
  | cons a r ih => simp [defFaults, ih]

mutual
theorem mainBlocksN_eq (top : Bool) : ∀ n : Node, blockNamesOf (regionN top n) = mainBlocksN n
  | .text _ => by simp [regionN, mainBlocksN, blockNamesOf]
  | .call .. => by simp [regionN, mainBlocksN, blockNamesOf]
  | .attr .. => by simp [regionN, mainBlocksN, blockNamesOf]
  | .args => by simp [regionN, mainBlocksN, blockNamesOf]
  | .incl _ => by simp [regionN, mainBlocksN, blockNamesOf]
  | .defn _ _ _ => by cases top <;> simp [regionN, mainBlocksN, blockNamesOf, blockNamesOf_defBlocks]
  | .callTag _ => by simp [regionN, mainBlocksN, blockNamesOf]
  | .block (some b) _ k => by simp [regionN, mainBlocksN, blockNamesOf, mainBlocksL_eq false k]
  | .block none _ k => by simp [regionN, mainBlocksN, blockNamesOf, mainBlocksL_eq false k]
theorem mainBlocksL_eq (top : Bool) : ∀ l : List Node, blockNamesOf (regionL top l) = mainBlocksL l
  | [] => by simp [regionL, mainBlocksL, blockNamesOf]
  | n :: r => by simp [regionL, mainBlocksL, blockNamesOf_append, mainBlocksN_eq top n, mainBlocksL_eq top r]
end

mutual
theorem anonLinesN_sub (top : Bool) : ∀ n : Node, (anonLines (regionN top n)).Sublist (allAnonLinesN n)
  | .text _ => by simp [regionN, anonLines]
  | .call .. => by simp [regionN, anonLines]
  | .attr .. => by simp [regionN, anonLines]
  | .args => by simp [regionN, anonLines]
  | .incl _ => by simp [regionN, anonLines]
  | .defn _ _ _ => by cases top <;> simp [regionN, anonLines, anonLines_defBlocks]
  | .callTag _ => by simp [regionN, anonLines]
  | .block (some b) _ k => by
    simp only [regionN, anonLines, allAnonLinesN]; exact anonLinesL_sub false k
  | .block none _ k => by
    simp only [regionN, anonLines, allAnonLinesN]; exact (anonLinesL_sub false k).cons_cons _
theorem anonLinesL_sub (top : Bool) : ∀ l : List Node, (anonLines (regionL top l)).Sublist (allAnonLinesL l)
  | [] => by simp [regionL, anonLines]
  | n :: r => by
    simp only [regionL, anonLines_append, allAnonLinesL]
    exact (anonLinesN_sub top n).append (anonLinesL_sub top r)
end

mutual
theorem defNamesN_sub (top : Bool) : ∀ n : Node, (defNamesOf (regionN top n)).Sublist (allDefNamesN n)
  | .text _ => by simp [regionN, defNamesOf]
  | .call .. => by simp [regionN, defNamesOf]
  | .attr .. => by simp [regionN, defNamesOf]
  | .args => by simp [regionN, defNamesOf]
  | .incl _ => by simp [regionN, defNamesOf]
  | .defn _ _ _ => by cases top <;> simp [regionN, defNamesOf, allDefNamesN, defNamesOf_defBlocks]
  | .callTag _ => by simp [regionN, defNamesOf]
  | .block (some b) _ k => by
    simp only [regionN, defNamesOf, allDefNamesN]; exact defNamesL_sub false k
  | .block none _ k => by
    simp only [regionN, defNamesOf, allDefNamesN]; exact defNamesL_sub false k
theorem defNamesL_sub (top : Bool) : ∀ l : List Node, (defNamesOf (regionL top l)).Sublist (allDefNamesL l)
  | [] => by simp [regionL, defNamesOf]
  | n :: r => by
    simp only [regionL, defNamesOf_append, allDefNamesL]
    exact (defNamesN_sub top n).append (defNamesL_sub top r)
end

theorem topDefNames_sub : ∀ l : List Node, (topDefNames l).Sublist (allDefNamesL l)
  | [] => by simp [topDefNames]
  | n :: r => by
    have ih := topDefNames_sub r
    cases n with
    | defn nm _ k =>
      simp only [topDefNames, allDefNamesL, allDefNamesN, List.cons_append]
      exact (ih.trans (List.sublist_append_right _ _)).cons_cons _
    | text _ => simpa [topDefNames, allDefNamesL, allDefNamesN] using ih
    | call _ _ _ _ => simpa [topDefNames, allDefNamesL, allDefNamesN] using ih
    | attr _ _ => simpa [topDefNames, allDefNamesL, allDefNamesN] using ih
    | args => simpa [topDefNames, allDefNamesL, allDefNamesN] using ih
    | incl _ => simpa [topDefNames, allDefNamesL, allDefNamesN] using ih
    | block _ _ k =>
      simp only [topDefNames, allDefNamesL, allDefNamesN]
      exact ih.trans (List.sublist_append_right _ _)
    | callTag k =>
      simp only [topDefNames, allDefNamesL, allDefNamesN]
      exact ih.trans (List.sublist_append_right _ _)

/-! ### anonymous-block lines -/

theorem dupLines_nil : ∀ (l seen : List Nat), (∀ x ∈ l, x ∉ seen) → l.Nodup → dupLines seen l = []
  | [], _, _, _ => rfl
  | a :: r, seen, h1, h2 => by
    have ha : a ∉ seen := h1 a (by simp)
    have hn := List.nodup_cons.mp h2
    simp only [dupLines, List.contains_eq_mem, ha, decide_false, Bool.false_eq_true, if_false, List.nil_append]
    apply dupLines_nil r (a :: seen) _ hn.2
    intro x hx
    simp only [List.mem_cons, not_or]
    exact ⟨fun e => hn.1 (e ▸ hx), h1 x (by simp [hx])⟩

theorem dupLines_region (top : Bool) (l : List Node) (h : (allAnonLinesL l).Nodup) :
    dupLines [] (anonLines (regionL top l)) = [] :=
  dupLines_nil _ [] (by simp) (List.Pairwise.sublist (anonLinesL_sub top l) h)

/-! ### `_check_name_exists` -/

/-- two registrations are compatible: different names, or both are defs -/
def regOk (a b : Name × Bool) : Prop := a.1 = b.1 → a.2 = false ∧ b.2 = false

theorem lookup_mem : ∀ (l : List (Name × Bool)) (n : Name) (w : Bool), l.lookup n = some w → (n, w) ∈ l
  | [], _, _, h => by simp [List.lookup] at h
  | (m, v) :: r, n, w, h => by
    simp only [List.lookup] at h
    by_cases e : n = m
    · subst e; simp at h; subst h; simp
    · have : (n == m) = false := by simp [e]
      simp only [this] at h
      exact List.mem_cons_of_mem _ (lookup_mem r n w h)

theorem mem_lookup : ∀ (l : List (Name × Bool)) (n : Name) (w : Bool), (n, w) ∈ l → ∃ w', l.lookup n = some w'
  | [], _, _, h => by simp at h
  | (m, v) :: r, n, w, h => by
    simp only [List.lookup]
    by_cases e : n = m
    · subst e; simp
    · have : (n == m) = false := by simp [e]
      simp only [this]
      have : (n, w) ∈ r := by
        rcases List.mem_cons.mp h with h | h
        · exact absurd (congrArg Prod.fst h) e
        · exact h
      exact mem_lookup r n w this

/-- whenever a block of some name is registered, the latest registration of that name is a block -/
def seenInv (seen : List (Name × Bool)) : Prop := ∀ n, (n, true) ∈ seen → seen.lookup n = some true

theorem dupFaults_nil_iff : ∀ (regs seen : List (Name × Bool)), seenInv seen →
    (dupFaults seen regs = [] ↔ (∀ a ∈ seen, ∀ b ∈ regs, regOk a b) ∧ regs.Pairwise regOk)
  | [], seen, _ => by simp [dupFaults]
  | (n, isB) :: r, seen, hinv => by
    -- the head test
    have hhead : (match seen.lookup n with
        | some wasB => if (isB || wasB) = true then [Fault.dup n] else []
        | none => []) = [] ↔ ∀ a ∈ seen, regOk a (n, isB) := by
      constructor
      · intro h a ha hn
        obtain ⟨m, w⟩ := a
        simp only at hn
        subst hn
        obtain ⟨w0, hw0⟩ := mem_lookup seen m w ha
        simp only [hw0] at h
        have hb : (isB || w0) = false := by
          cases hh : (isB || w0) with
          | true => simp [hh] at h
          | false => rfl
        have h1 : isB = false := by cases isB <;> simp_all
        have h2 : w0 = false := by cases w0 <;> simp_all
        refine ⟨?_, h1⟩
        cases w with
        | false => rfl
        | true =>
          have := hinv m ha
          rw [hw0] at this
          simp [h2] at this
      · intro h
        cases hl : seen.lookup n with
        | none => rfl
        | some w0 =>
          have := h (n, w0) (lookup_mem seen n w0 hl) rfl
          simp only at this
          simp [this.1, this.2]
    simp only [dupFaults, List.append_eq_nil_iff]
    constructor
    · intro ⟨h1, h2⟩
      have hh := hhead.mp h1
      have hinv' : seenInv ((n, isB) :: seen) := by
        intro m hm
        simp only [List.lookup]
        by_cases e : m = n
        · subst e
          simp only [beq_self_eq_true]
          rcases List.mem_cons.mp hm with hm | hm
          · simp at hm; simp [hm]
          · have := hh (m, true) hm rfl
            simp at this
        · have : (m == n) = false := by simp [e]
          simp only [this]
          rcases List.mem_cons.mp hm with hm | hm
          · exact absurd (congrArg Prod.fst hm) e
          · exact hinv m hm
      have ih := (dupFaults_nil_iff r ((n, isB) :: seen) hinv').mp h2
      refine ⟨?_, ?_⟩
      · intro a ha b hb
        rcases List.mem_cons.mp hb with hb | hb
        · subst hb; exact hh a ha
        · exact ih.1 a (List.mem_cons_of_mem _ ha) b hb
      · exact List.pairwise_cons.mpr ⟨fun b hb => ih.1 (n, isB) (by simp) b hb, ih.2⟩
    · intro ⟨h1, h2⟩
      have hh : ∀ a ∈ seen, regOk a (n, isB) := fun a ha => h1 a ha (n, isB) (by simp)
      have hinv' : seenInv ((n, isB) :: seen) := by
        intro m hm
        simp only [List.lookup]
        by_cases e : m = n
        · subst e
          simp only [beq_self_eq_true]
          rcases List.mem_cons.mp hm with hm | hm
          · simp at hm; simp [hm]
          · have := hh (m, true) hm rfl
            simp at this
        · have : (m == n) = false := by simp [e]
          simp only [this]
          rcases List.mem_cons.mp hm with hm | hm
          · exact absurd (congrArg Prod.fst hm) e
          · exact hinv m hm
      have hp := List.pairwise_cons.mp h2
      refine ⟨hhead.mpr hh, (dupFaults_nil_iff r ((n, isB) :: seen) hinv').mpr ⟨?_, hp.2⟩⟩
      intro a ha b hb
      rcases List.mem_cons.mp ha with ha | ha
      · subst ha; exact hp.1 b hb
      · exact h1 a ha b (List.mem_cons_of_mem _ hb)

def blocksOfRegs : List (Name × Bool) → List Name
  | [] => []
  | (n, true) :: r => n :: blocksOfRegs r
  | (_, false) :: r => blocksOfRegs r

def defsOfRegs : List (Name × Bool) → List Name
  | [] => []
  | (n, false) :: r => n :: defsOfRegs r
  | (_, true) :: r => defsOfRegs r

theorem mem_regs (n : Name) (b : Bool) : ∀ r : List (Name × Bool),
    (n, b) ∈ r ↔ (if b then n ∈ blocksOfRegs r else n ∈ defsOfRegs r)
  | [] => by cases b <;> simp [blocksOfRegs, defsOfRegs]
  | (m, true) :: r => by
    have ih := mem_regs n b r
    cases b <;> simp_all [blocksOfRegs, defsOfRegs]
  | (m, false) :: r => by
    have ih := mem_regs n b r
    cases b <;> simp_all [blocksOfRegs, defsOfRegs]

theorem pairwise_regOk_iff : ∀ regs : List (Name × Bool),
    regs.Pairwise regOk ↔ (blocksOfRegs regs).Nodup ∧ ∀ x ∈ defsOfRegs regs, x ∉ blocksOfRegs regs
  | [] => by simp [blocksOfRegs, defsOfRegs]
  | (n, true) :: r => by
    rw [List.pairwise_cons, pairwise_regOk_iff r]
    simp only [blocksOfRegs, defsOfRegs, List.nodup_cons, List.mem_cons, not_or]
    constructor
    · intro ⟨h1, h2, h3⟩
      have hb : n ∉ blocksOfRegs r := fun hm => by
        have := h1 (n, true) ((mem_regs n true r).mpr (by simpa using hm)) rfl
        simp at this
      have hd : n ∉ defsOfRegs r := fun hm => by
        have := h1 (n, false) ((mem_regs n false r).mpr (by simpa using hm)) rfl
        simp at this
      exact ⟨⟨hb, h2⟩, fun x hx => ⟨fun e => hd (e ▸ hx), h3 x hx⟩⟩
    · intro ⟨⟨hb, h2⟩, h3⟩
      refine ⟨?_, h2, fun x hx => (h3 x hx).2⟩
      intro ⟨m, w⟩ hm e
      simp only at e
      subst e
      cases w with
      | true => exact absurd (by simpa using (mem_regs n true r).mp hm) hb
      | false => exact absurd rfl (h3 n (by simpa using (mem_regs n false r).mp hm)).1
  | (n, false) :: r => by
    rw [List.pairwise_cons, pairwise_regOk_iff r]
    simp only [blocksOfRegs, defsOfRegs, List.mem_cons]
    constructor
    · intro ⟨h1, h2, h3⟩
      refine ⟨h2, ?_⟩
      intro x hx
      rcases hx with hx | hx
      · subst hx
        intro hm
        have := h1 (x, true) ((mem_regs x true r).mpr (by simpa using hm)) rfl
        simp at this
      · exact h3 x hx
    · intro ⟨h2, h3⟩
      refine ⟨?_, h2, fun x hx => h3 x (Or.inr hx)⟩
      intro ⟨m, w⟩ hm e
      simp only at e
      subst e
      cases w with
      | true => exact absurd (by simpa using (mem_regs n true r).mp hm) (h3 n (Or.inl rfl))
      | false => exact ⟨rfl, rfl⟩

theorem blocksOf_topRegs : ∀ es : List Entry, blocksOfRegs (topRegs es) = blockNamesOf es
  | [] => rfl
  | e :: r => by cases e <;> simp [topRegs, blocksOfRegs, blockNamesOf, blocksOf_topRegs r]

theorem defsOf_topRegs_region : ∀ l : List Node, defsOfRegs (topRegs (regionL true l)) = topDefNames l
  | [] => rfl
  | n :: r => by
    have ih := defsOf_topRegs_region r
    have happ : ∀ a b : List (Name × Bool), defsOfRegs (a ++ b) = defsOfRegs a ++ defsOfRegs b := by
      intro a b
      induction a with
      | nil => rfl
      | cons x a iha => obtain ⟨m, w⟩ := x; cases w <;> simp [defsOfRegs, iha]
    have hin : ∀ k : List Node, defsOfRegs (topRegs (regionL false k)) = [] := by
      intro k
      have : ∀ es : List Entry, (∀ e ∈ es, ∀ nm, e ≠ Entry.rdef nm) → defsOfRegs (topRegs es) = [] := by
        intro es
        induction es with
        | nil => intro _; rfl
        | cons e es ihe =>
          intro h
          have h' := ihe (fun e' he' => h e' (List.mem_cons_of_mem _ he'))
          cases e with
          | rdef nm => exact absurd rfl (h (Entry.rdef nm) (by simp) nm)
          | nblock b => simpa [topRegs, defsOfRegs] using h'
          | anon l => simpa [topRegs, defsOfRegs] using h'
          | ndef nm => simpa [topRegs, defsOfRegs] using h'
          | defBlock b => simpa [topRegs, defsOfRegs] using h'
          | call => simpa [topRegs, defsOfRegs] using h'
      apply this
      exact noRdef k
    rw [regionL, topRegs_append, happ, ih]
    cases n with
    | defn nm _ k => simp [regionN, topRegs, defsOfRegs, topDefNames, topRegs_defBlocks]
    | text _ => simp [regionN, topRegs, defsOfRegs, topDefNames]
    | call _ _ _ _ => simp [regionN, topRegs, defsOfRegs, topDefNames]
    | attr _ _ => simp [regionN, topRegs, defsOfRegs, topDefNames]
    | args => simp [regionN, topRegs, defsOfRegs, topDefNames]
    | incl _ => simp [regionN, topRegs, defsOfRegs, topDefNames]
    | callTag k => simp [regionN, topRegs, defsOfRegs, topDefNames]
    | block b ln k =>
      cases b with
      | none => simp [regionN, topRegs, topDefNames, hin k]
      | some b => simp [regionN, topRegs, defsOfRegs, topDefNames, hin k]
where
  noRdef : ∀ k : List Node, ∀ e ∈ regionL false k, ∀ nm, e ≠ Entry.rdef nm := by
    intro k
    exact noRdefL k
  noRdefL : ∀ k : List Node, ∀ e ∈ regionL false k, ∀ nm, e ≠ Entry.rdef nm
    | [] => by simp [regionL]
    | n :: r => by
      intro e he nm
      simp only [regionL, List.mem_append] at he
      rcases he with he | he
      · exact noRdefN n e he nm
      · exact noRdefL r e he nm
  noRdefN : ∀ n : Node, ∀ e ∈ regionN false n, ∀ nm, e ≠ Entry.rdef nm
    | .text _ => by simp [regionN]
    | .call .. => by simp [regionN]
    | .attr .. => by simp [regionN]
    | .args => by simp [regionN]
    | .incl _ => by simp [regionN]
    | .defn _ _ _ => by
      intro e he nm
      simp only [regionN, List.mem_cons, List.mem_map, Bool.false_eq_true, if_false] at he
      rcases he with he | ⟨b, _, he⟩
      · subst he; simp
      · subst he; simp
    | .callTag _ => by simp [regionN]
    | .block (some b) _ k => by
      intro e he nm
      simp only [regionN, List.mem_cons] at he
      rcases he with he | he
      · subst he; simp
      · exact noRdefL k e he nm
    | .block none _ k => by
      intro e he nm
      simp only [regionN, List.mem_cons] at he
      rcases he with he | he
      · subst he; simp
      · exact noRdefL k e he nm

/-- the main traversal's duplicate test, declaratively -/
theorem scanMain_names (l : List Node) :
    dupFaults [] (topRegs (regionL true l)) = [] ↔
      (mainBlocksL l).Nodup ∧ ∀ x ∈ topDefNames l, x ∉ mainBlocksL l := by
  rw [dupFaults_nil_iff _ [] (by intro n h; simp at h)]
  simp only [List.not_mem_nil, false_imp_iff, implies_true, true_and]
  rw [pairwise_regOk_iff, blocksOf_topRegs, mainBlocksL_eq, defsOf_topRegs_region]

/-! ### named blocks: all = reachable + misplaced -/

mutual
theorem allBlocksN_nil_iff : ∀ n : Node, allBlocksN n = [] ↔ mainBlocksN n = [] ∧ misplacedN n = []
  | .text _ => by simp [allBlocksN, mainBlocksN, misplacedN]
  | .call .. => by simp [allBlocksN, mainBlocksN, misplacedN]
  | .attr .. => by simp [allBlocksN, mainBlocksN, misplacedN]
  | .args => by simp [allBlocksN, mainBlocksN, misplacedN]
  | .incl _ => by simp [allBlocksN, mainBlocksN, misplacedN]
  | .defn _ _ _ => by simp [allBlocksN, mainBlocksN, misplacedN]
  | .callTag _ => by simp [allBlocksN, mainBlocksN, misplacedN]
  | .block (some b) _ k => by simp [allBlocksN, mainBlocksN, misplacedN]
  | .block none _ k => by simp [allBlocksN, mainBlocksN, misplacedN, allBlocksL_nil_iff k]
theorem allBlocksL_nil_iff : ∀ l : List Node, allBlocksL l = [] ↔ mainBlocksL l = [] ∧ misplacedL l = []
  | [] => by simp [allBlocksL, mainBlocksL, misplacedL]
  | n :: r => by
    simp only [allBlocksL, mainBlocksL, misplacedL, List.append_eq_nil_iff, allBlocksN_nil_iff n,
      allBlocksL_nil_iff r]
    constructor
    · intro ⟨⟨a, b⟩, c, d⟩; exact ⟨⟨a, c⟩, b, d⟩
    · intro ⟨⟨a, c⟩, b, d⟩; exact ⟨⟨a, b⟩, c, d⟩
end

mutual
theorem allBlocksN_eq_main : ∀ n : Node, misplacedN n = [] → allBlocksN n = mainBlocksN n
  | .text _ => by simp [allBlocksN, mainBlocksN]
  | .call .. => by simp [allBlocksN, mainBlocksN]
  | .attr .. => by simp [allBlocksN, mainBlocksN]
  | .args => by simp [allBlocksN, mainBlocksN]
  | .incl _ => by simp [allBlocksN, mainBlocksN]
  | .defn _ _ _ => by simp [allBlocksN, mainBlocksN, misplacedN]
  | .callTag _ => by simp [allBlocksN, mainBlocksN, misplacedN]
  | .block (some b) _ k => by
    intro h; simp only [misplacedN] at h
    simp [allBlocksN, mainBlocksN, allBlocksL_eq_main k h]
  | .block none _ k => by
    intro h; simp only [misplacedN] at h
    simp [allBlocksN, mainBlocksN, allBlocksL_eq_main k h]
theorem allBlocksL_eq_main : ∀ l : List Node, misplacedL l = [] → allBlocksL l = mainBlocksL l
  | [] => by simp [allBlocksL, mainBlocksL]
  | n :: r => by
    intro h
    simp only [misplacedL, List.append_eq_nil_iff] at h
    simp [allBlocksL, mainBlocksL, allBlocksN_eq_main n h.1, allBlocksL_eq_main r h.2]
end

/-! ### the nested traversals -/

mutual
/-- the faults raised for what lies *inside* a node - by `_reject_named_blocks` in the traversal that meets it and
by the traversals of the callables generated for it - are none iff it holds no misplaced named block -/
theorem deepN_nil_iff (rk : Root) (top : Bool) (rest : List Node) : ∀ n : Node, (allAnonLinesN n).Nodup →
    (defFaults (regionN top n) = [] ∧ deepN rk rest n = [] ↔ misplacedN n = [])
  | .text _ => by simp [deepN, misplacedN, regionN, defFaults]
  | .call .. => by simp [deepN, misplacedN, regionN, defFaults]
  | .attr .. => by simp [deepN, misplacedN, regionN, defFaults]
  | .args => by simp [deepN, misplacedN, regionN, defFaults]
  | .incl _ => by simp [deepN, misplacedN, regionN, defFaults]
  | .defn nm ps k => by
    intro ha
    simp only [allAnonLinesN] at ha
    have hreg : defFaults (regionN top (.defn nm ps k)) = (allBlocksL k).map Fault.inDef := by
      cases top <;> simp [regionN, defFaults, defFaults_defBlocks]
    rw [hreg]
    simp only [misplacedN, List.map_eq_nil_iff]
    constructor
    · intro h; exact h.1
    · intro h
      refine ⟨h, ?_⟩
      have hk := (allBlocksL_nil_iff k).mp h
      have ih := (deepL_nil_iff .defn false k ha).mpr hk.2
      simp only [deepN]
      split
      · simp [scan, mainBlocksL_eq, hk.1, ih.1, ih.2, dupLines_region false k ha]
      · rfl
  | .callTag k => by
    intro ha
    simp only [allAnonLinesN] at ha
    have ih := deepL_nil_iff .call false k ha
    simp only [regionN, defFaults, deepN, scan, misplacedN, true_and, List.append_eq_nil_iff,
      List.map_eq_nil_iff, mainBlocksL_eq, dupLines_region false k ha, and_true, allBlocksL_nil_iff k]
    constructor
    · intro ⟨⟨h1, h2⟩, h3⟩; exact ⟨h1, ih.mp ⟨h2, h3⟩⟩
    · intro ⟨h1, h2⟩; have := ih.mpr h2; exact ⟨⟨h1, this.1⟩, this.2⟩
  | .block (some b) ln k => by
    intro ha
    simp only [allAnonLinesN] at ha
    have ih := deepL_nil_iff .block false k ha
    simp only [regionN, defFaults, deepN, scan, misplacedN, List.nil_append, List.append_eq_nil_iff,
      dupLines_region false k ha, and_true]
    constructor
    · intro ⟨h1, _, h3⟩; exact ih.mp ⟨h1, h3⟩
    · intro h; have := ih.mpr h; exact ⟨this.1, this.1, this.2⟩
  | .block none ln k => by
    intro ha
    simp only [allAnonLinesN, List.nodup_cons] at ha
    have ih := deepL_nil_iff .block false k ha.2
    simp only [regionN, defFaults, deepN, scan, misplacedN, List.nil_append, List.append_eq_nil_iff,
      dupLines_region false k ha.2, and_true]
    constructor
    · intro ⟨h1, _, h3⟩; exact ih.mp ⟨h1, h3⟩
    · intro h; have := ih.mpr h; exact ⟨this.1, this.1, this.2⟩
theorem deepL_nil_iff (rk : Root) (top : Bool) : ∀ l : List Node, (allAnonLinesL l).Nodup →
    (defFaults (regionL top l) = [] ∧ deepL rk l = [] ↔ misplacedL l = [])
  | [] => by simp [deepL, misplacedL, regionL, defFaults]
  | n :: r => by
    intro ha
    simp only [allAnonLinesL] at ha
    have han := (List.nodup_append.mp ha).1
    have har := (List.nodup_append.mp ha).2.1
    have h1 := deepN_nil_iff rk top r n han
    have h2 := deepL_nil_iff rk top r har
    simp only [regionL, defFaults_append, deepL, misplacedL, List.append_eq_nil_iff, ← h1, ← h2]
    constructor
    · intro ⟨⟨a, b⟩, c, d⟩; exact ⟨⟨a, c⟩, b, d⟩
    · intro ⟨⟨a, c⟩, b, d⟩; exact ⟨⟨a, b⟩, c, d⟩
end

/-- `check` finds no fault iff block names are unique, no named block sits under a def or call, and no
template-level def shares its name with a block - provided no two anonymous blocks share a source line -/
theorem check_nil_iff (l : List Node) (ha : (allAnonLinesL l).Nodup) :
    check l = [] ↔
      (allBlocksL l).Nodup ∧ misplacedL l = [] ∧ ∀ x ∈ topDefNames l, x ∉ allBlocksL l := by
  have hdeep := deepL_nil_iff .main true l ha
  simp only [check, scan, List.append_eq_nil_iff, dupLines_region true l ha, and_true, scanMain_names]
  constructor
  · intro ⟨⟨⟨h1, h2⟩, hdf⟩, hdl⟩
    have h3 := hdeep.mp ⟨hdf, hdl⟩
    rw [allBlocksL_eq_main l h3]
    exact ⟨h1, h3, h2⟩
  · intro ⟨h1, h3, h2⟩
    rw [allBlocksL_eq_main l h3] at h1 h2
    have := hdeep.mpr h3
    exact ⟨⟨⟨h1, h2⟩, this.1⟩, this.2⟩

end MakoModel.Inherit
