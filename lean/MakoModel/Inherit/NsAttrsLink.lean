import MakoModel.Generated.NsAttrs
import MakoModel.Namespace.Model
/-!
Link between the two tables of "names that ordinary attribute access finds on a Namespace object":
`Generated.NsAttrs.nsAttrs` (regenerated from mako/runtime.py by tools/regen_nsattrs.py, used by the C06 model) and
the hand-written `Namespace.reservedAttrs` of the C07 model.  They list the same names in a different order; the
obligations below are decided by the kernel on every build, so an attribute added to or removed from mako's
`Namespace`/`TemplateNamespace` classes (which changes the regenerated table) breaks this file until the
hand-written table follows.
-/
namespace MakoModel.Inherit

/-- every hand-written name is in the regenerated table and conversely (same length, no repetition) -/
theorem reservedAttrs_link :
    Namespace.reservedAttrs.all (fun x => Generated.NsAttrs.nsAttrs.contains x) = true ∧
    Generated.NsAttrs.nsAttrs.all (fun x => Namespace.reservedAttrs.contains x) = true ∧
    Namespace.reservedAttrs.length = Generated.NsAttrs.nsAttrs.length ∧
    Generated.NsAttrs.nsAttrs.Nodup := by decide

/-- the two tables have the same members -/
theorem mem_reservedAttrs_iff (x : List Char) :
    x ∈ Namespace.reservedAttrs ↔ x ∈ Generated.NsAttrs.nsAttrs := by
  have h := reservedAttrs_link
  constructor
  · intro hx
    have := List.all_eq_true.mp h.1 x hx
    simpa using this
  · intro hx
    have := List.all_eq_true.mp h.2.1 x hx
    simpa using this

end MakoModel.Inherit
