import MakoModel.Basic.Wire
import MakoModel.Inherit.Model
/-!
Driver handler for the inheritance model: `inh <op> …`

Token grammar (one token per field):
```
level  := "L" inh sig attrs bufnames buflines "[" node* "]"   (buffered named blocks `name/name…`, buffered anonymous-block lines `l,l…`, `-` = none)
inh    := "N" | "S" | "D" | "Z"                 (none, static, dynamic, dynamic evaluating to None)
sig    := "-" | name ":" (val | "~") { "/" … }   (`<%page args>`; `~` = no default)
attrs  := "-" | name ":" val { "/" … }
node   := "i" k | "t" k | "c" ref name vals kws | "a" ref name | "g"
        | "d" name sig "[" node* "]" | "b" (name | "~") line "[" node* "]" | "x" "[" node* "]"
ref    := "s" | "n" | "p" | "l"
name   := comma-separated code points (Wire.decStr);  vals := "-" | v { "," v };  kws := attrs
```
Ops:
* `render fuel data level*`  → `ok out*` | `exc kind`      (out := `t`k | `v`v | `g`bound`|`extra)
* `renderlib depth fuel data ("C" level*)*` → as `render`, for entry 0 of a library of chains; `"i" k` includes entry k
* `check "[" node* "]"`      → `ok` | sorted fault tokens (`dup:`name, `anon:`line, `indef:`name, `incall:`name)
* `build level*`             → `ok callableTmpl callableCtx ns* ; ctx*` | `exc kind`
* `attrs ops level*`         → one answer per op of `ops` (`g:`j`:`name = getattr with memo threaded through,
                               `p:`j`:`name = getattr without memo, `a:`j`:`name = `.attr`), `-` separated by spaces
-/
namespace MakoModel.Inherit.Drv
open MakoModel.Wire MakoModel.Inherit

def decRef : String → Option Ref
  | "s" => some .self
  | "n" => some .next
  | "p" => some .parent
  | "l" => some .loc
  | _ => none

def decVals (f : String) : Option (List Val) :=
  if f == "-" then some [] else (f.splitOn ",").mapM fun t => t.toNat?

def decKws (f : String) : Option (List (Name × Val)) :=
  if f == "-" then some [] else
    (f.splitOn "/").mapM fun t =>
      match t.splitOn ":" with
      | [n, v] => do let n ← decStr n; let v ← v.toNat?; pure (n, v)
      | _ => none

def decSig (f : String) : Option (List (Name × Option Val)) :=
  if f == "-" then some [] else
    (f.splitOn "/").mapM fun t =>
      match t.splitOn ":" with
      | [n, v] => do
        let n ← decStr n
        if v == "~" then pure (n, none) else do let v ← v.toNat?; pure (n, some v)
      | _ => none

def decInh : String → Option Inherit
  | "N" => some .none
  | "S" => some .static
  | "D" => some .dynamic
  | "Z" => some .dynamicNone
  | _ => none

/-- the nodes after an opening `[` up to the matching `]` -/
def parseNodes : Nat → List String → Option (List Node × List String)
  | 0, _ => none
  | _ + 1, [] => none
  | f + 1, tok :: rest =>
    if tok == "]" then some ([], rest)
    else if tok == "t" then
      match rest with
      | k :: rest => do
        let k ← k.toNat?
        let (ns, r) ← parseNodes f rest
        pure (.text k :: ns, r)
      | _ => none
    else if tok == "i" then
      match rest with
      | k :: rest => do
        let k ← k.toNat?
        let (ns, r) ← parseNodes f rest
        pure (.incl k :: ns, r)
      | _ => none
    else if tok == "g" then do
      let (ns, r) ← parseNodes f rest
      pure (.args :: ns, r)
    else if tok == "c" then
      match rest with
      | r0 :: x :: pos :: kw :: rest => do
        let r0 ← decRef r0; let x ← decStr x; let pos ← decVals pos; let kw ← decKws kw
        let (ns, r) ← parseNodes f rest
        pure (.call r0 x pos kw :: ns, r)
      | _ => none
    else if tok == "a" then
      match rest with
      | r0 :: x :: rest => do
        let r0 ← decRef r0; let x ← decStr x
        let (ns, r) ← parseNodes f rest
        pure (.attr r0 x :: ns, r)
      | _ => none
    else if tok == "d" then
      match rest with
      | nm :: sig :: "[" :: rest => do
        let nm ← decStr nm
        let sig ← decSig sig
        let (kids, r) ← parseNodes f rest
        let (ns, r') ← parseNodes f r
        pure (.defn nm sig kids :: ns, r')
      | _ => none
    else if tok == "b" then
      match rest with
      | nm :: ln :: "[" :: rest => do
        let nm ← if nm == "~" then pure none else (decStr nm).map some
        let ln ← ln.toNat?
        let (kids, r) ← parseNodes f rest
        let (ns, r') ← parseNodes f r
        pure (.block nm ln kids :: ns, r')
      | _ => none
    else if tok == "x" then
      match rest with
      | "[" :: rest => do
        let (kids, r) ← parseNodes f rest
        let (ns, r') ← parseNodes f r
        pure (.callTag kids :: ns, r')
      | _ => none
    else none

def parseLevels : Nat → List String → Option (List Level)
  | 0, _ => none
  | _ + 1, [] => some []
  | f + 1, "L" :: inh :: sig :: attrs :: bufs :: bufl :: "[" :: rest => do
    let inh ← decInh inh; let sig ← decSig sig; let attrs ← decKws attrs
    let bufs ← if bufs == "-" then pure [] else (bufs.splitOn "/").mapM decStr
    let bufl ← decVals bufl
    let (nodes, r) ← parseNodes rest.length rest
    let ls ← parseLevels f r
    pure ({ nodes := nodes, attrs := attrs, inherit := inh, sig := sig, buffered := bufs, bufferedAnon := bufl } :: ls)
  | _ + 1, _ => none

def encKws (l : List (Name × Val)) : String :=
  if l.isEmpty then "-" else "/".intercalate (l.map fun p => encStr p.1 ++ ":" ++ toString p.2)

def encOut : Out → String
  | .text k => "t" ++ toString k
  | .val v => "v" ++ toString v
  | .args b e => "g" ++ encKws b ++ "|" ++ encKws e

def encExc : Exc → String
  | .compile => "compile"
  | .lookup => "lookup"
  | .attributeError => "attribute"
  | .typeError => "type"
  | .recursion => "recursion"
  | .unsupported => "unsupported"
  | .internal => "internal"

def encLookup : Lookup → String
  | .member t c => "m" ++ toString t ++ "." ++ toString c
  | .builtin => "b"
  | .missing => "x"

def encFault : Fault → String
  | .dup n => "dup:" ++ encStr n
  | .dupAnon l => "anon:" ++ toString l
  | .inDef n => "indef:" ++ encStr n
  | .inCall n => "incall:" ++ encStr n

def insertSorted (s : String) : List String → List String
  | [] => [s]
  | t :: r => if s == t then t :: r else if s < t then s :: t :: r else t :: insertSorted s r

def encOptNat : Option Nat → String
  | none => "~"
  | some n => toString n

def encNS (n : NS) : String := s!"{n.tmpl},{n.ctx},{encOptNat n.inherits}"
def encCtx (c : Ctx) : String := s!"{encOptNat c.self},{encOptNat c.loc},{encOptNat c.next},{encOptNat c.parent}"

/-- `g:j:name`, `p:j:name`, `a:j:name` -/
def runOps (c : List Level) : Heap → List String → Option (List String)
  | _, [] => some []
  | h, op :: rest =>
    match op.splitOn ":" with
    | [k, j, x] => do
      let j ← j.toNat?; let x ← decStr x
      if k == "g" then
        let r := getattrMemo c h j x
        let tl ← runOps c r.2 rest
        pure (encLookup r.1 :: tl)
      else if k == "p" then
        let tl ← runOps c h rest
        pure (encLookup (getattr c h j x) :: tl)
      else if k == "a" then
        let tl ← runOps c h rest
        pure ((match nsattrF c h.nss h.nss.length j x with | some v => "v" ++ toString v | none => "x") :: tl)
      else none
    | _ => none

/-- the runs of fields between occurrences of the token `t` -/
def splitOnTok (t : String) : List String → List (List String)
  | [] => [[]]
  | x :: r =>
    match splitOnTok t r with
    | [] => [[]]
    | g :: gs => if x == t then [] :: g :: gs else (x :: g) :: gs

def handle : Handler
  | "render" :: fuel :: data :: rest => do
    let fuel ← fuel.toNat?; let data ← decKws data
    let c ← parseLevels (rest.length + 1) rest
    match render c fuel data with
    | .ok out => pure (" ".intercalate ("ok" :: out.map encOut))
    | .error e => pure ("exc " ++ encExc e)
  | "renderlib" :: depth :: fuel :: data :: rest => do
    let depth ← depth.toNat?; let fuel ← fuel.toNat?; let data ← decKws data
    -- the chains of the library, each introduced by the token "C"
    let groups := (splitOnTok "C" rest).filter (fun g => !g.isEmpty)
    let lib ← groups.mapM (fun g => parseLevels (g.length + 1) g)
    match renderTop lib depth fuel data with
    | .ok out => pure (" ".intercalate ("ok" :: out.map encOut))
    | .error e => pure ("exc " ++ encExc e)
  | "check" :: "[" :: rest => do
    let (nodes, r) ← parseNodes rest.length rest
    if !r.isEmpty then none
    else
      let fs := (check nodes).foldl (fun acc f => insertSorted (encFault f) acc) []
      pure (if fs.isEmpty then "ok" else " ".intercalate fs)
  | "build" :: rest => do
    let c ← parseLevels (rest.length + 1) rest
    match populateSelf c with
    | .ok (h, (t, cx)) =>
      pure (" ".intercalate (["ok", toString t, toString cx] ++ h.nss.map encNS ++ [";"] ++ h.ctxs.map encCtx))
    | .error e => pure ("exc " ++ encExc e)
  | "attrs" :: ops :: rest => do
    let c ← parseLevels (rest.length + 1) rest
    match populateSelf c with
    | .ok (h, _) =>
      let rs ← runOps c h (if ops == "-" then [] else ops.splitOn "/")
      pure (" ".intercalate ("ok" :: rs))
    | .error e => pure ("exc " ++ encExc e)
  | _ => none

end MakoModel.Inherit.Drv
