import MakoModel.Inherit.Spec
/-!
Helper lemmas for C06 about `exec`: two dispatches that agree on the member names a chain mentions give the same
execution (used to pass from the code's dispatch to the rules of the property text).
-/
namespace MakoModel.Inherit

theorem namesL_append (a b : List Node) : namesL (a ++ b) = namesL a ++ namesL b := by
  induction a with
  | nil => rfl
  | cons n r ih => simp [namesL, ih]

mutual
theorem findBlockN_names (x : Name) : ∀ (n : Node) (k : List Node), findBlockN x n = some k → namesL k ⊆ namesN n
  | .text _, k, h => by simp [findBlockN] at h
  | .call .., k, h => by simp [findBlockN] at h
  | .attr .., k, h => by simp [findBlockN] at h
  | .args, k, h => by simp [findBlockN] at h
  | .incl _, k, h => by simp [findBlockN] at h
  | .defn _ _ _, k, h => by simp [findBlockN] at h
  | .callTag _, k, h => by simp [findBlockN] at h
  | .block nm _ kids, k, h => by
    simp only [findBlockN] at h
    by_cases e : nm = some x
    · simp only [e, if_true, Option.some.injEq] at h
      subst h; subst e
      simp [namesN]
    · simp only [e, if_false] at h
      have := findBlockL_names x kids k h
      cases nm with
      | none => simpa [namesN] using this
      | some b => exact fun a ha => by simp [namesN, this ha]
theorem findBlockL_names (x : Name) : ∀ (l : List Node) (k : List Node), findBlockL x l = some k → namesL k ⊆ namesL l
  | [], k, h => by simp [findBlockL] at h
  | n :: r, k, h => by
    simp only [findBlockL] at h
    cases hn : findBlockN x n with
    | some k' =>
      simp only [hn, Option.some.injEq] at h
      subst h
      have := findBlockN_names x n k' hn
      exact fun a ha => by simp [namesL, this ha]
    | none =>
      simp only [hn] at h
      have := findBlockL_names x r k h
      exact fun a ha => by simp [namesL, this ha]
end

theorem findTopDef_names (x : Name) : ∀ (l : List Node) (ps : List (Name × Option Val)) (k : List Node),
    findTopDef x l = some (ps, k) → namesL k ⊆ namesL l
  | [], ps, k, h => by simp [findTopDef] at h
  | n :: r, ps, k, h => by
    have ih := findTopDef_names x r ps k
    cases n with
    | defn nm ps' kids =>
      simp only [findTopDef] at h
      cases hr : findTopDef x r with
      | some k' =>
        simp only [hr, Option.some.injEq] at h
        subst h
        exact fun a ha => by simp [namesL, ih hr ha]
      | none =>
        simp only [hr] at h
        by_cases e : nm = x
        · simp only [e, if_true, Option.some.injEq, Prod.mk.injEq] at h
          obtain ⟨_, h2⟩ := h
          subst h2
          exact fun a ha => by simp [namesL, namesN, ha]
        · simp [e] at h
    | text _ => simp only [findTopDef] at h; exact fun a ha => by simp [namesL, ih h ha]
    | call _ _ _ _ => simp only [findTopDef] at h; exact fun a ha => by simp [namesL, ih h ha]
    | attr _ _ => simp only [findTopDef] at h; exact fun a ha => by simp [namesL, ih h ha]
    | args => simp only [findTopDef] at h; exact fun a ha => by simp [namesL, ih h ha]
    | incl _ => simp only [findTopDef] at h; exact fun a ha => by simp [namesL, ih h ha]
    | block _ _ _ => simp only [findTopDef] at h; exact fun a ha => by simp [namesL, ih h ha]
    | callTag _ => simp only [findTopDef] at h; exact fun a ha => by simp [namesL, ih h ha]

theorem member_names (l : Level) (x : Name) (kind : MKind) (ps : List (Name × Option Val)) (kids : List Node)
    (h : l.member x = some (kind, ps, kids)) : namesL kids ⊆ namesL l.nodes := by
  unfold Level.member at h
  split at h
  · simp only [Option.some.injEq, Prod.mk.injEq] at h; rw [← h.2.2]; exact fun _ h => h
  · split at h
    · rename_i ps' k hk
      simp only [Option.some.injEq, Prod.mk.injEq] at h; rw [← h.2.2]; exact findTopDef_names x _ _ _ hk
    · split at h
      · rename_i k hk
        simp only [Option.some.injEq, Prod.mk.injEq] at h; rw [← h.2.2]; exact findBlockL_names x _ _ hk
      · simp at h

theorem usedNames_level (c : List Level) (t : Nat) (l : Level) (h : c[t]? = some l) :
    namesL l.nodes ⊆ usedNames c := by
  intro a ha
  simp only [usedNames, List.mem_flatMap]
  exact ⟨l, List.mem_of_getElem? h, ha⟩

theorem invoke_congr (c : List Level) (run1 run2 : Env → List Node → Res)
    (h : ∀ env kids, namesL kids ⊆ usedNames c → run1 env kids = run2 env kids)
    (lk : Lookup) (x : Name) (pos : List Val) (kw : List (Name × Val)) :
    invoke c run1 lk x pos kw = invoke c run2 lk x pos kw := by
  unfold invoke
  cases lk with
  | missing => rfl
  | builtin => rfl
  | member t cx =>
    simp only
    cases hl : c[t]? with
    | none => simp
    | some l =>
      cases hm : l.member x with
      | none => simp [hm]
      | some m =>
        obtain ⟨kind, ps, kids⟩ := m
        simp only [Option.bind_some, hm, finishCall_eq]
        split
        · rfl
        · apply h
          exact fun a ha => usedNames_level c t l hl (member_names l x kind ps kids hm ha)

/-- dispatches that agree on the names the chain mentions execute every part of the chain alike -/
theorem exec_congr (c : List Level) (D1 D2 : Dispatch) (href : D1.ref = D2.ref) (hattr : D1.attr = D2.attr)
    (hinc : D1.inc = D2.inc)
    (hget : ∀ ns x, x ∈ usedNames c → D1.getattr ns x = D2.getattr ns x) :
    ∀ f env nodes, namesL nodes ⊆ usedNames c → exec c D1 f env nodes = exec c D2 f env nodes := by
  intro f
  induction f with
  | zero => intro env nodes _; rfl
  | succ f ih =>
    intro env nodes hsub
    cases nodes with
    | nil => rfl
    | cons n rest =>
      have hn : namesN n ⊆ usedNames c := fun a ha => hsub (by simp [namesL, ha])
      have hr : namesL rest ⊆ usedNames c := fun a ha => hsub (by simp [namesL, ha])
      rw [exec_cons, exec_cons, ih env rest hr]
      congr 1
      have hinv := invoke_congr c (exec c D1 f) (exec c D2 f) (fun env kids hk => ih env kids hk)
      cases n with
      | text k => rfl
      | args => rfl
      | incl _ => simp only [step, hinc]
      | defn _ _ _ => rfl
      | callTag kids =>
        simp only [step]
        exact ih env kids (fun a ha => hn (by simpa [namesN] using ha))
      | attr r x => simp only [step, href, hattr]
      | call r x pos kw =>
        have hx : x ∈ usedNames c := hn (by simp [namesN])
        simp only [step, href]
        cases D2.ref env.ctx r with
        | none => rfl
        | some ns => simp only [hget ns x hx, hinv]
      | block nm ln kids =>
        cases nm with
        | none =>
          simp only [step, finishCall_eq]
          exact ih env kids (fun a ha => hn (by simpa [namesN] using ha))
        | some b =>
          have hb : b ∈ usedNames c := hn (by simp [namesN])
          simp only [step, href]
          have hg : ∀ ns, D1.getattr ns b = D2.getattr ns b := fun ns => hget ns b hb
          simp only [hg, hinv]

end MakoModel.Inherit
