import MakoModel.Inherit.Spec
/-!
Helper lemmas for C06: the inherit phase on a well-formed chain produces `builtHeap`, and name resolution on
that heap is `specDispatch`.
-/
namespace MakoModel.Inherit

theorem range_map_get {α} (f : Nat → α) (n i : Nat) :
    ((List.range n).map f)[i]? = if i < n then some (f i) else none := by
  by_cases h : i < n
  · simp [h]
  · simp [h]

theorem builtHeap_nss_length (n : Nat) : (builtHeap n).nss.length = n := by simp [builtHeap]
theorem builtHeap_ctxs_length (n : Nat) : (builtHeap n).ctxs.length = n := by simp [builtHeap]

theorem builtHeap_nss_get (n i : Nat) :
    (builtHeap n).nss[i]? = if i < n then some (builtNS n i) else none := by
  simp only [builtHeap, range_map_get]

theorem builtHeap_ctxs_get (n i : Nat) :
    (builtHeap n).ctxs[i]? = if i < n then some (builtCtx n i) else none := by
  simp only [builtHeap, range_map_get]

theorem walkEnd_built (n : Nat) : ∀ f i, i < n → n - 1 - i ≤ f → walkEnd (builtHeap n).nss f i = n - 1 := by
  intro f
  induction f with
  | zero => intro i hi hf; simp [walkEnd]; omega
  | succ f ih =>
    intro i hi hf
    simp only [walkEnd, builtHeap_nss_get, hi, if_true]
    by_cases h : i + 1 < n
    · simp only [builtNS, h, if_true]; exact ih (i + 1) h (by omega)
    · simp only [builtNS, h, if_false]; omega

theorem snoc_ext {α} (f g : Nat → α) (k : Nat) (a : α) (hk : 0 < k)
    (h1 : ∀ i, i < k - 1 → f i = g i) (h2 : a = g (k - 1)) (b : α) (h3 : b = g k) :
    ((List.range k).map f).set (k - 1) a ++ [b] = (List.range (k + 1)).map g := by
  apply List.ext_getElem?
  intro i
  rw [range_map_get, List.getElem?_append]
  simp only [List.length_set, List.length_map, List.length_range]
  by_cases hi : i < k
  · simp only [hi, if_true, show i < k + 1 by omega]
    rw [List.getElem?_set]
    by_cases he : k - 1 = i
    · subst he; simp [h2]; omega
    · simp only [he, if_false, range_map_get, hi, if_true]
      rw [h1 i (by omega)]
  · simp only [hi, if_false]
    by_cases he : i = k
    · subst he; simp [h3]
    · have : ¬ i < k + 1 := by omega
      simp only [this, if_false]
      cases hh : i - k with
      | zero => omega
      | succ m => simp

/-- one `_inherit_from` step turns the graph of `k` templates into the graph of `k+1` templates -/
theorem linkStep_built (k : Nat) (hk : 0 < k) :
    linkStep k (builtHeap k) (k - 1) = .ok (builtHeap (k + 1), k) := by
  have hw : walkEnd (builtHeap k).nss (builtHeap k).nss.length 0 = k - 1 := by
    apply walkEnd_built k _ 0 hk
    simp [builtHeap]
  have hc : (builtHeap k).ctxs[k - 1]? = some (builtCtx k (k - 1)) := by
    rw [builtHeap_ctxs_get]; simp; omega
  have hn : (builtHeap k).nss[k - 1]? = some (builtNS k (k - 1)) := by
    rw [builtHeap_nss_get]; simp; omega
  unfold linkStep
  simp only [hc, builtCtx, hw, hn]
  simp only [builtHeap, List.length_map, List.length_range]
  have e1 : k - 1 + 1 = k := by omega
  have e2 : ¬ (k < k) := by omega
  have e3 : k ≠ 0 := by omega
  congr 2
  congr 1
  · apply snoc_ext _ _ _ _ hk
    · intro i hi
      have h1 : i + 1 < k := by omega
      have h2 : i + 1 < k + 1 := by omega
      simp [builtNS, h1, h2]
    · simp [builtNS, e1, e2]
    · simp [builtNS]
  · apply snoc_ext _ _ _ _ hk
    · intro i hi
      have h1 : i + 1 < k := by omega
      have h2 : i + 1 < k + 1 := by omega
      simp [builtCtx, h1, h2]
    · simp [builtCtx, e1]
    · simp [builtCtx, e1, e2, e3]

theorem inheritFrom_built : ∀ (rest : List Level) (k : Nat), 0 < k → wf rest = true → compiles rest = true →
    inheritFrom rest k (builtHeap k) (k - 1) =
      .ok (builtHeap (k + rest.length), (k + rest.length - 1, k + rest.length - 1)) := by
  intro rest
  induction rest with
  | nil => intro k _ h; simp [wf] at h
  | cons t r ih =>
    intro k hk hwf hc
    simp only [compiles, List.all_cons, Bool.and_eq_true] at hc
    simp only [inheritFrom, hc.1, Bool.not_true, Bool.false_eq_true, if_false, linkStep_built k hk]
    cases r with
    | nil =>
      simp only [wf, Bool.not_eq_true'] at hwf
      simp [hwf]
    | cons t' r' =>
      simp only [wf, Bool.and_eq_true] at hwf
      simp only [hwf.1, if_true]
      have := ih (k + 1) (by omega) hwf.2 (by simpa [compiles] using hc.2)
      simp only [Nat.add_sub_cancel] at this
      rw [this]
      simp only [List.length_cons]
      congr 3 <;> omega

theorem heap0_eq : heap0 = builtHeap 1 := by decide

/-- `chain_built` + `render_starts_at_base`, as an equation -/
theorem populateSelf_built (c : List Level) (hwf : wf c = true) (hc : compiles c = true) :
    populateSelf c = .ok (builtHeap c.length, (c.length - 1, c.length - 1)) := by
  cases c with
  | nil => simp [wf] at hwf
  | cons t r =>
    simp only [compiles, List.all_cons, Bool.and_eq_true] at hc
    cases r with
    | nil =>
      simp only [wf, Bool.not_eq_true'] at hwf
      simp [populateSelf, hwf, heap0_eq]
    | cons t' r' =>
      simp only [wf, Bool.and_eq_true] at hwf
      simp only [populateSelf, hwf.1, if_true, heap0_eq]
      have := inheritFrom_built (t' :: r') 1 (by omega) (by simp [hwf.2]) (by simpa [compiles] using hc.2)
      simp only [Nat.sub_self] at this
      rw [this]
      simp only [List.length_cons]
      congr 3 <;> omega

/-- a render of a well-formed chain whose templates all compile: the inherit phase, then the callable it returns -/
theorem render_built (c : List Level) (hwf : wf c = true) (hc : compiles c = true) (fuel : Nat)
    (data : List (Name × Val)) :
    render c fuel data =
      invoke c (exec c (heapDispatch c (builtHeap c.length)) fuel) (.member (c.length - 1) (c.length - 1))
        bodyName [] data := by
  have hp := populateSelf_built c hwf hc
  cases c with
  | nil => simp [wf] at hwf
  | cons t r =>
    simp only [compiles, List.all_cons, Bool.and_eq_true] at hc
    simp only [render, hc.1, Bool.not_true, Bool.false_eq_true, if_false, hp]

/-! ### attribute access on the built heap -/

theorem getattrF_built (c : List Level) (x : Name) :
    ∀ f j, c.length - j ≤ f →
      getattrF c (builtHeap c.length).nss f j x =
        match firstIdx (fun i => hasDef c i x) j (c.length - j) with
        | some i => .member i i
        | none => .missing := by
  intro f
  induction f with
  | zero =>
    intro j h
    have : c.length - j = 0 := by omega
    simp [getattrF, this, firstIdx]
  | succ f ih =>
    intro j h
    by_cases hj : j < c.length
    · have e : c.length - j = (c.length - (j + 1)) + 1 := by omega
      rw [e]
      simp only [getattrF, builtHeap_nss_get, hj, if_true, firstIdx, builtNS]
      by_cases hd : hasDef c j x = true
      · simp [hd]
      · simp only [hd]
        by_cases h1 : j + 1 < c.length
        · simp only [h1, if_true]
          rw [ih (j + 1) (by omega)]
          simp
        · have : c.length - (j + 1) = 0 := by omega
          simp [h1, this, firstIdx]
    · have : c.length - j = 0 := by omega
      simp [getattrF, builtHeap_nss_get, hj, this, firstIdx]

/-- `.attr` on the heap as it is when `k` templates are attached (during or after the inherit phase) -/
theorem nsattrF_prefix (c : List Level) (k : Nat) (x : Name) :
    ∀ f j, k - j ≤ f →
      nsattrF c (builtHeap k).nss f j x = firstAttrUpTo c k j x := by
  intro f
  induction f with
  | zero =>
    intro j h
    have : k - j = 0 := by omega
    simp [nsattrF, firstAttrUpTo, this, firstIdx]
  | succ f ih =>
    intro j h
    by_cases hj : j < k
    · have e : k - j = (k - (j + 1)) + 1 := by omega
      unfold firstAttrUpTo
      rw [e]
      simp only [nsattrF, builtHeap_nss_get, hj, if_true, firstIdx, builtNS]
      have hb : ((c[j]?).bind fun l => List.lookup x l.attrs) = attrAt c j x := rfl
      rw [hb]
      rcases Option.eq_none_or_eq_some (attrAt c j x) with ha | ⟨v, ha⟩
      case inr => simp only [ha]; simp [ha]
      case inl =>
        simp only [ha, Option.isSome_none]
        by_cases h1 : j + 1 < k
        · simp only [h1, if_true]
          rw [ih (j + 1) (by omega)]
          simp [firstAttrUpTo]
        · have : k - (j + 1) = 0 := by omega
          simp [h1, this, firstIdx]
    · have : k - j = 0 := by omega
      simp [nsattrF, builtHeap_nss_get, hj, firstAttrUpTo, this, firstIdx]

theorem firstAttrUpTo_length (c : List Level) (j : Nat) (x : Name) :
    firstAttrUpTo c c.length j x = firstAttr c j x := rfl

theorem nsattrF_built (c : List Level) (x : Name) :
    ∀ f j, c.length - j ≤ f →
      nsattrF c (builtHeap c.length).nss f j x = firstAttr c j x :=
  fun f j h => by rw [nsattrF_prefix c c.length x f j h, firstAttrUpTo_length]

/-- on the heap the inherit phase builds, the runtime's name resolution is the specification's -/
theorem heapDispatch_built (c : List Level) :
    heapDispatch c (builtHeap c.length) = specDispatch c := by
  unfold heapDispatch specDispatch ruleDispatch
  congr 1
  · funext cx r
    rw [builtHeap_ctxs_get]
    by_cases h : cx < c.length
    · cases r <;> simp [h, builtCtx, Ctx.get]
    · simp [h]
  · funext ns x
    unfold getattr
    split
    · rfl
    · rw [builtHeap_nss_length, getattrF_built c x c.length ns (by omega)]
      rfl
  · funext ns x
    simp only [NSAttr.read, nsAttrObj]
    rw [builtHeap_nss_length, nsattrF_built c x c.length ns (by omega)]

/-! ### `firstIdx` -/

theorem firstIdx_some {p : Nat → Bool} : ∀ {k j i}, firstIdx p j k = some i →
    j ≤ i ∧ i < j + k ∧ p i = true ∧ ∀ m, j ≤ m → m < i → p m = false := by
  intro k
  induction k with
  | zero => intro j i h; simp [firstIdx] at h
  | succ k ih =>
    intro j i h
    simp only [firstIdx] at h
    by_cases hp : p j = true
    · simp only [hp, if_true, Option.some.injEq] at h
      subst h
      exact ⟨Nat.le_refl _, by omega, hp, fun m h1 h2 => by omega⟩
    · simp only [hp] at h
      have ⟨a, b, c, d⟩ := ih h
      refine ⟨by omega, by omega, c, fun m h1 h2 => ?_⟩
      by_cases hm : m = j
      · subst hm; simpa using hp
      · exact d m (by omega) h2

theorem firstIdx_none {p : Nat → Bool} : ∀ {k j}, firstIdx p j k = none →
    ∀ m, j ≤ m → m < j + k → p m = false := by
  intro k
  induction k with
  | zero => intro j _ m h1 h2; omega
  | succ k ih =>
    intro j h m h1 h2
    simp only [firstIdx] at h
    by_cases hp : p j = true
    · simp [hp] at h
    · simp only [hp] at h
      by_cases hm : m = j
      · subst hm; simpa using hp
      · exact ih h m (by omega) (by omega)

/-- `firstIdx` is determined by its characterisation -/
theorem firstIdx_eq_some {p : Nat → Bool} {k j i : Nat} (h1 : j ≤ i) (h2 : i < j + k) (h3 : p i = true)
    (h4 : ∀ m, j ≤ m → m < i → p m = false) : firstIdx p j k = some i := by
  cases h : firstIdx p j k with
  | none => have := firstIdx_none h i h1 h2; simp [this] at h3
  | some i' =>
    have ⟨a, b, c, d⟩ := firstIdx_some h
    by_cases hlt : i' < i
    · have := h4 i' a hlt; simp [this] at c
    · by_cases hgt : i < i'
      · have := d i h1 hgt; simp [this] at h3
      · congr; omega

theorem firstIdx_eq_none {p : Nat → Bool} {k j : Nat} (h : ∀ m, j ≤ m → m < j + k → p m = false) :
    firstIdx p j k = none := by
  cases h' : firstIdx p j k with
  | none => rfl
  | some i =>
    have ⟨a, b, c, _⟩ := firstIdx_some h'
    have := h i a b; simp [this] at c

end MakoModel.Inherit
