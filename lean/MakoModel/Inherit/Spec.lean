import MakoModel.Inherit.Model
/-!
# Specification-level notions for the inheritance model

* `wf` – a well-formed chain `[T₀ … T_m]`: every template but the last has an `<%inherit>` that names the next
  one (literally or through an expression), the last one has none (or one evaluating to `None`);
* `builtHeap n` – the object graph the property text describes for a chain of `n` templates;
* `firstFrom c j x` – the least level `i ≥ j` that declares member `x` ("its own definition or else the nearest
  one further toward the base"), `firstAttr` the same for module attributes;
* `specDispatch c` – name resolution by index arithmetic alone (no heap): the *specification* of
  `self/next/parent/local`, of attribute access and of `.attr`;
* declarative notions for the block checks: `allBlocksL`, `misplacedL`, `allDefNamesL`, `allAnonLinesL`.
-/
namespace MakoModel.Inherit

instance : DecidableEq Res := fun a b =>
  match a, b with
  | .ok x, .ok y => if h : x = y then isTrue (by rw [h]) else isFalse (fun e => by cases e; exact h rfl)
  | .error x, .error y => if h : x = y then isTrue (by rw [h]) else isFalse (fun e => by cases e; exact h rfl)
  | .ok _, .error _ => isFalse (fun e => by cases e)
  | .error _, .ok _ => isFalse (fun e => by cases e)

/-- well-formed chain -/
def wf : List Level → Bool
  | [] => false
  | [t] => !t.inherit.links
  | t :: r => t.inherit.links && wf r

/-- namespace `i` of a chain of `n` templates: template `i`, context `i`, `inherits` = level `i+1` (none at the base) -/
def builtNS (n i : Nat) : NS :=
  { tmpl := i, ctx := i, inherits := if i + 1 < n then some (i + 1) else none }

/-- context `i`: `self` = namespace 0 at every level, `local` = `i`, `next` = `i-1` (absent at `T₀`),
`parent` = `i+1` (absent at the base) -/
def builtCtx (n i : Nat) : Ctx :=
  { self := some 0, loc := some i, next := if i = 0 then none else some (i - 1),
    parent := if i + 1 < n then some (i + 1) else none }

def builtHeap (n : Nat) : Heap :=
  ⟨(List.range n).map (builtNS n), (List.range n).map (builtCtx n)⟩

/-- least `i` with `j ≤ i < j + k` satisfying `p` -/
def firstIdx (p : Nat → Bool) : Nat → Nat → Option Nat
  | _, 0 => none
  | j, k + 1 => if p j then some j else firstIdx p (j + 1) k

/-- the least level `i ≥ j` of the chain that declares member `x` -/
def firstFrom (c : List Level) (j : Nat) (x : Name) : Option Nat :=
  firstIdx (fun i => hasDef c i x) j (c.length - j)

def attrAt (c : List Level) (i : Nat) (x : Name) : Option Val :=
  (c[i]?).bind (fun l => l.attrs.lookup x)

/-- the module attribute `x` of the least level `i` with `j ≤ i < k` that has one (the chain as far as it is
built when `k` templates are attached) -/
def firstAttrUpTo (c : List Level) (k j : Nat) (x : Name) : Option Val :=
  match firstIdx (fun i => (attrAt c i x).isSome) j (k - j) with
  | some i => attrAt c i x
  | none => none

/-- the module attribute `x` of the least level `i ≥ j` that has one -/
def firstAttr (c : List Level) (j : Nat) (x : Name) : Option Val :=
  match firstIdx (fun i => (attrAt c i x).isSome) j (c.length - j) with
  | some i => attrAt c i x
  | none => none

/-- name resolution as the property text states it: `self` is the most derived template, `local` the template
itself, `next`/`parent` the adjacent templates toward the derived / base end (absent at the ends); a member is
answered with the definition of the nearest template, from the starting one toward the base, that declares it -/
def ruleDispatch (c : List Level) : Dispatch where
  ref cx r :=
    if cx < c.length then
      match r with
      | .self => some 0
      | .loc => some cx
      | .next => if cx = 0 then none else some (cx - 1)
      | .parent => if cx + 1 < c.length then some (cx + 1) else none
    else none
  getattr ns x :=
    match firstFrom c ns x with
    | some i => .member i i
    | none => .missing
  attr ns x := firstAttr c ns x

/-- what the code does: as `ruleDispatch`, except that a name which is also an ordinary attribute of mako's
`Namespace` objects never reaches the templates' members -/
def specDispatch (c : List Level) : Dispatch where
  ref := (ruleDispatch c).ref
  getattr ns x := if x ∈ Generated.NsAttrs.nsAttrs then .builtin else (ruleDispatch c).getattr ns x
  attr := (ruleDispatch c).attr

/-- a render by the rules of the property text alone (no heap): the body of the base-most template runs first,
receiving the render arguments -/
def ruleRender (c : List Level) (fuel : Nat) (data : List (Name × Val)) : Res :=
  invoke c (exec c (ruleDispatch c) fuel) (.member (c.length - 1) (c.length - 1)) bodyName [] data

mutual
/-- every member name a node mentions: called members and named blocks, at any depth -/
def namesN : Node → List Name
  | .call _ x _ _ => [x]
  | .block (some b) _ k => b :: namesL k
  | .block none _ k => namesL k
  | .defn _ _ k => namesL k
  | .callTag k => namesL k
  | _ => []
def namesL : List Node → List Name
  | [] => []
  | n :: r => namesN n ++ namesL r
end

/-- every member name mentioned anywhere in the chain -/
def usedNames (c : List Level) : List Name := c.flatMap (fun l => namesL l.nodes)

/-! ## block checks: declarative side -/

mutual
/-- the named blocks that have a `<%def>` or `<%call>` ancestor -/
def misplacedN : Node → List Name
  | .defn _ _ k => allBlocksL k
  | .callTag k => allBlocksL k
  | .block _ _ k => misplacedL k
  | _ => []
def misplacedL : List Node → List Name
  | [] => []
  | n :: r => misplacedN n ++ misplacedL r
end

mutual
/-- the named blocks reachable through blocks only (the ones that become members of the module) -/
def mainBlocksN : Node → List Name
  | .block (some b) _ k => b :: mainBlocksL k
  | .block none _ k => mainBlocksL k
  | _ => []
def mainBlocksL : List Node → List Name
  | [] => []
  | n :: r => mainBlocksN n ++ mainBlocksL r
end

mutual
/-- names of all defs, wherever they are nested -/
def allDefNamesN : Node → List Name
  | .defn n _ k => n :: allDefNamesL k
  | .block _ _ k => allDefNamesL k
  | .callTag k => allDefNamesL k
  | _ => []
def allDefNamesL : List Node → List Name
  | [] => []
  | n :: r => allDefNamesN n ++ allDefNamesL r
end

mutual
/-- source lines of all anonymous blocks -/
def allAnonLinesN : Node → List Nat
  | .block none ln k => ln :: allAnonLinesL k
  | .block (some _) _ k => allAnonLinesL k
  | .defn _ _ k => allAnonLinesL k
  | .callTag k => allAnonLinesL k
  | _ => []
def allAnonLinesL : List Node → List Nat
  | [] => []
  | n :: r => allAnonLinesN n ++ allAnonLinesL r
end

end MakoModel.Inherit
