import MakoModel.Basic.Lines
/-!
# L4 (printer, line accounting part): `mako.pygen.PythonPrinter`, the module line map, and what
`RichTraceback` / the warnings helpers do with it

Everything that decides **which template line a generated line is reported as**:

* `PythonPrinter.start_source / _update_lineno / write_blanks / write_indented_block / writeline /
  _flush_adjusted_lines / close` (mako/pygen.py) – state `State`, one function per method;
* `_GenerateRenderMethod.write_metadata_struct` (mako/codegen.py) – `metaMark`;
* `ModuleInfo.get_module_source_metadata(..., full_line_map=True)` (mako/template.py) – `fullLineMap`;
* `RichTraceback._init`, `_get_reformatted_records` (mako/exceptions.py) – `Tb.*`;
* `_show_warnings_as`, `_drop_expression_warnings`, `_translate_module_warnings`
  (mako/template.py) – `Warn.*`.

Abstractions (each is checked by the correspondence stream of `harness/props/C12.py`):

* the *indentation* that `writeline` / `_flush_adjusted_lines` put in front of a line is not modelled:
  it never contains a newline, so it does not take part in line accounting (C03 owns indentation).
  `OutLine.text` is the text of a physical line without its indentation;
* the stream is kept as the list of its physical lines (`out`), every one tagged with the value
  `lineno` had when it was *emitted* (`claimed`) – the tag is ghost information, the real stream is
  `streamText out`;
* every emission carries a ghost **owner**: the template line the generated line ought to be
  reported as (see `Props/C12.lean` for the definition of "ought").  Ghost fields (`mark`, `glines`)
  never influence a real field.
-/
namespace MakoModel.Printer
open MakoModel.Basic

abbrev Str := List Char

/-! ## Python string helpers -/

/-- `s.split("\n")` -/
def splitNL : Str → List Str
  | [] => [[]]
  | c :: cs =>
    if c = '\n' then [] :: splitNL cs
    else match splitNL cs with
      | [] => [[c]]            -- unreachable: `splitNL` never returns `[]`
      | h :: t => (c :: h) :: t

/-- strip one trailing `'\r'` (the `\r?` of `re.split(r"\r?\n", …)` in front of a newline) -/
def stripCR (p : Str) : Str := if p.getLast? = some '\r' then p.dropLast else p

/-- apply `stripCR` to every piece but the last -/
def stripCRs : List Str → List Str
  | [] => []
  | [p] => [p]
  | p :: q :: r => stripCR p :: stripCRs (q :: r)

/-- `re.split(r"\r?\n", block)` -/
def splitLines (block : Str) : List Str := stripCRs (splitNL block)

/-! ## state -/

/-- ghost record of one generated line, in emission order (`glines[i]` is generated line `i+1`) -/
structure PLine where
  /-- the template line this generated line ought to be reported as (`none`: no template construct
      stands behind the line – module header, separators, metadata) -/
  owner : Option Nat
  /-- the template line the *mechanism* assigns: argument of the last `start_source` that took
      effect before the line was emitted (1 before the first one) -/
  mark : Nat
deriving DecidableEq, Repr

/-- one physical line of the stream / of `line_buffer` -/
structure OutLine where
  text : Str
  /-- ghost: value of `lineno` when the line was emitted -/
  claimed : Nat
deriving DecidableEq, Repr

/-- `source_map`: association list, looked up with `List.lookup` (first match), so that prepending
    an entry for an existing key is Python's `d[k] = v` and prepending for a new key is insertion -/
abbrev SourceMap := List (Nat × Nat)

structure State where
  /-- `self.lineno` -/
  lineno : Nat := 1
  /-- `self.source_map` -/
  sourceMap : SourceMap := []
  /-- `self.line_buffer` -/
  lineBuffer : List OutLine := []
  /-- `self.in_indent_lines` -/
  inIndentLines : Bool := false
  /-- `self.stream`, as physical lines -/
  out : List OutLine := []
  /-- ghost: what the line map will say for a line emitted now -/
  mark : Nat := 1
  /-- ghost: one record per generated line, emission order -/
  glines : List PLine := []
deriving Repr

def init : State := {}

/-- the characters actually written to the stream (without indentation) -/
def streamText (out : List OutLine) : Str := out.flatMap fun l => l.text ++ ['\n']

/-! ## the printer's methods -/

/-- `start_source(lineno)`: `if self.lineno not in self.source_map: self.source_map[self.lineno] = lineno`
    – the FIRST mapping of a generated line wins -/
def startSource (l : Nat) (s : State) : State :=
  match s.sourceMap.lookup s.lineno with
  | some _ => s
  | none => { s with sourceMap := (s.lineno, l) :: s.sourceMap, mark := l }

/-- `_update_lineno(k)` together with the ghost bookkeeping for the `k` lines just emitted -/
def addLines (k : Nat) (owner : Option Nat) (s : State) : State :=
  { s with lineno := s.lineno + k, glines := s.glines ++ List.replicate k ⟨owner, s.mark⟩ }

/-- tag consecutive physical lines with consecutive line numbers -/
def number : Nat → List Str → List OutLine
  | _, [] => []
  | a, p :: ps => ⟨p, a⟩ :: number (a + 1) ps

/-- `_flush_adjusted_lines`: every buffered entry is written followed by `"\n"` (re-margined, which
    does not touch line structure) -/
def flush (s : State) : State := { s with out := s.out ++ s.lineBuffer, lineBuffer := [] }

/-- `write_blanks(num)`: `stream.write("\n" * num); _update_lineno(num)` – note: no flush -/
def writeBlanks (n : Nat) (s : State) : State :=
  addLines n none { s with out := s.out ++ number s.lineno (List.replicate n []) }

/-- `writeline(line)`; `none` is the dedent marker `None`, which writes nothing.
    `self._update_lineno(len(line.split("\n")))`: a string with embedded newlines advances by the
    number of physical lines it occupies. -/
def writeline (txt : Option Str) (owner : Option Nat) (s : State) : State :=
  let s1 := if s.inIndentLines then s else { flush s with inIndentLines := true }
  match txt with
  | none => s1
  | some t =>
    let ps := splitNL t
    addLines ps.length owner { s1 with out := s1.out ++ number s1.lineno ps }

/-- body of the loop of `write_indented_block`:
    `line_buffer.append(l); if starting_lineno is not None: start_source(starting_lineno + i); _update_lineno(1)`.
    The owner of the `i`-th block line is `starting_lineno + i` – the exact template line. -/
def blockLoop : List Str → Option Nat → State → State
  | [], _, s => s
  | p :: ps, st, s =>
    let s1 := { s with lineBuffer := s.lineBuffer ++ [⟨p, s.lineno⟩] }
    let s2 := match st with
      | some l => startSource l s1
      | none => s1
    blockLoop ps (st.map (· + 1)) (addLines 1 st s2)

/-- `write_indented_block(block, starting_lineno)` -/
def writeIndentedBlock (block : Str) (start : Option Nat) (s : State) : State :=
  blockLoop (splitLines block) start { s with inIndentLines := false }

/-- `max(self.printer.source_map)` (largest generated line that has an entry; 0 stands for Python's
    `ValueError` on an empty map, which the driver reports) -/
def maxKey (m : SourceMap) : Nat := m.foldr (fun p a => max p.1 a) 0

/-- `write_metadata_struct`, first statement:
    `self.printer.source_map[self.printer.lineno] = max(self.printer.source_map)` – a plain
    assignment (not first-wins).  The JSON written afterwards is the map as it is right after this. -/
def metaMark (s : State) : State :=
  { s with sourceMap := (s.lineno, maxKey s.sourceMap) :: s.sourceMap, mark := maxKey s.sourceMap }

/-- `close()` -/
def close (s : State) : State := flush s

/-! ## emission events -/

inductive Event where
  /-- `printer.start_source(l)` -/
  | startSource (l : Nat)
  /-- `printer.writeline(txt)` (`none` = `None`) issued on behalf of template line `owner` -/
  | writeline (txt : Option Str) (owner : Option Nat)
  /-- `printer.write_blanks(n)` -/
  | writeBlanks (n : Nat)
  /-- `printer.write_indented_block(block, starting_lineno=start)` -/
  | writeIndentedBlock (block : Str) (start : Option Nat)
  /-- the assignment at the top of `write_metadata_struct` -/
  | metaMark
  /-- `printer.close()` -/
  | close
deriving DecidableEq, Repr

def step (s : State) : Event → State
  | .startSource l => startSource l s
  | .writeline t o => writeline t o s
  | .writeBlanks n => writeBlanks n s
  | .writeIndentedBlock b st => writeIndentedBlock b st s
  | .metaMark => metaMark s
  | .close => close s

def runFrom (s : State) (evs : List Event) : State := evs.foldl step s
def run (evs : List Event) : State := runFrom init evs

/-! ## the dense map -/

/-- value of `curr_templ_line` after the loop of `get_module_source_metadata` has processed
    `mod_line = g`: the entry of the largest key `≤ g`, `1` when there is none -/
def fillAt (m : SourceMap) : Nat → Nat
  | 0 => 1
  | g + 1 => match m.lookup (g + 1) with
    | some v => v
    | none => fillAt m g

/-- the loop itself: `n` iterations left, next `mod_line = g`, `curr_templ_line = cur` -/
def fillLoop (m : SourceMap) : Nat → Nat → Nat → List Nat
  | 0, _, _ => []
  | n + 1, g, cur =>
    let cur' := (m.lookup g).getD cur
    cur' :: fillLoop m n (g + 1) cur'

/-- `get_module_source_metadata(src, full_line_map=True)["full_line_map"]`:
    `curr = 1; for mod_line in range(1, max(line_map)): …` – one entry per generated line
    `1 … max-1`; `full_line_map[g-1]` is the template line of generated line `g` -/
def fullLineMap (m : SourceMap) : List Nat := fillLoop m (maxKey m - 1) 1 1

/-- ghost: the owner of generated line `g` (1-based) -/
def ownerAt (s : State) (g : Nat) : Option Nat :=
  if g = 0 then none else (s.glines[g - 1]?).bind (·.owner)

/-- ghost: the mark of generated line `g` (1-based) -/
def markAt (s : State) (g : Nat) : Option Nat :=
  if g = 0 then none else (s.glines[g - 1]?).map (·.mark)

/-! ## what codegen's call sites are meant to guarantee -/

/-- state of the well-markedness walk: the argument of the most recent `start_source`, and whether a
    physical line has been emitted since -/
structure WM where
  cur : Option Nat := none
  fresh : Bool := false
deriving DecidableEq, Repr

/-- One event of the walk.  A sequence is *well marked* when every group of lines with a common owner
    is preceded by a `start_source owner` with no line of another owner in between (lines without an
    owner may appear anywhere), and no `start_source` is immediately followed by a different one (the
    second would be dropped by first-wins). -/
def wmStep (w : WM) : Event → Option WM
  | .startSource l =>
    if w.fresh then (if w.cur = some l then some w else none) else some ⟨some l, true⟩
  | .writeline none _ => some w
  | .writeline (some _) o =>
    if o = none ∨ o = w.cur then some { w with fresh := false } else none
  | .writeBlanks n => if n = 0 then some w else some { w with fresh := false }
  | .writeIndentedBlock b (some l) =>
    if w.fresh ∧ w.cur ≠ some l then none
    else some ⟨some (l + (splitLines b).length - 1), false⟩
  | .writeIndentedBlock _ none => some { w with fresh := false }
  | .metaMark => some ⟨none, true⟩
  | .close => some w

def wmRun : WM → List Event → Option WM
  | w, [] => some w
  | w, e :: es => (wmStep w e).bind (wmRun · es)

def wellMarked (evs : List Event) : Bool := (wmRun {} evs).isSome

/-- `write_blanks` does not flush `line_buffer`: blank lines written while block lines are pending
    would overtake them in the stream.  Walk: is the buffer non-empty? -/
def pendStep (pending : Bool) : Event → Option Bool
  | .startSource _ => some pending
  | .writeline _ _ => some false
  | .writeBlanks n => if pending ∧ n ≠ 0 then none else some pending
  | .writeIndentedBlock _ _ => some true
  | .metaMark => some pending
  | .close => some false

def pendRun : Bool → List Event → Option Bool
  | p, [] => some p
  | p, e :: es => (pendStep p e).bind (pendRun · es)

def noBlankWhilePending (evs : List Event) : Bool := (pendRun false evs).isSome

/-- number of physical lines an event emits -/
def Event.physLines : Event → Nat
  | .writeline (some t) _ => (splitNL t).length
  | .writeBlanks n => n
  | .writeIndentedBlock b _ => (splitLines b).length
  | _ => 0

/-! ## `RichTraceback._init` -/
namespace Tb

/-- Python list indexing `xs[i]` for a possibly negative `i` (`none` = `IndexError`) -/
def pyGet {α} (xs : List α) (i : Int) : Option α :=
  if 0 ≤ i then xs[i.toNat]?
  else if i.natAbs ≤ xs.length then xs[xs.length - i.natAbs]? else none

/-- a raw record of `traceback.extract_tb`: `(filename, lineno, function, line)` -/
structure Frame where
  filename : Str
  lineno : Nat
  function : Str
  line : Str
deriving DecidableEq, Repr

/-- what `ModuleInfo` provides for a registered module -/
structure Info where
  /-- `get_module_source_metadata(info.code, full_line_map=True)["full_line_map"]` -/
  fullMap : List Nat
  /-- `info.source.split("\n")` = `linesOf info.source`: split on `'\n'` ONLY, as the lexer counts lines
      (form feed, vertical tab, FS/GS/RS, NEL, U+2028/2029, a lone CR do not end a line) -/
  templateLines : List Str
  /-- `info.template_filename or info.template_uri or filename` -/
  templateFilename : Str
  /-- `info.source`: the template text (`templateLines = linesOf source`) -/
  source : Str := []
deriving DecidableEq, Repr

/-- The key under which a module-file template is registered (`ModuleInfo._modules[module_filename]`) and by
    which `_translate_module_warnings` recognises its warnings: the module path `Template.__init__` computed –
    `os.path.abspath` of it when `madeAbsolute`.  `abs` stands for `os.path.abspath` in the working directory
    of the moment. -/
def registryKey (madeAbsolute : Bool) (abs : Str → Str) (modulePath : Str) : Str :=
  if madeAbsolute then abs modulePath else modulePath

/-- the file name CPython reports for code of a module loaded from `modulePath` (frames of a traceback,
    compile warnings, `warnings.warn`): the absolute path -/
def reportedFilename (abs : Str → Str) (modulePath : Str) : Str := abs modulePath

/-- `template_lines = [line_ for line_ in template_source.split("\n")]` -/
def linesOf (source : Str) : List Str := splitNL source

/-- `ModuleInfo._modules`: keyed by module name and by module file name -/
abbrev Registry := List (Str × Info)

/-- the 8-tuples of `RichTraceback.records` (the last component, the template source, is determined
    by the registry entry and omitted) -/
structure Record where
  frame : Frame
  /-- `(template_filename, template_ln, template_line)`; `none` for "a normal .py file" -/
  tmpl : Option (Str × Nat × Option Str)
deriving DecidableEq, Repr

/-- one iteration of the loop of `_init`; `none` = the `IndexError` of `line_map[lineno - 1]` -/
def rewrite (reg : Registry) (f : Frame) : Option Record :=
  match reg.lookup f.filename with
  | none => some ⟨f, none⟩
  | some info =>
    match pyGet info.fullMap ((f.lineno : Int) - 1) with
    | none => none
    | some tl =>
      let line :=
        if tl ≤ info.templateLines.length then pyGet info.templateLines ((tl : Int) - 1) else none
      some ⟨f, some (info.templateFilename, tl, line)⟩

/-- The 8th element of a record, `template_source`, as the loop of `_init` assigns it.  The per-file cache
    `mods` keeps `line_map`, `template_lines`, `template_filename`; whether it also keeps the template source
    is the parameter `keeps`; for /repo it is the regenerated constant `Generated.TbCfg.modsCacheKeepsSource`
    (tools/regen_tbcfg.py reads the tuple stored in / unpacked from `mods[filename]` in mako/exceptions.py).  Without it the local variable `template_source` is set only on a MISS of the cache, and
    on a hit the record gets whatever the variable holds – the source of the template module that was seen
    *last for the first time*.  State: the cache (file name ↦ source) and the current value of the variable. -/
def srcStep (keeps : Bool) (reg : Registry) (st : List (Str × Str) × Option Str) (f : Frame) :
    (List (Str × Str) × Option Str) × Option Str :=
  match st.1.lookup f.filename with
  | some own => if keeps then ((st.1, some own), some own) else (st, st.2)
  | none =>
    match reg.lookup f.filename with
    | none => (st, none)
    | some info => (((f.filename, info.source) :: st.1, some info.source), some info.source)

def sourcesFrom (keeps : Bool) (reg : Registry) : List (Str × Str) × Option Str → List Frame → List (Option Str)
  | _, [] => []
  | st, f :: fs => (srcStep keeps reg st f).2 :: sourcesFrom keeps reg (srcStep keeps reg st f).1 fs

/-- the source attached to each record (`none` for a plain frame); `.source` of the `RichTraceback` is the
    one of the record `pickLine` chooses -/
def recordSources (keeps : Bool) (reg : Registry) (fs : List Frame) : List (Option Str) :=
  sourcesFrom keeps reg ([], none) fs

/-- `records` (or `none` if some frame raises) -/
def records (reg : Registry) (fs : List Frame) : Option (List Record) := fs.mapM (rewrite reg)

/-- `_get_reformatted_records`: the 4-tuples shown by `.traceback` and the error templates:
    `(rec[4], rec[5], rec[2], rec[6])` if `rec[6] is not None` else `rec[0:4]` -/
def reformat (r : Record) : Str × Nat × Str × Str :=
  match r.tmpl with
  | some (fn, ln, some line) => (fn, ln, r.frame.function, line)
  | _ => (r.frame.filename, r.frame.lineno, r.frame.function, r.frame.line)

/-- does the record name a template line (`new_trcback[l][5]` truthy: a template frame whose line is not 0)? -/
def Record.hit (r : Record) : Option (Str × Nat) :=
  match r.tmpl with
  | some (fn, ln, _) => if ln ≠ 0 then some (fn, ln) else none
  | none => none

/-- the search `for l in range(len(new_trcback) - 1, -1, -1): if new_trcback[l][5]: …` that sets
    `.lineno` (and `.source`): the innermost record with a non-zero template line; `rs` is given
    innermost-last as in the code; result `none` = the `else` branch ("a normal .py file": the last
    record's own file and line) -/
def pickLine (rs : List Record) : Option (Str × Nat) := rs.reverse.findSome? Record.hit

end Tb

/-! ## the warnings helpers -/
namespace Warn

/-- filter action in effect for the warning's category (what the `warnings` module decides; the
    module itself is outside the model) -/
inductive Action where
  | always | once | error | ignore
deriving DecidableEq, Repr

/-- a warning occurrence as it reaches the filters: `(message text, filename, lineno)` -/
structure W where
  text : Str
  filename : Str
  lineno : Nat
deriving DecidableEq, Repr

/-- `pyparser.EXPRESSION_FILENAME` -/
def exprFilename : Str := "<unknown>".toList

/-- `_drop_expression_warnings._locate`; the Boolean says whether the `onceregistry` entry of the
    message is to be removed -/
def dropLocate (w : W) : Option (Str × Nat) × Bool :=
  if w.filename ≠ exprFilename then (some (w.filename, w.lineno), false) else (none, true)

/-- `_translate_module_warnings._locate` for module `moduleId`, whose dense map is `fullMap`
    (`[]` when the metadata cannot be read), reported as `filename` -/
def translateLocate (moduleId filename : Str) (fullMap : List Nat) (w : W) : Str × Nat :=
  if w.filename ≠ moduleId then (w.filename, w.lineno)
  else match Tb.pyGet fullMap ((w.lineno : Int) - 1) with
    | none => (w.filename, w.lineno)
    | some t => (filename, t)

/-- which hook stack is installed when the warning is raised -/
inductive Phase where
  /-- inside `_drop_expression_warnings()` only (`_compile_text`: lexing, parsing, code generation) -/
  | parse
  /-- inside `_translate_module_warnings(…)` only (compile / exec / import of the module) -/
  | module
  /-- inside both, the drop hook innermost (`_compile_from_file` while the module file is written) -/
  | parseInModule
  /-- outside any hook: the warning is displayed as the `warnings` module would display it -/
  | bare
deriving DecidableEq, Repr

/-- is the hook of `_translate_module_warnings` installed? -/
def Phase.translates : Phase → Bool
  | .module | .parseInModule => true
  | .parse | .bare => false

/-- is the hook of `_drop_expression_warnings` installed? -/
def Phase.drops : Phase → Bool
  | .parse | .parseInModule => true
  | .module | .bare => false

/-- the display hook chain `_show_warnings_as` builds: where the warning is shown (`none`: not at all),
    and whether the once-registry entry is removed -/
def hook (moduleId filename : Str) (fullMap : List Nat) : Phase → W → Option (Str × Nat) × Bool
  | .parse, w => dropLocate w
  | .module, w => (some (translateLocate moduleId filename fullMap w), false)
  | .parseInModule, w =>
    match dropLocate w with
    | (none, b) => (none, b)
    | (some (fn, ln), b) => (some (translateLocate moduleId filename fullMap ⟨w.text, fn, ln⟩), b)
  | .bare, w => (some (w.filename, w.lineno), false)

/-- what `Template._compile_from_file(path, filename)` does with a module file -/
inductive LoadStep where
  /-- `_compile_module_file(…)`: lex, parse, generate, write the module file -/
  | regen
  /-- `compat.load_module(module_id, path)`: the import system compiles (unless byte code is cached) and
      executes the module file -/
  | load
deriving DecidableEq, Repr

/-- `_compile_from_file` with a module path, as a plan of steps, each with the hook stack it runs under.
    `upToDate`: the module file exists and is not older than the template file (it is *reused*);
    `accepted`: the module loaded first has the current magic number and was generated from this template
    file (`module._template_filename == filename`, b4d0d5f).  There are two regeneration paths: the first
    when the module file is missing or older than the template, the second when the loaded module is not
    accepted.  The whole body stands inside `with _translate_module_warnings(…)`; each of the two
    regenerations stands inside `with _drop_expression_warnings():` as well; the loads do not. -/
def compileFromFilePlan (upToDate accepted : Bool) : List (LoadStep × Phase) :=
  (if upToDate then [] else [(.regen, .parseInModule)]) ++ [(.load, .module)]
    ++ (if accepted then [] else [(.regen, .parseInModule), (.load, .module)])

/-- `_compile_text`: generation inside the drop hook, `compile` + `exec` inside the translation hook -/
def compileTextPlan : List (LoadStep × Phase) := [(.regen, .parse), (.load, .module)]

/-- outcome of one template compilation -/
structure Result where
  /-- warnings displayed: `(text, filename, lineno)` in order -/
  shown : List (Str × Str × Nat) := []
  /-- `some w`: the filters turned `w` into an exception (action `error`) and compilation stopped -/
  raised : Option W := none
  /-- `warnings.onceregistry` (message texts) -/
  onceReg : List Str := []
deriving DecidableEq, Repr

/-- one warning passes the filters (`warnings.warn_explicit`) and then the hook -/
def emit (act : Action) (moduleId filename : Str) (fullMap : List Nat) (r : Result) (pw : Phase × W) :
    Result :=
  if r.raised.isSome then r else
  let (ph, w) := pw
  match act with
  | .ignore => r
  | .error => { r with raised := some w }
  | .always =>
    match hook moduleId filename fullMap ph w with
    | (some (fn, ln), _) => { r with shown := r.shown ++ [(w.text, fn, ln)] }
    | (none, _) => r
  | .once =>
    if w.text ∈ r.onceReg then r else
    match hook moduleId filename fullMap ph w with
    | (some (fn, ln), _) => { r with shown := r.shown ++ [(w.text, fn, ln)], onceReg := w.text :: r.onceReg }
    | (none, true) => r          -- registered by the filter, removed again by the hook
    | (none, false) => { r with onceReg := w.text :: r.onceReg }

/-- a whole compilation: the warnings in the order they are raised -/
def compile (act : Action) (moduleId filename : Str) (fullMap : List Nat) (reg : List Str)
    (ws : List (Phase × W)) : Result :=
  ws.foldl (emit act moduleId filename fullMap) { onceReg := reg }

end Warn

end MakoModel.Printer
