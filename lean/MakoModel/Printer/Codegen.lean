import MakoModel.Printer.Model
/-!
# Emission skeleton of `_GenerateRenderMethod` (mako/codegen.py) – who writes which line, and where the
`start_source` calls are

Only what matters for the line map is kept: the *order* of `start_source` / `writeline` /
`write_blanks` / `write_indented_block` calls of every `visit*` / `write_*` method, the number of
newlines inside a written string, and for every written line

* its **owner** (see `Props/C12.lean`) and
* whether it is **observable**: can it be the current line of a frame in a traceback, or the location
  of a compile warning?  Lines that cannot raise and call nothing (`try:`, `finally:`, `return ''`,
  `pass`, frame/buffer book-keeping, `context.get(…)`, literal `__M_writer('text')`, `def f():` without
  defaults, blank lines) are not observable; the list is `INERT` in `harness/props/C12.py`.

An unobservable line is emitted with owner `none`: the property says nothing about it.

The skeleton is a flat list of `Item`s (a composite construct is `…Head`, its children, `…Tail`).
`harness/props/C12.py` (stream `corr.codegen_skeleton`) rebuilds the item list of a real compilation
from the visited nodes and compares `emitAll items` with the recorded event sequence of the real code
generator, event by event.
-/
namespace MakoModel.Printer.Codegen
open MakoModel.Printer

/-- a written string with `nl` embedded newlines (its text is irrelevant) -/
def txt (nl : Nat) : Str := List.replicate nl '\n'

/-- `writeline(<string with nl newlines>)` for template line `l`; observable or not -/
def line (l : Nat) (obs : Bool) (nl : Nat := 0) : Event :=
  .writeline (some (txt nl)) (if obs then some l else none)

def quiet : Event := .writeline (some []) none
def dedent : Event := .writeline none none

inductive Item where
  /-- `visitText`: `start_source(l); writeline("__M_writer('…')")` -/
  | text (l : Nat)
  /-- `visitExpression`: `start_source(l); writeline("__M_writer(…)")`, `nl` newlines inside the expression -/
  | expr (l nl : Nat)
  /-- `visitControlLine`, not an end: `start_source(l)`; with loop context `loop = __M_loop._enter(…)`,
      `try:`; the line itself; possibly `pass` -/
  | control (l : Nat) (loop pass : Bool)
  /-- `visitControlLine`, `% end…`: `None`; with loop context `finally:`, `loop = __M_loop._exit()`, `None` -/
  | controlEnd (loop : Bool)
  /-- `visitCode` (not `<%! %>`): `write_indented_block(text, starting_lineno=l)`; for the template body
      with assigned names the two `__M_locals…` lines -/
  | code (l : Nat) (block : Str) (fudge : Bool)
  /-- `write_module_code`: one `<%! %>` block -/
  | moduleCode (l : Nat) (block : Str)
  /-- `visitIncludeTag`: `start_source(l); writeline("runtime._include_file(…)")` -/
  | incl (l : Nat)
  /-- `visitBlockTag`: anonymous `writeline("name()")`; named `if 'parent' not in …:`, `context['self'].name(…)`,
      `writeline("\n")` – **no `start_source`** -/
  | blockCall (l : Nat) (anon : Bool)
  /-- `write_def_decl`: `def f(args):`, `return render_f(…)`, `None` – **no `start_source`** -/
  | stub (ldef : Nat) (hdrObs : Bool)
  /-- `write_inherit`: `start_source(l)` (since 2159d82), `def _mako_inherit(…):`, two lines, `None` -/
  | inherit (l : Nat)
  /-- `write_render_callable`, up to the declarations: `start_source(lineArg)`, optional decorator line
      (after the mark since 2159d82), `def render_x(…):`, `_push_frame`, `try:`, optional `_push_buffer`.
      `l` is the owner (the tag's line; for `render_body` the `<%page>` line or 1), `lineArg` what the
      code passes (`node.lineno`: **0** for a template without `<%page>`). -/
  | callableHead (l lineArg : Nat) (decorated hdrObs pushBuf : Bool)
  /-- `write_render_callable`, after `write_def_finish`: `None`, `write_blanks(2)` -/
  | callableTail
  /-- `write_inline_def` up to the declarations: `start_source(l)` first (since 2159d82) -/
  | inlineDefHead (l : Nat) (decorated hdrObs pushBuf : Bool)
  /-- `write_inline_def` after `write_def_finish`: `None` -/
  | inlineDefTail
  /-- `write_def_finish`: unfiltered `return ''` [`finally:`, `_pop_frame()`, `None`]; otherwise `finally:`,
      pop of the buffer, [`_pop_frame()`], `None`, and the line that applies filters / returns the buffer
      (observable when a filter is applied), [`return ''`].  In the second form `start_source(node.lineno)`
      comes first `if node.lineno` (2159d82): `mark` is false only for the `TemplateNode` of a cached page. -/
  | finish (l : Nat) (plain callstack returns retObs mark : Bool)
  /-- `visitCallTag`, first lines: `start_source(l)` (since 2159d82), `def ccall(caller):` -/
  | callHead (l : Nat)
  /-- `visitCallTag` after `write_def_finish`: `None`, `return […]`, `None`, `start_source(l)` (since
      2159d82), `__M_nextcaller = context.caller_stack.nextcaller` (since 555117c), the
      `nextcaller = … ccall(…)` line, `try:`, `start_source(l)`, the call itself, `finally:`,
      `nextcaller = __M_nextcaller`, `None` -/
  | callTail (l : Nat)
  /-- `visitTextTag` with a filter: `_push_writer`, `try:` -/
  | textTagHead
  /-- … `start_source(l)` (since 2159d82), `finally:`, pop, the filter application, `None` -/
  | textTagTail (l : Nat)
  /-- `write_cache_decorator`: `start_source(l)` (since 2159d82), `__M_x = x`, `def x(…):` -/
  | cacheHead (l : Nat) (hdrObs : Bool)
  /-- … the `cache._ctx_get_or_create(…)` line, [`return ''`], `None` – **no `start_source`** -/
  | cacheTail (l : Nat) (buffered : Bool)
  /-- a bare `start_source(l)` (per namespace in `write_namespaces`) -/
  | mark (l : Nat)
  /-- one line written for construct `l` without a `start_source` of its own: declarations of
      `write_variable_declares`, `def body(…):`, namespace lines -/
  | mid (l : Nat) (obs : Bool) (nl : Nat)
  /-- a line no construct stands behind (module header, `_mako_get_namespace` boiler-plate, metadata) -/
  | hdr (nl : Nat)
  | none_
  | blanks (n : Nat)
  /-- the assignment at the top of `write_metadata_struct` -/
  | metaAssign
deriving DecidableEq, Repr

def emit : Item → List Event
  | .text l => [.startSource l, quiet]
  | .expr l nl => [.startSource l, line l true nl]
  | .control l loop pass =>
    [.startSource l] ++ (if loop then [line l true, quiet] else []) ++ [line l true] ++ (if pass then [quiet] else [])
  | .controlEnd loop => [dedent] ++ (if loop then [quiet, quiet, dedent] else [])
  | .code l b fudge => [.writeIndentedBlock b (some l)] ++ (if fudge then [quiet, quiet] else [])
  | .moduleCode l b => [.writeIndentedBlock b (some l)]
  | .incl l => [.startSource l, line l true]
  | .blockCall l anon => if anon then [line l true] else [quiet, line l true, .writeline (some (txt 1)) none]
  | .stub l hdrObs => [line l hdrObs, line l true, dedent]
  | .inherit l => [.startSource l, quiet, line l true, line l true, dedent]
  | .callableHead l lineArg decorated hdrObs pushBuf =>
    [.startSource lineArg] ++ (if decorated then [line l true] else []) ++ [line l hdrObs, quiet, quiet]
      ++ (if pushBuf then [quiet] else [])
  | .callableTail => [dedent, .writeBlanks 2]
  | .inlineDefHead l decorated hdrObs pushBuf =>
    [.startSource l] ++ (if decorated then [line l true] else []) ++ [line l hdrObs, quiet, quiet]
      ++ (if pushBuf then [quiet] else [])
  | .inlineDefTail => [dedent]
  | .finish l plain callstack returns retObs mark =>
    if plain then [quiet] ++ (if callstack then [quiet, quiet, dedent] else [])
    else (if mark then [.startSource l] else []) ++ [quiet, quiet] ++ (if callstack then [quiet] else []) ++ [dedent]
      ++ (if returns then [line l retObs] else [line l true, quiet])
  | .callHead l => [.startSource l, quiet]
  | .callTail l =>
    [dedent, quiet, dedent, .startSource l, quiet, line l true, quiet, .startSource l, line l true, quiet, quiet, dedent]
  | .textTagHead => [quiet, quiet]
  | .textTagTail l => [.startSource l, quiet, quiet, line l true, dedent]
  | .cacheHead l hdrObs => [.startSource l, quiet, line l hdrObs]
  | .cacheTail l buffered => if buffered then [line l true, dedent] else [line l true, quiet, dedent]
  | .mark l => [.startSource l]
  | .mid l obs nl => [line l obs nl]
  | .hdr nl => [.writeline (some (txt nl)) none]
  | .none_ => [dedent]
  | .blanks n => [.writeBlanks n]
  | .metaAssign => [.metaMark]

def emitAll (items : List Item) : List Event := items.flatMap emit

/-- the items whose observable lines are written under a `start_source` of their own line -/
def Item.marked : Item → Bool
  | .text _ | .expr _ _ | .control _ _ _ | .controlEnd _ | .code _ _ _ | .moduleCode _ _ | .incl _ => true
  | .callableHead l lineArg _ _ _ => l == lineArg
  | .callableTail | .inlineDefTail | .textTagHead | .hdr _ | .none_ | .blanks _ => true
  | .inherit _ | .inlineDefHead _ _ _ _ | .cacheHead _ _ | .callHead _ | .callTail _ | .textTagTail _ => true
  | .finish _ plain _ returns retObs mk => plain || mk || (returns && !retObs)
  | .mid _ obs _ => !obs
  | .stub _ _ | .blockCall _ _ | .cacheTail _ _ | .mark _ | .metaAssign => false

end MakoModel.Printer.Codegen
