import MakoModel.Printer.Model
/-! Helper lemmas for the printer model (line accounting, stream order). -/
namespace MakoModel.Printer
open MakoModel.Basic

/-! ## splitting -/

theorem splitNL_ne_nil (s : Str) : splitNL s ≠ [] := by
  induction s with
  | nil => simp [splitNL]
  | cons c cs ih =>
    unfold splitNL
    split
    · simp
    · split <;> simp

theorem splitNL_length (s : Str) : (splitNL s).length = 1 + countNL s := by
  induction s with
  | nil => simp [splitNL]
  | cons c cs ih =>
    unfold splitNL
    rw [countNL_cons]
    by_cases h : c = '\n'
    · simp [h, ih]; omega
    · simp only [h, if_false]
      cases hs : splitNL cs with
      | nil => exact absurd hs (splitNL_ne_nil cs)
      | cons a t => rw [hs] at ih; simp only [List.length_cons] at ih ⊢; omega

theorem splitNL_clean (s : Str) : ∀ p ∈ splitNL s, '\n' ∉ p := by
  induction s with
  | nil => simp [splitNL]
  | cons c cs ih =>
    unfold splitNL
    by_cases h : c = '\n'
    · simp only [h, if_true, List.mem_cons]
      intro p hp
      rcases hp with rfl | hp
      · simp
      · exact ih p hp
    · simp only [h, if_false]
      cases hs : splitNL cs with
      | nil => exact absurd hs (splitNL_ne_nil cs)
      | cons a t =>
        rw [hs] at ih
        intro p hp
        simp only [List.mem_cons] at hp
        rcases hp with rfl | hp
        · have := ih a (by simp)
          simp only [List.mem_cons, not_or]
          exact ⟨fun e => h e.symm, this⟩
        · exact ih p (by simp [hp])

theorem splitNL_of_clean (s : Str) (h : '\n' ∉ s) : splitNL s = [s] := by
  induction s with
  | nil => rfl
  | cons c cs ih =>
    simp only [List.mem_cons, not_or] at h
    have hc : c ≠ '\n' := fun e => h.1 e.symm
    unfold splitNL
    simp [hc, ih h.2]

/-- Python: `(a + "\n" + b).split("\n") == a.split("\n") + b.split("\n")` -/
theorem splitNL_append (a b : Str) : splitNL (a ++ '\n' :: b) = splitNL a ++ splitNL b := by
  induction a with
  | nil => simp [splitNL]
  | cons c cs ih =>
    by_cases hc : c = '\n'
    · subst hc
      simp only [List.cons_append]
      rw [splitNL, splitNL]
      simp [ih]
    · simp only [List.cons_append]
      rw [splitNL, splitNL]
      simp only [hc, if_false, ih]
      cases hs : splitNL cs with
      | nil => exact absurd hs (splitNL_ne_nil cs)
      | cons h t => simp

theorem stripCR_clean (p : Str) (h : '\n' ∉ p) : '\n' ∉ stripCR p := by
  unfold stripCR
  split
  · intro hm; exact h (List.dropLast_subset p hm)
  · exact h

theorem stripCRs_length (ps : List Str) : (stripCRs ps).length = ps.length := by
  induction ps with
  | nil => rfl
  | cons p t ih =>
    cases t with
    | nil => rfl
    | cons q r => simp only [stripCRs, List.length_cons] at ih ⊢; omega

theorem stripCRs_clean (ps : List Str) (h : ∀ p ∈ ps, '\n' ∉ p) : ∀ p ∈ stripCRs ps, '\n' ∉ p := by
  induction ps with
  | nil => simp [stripCRs]
  | cons p t ih =>
    cases t with
    | nil => simpa [stripCRs] using h
    | cons q r =>
      intro x hx
      simp only [stripCRs, List.mem_cons] at hx
      rcases hx with rfl | hx
      · exact stripCR_clean p (h p (by simp))
      · exact ih (fun y hy => h y (by simp [List.mem_cons] at hy ⊢; right; exact hy)) x (by
          simpa [stripCRs] using hx)

theorem splitLines_length (b : Str) : (splitLines b).length = 1 + countNL b := by
  simp [splitLines, stripCRs_length, splitNL_length]

theorem splitLines_clean (b : Str) : ∀ p ∈ splitLines b, '\n' ∉ p :=
  stripCRs_clean _ (splitNL_clean b)

/-! ## numbering -/

@[simp] theorem number_length (a : Nat) (ps : List Str) : (number a ps).length = ps.length := by
  induction ps generalizing a with
  | nil => rfl
  | cons p t ih => simp [number, ih]

theorem number_claimed (a : Nat) (ps : List Str) :
    (number a ps).map (·.claimed) = List.range' a ps.length := by
  induction ps generalizing a with
  | nil => rfl
  | cons p t ih => simp [number, ih, List.range'_succ]

theorem number_text (a : Nat) (ps : List Str) : (number a ps).map (·.text) = ps := by
  induction ps generalizing a with
  | nil => rfl
  | cons p t ih => simp [number, ih]

theorem number_clean (a : Nat) (ps : List Str) (h : ∀ p ∈ ps, '\n' ∉ p) :
    ∀ l ∈ number a ps, '\n' ∉ l.text := by
  induction ps generalizing a with
  | nil => simp [number]
  | cons p t ih =>
    intro l hl
    simp only [number, List.mem_cons] at hl
    rcases hl with rfl | hl
    · exact h p (by simp)
    · exact ih (a + 1) (fun q hq => h q (by simp [hq])) l hl

/-! ## stream text -/

theorem streamText_append (a b : List OutLine) : streamText (a ++ b) = streamText a ++ streamText b := by
  simp [streamText]

theorem countNL_streamText (out : List OutLine) (h : ∀ l ∈ out, '\n' ∉ l.text) :
    countNL (streamText out) = out.length := by
  induction out with
  | nil => rfl
  | cons l t ih =>
    have h1 : countNL l.text = 0 := (countNL_eq_zero_iff _).mpr (h l (by simp))
    have h2 := ih (fun x hx => h x (by simp [hx]))
    simp only [streamText, List.flatMap_cons] at h2 ⊢
    rw [countNL_append, countNL_append, h1, h2]
    simp [countNL_cons]
    omega

/-! ## accounting invariant -/

/-- `lineno` counts every physical line written or buffered, one ghost record per line, and no
    physical line contains a newline -/
structure Acc (s : State) : Prop where
  count : s.lineno = 1 + s.out.length + s.lineBuffer.length
  ghost : s.glines.length + 1 = s.lineno
  cleanOut : ∀ l ∈ s.out, '\n' ∉ l.text
  cleanBuf : ∀ l ∈ s.lineBuffer, '\n' ∉ l.text

theorem acc_init : Acc init := ⟨rfl, rfl, by simp [init], by simp [init]⟩

theorem acc_startSource (l : Nat) (s : State) (h : Acc s) : Acc (startSource l s) := by
  unfold startSource
  split
  · exact h
  · exact ⟨h.count, h.ghost, h.cleanOut, h.cleanBuf⟩

theorem acc_flush (s : State) (h : Acc s) : Acc (flush s) := by
  refine ⟨?_, h.ghost, ?_, by simp [flush]⟩
  · have := h.count; simp [flush]; omega
  · intro l hl
    simp only [flush, List.mem_append] at hl
    rcases hl with hl | hl
    · exact h.cleanOut l hl
    · exact h.cleanBuf l hl

theorem acc_emit (s : State) (h : Acc s) (ps : List Str) (o : Option Nat) (hp : ∀ p ∈ ps, '\n' ∉ p) :
    Acc (addLines ps.length o { s with out := s.out ++ number s.lineno ps }) := by
  refine ⟨?_, ?_, ?_, h.cleanBuf⟩
  · have := h.count; simp [addLines]; omega
  · have := h.ghost; simp [addLines]; omega
  · intro l hl
    simp only [addLines, List.mem_append] at hl
    rcases hl with hl | hl
    · exact h.cleanOut l hl
    · exact number_clean _ _ hp l hl

theorem acc_writeBlanks (n : Nat) (s : State) (h : Acc s) : Acc (writeBlanks n s) := by
  have := acc_emit s h (List.replicate n []) none (by
    intro p hp; rw [List.mem_replicate] at hp; simp [hp.2])
  simpa [writeBlanks] using this

theorem acc_writeline (t : Option Str) (o : Option Nat) (s : State) (h : Acc s) : Acc (writeline t o s) := by
  have h1 : Acc (if s.inIndentLines then s else { flush s with inIndentLines := true }) := by
    split
    · exact h
    · have := acc_flush s h; exact ⟨this.count, this.ghost, this.cleanOut, this.cleanBuf⟩
  unfold writeline
  cases t with
  | none => exact h1
  | some t => exact acc_emit _ h1 (splitNL t) o (splitNL_clean t)

theorem acc_blockLoop (ps : List Str) (st : Option Nat) (s : State) (h : Acc s) (hp : ∀ p ∈ ps, '\n' ∉ p) :
    Acc (blockLoop ps st s) := by
  induction ps generalizing st s with
  | nil => exact h
  | cons p t ih =>
    unfold blockLoop
    apply ih
    · have hb : ∀ l ∈ s.lineBuffer ++ [(⟨p, s.lineno⟩ : OutLine)], '\n' ∉ l.text := by
        intro l hl
        simp only [List.mem_append, List.mem_singleton] at hl
        rcases hl with hl | rfl
        · exact h.cleanBuf l hl
        · exact hp p (by simp)
      have h2 : ∀ s2 : State, s2.lineno = s.lineno + 0 → s2.out = s.out →
          s2.lineBuffer = s.lineBuffer ++ [⟨p, s.lineno⟩] → s2.glines = s.glines →
          Acc (addLines 1 st s2) := by
        intro s2 e1 e2 e3 e4
        refine ⟨?_, ?_, ?_, ?_⟩
        · have := h.count; simp [addLines, e1, e2, e3]; omega
        · have := h.ghost; simp [addLines, e1, e4]; omega
        · simpa [addLines, e2] using h.cleanOut
        · simpa [addLines, e3] using hb
      cases st with
      | none => exact h2 _ rfl rfl rfl rfl
      | some l =>
        apply h2
        · simp only [startSource]; split <;> rfl
        · simp only [startSource]; split <;> rfl
        · simp only [startSource]; split <;> rfl
        · simp only [startSource]; split <;> rfl
    · exact fun q hq => hp q (by simp [hq])

theorem acc_step (s : State) (e : Event) (h : Acc s) : Acc (step s e) := by
  cases e with
  | startSource l => exact acc_startSource l s h
  | writeline t o => exact acc_writeline t o s h
  | writeBlanks n => exact acc_writeBlanks n s h
  | writeIndentedBlock b st =>
    exact acc_blockLoop _ _ _ ⟨h.count, h.ghost, h.cleanOut, h.cleanBuf⟩ (splitLines_clean b)
  | metaMark => exact ⟨h.count, h.ghost, h.cleanOut, h.cleanBuf⟩
  | close => exact acc_flush s h

theorem acc_runFrom (s : State) (evs : List Event) (h : Acc s) : Acc (runFrom s evs) := by
  induction evs generalizing s with
  | nil => exact h
  | cons e es ih => exact ih _ (acc_step s e h)

theorem acc_run (evs : List Event) : Acc (run evs) := acc_runFrom _ _ acc_init

theorem runFrom_append (s : State) (a b : List Event) : runFrom s (a ++ b) = runFrom (runFrom s a) b := by
  simp [runFrom, List.foldl_append]

theorem run_append (a b : List Event) : run (a ++ b) = runFrom (run a) b := runFrom_append _ _ _

end MakoModel.Printer
