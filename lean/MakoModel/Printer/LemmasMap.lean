import MakoModel.Printer.Lemmas
/-! Helper lemmas for the printer model: the sparse `source_map`, its dense form, and the marks. -/
namespace MakoModel.Printer
open MakoModel.Basic

/-! ## association list -/

theorem lookup_cons_self (k v : Nat) (m : SourceMap) : List.lookup k ((k, v) :: m) = some v := by
  simp

theorem lookup_cons_ne (a k v : Nat) (m : SourceMap) (h : a ≠ k) :
    List.lookup a ((k, v) :: m) = List.lookup a m := by
  have e : (a == k) = false := by simp [h]
  rw [List.lookup_cons, e]

theorem lookup_none_of_gt (m : SourceMap) (a k : Nat) (h : ∀ p ∈ m, p.1 ≤ a) (hk : a < k) :
    m.lookup k = none := by
  induction m with
  | nil => rfl
  | cons p t ih =>
    obtain ⟨pk, pv⟩ := p
    have h1 : pk ≤ a := h (pk, pv) (by simp)
    rw [lookup_cons_ne _ _ _ _ (by omega)]
    exact ih (fun q hq => h q (by simp [hq]))

theorem lookup_mem (m : SourceMap) (k v : Nat) (h : m.lookup k = some v) : (k, v) ∈ m := by
  induction m with
  | nil => simp at h
  | cons p t ih =>
    obtain ⟨pk, pv⟩ := p
    by_cases e : k = pk
    · subst e; rw [lookup_cons_self] at h; cases h; simp
    · rw [lookup_cons_ne _ _ _ _ e] at h; simp [ih h]

/-! ## `fillAt` -/

theorem fillAt_succ (m : SourceMap) (g : Nat) :
    fillAt m (g + 1) = (m.lookup (g + 1)).getD (fillAt m g) := by
  rw [fillAt]; cases m.lookup (g + 1) <;> rfl

theorem fillAt_const (m : SourceMap) (a g : Nat) (h : ∀ p ∈ m, p.1 ≤ a) (hg : a ≤ g) :
    fillAt m g = fillAt m a := by
  induction g with
  | zero => have : a = 0 := by omega
            subst this; rfl
  | succ g ih =>
    by_cases e : a = g + 1
    · subst e; rfl
    · rw [fillAt_succ, lookup_none_of_gt m a (g + 1) h (by omega)]
      exact ih (by omega)

theorem fillAt_cons_lt (m : SourceMap) (k v g : Nat) (h : g < k) :
    fillAt ((k, v) :: m) g = fillAt m g := by
  induction g with
  | zero => rfl
  | succ g ih =>
    rw [fillAt_succ, fillAt_succ, lookup_cons_ne _ _ _ _ (by omega), ih (by omega)]

theorem fillAt_cons_self (m : SourceMap) (k v : Nat) (h : 1 ≤ k) : fillAt ((k, v) :: m) k = v := by
  cases k with
  | zero => omega
  | succ k => rw [fillAt_succ, lookup_cons_self]; rfl

/-- the loop of `get_module_source_metadata` computes `fillAt` -/
theorem fillLoop_getElem? (m : SourceMap) (n g i : Nat) :
    (fillLoop m n (g + 1) (fillAt m g))[i]? = if i < n then some (fillAt m (g + 1 + i)) else none := by
  induction n generalizing g i with
  | zero => simp [fillLoop]
  | succ n ih =>
    have e : (m.lookup (g + 1)).getD (fillAt m g) = fillAt m (g + 1) := (fillAt_succ m g).symm
    cases i with
    | zero => simp [fillLoop, e]
    | succ i =>
      simp only [fillLoop, e, List.getElem?_cons_succ]
      rw [ih (g + 1) i]
      have : g + 1 + 1 + i = g + 1 + (i + 1) := by omega
      simp [this]

theorem fullLineMap_getElem? (m : SourceMap) (i : Nat) :
    (fullLineMap m)[i]? = if i < maxKey m - 1 then some (fillAt m (i + 1)) else none := by
  have := fillLoop_getElem? m (maxKey m - 1) 0 i
  simp only [fillAt, Nat.zero_add] at this
  rw [fullLineMap, this]
  have e : 1 + i = i + 1 := by omega
  rw [e]

theorem fullLineMap_length (m : SourceMap) : (fullLineMap m).length = maxKey m - 1 := by
  have h1 := fullLineMap_getElem? m (maxKey m - 1)
  simp only [Nat.lt_irrefl, if_false] at h1
  have h1' := List.getElem?_eq_none_iff.mp h1
  by_cases h0 : maxKey m - 1 = 0
  · omega
  · have h2 := fullLineMap_getElem? m (maxKey m - 2)
    have : maxKey m - 2 < maxKey m - 1 := by omega
    simp only [this, if_true] at h2
    have := (List.getElem?_eq_some_iff.mp h2).1
    omega

theorem maxKey_cons (k v : Nat) (m : SourceMap) : maxKey ((k, v) :: m) = max k (maxKey m) := rfl

theorem maxKey_le (m : SourceMap) (a : Nat) (h : ∀ p ∈ m, p.1 ≤ a) : maxKey m ≤ a := by
  induction m with
  | nil => simp [maxKey]
  | cons p t ih =>
    obtain ⟨pk, pv⟩ := p
    rw [maxKey_cons]
    have := h (pk, pv) (by simp)
    have := ih (fun q hq => h q (by simp [hq]))
    omega

/-! ## the marks invariant -/

/-- the dense reading of `source_map` agrees with the ghost marks: for every generated line already
    emitted, and for the line that would be emitted next -/
structure Marks (s : State) : Prop where
  keys : ∀ p ∈ s.sourceMap, p.1 ≤ s.lineno
  cur : fillAt s.sourceMap s.lineno = s.mark
  past : ∀ i pl, s.glines[i]? = some pl → fillAt s.sourceMap (i + 1) = pl.mark
  ghost : s.glines.length + 1 = s.lineno

theorem marks_init : Marks init :=
  ⟨by simp [init], by simp [init, fillAt], by simp [init], rfl⟩

/-- only `lineno`, `sourceMap`, `mark`, `glines` matter -/
theorem marks_congr (s s' : State) (h : Marks s) (e1 : s'.lineno = s.lineno)
    (e2 : s'.sourceMap = s.sourceMap) (e3 : s'.mark = s.mark) (e4 : s'.glines = s.glines) : Marks s' :=
  ⟨by rw [e1, e2]; exact h.keys, by rw [e1, e2, e3]; exact h.cur, by rw [e2, e4]; exact h.past,
   by rw [e1, e4]; exact h.ghost⟩

theorem marks_startSource (l : Nat) (s : State) (h : Marks s) : Marks (startSource l s) := by
  unfold startSource
  split
  · exact h
  · have hpos : 1 ≤ s.lineno := by have := h.ghost; omega
    refine ⟨?_, ?_, ?_, h.ghost⟩
    · intro p hp
      simp only [List.mem_cons] at hp
      rcases hp with rfl | hp
      · exact Nat.le_refl _
      · exact h.keys p hp
    · exact fillAt_cons_self _ _ _ hpos
    · intro i pl hi
      have hlt : i < s.glines.length := (List.getElem?_eq_some_iff.mp hi).1
      have := h.ghost
      show fillAt ((s.lineno, l) :: s.sourceMap) (i + 1) = pl.mark
      rw [fillAt_cons_lt _ _ _ _ (by omega)]
      exact h.past i pl hi

theorem marks_addLines (k : Nat) (o : Option Nat) (s : State) (h : Marks s) : Marks (addLines k o s) := by
  refine ⟨?_, ?_, ?_, ?_⟩
  · intro p hp; have := h.keys p hp; simp only [addLines]; omega
  · show fillAt s.sourceMap (s.lineno + k) = s.mark
    rw [fillAt_const _ s.lineno _ h.keys (by omega)]; exact h.cur
  · intro i pl hi
    simp only [addLines] at hi ⊢
    rw [List.getElem?_append] at hi
    split at hi
    · exact h.past i pl hi
    · rename_i hge
      rw [List.getElem?_replicate] at hi
      split at hi
      · cases hi
        have := h.ghost
        show fillAt s.sourceMap (i + 1) = s.mark
        rw [fillAt_const _ s.lineno _ h.keys (by omega)]; exact h.cur
      · cases hi
  · have := h.ghost; simp [addLines]; omega

theorem marks_metaMark (s : State) (h : Marks s) : Marks (metaMark s) := by
  have hpos : 1 ≤ s.lineno := by have := h.ghost; omega
  refine ⟨?_, ?_, ?_, h.ghost⟩
  · intro p hp
    simp only [metaMark, List.mem_cons] at hp
    rcases hp with rfl | hp
    · exact Nat.le_refl _
    · exact h.keys p hp
  · exact fillAt_cons_self _ _ _ hpos
  · intro i pl hi
    have hlt : i < s.glines.length := (List.getElem?_eq_some_iff.mp hi).1
    have := h.ghost
    show fillAt ((s.lineno, maxKey s.sourceMap) :: s.sourceMap) (i + 1) = pl.mark
    rw [fillAt_cons_lt _ _ _ _ (by omega)]
    exact h.past i pl hi

theorem marks_flush (s : State) (h : Marks s) : Marks (flush s) := marks_congr _ _ h rfl rfl rfl rfl

theorem marks_writeBlanks (n : Nat) (s : State) (h : Marks s) : Marks (writeBlanks n s) :=
  marks_addLines _ _ _ (marks_congr _ _ h rfl rfl rfl rfl)

theorem marks_writeline (t : Option Str) (o : Option Nat) (s : State) (h : Marks s) :
    Marks (writeline t o s) := by
  have h1 : Marks (if s.inIndentLines then s else { flush s with inIndentLines := true }) := by
    split
    · exact h
    · exact marks_congr _ _ h rfl rfl rfl rfl
  unfold writeline
  cases t with
  | none => exact h1
  | some t => exact marks_addLines _ _ _ (marks_congr _ _ h1 rfl rfl rfl rfl)

theorem marks_blockLoop (ps : List Str) (st : Option Nat) (s : State) (h : Marks s) :
    Marks (blockLoop ps st s) := by
  induction ps generalizing st s with
  | nil => exact h
  | cons p t ih =>
    unfold blockLoop
    apply ih
    apply marks_addLines
    have h1 : Marks { s with lineBuffer := s.lineBuffer ++ [⟨p, s.lineno⟩] } :=
      marks_congr _ _ h rfl rfl rfl rfl
    cases st with
    | none => exact h1
    | some l => exact marks_startSource l _ h1

theorem marks_step (s : State) (e : Event) (h : Marks s) : Marks (step s e) := by
  cases e with
  | startSource l => exact marks_startSource l s h
  | writeline t o => exact marks_writeline t o s h
  | writeBlanks n => exact marks_writeBlanks n s h
  | writeIndentedBlock b st => exact marks_blockLoop _ _ _ (marks_congr _ _ h rfl rfl rfl rfl)
  | metaMark => exact marks_metaMark s h
  | close => exact marks_flush s h

theorem marks_runFrom (s : State) (evs : List Event) (h : Marks s) : Marks (runFrom s evs) := by
  induction evs generalizing s with
  | nil => exact h
  | cons e es ih => exact ih _ (marks_step s e h)

theorem marks_run (evs : List Event) : Marks (run evs) := marks_runFrom _ _ marks_init

/-! ## well-markedness -/

/-- every owned line has its owner as mark -/
def Own (gl : List PLine) : Prop := ∀ (i : Nat) (pl : PLine) (o : Nat), gl[i]? = some pl → pl.owner = some o → pl.mark = o

/-- link between the walk of `wmStep` and the printer state -/
structure WMInv (w : WM) (s : State) : Prop where
  cur : ∀ c, w.cur = some c → s.mark = c
  fresh : w.fresh = false → s.sourceMap.lookup s.lineno = none
  own : Own s.glines

theorem wminv_init : WMInv {} init := ⟨by simp, by simp [init], by simp [init, Own]⟩

theorem own_addLines (k : Nat) (o : Option Nat) (s : State)
    (hown : Own s.glines)
    (ho : o = none ∨ o = some s.mark) :
    Own (addLines k o s).glines := by
  intro i pl o' hi hpo
  simp only [addLines] at hi
  rw [List.getElem?_append] at hi
  split at hi
  · exact hown i pl o' hi hpo
  · rw [List.getElem?_replicate] at hi
    split at hi
    · cases hi
      simp only at hpo ⊢
      rcases ho with rfl | rfl
      · cases hpo
      · cases hpo; rfl
    · cases hi

theorem lookup_addLines_none (k : Nat) (o : Option Nat) (s : State) (h : Marks s) (hk : 1 ≤ k) :
    (addLines k o s).sourceMap.lookup (addLines k o s).lineno = none := by
  show s.sourceMap.lookup (s.lineno + k) = none
  exact lookup_none_of_gt _ s.lineno _ h.keys (by omega)

theorem wm_blockLoop_some (ps : List Str) (l : Nat) (s : State) (h : Marks s)
    (hown : Own s.glines)
    (hl : s.sourceMap.lookup s.lineno = none ∨ s.mark = l) :
    Own (blockLoop ps (some l) s).glines ∧
    (ps ≠ [] → (blockLoop ps (some l) s).mark = l + ps.length - 1 ∧
      (blockLoop ps (some l) s).sourceMap.lookup (blockLoop ps (some l) s).lineno = none) := by
  induction ps generalizing l s with
  | nil => exact ⟨hown, fun h => absurd rfl h⟩
  | cons p t ih =>
    unfold blockLoop
    -- the state after `line_buffer.append; start_source(l)`
    let s1 : State := { s with lineBuffer := s.lineBuffer ++ [⟨p, s.lineno⟩] }
    have hm1 : Marks s1 := marks_congr _ _ h rfl rfl rfl rfl
    have hm2 : Marks (startSource l s1) := marks_startSource l s1 hm1
    have hmark : (startSource l s1).mark = l := by
      simp only [startSource]
      split
      · rename_i v hv
        rcases hl with hl | hl
        · have : s1.sourceMap.lookup s1.lineno = none := hl
          rw [this] at hv; cases hv
        · exact hl
      · rfl
    have hg2 : (startSource l s1).glines = s.glines := by
      simp only [startSource]; split <;> rfl
    have hown2 : Own (startSource l s1).glines := by
      rw [hg2]; exact hown
    have hown3 := own_addLines 1 (some l) (startSource l s1) hown2 (Or.inr (by rw [hmark]))
    have hm3 : Marks (addLines 1 (some l) (startSource l s1)) := marks_addLines _ _ _ hm2
    have hlk3 := lookup_addLines_none 1 (some l) (startSource l s1) hm2 (Nat.le_refl 1)
    have hmark3 : (addLines 1 (some l) (startSource l s1)).mark = l := hmark
    have := ih (l + 1) (addLines 1 (some l) (startSource l s1)) hm3 hown3 (Or.inl hlk3)
    refine ⟨this.1, fun _ => ?_⟩
    cases t with
    | nil => exact ⟨by simpa [blockLoop] using hmark3, by simpa [blockLoop] using hlk3⟩
    | cons q r =>
      have h2 := this.2 (by simp)
      refine ⟨?_, h2.2⟩
      have e : l + 1 + (q :: r).length - 1 = l + (p :: q :: r).length - 1 := by
        simp only [List.length_cons]; omega
      rw [← e]; exact h2.1

theorem wm_blockLoop_none (ps : List Str) (s : State) (h : Marks s)
    (hown : Own s.glines) :
    Own (blockLoop ps none s).glines ∧
    (blockLoop ps none s).mark = s.mark ∧
    (ps ≠ [] → (blockLoop ps none s).sourceMap.lookup (blockLoop ps none s).lineno = none) := by
  induction ps generalizing s with
  | nil => exact ⟨hown, rfl, fun h => absurd rfl h⟩
  | cons p t ih =>
    unfold blockLoop
    let s1 : State := { s with lineBuffer := s.lineBuffer ++ [⟨p, s.lineno⟩] }
    have hm1 : Marks s1 := marks_congr _ _ h rfl rfl rfl rfl
    have hown3 := own_addLines 1 none s1 hown (Or.inl rfl)
    have hm3 : Marks (addLines 1 none s1) := marks_addLines _ _ _ hm1
    have hlk3 := lookup_addLines_none 1 none s1 hm1 (Nat.le_refl 1)
    have := ih (addLines 1 none s1) hm3 hown3
    refine ⟨this.1, this.2.1, fun _ => ?_⟩
    cases t with
    | nil => simpa [blockLoop] using hlk3
    | cons q r => exact this.2.2 (by simp)

theorem splitLines_ne_nil (b : Str) : splitLines b ≠ [] := by
  intro h
  have := splitLines_length b
  rw [h] at this
  simp only [List.length_nil] at this
  omega

theorem wminv_step (w w' : WM) (s : State) (e : Event) (hw : wmStep w e = some w')
    (hi : WMInv w s) (hm : Marks s) : WMInv w' (step s e) := by
  cases e with
  | startSource l =>
    simp only [wmStep] at hw
    simp only [step]
    split at hw
    · rename_i hf
      split at hw
      · rename_i hc
        cases hw
        -- redundant re-mark: whether or not the entry exists the mark stays `l`
        have hmark : s.mark = l := hi.cur l hc
        refine ⟨?_, fun hff => (by rw [hf] at hff; cases hff), ?_⟩
        · intro c hcc; rw [hc] at hcc; cases hcc
          simp only [startSource]; split
          · exact hmark
          · rfl
        · have : (startSource l s).glines = s.glines := by simp only [startSource]; split <;> rfl
          rw [this]; exact hi.own
      · cases hw
    · rename_i hf
      cases hw
      have hnone := hi.fresh (by simpa using hf)
      refine ⟨?_, fun hff => (by cases hff), ?_⟩
      · intro c hcc; cases hcc
        simp only [startSource, hnone]
      · have : (startSource l s).glines = s.glines := by simp only [startSource]; split <;> rfl
        rw [this]; exact hi.own
  | writeline t o =>
    cases t with
    | none =>
      simp only [wmStep] at hw
      cases hw
      simp only [step, writeline]
      split
      · exact hi
      · exact ⟨hi.cur, hi.fresh, hi.own⟩
    | some t =>
      simp only [wmStep] at hw
      split at hw
      · rename_i ho
        cases hw
        simp only [step, writeline]
        have hk : 1 ≤ (splitNL t).length := by rw [splitNL_length]; omega
        have ho' : ∀ s1 : State, s1.mark = s.mark → (o = none ∨ o = some s1.mark) := by
          intro s1 e
          rcases ho with h | h
          · exact Or.inl h
          · cases hc : w.cur with
            | none => left; rw [h, hc]
            | some c => right; rw [h, hc, e, hi.cur c hc]
        split
        · refine ⟨?_, fun _ => ?_, ?_⟩
          · intro c hc; exact hi.cur c hc
          · exact lookup_addLines_none _ _ _ (marks_congr _ _ hm rfl rfl rfl rfl) hk
          · exact own_addLines _ _ _ hi.own (ho' _ rfl)
        · refine ⟨?_, fun _ => ?_, ?_⟩
          · intro c hc; exact hi.cur c hc
          · exact lookup_addLines_none _ _ _ (marks_congr _ _ hm rfl rfl rfl rfl) hk
          · exact own_addLines _ _ _ hi.own (ho' _ rfl)
      · cases hw
  | writeBlanks n =>
    simp only [wmStep] at hw
    simp only [step, writeBlanks]
    split at hw
    · rename_i hn
      cases hw; subst hn
      refine ⟨hi.cur, ?_, ?_⟩
      · intro hf; simpa [addLines, number] using hi.fresh hf
      · simpa [addLines] using hi.own
    · rename_i hn
      cases hw
      refine ⟨fun c hc => hi.cur c hc, fun _ => ?_, ?_⟩
      · exact lookup_addLines_none _ _ _ (marks_congr _ _ hm rfl rfl rfl rfl) (by omega)
      · exact own_addLines _ _ _ hi.own (Or.inl rfl)
  | writeIndentedBlock b st =>
    cases st with
    | none =>
      simp only [wmStep] at hw
      cases hw
      simp only [step, writeIndentedBlock]
      have := wm_blockLoop_none (splitLines b) { s with inIndentLines := false }
        (marks_congr _ _ hm rfl rfl rfl rfl) hi.own
      refine ⟨?_, fun _ => this.2.2 (splitLines_ne_nil b), this.1⟩
      intro c hc; rw [this.2.1]; exact hi.cur c hc
    | some l =>
      simp only [wmStep] at hw
      split at hw
      · cases hw
      · rename_i hc
        cases hw
        simp only [step, writeIndentedBlock]
        have hl : s.sourceMap.lookup s.lineno = none ∨ s.mark = l := by
          by_cases hf : w.fresh = true
          · right
            have : w.cur = some l := by
              by_cases e : w.cur = some l
              · exact e
              · exact absurd ⟨hf, e⟩ hc
            exact hi.cur l this
          · left; exact hi.fresh (by simpa using hf)
        have := wm_blockLoop_some (splitLines b) l { s with inIndentLines := false }
          (marks_congr _ _ hm rfl rfl rfl rfl) hi.own hl
        have h2 := this.2 (splitLines_ne_nil b)
        refine ⟨?_, fun _ => h2.2, this.1⟩
        intro c hcc; cases hcc; exact h2.1
  | metaMark =>
    simp only [wmStep] at hw
    cases hw
    exact ⟨by simp, by simp, hi.own⟩
  | close =>
    simp only [wmStep] at hw
    cases hw
    exact ⟨hi.cur, hi.fresh, hi.own⟩

theorem wminv_runFrom (w w' : WM) (s : State) (evs : List Event) (hw : wmRun w evs = some w')
    (hi : WMInv w s) (hm : Marks s) : WMInv w' (runFrom s evs) := by
  induction evs generalizing w s with
  | nil => simp only [wmRun] at hw; cases hw; exact hi
  | cons e es ih =>
    simp only [wmRun] at hw
    cases h1 : wmStep w e with
    | none => rw [h1] at hw; cases hw
    | some w1 =>
      rw [h1] at hw
      exact ih w1 (step s e) hw (wminv_step w w1 s e h1 hi hm) (marks_step s e hm)

end MakoModel.Printer
