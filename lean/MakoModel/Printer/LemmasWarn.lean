import MakoModel.Printer.Model
/-! Helper lemmas for the traceback / warnings decision logic. -/
namespace MakoModel.Printer

namespace Tb

theorem pyGet_nat {α} (xs : List α) (i : Nat) : pyGet xs (i : Int) = xs[i]? := by
  simp [pyGet]

theorem pyGet_pred {α} (xs : List α) (g : Nat) (h : 1 ≤ g) : pyGet xs ((g : Int) - 1) = xs[g - 1]? := by
  have : ((g : Int) - 1) = ((g - 1 : Nat) : Int) := by omega
  rw [this, pyGet_nat]

theorem pyGet_neg_one {α} (xs : List α) : pyGet xs ((0 : Nat) - 1 : Int) = xs.getLast? := by
  have e : ((0 : Nat) : Int) - 1 = -1 := by omega
  rw [e]
  cases xs with
  | nil => simp [pyGet]
  | cons a t =>
    have : ¬ (0 : Int) ≤ -1 := by omega
    simp only [pyGet, this, if_false]
    simp [List.getLast?_eq_getElem?]

theorem records_frames (reg : Registry) (fs : List Frame) (rs : List Record)
    (h : records reg fs = some rs) : rs.map (·.frame) = fs := by
  induction fs generalizing rs with
  | nil => simp [records] at h; subst h; rfl
  | cons f t ih =>
    simp only [records, List.mapM_cons] at h
    cases h1 : rewrite reg f with
    | none => simp [h1] at h
    | some r =>
      cases h2 : List.mapM (rewrite reg) t with
      | none => simp [h1, h2] at h
      | some rt =>
        simp [h1, h2] at h
        subst h
        have hf : r.frame = f := by
          unfold rewrite at h1
          split at h1
          · cases h1; rfl
          · split at h1
            · cases h1
            · cases h1; rfl
        simp [hf, ih rt h2]

/-- the cache holds registry sources -/
def CacheOk (reg : Registry) (c : List (Str × Str)) : Prop :=
  ∀ n own, c.lookup n = some own → ∃ i, reg.lookup n = some i ∧ own = i.source

theorem lookup_cons_str (n k : Str) (v : Str) (c : List (Str × Str)) :
    List.lookup n ((k, v) :: c) = if n = k then some v else c.lookup n := by
  by_cases h : n = k
  · subst h; simp
  · have e : (n == k) = false := by simp [h]
    rw [List.lookup_cons, e]; simp [h]

/-- with a cache that keeps the source every record carries its own template's source -/
theorem sourcesFrom_keeps (reg : Registry) (st : List (Str × Str) × Option Str) (fs : List Frame)
    (hc : CacheOk reg st.1) :
    sourcesFrom true reg st fs = fs.map fun f => (reg.lookup f.filename).map (·.source) := by
  induction fs generalizing st with
  | nil => rfl
  | cons f t ih =>
    simp only [sourcesFrom, List.map_cons]
    cases hl : st.1.lookup f.filename with
    | some own =>
      obtain ⟨i, hi, ho⟩ := hc _ _ hl
      have e : srcStep true reg st f = ((st.1, some own), some own) := by simp [srcStep, hl]
      rw [e, hi, ho]
      simp only [Option.map_some]
      congr 1
      exact ih (st.1, some i.source) hc
    | none =>
      cases hr : reg.lookup f.filename with
      | none =>
        have e : srcStep true reg st f = (st, none) := by simp [srcStep, hl, hr]
        rw [e]; simp only [Option.map_none]; congr 1; exact ih st hc
      | some info =>
        have e : srcStep true reg st f =
            (((f.filename, info.source) :: st.1, some info.source), some info.source) := by
          simp [srcStep, hl, hr]
        rw [e]; simp only [Option.map_some]; congr 1
        apply ih
        intro n own hn
        simp only at hn
        rw [lookup_cons_str] at hn
        split at hn
        · rename_i hnk; cases hn; exact ⟨info, by rw [hnk]; exact hr, rfl⟩
        · exact hc n own hn

/-- without it: as long as only one template module occurs, every record carries its own template's source -/
theorem sourcesFrom_single (reg : Registry) (st : List (Str × Str) × Option Str) (fs : List Frame)
    (hst : ∀ n own, st.1.lookup n = some own → ∃ i, reg.lookup n = some i ∧ st.2 = some i.source)
    (hone : ∀ f ∈ fs, ∀ g ∈ fs, reg.lookup f.filename ≠ none → reg.lookup g.filename ≠ none → f.filename = g.filename)
    (hseen : ∀ n own, st.1.lookup n = some own → ∀ f ∈ fs, reg.lookup f.filename ≠ none → f.filename = n) :
    sourcesFrom false reg st fs = fs.map fun f => (reg.lookup f.filename).map (·.source) := by
  induction fs generalizing st with
  | nil => rfl
  | cons f t ih =>
    have ht1 : ∀ a ∈ t, ∀ g ∈ t, reg.lookup a.filename ≠ none → reg.lookup g.filename ≠ none → a.filename = g.filename :=
      fun a ha g hg => hone a (by simp [ha]) g (by simp [hg])
    simp only [sourcesFrom, List.map_cons]
    cases hl : st.1.lookup f.filename with
    | some own =>
      obtain ⟨i, hi, hcur⟩ := hst _ _ hl
      have e : srcStep false reg st f = (st, st.2) := by simp [srcStep, hl]
      rw [e, hi, hcur]
      simp only [Option.map_some]
      congr 1
      exact ih st hst ht1 (fun n own hn g hg => hseen n own hn g (by simp [hg]))
    | none =>
      cases hr : reg.lookup f.filename with
      | none =>
        have e : srcStep false reg st f = (st, none) := by simp [srcStep, hl, hr]
        rw [e]; simp only [Option.map_none]; congr 1
        exact ih st hst ht1 (fun n own hn g hg => hseen n own hn g (by simp [hg]))
      | some info =>
        have e : srcStep false reg st f =
            (((f.filename, info.source) :: st.1, some info.source), some info.source) := by
          simp [srcStep, hl, hr]
        have hreg : reg.lookup f.filename ≠ none := by rw [hr]; simp
        rw [e]; simp only [Option.map_some]; congr 1
        apply ih
        · intro n own hn
          simp only at hn
          rw [lookup_cons_str] at hn
          split at hn
          · rename_i hnk; cases hn; exact ⟨info, by rw [hnk]; exact hr, rfl⟩
          · rename_i hnk
            have := hseen n own hn f (by simp) hreg
            exact absurd this.symm hnk
        · exact ht1
        · intro n own hn g hg hgr
          simp only at hn
          rw [lookup_cons_str] at hn
          split at hn
          · rename_i hnk; rw [hnk]; exact hone g (by simp [hg]) f (by simp) hgr hreg
          · exact hseen n own hn g (by simp [hg]) hgr

theorem pickLine_innermost (pre post : List Record) (r : Record) (fn : Str) (ln : Nat)
    (hr : r.hit = some (fn, ln)) (hpost : ∀ q ∈ post, q.hit = none) :
    pickLine (pre ++ r :: post) = some (fn, ln) := by
  unfold pickLine
  rw [List.reverse_append, List.reverse_cons, List.append_assoc, List.findSome?_append]
  have h1 : post.reverse.findSome? Record.hit = none := by
    rw [List.findSome?_eq_none_iff]
    intro q hq
    exact hpost q (List.mem_reverse.mp hq)
  rw [h1]
  simp [hr]

theorem pickLine_none_iff (rs : List Record) : pickLine rs = none ↔ ∀ q ∈ rs, q.hit = none := by
  unfold pickLine
  rw [List.findSome?_eq_none_iff]
  constructor
  · intro h q hq; exact h q (List.mem_reverse.mpr hq)
  · intro h q hq; exact h q (List.mem_reverse.mp hq)

end Tb

namespace Warn

/-- the warnings one literal produces while the fragments are parsed: file `<unknown>`, raised inside
    the drop hook -/
def IsParse (pw : Phase × W) : Prop :=
  (pw.1 = .parse ∨ pw.1 = .parseInModule) ∧ pw.2.filename = exprFilename

/-- the warnings raised against the generated module -/
def IsModule (moduleId : Str) (pw : Phase × W) : Prop :=
  pw.1 = .module ∧ pw.2.filename = moduleId

theorem hook_parse (M F : Str) (fm : List Nat) (pw : Phase × W) (h : IsParse pw) :
    hook M F fm pw.1 pw.2 = (none, true) := by
  obtain ⟨ph, w⟩ := pw
  obtain ⟨hp, hf⟩ := h
  simp only at hp hf
  rcases hp with rfl | rfl
  · simp [hook, dropLocate, hf]
  · simp [hook, dropLocate, hf]

theorem hook_module (M F : Str) (fm : List Nat) (pw : Phase × W) (h : IsModule M pw) :
    hook M F fm pw.1 pw.2 = (some (translateLocate M F fm pw.2), false) := by
  obtain ⟨ph, w⟩ := pw
  obtain ⟨hp, _⟩ := h
  simp only at hp
  subst hp
  rfl

/-- where a module warning is shown -/
def shownAs (M F : Str) (fm : List Nat) (w : W) : Str × Str × Nat :=
  (w.text, (translateLocate M F fm w).1, (translateLocate M F fm w).2)

theorem translate_hit (M F : Str) (fm : List Nat) (w : W) (t : Nat) (hf : w.filename = M)
    (h : Tb.pyGet fm ((w.lineno : Int) - 1) = some t) : translateLocate M F fm w = (F, t) := by
  simp [translateLocate, hf, h]

theorem translate_other (M F : Str) (fm : List Nat) (w : W) (hf : w.filename ≠ M) :
    translateLocate M F fm w = (w.filename, w.lineno) := by
  simp [translateLocate, hf]

/-- folding `emit` over parse-phase warnings under `always`/`once` changes nothing -/
theorem foldl_parse (act : Action) (ha : act = .always ∨ act = .once) (M F : Str) (fm : List Nat)
    (r : Result) (hr : r.raised = none) (ws : List (Phase × W)) (h : ∀ pw ∈ ws, IsParse pw) :
    ws.foldl (emit act M F fm) r = r := by
  induction ws with
  | nil => rfl
  | cons pw t ih =>
    have hp := hook_parse M F fm pw (h pw (by simp))
    have : emit act M F fm r pw = r := by
      obtain ⟨ph, w⟩ := pw
      simp only at hp
      rcases ha with rfl | rfl
      · simp [emit, hr, hp]
      · simp only [emit, hr, Option.isSome_none, Bool.false_eq_true, if_false, hp]
        split <;> rfl
    rw [List.foldl_cons, this]
    exact ih (fun q hq => h q (by simp [hq]))

theorem foldl_always_module (M F : Str) (fm : List Nat) (r : Result) (hr : r.raised = none)
    (ws : List (Phase × W)) (h : ∀ pw ∈ ws, IsModule M pw) :
    ws.foldl (emit .always M F fm) r =
      { r with shown := r.shown ++ ws.map fun pw => shownAs M F fm pw.2 } := by
  induction ws generalizing r with
  | nil => simp
  | cons pw t ih =>
    have hp := hook_module M F fm pw (h pw (by simp))
    have e : emit .always M F fm r pw = { r with shown := r.shown ++ [shownAs M F fm pw.2] } := by
      obtain ⟨ph, w⟩ := pw
      simp only at hp
      simp [emit, hr, hp, shownAs]
    rw [List.foldl_cons, e]
    have := ih { r with shown := r.shown ++ [shownAs M F fm pw.2] } hr (fun q hq => h q (by simp [hq]))
    rw [this]
    simp

/-- `once`: the warnings that get through, given the texts already in the once-registry -/
def onceShown (seen : List Str) : List W → List W
  | [] => []
  | w :: ws => if w.text ∈ seen then onceShown seen ws else w :: onceShown (w.text :: seen) ws

theorem foldl_once_module (M F : Str) (fm : List Nat) (r : Result) (hr : r.raised = none)
    (ws : List (Phase × W)) (h : ∀ pw ∈ ws, IsModule M pw) :
    (ws.foldl (emit .once M F fm) r).shown =
      r.shown ++ (onceShown r.onceReg (ws.map (·.2))).map (shownAs M F fm) ∧
    (ws.foldl (emit .once M F fm) r).raised = none := by
  induction ws generalizing r with
  | nil => simp [onceShown, hr]
  | cons pw t ih =>
    have hp := hook_module M F fm pw (h pw (by simp))
    have ht : ∀ q ∈ t, IsModule M q := fun q hq => h q (by simp [hq])
    obtain ⟨ph, w⟩ := pw
    simp only at hp
    by_cases hm : w.text ∈ r.onceReg
    · have e : emit .once M F fm r (ph, w) = r := by simp [emit, hr, hm]
      rw [List.foldl_cons, e]
      have := ih r hr ht
      simpa [onceShown, hm] using this
    · have e : emit .once M F fm r (ph, w) =
          { r with shown := r.shown ++ [shownAs M F fm w], onceReg := w.text :: r.onceReg } := by
        simp [emit, hr, hm, hp, shownAs]
      rw [List.foldl_cons, e]
      have := ih { r with shown := r.shown ++ [shownAs M F fm w], onceReg := w.text :: r.onceReg } hr ht
      simpa [onceShown, hm] using this

theorem onceShown_texts_nodup (seen : List Str) (ws : List W) :
    ((onceShown seen ws).map (·.text)).Nodup ∧ ∀ w ∈ onceShown seen ws, w.text ∉ seen := by
  induction ws generalizing seen with
  | nil => simp [onceShown]
  | cons w t ih =>
    unfold onceShown
    split
    · exact ih seen
    · rename_i hm
      have := ih (w.text :: seen)
      refine ⟨?_, ?_⟩
      · simp only [List.map_cons, List.nodup_cons]
        refine ⟨?_, this.1⟩
        intro hin
        simp only [List.mem_map] at hin
        obtain ⟨x, hx, hxe⟩ := hin
        have := this.2 x hx
        simp [hxe] at this
      · intro x hx
        simp only [List.mem_cons] at hx
        rcases hx with rfl | hx
        · exact hm
        · have := this.2 x hx
          simp only [List.mem_cons, not_or] at this
          exact this.2

theorem onceShown_complete (seen : List Str) (ws : List W) (w : W) (hw : w ∈ ws) (hs : w.text ∉ seen) :
    w.text ∈ (onceShown seen ws).map (·.text) := by
  induction ws generalizing seen with
  | nil => simp at hw
  | cons a t ih =>
    unfold onceShown
    simp only [List.mem_cons] at hw
    split
    · rename_i hm
      rcases hw with rfl | hw
      · exact absurd hm hs
      · exact ih seen hw hs
    · rename_i hm
      simp only [List.map_cons, List.mem_cons]
      rcases hw with rfl | hw
      · left; rfl
      · by_cases e : w.text = a.text
        · left; exact e
        · right
          exact ih (a.text :: seen) hw (by simp [e, hs])

end Warn

end MakoModel.Printer
