import MakoModel.Printer.Codegen
import MakoModel.Printer.LemmasMap
/-! Helper lemmas: the marked items of the emission skeleton form well-marked sequences. -/
set_option linter.unusedSimpArgs false
namespace MakoModel.Printer.Codegen
open MakoModel.Printer

theorem wmRun_append (w : WM) (a b : List Event) :
    wmRun w (a ++ b) = (wmRun w a).bind (wmRun · b) := by
  induction a generalizing w with
  | nil => simp [wmRun]
  | cons e t ih =>
    simp only [List.cons_append, wmRun]
    cases h : wmStep w e with
    | none => simp
    | some w1 => simp [ih]

/-- a marked item keeps the walk going, and leaves it with a line written since the last `start_source` -/
theorem wm_item (it : Item) (w : WM) (hf : w.fresh = false) (hm : it.marked = true) :
    ∃ w', wmRun w (emit it) = some w' ∧ w'.fresh = false := by
  cases it with
  | text l => simp [emit, wmRun, wmStep, quiet, hf]
  | expr l nl => simp [emit, wmRun, wmStep, line, hf]
  | control l loop pass =>
    cases loop <;> cases pass <;> simp [emit, wmRun, wmStep, line, quiet, hf]
  | controlEnd loop => cases loop <;> simp [emit, wmRun, wmStep, quiet, dedent, hf]
  | code l b fudge => cases fudge <;> simp [emit, wmRun, wmStep, quiet, hf]
  | moduleCode l b => simp [emit, wmRun, wmStep, hf]
  | incl l => simp [emit, wmRun, wmStep, line, hf]
  | blockCall l anon => simp [Item.marked] at hm
  | stub l o => simp [Item.marked] at hm
  | inherit l => simp [emit, wmRun, wmStep, line, quiet, dedent, hf]
  | callableHead l lineArg decorated hdrObs pushBuf =>
    simp only [Item.marked, beq_iff_eq] at hm
    subst hm
    cases decorated <;> cases hdrObs <;> cases pushBuf <;> simp [emit, wmRun, wmStep, line, quiet, hf]
  | callableTail => simp [emit, wmRun, wmStep, dedent, hf]
  | inlineDefHead l decorated hdrObs pushBuf =>
    cases decorated <;> cases hdrObs <;> cases pushBuf <;> simp [emit, wmRun, wmStep, line, quiet, hf]
  | inlineDefTail => simp [emit, wmRun, wmStep, dedent, hf]
  | finish l plain callstack returns retObs mark =>
    simp only [Item.marked, Bool.or_eq_true, Bool.and_eq_true, Bool.not_eq_true'] at hm
    rcases hm with (hp | hk) | ⟨hr, ho⟩
    · subst hp
      cases callstack <;> simp [emit, wmRun, wmStep, quiet, dedent, hf]
    · subst hk
      cases plain <;> cases callstack <;> cases returns <;> cases retObs <;>
        simp [emit, wmRun, wmStep, line, quiet, dedent, hf]
    · subst hr; subst ho
      cases plain <;> cases callstack <;> cases mark <;> simp [emit, wmRun, wmStep, line, quiet, dedent, hf]
  | callHead l => simp [emit, wmRun, wmStep, quiet, hf]
  | callTail l => simp [emit, wmRun, wmStep, line, quiet, dedent, hf]
  | textTagHead => simp [emit, wmRun, wmStep, quiet, hf]
  | textTagTail l => simp [emit, wmRun, wmStep, line, quiet, dedent, hf]
  | cacheHead l hdrObs => cases hdrObs <;> simp [emit, wmRun, wmStep, line, quiet, hf]
  | cacheTail l b => simp [Item.marked] at hm
  | mark l => simp [Item.marked] at hm
  | mid l obs nl =>
    simp only [Item.marked, Bool.not_eq_true'] at hm
    subst hm
    simp [emit, wmRun, wmStep, line, hf]
  | hdr nl => simp [emit, wmRun, wmStep, hf]
  | none_ => simp [emit, wmRun, wmStep, dedent, hf]
  | blanks n =>
    by_cases h0 : n = 0
    · simp [emit, wmRun, wmStep, h0, hf]
    · simp [emit, wmRun, wmStep, h0]
  | metaAssign => simp [Item.marked] at hm

theorem wm_items (items : List Item) (w : WM) (hf : w.fresh = false)
    (hm : ∀ it ∈ items, it.marked = true) :
    ∃ w', wmRun w (emitAll items) = some w' ∧ w'.fresh = false := by
  induction items generalizing w with
  | nil => exact ⟨w, rfl, hf⟩
  | cons it t ih =>
    obtain ⟨w1, h1, f1⟩ := wm_item it w hf (hm it (by simp))
    obtain ⟨w2, h2, f2⟩ := ih w1 f1 (fun x hx => hm x (by simp [hx]))
    refine ⟨w2, ?_, f2⟩
    simp only [emitAll, List.flatMap_cons]
    rw [wmRun_append, h1]
    exact h2

end MakoModel.Printer.Codegen
