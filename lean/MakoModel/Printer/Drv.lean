import MakoModel.Basic.Wire
import MakoModel.Printer.Model
import MakoModel.Printer.Codegen
import MakoModel.Generated.TbCfg
/-!
Driver handler of the printer / line-map model: op `printer`.

* `printer run <ev> <ev> …` – an emission event sequence.  Event tokens:
  `S:<l>` start_source, `W:<owner|n>:<text>` writeline, `N` writeline(None), `B:<n>` write_blanks,
  `I:<start|n>:<block>` write_indented_block, `M` the metadata assignment, `C` close.
  Answer: `lineno=… map=k:v,… full=… wm=0|1 nbp=0|1 claimed=… buf=… marks=… owners=… nl=… err=0|1`
  (`map` is the serialised dict: sorted by key, the effective value per key; `err=1`: `max()` of an
  empty source_map was taken).
* `printer tb <registered 0|1> <lineno> <fullmap> <ntemplatelines>` – `Tb.rewrite`.
* `printer pick <tl|p> …` – `Tb.pickLine` (index of the chosen record, `none`).
* `printer warn <action> <fullmap> <reg textids> <w> …` with `w = <phase p|m|b>:<file u|m|o>:<lineno>:<textid>`.
-/
namespace MakoModel.Printer.Drv
open MakoModel.Wire MakoModel.Printer

def decNatList (f : String) : Option (List Nat) :=
  if f == "-" then some [] else (f.splitOn ",").mapM (·.toNat?)

def encNatList (xs : List Nat) : String :=
  if xs.isEmpty then "-" else ",".intercalate (xs.map toString)

def decOptNat (f : String) : Option (Option Nat) :=
  if f == "n" then some none else f.toNat?.map some

def decEvent (tok : String) : Option Event :=
  match tok.splitOn ":" with
  | ["S", l] => do let l ← l.toNat?; pure (.startSource l)
  | ["W", o, t] => do let o ← decOptNat o; let t ← decStr t; pure (.writeline (some t) o)
  | ["N"] => some (.writeline none none)
  | ["B", n] => do let n ← n.toNat?; pure (.writeBlanks n)
  | ["I", st, b] => do let st ← decOptNat st; let b ← decStr b; pure (.writeIndentedBlock b st)
  | ["M"] => some .metaMark
  | ["C"] => some .close
  | _ => none

/-- the dict the real `source_map` is: keys ascending, effective (first-match) value -/
def canonMap (m : SourceMap) : List (Nat × Nat) :=
  let keys := (m.map (·.1)).eraseDups
  let sorted := keys.mergeSort (· ≤ ·)
  sorted.filterMap fun k => (m.lookup k).map fun v => (k, v)

def encMap (m : List (Nat × Nat)) : String :=
  if m.isEmpty then "-" else ",".intercalate (m.map fun p => s!"{p.1}:{p.2}")

def runChecked (evs : List Event) : State × Bool :=
  evs.foldl (fun (acc : State × Bool) e =>
    let bad := match e with
      | .metaMark => acc.1.sourceMap.isEmpty
      | _ => false
    (step acc.1 e, acc.2 || bad)) (init, false)

def encOptNats (xs : List (Option Nat)) : String :=
  if xs.isEmpty then "-" else ",".intercalate (xs.map fun | none => "n" | some v => toString v)

def handleRun (toks : List String) : Option String := do
  let evs ← toks.mapM decEvent
  let (s, err) := runChecked evs
  let m := canonMap s.sourceMap
  pure <| " ".intercalate
    [ s!"lineno={s.lineno}", "map=" ++ encMap m, "full=" ++ encNatList (fullLineMap s.sourceMap),
      "wm=" ++ encBool (wellMarked evs), "nbp=" ++ encBool (noBlankWhilePending evs),
      "claimed=" ++ encNatList (s.out.map (·.claimed)), s!"buf={s.lineBuffer.length}",
      "marks=" ++ encNatList (s.glines.map (·.mark)),
      "owners=" ++ encOptNats (s.glines.map (·.owner)),
      s!"nl={Basic.countNL (streamText s.out)}", "err=" ++ encBool err ]

def handleTb : List String → Option String
  | [reg, ln, fm, nt] => do
    let reg ← decBool reg
    let ln ← ln.toNat?
    let fm ← decNatList fm
    let nt ← nt.toNat?
    -- template line `i` is represented by the one-character string with code point `i`
    let lines : List Str := (List.range nt).map fun i => [Char.ofNat (i + 1)]
    let registry : Tb.Registry := if reg then [(['m'], ⟨fm, lines, ['t'], []⟩)] else []
    let f : Tb.Frame := ⟨['m'], ln, ['f'], ['l']⟩
    match Tb.rewrite registry f with
    | none => pure "err"
    | some r =>
      -- what `.traceback` / the error templates show: template coordinates or the raw ones
      let ref := if (Tb.reformat r).1 = ['t'] then "t" else "r"
      match r.tmpl with
      | none => pure s!"plain ref={ref}"
      | some (_, tl, line) =>
        let l := match line with
          | none => "none"
          | some [c] => toString (c.toNat - 1)
          | some _ => "?"
        pure s!"tl={tl} line={l} ref={ref}"
  | _ => none

def handlePick (toks : List String) : Option String := do
  let recs ← toks.mapM fun t =>
    if t == "p" then some (Tb.Record.mk ⟨[], 0, [], []⟩ none)
    else t.toNat?.map fun n => Tb.Record.mk ⟨[], 0, [], []⟩ (some (['t'], n, none))
  -- identify the chosen record by re-running the search with indices as file names
  let tagged := recs.zipIdx.map fun (r, i) =>
    match r.tmpl with
    | none => r
    | some (_, n, l) => { r with tmpl := some ((toString i).toList, n, l) }
  match Tb.pickLine tagged with
  | none => pure "none"
  | some (fn, ln) => pure s!"{String.ofList fn}:{ln}"

def fileOf : String → Option Str
  | "u" => some Warn.exprFilename
  | "m" => some ['M']
  | "o" => some ['O']
  | _ => none

def encFile (f : Str) : String :=
  if f = Warn.exprFilename then "u" else if f = ['M'] then "m" else if f = ['O'] then "o"
  else if f = ['T'] then "t" else "?"

def handleWarn : List String → Option String
  | act :: fm :: reg :: ws => do
    let act ← match act with
      | "always" => some Warn.Action.always | "once" => some .once
      | "error" => some .error | "ignore" => some .ignore | _ => none
    let fm ← decNatList fm
    let reg ← decNatList reg
    let ws ← ws.mapM fun t =>
      match t.splitOn ":" with
      | [ph, f, ln, tx] => do
        let ph ← match ph with
          | "p" => some Warn.Phase.parse | "m" => some .module | "b" => some .parseInModule
          | "n" => some .bare | _ => none
        let f ← fileOf f
        let ln ← ln.toNat?
        let tx ← tx.toNat?
        pure (ph, (⟨[Char.ofNat tx], f, ln⟩ : Warn.W))
      | _ => none
    let r := Warn.compile act ['M'] ['T'] fm (reg.map fun i => [Char.ofNat i]) ws
    let shown := r.shown.map fun (t, f, l) => s!"{(t.headD 'x').toNat}:{encFile f}:{l}"
    let raised := match r.raised with
      | none => "none"
      | some w => s!"{(w.text.headD 'x').toNat}:{encFile w.filename}:{w.lineno}"
    let regOut := (r.onceReg.map fun t => (t.headD 'x').toNat).mergeSort (· ≤ ·)
    pure <| " ".intercalate
      [ "shown=" ++ (if shown.isEmpty then "-" else ",".intercalate shown), "raised=" ++ raised,
        "reg=" ++ encNatList regOut.eraseDups ]
  | _ => none

def encEvent : Event → String
  | .startSource l => s!"S:{l}"
  | .writeline none _ => "N"
  | .writeline (some t) o => "W:" ++ (match o with | none => "n" | some v => toString v) ++ ":" ++ encStr t
  | .writeBlanks n => s!"B:{n}"
  | .writeIndentedBlock b st => "I:" ++ (match st with | none => "n" | some v => toString v) ++ ":" ++ encStr b
  | .metaMark => "M"
  | .close => "C"

def decItem (tok : String) : Option Codegen.Item :=
  let b (f : String) : Option Bool := decBool f
  match tok.splitOn ":" with
  | ["text", l] => do pure (.text (← l.toNat?))
  | ["expr", l, nl] => do pure (.expr (← l.toNat?) (← nl.toNat?))
  | ["control", l, lp, ps] => do pure (.control (← l.toNat?) (← b lp) (← b ps))
  | ["cend", lp] => do pure (.controlEnd (← b lp))
  | ["code", l, fu, blk] => do pure (.code (← l.toNat?) (← decStr blk) (← b fu))
  | ["mcode", l, blk] => do pure (.moduleCode (← l.toNat?) (← decStr blk))
  | ["incl", l] => do pure (.incl (← l.toNat?))
  | ["block", l, an] => do pure (.blockCall (← l.toNat?) (← b an))
  | ["stub", l, ob] => do pure (.stub (← l.toNat?) (← b ob))
  | ["inherit", l] => do pure (.inherit (← l.toNat?))
  | ["chead", l, a, d, ob, pu] => do pure (.callableHead (← l.toNat?) (← a.toNat?) (← b d) (← b ob) (← b pu))
  | ["ctail"] => some .callableTail
  | ["ihead", l, d, ob, pu] => do pure (.inlineDefHead (← l.toNat?) (← b d) (← b ob) (← b pu))
  | ["itail"] => some .inlineDefTail
  | ["finish", l, pl, cs, rt, ob, mk] => do pure (.finish (← l.toNat?) (← b pl) (← b cs) (← b rt) (← b ob) (← b mk))
  | ["callhead", l] => do pure (.callHead (← l.toNat?))
  | ["calltail", l] => do pure (.callTail (← l.toNat?))
  | ["tthead"] => some .textTagHead
  | ["tttail", l] => do pure (.textTagTail (← l.toNat?))
  | ["cachehead", l, ob] => do pure (.cacheHead (← l.toNat?) (← b ob))
  | ["cachetail", l, bu] => do pure (.cacheTail (← l.toNat?) (← b bu))
  | ["mark", l] => do pure (.mark (← l.toNat?))
  | ["mid", l, ob, nl] => do pure (.mid (← l.toNat?) (← b ob) (← nl.toNat?))
  | ["hdr", nl] => do pure (.hdr (← nl.toNat?))
  | ["none"] => some .none_
  | ["blanks", n] => do pure (.blanks (← n.toNat?))
  | ["meta"] => some .metaAssign
  | _ => none

/-- `printer emitall <item> …`: the event sequence of the skeleton, `wellMarked` of it, and whether all items are marked -/
def handleEmitAll (toks : List String) : Option String := do
  let items ← toks.mapM decItem
  let evs := Codegen.emitAll items
  pure <| "wm=" ++ encBool (wellMarked evs) ++ " marked=" ++ encBool (items.all (·.marked)) ++ " " ++
    " ".intercalate (evs.map encEvent)

def encPhase : Warn.Phase → String
  | .parse => "p" | .module => "m" | .parseInModule => "b" | .bare => "n"

/-- `printer plan <upToDate 0|1> <accepted 0|1>`: the steps of `_compile_from_file` and their hook stacks -/
def handlePlan : List String → Option String
  | [u, a] => do
    let u ← decBool u
    let a ← decBool a
    pure <| " ".intercalate ((Warn.compileFromFilePlan u a).map fun (st, ph) =>
      (match st with | .regen => "regen" | .load => "load") ++ ":" ++ encPhase ph)
  | _ => none

/-- `printer srcs <A|B|C|p> …` (cache variant = the regenerated `TbCfg.modsCacheKeepsSource`): the source attached to each record; templates A, B, C are registered with
    the sources `a`, `b`, `c`; `p` is a plain frame.  Answer: one of `a b c n` per frame. -/
def handleSrcs (toks : List String) : Option String := do
  let keeps := Generated.TbCfg.modsCacheKeepsSource
  let reg : Tb.Registry := [(['A'], ⟨[1], [], ['A'], ['a']⟩), (['B'], ⟨[1], [], ['B'], ['b']⟩),
                            (['C'], ⟨[1], [], ['C'], ['c']⟩)]
  let fs ← toks.mapM fun t =>
    if t == "p" then some (Tb.Frame.mk ['p'] 1 [] []) else
    if t == "A" || t == "B" || t == "C" then some (Tb.Frame.mk t.toList 1 [] []) else none
  pure <| " ".intercalate ((Tb.recordSources keeps reg fs).map fun
    | none => "n"
    | some s => String.ofList s)

def handle : Handler
  | "run" :: toks => handleRun toks
  | "srcs" :: toks => handleSrcs toks
  | "plan" :: rest => handlePlan rest
  | "emitall" :: toks => handleEmitAll toks
  | "tb" :: rest => handleTb rest
  | "pick" :: rest => handlePick rest
  | "warn" :: rest => handleWarn rest
  | _ => none

end MakoModel.Printer.Drv
