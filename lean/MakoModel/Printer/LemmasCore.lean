import MakoModel.Printer.LemmasMap
/-!
The *mark machine*: what `start_source` / line emission / the metadata assignment do to the mapping,
without the sparse map.  The printer refines it (`proj_step`), which gives: stream order, stability of
entries, and the "forgotten `start_source`" diagnostic.
-/
namespace MakoModel.Printer
open MakoModel.Basic

/-! ## stream order -/

structure Ord (p : Bool) (s : State) : Prop where
  pos : 1 ≤ s.lineno
  order : (s.out ++ s.lineBuffer).map (·.claimed) = List.range' 1 (s.lineno - 1)
  pend : p = false → s.lineBuffer = []
  ind : s.inIndentLines = true → s.lineBuffer = []

theorem ord_init : Ord false init := ⟨by simp [init], by simp [init], fun _ => rfl, fun _ => rfl⟩

theorem ord_emit (p : Bool) (s : State) (h : Ord p s) (hb : s.lineBuffer = []) (ps : List Str) (o : Option Nat) :
    Ord p (addLines ps.length o { s with out := s.out ++ number s.lineno ps }) := by
  refine ⟨?_, ?_, fun _ => hb, fun _ => hb⟩
  · have := h.pos; simp only [addLines]; omega
  · have h1 := h.order
    rw [hb, List.append_nil] at h1
    simp only [addLines, hb, List.append_nil, List.map_append, h1, number_claimed]
    have hp := h.pos
    have e : s.lineno = 1 + (s.lineno - 1) := by omega
    conv => lhs; arg 2; rw [e]
    rw [List.range'_append_1]
    congr 1; omega

theorem ord_blockLoop (ps : List Str) (st : Option Nat) (s : State) (p : Bool) (h : Ord p s)
    (hi : s.inIndentLines = false) :
    Ord true (blockLoop ps st s) := by
  induction ps generalizing st s p with
  | nil => exact ⟨h.pos, h.order, fun e => (by cases e), fun e => (by simp only [blockLoop] at e; rw [hi] at e; cases e)⟩
  | cons q t ih =>
    unfold blockLoop
    have key : ∀ s2 : State, s2.lineno = s.lineno → s2.out = s.out →
        s2.lineBuffer = s.lineBuffer ++ [⟨q, s.lineno⟩] → s2.inIndentLines = false →
        Ord true (addLines 1 st s2) := by
      intro s2 e1 e2 e3 e4
      refine ⟨?_, ?_, fun e => (by cases e), fun e => ?_⟩
      · have := h.pos; simp only [addLines, e1]; omega
      · have h1 := h.order
        have hp := h.pos
        simp only [addLines, e1, e2, e3, ← List.append_assoc, List.map_append, h1]
        have e : s.lineno + 1 - 1 = (s.lineno - 1) + 1 := by omega
        rw [e, List.range'_concat]
        simp; omega
      · simp only [addLines] at e; rw [e4] at e; cases e
    have hii : ∀ s2 : State, s2.inIndentLines = false → (addLines 1 st s2).inIndentLines = false :=
      fun s2 e => e
    cases st with
    | none => exact ih _ _ _ (key _ rfl rfl rfl hi) (hii _ hi)
    | some l =>
      have a1 : (startSource l { s with lineBuffer := s.lineBuffer ++ [⟨q, s.lineno⟩] }).lineno = s.lineno := by
        simp only [startSource]; split <;> rfl
      have a2 : (startSource l { s with lineBuffer := s.lineBuffer ++ [⟨q, s.lineno⟩] }).out = s.out := by
        simp only [startSource]; split <;> rfl
      have a3 : (startSource l { s with lineBuffer := s.lineBuffer ++ [⟨q, s.lineno⟩] }).lineBuffer
          = s.lineBuffer ++ [⟨q, s.lineno⟩] := by
        simp only [startSource]; split <;> rfl
      have a4 : (startSource l { s with lineBuffer := s.lineBuffer ++ [⟨q, s.lineno⟩] }).inIndentLines = false := by
        simp only [startSource]; split <;> exact hi
      exact ih _ _ _ (key _ a1 a2 a3 a4) (hii _ a4)

theorem ord_step (p p' : Bool) (s : State) (e : Event) (hp : pendStep p e = some p') (h : Ord p s) :
    Ord p' (step s e) := by
  cases e with
  | startSource l =>
    simp only [pendStep] at hp; cases hp
    simp only [step, startSource]
    split
    · exact h
    · exact ⟨h.pos, h.order, h.pend, h.ind⟩
  | writeline t o =>
    simp only [pendStep] at hp; cases hp
    simp only [step, writeline]
    have h1 : Ord false (if s.inIndentLines then s else { flush s with inIndentLines := true }) ∧
        (if s.inIndentLines then s else { flush s with inIndentLines := true }).lineBuffer = [] := by
      split
      · rename_i hi
        exact ⟨⟨h.pos, h.order, fun _ => h.ind hi, h.ind⟩, h.ind hi⟩
      · refine ⟨⟨h.pos, ?_, fun _ => rfl, fun _ => rfl⟩, rfl⟩
        simpa [flush] using h.order
    cases t with
    | none => exact h1.1
    | some t => exact ord_emit _ _ h1.1 h1.2 _ _
  | writeBlanks n =>
    simp only [pendStep] at hp
    split at hp
    · cases hp
    · rename_i hc
      cases hp
      by_cases hn : n = 0
      · subst hn
        simp only [step, writeBlanks, List.replicate, number, List.append_nil]
        exact ⟨h.pos, by simpa [addLines] using h.order, h.pend, h.ind⟩
      · have hpf : p = false := by
          cases p with
          | false => rfl
          | true => exact absurd ⟨rfl, hn⟩ hc
        have hb := h.pend hpf
        have := ord_emit p s h hb (List.replicate n []) none
        simpa [step, writeBlanks] using this
  | writeIndentedBlock b st =>
    simp only [pendStep] at hp; cases hp
    simp only [step, writeIndentedBlock]
    exact ord_blockLoop _ _ _ p ⟨h.pos, h.order, h.pend, fun e => (by cases e)⟩ rfl
  | metaMark =>
    simp only [pendStep] at hp; cases hp
    exact ⟨h.pos, h.order, h.pend, h.ind⟩
  | close =>
    simp only [pendStep] at hp; cases hp
    refine ⟨h.pos, ?_, fun _ => rfl, fun _ => rfl⟩
    simpa [step, close, flush] using h.order

theorem ord_runFrom (p p' : Bool) (s : State) (evs : List Event) (hp : pendRun p evs = some p')
    (h : Ord p s) : Ord p' (runFrom s evs) := by
  induction evs generalizing p s with
  | nil => simp only [pendRun] at hp; cases hp; exact h
  | cons e es ih =>
    simp only [pendRun] at hp
    cases h1 : pendStep p e with
    | none => rw [h1] at hp; cases hp
    | some p1 => rw [h1] at hp; exact ih p1 (step s e) hp (ord_step p p1 s e h1 h)

/-! ## the mark machine -/

structure Core where
  lineno : Nat
  mark : Nat
  /-- does `source_map` have an entry for `lineno`? -/
  here : Bool
  /-- `max(source_map)` (0 when empty) -/
  maxK : Nat
deriving DecidableEq, Repr

def proj (s : State) : Core := ⟨s.lineno, s.mark, (s.sourceMap.lookup s.lineno).isSome, maxKey s.sourceMap⟩

def cStart (l : Nat) (c : Core) : Core :=
  if c.here then c else { c with mark := l, here := true, maxK := c.lineno }

def cAdd (k : Nat) (o : Option Nat) (c : Core) : Core × List PLine :=
  ({ c with lineno := c.lineno + k, here := if k = 0 then c.here else false }, List.replicate k ⟨o, c.mark⟩)

def cBlock : List Str → Option Nat → Core → Core × List PLine
  | [], _, c => (c, [])
  | _ :: ps, st, c =>
    let c2 := match st with
      | some l => cStart l c
      | none => c
    let r := cAdd 1 st c2
    let r' := cBlock ps (st.map (· + 1)) r.1
    (r'.1, r.2 ++ r'.2)

def cMeta (c : Core) : Core := { c with mark := c.maxK, here := true, maxK := c.lineno }

def cstep (c : Core) : Event → Core × List PLine
  | .startSource l => (cStart l c, [])
  | .writeline none _ => (c, [])
  | .writeline (some t) o => cAdd (splitNL t).length o c
  | .writeBlanks n => cAdd n none c
  | .writeIndentedBlock b st => cBlock (splitLines b) st c
  | .metaMark => (cMeta c, [])
  | .close => (c, [])

def crun : Core → List Event → Core × List PLine
  | c, [] => (c, [])
  | c, e :: es =>
    let r := cstep c e
    let r' := crun r.1 es
    (r'.1, r.2 ++ r'.2)

theorem crun_append (c : Core) (a b : List Event) :
    crun c (a ++ b) = ((crun (crun c a).1 b).1, (crun c a).2 ++ (crun (crun c a).1 b).2) := by
  induction a generalizing c with
  | nil => simp [crun]
  | cons e es ih => simp [crun, ih, List.append_assoc]

/-- keys are bounded by `lineno` (part of `Marks`) -/
def KeysLe (s : State) : Prop := ∀ p ∈ s.sourceMap, p.1 ≤ s.lineno

theorem proj_startSource (l : Nat) (s : State) (hk : KeysLe s) :
    proj (startSource l s) = cStart l (proj s) ∧ (startSource l s).glines = s.glines := by
  unfold startSource cStart proj
  cases h : s.sourceMap.lookup s.lineno with
  | some v => simp [h]
  | none =>
    have := maxKey_le s.sourceMap s.lineno hk
    simp [maxKey_cons]
    omega

theorem proj_addLines (k : Nat) (o : Option Nat) (s : State) (hk : KeysLe s) :
    proj (addLines k o s) = (cAdd k o (proj s)).1 ∧
    (addLines k o s).glines = s.glines ++ (cAdd k o (proj s)).2 := by
  refine ⟨?_, rfl⟩
  unfold proj cAdd addLines
  by_cases h0 : k = 0
  · subst h0; simp
  · have : s.sourceMap.lookup (s.lineno + k) = none :=
      lookup_none_of_gt _ s.lineno _ hk (by omega)
    simp [h0, this]

theorem keysLe_startSource (l : Nat) (s : State) (hk : KeysLe s) : KeysLe (startSource l s) := by
  unfold startSource
  split
  · exact hk
  · intro p hp
    simp only [List.mem_cons] at hp
    rcases hp with rfl | hp
    · exact Nat.le_refl _
    · exact hk p hp

theorem keysLe_addLines (k : Nat) (o : Option Nat) (s : State) (hk : KeysLe s) : KeysLe (addLines k o s) := by
  intro p hp
  have := hk p hp
  simp only [addLines]; omega

theorem proj_congr (s s' : State) (e1 : s'.lineno = s.lineno) (e2 : s'.sourceMap = s.sourceMap)
    (e3 : s'.mark = s.mark) : proj s' = proj s := by
  simp [proj, e1, e2, e3]

theorem proj_blockLoop (ps : List Str) (st : Option Nat) (s : State) (hk : KeysLe s) :
    proj (blockLoop ps st s) = (cBlock ps st (proj s)).1 ∧
    (blockLoop ps st s).glines = s.glines ++ (cBlock ps st (proj s)).2 ∧
    KeysLe (blockLoop ps st s) := by
  induction ps generalizing st s with
  | nil => simp [blockLoop, cBlock, hk]
  | cons p t ih =>
    unfold blockLoop cBlock
    let s1 : State := { s with lineBuffer := s.lineBuffer ++ [⟨p, s.lineno⟩] }
    have hk1 : KeysLe s1 := hk
    have hp1 : proj s1 = proj s := proj_congr _ _ rfl rfl rfl
    cases st with
    | none =>
      have a := proj_addLines 1 none s1 hk1
      have b := ih none (addLines 1 none s1) (keysLe_addLines _ _ _ hk1)
      rw [hp1] at a
      refine ⟨?_, ?_, b.2.2⟩
      · simpa [a.1] using b.1
      · have := b.2.1
        simp only [Option.map_none] at this ⊢
        rw [this, a.1, a.2, List.append_assoc]
    | some l =>
      have s2 := proj_startSource l s1 hk1
      have hk2 := keysLe_startSource l s1 hk1
      have a := proj_addLines 1 (some l) (startSource l s1) hk2
      have b := ih (some (l + 1)) (addLines 1 (some l) (startSource l s1)) (keysLe_addLines _ _ _ hk2)
      rw [s2.1, hp1] at a
      refine ⟨?_, ?_, b.2.2⟩
      · simpa [a.1] using b.1
      · have := b.2.1
        simp only [Option.map_some] at this ⊢
        rw [this, a.1, a.2, s2.2, List.append_assoc]

theorem proj_step (s : State) (e : Event) (hk : KeysLe s) :
    proj (step s e) = (cstep (proj s) e).1 ∧ (step s e).glines = s.glines ++ (cstep (proj s) e).2 ∧
    KeysLe (step s e) := by
  cases e with
  | startSource l =>
    have := proj_startSource l s hk
    exact ⟨this.1, (by show (startSource l s).glines = s.glines ++ []; rw [this.2]; simp), keysLe_startSource l s hk⟩
  | writeline t o =>
    have h1 : proj (if s.inIndentLines then s else { flush s with inIndentLines := true }) = proj s := by
      split
      · rfl
      · exact proj_congr _ _ rfl rfl rfl
    have g1 : (if s.inIndentLines then s else { flush s with inIndentLines := true }).glines = s.glines := by
      split <;> rfl
    have k1 : KeysLe (if s.inIndentLines then s else { flush s with inIndentLines := true }) := by
      split
      · exact hk
      · exact hk
    cases t with
    | none =>
      simp only [step, writeline, cstep]
      exact ⟨h1, by simp [g1], k1⟩
    | some t =>
      simp only [step, writeline, cstep]
      let s1 := (if s.inIndentLines then s else { flush s with inIndentLines := true })
      have hk2 : KeysLe { s1 with out := s1.out ++ number s1.lineno (splitNL t) } := k1
      have a := proj_addLines (splitNL t).length o _ hk2
      have hp2 : proj { s1 with out := s1.out ++ number s1.lineno (splitNL t) } = proj s :=
        (proj_congr _ _ rfl rfl rfl).trans h1
      rw [hp2] at a
      refine ⟨a.1, ?_, keysLe_addLines _ _ _ hk2⟩
      rw [a.2]; show s1.glines ++ _ = _; rw [g1]
  | writeBlanks n =>
    simp only [step, writeBlanks, cstep]
    have hk2 : KeysLe { s with out := s.out ++ number s.lineno (List.replicate n []) } := hk
    have a := proj_addLines n none _ hk2
    have hp2 : proj { s with out := s.out ++ number s.lineno (List.replicate n []) } = proj s :=
      proj_congr _ _ rfl rfl rfl
    rw [hp2] at a
    exact ⟨a.1, a.2, keysLe_addLines _ _ _ hk2⟩
  | writeIndentedBlock b st =>
    simp only [step, writeIndentedBlock, cstep]
    have hk2 : KeysLe { s with inIndentLines := false } := hk
    have a := proj_blockLoop (splitLines b) st _ hk2
    have hp2 : proj { s with inIndentLines := false } = proj s := proj_congr _ _ rfl rfl rfl
    rw [hp2] at a
    exact a
  | metaMark =>
    simp only [step, cstep]
    refine ⟨?_, by simp [metaMark], ?_⟩
    · have := maxKey_le s.sourceMap s.lineno hk
      simp [proj, metaMark, cMeta, maxKey_cons]
      omega
    · intro p hp
      simp only [metaMark, List.mem_cons] at hp
      rcases hp with rfl | hp
      · exact Nat.le_refl _
      · exact hk p hp
  | close =>
    simp only [step, cstep, close]
    exact ⟨proj_congr _ _ rfl rfl rfl, by simp [flush], hk⟩

theorem proj_runFrom (s : State) (evs : List Event) (hk : KeysLe s) :
    proj (runFrom s evs) = (crun (proj s) evs).1 ∧
    (runFrom s evs).glines = s.glines ++ (crun (proj s) evs).2 ∧ KeysLe (runFrom s evs) := by
  induction evs generalizing s with
  | nil => simp [runFrom, crun, hk]
  | cons e es ih =>
    have a := proj_step s e hk
    have b := ih (step s e) a.2.2
    simp only [runFrom, List.foldl_cons, crun] at b ⊢
    rw [a.1] at b
    refine ⟨b.1, ?_, b.2.2⟩
    rw [b.2.1, a.2.1, List.append_assoc]

theorem keysLe_init : KeysLe init := by simp [KeysLe, init]

theorem keysLe_run (evs : List Event) : KeysLe (run evs) := (proj_runFrom init evs keysLe_init).2.2

/-! ## plain events (no `start_source`, no block, no metadata assignment) -/

def Event.plain : Event → Bool
  | .writeline _ _ => true
  | .writeBlanks _ => true
  | .close => true
  | _ => false

def physTotal (evs : List Event) : Nat := (evs.map Event.physLines).sum

/-- owners of the lines a plain sequence emits -/
def plainOwners : List Event → List (Option Nat)
  | [] => []
  | .writeline (some t) o :: es => List.replicate (splitNL t).length o ++ plainOwners es
  | .writeBlanks n :: es => List.replicate n none ++ plainOwners es
  | _ :: es => plainOwners es

def plainCore (c : Core) (n : Nat) : Core :=
  { c with lineno := c.lineno + n, here := if n = 0 then c.here else false }

theorem crun_plain (c : Core) (evs : List Event) (hp : ∀ e ∈ evs, e.plain = true) :
    (crun c evs).1 = plainCore c (physTotal evs) ∧
    (crun c evs).2.map (·.mark) = List.replicate (physTotal evs) c.mark ∧
    (crun c evs).2.map (·.owner) = plainOwners evs := by
  induction evs generalizing c with
  | nil => simp [crun, physTotal, plainOwners, plainCore]
  | cons e es ih =>
    have hes : ∀ e ∈ es, e.plain = true := fun x hx => hp x (by simp [hx])
    have he := hp e (by simp)
    have key : ∀ (k : Nat) (o : Option Nat), cstep c e = cAdd k o c → e.physLines = k →
        plainOwners (e :: es) = List.replicate k o ++ plainOwners es →
        (crun c (e :: es)).1 = plainCore c (physTotal (e :: es)) ∧
        (crun c (e :: es)).2.map (·.mark) = List.replicate (physTotal (e :: es)) c.mark ∧
        (crun c (e :: es)).2.map (·.owner) = plainOwners (e :: es) := by
      intro k o hc hk ho
      have ih' := ih (cAdd k o c).1 hes
      simp only [crun, hc]
      have pt : physTotal (e :: es) = k + physTotal es := by simp [physTotal, hk]
      refine ⟨?_, ?_, ?_⟩
      · rw [ih'.1, pt]
        simp only [cAdd, plainCore]
        by_cases h0 : k = 0
        · subst h0; simp
        · by_cases h1 : physTotal es = 0
          · simp [h0, h1]
          · simp [h0, h1]; omega
      · rw [List.map_append, ih'.2.1, pt]
        simp [cAdd, List.replicate_append_replicate]
      · rw [List.map_append, ih'.2.2, ho]
        simp [cAdd]
    cases e with
    | startSource l => simp [Event.plain] at he
    | writeIndentedBlock b st => simp [Event.plain] at he
    | metaMark => simp [Event.plain] at he
    | writeline t o =>
      cases t with
      | none =>
        have := key 0 none (by simp [cstep, cAdd]) rfl (by simp [plainOwners])
        exact this
      | some t => exact key (splitNL t).length o rfl rfl rfl
    | writeBlanks n => exact key n none rfl rfl rfl
    | close =>
      have := key 0 none (by simp [cstep, cAdd]) rfl (by simp [plainOwners])
      exact this

/-! ## stability of entries -/

theorem lookup_startSource (l g v : Nat) (s : State) (h : s.sourceMap.lookup g = some v) :
    (startSource l s).sourceMap.lookup g = some v := by
  unfold startSource
  cases hl : s.sourceMap.lookup s.lineno with
  | some w => simpa [hl] using h
  | none =>
    have : g ≠ s.lineno := by intro e; rw [e, hl] at h; cases h
    rw [lookup_cons_ne _ _ _ _ this]; exact h

theorem lookup_blockLoop (ps : List Str) (st : Option Nat) (g v : Nat) (s : State)
    (h : s.sourceMap.lookup g = some v) : (blockLoop ps st s).sourceMap.lookup g = some v := by
  induction ps generalizing st s with
  | nil => exact h
  | cons p t ih =>
    unfold blockLoop
    apply ih
    cases st with
    | none => exact h
    | some l => exact lookup_startSource l g v _ h

def Event.isMeta : Event → Bool
  | .metaMark => true
  | _ => false

theorem lookup_step (s : State) (e : Event) (g v : Nat) (hm : e.isMeta = false)
    (h : s.sourceMap.lookup g = some v) : (step s e).sourceMap.lookup g = some v := by
  cases e with
  | startSource l => exact lookup_startSource l g v s h
  | writeline t o =>
    have e1 : (if s.inIndentLines then s else { flush s with inIndentLines := true }).sourceMap
        = s.sourceMap := by split <;> rfl
    cases t with
    | none => simp only [step, writeline]; rw [e1]; exact h
    | some t => simp only [step, writeline, addLines]; rw [e1]; exact h
  | writeBlanks n => exact h
  | writeIndentedBlock b st => exact lookup_blockLoop _ _ g v _ h
  | metaMark => simp [Event.isMeta] at hm
  | close => exact h

theorem lookup_runFrom (s : State) (evs : List Event) (g v : Nat) (hm : ∀ e ∈ evs, e.isMeta = false)
    (h : s.sourceMap.lookup g = some v) : (runFrom s evs).sourceMap.lookup g = some v := by
  induction evs generalizing s with
  | nil => exact h
  | cons e es ih =>
    exact ih (step s e) (fun x hx => hm x (by simp [hx])) (lookup_step s e g v (hm e (by simp)) h)

end MakoModel.Printer

namespace MakoModel.Printer
open MakoModel.Basic

/-! ## line counting in the mark machine -/

theorem cStart_lineno (l : Nat) (c : Core) : (cStart l c).lineno = c.lineno := by
  unfold cStart; split <;> rfl

theorem cBlock_lineno (ps : List Str) (st : Option Nat) (c : Core) :
    (cBlock ps st c).1.lineno = c.lineno + ps.length := by
  induction ps generalizing st c with
  | nil => rfl
  | cons p t ih =>
    unfold cBlock
    simp only [ih, cAdd, List.length_cons]
    cases st with
    | none => simp; omega
    | some l => simp [cStart_lineno]; omega

theorem cstep_lineno (c : Core) (e : Event) : (cstep c e).1.lineno = c.lineno + e.physLines := by
  cases e with
  | startSource l => simp [cstep, cStart_lineno, Event.physLines]
  | writeline t o => cases t <;> simp [cstep, cAdd, Event.physLines]
  | writeBlanks n => simp [cstep, cAdd, Event.physLines]
  | writeIndentedBlock b st => simp [cstep, cBlock_lineno, Event.physLines]
  | metaMark => simp [cstep, cMeta, Event.physLines]
  | close => simp [cstep, Event.physLines]

theorem crun_lineno (c : Core) (evs : List Event) : (crun c evs).1.lineno = c.lineno + physTotal evs := by
  induction evs generalizing c with
  | nil => simp [crun, physTotal]
  | cons e es ih =>
    simp only [crun, ih, cstep_lineno, physTotal, List.map_cons, List.sum_cons]
    omega

theorem run_lineno (evs : List Event) : (run evs).lineno = 1 + physTotal evs := by
  have := (proj_runFrom init evs keysLe_init).1
  have h2 := crun_lineno (proj init) evs
  rw [← this] at h2
  simpa [proj, init, run] using h2

/-! ## the dense reading of the map over the lines emitted so far -/

/-- `[fillAt m 1, …, fillAt m (lineno-1)]`: what `full_line_map` says for every generated line emitted
    so far (it *is* `full_line_map` once the metadata assignment has been made, see
    `fullLineMap_eq_dense`) -/
def denseMap (s : State) : List Nat := (List.range (s.lineno - 1)).map fun i => fillAt s.sourceMap (i + 1)

theorem denseMap_eq_marks (s : State) (h : Marks s) : denseMap s = s.glines.map (·.mark) := by
  apply List.ext_getElem?
  intro i
  have hg := h.ghost
  simp only [denseMap, List.getElem?_map]
  by_cases hi : i < s.glines.length
  · have : i < s.lineno - 1 := by omega
    rw [List.getElem?_eq_getElem hi]
    simp only [List.getElem?_range this, Option.map_some]
    congr 1
    exact h.past i _ (List.getElem?_eq_getElem hi)
  · have h1 : s.glines[i]? = none := List.getElem?_eq_none_iff.mpr (by omega)
    have h2 : (List.range (s.lineno - 1))[i]? = none := by
      rw [List.getElem?_eq_none_iff]; simp; omega
    simp [h1, h2]

theorem fullLineMap_eq_dense (s : State) (hk : KeysLe s) :
    fullLineMap (metaMark s).sourceMap = denseMap s := by
  apply List.ext_getElem?
  intro i
  have hm : maxKey (metaMark s).sourceMap = s.lineno := by
    have := maxKey_le s.sourceMap s.lineno hk
    simp [metaMark, maxKey_cons]; omega
  rw [fullLineMap_getElem?, hm]
  simp only [denseMap, List.getElem?_map]
  by_cases hi : i < s.lineno - 1
  · simp only [hi, if_true, List.getElem?_range hi, Option.map_some]
    congr 1
    show fillAt ((s.lineno, maxKey s.sourceMap) :: s.sourceMap) (i + 1) = _
    exact fillAt_cons_lt _ _ _ _ (by omega)
  · have h2 : (List.range (s.lineno - 1))[i]? = none := by
      rw [List.getElem?_eq_none_iff]; simp; omega
    simp [hi]

/-- the two runs of the "forgotten `start_source`" diagnostic, on the mark machine -/
theorem forgotten_core (c0 : Core) (hfresh : c0.here = false) (mid post : List Event) (l m : Nat)
    (hmid : ∀ e ∈ mid, e.plain = true) (hn : 1 ≤ physTotal mid) :
    let A := crun c0 (.startSource l :: (mid ++ .startSource m :: post))
    let B := crun c0 (mid ++ .startSource m :: post)
    ∃ tail : List PLine,
      A.1.lineno = B.1.lineno ∧
      A.2.map (·.mark) = List.replicate (physTotal mid) l ++ tail.map (·.mark) ∧
      B.2.map (·.mark) = List.replicate (physTotal mid) c0.mark ++ tail.map (·.mark) ∧
      A.2.map (·.owner) = B.2.map (·.owner) := by
  intro A B
  have hA : A = crun (cStart l c0) (mid ++ .startSource m :: post) := by
    simp [A, crun, cstep]
  have pA := crun_plain (cStart l c0) mid hmid
  have pB := crun_plain c0 mid hmid
  have hne : physTotal mid ≠ 0 := by omega
  have eq1 : (cstep (crun (cStart l c0) mid).1 (.startSource m)).1
      = (cstep (crun c0 mid).1 (.startSource m)).1 := by
    rw [pA.1, pB.1]
    simp [cstep, cStart, plainCore, hne, hfresh]
  refine ⟨(crun (cstep (crun c0 mid).1 (.startSource m)).1 post).2, ?_, ?_, ?_, ?_⟩
  · rw [hA]; simp only [B]
    rw [crun_append, crun_append]
    simp only [crun]
    rw [eq1]
  · rw [hA, crun_append]
    simp only [crun, List.map_append, pA.2.1]
    rw [eq1]
    simp [cstep, cStart, hfresh]
  · simp only [B]
    rw [crun_append]
    simp only [crun, List.map_append, pB.2.1]
    simp [cstep]
  · rw [hA]; simp only [B]
    rw [crun_append, crun_append]
    simp only [crun, List.map_append, pA.2.2, pB.2.2]
    rw [eq1]
    simp [cstep]

theorem forgotten_core_last (c0 : Core) (hfresh : c0.here = false) (mid : List Event) (l : Nat)
    (hmid : ∀ e ∈ mid, e.plain = true) :
    let A := crun c0 (.startSource l :: mid)
    let B := crun c0 mid
    A.1.lineno = B.1.lineno ∧
    A.2.map (·.mark) = List.replicate (physTotal mid) l ∧
    B.2.map (·.mark) = List.replicate (physTotal mid) c0.mark ∧
    A.2.map (·.owner) = B.2.map (·.owner) := by
  intro A B
  have hA : A = crun (cStart l c0) mid := by simp [A, crun, cstep]
  have pA := crun_plain (cStart l c0) mid hmid
  have pB := crun_plain c0 mid hmid
  refine ⟨?_, ?_, pB.2.1, ?_⟩
  · rw [hA, pA.1]; simp only [B]; rw [pB.1]; simp [plainCore, cStart_lineno]
  · rw [hA, pA.2.1]; simp [cStart, hfresh]
  · rw [hA, pA.2.2]; simp only [B]; rw [pB.2.2]

end MakoModel.Printer
