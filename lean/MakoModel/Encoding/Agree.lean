import MakoModel.Encoding.Codecs
import MakoModel.Encoding.Module
import MakoModel.Encoding.Sniff
/-! The comment `decode_raw_stream` finds in the bytes of a text is the comment the text carries (under `HeaderOk`);
what follows from that for `chooseBytes`; small facts about `render`. -/
namespace MakoModel.Encoding
open MakoModel.Basic

theorem decisive_split (L r : Text) : L ++ '\n' :: r = (L ++ ['\n']) ++ r := by simp

theorem decisive_ascii (L : Text) (h : DecisiveLine L) : isAsciiText (L ++ ['\n']) = true := by
  rw [isAsciiText_append, h.1]; decide

theorem sniff_agree_line (c : Codec) (hA : AsciiPrefix c) (L r : Text) (b : Bytes) (hL : DecisiveLine L)
    (he : c.enc (L ++ '\n' :: r) = some b) :
    sniff b = codingName (L ++ '\n' :: r) ∧ stripBom b = none := by
  rw [decisive_split] at he
  obtain ⟨b', _, rfl⟩ := hA.split (decisive_ascii L hL) he
  refine ⟨by rw [sniff_line L b' hL, codingName_line L r hL], ?_⟩
  cases L with
  | nil => exact stripBom_ascii_head 10 _ (by decide)
  | cons a L =>
    have ha : a.toNat < 128 := by
      have := hL.1
      simp only [isAsciiText, List.all_cons, Bool.and_eq_true] at this
      simpa [isAsciiChar] using this.1
    exact stripBom_ascii_head a.toNat _ ha

theorem sniff_agree (c : Codec) (hA : AsciiCompatible c) (t : Text) (b : Bytes) (he : c.enc t = some b)
    (hh : HeaderOk t) : sniff b = codingName t := by
  rcases hh with ⟨L, r, rfl, hL⟩ | hf
  · exact (sniff_agree_line c (asciiPrefix_of_asciiCompatible c hA) L r b hL he).1
  · obtain ⟨h1, h2⟩ := sniff_none_of_firstAscii c hA t b he hf
    rw [h1, h2]

theorem chooseBytes_of_agree (env : Env) (t : Text) (b : Bytes) (known : Option Name) (hb : stripBom b = none)
    (hs : sniff b = codingName t) : chooseBytes env b known = .ok (chooseStr t known, b) := by
  simp only [chooseBytes, hb, hs, chooseStr, defaults_are_utf8.1, defaults_are_utf8.2.1]
  cases codingName t <;> rfl

theorem chooseBytes_bom_of_agree (env : Env) (t : Text) (b r : Bytes) (known : Option Name) (hb : stripBom b = some r)
    (hs : sniff r = codingName t) (hc : codingName t = none ∨ ∃ n, codingName t = some n ∧ env.isUtf8 n = true) :
    chooseBytes env b known = .ok (utf8Name, r) := by
  simp only [chooseBytes, hb, hs, defaults_are_utf8.2.2.1, bomAgrees, bom_compared_by_codec, if_true]
  rcases hc with hc | ⟨n, hc, hn⟩
  · simp [hc]
  · simp [hc, hn]

theorem stripBom_bom_append (b : Bytes) : stripBom (Generated.Encoding.bom ++ b) = some b := by
  simp [stripBom, bom_is_utf8_bom]

theorem lexStart_of_decode (env : Env) (inp : Input) (known : Option Name) (n : Name) (t : Text)
    (h : decodeRawStream env inp true known = .ok (n, .str t)) :
    lexStart env inp known = .ok ⟨n, t, codingSkip t⟩ := by
  simp [lexStart, h]

/-! ### a matched name is never empty; what `chooseBytes` returns without a BOM -/

theorem codingTail_name_ne_nil (t : Text) (n : Name) (rest : Text) (h : codingTail t = some (n, rest)) : n ≠ [] := by
  unfold codingTail at h
  simp only at h
  split at h
  · cases h
  · rename_i hne
    simp only [Option.map_eq_some_iff] at h
    obtain ⟨_, _, h⟩ := h
    injection h with h1 _
    subst h1
    simpa using hne

theorem codingScan_name_ne_nil (s : Text) : ∀ n rest, codingScan s = some (n, rest) → n ≠ [] := by
  induction s with
  | nil => intro n rest h; simp [codingScan] at h
  | cons a s ih =>
    intro n rest h
    simp only [codingScan] at h
    split at h
    · cases h
    · split at h
      · rename_i r' hr'
        injection h with h
        subst h
        exact ih _ _ hr'
      · cases hsc : startsCoding (a :: s) with
        | none => simp [hsc] at h
        | some tl =>
          simp only [hsc, Option.bind_some] at h
          exact codingTail_name_ne_nil tl n rest h

theorem codingName_ne_nil (t : Text) (n : Name) (h : codingName t = some n) : n ≠ [] := by
  simp only [codingName, Option.map_eq_some_iff] at h
  obtain ⟨⟨nm, rest⟩, hm, rfl⟩ := h
  unfold codingMatch at hm
  split at hm
  · exact codingScan_name_ne_nil _ _ _ hm
  · cases hm

theorem orDefault_ne_nil (known : Option Name) (d : Name) (hd : d ≠ []) : orDefault known d ≠ [] := by
  unfold orDefault
  split
  · simp
  · exact hd

/-- whatever `chooseBytes` chooses: the bytes to decode are the input without its BOM, the name is not empty -/
theorem chooseBytes_ok (env : Env) (b r : Bytes) (known : Option Name) (n : Name)
    (h : chooseBytes env b known = .ok (n, r)) : r = (stripBom b).getD b ∧ n ≠ [] := by
  simp only [chooseBytes] at h
  have hu : Generated.Encoding.bomEncoding ≠ [] := by rw [defaults_are_utf8.2.2.1]; decide
  cases hbom : stripBom b with
  | some r' =>
    simp only [hbom] at h
    cases hs : sniff r' with
    | some m =>
      simp only [hs] at h
      split at h
      · injection h with h; injection h with h1 h2
        subst h1; subst h2
        exact ⟨rfl, hu⟩
      · cases h
    | none =>
      simp only [hs] at h
      injection h with h; injection h with h1 h2
      subst h1; subst h2
      exact ⟨rfl, hu⟩
  | none =>
    simp only [hbom] at h
    cases hs : sniff b with
    | some m =>
      simp only [hs] at h
      injection h with h; injection h with h1 h2
      subst h1; subst h2
      exact ⟨rfl, codingName_ne_nil _ _ hs⟩
    | none =>
      simp only [hs] at h
      injection h with h; injection h with h1 h2
      subst h1; subst h2
      exact ⟨rfl, orDefault_ne_nil _ _ (by rw [defaults_are_utf8.2.1]; decide)⟩

/-! ### `render` -/

theorem foldl_write (ws : List Text) (b : Buffer) :
    ws.foldl Buffer.write b = { b with data := b.data ++ ws } := by
  induction ws generalizing b with
  | nil => simp
  | cons w ws ih => simp [List.foldl, ih, Buffer.write]

end MakoModel.Encoding
